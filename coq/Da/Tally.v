(* C09 — the tally of validity proofs and the epoch-end slashing decision of x/da.

   Source modelled (sunrise, x/da/keeper):
     abci.go  TallyValidityProofs : the whole per-item body (lines 181-351)
     keeper_threshold.go  GetZkpThreshold
     keeper_slash.go  HandleSlashEpoch
   and, written separately from the property text, the reference verdict / fault
   computation on SETS of distinct validators per shard ([verdict_spec], [faulted_spec]).

   Inputs read from the running application (oracles, never axioms): the bonded validators
   in the keeper's iteration order, types.ShardIndicesForValidator for every (validator,
   item) at the keeper's own threshold ([it_asg]), the staking flags of every operator
   ([vinfo]).  Addresses are small integers chosen by the harness; a validator and its
   account address (the [Sender] of its proof record) share the same integer, as they
   share the same bytes in the implementation.

   The code is modelled as it is after the four repairs proposed with this check
   (notes/patches/C09-*.patch).  Every repaired place is controlled by a boolean so
   that the model of the code as it was is the same text with the flag off; the
   regression lemmas of TallyProofs.v are stated about the flags-off model.

   Not modelled: bank payouts of the verdict branches (C08), uint64 wrap-around of the
   counters (2^64 tallies), collections/store errors. *)
From Coq Require Import ZArith List Bool.
Import ListNotations.
From Sunrise Require Import Base.Outcome Base.Dec.
Local Open Scope Z_scope.
Local Open Scope res_scope.

(* ------------------------------------------------------------------ data *)

Record proof := { pf_sender : Z; pf_indices : list Z }.

Record item := {
  it_n : Z;                       (* len(data.ShardDoubleHashes) *)
  it_parity : Z;                  (* data.ParityShardCount *)
  it_proofs : list proof;         (* k.GetProofs(uri), store order *)
  it_asg : list (Z * list Z);     (* bonded validator -> ShardIndicesForValidator(val, threshold, n) *)
  it_ninv : Z;                    (* len(k.GetInvalidities(uri)) *)
  it_ncoins : Z                   (* len(data.PublishDataCollateral) *)
}.

Inductive verdict := Verified | Rejected.

Definition memz (x : Z) (l : list Z) : bool := existsb (Z.eqb x) l.
Definition mem2 (i s : Z) (l : list (Z * Z)) : bool :=
  existsb (fun q => (i =? fst q) && (s =? snd q)) l.

(* ------------------------------------------------------------------ proof counting
   abci.go:188-198.  shardProofCount is an association list in insertion order,
   shardProofSubmitted the list of (index, sender) pairs present in the nested map.
   [fx_dup] = repair "count an (index, sender) pair once". *)

Fixpoint incr (c : list (Z * Z)) (i : Z) : list (Z * Z) :=
  match c with
  | [] => [(i, 1)]
  | (j, k) :: tl => if i =? j then (j, k + 1) :: tl else (j, k) :: incr tl i
  end.

Definition count_index (fx_dup : bool) (sender : Z) (st : list (Z * Z) * list (Z * Z)) (i : Z)
  : list (Z * Z) * list (Z * Z) :=
  let '(cnt, sub) := st in
  if mem2 i sender sub then (if fx_dup then cnt else incr cnt i, sub)
  else (incr cnt i, (i, sender) :: sub).

Definition count_proof (fx_dup : bool) (st : list (Z * Z) * list (Z * Z)) (p : proof) :=
  fold_left (count_index fx_dup (pf_sender p)) (pf_indices p) st.

Definition count_proofs (fx_dup : bool) (ps : list proof) : list (Z * Z) * list (Z * Z) :=
  fold_left (count_proof fx_dup) ps ([], []).

(* ------------------------------------------------------------------ thresholds *)

Definition INT64_MAX : Z := 9223372036854775807.
Definition UINT64_MAX : Z := 18446744073709551615.

(* keeper_threshold.go (after "bound the DA replication factor ...", 9a90e6f):
     if numActive == 0 { return 0, error }            -- [no_active], handled by the caller
     c := rf.MulInt64(n).QuoInt64(numActive).Ceil()
     threshold := n; if c.LT(NewDec(n)) { threshold = max(c.TruncateInt64(), 1) }
   None = panic (decimal range, Int64() out of bound). *)
Definition zkp_threshold (rf n nact : Z) : option Z :=
  let? a := dmul_int rf n in
  let? b := dquo_int a nact in
  let? c := dceil b in
  if c <? n * P then
    let t := dtrunc_int c in
    if (t <=? INT64_MAX) && (- INT64_MAX - 1 <=? t) then Some (Z.max t 1) else None
  else Some n.

(* the formula before that commit: min(max(ceil(..).TruncateInt64(), 1), n) *)
Definition zkp_threshold_old (rf n nact : Z) : option Z :=
  let? a := dmul_int rf n in
  let? b := dquo_int a nact in
  let? c := dceil b in
  let t := dtrunc_int c in
  if (t <=? INT64_MAX) && (- INT64_MAX - 1 <=? t) then Some (Z.min (Z.max t 1) n) else None.

(* abci.go:220-228  rf.MulInt64(n - parity).QuoInt64(n).MulInt64(2).QuoInt64(3) *)
Definition safe_thr (rf n parity : Z) : option Z :=
  let? a := dmul_int rf (n - parity) in
  let? b := dquo_int a n in
  let? c := dmul_int b 2 in
  dquo_int c 3.

(* ------------------------------------------------------------------ one item *)

Definition asg_of (it : item) (v : Z) : list Z :=
  match find (fun e => fst e =? v) (it_asg it) with Some e => snd e | None => [] end.

(* indexedValidators[i], abci.go:205-211 *)
Definition indexed (it : item) (active : list Z) (i : Z) : list Z :=
  flat_map (fun v => map (fun _ => v) (filter (Z.eqb i) (asg_of it v))) active.

(* faultValidators[v] = v *)
Definition add_fault (fs : list Z) (v : Z) : list Z := if memz v fs then fs else fs ++ [v].

Definition fault_step (sub : list (Z * Z)) (i : Z) (fs : list Z) (v : Z) : list Z :=
  if mem2 i v sub then fs else add_fault fs v.

(* one iteration of `for index, proofCount := range shardProofCount`, abci.go:214-236.
   Go visits the keys in an unspecified order; TallyPerm.v proves the order irrelevant. *)
Definition safe_step (rf : Z) (it : item) (active : list Z) (sub : list (Z * Z))
  (acc : option (list Z * list Z)) (e : Z * Z) : option (list Z * list Z) :=
  let? (safe, fs) := acc in
  if it_n it <? it_parity it then Some (safe, fs)
  else
    let? t := safe_thr rf (it_n it) (it_parity it) in
    if t <=? snd e * P
    then Some (safe ++ [fst e], fold_left (fault_step sub (fst e)) (indexed it active (fst e)) fs)
    else Some (safe, fs).

Record item_res := { ir_verdict : verdict; ir_safe : list Z; ir_faults : list Z }.

(* [fs0] is the content of faultValidators when the item's iteration starts.
   [fx_guard] = repair "no reward division when there is no invalidity record". *)
Definition tally_item (fx_dup fx_guard : bool) (rf : Z) (active : list Z) (fs0 : list Z) (it : item)
  : option item_res :=
  let '(cnt, sub) := count_proofs fx_dup (it_proofs it) in
  let? _ := zkp_threshold rf (it_n it) (Z.of_nat (length active)) in
  let? (safe, fs) := fold_left (safe_step rf it active sub) cnt (Some ([], fs0)) in
  if Z.of_nat (length safe) + it_parity it <? it_n it then
    if negb fx_guard && (0 <? it_ncoins it) && (it_ninv it =? 0) then None   (* QuoInt64(0) *)
    else Some {| ir_verdict := Rejected; ir_safe := safe; ir_faults := fs |}
  else Some {| ir_verdict := Verified; ir_safe := safe; ir_faults := fs |}.

(* ------------------------------------------------------------------ one block *)

Record tstate := { ts_fc : Z -> Z;   (* fault counter per operator, 0 = no entry *)
                   ts_cc : Z }.      (* challenge counter *)

Definition bump (f : Z -> Z) (v : Z) : Z -> Z := fun x => if x =? v then f x + 1 else f x.

(* [fx_leak] = repair "faultValidators is created per item". *)
(* The verdict list carries None for an item that was skipped: with no bonded validator
   GetZkpThreshold returns an error, the tally logs it and `continue`s — status, records and
   counters of the item stay as they are. *)
Fixpoint tally_items (fx_dup fx_leak fx_guard : bool) (rf : Z) (active : list Z) (fs : list Z)
  (its : list item) (st : tstate) : option (tstate * list (option verdict)) :=
  match its with
  | [] => Some (st, [])
  | it :: tl =>
      match active with
      | [] =>
          let? (st'', vs) := tally_items fx_dup fx_leak fx_guard rf active fs tl st in
          Some (st'', None :: vs)
      | _ :: _ =>
          let? r := tally_item fx_dup fx_guard rf active (if fx_leak then [] else fs) it in
          let st' := {| ts_fc := fold_left bump (ir_faults r) (ts_fc st); ts_cc := ts_cc st + 1 |} in
          let? (st'', vs) := tally_items fx_dup fx_leak fx_guard rf active (ir_faults r) tl st' in
          Some (st'', Some (ir_verdict r) :: vs)
      end
  end.

(* ------------------------------------------------------------------ epoch end *)

Record vinfo := { vi_exists : bool; vi_jailed : bool; vi_bonded : bool }.

(* keeper_slash.go:95  sft.MulInt64(cc).Ceil().TruncateInt().Uint64() *)
Definition slash_threshold (sft cc : Z) : option Z :=
  let? a := dmul_int sft cc in
  let? c := dceil a in
  let t := dtrunc_int c in
  if (0 <=? t) && (t <=? UINT64_MAX) then Some t else None.

Definition clear (f : Z -> Z) (v : Z) : Z -> Z := fun x => if x =? v then 0 else f x.

(* the handler of IterateFaultCounters for operator v.
   [fx_reset] = repair "the counter of an operator that is no longer a validator is deleted too". *)
Definition slash_one (fx_reset : bool) (thr : Z) (info : Z -> vinfo)
  (acc : list Z * (Z -> Z)) (v : Z) : list Z * (Z -> Z) :=
  let '(sl, f) := acc in
  let i := info v in
  if negb (vi_exists i) then (sl, if fx_reset then clear f v else f)
  else if vi_jailed i || negb (vi_bonded i) then (sl, clear f v)
  else if f v <=? thr then (sl, clear f v)
  else (sl ++ [v], clear f v).                      (* Slash, then Jail *)

(* [dom]: the operators visited; any duplicate-free list containing every operator with a
   non-zero counter gives the same result (an absent entry reads 0 and 0 <= threshold). *)
Definition slash_epoch (fx_reset : bool) (sft : Z) (info : Z -> vinfo) (dom : list Z) (st : tstate)
  : option (list Z * tstate) :=
  let? thr := slash_threshold sft (ts_cc st) in
  let '(sl, f) := fold_left (slash_one fx_reset thr info) dom ([], ts_fc st) in
  Some (sl, {| ts_fc := f; ts_cc := 0 |}).

(* ------------------------------------------------------------------ the DA end blocker,
   phases 5 and 6 (abci.go:43-52) *)
Record fixes := { fx_dup : bool; fx_leak : bool; fx_guard : bool; fx_reset : bool }.
Definition all_fixed := {| fx_dup := true; fx_leak := true; fx_guard := true; fx_reset := true |}.
Definition as_found := {| fx_dup := false; fx_leak := false; fx_guard := false; fx_reset := false |}.

Definition end_block (fx : fixes) (rf sft : Z) (epoch : bool) (active : list Z) (info : Z -> vinfo)
  (dom : list Z) (its : list item) (st : tstate) : option (tstate * list (option verdict) * list Z) :=
  let? (st1, vs) := tally_items (fx_dup fx) (fx_leak fx) (fx_guard fx) rf active [] its st in
  if epoch then
    let? (sl, st2) := slash_epoch (fx_reset fx) sft info dom st1 in Some (st2, vs, sl)
  else Some (st1, vs, []).

(* the repaired code *)
Definition tally_item1 (rf : Z) (active : list Z) (it : item) : option item_res :=
  tally_item true true rf active [] it.
Definition tally_block (rf : Z) (active : list Z) (its : list item) (st : tstate) :=
  tally_items true true true rf active [] its st.

(* ------------------------------------------------------------------ reference computation,
   from the property text:

   "A challenged item is rejected exactly when the number of shards proven by enough
    distinct bonded validators, plus the parity shard count, is smaller than the shard
    count; repeating an index or proving twice does not count twice.  A validator's fault
    counter rises by one for an item exactly when it was assigned a shard that was proven
    safe and did not prove it."

   Shards are the numbers 0 .. n-1.  The validators that proved shard i form a SET.
   "Enough" is the module's threshold: at least one, and at least
   2/3 * replication_factor * data_shards / shards in the module's decimal arithmetic
   ([safe_thr]; TallyProofs.safe_thr_bracket relates it to the exact fraction). *)

Definition proves (p : proof) (i : Z) : bool := memz i (pf_indices p).

Definition provers (ps : list proof) (i : Z) : list Z :=
  nodup Z.eq_dec (map pf_sender (filter (fun p => proves p i) ps)).

Definition enough (rf n parity k : Z) : bool :=
  match safe_thr rf n parity with
  | Some t => (1 <=? k) && (t <=? k * P)
  | None => false
  end.

Definition safe_spec (rf : Z) (it : item) (i : Z) : bool :=
  enough rf (it_n it) (it_parity it) (Z.of_nat (length (provers (it_proofs it) i))).

Definition shards (n : Z) : list Z := map Z.of_nat (seq 0 (Z.to_nat n)).

Definition safe_count_spec (rf : Z) (it : item) : Z :=
  Z.of_nat (length (filter (safe_spec rf it) (shards (it_n it)))).

Definition verdict_spec (rf : Z) (it : item) : verdict :=
  if safe_count_spec rf it + it_parity it <? it_n it then Rejected else Verified.

Definition proved_by (it : item) (v i : Z) : bool :=
  existsb (fun p => (pf_sender p =? v) && proves p i) (it_proofs it).

Definition faulted_spec (rf : Z) (active : list Z) (it : item) (v : Z) : bool :=
  memz v active &&
  existsb (fun i => safe_spec rf it i && negb (proved_by it v i)) (asg_of it v).

(* what the message handler guarantees about stored records (SubmitValidityProof refuses
   an index >= n and panics, hence fails, on a negative one; PublishData requires
   parity < n) *)
Definition item_wf (it : item) : bool :=
  forallb (fun p => forallb (fun i => (0 <=? i) && (i <? it_n it)) (pf_indices p)) (it_proofs it)
  && (0 <=? it_parity it) && (it_parity it <=? it_n it).

(* the counters as the property says they stand after a block tallied [its] *)
Definition faults_in (rf : Z) (active : list Z) (its : list item) (x : Z) : Z :=
  Z.of_nat (length (filter (fun it => faulted_spec rf active it x) its)).

(* with no bonded validator nothing is tallied *)
Definition tallied (active : list Z) (its : list item) : list item :=
  match active with [] => [] | _ :: _ => its end.

Definition expected_verdicts (rf : Z) (active : list Z) (its : list item) : list (option verdict) :=
  match active with
  | [] => map (fun _ => None) its
  | _ :: _ => map (fun it => Some (verdict_spec rf it)) its
  end.

Definition mid_of (rf : Z) (active : list Z) (its : list item) (st : tstate) : tstate :=
  {| ts_fc := fun x => ts_fc st x + faults_in rf active its x;
     ts_cc := ts_cc st + Z.of_nat (length (tallied active its)) |}.

(* epoch end, from the property text: "at epoch end exactly the bonded validators whose
   faults exceed the threshold share of challenges are slashed and jailed, and counters
   are reset".  The threshold share is ceil(slash_fault_threshold * challenges). *)
Definition slashed_spec (sft : Z) (info : Z -> vinfo) (st : tstate) (v : Z) : bool :=
  match slash_threshold sft (ts_cc st) with
  | Some thr =>
      vi_exists (info v) && vi_bonded (info v) && negb (vi_jailed (info v)) && (thr <? ts_fc st v)
  | None => false
  end.
