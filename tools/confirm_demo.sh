#!/bin/sh
# confirm_demo.sh <MUTDIR> <ID> <subdir> <skip-regex> <demo command>
# In the scratch worktree <MUTDIR>/<ID> (seeded change applied, demo file in place): build, the
# repository's tests with the demo skipped, demo WITH the change (must fail), demo WITHOUT (must pass).
M=$1; id=$2; dir=$3; skip=$4; cmd=$5; wt=$M/$id
export GOPROXY=off GOSUMDB=off GOTOOLCHAIN=local
cd $wt || exit 2
echo "--- build"; (timeout 1200 go build ./... && echo BUILD-OK)
echo "--- existing tests, demo skipped ($skip)"
if [ "$dir" = "." ]; then (timeout 2400 go test -vet=off -count=1 -skip "$skip" ./x/... ./app/... 2>&1 | grep -v "no test files" | tail -25)
else (cd $dir && timeout 2400 go test -vet=off -count=1 -skip "$skip" ./... 2>&1 | tail -6); (timeout 2400 go test -vet=off -count=1 ./x/da/... 2>&1 | grep -v "no test files" | tail -5); fi
echo "--- demo WITH change"; (cd $dir && timeout 2400 sh -c "$cmd" 2>&1 | tail -6)
git diff -- . ':(exclude)*_test.go' > $M/$id.srcpatch; git checkout -- $(git diff --name-only | grep -v _test.go)
echo "--- demo WITHOUT change"; (cd $dir && timeout 2400 sh -c "$cmd" 2>&1 | tail -4)
git apply $M/$id.srcpatch && echo "patch re-applied"
