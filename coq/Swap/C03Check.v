(* Correspondence + monitors for C03 (swap routes). Evaluated by generated cases files.

   One case = one Msg/SwapExactAmountIn|Out executed on the real application, plus the matching
   Query/CalculationSwapExactAmountIn|Out on the pre-state. The liquidity-pool keeper is the
   oracle: the harness records every call the swap keeper made into it (recorder around the
   real keeper) and the model looks the pool results up in that table. *)
From Coq Require Import ZArith List Bool.
Import ListNotations.
From Sunrise Require Export Base.Outcome Base.Dec Base.Bank Base.Check Swap.Route.
Local Open Scope Z_scope.

(* one recorded call: kind 1 = CalculateResultExactAmountIn, 2 = ...Out, 3 = SwapExactAmountIn,
   4 = SwapExactAmountOut; err 0 = nil; debit/credit = what the sender's balances of the two
   denoms did around an executed hop *)
Inductive hop_obs := HO (kind pid din dout amt err res debit credit : Z).
Definition ho_kind h := match h with HO k _ _ _ _ _ _ _ _ => k end.
Definition ho_pid h := match h with HO _ p _ _ _ _ _ _ _ => p end.
Definition ho_din h := match h with HO _ _ d _ _ _ _ _ _ => d end.
Definition ho_dout h := match h with HO _ _ _ d _ _ _ _ _ => d end.
Definition ho_amt h := match h with HO _ _ _ _ a _ _ _ _ => a end.
Definition ho_err h := match h with HO _ _ _ _ _ e _ _ _ => e end.
Definition ho_res h := match h with HO _ _ _ _ _ _ r _ _ => r end.
Definition ho_debit h := match h with HO _ _ _ _ _ _ _ d _ => d end.
Definition ho_credit h := match h with HO _ _ _ _ _ _ _ _ c => c end.

Definition E_ORACLE_MISS : Z := -7.    (* never an observed class: forces a mismatch *)

Fixpoint lookup (k pid din dout amt : Z) (tb : list hop_obs) : option hop_obs :=
  match tb with
  | [] => None
  | h :: tl =>
      if (ho_kind h =? k) && (ho_pid h =? pid) && (ho_din h =? din) && (ho_dout h =? dout) && (ho_amt h =? amt)
      then Some h else lookup k pid din dout amt tl
  end.

Definition PSo : Type := Z * list hop_obs.    (* pool id, table *)

Definition oq (k : Z) (ps : PSo) (din dout a : Z) : res Z :=
  match lookup k (fst ps) din dout a (snd ps) with
  | Some h => if ho_err h =? 0 then Ok (ho_res h) else Err (ho_err h)
  | None => Err E_ORACLE_MISS
  end.
Definition opq_in := oq 1.
Definition opq_out := oq 2.
(* an executed hop: what it returned and what it moved; when the real hop failed in the bank
   (class 5) or was not reached, the compute result is the quote's and the model's own bank
   decides about the funds *)
Definition opx_in (ps : PSo) (din dout a : Z) : res (Z * Z) :=
  let fallback := match opq_in ps din dout a with Ok o => Ok (a, o) | Err e => Err e | Panic => Panic end in
  match lookup 3 (fst ps) din dout a (snd ps) with
  | Some h => if ho_err h =? 0 then Ok (ho_debit h, ho_res h)
              else if ho_err h =? E_INSUFFICIENT then fallback else Err (ho_err h)
  | None => fallback
  end.
Definition opx_out (ps : PSo) (din dout a : Z) : res (Z * Z) :=
  let fallback := match opq_out ps din dout a with Ok i => Ok (i, a) | Err e => Err e | Panic => Panic end in
  match lookup 4 (fst ps) din dout a (snd ps) with
  | Some h => if ho_err h =? 0 then Ok (ho_res h, ho_credit h)
              else if ho_err h =? E_INSUFFICIENT then fallback else Err (ho_err h)
  | None => fallback
  end.
Definition opn (ps : PSo) (_ _ _ : Z) : PSo := ps.     (* every pool is used at most once *)

(* accounts: 1 sender, 2 interface provider, 3 bystander, 1000+2p pool account, 1001+2p its fee account *)
Definition SENDER : Z := 1.
Definition PROVIDER : Z := 2.
Definition BYSTANDER : Z := 3.
Definition RECEIVER : Z := 4.     (* receiver of an incoming (IBC) swap; untouched otherwise *)
Definition opacct (pid : Z) : Z := 1000 + 2 * pid.

Definition balrow : Type := (Z * Z * Z)%type.     (* account, denom, amount *)
Fixpoint obal (l : list balrow) (a d : Z) : Z :=
  match l with
  | [] => 0
  | (a', d', v) :: tl => if (a' =? a) && (d' =? d) then v else obal tl a d
  end.

Record c03_case := {
  c_out : bool;                 (* exact-out message (else exact-in) *)
  c_route : route;
  c_amount : Z;                 (* amount_in | amount_out *)
  c_limit : Z;                  (* min_amount_out | max_amount_in *)
  c_prov : bool;                (* an interface provider (account 2) is named *)
  c_rate : Z;                   (* params.InterfaceFeeRate, raw *)
  c_found : list Z;             (* pool ids of the route that exist *)
  c_table : list hop_obs;
  c_pre : list balrow;
  c_post : list balrow;
  c_msg : res (rres * Z * Z);   (* response: result tree, interface fee, amount_out *)
  c_query : res (rres * Z * Z); (* query on the pre-state: tree, fee, amount_out | amount_in *)
  c_variant : variant;          (* probed once per run on the real code, see Route.v *)
  c_incoming : bool             (* Keeper.SwapIncomingFund: account 1 is the swap module account holding
                                   the incoming amount (= amount_in | max_amount_in), account 4 the receiver *)
}.

Definition ost := st PSo.
Definition init (c : c03_case) : ost :=
  {| bk := {| bal := obal (c_pre c); sup := fun _ => 0 |};
     pools := fun pid => if memz pid (c_found c) then Some (pid, c_table c) else None |}.

Definition m_msg (c : c03_case) : res (ost * swap_resp) :=
  let prov := if c_prov c then Some PROVIDER else None in
  if c_incoming c
  then (if c_out c
        then swap_incoming_fund PSo opq_out opx_in opx_out opn opn opacct FIXED (c_rate c) SENDER RECEIVER prov true (c_route c) (c_limit c) (c_amount c) (init c)
        else swap_incoming_fund PSo opq_out opx_in opx_out opn opn opacct FIXED (c_rate c) SENDER RECEIVER prov false (c_route c) (c_amount c) (c_limit c) (init c))
  else
  if c_out c
  then msg_swap_out PSo opq_out opx_out opn opacct FIXED (c_rate c) (c_variant c) SENDER prov (c_route c) (c_limit c) (c_amount c) (init c)
  else msg_swap_in PSo opx_in opn opacct FIXED (c_rate c) (c_variant c) SENDER prov (c_route c) (c_amount c) (c_limit c) (init c).
Definition m_query (c : c03_case) : res swap_resp :=
  if c_out c
  then query_out PSo opq_out FIXED (c_rate c) (c_variant c) (c_prov c) (c_route c) (c_amount c) (init c)
  else query_in PSo opq_in FIXED (c_rate c) (c_variant c) (c_prov c) (c_route c) (c_amount c) (init c).

Section ListEq.
  Context {A : Type} (eqb : A -> A -> bool).
  Fixpoint list_eqb (l l' : list A) : bool :=
    match l, l' with
    | [], [] => true
    | x :: t, y :: t' => eqb x y && list_eqb t t'
    | _, _ => false
    end.
End ListEq.
Fixpoint rres_eqb (a b : rres) : bool :=
  match a, b with
  | RRPool d1 a1 d2 a2 p, RRPool e1 b1 e2 b2 q =>
      (d1 =? e1) && (a1 =? b1) && (d2 =? e2) && (a2 =? b2) && (p =? q)
  | RRSeries d1 a1 d2 a2 l, RRSeries e1 b1 e2 b2 m =>
      (d1 =? e1) && (a1 =? b1) && (d2 =? e2) && (a2 =? b2) && list_eqb rres_eqb l m
  | RRParallel d1 a1 d2 a2 l, RRParallel e1 b1 e2 b2 m =>
      (d1 =? e1) && (a1 =? b1) && (d2 =? e2) && (a2 =? b2) && list_eqb rres_eqb l m
  | _, _ => false
  end.

Definition resp_eqb (r : swap_resp) (o : rres * Z * Z) : bool :=
  let '(t, fee, amt) := o in rres_eqb (sr_tree r) t && (sr_fee r =? fee) && (sr_amount r =? amt).

(* balances the model predicts vs. the observed ones: exact for user accounts; pool account +
   fee account together for a pool (the model does not split the input between them) *)
Definition bals_match (b : bank) (obs : list balrow) : bool :=
  forallb (fun row : balrow =>
    let '(a, d, v) := row in
    if a <? 1000 then bal b a d =? v
    else if Z.even a then bal b a d + bal b (a + 1) d =? v + obal obs (a + 1) d
    else true) obs.

Definition class_eqb {A B} (m : res A) (o : res B) : bool :=
  match m, o with
  | Ok _, Ok _ => true
  | Err e, Err e' => e =? e'
  | Panic, Panic => true
  | _, _ => false
  end.

Definition corr_msg (c : c03_case) : bool :=
  match m_msg c, c_msg c with
  | Ok (s', r), Ok o => resp_eqb r o && bals_match (bk s') (c_post c)
  | Err e, Err e' => (e =? e') && bals_match (bk (init c)) (c_post c)
  | Panic, Panic => bals_match (bk (init c)) (c_post c)
  | _, _ => false
  end.
Definition corr_query (c : c03_case) : bool :=
  match m_query c, c_query c with
  | Ok r, Ok o => resp_eqb r o
  | Err e, Err e' => e =? e'
  | Panic, Panic => true
  | _, _ => false
  end.

(* ---------- monitors: the property text on the observed values only *)
Definition denoms_of (l : list balrow) (a : Z) : list Z :=
  map (fun row : balrow => snd (fst row)) (filter (fun row : balrow => fst (fst row) =? a) l).
Definition delta (c : c03_case) (a d : Z) : Z := obal (c_post c) a d - obal (c_pre c) a d.
Definition din_c (c : c03_case) := r_in (c_route c).
Definition dout_c (c : c03_case) := r_out (c_route c).

(* 1: exact-in: the sender pays exactly amount_in, receives the reported net amount which is
      at least min_amount_out, nothing else of the sender changes *)
Definition mon_exact_in (c : c03_case) : bool :=
  match c_out c || c_incoming c, c_msg c with
  | false, Ok (t, fee, amt) =>
      (c_limit c <=? amt) &&
      forallb (fun d => delta c SENDER d =?
                 (if d =? dout_c c then amt else 0) - (if d =? din_c c then c_amount c else 0))
              (denoms_of (c_pre c) SENDER)
  | _, _ => true
  end.
(* 2: exact-out: the sender receives exactly amount_out, pays the reported input which is at
      most max_amount_in, nothing else changes *)
Definition mon_exact_out (c : c03_case) : bool :=
  match c_out c && negb (c_incoming c), c_msg c with
  | true, Ok (t, fee, amt) =>
      (rr_ain t <=? c_limit c) &&
      forallb (fun d => delta c SENDER d =?
                 (if d =? dout_c c then c_amount c else 0) - (if d =? din_c c then rr_ain t else 0))
              (denoms_of (c_pre c) SENDER)
  | _, _ => true
  end.
(* 3: the response names the route's denoms and the stated amounts; the provider receives
      exactly the reported fee, the bystander nothing *)
Definition mon_response (c : c03_case) : bool :=
  match c_msg c with
  | Ok (t, fee, amt) =>
      (rr_din t =? din_c c) && (rr_dout t =? dout_c c) && (0 <=? fee) &&
      (if c_out c then (amt =? c_amount c) && (rr_aout t =? amt + fee)
       else (rr_ain t =? c_amount c) && (amt =? rr_aout t - fee)) &&
      forallb (fun d => delta c PROVIDER d =? (if c_prov c && (d =? dout_c c) then fee else 0))
              (denoms_of (c_pre c) PROVIDER) &&
      forallb (fun d => delta c BYSTANDER d =? 0) (denoms_of (c_pre c) BYSTANDER) &&
      (c_incoming c || forallb (fun d => delta c RECEIVER d =? 0) (denoms_of (c_pre c) RECEIVER))
  | _ => true
  end.
(* 4: the query on the pre-state reports what the message then did *)
Definition mon_query (c : c03_case) : bool :=
  match c_msg c with
  | Ok (t, fee, amt) =>
      match c_query c with
      | Ok (tq, feeq, amtq) =>
          rres_eqb t tq && (fee =? feeq) && (if c_out c then amtq =? rr_ain t else amtq =? amt)
      | _ => false
      end
  | _ => true
  end.
(* 5: only the input denom is needed: a message that fails for lack of funds although the
      quote exists, the sender held the quoted input and every pool held the quoted outputs *)
Definition pool_can_pay (c : c03_case) (h : hop_obs) : bool :=
  if (ho_err h =? 0) && ((ho_kind h =? 1) || (ho_kind h =? 2))
  then (if ho_kind h =? 1 then ho_res h else ho_amt h) <=? obal (c_pre c) (opacct (ho_pid h)) (ho_dout h)
  else true.
Definition mon_only_input (c : c03_case) : bool :=
  match c_msg c, c_query c with
  | Err e, Ok (tq, _, _) =>
      negb ((e =? E_INSUFFICIENT) &&
            (rr_ain tq <=? obal (c_pre c) SENDER (din_c c)) &&
            forallb (pool_can_pay c) (c_table c))
  | _, _ => true
  end.
(* 6: every parallel node hands out non-negative amounts that sum to its exact amount *)
Fixpoint par_ok (rev : bool) (t : rres) : bool :=
  match t with
  | RRPool _ _ _ _ _ => true
  | RRSeries _ _ _ _ l => forallb (par_ok rev) l
  | RRParallel _ ain _ aout l =>
      let side := fun c => if rev then rr_aout c else rr_ain c in
      forallb (par_ok rev) l && forallb (fun c => 0 <=? side c) l &&
      (sumz (map side l) =? (if rev then aout else ain))
  end.
Definition mon_split (c : c03_case) : bool :=
  match c_msg c with Ok (t, _, _) => par_ok (c_out c) t | _ => true end &&
  match c_query c with Ok (t, _, _) => par_ok (c_out c) t | _ => true end.
(* 7: oracle contract of a pool hop (assumed by the theorems, observed here): an executed hop
      credits what it returns (exact-in) / debits what it returns (exact-out), and the quote of
      the same hop on the same pool state returned the same amount. Full consumption of the
      exact amount is not part of this monitor: its failure is trigger 1 below and shows in
      monitors 1 and 2. *)
Definition hop_contract (tb : list hop_obs) (h : hop_obs) : bool :=
  if ho_err h =? 0 then
    if ho_kind h =? 3 then
      (ho_credit h =? ho_res h) &&
      match lookup 1 (ho_pid h) (ho_din h) (ho_dout h) (ho_amt h) tb with
      | Some q => (ho_err q =? 0) && (ho_res q =? ho_res h) | None => true end
    else if ho_kind h =? 4 then
      (ho_debit h =? ho_res h) &&
      match lookup 2 (ho_pid h) (ho_din h) (ho_dout h) (ho_amt h) tb with
      | Some q => (ho_err q =? 0) && (ho_res q =? ho_res h) | None => true end
    else true
  else true.
Definition mon_hops (c : c03_case) : bool := forallb (hop_contract (c_table c)) (c_table c).

(* 8: a swap arriving over IBC (SwapIncomingFund): the module account pays the reported input out
      of the incoming amount and keeps nothing of the output; the receiver gets exactly the net
      output, which is amount_out (exact-out) resp. at least min_amount_out (exact-in) *)
Definition mon_incoming (c : c03_case) : bool :=
  match c_incoming c, c_msg c with
  | true, Ok (t, fee, net) =>
      (if c_out c then (net =? c_amount c) && (rr_ain t <=? c_limit c)
       else (rr_ain t =? c_amount c) && (c_limit c <=? net)) &&
      forallb (fun d => delta c SENDER d =? - (if d =? din_c c then rr_ain t else 0)) (denoms_of (c_pre c) SENDER) &&
      forallb (fun d => delta c RECEIVER d =? (if d =? dout_c c then net else 0)) (denoms_of (c_pre c) RECEIVER)
  | _, _ => true
  end.

(* trigger 1: a pool hop filled partially (consumed less than the exact input / produced less
   than the exact output) -- liquiditypool stops at the price limit without an error; repaired
   by notes/patches/C03-no-partial-fill.patch *)
Definition trig_partial (c : c03_case) : bool :=
  existsb (fun h => (ho_err h =? 0) &&
                    (((ho_kind h =? 3) && negb (ho_debit h =? ho_amt h)) ||
                     ((ho_kind h =? 4) && negb (ho_credit h =? ho_amt h)))) (c_table c).

Definition c03_check (c : c03_case) : list Z :=
  flag 0 (corr_msg c && corr_query c) ++
  flag 1 (mon_exact_in c) ++ flag 2 (mon_exact_out c) ++ flag 3 (mon_response c) ++
  flag 4 (mon_query c) ++ flag 5 (mon_only_input c) ++ flag 6 (mon_split c) ++ flag 7 (mon_hops c) ++ flag 8 (mon_incoming c) ++
  (if trig_partial c then [101] else []).

Definition run := run_cases c03_check.
