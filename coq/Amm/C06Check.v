(* C06: correspondence with the real module (per-step refinement of Amm/Pool.v extended with the
   GetClaimableFees query on every open position, the fee-account flows and an immediate repeat of
   every successful claim) + monitors for fee / incentive accrual.
   Monitors are the property text evaluated on observed values only. *)
From Coq Require Import ZArith List Bool.
Import ListNotations.
From Sunrise Require Export Amm.AmmCheck Amm.Fees.
From Sunrise Require Import Amm.LiqDefs.
Local Open Scope Z_scope.

Record c06_case := {
  k_amm : amm_case;                          (* pre-state, operation, result, post-state *)
  k_cl_pre : list (Z * res (list Z));        (* GetClaimableFees of every open position before the step *)
  k_cl_post : list (Z * res (list Z));       (* ... and after it *)
  k_drecv : vec;                             (* this step: increase of the fee-account balance *)
  k_dclaimed : vec;                          (* this step: decrease of the fee-account balance *)
  k_recv : vec;                              (* ghost: everything the fee account ever received (this step included) *)
  k_claimed : vec;                           (* ghost: everything ever paid out of it *)
  k_again : option (res (list Z))            (* successful claim: the same message repeated at once (discarded) *)
}.

Definition lookup (l : list (Z * res (list Z))) (pid : Z) : option (res (list Z)) :=
  match find (fun x => fst x =? pid) l with Some x => Some (snd x) | None => None end.
Definition is_zero_ok (r : option (res (list Z))) : bool :=
  match r with Some (Ok v) => vis_zero v | _ => false end.
Definition ok_vec (r : res (list Z)) : vec := match r with Ok v => v | _ => vzero end.
Definition sum_ok (l : list (Z * res (list Z))) : vec :=
  fold_right (fun x acc => vplus (ok_vec (snd x)) acc) vzero l.
Definition res_ok {A} (r : res A) : bool := match r with Ok _ => true | _ => false end.

(* ---- correspondence (code 0) ---- *)
Definition claimable_corr (s : amm) (l : list (Z * res (list Z))) : bool :=
  zlist_eqb (map fst l) (map pos_id (a_positions s)) &&
  forallb (fun x => res_eqb (claimable_fees s (fst x)) (snd x)) l.
Definition flows_corr (c : c06_case) : bool :=
  let a := k_amm c in
  if res_ok (c_res a)
  then zlist_eqb (received (c_pre a) (c_op a)) (k_drecv c) && zlist_eqb (claimed_by (c_pre a) (c_op a)) (k_dclaimed c)
  else vis_zero (k_drecv c) && vis_zero (k_dclaimed c).
Definition again_corr (c : c06_case) : bool :=
  match k_again c with
  | None => true
  | Some r => res_eqb (snd (step (c_post (k_amm c)) (c_op (k_amm c)))) r
  end.
Definition corr6 (c : c06_case) : bool :=
  corr (k_amm c) && claimable_corr (c_pre (k_amm c)) (k_cl_pre c) && claimable_corr (c_post (k_amm c)) (k_cl_post c) &&
  flows_corr c && again_corr c.

Definition corr6_debug (c : c06_case) :=
  (corr_debug (k_amm c),
   (claimable_corr (c_pre (k_amm c)) (k_cl_pre c), claimable_corr (c_post (k_amm c)) (k_cl_post c)),
   (flows_corr c, again_corr c),
   (received (c_pre (k_amm c)) (c_op (k_amm c)), claimed_by (c_pre (k_amm c)) (c_op (k_amm c))),
   map (fun p => claimable_fees (c_post (k_amm c)) (pos_id p)) (a_positions (c_post (k_amm c)))).

(* ---- monitors ---- *)

(* 1. fee_backing: claimed so far + claimable now <= received so far, per denom *)
Definition mon_backing (c : c06_case) : bool :=
  len4b (k_recv c) && len4b (k_claimed c) &&
  vle (vplus (k_claimed c) (sum_ok (k_cl_post c))) (k_recv c).

(* 2. the ghost totals are the fee account: balance = received - claimed (the account starts empty
      and nothing but the module moves its coins) *)
Definition mon_ghost (c : c06_case) : bool :=
  zlist_eqb (vplus (a_bal_fee (c_post (k_amm c))) (k_claimed c)) (k_recv c).

(* 3. claim once: after a successful claim the position claimed last in the message (nothing happened
      after its claim) has nothing claimable; the same message repeated at once pays nothing when it
      addresses a single position.  When it addresses n > 1 positions, the claims of the later ones
      re-inject their forfeited dust (< 1 coin each) into the accumulator, which is activity between
      the first and the second claim of the earlier ones: the repeat may then pay that recycled
      dust, less than n coins per denom in total, and nothing more *)
Definition all_same (ids : list Z) : bool :=
  match ids with [] => true | i :: r => forallb (fun j => j =? i) r end.
Definition mon_claim_once (c : c06_case) : bool :=
  match c_op (k_amm c), c_res (k_amm c) with
  | OClaim _ ids, Ok _ =>
      is_zero_ok (lookup (k_cl_post c) (last ids 0)) &&
      (if all_same ids then is_zero_ok (k_again c)
       else match k_again c with
            | Some (Ok v) => forallb (fun x => (0 <=? x) && (x <? Z.of_nat (length ids))) v
            | _ => false
            end)
  | _, _ => true
  end.

(* 4. no retroactive fees: a position that has just been created has nothing claimable *)
Definition mon_new_zero (c : c06_case) : bool :=
  match c_op (k_amm c), c_res (k_amm c) with
  | OCreate _ _ _ _ _ _ _, Ok (id :: _) => is_zero_ok (lookup (k_cl_post c) id)
  | OIncrease _ _ _ _ _ _, Ok (id :: _) => is_zero_ok (lookup (k_cl_post c) id)
  | _, _ => true
  end.

(* 5. nothing accrues outside the range: a position that the operation does not address and whose
      range [lower, upper) is disjoint from every tick the price visited during the step has exactly
      the same claimable amount afterwards *)
Definition op_targets (o : op) (pid : Z) : bool :=
  match o with
  | OIncrease _ p _ _ _ _ => p =? pid
  | ODecrease _ p _ => p =? pid
  | OClaim _ ids => existsb (fun i => i =? pid) ids
  | _ => false
  end.
Definition res_same (a b : res (list Z)) : bool :=
  match a, b with Ok x, Ok y => zlist_eqb x y | Err _, Err _ => true | Panic, Panic => true | _, _ => false end.
Definition mon_out_of_range (c : c06_case) : bool :=
  let a := k_amm c in
  if negb (res_ok (c_res a)) then true else
  let t0 := p_tick (a_pool (c_pre a)) in
  let t1 := p_tick (a_pool (c_post a)) in
  let lo_t := Z.min t0 t1 in
  let hi_t := Z.max t0 t1 in
  forallb (fun p =>
    if op_targets (c_op a) (pos_id p) then true else
    if negb ((pos_upper p <=? lo_t) || (hi_t <? pos_lower p)) then true else
    match find_pos (a_positions (c_post a)) (pos_id p), lookup (k_cl_pre c) (pos_id p), lookup (k_cl_post c) (pos_id p) with
    | Some _, Some r0, Some r1 => res_same r0 r1
    | None, _, _ => true
    | _, _, _ => false
    end) (a_positions (c_pre a)).

(* 6. the fee account moves exactly as the property says:
      swap: only the input denom is credited, and what the trader paid went to the pool and the fee
            account and nowhere else;
      incentive allocation: credited with exactly the allocated coins;
      claim: debited by exactly the coins the response reports (and the claimant receives them);
      create: untouched;  decrease / increase: debited by exactly what was claimable for that position;
      failed operation: untouched *)
Definition delta (post pre : vec) : vec := vminus post pre.
Definition mon_flows (c : c06_case) : bool :=
  let a := k_amm c in
  let dfee := delta (a_bal_fee (c_post a)) (a_bal_fee (c_pre a)) in
  let dpool := delta (a_bal_pool (c_post a)) (a_bal_pool (c_pre a)) in
  let duser := delta (a_bal_user (c_post a)) (a_bal_user (c_pre a)) in
  zlist_eqb dfee (vminus (k_drecv c) (k_dclaimed c)) &&
  match c_op a, c_res a with
  | OSwap _ di do_ _, Ok [i; o] =>
      vis_zero (vset dfee di 0) && (0 <=? vget dfee di) && vis_zero (k_dclaimed c) &&
      (vget dfee di + vget dpool di =? i) && (vget duser di =? - i) &&
      (vget duser do_ =? o) && (vget dpool do_ =? - o)
  | OAllocate coins, Ok _ => zlist_eqb dfee coins && vis_zero dpool
  | OClaim _ _, Ok v => zlist_eqb (vminus vzero dfee) v && zlist_eqb duser v && vis_zero dpool
  | OCreate _ _ _ _ _ _ _, Ok _ => vis_zero dfee
  | ODecrease _ pid _, Ok _ =>
      match lookup (k_cl_pre c) pid with Some (Ok v) => zlist_eqb (vminus vzero dfee) v | _ => false end
  | OIncrease _ pid _ _ _ _, Ok _ =>
      match lookup (k_cl_pre c) pid with Some (Ok v) => zlist_eqb (vminus vzero dfee) v | _ => false end
  | _, Ok _ => false
  | _, _ => vis_zero dfee && vis_zero dpool && vis_zero duser
  end.

(* 7. fee at the pool's rate (exact-out swaps, where every step charges fee = ceil(in * r/(1-r))):
      r * (paid - 1) <= fee   and   fee <= (r + 10^-18) * paid + 2      (paid = input including the fee) *)
Definition mon_fee_rate (c : c06_case) : bool :=
  let a := k_amm c in
  match c_op a, c_res a with
  | OSwap false di _ _, Ok [i; _] =>
      let r := p_fee (a_pool (c_pre a)) in
      let f := vget (k_drecv c) di in
      (r * (i - 1) <=? f * P) && (f * P <=? r * i + i + 2 * P)
  | _, _ => true
  end.

(* 8. incentives accrue pro rata: an allocation of c (per denom) raises the claimable amount of an
      in-range position of liquidity l, with L the active liquidity, by d with
        c*l/L - l/10^18 - 1 - 10^-18  <  d  <  c*l/L + 1 + 10^-18
      (the growth per unit of liquidity is truncated at 18 decimals once, the product with the
      liquidity rounded at 18 decimals, the payout truncated to whole coins).  l, L are raw decimals. *)
Definition mon_pro_rata (c : c06_case) : bool :=
  let a := k_amm c in
  match c_op a, c_res a with
  | OAllocate coins, Ok _ =>
      let pl := a_pool (c_pre a) in
      let L := p_liq pl in
      forallb (fun p =>
        if negb (in_range pl (pos_lower p) (pos_upper p)) then true else
        match lookup (k_cl_pre c) (pos_id p), lookup (k_cl_post c) (pos_id p) with
        | Some (Ok v0), Some (Ok v1) =>
            forallb (fun j =>
               let d := vget v1 j - vget v0 j in
               let cj := vget coins j in
               let l := pos_liq p in
               (* raw decimals: l, L scaled by 10^18 *)
               ((d - 1) * L * P <=? cj * l * P + L) &&
               (cj * l * P * P <=? (d + 1) * L * P * P + l * L + L * P)) [0; 1; 2; 3]
        | _, _ => true
        end) (a_positions (c_pre a))
  | _, _ => true
  end.

(* 10. step-wise pro-rata reference for swaps.  The fee of every trade step belongs to the liquidity
       that was in range DURING the step, pro rata.  The steps of the swap (cursor, fee charged) are
       recomputed from the observed pre-state with the swap-step arithmetic alone (prices, amounts,
       fee of each bucket step): no accumulator and no per-tick fee growth enter the reference, and
       the liquidity a step's fee is shared among is the sum over the observed positions whose range
       contains the step's cursor.  For every
       position the growth it should see is  G = sum over the steps taken while it was in range of
       QuoTruncate(step fee, in-range liquidity), and GetClaimableFees must have risen by
       d coins of the input denom with   G*l/1e36 - 1 - 1e-18 < d < G*l/1e36 + 1 + 1e-18
       (one rounding of the product with the liquidity l, one truncation of the payout before and
       after), and by nothing in the other denoms. *)
Fixpoint ghost_steps (fuel : nat) (ei b4q : bool) (fee limit : Z) (tp : tick_params) (din : Z)
         (iter : list tick) (st : swap_state) : list (Z * Z) :=
  match fuel with
  | O => []
  | S f =>
    match loop_iter ei b4q false fee limit tp vzero din iter st with
    | Ok (ItNext iter' st' _ _ fc _) => (ss_tick st, fc) :: ghost_steps f ei b4q fee limit tp din iter' st'
    | _ => []
    end
  end.
Definition swap_ghost_steps (s : amm) (ei : bool) (din specified : Z) : list (Z * Z) :=
  let p := a_pool s in
  let b4q := din =? 0 in
  match sqrt_price_limit (if b4q then MIN_MULT_SPOT else MAX_MULT_SPOT) b4q with
  | Ok limit =>
    let iter := iter_ticks b4q (a_ticks s) (p_tick p) in
    ghost_steps (length iter + 300) ei b4q (p_fee p) limit (p_tp p) din iter
      {| ss_remaining := dec_of_int specified; ss_calculated := 0; ss_sqrt := p_sqrt p; ss_tick := p_tick p;
         ss_liq := p_liq p; ss_growth := 0; ss_fees := 0; ss_ticks := a_ticks s; ss_noprog := 0 |}
  | _ => []
  end.
(* growth per unit of liquidity a position with range [lo,up) should have seen *)
Definition ref_growth (ps : list position) (steps : list (Z * Z)) (lo up : Z) : Z :=
  fold_right (fun '(c, fc) acc =>
    if (lo <=? c) && (c <? up)
    then (let L := active ps c in if L <=? 0 then acc else Z.quot (fc * P) L + acc)
    else acc) 0 steps.
Definition mon_swap_pro_rata (c : c06_case) : bool :=
  let a := k_amm c in
  match c_op a, c_res a with
  | OSwap ei di _ sp, Ok _ =>
      let ps := a_positions (c_pre a) in
      let steps := swap_ghost_steps (c_pre a) ei di sp in
      forallb (fun p =>
        match lookup (k_cl_pre c) (pos_id p), lookup (k_cl_post c) (pos_id p) with
        | Some (Ok v0), Some (Ok v1) =>
            let g := ref_growth ps steps (pos_lower p) (pos_upper p) in
            let l := pos_liq p in
            forallb (fun j =>
               let d := vget v1 j - vget v0 j in
               if j =? di
               then ((d - 1) * P * P <=? g * l + P) && (g * l <=? (d + 1) * P * P + P)
               else d =? 0) [0; 1; 2; 3]
        | _, _ => true
        end) ps
  | _, _ => true
  end.

Definition c06_check (c : c06_case) : list Z :=
  flag 0 (corr6 c) ++
  flag 1 (mon_backing c) ++
  flag 2 (mon_ghost c) ++
  flag 3 (mon_claim_once c) ++
  flag 4 (mon_new_zero c) ++
  flag 5 (mon_out_of_range c) ++
  flag 6 (mon_flows c) ++
  flag 7 (mon_fee_rate c) ++
  flag 8 (mon_pro_rata c) ++
  flag 9 (fee_wf_b (c_pre (k_amm c)) && fee_wf_b (c_post (k_amm c)) &&
          vnonnegb (a_acc_value (c_pre (k_amm c))) && vnonnegb (a_acc_value (c_post (k_amm c)))) ++
  flag 10 (mon_swap_pro_rata c).

Definition run := run_cases c06_check.
