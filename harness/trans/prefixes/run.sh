#!/bin/sh
# Regenerates coq/Gen/Prefixes_gen.v from the Go sources in $VERIF_REPO (default /repo).
# Standard library only (go/parser, go/ast): no module resolution needed.
set -e
HERE="$(cd "$(dirname "$0")" && pwd)"
ROOT="$(cd "$HERE/../../.." && pwd)"
REPO="${VERIF_REPO:-/repo}"
export GOFLAGS=-mod=mod GOPROXY=off GOSUMDB=off GOTOOLCHAIN=local GOWORK=off
mkdir -p "$ROOT/build" "$ROOT/coq/Gen"
BIN="$ROOT/build/trans_prefixes"
cd "$HERE"
timeout 600 go build -o "$BIN.$$" main.go
mv "$BIN.$$" "$BIN"
timeout 600 "$BIN" -repo "$REPO" -out "$ROOT/coq/Gen/Prefixes_gen.v"
