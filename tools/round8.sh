#!/bin/sh
# round8.sh <ID>: confirm the round-8 seeded change left by its authoring agent in /tmp/mut8/<ID>
# (change + demonstration test TestSeeded8_<ID> applied), keep it as seeded/<ID>-r8/, then run the
# committed quick check of <ID> against that worktree (VERIF_REPO). Nothing touches /repo itself.
id=$1; M=/tmp/mut8; wt=$M/$id; out=/verif/seeded/$id-r8
export GOFLAGS=-mod=mod GOPROXY=off GOSUMDB=off GOTOOLCHAIN=local GOWORK=off
cd $wt || exit 2
mkdir -p $out/demo
log=$out/confirm.log; : > $log
demo=$(git status --short | grep '_test.go' | awk '{print $2}')
echo "demo files: $demo" >> $log
for f in $demo; do cp $f $out/demo/; done
git diff -- . ':(exclude)*_test.go' > $out/patch.diff
pk=$(for f in $demo; do dirname $f; done | sort -u | sed 's|^|./|' | tr '\n' ' ')
echo "--- build" >> $log; (timeout 1200 go build ./... && echo BUILD-OK) >> $log 2>&1
echo "--- existing tests ./x/... ./app/..., demo skipped" >> $log
timeout 2400 go test -vet=off -count=1 -skip "TestSeeded8_" ./x/... ./app/... 2>&1 | grep -v "no test files" | tail -30 >> $log
echo "--- demo WITH change (must fail)" >> $log
timeout 1200 go test -vet=off -count=1 -run "TestSeeded8_$id" $pk >> $log 2>&1; echo "exit-with=$?" >> $log
git checkout -- $(git diff --name-only | grep -v _test.go)
echo "--- demo WITHOUT change (must pass)" >> $log
timeout 1200 go test -vet=off -count=1 -run "TestSeeded8_$id" $pk >> $log 2>&1; echo "exit-without=$?" >> $log
git apply $out/patch.diff && echo "patch re-applied" >> $log
cp $M/$id.meta.json $out/meta.agent.json 2>/dev/null
grep -E 'BUILD-OK|^FAIL|^ok|exit-with|exit-without|^--- (FAIL|PASS)' $log | sort | uniq -c | sort -rn | head -40
# run the check against the worktree with the demo file removed (the tree the check sees = change only)
for f in $demo; do rm -f $f; done
lc=$(echo $id | tr A-Z a-z)
cd /verif && VERIF_HARNESS_CMD=dev_$lc VERIF_REPO=$wt timeout 3000 ./check $id --tier quick > $out/first_run.log 2>&1
echo "check exit=$?" >> $out/first_run.log
grep -v "^WARNING conda\|^KNOWN-FINDING" $out/first_run.log | tail -4
