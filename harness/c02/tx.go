package c02

// A signed transaction through FinalizeBlock (ante handlers, signer extraction from the message's
// sender string, message routing): used for the witness that the owner spelling reaches the keeper
// from the outside, not only through a direct msg-server call.

import (
	"context"
	"fmt"

	txsigning "cosmossdk.io/x/tx/signing"
	codectypes "github.com/cosmos/cosmos-sdk/codec/types"
	sdk "github.com/cosmos/cosmos-sdk/types"
	"github.com/cosmos/cosmos-sdk/types/tx/signing"
	authsign "github.com/cosmos/cosmos-sdk/x/auth/signing"
	"google.golang.org/protobuf/types/known/anypb"

	"verifharness/apph"
)

func signTx(h *apph.H, signer apph.Acct, seqOffset uint64, gas uint64, msgs ...sdk.Msg) ([]byte, error) {
	txc := h.App.TxConfig()
	acc := h.App.AuthKeeper.GetAccount(h.Ctx(), signer.Addr)
	if acc == nil {
		return nil, fmt.Errorf("signer has no account")
	}
	seq := acc.GetSequence() + seqOffset
	b := txc.NewTxBuilder()
	if err := b.SetMsgs(msgs...); err != nil {
		return nil, err
	}
	b.SetFeeAmount(sdk.NewCoins(sdk.NewInt64Coin("urise", 50000)))
	b.SetGasLimit(gas)
	mode := txc.SignModeHandler().DefaultMode()
	sig := signing.SignatureV2{PubKey: signer.Priv.PubKey(), Data: &signing.SingleSignatureData{SignMode: mode}, Sequence: seq}
	if err := b.SetSignatures(sig); err != nil {
		return nil, err
	}
	anyPk, err := codectypes.NewAnyWithValue(signer.Priv.PubKey())
	if err != nil {
		return nil, err
	}
	sd := txsigning.SignerData{Address: signer.Addr.String(), ChainID: apph.ChainID, AccountNumber: acc.GetAccountNumber(),
		Sequence: seq, PubKey: &anypb.Any{TypeUrl: anyPk.TypeUrl, Value: anyPk.Value}}
	sb, err := authsign.GetSignBytesAdapter(context.Background(), txc.SignModeHandler(), mode, sd, b.GetTx())
	if err != nil {
		return nil, err
	}
	s, err := signer.Priv.Sign(sb)
	if err != nil {
		return nil, err
	}
	sig.Data.(*signing.SingleSignatureData).Signature = s
	if err := b.SetSignatures(sig); err != nil {
		return nil, err
	}
	return txc.TxEncoder()(b.GetTx())
}

// deliver runs one signed transaction in its own block and returns (code, log).
func deliver(h *apph.H, signer apph.Acct, msgs ...sdk.Msg) (uint32, string, error) {
	bz, err := signTx(h, signer, 0, 3_000_000, msgs...)
	if err != nil {
		return 0, "", err
	}
	resp, err := h.Block(1e9, [][]byte{bz})
	if err != nil {
		return 0, "", err
	}
	if len(resp.TxResults) != 1 {
		return 0, "", fmt.Errorf("expected one tx result, got %d", len(resp.TxResults))
	}
	return resp.TxResults[0].Code, resp.TxResults[0].Log, nil
}
