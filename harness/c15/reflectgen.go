package c15

import (
	"math/big"
	"reflect"
	"strings"
	"time"

	sdkmath "cosmossdk.io/math"
	swaptypes "github.com/sunriselayer/sunrise/x/swap/types"

	"verifharness/emit"
)

// Reflective generator of protobuf-decodable message values: every field of the request
// struct is filled from pools of edge values chosen by kind (and, for strings, by a hint
// from the field name). This is search, not proof: it finds panics the structured
// generators and the model did not anticipate.

var (
	tInt   = reflect.TypeOf(sdkmath.Int{})
	tDec   = reflect.TypeOf(sdkmath.LegacyDec{})
	tTime  = reflect.TypeOf(time.Time{})
	tRoute = reflect.TypeOf(swaptypes.Route{})
)

type pools struct {
	accAddrs  []string // valid account addresses (bech32)
	valAddrs  []string // valid validator operator addresses
	denoms    []string
	uris      []string
	authority string
}

var two = big.NewInt(2)

func pow2(n uint) *big.Int { return new(big.Int).Lsh(big.NewInt(1), n) }

// edgeBig returns an integer from the edge pool (negative, zero, small, around 2^63, 2^64, 2^128, up to 2^256-1).
func edgeBig(r *emit.Rand) *big.Int {
	if r.Chance(1, 5) {
		g := aliasGrid([]int64{int64(r.Intn(4))})
		return g[r.Intn(len(g))]
	}
	switch r.Intn(14) {
	case 0:
		return big.NewInt(0)
	case 1:
		return big.NewInt(1)
	case 2:
		return big.NewInt(-1)
	case 3:
		return new(big.Int).Neg(r.LogUniform(30))
	case 4:
		return new(big.Int).Sub(pow2(63), big.NewInt(int64(r.Intn(3))))
	case 5:
		return new(big.Int).Add(pow2(64), big.NewInt(int64(r.Intn(3))-1))
	case 6:
		return pow2(128)
	case 7:
		return new(big.Int).Sub(pow2(256), big.NewInt(1))
	case 8:
		return new(big.Int).Neg(new(big.Int).Sub(pow2(256), big.NewInt(1)))
	case 9:
		return new(big.Int).Sub(pow2(255), big.NewInt(int64(r.Intn(2))))
	default:
		return r.LogUniform(24)
	}
}

func edgeInt(r *emit.Rand) sdkmath.Int {
	if r.Chance(1, 6) {
		return sdkmath.Int{} // absent field: nil *big.Int inside
	}
	return sdkmath.NewIntFromBigInt(edgeBig(r))
}

func edgeU64(r *emit.Rand) uint64 {
	if r.Chance(1, 4) {
		g := aliasGrid([]int64{int64(r.Intn(4))})
		return wrapInt(g[r.Intn(len(g))], 64, false).Uint64()
	}
	switch r.Intn(10) {
	case 0:
		return 0
	case 1:
		return 1
	case 2:
		return 1 << 63
	case 3:
		return ^uint64(0)
	case 4:
		return 1<<63 - 1
	case 5:
		return uint64(r.Intn(5))
	default:
		return uint64(r.Intn(40))
	}
}

func edgeI64(r *emit.Rand) int64 {
	if r.Chance(1, 4) {
		g := aliasGrid([]int64{int64(r.Intn(4))})
		return wrapInt(g[r.Intn(len(g))], 64, true).Int64()
	}
	switch r.Intn(10) {
	case 0:
		return 0
	case 1:
		return -1
	case 2:
		return -1 << 63
	case 3:
		return 1<<63 - 1
	case 4:
		return int64(r.Intn(2000)) - 1000
	case 5:
		return -int64(r.Intn(1 << 30))
	default:
		return int64(r.Intn(100))
	}
}

var decStrings = []string{"", "0", "1", "-1", "0.5", "0.01", "1.0001", "2", "1.000000000000000000", "0.000000000000000001",
	"abc", "1.", ".5", "1e5", "--1", "0.0000000000000000001", "99999999999999999999999999999999999999999999999999999999999999999999999999999",
	"33374902869770644441870575443958300982463159853690869589014399999999999999999", "-0.5", " 1", "1 ", "+1", "0x10", "NaN", "1/2"}

var intStrings = []string{"", "0", "1", "-1", "100", "1000000", "-1000000", "9223372036854775807", "9223372036854775808", "-9223372036854775809",
	"18446744073709551616", "115792089237316195423570985008687907853269984665640564039457584007913129639935",
	"115792089237316195423570985008687907853269984665640564039457584007913129639936", "abc", "1.5", " 1", "1e3", "0x1", "+5", "--1"}

var junkStrings = []string{"", " ", "a", "ab", "\x00", "\xff\xfe", "/", "ibc/", "transfer/channel-0/uatom", strings.Repeat("a", 200), "1abc", "A-b", "u$d", "💥"}

func (p *pools) str(r *emit.Rand, field string) string {
	f := strings.ToLower(field)
	pick := func(valid []string, bad ...string) string {
		if len(valid) > 0 && r.Chance(3, 5) {
			return valid[r.Intn(len(valid))]
		}
		all := append(append([]string{}, bad...), junkStrings...)
		return all[r.Intn(len(all))]
	}
	switch {
	case strings.Contains(f, "validator"):
		return pick(p.valAddrs, p.accAddrs[0], "sunrisevaloper1qqqq", "cosmosvaloper1xyz")
	case f == "authority":
		return pick(append([]string{p.authority, p.authority}, p.accAddrs...), "gov")
	case strings.Contains(f, "sender"), strings.Contains(f, "address"), strings.Contains(f, "owner"), strings.Contains(f, "provider"),
		strings.Contains(f, "recipient"), strings.Contains(f, "receiver"), strings.Contains(f, "deputy"):
		return pick(p.accAddrs, p.valAddrs[0], "sunrise1qqqq", "cosmos1xyz", strings.ToUpper(p.accAddrs[0]))
	case strings.Contains(f, "denom"):
		return pick(p.denoms, "u", "ab", "1abc", "urise ", "URISE", "ibc/ABCDEF")
	case strings.Contains(f, "uri"):
		return pick(p.uris, "ipfs://x")
	case strings.Contains(f, "amount"), strings.Contains(f, "tick"):
		return intStrings[r.Intn(len(intStrings))]
	case strings.Contains(f, "rate"), strings.Contains(f, "ratio"), strings.Contains(f, "weight"), strings.Contains(f, "offset"),
		strings.Contains(f, "liquidity"), strings.Contains(f, "factor"), strings.Contains(f, "threshold"), strings.Contains(f, "power"):
		return decStrings[r.Intn(len(decStrings))]
	}
	switch r.Intn(4) {
	case 0:
		return decStrings[r.Intn(len(decStrings))]
	case 1:
		return intStrings[r.Intn(len(intStrings))]
	case 2:
		return pick(p.accAddrs)
	default:
		return junkStrings[r.Intn(len(junkStrings))]
	}
}

// oneofWrappers returns the wrapper pointer types of parent (a pointer to a message struct) assignable to iface.
func oneofWrappers(parent reflect.Value, iface reflect.Type) []reflect.Type {
	m := parent.MethodByName("XXX_OneofWrappers")
	if !m.IsValid() {
		return nil
	}
	var out []reflect.Type
	for _, w := range m.Call(nil)[0].Interface().([]interface{}) {
		t := reflect.TypeOf(w)
		if t.Implements(iface) {
			out = append(out, t)
		}
	}
	return out
}

// fill sets every exported field of the struct v (addressable) to generated values.
func (p *pools) fill(r *emit.Rand, v reflect.Value, depth int) {
	t := v.Type()
	for i := 0; i < t.NumField(); i++ {
		sf := t.Field(i)
		if sf.PkgPath != "" || strings.HasPrefix(sf.Name, "XXX_") {
			continue
		}
		p.set(r, v.Addr(), v.Field(i), sf.Name, depth)
	}
}

func (p *pools) set(r *emit.Rand, parent, f reflect.Value, name string, depth int) {
	t := f.Type()
	switch {
	case t == tInt:
		f.Set(reflect.ValueOf(edgeInt(r)))
		return
	case t == tDec:
		if r.Chance(1, 5) {
			return
		}
		f.Set(reflect.ValueOf(sdkmath.LegacyNewDecFromBigIntWithPrec(edgeBig(r), 18)))
		return
	case t == tTime:
		f.Set(reflect.ValueOf(time.Unix(int64(r.Intn(2_000_000_000)), 0).UTC()))
		return
	}
	switch t.Kind() {
	case reflect.String:
		f.SetString(p.str(r, name))
	case reflect.Bool:
		f.SetBool(r.Bool())
	case reflect.Uint64, reflect.Uint32, reflect.Uint8, reflect.Uint16, reflect.Uint:
		u := edgeU64(r)
		if t.Kind() == reflect.Uint32 {
			u &= 0xffffffff
		}
		if t.Kind() == reflect.Uint8 {
			u &= 0xff
		}
		if t.Kind() == reflect.Uint16 {
			u &= 0xffff
		}
		if name == "ShardCount" && u > 64 && u < 1<<63 {
			// the shard-index query allocates an array of shard_count elements (finding F-alloc in
			// notes/C15.md): values in (64, 2^63) would exhaust memory and kill the harness
			u = uint64(r.Intn(64))
		}
		f.SetUint(u)
	case reflect.Int64, reflect.Int32, reflect.Int:
		x := edgeI64(r)
		if t.Kind() == reflect.Int32 {
			x = int64(int32(x))
		}
		f.SetInt(x)
	case reflect.Slice:
		if t.Elem().Kind() == reflect.Uint8 { // []byte
			n := r.Intn(4)
			if r.Chance(1, 4) {
				n = 32
			}
			b := make([]byte, n)
			for i := range b {
				b[i] = byte(r.Intn(256))
			}
			if n == 0 && r.Bool() {
				b = nil
			}
			f.SetBytes(b)
			return
		}
		n := r.Intn(4)
		if depth <= 0 {
			n = 0
		}
		if n == 0 && r.Bool() {
			return // nil slice
		}
		s := reflect.MakeSlice(t, n, n)
		for i := 0; i < n; i++ {
			p.set(r, parent, s.Index(i), name, depth-1)
		}
		f.Set(s)
	case reflect.Ptr:
		if r.Chance(1, 4) || depth <= 0 || t.Elem().Kind() != reflect.Struct {
			return // nil pointer (absent sub-message)
		}
		nv := reflect.New(t.Elem())
		p.fill(r, nv.Elem(), depth-1)
		f.Set(nv)
	case reflect.Struct:
		p.fill(r, f, depth-1)
	case reflect.Interface:
		ws := oneofWrappers(parent, t)
		if len(ws) == 0 || r.Chance(1, 5) {
			return // oneof not set
		}
		w := ws[r.Intn(len(ws))]
		nv := reflect.New(w.Elem())
		p.fill(r, nv.Elem(), depth-1)
		f.Set(nv)
	}
}

// genRequest builds a random request value for the method: a pointer to the filled struct
// (occasionally a typed nil pointer).
func (p *pools) genRequest(r *emit.Rand, in reflect.Type, allowNil bool) any {
	if allowNil && r.Chance(1, 40) {
		return reflect.Zero(in).Interface()
	}
	nv := reflect.New(in.Elem())
	p.fill(r, nv.Elem(), 4)
	return nv.Interface()
}
