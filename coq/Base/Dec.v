(* cosmossdk.io/math v1.5.0 LegacyDec, bit-exact: a decimal is an integer scaled by 10^18.
   Every operation that asserts the valid range returns None where Go panics
   ("Int overflow", division by zero). Source: legacy_dec.go. *)
From Coq Require Import ZArith Bool List.
From Sunrise Require Import Base.Outcome.
Local Open Scope Z_scope.
Local Open Scope res_scope.

Definition P : Z := 1000000000000000000.           (* 10^18 *)
Definition HALF : Z := 500000000000000000.
Definition DEC_LIM : Z := 2 ^ 256 * P - 1.          (* upperLimit, as raw integer *)
Definition INT_LIM : Z := 2 ^ 256 - 1.              (* math.Int: at most 256 bits *)

Definition in_range (x : Z) : bool := (Z.abs x <=? DEC_LIM).
Definition chk (x : Z) : option Z := if in_range x then Some x else None.

(* math.Int results: NewIntFromBigInt panics above 256 bits *)
Definition int_ok (x : Z) : bool := (Z.abs x <=? INT_LIM).
Definition chk_int (x : Z) : option Z := if int_ok x then Some x else None.

(* chopPrecisionAndRound: banker's rounding on |d| *)
Definition chop_round_pos (d : Z) : Z :=
  let q := d / P in
  let r := d mod P in
  if r =? 0 then q
  else if r <? HALF then q
  else if HALF <? r then q + 1
  else if Z.even q then q else q + 1.
Definition chop_round (d : Z) : Z :=
  if d <? 0 then - chop_round_pos (- d) else chop_round_pos d.

(* chopPrecisionAndRoundUp: +1 on positive remainder; negatives are truncated toward zero *)
Definition chop_roundup (d : Z) : Z :=
  if d <? 0 then - ((- d) / P)
  else let q := d / P in if d mod P =? 0 then q else q + 1.

Definition chop_trunc (d : Z) : Z := Z.quot d P.

Definition dadd (a b : Z) : option Z := chk (a + b).
Definition dsub (a b : Z) : option Z := chk (a - b).
Definition dmul (a b : Z) : option Z := chk (chop_round (a * b)).
Definition dmulT (a b : Z) : option Z := chk (chop_trunc (a * b)).
Definition dmulU (a b : Z) : option Z := chk (chop_roundup (a * b)).
Definition dmul_int (a i : Z) : option Z := chk (a * i).
Definition dquo (a b : Z) : option Z :=
  if b =? 0 then None else chk (chop_round (Z.quot (a * (P * P)) b)).
Definition dquoT (a b : Z) : option Z :=
  if b =? 0 then None else chk (Z.quot (a * P) b).
Definition dquoU (a b : Z) : option Z :=
  if b =? 0 then None else
  let n := a * P in
  let q := Z.quot n b in
  let r := Z.rem n b in
  (* the sign test of the source uses the *quotient's* sign (d has been overwritten) *)
  let qneg := q <? 0 in
  let bneg := b <? 0 in
  if ((0 <? r) && Bool.eqb qneg bneg) || ((r <? 0) && negb (Bool.eqb qneg bneg))
  then chk (q + 1) else chk q.
(* QuoInt / QuoInt64: truncated division of the raw value, no range check *)
Definition dquo_int (a i : Z) : option Z := if i =? 0 then None else Some (Z.quot a i).

Definition dceil (a : Z) : option Z :=
  let q := Z.quot a P in
  let r := Z.rem a P in
  chk ((if 0 <? r then q + 1 else q) * P).
Definition dtrunc_int (a : Z) : Z := Z.quot a P.           (* TruncateInt (as math.Int) *)
Definition dround_int (a : Z) : Z := chop_round a.          (* RoundInt *)
Definition dtrunc_dec (a : Z) : Z := Z.quot a P * P.
Definition dec_of_int (i : Z) : Z := i * P.                 (* LegacyNewDecFromInt *)

(* PowerMut: square-and-multiply with a rounding Mul at every step, in source order.
   i ranges over the uint64 power; recursion on explicit fuel (64 bits suffice). *)
Fixpoint power_loop (fuel : nat) (i : Z) (d tmp : Z) : option (Z * Z) :=
  if i <=? 1 then Some (d, tmp) else
  match fuel with
  | O => None
  | S f =>
    let? tmp' := (if Z.odd i then dmul tmp d else Some tmp) in
    let? d' := dmul d d in
    power_loop f (i / 2) d' tmp'
  end.
Definition dpower (d : Z) (power : Z) : option Z :=
  if power =? 0 then Some P else
  let? (d', tmp) := power_loop 70 power d P in
  dmul d' tmp.

(* ApproxRoot (root >= 1, d >= 0 here; negatives handled by the wrapper).
   Any panic inside is recovered by the Go code and turned into an error: None here
   means "returned an error" (the wrapper distinguishes). *)
Fixpoint root_loop (fuel : nat) (d root guess : Z) : option Z :=
  match fuel with
  | O => Some guess
  | S f =>
    let? prev0 := dpower guess (root - 1) in
    let prev := if prev0 =? 0 then 1 else prev0 in
    let? q := dquo d prev in
    let? dl := dsub q guess in
    let? delta := dquo_int dl root in
    let? guess' := dadd guess delta in
    if Z.abs delta <=? 1 then Some guess' else root_loop f d root guess'
  end.
Definition approx_root_pos (d root : Z) : option Z :=
  if root =? 0 then Some P
  else if (root =? 1) || (d =? 0) || (d =? P) then Some d
  else root_loop 300 d root P.
(* result: Some r = (r, nil error); None = (garbage, error) *)
Definition approx_root (d root : Z) : option Z :=
  if root =? 0 then Some P
  else if d <? 0 then option_map Z.opp (approx_root_pos (- d) root)
  else approx_root_pos d root.
Definition approx_sqrt (d : Z) : option Z := approx_root d 2.
