package c14

import (
	"fmt"
	"math/big"
	"sort"
	"time"

	sdkmath "cosmossdk.io/math"
	v1 "cosmossdk.io/x/gov/types/v1"
	sdk "github.com/cosmos/cosmos-sdk/types"

	appgov "github.com/sunriselayer/sunrise/app/gov"
	datypes "github.com/sunriselayer/sunrise/x/da/types"

	"verifharness/emit"
)

type daPre struct {
	uri         string
	ctxTerm     string
	entries     string
	invs        string
	counters0   string
	countersMap map[int]uint64
	nEntries    int
	challengers []sdk.AccAddress
	balPre      []sdkmath.Int
	collateral  sdkmath.Int
	info        map[string]any
}

type preObs struct {
	da        *daPre
	govTally  bool
	govVoters int
}

func zs(x *big.Int) string { return emit.Z(x) }

// preBlock is called right before FinalizeBlock: it predicts which of the enumerated loops the
// block will run (from committed state, which is what the block hooks will read) and dumps the
// inputs of the modelled functions.
func (w *world) preBlock(dt time.Duration) *preObs {
	p := &preObs{}
	ctx := w.h.Ctx()
	// gauge tally: EndBlocker of x/liquidityincentive creates an epoch (and tallies) when there is
	// none or when the last one has ended
	last, found, err := w.h.App.LiquidityincentiveKeeper.GetLastEpoch(ctx)
	if err == nil && (!found || w.h.Height+1 >= last.EndBlock) {
		voters, pools := w.dumpTally("endblock")
		if voters >= 2 {
			w.out.Coverage[siteTally]++
		}
		if pools >= 2 {
			w.out.Coverage[siteResults]++
		}
	} else if w.r.Chance(1, 5) {
		w.dumpTally("extra")
	}
	// gov: a proposal whose voting period ends inside this block is tallied by the gov EndBlocker
	if w.prop != nil {
		gp, err := w.h.App.GovKeeper.Params.Get(ctx)
		if err == nil && dt >= *gp.VotingPeriod {
			p.govTally = true
			p.govVoters = len(w.prop.valVoters)
			// The custom tally function of app/gov is executed here directly on the state the gov
			// EndBlocker is about to read (in a discarded cache context) and its outputs go into the
			// results digest of the block: the loop over `validators` runs in every process whether
			// or not app wiring hands the function to the gov keeper.
			if w.govTallyDirect(w.prop.id) && p.govVoters >= 2 {
				w.out.Coverage[siteGov]++
			}
		}
	}
	// DA: an item in CHALLENGING status whose proof period is over at this block's time is
	// resolved by TallyValidityProofs in this block (with whatever proofs are stored by then)
	if !w.flushing && !w.noDumps && w.daWillResolve(dt) {
		p.da = w.daPreDump(w.da)
	}
	return p
}

// daWillResolve: the item in flight is CHALLENGING and its proof period is over at the time of
// a block that advances the clock by dt.
func (w *world) daWillResolve(dt time.Duration) bool {
	if w.da == nil {
		return false
	}
	ctx := w.h.Ctx()
	d, found, err := w.h.App.DaKeeper.GetPublishedData(ctx, w.da.uri)
	dp, err2 := w.h.App.DaKeeper.Params.Get(ctx)
	return err == nil && err2 == nil && found && d.Status == datypes.Status_STATUS_CHALLENGING &&
		d.Timestamp.Unix() <= w.h.Time.Add(dt).Add(-dp.ProofPeriod).Unix()
}

func (w *world) govTallyDirect(id uint64) bool {
	ctx, _ := w.h.Ctx().CacheContext()
	sk := w.h.App.StakingKeeper
	validators := map[string]v1.ValidatorGovInfo{}
	err := sk.IterateBondedValidatorsByPower(ctx, func(_ int64, v sdk.ValidatorI) bool {
		bz, err := sk.ValidatorAddressCodec().StringToBytes(v.GetOperator())
		if err != nil {
			return false
		}
		validators[v.GetOperator()] = v1.NewValidatorGovInfo(bz, v.GetBondedTokens(), v.GetDelegatorShares(), sdkmath.LegacyZeroDec(), v1.WeightedVoteOptions{})
		return false
	})
	if err != nil {
		panic(err)
	}
	fn := appgov.ProvideCalculateVoteResultsAndVotingPowerFn(w.h.App.AuthKeeper, sk)
	out := ""
	func() {
		defer func() {
			if r := recover(); r != nil {
				out = fmt.Sprint("panic: ", r)
			}
		}()
		total, results, err := fn(ctx, *w.h.App.GovKeeper, id, validators)
		if err != nil {
			out = "err: " + err.Error()
			return
		}
		out = "total=" + total.String()
		for _, o := range []v1.VoteOption{v1.OptionYes, v1.OptionAbstain, v1.OptionNo, v1.OptionNoWithVeto, v1.OptionSpam} {
			out += fmt.Sprintf(" %d=%s", o, results[o])
		}
	}()
	writeLP(w.resH, []byte("gov-custom-tally"), []byte(out))
	w.ops = append(w.ops, opInfo{Kind: "gov-custom-tally", Arg: out})
	w.count("op:gov-custom-tally")
	return len(validators) >= 2
}

func (w *world) postBlock(p *preObs) {
	if p.da != nil {
		w.daPostDump(p.da)
	}
}

// dumpTally records what Keeper.Tally reads and what it returns (CTally case).
func (w *world) dumpTally(tag string) (validatorsWithVotes, pools int) {
	if w.noDumps {
		return 0, 0
	}
	ctx, _ := w.h.Ctx().CacheContext()
	sk := w.h.App.StakingKeeper
	k := w.h.App.LiquidityincentiveKeeper
	bondedIDs := map[string]int{}
	var bonded []string
	err := sk.IterateBondedValidatorsByPower(ctx, func(_ int64, v sdk.ValidatorI) bool {
		id, ok := w.valID[v.GetOperator()]
		if !ok {
			panic("unknown validator " + v.GetOperator())
		}
		bondedIDs[v.GetOperator()] = id
		bonded = append(bonded, emit.Tuple(emit.ZI(int64(id)), zs(v.GetBondedTokens().BigInt()), zs(v.GetDelegatorShares().BigInt())))
		return false
	})
	if err != nil {
		panic(err)
	}
	votes, err := k.GetAllVotes(ctx)
	if err != nil {
		panic(err)
	}
	var vterms []string
	votedVals := map[int]bool{}
	for _, vote := range votes {
		voter, err := w.h.App.AuthKeeper.AddressCodec().StringToBytes(vote.Sender)
		if err != nil {
			panic(err)
		}
		valStr, err := sk.ValidatorAddressCodec().BytesToString(voter)
		if err != nil {
			panic(err)
		}
		vv := emit.None()
		if id, ok := bondedIDs[valStr]; ok {
			vv = emit.Some(emit.ZI(int64(id)))
			if len(vote.PoolWeights) > 0 {
				votedVals[id] = true
			}
		}
		var ws []string
		for _, pw := range vote.PoolWeights {
			d, err := sdkmath.LegacyNewDecFromStr(pw.Weight)
			wt := emit.None()
			if err == nil {
				wt = emit.Some(zs(d.BigInt()))
			}
			ws = append(ws, emit.Tuple(emit.ZI(int64(pw.PoolId)), wt))
		}
		var dels []string
		err = sk.IterateDelegations(ctx, voter, func(_ int64, d sdk.DelegationI) bool {
			id := int64(-1)
			if x, ok := bondedIDs[d.GetValidatorAddr()]; ok {
				id = int64(x)
			}
			dels = append(dels, emit.Tuple(emit.ZI(id), zs(d.GetShares().BigInt())))
			return false
		})
		if err != nil {
			panic(err)
		}
		vterms = append(vterms, fmt.Sprintf("{| vt_voter_val := %s; vt_weights := %s; vt_dels := %s |}", vv, emit.List(ws), emit.List(dels)))
	}
	total, err := sk.TotalBondedTokens(ctx)
	if err != nil {
		panic(err)
	}
	obs := ""
	info := map[string]any{"kind": "tally", "tag": tag, "height": w.h.Height, "votes": len(votes), "bonded_validators": len(bonded), "validators_with_votes": len(votedVals)}
	func() {
		defer func() {
			if r := recover(); r != nil {
				obs = "Panic"
				info["panic"] = fmt.Sprint(r)
			}
		}()
		res, err := k.Tally(ctx)
		if err != nil {
			obs = "(Err 1)"
			info["err"] = err.Error()
			return
		}
		var rs []string
		for _, x := range res {
			rs = append(rs, emit.Tuple(emit.ZI(int64(x.PoolId)), zs(x.Count.BigInt())))
		}
		pools = len(res)
		obs = "(Ok " + emit.List(rs) + ")"
		info["result"] = fmt.Sprint(res)
	}()
	term := fmt.Sprintf("CTally %s %s %s %s", emit.List(bonded), emit.List(vterms), zs(total.BigInt()), obs)
	w.out.Models = append(w.out.Models, modelCase{Term: term, Info: info})
	w.count("model:tally")
	return len(votedVals), pools
}

func (w *world) faultCounters() (string, map[int]uint64) {
	type kv struct {
		id int
		c  uint64
	}
	var xs []kv
	w.h.App.DaKeeper.IterateFaultCounters(w.h.Ctx(), func(op sdk.ValAddress, c uint64) bool {
		s, err := w.h.App.StakingKeeper.ValidatorAddressCodec().BytesToString(op)
		if err != nil {
			panic(err)
		}
		id, ok := w.valID[s]
		if !ok {
			panic("fault counter of unknown validator " + s)
		}
		xs = append(xs, kv{id, c})
		return false
	})
	sort.Slice(xs, func(i, j int) bool { return xs[i].id < xs[j].id })
	out := make([]string, len(xs))
	m := map[int]uint64{}
	for i, x := range xs {
		out[i] = emit.Tuple(emit.ZI(int64(x.id)), zs(new(big.Int).SetUint64(x.c)))
		m[x.id] = x.c
	}
	return emit.List(out), m
}

// daPreDump records what TallyValidityProofs will read for the item about to be resolved.
func (w *world) daPreDump(it *daItem) *daPre {
	ctx := w.h.Ctx()
	k := w.h.App.DaKeeper
	sk := w.h.App.StakingKeeper
	params, err := k.Params.Get(ctx)
	if err != nil {
		panic(err)
	}
	rf := sdkmath.LegacyMustNewDecFromStr(params.ReplicationFactor)
	thr, err := k.GetZkpThreshold(ctx, uint64(it.n))
	if err != nil {
		panic(err)
	}
	// active validators in the order the keeper collects them
	var active []int
	iter, err := sk.ValidatorsPowerStoreIterator(ctx)
	if err != nil {
		panic(err)
	}
	for ; iter.Valid(); iter.Next() {
		v, err := sk.Validator(ctx, iter.Value())
		if err != nil {
			continue
		}
		if v.IsBonded() {
			s, _ := sk.ValidatorAddressCodec().BytesToString(iter.Value())
			active = append(active, w.valID[s])
		}
	}
	iter.Close()
	indexed := map[int64][]int{}
	for _, id := range active {
		for _, i := range datypes.ShardIndicesForValidator(sdk.ValAddress(w.vals[id].Bytes), int64(thr), int64(it.n)) {
			indexed[i] = append(indexed[i], id)
		}
	}
	accToVal := map[string]int{}
	for id, v := range w.vals {
		accToVal[v.Acc.String()] = id
	}
	proofs, err := k.GetProofs(ctx, it.uri)
	if err != nil {
		panic(err)
	}
	counts := map[int64]int64{}
	var submitted []string
	for _, p := range proofs {
		for _, i := range p.Indices {
			counts[i]++
			if id, ok := accToVal[p.Sender]; ok {
				submitted = append(submitted, emit.Tuple(emit.ZI(i), emit.ZI(int64(id))))
			}
		}
	}
	keys := func(m map[int64][]int) []int64 {
		var ks []int64
		for i := range m {
			ks = append(ks, i)
		}
		sort.Slice(ks, func(a, b int) bool { return ks[a] < ks[b] })
		return ks
	}
	var idxTerms []string
	for _, i := range keys(indexed) {
		var vs []string
		for _, id := range indexed[i] {
			vs = append(vs, emit.ZI(int64(id)))
		}
		idxTerms = append(idxTerms, emit.Tuple(emit.ZI(i), emit.List(vs)))
	}
	var cks []int64
	for i := range counts {
		cks = append(cks, i)
	}
	sort.Slice(cks, func(a, b int) bool { return cks[a] < cks[b] })
	var entries []string
	for _, i := range cks {
		entries = append(entries, emit.Tuple(emit.ZI(i), emit.ZI(counts[i])))
	}
	invs, err := k.GetInvalidities(ctx, it.uri)
	if err != nil {
		panic(err)
	}
	pre := &daPre{uri: it.uri, nEntries: len(entries)}
	var invTerms []string
	for _, inv := range invs {
		var is []string
		for _, i := range inv.Indices {
			is = append(is, emit.ZI(i))
		}
		invTerms = append(invTerms, emit.List(is))
		a := sdk.MustAccAddressFromBech32(inv.Sender)
		pre.challengers = append(pre.challengers, a)
		pre.balPre = append(pre.balPre, w.h.Bal(ctx, a, fee))
	}
	d, found, err := k.GetPublishedData(ctx, it.uri)
	if err != nil || !found {
		panic("published data vanished")
	}
	pre.collateral = d.SubmitInvalidityCollateral.AmountOf(fee)
	pre.ctxTerm = fmt.Sprintf("{| dc_n := %d; dc_parity := %d; dc_rf := %s; dc_indexed := %s; dc_submitted := %s |}",
		len(d.ShardDoubleHashes), d.ParityShardCount, zs(rf.BigInt()), emit.List(idxTerms), emit.List(submitted))
	pre.entries = emit.List(entries)
	pre.invs = emit.List(invTerms)
	pre.counters0, pre.countersMap = w.faultCounters()
	pre.info = map[string]any{"kind": "da", "uri": it.uri, "n": len(d.ShardDoubleHashes), "parity": d.ParityShardCount, "zkp_threshold": thr,
		"active_validators": len(active), "proofs": len(proofs), "distinct_indices_with_proofs": len(entries), "invalidities": len(invs), "height": w.h.Height + 1}
	return pre
}

func (w *world) daPostDump(pre *daPre) {
	ctx := w.h.Ctx()
	d, found, err := w.h.App.DaKeeper.GetPublishedData(ctx, pre.uri)
	if err != nil || !found {
		w.out.Notes = append(w.out.Notes, "DA item "+pre.uri+" not found after its tally block")
		return
	}
	if d.Status != datypes.Status_STATUS_REJECTED && d.Status != datypes.Status_STATUS_VERIFIED {
		w.out.Notes = append(w.out.Notes, fmt.Sprintf("DA item %s was not resolved in its tally block (status %s)", pre.uri, d.Status))
		return
	}
	rejected := d.Status == datypes.Status_STATUS_REJECTED
	var refunds []string
	for i, a := range pre.challengers {
		delta := w.h.Bal(ctx, a, fee).Sub(pre.balPre[i])
		refunds = append(refunds, emit.Bool(delta.Equal(pre.collateral) && pre.collateral.IsPositive()))
	}
	counters, cmap := w.faultCounters()
	term := fmt.Sprintf("CDa %s %s %s %s {| do_rejected := %s; do_refunds := %s; do_counters := %s |}",
		pre.ctxTerm, pre.entries, pre.invs, pre.counters0, emit.Bool(rejected), emit.List(refunds), counters)
	pre.info["rejected"] = rejected
	pre.info["counters_before"] = pre.counters0
	pre.info["counters_after"] = counters
	w.out.Models = append(w.out.Models, modelCase{Term: term, Info: pre.info})
	w.count("model:da")
	if pre.nEntries >= 2 {
		w.out.Coverage[siteDaSafe]++
	}
	// fault set of this item = validators whose counter moved
	moved := 0
	for id, c := range cmap {
		if pre.countersMap[id] != c {
			moved++
		}
	}
	pre.info["fault_validators"] = moved
	if moved >= 2 {
		w.out.Coverage[siteDaFault]++
	}
}
