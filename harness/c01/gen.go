package c01

import (
	"fmt"
	"math/big"
	"sort"
	"strings"
	"time"

	sdkmath "cosmossdk.io/math"
	banktypes "cosmossdk.io/x/bank/types"
	slashingtypes "cosmossdk.io/x/slashing/types"
	stakingtypes "cosmossdk.io/x/staking/types"
	abci "github.com/cometbft/cometbft/abci/types"
	cmttypes "github.com/cometbft/cometbft/types"
	sdk "github.com/cosmos/cosmos-sdk/types"

	dakeeper "github.com/sunriselayer/sunrise/x/da/keeper"
	datypes "github.com/sunriselayer/sunrise/x/da/types"
	lptypes "github.com/sunriselayer/sunrise/x/liquiditypool/types"
	sctypes "github.com/sunriselayer/sunrise/x/shareclass/types"
	swaptypes "github.com/sunriselayer/sunrise/x/swap/types"
	tctypes "github.com/sunriselayer/sunrise/x/tokenconverter/types"

	"verifharness/apph"
	"verifharness/emit"
)

const rule = "a block is non-trivial when a hook ran with >= 1 pending deadline (DA item or share-class entry due, or within 1 s), >= 1 gauge, >= 1 completed unbonding or >= 1 tallied item, or the minute epoch minted; a watched transaction when it executed a modelled loop; distinct by (hooks that had work, deadline offset class, result)"

type runner struct {
	w    *world
	r    *emit.Rand
	cf   *emit.CasesFile
	st   *emit.Stats
	seed int64
	dead bool

	mintGenesis time.Time
	daAuth      string
	damsg       datypes.MsgServer
	pendingPool []poolSpec // MsgCreatePool transactions queued in the current block
	propDelta   *int64     // corpus: budget of the next PrepareProposal = candidates + metadata section - delta
}

type poolSpec struct {
	fee, ratio, offs string
	base, quote      string
}

func (rn *runner) add(term string, info map[string]any) {
	rn.cf.Add(term)
	rn.st.Info(info)
	rn.st.Evaluations++
}

// ---------------------------------------------------------------- one block = one case

func hasKind(kinds []string, prefixes ...string) bool {
	for _, k := range kinds {
		for _, p := range prefixes {
			if strings.HasPrefix(k, p) {
				return true
			}
		}
	}
	return false
}

func (rn *runner) blockCase(dt time.Duration, extra [][]byte, tag string) blockRes {
	w := rn.w
	h := w.h
	ctx := h.Ctx()
	now := h.Time.Add(dt)
	height := h.Height + 1
	kinds := append([]string{}, w.txKinds...)
	pools := rn.pendingPool
	rn.pendingPool = nil

	da := w.dumpDA(ctx, now)
	li := w.dumpLI(ctx)
	vals, ballots, bonded := w.dumpGraph(ctx)
	mint := w.dumpMint(ctx, now)
	sc := w.dumpSC(ctx, now)
	prePds := w.pds(ctx)
	var raws []string
	for _, bz := range w.txs {
		raws = append(raws, w.rawTerm(bz))
	}
	for _, bz := range extra {
		raws = append(raws, w.rawTerm(bz))
	}
	lip, err := h.App.LiquidityincentiveKeeper.Params.Get(ctx)
	if err != nil {
		panic(err)
	}
	liBal := h.Bal(ctx, w.feeColl, bond)
	var preFees []sdkmath.Int
	if li.last != nil {
		for _, g := range li.last.Gauges {
			preFees = append(preFees, w.feesBal(ctx, g.PoolId))
		}
	}
	bin := fmt.Sprintf("{| b_height := %d; b_now := %d; b_txs := %s; b_pds := %s; b_li_balance := %s; b_li := %s; b_pool_status := %s; b_mint := %s; b_da := %s; b_epoch_blocks := %d; b_vals := %s; b_ballots := %s; b_bonded := %s; b_sc := %s |}",
		height, now.UnixNano(), emit.List(raws), pdsTerm(prePds), emit.Z(liBal.BigInt()), li.istate, li.statusFn, mint.term, da.term,
		lip.EpochBlocks, vals, ballots, emit.Z(bonded.BigInt()), sc.term)

	res := w.block(dt, extra)

	class := 0
	switch {
	case strings.HasPrefix(res.Err, "panic:"):
		class = 2
	case res.Err != "":
		class = 1
	}
	obMint, obAlloc, obDa, obEpochs, obSc := "None", "None", "None", "None", "None"
	postPds := prePds
	mintedNow, allocated := false, false
	if class == 0 {
		post := h.Ctx()
		postPds = nil
		pre := map[int64]bool{}
		for _, x := range prePds {
			pre[x[0]] = true
		}
		for _, x := range w.pds(post) {
			if pre[x[0]] {
				postPds = append(postPds, x)
			}
		}
		f, b := w.minted(res.Events)
		last, _ := w.minterData(post)
		if mint.fires {
			obMint = emit.Some(emit.Tuple(emit.Z(f), emit.Z(b), emit.Z(new(big.Int).SetUint64(last))))
			mintedNow = f.Sign() > 0 || b.Sign() > 0
		} else if f.Sign() != 0 || b.Sign() != 0 {
			// minted although the epoch was not predicted to start: show it to the model
			obMint = emit.Some(emit.Tuple(emit.Z(f), emit.Z(b), emit.Z(new(big.Int).SetUint64(last))))
		}
		if !hasKind(kinds, "amm-") && li.last != nil {
			var ds []string
			for i, g := range li.last.Gauges {
				d := w.feesBal(post, g.PoolId).Sub(preFees[i])
				if d.IsPositive() {
					allocated = true
				}
				ds = append(ds, emit.Z(d.BigInt()))
			}
			obAlloc = emit.Some(emit.List(ds))
		} else if li.last == nil {
			obAlloc = emit.Some("[]")
		}
		if !hasKind(kinds, "da-") {
			obDa = emit.Some(pairsTerm(w.daStatuses(post)))
		}
		if !hasKind(kinds, "stake-", "vote-", "sc-", "create-validator", "unjail") && !rn.validatorSetMoves(res) {
			obEpochs = emit.Some(triplesTerm(w.epochsOf(post)))
		}
		if !hasKind(kinds, "sc-") {
			obSc = emit.Some(zs64(w.scIDs(post)))
		}
	}
	burnt := false
	for _, ev := range res.Events {
		if ev.Type == "burn" || ev.Type == "slash" {
			burnt = true
		}
	}
	obs := fmt.Sprintf("{| ob_result := %d; ob_pds := %s; ob_mint := %s; ob_mint_skip := %s; ob_alloc := %s; ob_da := %s; ob_epochs := %s; ob_sc := %s |}",
		class, pdsTerm(postPds), obMint, emit.Bool(burnt), obAlloc, obDa, obEpochs, obSc)

	// MsgCreatePool transactions of this block: one CPool case each (after the block case)
	codes := map[string]int{}
	for _, t := range res.Txs {
		codes[fmt.Sprintf("%s:%d", t.Kind, t.Code)]++
	}
	info := map[string]any{"kind": "block", "tag": tag, "height": height, "time": now.Format(time.RFC3339Nano), "dt_ns": int64(dt),
		"txs": kinds, "tx_results": res.Txs, "extra_entries": len(extra), "result": class, "err": cut(res.Err, 300), "wall_ms": res.Wall.Milliseconds(),
		"da_items": da.nItems, "da_due": da.due, "da_near": da.near, "gauges": li.nGauges, "zero_liq_gauge_pools": li.zeroLiq,
		"mint_fires": mint.fires, "sc_due": sc.due, "sc_same_second_later": sc.sameSec, "sc_released": sc.released.String(), "sc_owed": sc.owed.String(), "sc_slash_loss": sc.slashLoss.String(), "sc_blocked_recipients": sc.blocked,
		"fee_collector_bond": liBal.String(), "seed": rn.seed}
	rn.add(fmt.Sprintf("(CBlock %s %s)", bin, obs), info)
	st := rn.st
	st.Count("block")
	st.Count(fmt.Sprintf("block:result=%d", class))
	for k, n := range codes {
		st.Hist["tx:"+k] += n
	}
	var work []string
	if da.due > 0 {
		work = append(work, "da-due")
		st.Count("block:da-deadline-reached")
	}
	if da.near > 0 {
		work = append(work, "da-near")
		st.Count("block:da-within-1s-of-deadline")
	}
	if li.nGauges > 0 {
		work = append(work, fmt.Sprintf("gauges%d", min(li.nGauges, 3)))
		st.Count("block:with-gauges")
	}
	if li.allZero {
		work = append(work, "zero-counts")
		st.Count("block:all-gauge-counts-zero")
	}
	if allocated {
		work = append(work, "alloc")
		st.Count("block:emission-allocated-to-gauge-pools")
	}
	if li.zeroLiq > 0 {
		work = append(work, "zeroliq")
		st.Count("block:gauge-pool-without-in-range-liquidity")
	}
	if sc.due > 0 {
		work = append(work, "sc-due")
		st.Count("block:unbonding-completed")
	}
	if sc.sameSec > 0 {
		work = append(work, "sc-same-second")
		st.Count("block:unbonding-later-in-this-second")
	}
	if mintedNow {
		work = append(work, "mint")
		st.Count("block:minute-epoch-minted")
	}
	if len(extra) > 0 {
		work = append(work, "metadata")
		st.Count("block:metadata-entries")
	}
	if len(work) > 0 {
		st.Nontriv(fmt.Sprintf("block|%s|%s|%d", strings.Join(work, "+"), offClass(dt), class))
	}
	if len(st.Samples) < 3 && len(work) > 1 {
		st.Sample(info)
	}
	// pool creations
	pi := 0
	for _, t := range res.Txs {
		if t.Kind != "amm-create-pool" || pi >= len(pools) {
			continue
		}
		ps := pools[pi]
		pi++
		acc := t.Code == 0
		rn.add(fmt.Sprintf("(CPool %s %s %s %s)", emit.Z(decRawOr(ps.fee)), emit.Z(decRawOr(ps.ratio)), emit.Z(decRawOr(ps.offs)), emit.Bool(acc)),
			map[string]any{"kind": "create-pool", "fee": ps.fee, "ratio": ps.ratio, "offset": ps.offs, "accepted": acc, "log": t.Log, "seed": rn.seed})
		st.Count(fmt.Sprintf("create-pool:accepted=%v", acc))
		st.Nontriv(fmt.Sprintf("pool|%s|%s|%s", ps.fee, ps.ratio, ps.offs))
		if acc {
			w.pools = append(w.pools, poolInfo{id: w.nextPool, base: ps.base, quote: ps.quote, ratio: ps.ratio, offs: ps.offs, feeRate: ps.fee})
			w.nextPool++
		}
	}
	if class != 0 {
		rn.dead = true
	} else {
		w.refreshVals()
	}
	return res
}

func decRawOr(s string) *big.Int {
	d, err := sdkmath.LegacyNewDecFromStr(s)
	if err != nil {
		return big.NewInt(0)
	}
	return d.BigInt()
}

// a validator-set change inside the block (jailing, unbonding) changes what the tally of the
// end blocker reads: the epochs are then not compared
func (rn *runner) validatorSetMoves(res blockRes) bool {
	for _, ev := range res.Events {
		if ev.Type == "slash" || ev.Type == "liveness" || ev.Type == "complete_unbonding" || ev.Type == "complete_redelegation" {
			return true
		}
	}
	return false
}

func offClass(dt time.Duration) string {
	switch {
	case dt%time.Second == 0:
		return "whole"
	case dt%time.Second == 1 || dt%time.Second == time.Second-1:
		return "1ns"
	default:
		return "subsecond"
	}
}

// proposalCase calls the real PrepareProposal with the transactions queued for the next block
// (plus filler sends) as the candidate list and a budget around their size.
func (rn *runner) proposalCase(tag string) {
	w, r := rn.w, rn.r
	h := w.h
	size := func(xs [][]byte) int64 {
		var t []cmttypes.Tx
		for _, x := range xs {
			t = append(t, cmttypes.Tx(x))
		}
		return cmttypes.ComputeProtoSizeForTxs(t)
	}
	cands := append([][]byte{}, w.txs...)
	seqSave := map[string]uint64{}
	for k, v := range w.txSeq {
		seqSave[k] = v
	}
	for i := 0; i < 2+r.Intn(6); i++ {
		a := r.Intn(6)
		bz, err := w.signTx(h.Accts[a], []sdk.Msg{&banktypes.MsgSend{FromAddress: h.Accts[a].Addr.String(), ToAddress: h.Accts[(a+1)%6].Addr.String(),
			Amount: sdk.NewCoins(sdk.NewInt64Coin("urise", int64(1+i)))}}, 500_000)
		if err != nil {
			panic(err)
		}
		cands = append(cands, bz)
	}
	w.txSeq = seqSave // the filler is not part of the block that follows
	full := size(cands)
	verified, err := h.App.DaKeeper.GetSpecificStatusData(h.Ctx(), datypes.Status_STATUS_VERIFIED)
	if err != nil {
		panic(err)
	}
	split := size([][]byte{[]byte("METADATA")})
	var entries []string
	section := split
	for _, d := range verified {
		m := datypes.MetadataUriWrapper{MetadataUri: d.MetadataUri}
		bz, _ := m.Marshal()
		entries = append(entries, emit.ZI(size([][]byte{bz})))
		section += size([][]byte{bz})
	}
	if len(verified) == 0 {
		section = 0
	}
	// budgets around the point where candidates + metadata section fill the block exactly: the
	// default handler's share is then within 0..12 bytes of what the candidates need
	max := emit.Pick(r, full, full+5, full+37, full+200, full/2, full-1, 10, 60, 1<<20,
		full+section, full+section-int64(1+r.Intn(12)), full+section+int64(1+r.Intn(12)), full+section-int64(1+r.Intn(12)))
	if rn.propDelta != nil {
		max = full + section - *rn.propDelta
	}
	var resp *abci.PrepareProposalResponse
	func() {
		defer func() {
			if rec := recover(); rec != nil {
				err = fmt.Errorf("panic: %v", rec)
			}
		}()
		resp, err = h.App.PrepareProposal(&abci.PrepareProposalRequest{MaxTxBytes: max, Txs: cands, Height: h.Height + 1, Time: h.Time.Add(time.Second)})
	}()
	if err != nil {
		panic(fmt.Sprintf("PrepareProposal: %v", err))
	}
	var meta []string
	in := false
	for _, bz := range resp.Txs {
		if !in && string(bz) == "METADATA" {
			in = true
		}
		if in {
			meta = append(meta, emit.ZI(size([][]byte{bz})))
		}
	}
	total := size(resp.Txs)
	rn.add(fmt.Sprintf("(CProposal %d %d %s %s %d)", max, split, emit.List(entries), emit.List(meta), total),
		map[string]any{"kind": "prepare-proposal", "tag": tag, "max_tx_bytes": max, "candidates": len(cands), "candidate_bytes": full,
			"verified_items": len(verified), "response_entries": len(resp.Txs), "response_bytes": total, "metadata_entries": len(meta), "seed": rn.seed})
	rn.st.Count("prepare-proposal")
	if len(verified) > 0 {
		rn.st.Count("prepare-proposal:with-verified-items")
		rn.st.Nontriv(fmt.Sprintf("proposal|v%d|%s|meta%d", min(len(verified), 4), budgetClass(max, full), min(len(meta), 4)))
	}
	if total > max {
		rn.st.Count("prepare-proposal:exceeds-max-tx-bytes")
	}
}

func budgetClass(max, full int64) string {
	switch {
	case max < full/2+1:
		return "small"
	case max < full:
		return "below"
	case max == full:
		return "exact"
	case max < full+300:
		return "just-above"
	default:
		return "large"
	}
}

// ---------------------------------------------------------------- set-up and parameters

func (rn *runner) setup() {
	w := rn.w
	h := w.h
	rn.mintGenesis = time.Date(2025, 1, 1, 0, 0, 0, 0, time.UTC)
	rn.damsg = dakeeper.NewMsgServerImpl(h.App.DaKeeper)
	auth, err := h.App.AuthKeeper.AddressCodec().BytesToString(h.App.DaKeeper.GetAuthority())
	if err != nil {
		panic(err)
	}
	rn.daAuth = auth
	// two validators created by transactions (they sign blocks)
	n := len(h.Accts)
	w.createValidator(n-1, 30_000_000)
	w.createValidator(n-2, 20_000_000)
	rn.blockCase(time.Second, nil, "setup:create-validators")
	if rn.dead {
		return
	}
	ctx := h.Ctx()
	sp, err := h.App.StakingKeeper.Params.Get(ctx)
	if err != nil {
		panic(err)
	}
	sp.UnbondingTime = 20*time.Second + time.Duration(rn.r.Intn(3))*250*time.Millisecond
	if err := h.App.StakingKeeper.Params.Set(ctx, sp); err != nil {
		panic(err)
	}
	sl, err := h.App.SlashingKeeper.Params.Get(ctx)
	if err != nil {
		panic(err)
	}
	sl.SignedBlocksWindow, sl.MinSignedPerWindow = 6, sdkmath.LegacyNewDecWithPrec(5, 1)
	sl.DowntimeJailDuration, sl.SlashFractionDowntime = 5*time.Second, sdkmath.LegacyNewDecWithPrec(3, 2)
	if err := h.App.SlashingKeeper.Params.Set(ctx, sl); err != nil {
		panic(err)
	}
	rn.daParams(true)
	rn.liParams()
	// stake: users delegate (voting power for gauge votes), two share-class delegations
	for a := 0; a < 4; a++ {
		w.queue("stake-delegate", a, 1_000_000, w.msgDelegate(a, (a+1)%len(w.vals), int64(2_000_000*(a+1))))
	}
	rn.blockCase(time.Second, nil, "setup:delegate")
	if rn.dead {
		return
	}
	// three pools with the default grid, wide positions
	pairs := [][2]string{{"uusdc", "uatom"}, {"uatom", "uosmo"}, {"uusdc", "uosmo"}}
	for _, p := range pairs {
		rn.queuePool(0, poolSpec{fee: "0.01", ratio: "1.0001", offs: emit.Pick(rn.r, "0", "0.5", "-0.5"), base: p[0], quote: p[1]})
	}
	rn.blockCase(time.Second, nil, "setup:pools")
	if rn.dead {
		return
	}
	for i := range w.pools {
		w.queue("amm-create-position", 0, 5_000_000, w.msgCreatePosition(0, w.pools[i], -3000, 3000, big.NewInt(1_000_000_000), big.NewInt(1_000_000_000)))
	}
	for a := 0; a < 3; a++ {
		w.queue("vote-gauge", a, 1_000_000, w.msgVoteGauge(a, map[uint64]string{uint64(a % len(pairs)): "0.6", uint64((a + 1) % len(pairs)): "0.4"}))
	}
	w.queue("sc-delegate", 4, 2_000_000, w.msgNvDelegate(4, len(w.vals)-1, 3_000_001))
	w.queue("sc-delegate", 5, 2_000_000, w.msgNvDelegate(5, 0, 1_500_000))
	rn.blockCase(time.Second, nil, "setup:positions-votes")
}

var (
	daThresholds = []string{"0", "1", "0.33", "0.000000000000000001", "0.5"}
	daRFs        = []string{"5", "1", "0.000000000000000001", "4294967296", "5.5", "10000000000000000000", "4294967296.000000000000000001", "0", "-1"}
	daSfts       = []string{"0", "1", "0.5"}
	periods      = []time.Duration{4 * time.Second, 6*time.Second + 500*time.Millisecond, 3*time.Second + 1, 10 * time.Second, 2500 * time.Millisecond}
)

// daParams offers a parameter set to the real MsgUpdateParams handler (one CParam case);
// valid = draw only values Params.Validate accepts.
func (rn *runner) daParams(valid bool) {
	w, r := rn.w, rn.r
	ctx := w.h.Ctx()
	p, err := w.h.App.DaKeeper.Params.Get(ctx)
	if err != nil {
		panic(err)
	}
	p.ChallengeThreshold = emit.Pick(r, daThresholds...)
	if valid {
		p.ReplicationFactor = daRFs[r.Intn(5)]
	} else {
		p.ReplicationFactor = emit.Pick(r, daRFs...)
	}
	p.SlashFaultThreshold = emit.Pick(r, daSfts...)
	p.SlashEpoch = emit.Pick(r, uint64(1), uint64(3), uint64(7), uint64(100000))
	if !valid && r.Chance(1, 6) {
		p.SlashEpoch = 0
	}
	p.ChallengePeriod, p.ProofPeriod = emit.Pick(r, periods...), emit.Pick(r, periods...)
	p.RejectedRemovalPeriod, p.VerifiedRemovalPeriod = emit.Pick(r, periods...)*2, emit.Pick(r, periods...)*3
	p.PublishDataCollateral = sdk.NewCoins(sdk.NewInt64Coin("urise", int64(1000+r.Intn(5))), sdk.NewInt64Coin("uusdc", int64(7)))
	p.SubmitInvalidityCollateral = sdk.NewCoins(sdk.NewInt64Coin("urise", int64(500+r.Intn(3))))
	p.MinShardCount, p.MaxShardCount = 1, 64
	err = apph.Tx(ctx, func(c sdk.Context) error {
		_, e := rn.damsg.UpdateParams(c, &datypes.MsgUpdateParams{Authority: rn.daAuth, Params: p})
		return e
	})
	acc := err == nil
	sft, rf := decRawOr(p.SlashFaultThreshold), decRawOr(p.ReplicationFactor)
	term := fmt.Sprintf("(CParam (Da.Pm %s %s %d %d %d %d %s %s) %s %d %s)", emit.Z(decRawOr(p.ChallengeThreshold)), emit.Z(rf),
		int64(p.ChallengePeriod), int64(p.ProofPeriod), int64(p.RejectedRemovalPeriod), int64(p.VerifiedRemovalPeriod),
		coinVec(p.PublishDataCollateral), coinVec(p.SubmitInvalidityCollateral), emit.Z(sft), p.SlashEpoch, emit.Bool(acc))
	e := ""
	if err != nil {
		e = err.Error()
	}
	rn.add(term, map[string]any{"kind": "da-params", "threshold": p.ChallengeThreshold, "replication_factor": p.ReplicationFactor, "slash_fault_threshold": p.SlashFaultThreshold,
		"slash_epoch": p.SlashEpoch, "challenge_period": p.ChallengePeriod.String(), "proof_period": p.ProofPeriod.String(), "accepted": acc, "err": e, "seed": rn.seed})
	rn.st.Count(fmt.Sprintf("da-params:accepted=%v", acc))
	rn.st.Nontriv(fmt.Sprintf("param|%s|%s|%s|%d", p.ChallengeThreshold, p.ReplicationFactor, p.SlashFaultThreshold, p.SlashEpoch))
}

// ---------------------------------------------------------------- asking the real validation
// One field of one custom module's Params gets a garbage / boundary value (all other fields as
// they are), the real Params.Validate (x/da: the real MsgUpdateParams handler) decides. One CField
// case per offer; what is ACCEPTED becomes the chain's parameter set for the rest of the history.

var decOffers = []string{"", "abc", "-0.1", "1.000000000000000001", "1e3", " 0.5", "0.5 ", "1", "0", "0.5", "0.999999999999999999",
	"1.0000000000000000001", "+0.5", ".5", "0x10", "NaN", "-0", "2", "99999999999999999999999999999999999999999999999999999999999999999999999999999999999999999999999999",
	"0.000000000000000001", "1.0"}
var intOffers = []int64{0, -1, 1, 3, -9223372036854775808, 2}

func (rn *runner) fieldCase(module, field string, kind int, v string, shown string, accepted bool, err error) {
	e := ""
	if err != nil {
		e = cut(err.Error(), 160)
	}
	rn.add(fmt.Sprintf("(CField %d %s %s)", kind, v, emit.Bool(accepted)),
		map[string]any{"kind": "param-field", "module": module, "field": field, "field_kind": kind, "offered": shown, "accepted": accepted, "err": e, "seed": rn.seed})
	rn.st.Count(fmt.Sprintf("param-field:%s.%s:accepted=%v", module, field, accepted))
	rn.st.Nontriv(fmt.Sprintf("field|%s|%s|%s", module, field, shown))
}

func intOpt(n int64) string { return emit.Some(emit.ZI(n)) }

// paramFuzz offers k values; fields are drawn over all custom modules
func (rn *runner) paramFuzz(k int) {
	w, r := rn.w, rn.r
	h := w.h
	for ; k > 0; k-- {
		ctx := h.Ctx()
		ds := emit.Pick(r, decOffers...)
		n := emit.Pick(r, intOffers...)
		switch f := r.Intn(16); {
		case f < 9: // x/da through the real MsgUpdateParams handler
			p, err := h.App.DaKeeper.Params.Get(ctx)
			if err != nil {
				panic(err)
			}
			field, kind, v, shown := "", 1, decOpt(ds), ds
			switch f {
			case 0:
				p.ChallengeThreshold, field = ds, "challenge_threshold"
			case 1:
				p.SlashFaultThreshold, field = ds, "slash_fault_threshold"
			case 2, 3:
				p.SlashFraction, field = ds, "slash_fraction"
			case 4:
				p.ReplicationFactor, field, kind = ds, "replication_factor", 4
			case 5:
				p.SlashEpoch, field, kind = uint64(n), "slash_epoch", 3
				if n < 0 {
					n = 1 // a uint64 field: the negative offers wrap to huge positive values
					p.SlashEpoch = 1
				}
				v, shown = intOpt(n), fmt.Sprint(n)
			case 6:
				p.ChallengePeriod, field, kind, v, shown = time.Duration(n), "challenge_period", 3, intOpt(n), fmt.Sprint(n)
			case 7:
				p.ProofPeriod, field, kind, v, shown = time.Duration(n), "proof_period", 3, intOpt(n), fmt.Sprint(n)
			default:
				p.VerifiedRemovalPeriod, field, kind, v, shown = time.Duration(n), "verified_removal_period", 3, intOpt(n), fmt.Sprint(n)
			}
			err = apph.Tx(ctx, func(c sdk.Context) error {
				_, e := rn.damsg.UpdateParams(c, &datypes.MsgUpdateParams{Authority: rn.daAuth, Params: p})
				return e
			})
			rn.fieldCase("da", field, kind, v, shown, err == nil, err)
		case f < 11:
			p, err := h.App.LiquidityincentiveKeeper.Params.Get(ctx)
			if err != nil {
				panic(err)
			}
			field, kind, v, shown := "staking_reward_ratio", 1, decOpt(ds), ds
			if f == 9 {
				p.StakingRewardRatio = ds
			} else {
				p.EpochBlocks, field, kind, v, shown = n, "epoch_blocks", 3, intOpt(n), fmt.Sprint(n)
			}
			err = p.Validate()
			if err == nil {
				err = h.App.LiquidityincentiveKeeper.Params.Set(ctx, p)
			}
			rn.fieldCase("liquidityincentive", field, kind, v, shown, err == nil, err)
		case f < 13:
			p, err := h.App.LiquiditypoolKeeper.Params.Get(ctx)
			if err != nil {
				panic(err)
			}
			field := "withdraw_fee_rate"
			if f == 11 {
				p.WithdrawFeeRate = ds
			} else {
				p.SwapTreasuryTaxRate, field = ds, "swap_treasury_tax_rate"
			}
			err = p.Validate()
			if err == nil {
				err = h.App.LiquiditypoolKeeper.Params.Set(ctx, p)
			}
			rn.fieldCase("liquiditypool", field, 1, decOpt(ds), ds, err == nil, err)
		case f == 13:
			p, err := h.App.SwapKeeper.Params.Get(ctx)
			if err != nil {
				panic(err)
			}
			p.InterfaceFeeRate = ds
			err = p.Validate()
			if err == nil {
				err = h.App.SwapKeeper.Params.Set(ctx, p)
			}
			rn.fieldCase("swap", "interface_fee_rate", 2, decOpt(ds), ds, err == nil, err)
		case f == 14:
			p, err := h.App.FeeKeeper.Params.Get(ctx)
			if err != nil {
				panic(err)
			}
			p.BurnRatio = ds
			err = p.Validate()
			if err == nil {
				err = h.App.FeeKeeper.Params.Set(ctx, p)
			}
			rn.fieldCase("fee", "burn_ratio", 1, decOpt(ds), ds, err == nil, err)
		default:
			p, err := h.App.ShareclassKeeper.Params.Get(ctx)
			if err != nil {
				panic(err)
			}
			p.RewardPeriod = time.Duration(n)
			err = p.Validate()
			if err == nil {
				err = h.App.ShareclassKeeper.Params.Set(ctx, p)
			}
			rn.fieldCase("shareclass", "reward_period", 3, intOpt(n), fmt.Sprint(n), err == nil, err)
		}
	}
}

func (rn *runner) liParams() {
	w, r := rn.w, rn.r
	ctx := w.h.Ctx()
	p, err := w.h.App.LiquidityincentiveKeeper.Params.Get(ctx)
	if err != nil {
		panic(err)
	}
	p.EpochBlocks = emit.Pick(r, int64(1), int64(2), int64(3), int64(5))
	p.StakingRewardRatio = emit.Pick(r, "0", "1", "0.5", "0.333333333333333333", "0.9")
	if err := p.Validate(); err != nil {
		panic(err)
	}
	if err := w.h.App.LiquidityincentiveKeeper.Params.Set(ctx, p); err != nil {
		panic(err)
	}
	rn.st.Count("li-params:" + p.StakingRewardRatio)
}

// ---------------------------------------------------------------- operations (signed transactions)

var (
	poolRatios = []string{"1.0001", "1.0001", "1.01", "2", "1.001", "1", "0.5", "1.000000000000000001", "1.00009", "0", "-1.5", "1.0000999"}
	poolFees   = []string{"0.01", "0", "0.003", "0.999999999999999999", "1", "-0.01", "1.5"}
	poolOffs   = []string{"0", "0.5", "-0.5", "-0.999999999999999999", "0.999999999999999999", "1", "-1", "3"}
)

func (rn *runner) queuePool(a int, ps poolSpec) {
	rn.w.queue("amm-create-pool", a, 1_000_000, rn.w.msgCreatePool(a, ps.base, ps.quote, ps.fee, ps.ratio, ps.offs))
	rn.pendingPool = append(rn.pendingPool, ps)
}

func (rn *runner) opPool() {
	r := rn.r
	ps := poolSpec{fee: emit.Pick(r, poolFees[:3]...), ratio: emit.Pick(r, poolRatios[:5]...), offs: emit.Pick(r, poolOffs[:3]...), base: "uusdc", quote: "uatom"}
	switch r.Intn(4) {
	case 0:
		ps.ratio = emit.Pick(r, poolRatios...)
	case 1:
		ps.fee = emit.Pick(r, poolFees...)
	case 2:
		ps.offs = emit.Pick(r, poolOffs...)
	}
	d := []string{"uusdc", "uatom", "uosmo", "urise"}
	ps.base = d[r.Intn(4)]
	ps.quote = d[(r.Intn(3)+1+indexOf(d, ps.base))%4]
	rn.queuePool(r.Intn(6), ps)
}

func indexOf(xs []string, x string) int {
	for i, y := range xs {
		if y == x {
			return i
		}
	}
	return 0
}

func (rn *runner) opPosition() {
	w, r := rn.w, rn.r
	if len(w.pools) == 0 {
		return
	}
	p := w.pools[r.Intn(len(w.pools))]
	a := r.Intn(6)
	var lo, up int64
	switch r.Intn(5) {
	case 0: // far from the price: positions that are out of range from the start
		lo = 5000 + int64(r.Intn(2000))
		up = lo + 100 + int64(r.Intn(500))
	case 1:
		up = -5000 - int64(r.Intn(2000))
		lo = up - 100 - int64(r.Intn(500))
	default:
		lo = -int64(1 + r.Intn(2500))
		up = int64(1 + r.Intn(2500))
	}
	amt := func() *big.Int { return new(big.Int).Add(r.LogUniform(11), big.NewInt(1000)) }
	w.queue("amm-create-position", a, 5_000_000, w.msgCreatePosition(a, p, lo, up, amt(), amt()))
}

func (rn *runner) opSwap() {
	w, r := rn.w, rn.r
	if len(w.pools) == 0 {
		return
	}
	p := w.pools[r.Intn(len(w.pools))]
	a := r.Intn(6)
	in, out := p.base, p.quote
	if r.Bool() {
		in, out = p.quote, p.base
	}
	amt := new(big.Int).Add(r.LogUniform(9), big.NewInt(1))
	if r.Chance(1, 4) { // enough to push the price out of every position's range
		amt = new(big.Int).Mul(r.LogUniform(4), big.NewInt(1_000_000_000_000))
	}
	w.queue("amm-swap", a, 20_000_000, &swaptypes.MsgSwapExactAmountIn{Sender: w.h.Accts[a].Addr.String(),
		Route:    swaptypes.Route{DenomIn: in, DenomOut: out, Strategy: &swaptypes.Route_Pool{Pool: &swaptypes.RoutePool{PoolId: p.id}}},
		AmountIn: sdkmath.NewIntFromBigInt(amt), MinAmountOut: sdkmath.OneInt()})
}

func (rn *runner) opClaimLP() {
	w, r := rn.w, rn.r
	ps, err := w.h.App.LiquiditypoolKeeper.GetAllPositions(w.h.Ctx())
	if err != nil || len(ps) == 0 {
		return
	}
	p := ps[r.Intn(len(ps))]
	for i, a := range w.h.Accts {
		if a.Addr.String() == p.Address {
			w.queue("amm-claim", i, 5_000_000, &lptypes.MsgClaimRewards{Sender: p.Address, PositionIds: []uint64{p.Id}})
			return
		}
	}
}

var weightSets = [][]string{{"0"}, {"0", "0"}, {"1"}, {"0.5", "0.5"}, {"0.3", "0.7"}, {"0.2", "0.3", "0.5"}, {"0.333333333333333333", "0.666666666666666667"}, {"0.1", "0.1"}, {"0.000000000000000001", "0.9"}}

func (rn *runner) opVote() {
	w, r := rn.w, rn.r
	if len(w.pools) == 0 {
		return
	}
	ws := weightSets[r.Intn(len(weightSets))]
	m := map[uint64]string{}
	for i, x := range ws {
		m[w.pools[(i+r.Intn(len(w.pools)))%len(w.pools)].id] = x
	}
	a := r.Intn(len(w.h.Accts))
	w.queue("vote-gauge", a, 1_000_000, w.msgVoteGauge(a, m))
}

func (rn *runner) opStake() {
	w, r := rn.w, rn.r
	a := r.Intn(6)
	v := r.Intn(len(w.vals))
	amt := int64(1 + r.Intn(3_000_000))
	if r.Chance(2, 3) {
		w.queue("stake-delegate", a, 1_000_000, w.msgDelegate(a, v, amt))
	} else {
		w.queue("stake-undelegate", a, 1_000_000, &stakingtypes.MsgUndelegate{DelegatorAddress: w.h.Accts[a].Addr.String(), ValidatorAddress: w.vals[v].Oper, Amount: sdk.NewInt64Coin(bond, amt)})
	}
}

func (rn *runner) opShareClass() {
	w, r := rn.w, rn.r
	a := 4 + r.Intn(2)
	v := emit.Pick(r, 0, len(w.vals)-1, r.Intn(len(w.vals)))
	switch r.Intn(6) {
	case 0, 1:
		w.queue("sc-delegate", a, 2_000_000, w.msgNvDelegate(a, v, int64(1+r.Intn(2_000_000))))
	case 2, 3:
		w.queue("sc-undelegate", a, 2_000_000, w.msgNvUndelegate(a, v, int64(1+r.Intn(300_000))))
	case 4:
		// explicit recipient: another account, sometimes a blocked address (module accounts)
		rcp := w.h.Accts[r.Intn(6)].Addr.String()
		if r.Chance(1, 3) {
			rcp = emit.Pick(r, w.feeColl, w.mod, w.daMod).String()
		}
		w.queue("sc-undelegate", a, 2_000_000, w.msgNvUndelegateTo(a, v, int64(1+r.Intn(300_000)), rcp))
	default:
		w.queue("sc-claim", a, 2_000_000, &sctypes.MsgClaimRewards{Sender: w.h.Accts[a].Addr.String(), ValidatorAddress: w.vals[v].Oper})
	}
}

func (rn *runner) opSend() {
	w, r := rn.w, rn.r
	a := r.Intn(6)
	b := (a + 1 + r.Intn(5)) % 6
	switch r.Intn(3) {
	case 0:
		w.queue("convert", a, 1_000_000, &tctypes.MsgConvert{Sender: w.h.Accts[a].Addr.String(), Amount: sdkmath.NewInt(int64(1 + r.Intn(1_000_000)))})
	default:
		w.queue("send", a, 1_000_000, &banktypes.MsgSend{FromAddress: w.h.Accts[a].Addr.String(), ToAddress: w.h.Accts[b].Addr.String(),
			Amount: sdk.NewCoins(sdk.NewInt64Coin(emit.Pick(r, "urise", "uusdc", "uvrise"), int64(1+r.Intn(1_000_000))))})
	}
}

func (rn *runner) opDA() {
	w, r := rn.w, rn.r
	ctx := w.h.Ctx()
	items, err := w.h.App.DaKeeper.GetAllPublishedData(ctx)
	if err != nil {
		panic(err)
	}
	var cp, ch []datypes.PublishedData
	for _, d := range items {
		switch d.Status {
		case datypes.Status_STATUS_CHALLENGE_PERIOD:
			cp = append(cp, d)
		case datypes.Status_STATUS_CHALLENGING:
			ch = append(ch, d)
		}
	}
	switch k := r.Intn(10); {
	case k < 4 || len(items) == 0:
		n := 1 + r.Intn(8)
		parity := r.Intn(n)
		m, _ := w.msgPublish(r.Intn(4), n, parity)
		w.queue("da-publish", indexOfAcct(w, m.(*datypes.MsgPublishData).Sender), 3_000_000, m)
	case k < 7 && len(cp) > 0:
		d := cp[r.Intn(len(cp))]
		a := 2 + r.Intn(4)
		idx, shape := rn.indexShape(len(d.ShardDoubleHashes))
		w.queue("da-invalidity", a, 3_000_000, &datypes.MsgSubmitInvalidity{Sender: w.h.Accts[a].Addr.String(), MetadataUri: d.MetadataUri, Indices: idx})
		rn.st.Count("da-invalidity-shape:" + shape)
		rn.st.Nontriv("inval|" + shape)
	case len(ch) > 0 && r.Chance(1, 3):
		rn.opDAProofTx(ch)
	case len(ch) > 0:
		// validity proofs written straight into the store (the tally reads sender and indices only)
		d := ch[r.Intn(len(ch))]
		n := len(d.ShardDoubleHashes)
		for _, v := range w.vals {
			if r.Chance(1, 3) {
				continue
			}
			var idx []int64
			seen := map[int64]bool{}
			for j := 0; j < 1+r.Intn(n); j++ {
				i := int64(r.Intn(n))
				if !seen[i] {
					seen[i] = true
					idx = append(idx, i)
				}
			}
			if err := w.h.App.DaKeeper.SetProof(ctx, datypes.Proof{MetadataUri: d.MetadataUri, Sender: v.Acc.String(), Indices: idx, Proofs: [][]byte{{1}}}); err != nil {
				panic(err)
			}
		}
		rn.st.Count("da:proofs-stored")
	}
}

// index lists of every shape for an item of n shards: the handler of MsgSubmitInvalidity does
// not range-check them (known finding C07-F1), so whatever is sent is stored and read by the
// end blocker
func (rn *runner) indexShape(n int) ([]int64, string) {
	r := rn.r
	N := int64(n)
	switch r.Intn(12) {
	case 0:
		return []int64{N}, "eq-count"
	case 1:
		return []int64{N + 1, 0}, "count+1"
	case 2:
		return []int64{-1}, "minus-one"
	case 3:
		return []int64{-9223372036854775808, 0}, "min-int64"
	case 4:
		return []int64{1 << 32}, "2^32"
	case 5:
		return []int64{0, 0, N - 1, N - 1, 0}, "duplicates"
	case 6:
		return []int64{}, "empty"
	case 7:
		return []int64{9223372036854775807, -1, N, 0}, "mixed"
	default:
		var idx []int64
		for j := 0; j <= r.Intn(n); j++ {
			idx = append(idx, int64(r.Intn(n)))
		}
		return idx, "in-range"
	}
}

// opDAChallenge: one block carries a publication and the invalidity reports against it
// (several senders, index lists of every shape); with threshold 0 .. 1 the end blocker of this
// very block already reads them
func (rn *runner) opDAChallenge() {
	w, r := rn.w, rn.r
	n := 1 + r.Intn(8)
	pub := r.Intn(2)
	m, uri := w.msgPublish(pub, n, r.Intn(n))
	w.queue("da-publish", pub, 3_000_000, m)
	used := map[int]bool{pub: true}
	for k := 0; k < 1+r.Intn(3); k++ {
		a := 2 + r.Intn(4)
		if used[a] {
			continue
		}
		used[a] = true
		idx, shape := rn.indexShape(n)
		w.queue("da-invalidity", a, 3_000_000, &datypes.MsgSubmitInvalidity{Sender: w.h.Accts[a].Addr.String(), MetadataUri: uri, Indices: idx})
		rn.st.Count("da-invalidity-shape:" + shape)
		rn.st.Nontriv("inval|" + shape)
	}
}

// opDAProofTx: MsgSubmitValidityProof as a signed transaction by a validator operator with an
// index list of any shape and bytes that are no proof (the handler must refuse it cleanly)
func (rn *runner) opDAProofTx(items []datypes.PublishedData) {
	w, r := rn.w, rn.r
	if len(items) == 0 {
		return
	}
	d := items[r.Intn(len(items))]
	for i := range w.vals {
		if !w.vals[i].Created || r.Chance(1, 2) {
			continue
		}
		idx, shape := rn.indexShape(len(d.ShardDoubleHashes))
		proofs := make([][]byte, len(idx))
		for j := range proofs {
			proofs[j] = []byte{1, 2, 3}
		}
		w.queue("da-proof", w.vals[i].Owner, 5_000_000, &datypes.MsgSubmitValidityProof{Sender: w.h.Accts[w.vals[i].Owner].Addr.String(),
			ValidatorAddress: w.vals[i].Oper, MetadataUri: d.MetadataUri, Indices: idx, Proofs: proofs})
		rn.st.Count("da-proof-shape:" + shape)
	}
}

func indexOfAcct(w *world, bech string) int {
	for i, a := range w.h.Accts {
		if a.Addr.String() == bech {
			return i
		}
	}
	return 0
}

// metadata section of a block: the splitter and a few entries (verified item, unknown uri,
// empty uri, bytes that do not unmarshal, a second splitter)
func (rn *runner) metadataEntries() [][]byte {
	w, r := rn.w, rn.r
	out := [][]byte{[]byte("METADATA")}
	items, _ := w.h.App.DaKeeper.GetAllPublishedData(w.h.Ctx())
	for k := 0; k <= r.Intn(4); k++ {
		switch r.Intn(5) {
		case 0, 1:
			if len(items) > 0 {
				m := datypes.MetadataUriWrapper{MetadataUri: items[r.Intn(len(items))].MetadataUri}
				bz, _ := m.Marshal()
				out = append(out, bz)
				continue
			}
			fallthrough
		case 2:
			m := datypes.MetadataUriWrapper{MetadataUri: "ipfs://unknown"}
			bz, _ := m.Marshal()
			out = append(out, bz)
		case 3:
			out = append(out, []byte{0xff, 0x01, 0x02})
		default:
			out = append(out, []byte("METADATA"))
		}
	}
	if r.Chance(1, 5) {
		m := datypes.MetadataUriWrapper{}
		bz, _ := m.Marshal()
		out = append(out, bz)
	}
	return out
}

func (rn *runner) opLiveness() {
	w, r := rn.w, rn.r
	for i := range w.vals {
		if !w.vals[i].Created {
			continue
		}
		v, err := w.h.App.StakingKeeper.GetValidator(w.h.Ctx(), w.vals[i].Bytes)
		if err != nil {
			continue
		}
		if v.Jailed {
			w.vals[i].Absent = false
			if r.Chance(1, 2) {
				w.queue("unjail", w.vals[i].Owner, 1_000_000, &slashingtypes.MsgUnjail{ValidatorAddr: w.vals[i].Oper})
			}
			continue
		}
		if r.Chance(1, 3) {
			w.vals[i].Absent = !w.vals[i].Absent
			rn.st.Count("liveness:toggle")
		}
	}
}

// ---------------------------------------------------------------- block-time schedule

func (rn *runner) deadlines() []time.Time {
	w := rn.w
	ctx := w.h.Ctx()
	var ds []time.Time
	p, err := w.h.App.DaKeeper.Params.Get(ctx)
	if err == nil {
		items, _ := w.h.App.DaKeeper.GetAllPublishedData(ctx)
		for _, d := range items {
			switch d.Status {
			case datypes.Status_STATUS_CHALLENGE_PERIOD:
				ds = append(ds, d.Timestamp.Add(p.ChallengePeriod))
			case datypes.Status_STATUS_CHALLENGING:
				ds = append(ds, d.Timestamp.Add(p.ProofPeriod))
			case datypes.Status_STATUS_VERIFIED:
				ds = append(ds, d.Timestamp.Add(p.VerifiedRemovalPeriod))
			case datypes.Status_STATUS_REJECTED:
				ds = append(ds, d.Timestamp.Add(p.RejectedRemovalPeriod))
			}
		}
	}
	for _, e := range w.scQueue(ctx) {
		ds = append(ds, e.u.CompletionTime)
	}
	if ei, err := w.h.App.EpochsKeeper.EpochInfo.Get(ctx, "minute"); err == nil {
		ds = append(ds, ei.CurrentEpochStartTime.Add(ei.Duration))
	}
	now := w.h.Time
	var out []time.Time
	for _, d := range ds {
		if d.After(now.Add(2 * time.Second)) {
			out = append(out, d)
		}
	}
	sort.Slice(out, func(i, j int) bool { return out[i].Before(out[j]) })
	return out
}

var offsets = []time.Duration{-time.Second, -1, 0, 1, time.Second, -400 * time.Millisecond, 400 * time.Millisecond, -999999999, 999999999}

func (rn *runner) pickDt() (time.Duration, string) {
	r := rn.r
	now := rn.w.h.Time
	switch k := r.Intn(20); {
	case k < 8:
		return emit.Pick(r, time.Second, 300*time.Millisecond, time.Millisecond, 999999999*time.Nanosecond, 2*time.Second+1, 700*time.Millisecond), "small"
	case k < 15:
		ds := rn.deadlines()
		if len(ds) == 0 {
			return time.Second, "small"
		}
		d := ds[r.Intn(min(len(ds), 3))]
		dt := d.Add(emit.Pick(r, offsets...)).Sub(now)
		if dt <= 0 {
			dt = time.Millisecond
		}
		return dt, "deadline"
	case k < 18:
		return emit.Pick(r, 61*time.Second, 59*time.Second+999999999, time.Hour, 25*time.Hour, 3*time.Minute), "long"
	default:
		// across a boundary of the mint schedule (years since 2025-01-01) +- 1 ns / 1 s
		for y := 0; y < 40; y++ {
			b := rn.mintGenesis.Add(time.Duration(y) * 365 * 24 * time.Hour)
			if b.After(now.Add(time.Second)) && r.Chance(1, 2) {
				dt := b.Add(emit.Pick(r, offsets[:5]...)).Sub(now)
				if dt > 0 {
					return dt, "year-boundary"
				}
			}
		}
		return 24 * time.Hour, "long"
	}
}

// ---------------------------------------------------------------- history

func (rn *runner) history(nBlocks int) {
	rn.setup()
	r := rn.r
	for b := 0; b < nBlocks && !rn.dead; b++ {
		nops := r.Intn(4)
		for k := 0; k < nops; k++ {
			switch x := r.Intn(21); {
			case x < 2:
				rn.opPool()
			case x < 5:
				rn.opPosition()
			case x < 8:
				rn.opSwap()
			case x < 9:
				rn.opClaimLP()
			case x < 11:
				rn.opVote()
			case x < 13:
				rn.opStake()
			case x < 16:
				rn.opShareClass()
			case x < 17:
				rn.opSend()
			case x < 19:
				rn.opDAChallenge()
			default:
				rn.opDA()
			}
		}
		if r.Chance(1, 6) {
			rn.opLiveness()
		}
		if r.Chance(1, 12) {
			rn.daParams(r.Chance(2, 3))
		}
		if r.Chance(1, 15) {
			rn.liParams()
		}
		if r.Chance(1, 6) {
			rn.paramFuzz(1 + r.Intn(3))
		}
		vs, _ := rn.w.h.App.DaKeeper.GetSpecificStatusData(rn.w.h.Ctx(), datypes.Status_STATUS_VERIFIED)
		if r.Chance(1, 8) || (len(vs) > 0 && r.Chance(1, 2)) {
			rn.proposalCase("generated")
		}
		var extra [][]byte
		if r.Chance(1, 5) {
			extra = rn.metadataEntries()
		}
		dt, tag := rn.pickDt()
		rn.blockCase(dt, extra, tag)
	}
	// run the pending deadlines out so that every queue is emptied once
	for k := 0; k < 6 && !rn.dead; k++ {
		ds := rn.deadlines()
		if len(ds) == 0 {
			break
		}
		rn.blockCase(ds[len(ds)-1].Add(time.Second).Sub(rn.w.h.Time), nil, "drain")
	}
}
