(* C01: the mint function (Econ/Mint.v mint_fn = app/mint/mint.go ProvideMintFn, epoch "minute")
   never panics for supplies below 2^255, a staking reward ratio in [0,1] and any block time. *)
From Coq Require Import ZArith Bool Lia ZifyBool.
From Sunrise Require Import Base.Outcome Base.Dec Base.DecLemmas Econ.Mint Econ.MintProofs.
Local Open Scope Z_scope.
Local Open Scope res_scope.
Ltac Zify.zify_post_hook ::= Z.div_mod_to_equations.

Lemma chk_ok x : Z.abs x <= DEC_LIM -> chk x = Some x.
Proof. intros H. unfold chk, in_range. destruct (Z.leb_spec (Z.abs x) DEC_LIM); [reflexivity|lia]. Qed.
Lemma chk_int_ok x : Z.abs x <= INT_LIM -> chk_int x = Some x.
Proof. intros H. unfold chk_int, int_ok. destruct (Z.leb_spec (Z.abs x) INT_LIM); [reflexivity|lia]. Qed.

(* products of decimals in [0,1] stay in [0,1] *)
Lemma dmul_unit a b : 0 <= a <= P -> 0 <= b <= P -> exists r, dmul a b = Some r /\ 0 <= r <= P.
Proof.
  intros Ha Hb. unfold dmul. pose proof (chop_round_bracket (a * b)) as Hc.
  assert (Hab : 0 <= a * b <= P * P) by nia.
  pose proof (chop_round_nonneg (a * b) ltac:(lia)) as Hn.
  assert (Hle : chop_round (a * b) <= P).
  { unfold P, HALF in *. lia. }
  exists (chop_round (a * b)). split; [apply chk_ok; unfold DEC_LIM, P in *; lia|lia].
Qed.

Lemma power_loop_unit fuel : forall i d tmp, 0 <= d <= P -> 0 <= tmp <= P -> i < 2 ^ Z.of_nat fuel ->
  exists d' tmp', power_loop fuel i d tmp = Some (d', tmp') /\ 0 <= d' <= P /\ 0 <= tmp' <= P.
Proof.
  induction fuel as [|f IH]; intros i d tmp Hd Ht Hi; cbn [power_loop]; destruct (Z.leb_spec i 1).
  - exists d, tmp. auto.
  - cbn in Hi. lia.
  - exists d, tmp. auto.
  - rewrite Nat2Z.inj_succ, Z.pow_succ_r in Hi by lia.
    assert (Hi2 : i / 2 < 2 ^ Z.of_nat f) by (apply Z.div_lt_upper_bound; lia).
    destruct (dmul_unit d d Hd Hd) as (dd & Edd & Hdd).
    destruct (Z.odd i).
    + destruct (dmul_unit tmp d Ht Hd) as (t' & Et & Ht'). rewrite Et, Edd. cbn [obind]. apply IH; assumption.
    + rewrite Edd. cbn [obind]. apply IH; assumption.
Qed.

Lemma dpower_unit d n : 0 <= d <= P -> 0 <= n < 2 ^ 70 -> exists r, dpower d n = Some r /\ 0 <= r <= P.
Proof.
  intros Hd Hn. unfold dpower. destruct (Z.eqb_spec n 0); [exists P; split; [reflexivity|unfold P; lia]|].
  destruct (power_loop_unit 70 n d P Hd ltac:(unfold P; lia) ltac:(exact (proj2 Hn))) as (d' & t' & E & Hd' & Ht').
  rewrite E. cbn [obind]. apply dmul_unit; assumption.
Qed.

Lemma years_bounds g now : 0 <= years_since_genesis g now < 2 ^ 70.
Proof.
  unfold years_since_genesis. destruct (Z.ltb_spec now g); [lia|].
  unfold MAX_DURATION, MS_PER_YEAR. lia.
Qed.

Lemma rate_cap_total y : 0 <= y < 2 ^ 70 ->
  exists r, inflation_rate_cap y = Some r /\ RATE_MINIMUM <= r <= RATE_INITIAL.
Proof.
  intros Hy. unfold inflation_rate_cap.
  assert (E1 : dsub P DISINFLATION = Some (P - DISINFLATION)) by reflexivity. rewrite E1. cbn [obind].
  destruct (dpower_unit (P - DISINFLATION) y ltac:(unfold P, DISINFLATION; lia) Hy) as (pw & Epw & Hpw).
  rewrite Epw. cbn [obind].
  destruct (dmul_unit RATE_INITIAL pw ltac:(unfold RATE_INITIAL, P; lia) Hpw) as (c & Ec & Hc).
  rewrite Ec. cbn [obind]. eexists. split; [reflexivity|].
  assert (c <= RATE_INITIAL).
  { apply dmul_some in Ec. pose proof (chop_round_bracket (RATE_INITIAL * pw)) as Hb. rewrite <- Ec in Hb.
    assert (RATE_INITIAL * pw <= RATE_INITIAL * P) by (apply Z.mul_le_mono_nonneg_l; unfold RATE_INITIAL; lia).
    unfold RATE_INITIAL, P, HALF in *. lia. }
  destruct (Z.ltb_spec c RATE_MINIMUM); unfold RATE_MINIMUM, RATE_INITIAL in *; lia.
Qed.

Lemma annual_total g now total : 0 <= total < 2 ^ 255 ->
  exists a, annual_provision SUPPLY_CAP g now total = Some a /\ 0 <= a <= SUPPLY_CAP.
Proof.
  intros Ht. unfold annual_provision.
  destruct (rate_cap_total _ (years_bounds g now)) as (rate & Er & Hr). rewrite Er. cbn [obind].
  unfold RATE_MINIMUM, RATE_INITIAL in Hr.
  assert (E1 : dadd P rate = Some (P + rate)) by (unfold dadd; apply chk_ok; unfold DEC_LIM, P in *; lia).
  rewrite E1. cbn [obind].
  assert (E2 : dmul_int (P + rate) total = Some ((P + rate) * total)).
  { unfold dmul_int. apply chk_ok. unfold DEC_LIM, P in *. nia. }
  rewrite E2. cbn [obind].
  assert (Hnn : 0 <= (P + rate) * total) by (unfold P in *; nia).
  pose proof (dtrunc_int_bracket _ Hnn) as Hb. pose proof (dtrunc_int_nonneg _ Hnn) as Hn0.
  set (n0 := dtrunc_int ((P + rate) * total)) in *.
  set (n1 := if SUPPLY_CAP <? n0 then SUPPLY_CAP else n0).
  set (n2 := if n1 <? total then total else n1).
  assert (Hn2 : total <= n2 /\ n2 - total <= SUPPLY_CAP).
  { unfold n2, n1. destruct (Z.ltb_spec SUPPLY_CAP n0) as [H1|H1];
      [destruct (Z.ltb_spec SUPPLY_CAP total)|destruct (Z.ltb_spec n0 total)]; unfold SUPPLY_CAP in *; unfold P in *; nia. }
  exists (n2 - total). split; [apply chk_int_ok; unfold INT_LIM, SUPPLY_CAP in *; lia|lia].
Qed.

Definition SECS_MAX : Z := 2 ^ 128.

Theorem mint_fn_total i :
  0 <= mi_fee_supply i -> 0 <= mi_bond_supply i -> mi_fee_supply i + mi_bond_supply i < 2 ^ 255 ->
  0 <= mi_ratio i <= P -> Z.abs (secs_of i) <= SECS_MAX ->
  mint_fn i <> None.
Proof.
  intros Hf Hb Ht Hr Hs. unfold mint_fn.
  rewrite chk_int_ok by (unfold INT_LIM; lia). cbn [obind].
  destruct (annual_total GENESIS_NS (mi_now_ns i) (mi_bond_supply i + mi_fee_supply i) ltac:(lia)) as (a & Ea & Ha).
  rewrite Ea. cbn [obind].
  assert (Hsecs : unix (mi_now_ns i) - match mi_last i with Some l => l | None => unix (mi_now_ns i) - 60 end = secs_of i).
  { unfold secs_of. destruct (mi_last i); lia. }
  rewrite Hsecs. unfold SECS_MAX, SUPPLY_CAP in *.
  unfold block_provision, block_provision_raw.
  rewrite chk_int_ok by (unfold INT_LIM; nia). cbn [obind].
  set (raw := Z.quot (a * secs_of i) SECONDS_PER_YEAR).
  set (blk := if a <? raw then a else raw).
  destruct (Z.ltb_spec 0 blk) as [Hpos|Hnp]; [|discriminate].
  assert (Hblk : 0 < blk <= 1000000000000000).
  { split; [exact Hpos|]. unfold blk. destruct (Z.ltb_spec a raw); lia. }
  unfold split.
  assert (E3 : dmul_int (mi_ratio i) blk = Some (mi_ratio i * blk)).
  { unfold dmul_int. apply chk_ok. unfold DEC_LIM, P in *. nia. }
  rewrite E3. cbn [obind].
  assert (Hnn : 0 <= mi_ratio i * blk) by nia.
  pose proof (dtrunc_int_bracket _ Hnn) as Hbr. pose proof (dtrunc_int_nonneg _ Hnn) as Hn0.
  assert (dtrunc_int (mi_ratio i * blk) <= blk) by (unfold P in *; nia).
  rewrite chk_int_ok by (unfold INT_LIM; lia). cbn [obind]. discriminate.
Qed.
