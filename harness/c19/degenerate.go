package c19

import (
	"fmt"
	"math"
	"time"

	sdkmath "cosmossdk.io/math"
	sdk "github.com/cosmos/cosmos-sdk/types"

	datypes "github.com/sunriselayer/sunrise/x/da/types"
	likeeper "github.com/sunriselayer/sunrise/x/liquidityincentive/keeper"
	litypes "github.com/sunriselayer/sunrise/x/liquidityincentive/types"
	lptypes "github.com/sunriselayer/sunrise/x/liquiditypool/types"
	sckeeper "github.com/sunriselayer/sunrise/x/shareclass/keeper"
	sctypes "github.com/sunriselayer/sunrise/x/shareclass/types"
	swaptypes "github.com/sunriselayer/sunrise/x/swap/types"

	lpkeeper "github.com/sunriselayer/sunrise/x/liquiditypool/keeper"
	swapkeeper "github.com/sunriselayer/sunrise/x/swap/keeper"

	"verifharness/apph"
	"verifharness/emit"
)

// NegativeBaselineNote is logged when the message-driven scenario below left an accumulator
// position whose fee-growth baseline has a negative component in the store.
const NegativeBaselineNote = "signed: negative fee-growth baseline reached by messages"

// crossedTickScenario: a message history that produces SIGNED stored values.  A wide position,
// an older position whose lower tick T lies below the price, swaps that push the price down
// through T, then a new position [cur-a, T): its upper tick is old and was crossed downwards,
// its lower tick is new, so the fee growth "inside" recorded as its baseline is negative in the
// denom that paid fees while the price was above T.  Then trades both ways and a claim.
func crossedTickScenario(h *apph.H, r *emit.Rand, note func(string, error)) {
	lpSrv := lpkeeper.NewMsgServerImpl(h.App.LiquiditypoolKeeper)
	swSrv := swapkeeper.NewMsgServerImpl(h.App.SwapKeeper)
	base, quote := "uosmo", "uusdc"
	var pool uint64
	e := apph.Tx(h.Ctx(), func(ctx sdk.Context) error {
		res, e := lpSrv.CreatePool(ctx, &lptypes.MsgCreatePool{Authority: h.Accts[0].Addr.String(), DenomBase: base, DenomQuote: quote,
			FeeRate: "0.01", PriceRatio: "1.0001", BaseOffset: emit.Pick(r, "0.5", "0", "-0.5")})
		if e == nil {
			pool = res.Id
		}
		return e
	})
	note("signed: create pool for the crossed-tick scenario", e)
	if e != nil {
		return
	}
	position := func(who int, lo, hi int64, amt int64) (id uint64, err error) {
		err = apph.Tx(h.Ctx(), func(ctx sdk.Context) error {
			res, e := lpSrv.CreatePosition(ctx, &lptypes.MsgCreatePosition{Sender: h.Accts[who].Addr.String(), PoolId: pool, LowerTick: lo, UpperTick: hi,
				TokenBase: sdk.NewCoin(base, sdkmath.NewInt(amt)), TokenQuote: sdk.NewCoin(quote, sdkmath.NewInt(amt)), MinAmountBase: sdkmath.ZeroInt(), MinAmountQuote: sdkmath.ZeroInt()})
			if e == nil {
				id = res.Id
			}
			return e
		})
		return
	}
	swap := func(din, dout string, amt int64) error {
		return apph.Tx(h.Ctx(), func(ctx sdk.Context) error {
			_, e := swSrv.SwapExactAmountIn(ctx, &swaptypes.MsgSwapExactAmountIn{Sender: h.Accts[3].Addr.String(), InterfaceProvider: "",
				Route:    swaptypes.Route{DenomIn: din, DenomOut: dout, Strategy: &swaptypes.Route_Pool{Pool: &swaptypes.RoutePool{PoolId: pool}}},
				AmountIn: sdkmath.NewInt(amt), MinAmountOut: sdkmath.OneInt()})
			return e
		})
	}
	tick := func() int64 {
		p, _, _ := h.App.LiquiditypoolKeeper.GetPool(h.Ctx(), pool)
		return p.CurrentTick
	}
	wide, e := position(0, -3000, 3000, 1_000_000_000)
	note("signed: wide position", e)
	if e != nil {
		return
	}
	T := -int64(60 + r.Intn(120))
	_, e = position(1, T, 300, 100_000_000)
	note(fmt.Sprintf("signed: older position [%d,300]", T), e)
	if e != nil {
		return
	}
	for i := 0; i < 200 && tick() >= T; i++ {
		if e := swap(base, quote, 3_000_000); e != nil {
			note("signed: swap down", e)
			return
		}
	}
	cur := tick()
	if cur >= T {
		note("signed: price did not cross the tick", fmt.Errorf("tick %d >= %d", cur, T))
		return
	}
	lower := cur - int64(10+r.Intn(150))
	_, e = position(2, lower, T, 500_000_000)
	note(fmt.Sprintf("signed: new position [%d,%d) below a crossed tick (price tick %d)", lower, T, cur), e)
	if e != nil {
		return
	}
	note("signed: trade up", swap(quote, base, 4_000_000))
	note("signed: trade down", swap(base, quote, 4_000_000))
	note("signed: claim on the wide position", apph.Tx(h.Ctx(), func(ctx sdk.Context) error {
		_, e := lpSrv.ClaimRewards(ctx, &lptypes.MsgClaimRewards{Sender: h.Accts[0].Addr.String(), PositionIds: []uint64{wide}})
		return e
	}))
	for _, ap := range h.App.LiquiditypoolKeeper.GetAllAccumulatorPositions(h.Ctx()) {
		for _, c := range ap.AccumValuePerShare {
			if c.Amount.IsNegative() {
				note(NegativeBaselineNote, nil)
				return
			}
		}
	}
	note("signed: no negative baseline in the store after the scenario", fmt.Errorf("scenario did not produce one"))
}

// degenerateMsgs sends the degenerate-but-valid messages the handlers may accept: a gauge vote
// without pool weights, one with weight 0, a zero-amount undelegation.  Whatever a handler
// rejects is only logged; whatever it accepts becomes a record an export/import must keep.
func degenerateMsgs(h *apph.H, note func(string, error)) {
	liSrv := likeeper.NewMsgServerImpl(h.App.LiquidityincentiveKeeper)
	scSrv := sckeeper.NewMsgServerImpl(h.App.ShareclassKeeper)
	n := len(h.Accts)
	note("degenerate: vote gauge with no pool weights", apph.Tx(h.Ctx(), func(ctx sdk.Context) error {
		_, e := liSrv.VoteGauge(ctx, &litypes.MsgVoteGauge{Sender: h.Accts[n-1].Addr.String(), PoolWeights: nil})
		return e
	}))
	pools, _ := h.App.LiquiditypoolKeeper.GetAllPools(h.Ctx())
	if len(pools) > 0 {
		note("degenerate: vote gauge with weight 0", apph.Tx(h.Ctx(), func(ctx sdk.Context) error {
			_, e := liSrv.VoteGauge(ctx, &litypes.MsgVoteGauge{Sender: h.Accts[n-2].Addr.String(), PoolWeights: []litypes.PoolWeight{{PoolId: pools[0].Id, Weight: "0"}}})
			return e
		}))
	}
	if vals, e := h.App.StakingKeeper.GetAllValidators(h.Ctx()); e == nil && len(vals) > 0 {
		note("degenerate: non-voting undelegate of 0", apph.Tx(h.Ctx(), func(ctx sdk.Context) error {
			_, e := scSrv.NonVotingUndelegate(ctx, &sctypes.MsgNonVotingUndelegate{Sender: h.Accts[0].Addr.String(), ValidatorAddress: vals[0].OperatorAddress,
				Amount: sdk.NewCoin("urise", sdkmath.ZeroInt()), Recipient: h.Accts[0].Addr.String()})
			return e
		}))
	}
}

// degenerateRecords writes, through the keepers' setters, one or more degenerate-but-valid
// records into every collection of every module: empty lists, zero amounts and counts, empty
// strings where the key codec allows them, zero-valued sub-messages, smallest and largest ids.
// An export or import that filters "useless" entries then shows up as a store difference.
// A setter that refuses a record is logged (the record is then not part of the state).
func degenerateRecords(h *apph.H, ctx sdk.Context, note func(string, error)) {
	tag := func(s string) string { return "degenerate: " + s }
	mk := func(s string) sdk.AccAddress {
		b := make([]byte, 20)
		copy(b, []byte(s))
		return sdk.AccAddress(b)
	}
	zeroDec := sdkmath.LegacyZeroDec()

	// liquiditypool
	lp := h.App.LiquiditypoolKeeper
	note(tag("pool with only an id (largest id, empty denoms and rates)"), lp.SetPool(ctx, lptypes.Pool{Id: math.MaxUint64}))
	note(tag("pool with zero liquidity, zero price, tick 0"), lp.SetPool(ctx, lptypes.Pool{Id: math.MaxUint64 - 1, DenomBase: "uatom", DenomQuote: "uusdc", FeeRate: zeroDec.String(),
		TickParams: lptypes.TickParams{PriceRatio: "1.000100000000000000", BaseOffset: zeroDec.String()}, CurrentTickLiquidity: zeroDec.String(), CurrentSqrtPrice: zeroDec.String()}))
	note(tag("position with zero liquidity and an empty range (largest id)"), lp.SetPosition(ctx, lptypes.Position{Id: math.MaxUint64, Address: mk("zero-liquidity").String(), PoolId: math.MaxUint64 - 1, Liquidity: zeroDec.String()}))
	note(tag("position with extreme ticks"), lp.SetPosition(ctx, lptypes.Position{Id: math.MaxUint64 - 1, Address: mk("extreme-ticks").String(), PoolId: 0, LowerTick: math.MinInt64, UpperTick: math.MaxInt64, Liquidity: "0.000000000000000001"}))
	lp.SetTickInfo(ctx, lptypes.TickInfo{PoolId: math.MaxUint64 - 1, TickIndex: 0, LiquidityGross: zeroDec.String(), LiquidityNet: zeroDec.String()})
	lp.SetTickInfo(ctx, lptypes.TickInfo{PoolId: 0, TickIndex: math.MinInt64, LiquidityGross: zeroDec.String(), LiquidityNet: zeroDec.String()})
	note(tag("tick infos with zero liquidity, no fee growth, extreme index"), nil)
	note(tag("accumulator with no value and zero shares"), lp.SetAccumulator(ctx, lptypes.AccumulatorObject{Name: lptypes.KeyFeePoolAccumulator(math.MaxUint64 - 1), AccumValue: sdk.NewDecCoins(), TotalShares: zeroDec.String()}))
	note(tag("accumulator with an empty name"), lp.SetAccumulator(ctx, lptypes.AccumulatorObject{Name: "", AccumValue: nil, TotalShares: zeroDec.String()}))
	note(tag("accumulator position with zero shares and no coins"), lp.SetAccumulatorPosition(ctx, lptypes.KeyFeePoolAccumulator(math.MaxUint64-1), sdk.NewDecCoins(), lptypes.KeyFeePositionAccumulator(math.MaxUint64), zeroDec, sdk.NewDecCoins()))
	note(tag("accumulator position with empty names"), lp.SetAccumulatorPosition(ctx, "", nil, "", zeroDec, nil))

	// signed and unordered values (raw literals: the sdk constructors would sort, merge or reject)
	neg := func(s string) sdkmath.LegacyDec { return sdkmath.LegacyMustNewDecFromStr(s) }
	signed := sdk.DecCoins{{Denom: "uusdc", Amount: neg("-0.000000000000000001")}, {Denom: "uatom", Amount: neg("-12345.678900000000000000")}}
	unordered := sdk.DecCoins{{Denom: "uusdc", Amount: neg("2.5")}, {Denom: "uatom", Amount: neg("-1")}, {Denom: "uusdc", Amount: neg("-4.25")}, {Denom: "uatom", Amount: neg("0")}}
	note(tag("accumulator with negative components"), lp.SetAccumulator(ctx, lptypes.AccumulatorObject{Name: lptypes.KeyFeePoolAccumulator(math.MaxUint64 - 2), AccumValue: signed, TotalShares: neg("-3").String()}))
	note(tag("accumulator with an unsorted list, duplicate denoms, zero and negative entries"), lp.SetAccumulator(ctx, lptypes.AccumulatorObject{Name: lptypes.KeyFeePoolAccumulator(math.MaxUint64 - 3), AccumValue: unordered, TotalShares: zeroDec.String()}))
	note(tag("accumulator position with a negative baseline and negative unclaimed rewards"), lp.SetAccumulatorPosition(ctx, lptypes.KeyFeePoolAccumulator(math.MaxUint64-2), signed, lptypes.KeyFeePositionAccumulator(math.MaxUint64-1), neg("1"), signed))
	note(tag("accumulator position with unsorted duplicate-denom lists and negative shares"), lp.SetAccumulatorPosition(ctx, lptypes.KeyFeePoolAccumulator(math.MaxUint64-3), unordered, lptypes.KeyFeePositionAccumulator(math.MaxUint64-2), neg("-7.5"), unordered))
	lp.SetTickInfo(ctx, lptypes.TickInfo{PoolId: math.MaxUint64 - 2, TickIndex: -1, LiquidityGross: neg("5").String(), LiquidityNet: neg("-5").String(), FeeGrowth: signed})
	lp.SetTickInfo(ctx, lptypes.TickInfo{PoolId: math.MaxUint64 - 2, TickIndex: 1, LiquidityGross: neg("5").String(), LiquidityNet: neg("-5").String(), FeeGrowth: unordered})
	note(tag("tick infos with negative net liquidity and signed / unsorted fee growth"), nil)
	note(tag("pool with negative tick and negative-looking decimals"), lp.SetPool(ctx, lptypes.Pool{Id: math.MaxUint64 - 2, DenomBase: "uatom", DenomQuote: "uusdc", FeeRate: zeroDec.String(),
		TickParams: lptypes.TickParams{PriceRatio: "1.000100000000000000", BaseOffset: neg("-0.5").String()}, CurrentTick: math.MinInt64, CurrentTickLiquidity: neg("-1").String(), CurrentSqrtPrice: zeroDec.String()}))
	note(tag("position with negative liquidity"), lp.SetPosition(ctx, lptypes.Position{Id: math.MaxUint64 - 2, Address: mk("negative-liquidity").String(), PoolId: math.MaxUint64 - 2, LowerTick: 5, UpperTick: -5, Liquidity: neg("-9").String()}))

	// liquidityincentive
	li := h.App.LiquidityincentiveKeeper
	note(tag("gauge with a negative count"), li.SetGauge(ctx, litypes.Gauge{PreviousEpochId: math.MaxUint64 - 1, PoolId: 1, Count: sdkmath.NewInt(-17)}))
	note(tag("epoch whose gauges are unordered, duplicated and negative"), li.SetEpoch(ctx, litypes.Epoch{Id: math.MaxUint64 - 2, StartBlock: 9, EndBlock: 3, Gauges: []litypes.Gauge{
		{PreviousEpochId: 7, PoolId: 9, Count: sdkmath.NewInt(-1)}, {PreviousEpochId: 7, PoolId: 2, Count: sdkmath.NewInt(5)}, {PreviousEpochId: 7, PoolId: 9, Count: sdkmath.ZeroInt()}}}))
	note(tag("vote with unordered duplicate pools"), li.SetVote(ctx, litypes.Vote{Sender: mk("unordered-vote").String(), PoolWeights: []litypes.PoolWeight{
		{PoolId: 9, Weight: "0.100000000000000000"}, {PoolId: 2, Weight: "0.200000000000000000"}, {PoolId: 9, Weight: "0.300000000000000000"}}}))
	note(tag("epoch without gauges, blocks 0..0 (largest id)"), li.SetEpoch(ctx, litypes.Epoch{Id: math.MaxUint64}))
	note(tag("epoch with an empty gauge list"), li.SetEpoch(ctx, litypes.Epoch{Id: math.MaxUint64 - 1, StartBlock: 5, EndBlock: 5, Gauges: []litypes.Gauge{}}))
	note(tag("gauge with count 0"), li.SetGauge(ctx, litypes.Gauge{PreviousEpochId: math.MaxUint64, PoolId: math.MaxUint64, Count: sdkmath.ZeroInt()}))
	note(tag("gauge (0,0) with count 0"), li.SetGauge(ctx, litypes.Gauge{PreviousEpochId: 0, PoolId: 0, Count: sdkmath.ZeroInt()}))
	note(tag("vote without pool weights"), li.SetVote(ctx, litypes.Vote{Sender: mk("empty-vote").String()}))
	note(tag("vote with an empty weight list"), li.SetVote(ctx, litypes.Vote{Sender: mk("empty-list-vote").String(), PoolWeights: []litypes.PoolWeight{}}))
	note(tag("vote with weight 0"), li.SetVote(ctx, litypes.Vote{Sender: mk("zero-weight-vote").String(), PoolWeights: []litypes.PoolWeight{{PoolId: 0, Weight: "0.000000000000000000"}}}))

	// swap, da
	sw := h.App.SwapKeeper
	da := h.App.DaKeeper
	note(tag("incoming packet with a zero index, no data, zero fee"), sw.SetIncomingInFlightPacket(ctx, swaptypes.IncomingInFlightPacket{InterfaceFee: sdkmath.ZeroInt()}))
	note(tag("incoming packet with empty acks"), sw.SetIncomingInFlightPacket(ctx, swaptypes.IncomingInFlightPacket{Index: swaptypes.PacketIndex{PortId: "transfer", ChannelId: "channel-0", Sequence: math.MaxUint64},
		InterfaceFee: sdkmath.ZeroInt(), Ack: []byte{}, Change: &swaptypes.IncomingInFlightPacket_AckChange{AckChange: []byte{}}, Forward: &swaptypes.IncomingInFlightPacket_AckForward{AckForward: []byte{}}}))
	note(tag("outgoing packet, all zero"), sw.SetOutgoingInFlightPacket(ctx, swaptypes.OutgoingInFlightPacket{}))
	note(tag("outgoing packet with no retries left (largest sequence)"), sw.SetOutgoingInFlightPacket(ctx, swaptypes.OutgoingInFlightPacket{Index: swaptypes.PacketIndex{PortId: "transfer", ChannelId: "channel-0", Sequence: math.MaxUint64}, RetriesRemaining: 0}))

	far := h.Time.Add(300000 * time.Second)
	note(tag("incoming packet with a negative interface fee"), sw.SetIncomingInFlightPacket(ctx, swaptypes.IncomingInFlightPacket{Index: swaptypes.PacketIndex{PortId: "transfer", ChannelId: "channel-0", Sequence: math.MaxUint64 - 1}, InterfaceFee: sdkmath.NewInt(-5)}))
	note(tag("outgoing packet with negative retries"), sw.SetOutgoingInFlightPacket(ctx, swaptypes.OutgoingInFlightPacket{Index: swaptypes.PacketIndex{PortId: "transfer", ChannelId: "channel-0", Sequence: math.MaxUint64 - 1}, RetriesRemaining: -1}))
	note(tag("published data with unsorted / duplicate-denom collateral"), da.SetPublishedData(ctx, datypes.PublishedData{MetadataUri: "ipfs://unordered-collateral", Timestamp: h.Time.Add(300001 * time.Second), PublishedTimestamp: h.Time,
		Status: datypes.Status_STATUS_CHALLENGING, Publisher: mk("publisher").String(), Challenger: mk("publisher").String(),
		PublishDataCollateral:      sdk.Coins{{Denom: "uusdc", Amount: sdkmath.NewInt(3)}, {Denom: "urise", Amount: sdkmath.NewInt(2)}, {Denom: "uusdc", Amount: sdkmath.NewInt(1)}},
		SubmitInvalidityCollateral: sdk.Coins{{Denom: "urise", Amount: sdkmath.ZeroInt()}}}))
	note(tag("proof with negative, unordered and repeated indices"), da.SetProof(ctx, datypes.Proof{MetadataUri: "ipfs://unordered-collateral", Sender: mk("signed-proof").String(), Indices: []int64{5, -1, 5, 0}, Proofs: [][]byte{{}, nil, {1}, {}}}))
	note(tag("published data without shards, collateral or parties"), da.SetPublishedData(ctx, datypes.PublishedData{MetadataUri: "ipfs://empty-item", Timestamp: far, PublishedTimestamp: far, Status: datypes.Status_STATUS_VERIFIED}))
	note(tag("published data with unspecified status and empty uri"), da.SetPublishedData(ctx, datypes.PublishedData{MetadataUri: "", Timestamp: far, PublishedTimestamp: far}))
	note(tag("proof with no indices and no proofs"), da.SetProof(ctx, datypes.Proof{MetadataUri: "ipfs://empty-item", Sender: mk("empty-proof").String()}))
	note(tag("proof with empty lists and empty uri"), da.SetProof(ctx, datypes.Proof{MetadataUri: "", Sender: mk("empty-proof-2").String(), Indices: []int64{}, Proofs: [][]byte{}}))
	note(tag("invalidity with no indices"), da.SetInvalidity(ctx, datypes.Invalidity{MetadataUri: "ipfs://empty-item", Sender: mk("empty-invalidity").String()}))
	note(tag("fault counter 0"), da.SetFaultCounter(ctx, sdk.ValAddress(mk("zero-faults")), 0))
	note(tag("deputy equal to the validator"), da.SetProofDeputy(ctx, sdk.ValAddress(mk("self-deputy")), mk("self-deputy")))

	// shareclass
	sc := h.App.ShareclassKeeper
	_, e := sc.AppendUnbonding(ctx, sctypes.Unbonding{Address: mk("zero-unbonding").String(), CompletionTime: far, Amount: sdk.NewCoin("urise", sdkmath.ZeroInt())})
	note(tag("unbonding of amount 0"), e)
	zd, _ := sdkmath.NewDecFromString("0")
	note(tag("reward multiplier 0"), sc.SetRewardMultiplier(ctx, sdk.ValAddress(mk("zero-multiplier")), "urise", zd))
	note(tag("user's last reward multiplier 0"), sc.SetUserLastRewardMultiplier(ctx, mk("zero-user"), sdk.ValAddress(mk("zero-multiplier")), "urise", zd))
	note(tag("last reward handling time at the epoch"), sc.SetLastRewardHandlingTime(ctx, sdk.ValAddress(mk("zero-multiplier")), time.Unix(0, 0).UTC()))

	// selfdelegation
	sd := h.App.SelfdelegationKeeper
	note(tag("lockup account registered to itself"), sd.LockupAccounts.Set(ctx, mk("self-owned-lockup"), mk("self-owned-lockup")))
	note(tag("proxy equal to the owner"), sd.SelfDelegationProxies.Set(ctx, mk("self-proxy"), mk("self-proxy")))
	_ = fmt.Sprint
}
