(* C01 — Block processing never halts: no hook error, panic or unmetered hang.
   Only statements, each closed by [exact]; proofs live in Sys/BlocksProofs.v, Sys/MintTotal.v,
   Sys/LoopsProofs.v, Sys/SwapLoopProofs.v.

   Partial (said here once, repeated in notes/C01.md):
   * the hooks of the SDK modules (upgrade, distribution, slashing, evidence, staking, gov, epochs,
     ibc ...) are oracles assumed total; [run_block] composes the custom hooks only;
   * "time bounded by gas" is proved as iteration bounds of the unmetered loops; wall-clock time is
     only measured by the harness;
   * [C01_hooks_total] assumes that the gauge tally of the staking graph is defined
     ([tally_defined]: no LegacyDec range assertion fires inside Keeper.Tally) and that x/staking
     has released what the share-class entries completing now record ([sc_inv]); the second
     assumption is false on the real chain when a validator is slashed while an entry is
     unbonding ([C01_slashed_unbonding_halts_refuted], known finding). *)
From Coq Require Import ZArith List Bool.
Import ListNotations.
From Sunrise Require Import Base.Outcome Base.Dec Econ.Mint Econ.MintProofs Amm.Math Amm.Pool Stake.TallyCore
  Sys.Blocks Sys.BlocksProofs Sys.MintTotal Sys.Loops Sys.LoopsProofs Sys.SwapLoopProofs Sys.VerdictProofs.
From Sunrise Require Stake.Gauge Stake.GaugeProofs Stake.ShareClass Da.Da Da.Tally.
Local Open Scope Z_scope.

(* ------------------------------------------------------------------ (1) hooks *)
(* For every block input whose projections satisfy the module invariants [block_inv]
   (liquidityincentive: gauge counts >= 0, balance and counts below 2^128; mint: supplies below
   2^255, staking reward ratio accepted by Params.Validate; DA: parameters accepted by
   Params.Validate after the repair, stored items have 1..2^63 shards; share class: see above),
   at any height and block time, with any transaction list, the pre-blocker, both
   liquidityincentive hooks, the mint function, the DA end blocker and the share-class end blocker
   all return Ok, composed in the order of app_config.go. *)
Theorem C01_hooks_total : forall b, block_inv b -> exists o, run_block true b = Ok o.
Proof. exact hooks_total. Qed.
Print Assumptions C01_hooks_total.

(* the custom pre-blocker cannot fail, whatever follows the METADATA splitter in the block *)
Theorem C01_pre_block_total : forall txs h s, exists s', pre_block txs h s = Ok s'.
Proof. exact pre_block_total. Qed.
Print Assumptions C01_pre_block_total.

(* PrepareProposal (custom handler of app/abci_proposal.go) never returns more than MaxTxBytes:
   CometBFT would refuse the proposal and the proposer could propose nothing - whatever the
   verified DA items and whatever the SDK's default handler selects within its own contract *)
Theorem C01_prepare_proposal_fits : forall sel max split entries,
  (forall m, 0 <= m -> zsumL (sel m) <= m) -> 0 <= max -> 0 <= split -> Forall (fun e => 0 <= e) entries ->
  zsumL (prepare_proposal true sel max split entries) <= max.
Proof. exact prepare_proposal_fits. Qed.
Print Assumptions C01_prepare_proposal_fits.

(* the mint function never panics: supplies below 2^255, ratio in [0,1], any block time *)
Theorem C01_mint_total : forall i,
  0 <= mi_fee_supply i -> 0 <= mi_bond_supply i -> mi_fee_supply i + mi_bond_supply i < 2 ^ 255 ->
  0 <= mi_ratio i <= P -> Z.abs (secs_of i) <= SECS_MAX -> mint_fn i <> None.
Proof. exact mint_fn_total. Qed.
Print Assumptions C01_mint_total.

(* the DA end blocker (state machine of C07, thresholds of C09, slash epoch) returns Ok for every
   parameter set Params.Validate accepts after the repair, at every height and time, and for ALL
   stored invalidity and proof records: [da_inv] constrains the parameters, the shard counts of the
   items and two counters only - the index lists of the records ([Da.v_idx], [Da.p_idx]) are
   arbitrary lists over Z (negative, beyond the shard count, repeated, empty: Msg/SubmitInvalidity
   stores whatever it is sent, known finding C07-F1; the code de-duplicates them through a map) *)
Theorem C01_da_end_total : forall height now i, da_inv i -> exists r, da_end true height now i = Ok r.
Proof. exact da_end_total. Qed.
Print Assumptions C01_da_end_total.

(* the threshold function inside it is C09's model of GetZkpThreshold (compared with the keeper's
   value on every C09 case) whenever there is an active validator *)
Theorem C01_da_threshold_is_the_c09_model : forall rf n nact, 0 < rf -> 0 <= n <= N_MAX -> 0 < nact ->
  zkp_threshold_c rf n nact = of_opt (Tally.zkp_threshold rf n nact).
Proof. exact zkp_threshold_c_is_tally. Qed.
Print Assumptions C01_da_threshold_is_the_c09_model.

(* the share-class end blocker succeeds exactly when the funds are there *)
Theorem C01_shareclass_end_total : forall now i, sc_inv now i -> exists q, sc_end now i = Ok q.
Proof. exact sc_end_total. Qed.
Print Assumptions C01_shareclass_end_total.
Theorem C01_shareclass_end_halts_when_short : forall now i,
  amounts_nonneg (sc_queue i) -> 0 <= sc_mod_bond i + sc_released i ->
  sc_mod_bond i + sc_released i < sc_due now (sc_queue i) -> exists e, sc_end now i = Err e.
Proof. exact sc_end_halts. Qed.
Print Assumptions C01_shareclass_end_halts_when_short.

(* ------------------------------------------------------------------ (2) loop bounds *)
(* CalculateMultipliedPriceToTick, upwards: price_ratio >= 1 + 10^-18 and an offset price not
   below the fixed point of the rounded division (ratio <= 2*(ratio-1)*offset in raw units): the
   search ends within ceil(10^18/d) * log2(2*d*mp0 - ratio) iterations, d = ratio - 10^18, with or
   without the no-progress guard; the returned tick is the iteration count. *)
Theorem C01_price_to_tick_fuel_up : forall g ratio offset mp t fuel,
  P + 1 <= ratio -> 0 <= offset -> ratio <= 2 * (ratio - P) * offset ->
  search_up_bound ratio mp <= Z.of_nat fuel ->
  search_up_g g fuel mp offset ratio t <> Err E_FUEL.
Proof. exact search_up_terminates. Qed.
Print Assumptions C01_price_to_tick_fuel_up.

Theorem C01_price_to_tick_iterations_up : forall g ratio offset mp t t' fuel,
  P + 1 <= ratio -> 0 <= offset -> ratio <= 2 * (ratio - P) * offset ->
  0 <= search_up_bound ratio mp ->
  search_up_g g fuel mp offset ratio t = Ok t' -> t' - t <= search_up_bound ratio mp.
Proof. exact search_up_iterations. Qed.
Print Assumptions C01_price_to_tick_iterations_up.

(* downwards: started above the fixed point of the rounded multiplication (10^18 < 2*d*mp0) *)
Theorem C01_price_to_tick_fuel_down : forall g ratio offset mp t fuel,
  P + 1 <= ratio -> 0 <= mp -> P < 2 * (ratio - P) * mp ->
  search_down_bound ratio offset <= Z.of_nat fuel ->
  search_down_g g fuel mp offset ratio t <> Err E_FUEL.
Proof. exact search_down_terminates. Qed.
Print Assumptions C01_price_to_tick_fuel_down.

Theorem C01_price_to_tick_iterations_down : forall g ratio offset mp t t' fuel,
  P + 1 <= ratio -> 0 <= mp -> P < 2 * (ratio - P) * mp ->
  0 <= search_down_bound ratio offset ->
  search_down_g g fuel mp offset ratio t = Ok t' -> t - t' <= search_down_bound ratio offset.
Proof. exact search_down_iterations. Qed.
Print Assumptions C01_price_to_tick_iterations_down.

(* the guarded loops are exactly Amm/Math.v's (the model the AMM checks compare with the code;
   /repo HEAD contains the guard since "fix: stop the price->tick search when a step makes no
   progress") *)
Theorem C01_search_is_the_amm_model : forall mp tp,
  multiplied_price_to_tick_g true SEARCH_FUEL mp tp = multiplied_price_to_tick mp tp.
Proof. exact multiplied_price_to_tick_g_true. Qed.
Print Assumptions C01_search_is_the_amm_model.

(* swap loop: the counted loop is Pool.swap_loop; crossing passes <= initialised ticks offered by
   the iterator, zero-progress passes <= 101 *)
Theorem C01_swap_loop_counted_is_the_amm_model : forall fuel ei b4q ua fee limit tp acc din iter st k,
  fst (swap_loop_c fuel ei b4q ua fee limit tp acc din iter st k)
  = swap_loop fuel ei b4q ua fee limit tp acc din iter st.
Proof. exact swap_loop_c_erase. Qed.
Print Assumptions C01_swap_loop_counted_is_the_amm_model.

Theorem C01_swap_loop_fuel_partial : forall fuel ei b4q ua fee limit tp acc din iter st k r k',
  ss_noprog st <= 100 ->
  swap_loop_c fuel ei b4q ua fee limit tp acc din iter st k = (r, k') ->
  n_cross k <= n_cross k' <= n_cross k + Z.of_nat (length iter) /\
  n_zero k <= n_zero k' <= n_zero k + (101 - ss_noprog st) /\
  n_other k <= n_other k'.
Proof. exact swap_loop_c_bounds. Qed.
Print Assumptions C01_swap_loop_fuel_partial.
(* full statement, not proved: the passes that neither cross a tick nor are zero-progress
   ("other") are at most one per swap, i.e. passes <= #initialised ticks + 102.  Missing: such a
   pass leaves remaining = 0 or the price at the limit; true for exact-in with a positive fee
   (fee charge = remaining - amount in), not established for fee 0 and for exact-out, where the
   rounded amounts can leave a dust remainder that is worked off in further passes. *)
Definition C01_swap_loop_fuel_full : Prop :=
  forall fuel ei b4q ua fee limit tp acc din iter st r k',
  ss_noprog st = 0 ->
  swap_loop_c fuel ei b4q ua fee limit tp acc din iter st {| n_cross := 0; n_zero := 0; n_other := 0 |} = (r, k') ->
  passes k' <= Z.of_nat (length iter) + 102.

(* LegacyDec.Power: at most 63 passes for a uint64 power; the model's fuel never decides *)
Theorem C01_power_iterations : forall fuel i, i < 2 ^ 64 -> power_iters fuel i <= 63.
Proof. exact power_iters_uint64. Qed.
Print Assumptions C01_power_iterations.
Theorem C01_power_fuel_irrelevant : forall f1 f2 i d tmp, i < 2 ^ Z.of_nat f1 -> i < 2 ^ Z.of_nat f2 ->
  power_loop f1 i d tmp = power_loop f2 i d tmp.
Proof. exact power_loop_fuel. Qed.
Print Assumptions C01_power_fuel_irrelevant.

(* PowApprox: |base - 1| <= 1/2, |exponent| < 1: geometric decay of the term, the loop ends
   (within 46 passes; the model's 4000 units of fuel are never exhausted) *)
Theorem C01_pow_approx_terminates : forall base exponent,
  HALF <= base <= P + HALF -> Z.abs exponent < P -> pow_approx base exponent <> None.
Proof. exact pow_approx_terminates. Qed.
Print Assumptions C01_pow_approx_terminates.
(* every pool accepted by the (repaired) MsgCreatePool validation has a converging PowApprox *)
Theorem C01_validated_pool_pow_converges : forall fee ratio offs,
  pool_params_ok fee ratio offs = true -> pow_approx ratio (offs - dtrunc_dec offs) <> None.
Proof. exact validated_pow_converges. Qed.
Print Assumptions C01_validated_pool_pow_converges.
(* ApproxRoot: the loop is bounded by its own constant (300 = maxApproxRootIterations) in the
   code and in Base/Dec.v (root_loop 300): nothing to prove. *)

(* what the check computes for a watched transaction is a fact about the loop: a [Hangs]
   verdict means out of fuel for every fuel up to 10^7, a [Returns n] verdict that at most
   max(n, cap) iterations suffice (Loops.up_verdict / down_verdict, used by C01Check monitor 2) *)
Theorem C01_verdict_hangs_up : forall g cap mp offset ratio, up_verdict g cap mp offset ratio = Hangs ->
  forall fuel t, Z.of_nat fuel <= LIMIT -> search_up_g g fuel mp offset ratio t = Err E_FUEL.
Proof. exact up_verdict_hangs_sound. Qed.
Print Assumptions C01_verdict_hangs_up.
Theorem C01_verdict_hangs_down : forall g cap mp offset ratio, down_verdict g cap mp offset ratio = Hangs ->
  forall fuel t, Z.of_nat fuel <= LIMIT -> search_down_g g fuel mp offset ratio t = Err E_FUEL.
Proof. exact down_verdict_hangs_sound. Qed.
Print Assumptions C01_verdict_hangs_down.
Theorem C01_verdict_returns_up : forall g cap mp offset ratio n, up_verdict g cap mp offset ratio = Returns n ->
  exists fuel, Z.of_nat fuel <= Z.max n (Z.of_nat cap) /\ forall t, search_up_g g fuel mp offset ratio t <> Err E_FUEL.
Proof. exact up_verdict_returns_sound. Qed.
Print Assumptions C01_verdict_returns_up.
Theorem C01_verdict_returns_down : forall g cap mp offset ratio n, down_verdict g cap mp offset ratio = Returns n ->
  exists fuel, Z.of_nat fuel <= Z.max n (Z.of_nat cap) /\ forall t, search_down_g g fuel mp offset ratio t <> Err E_FUEL.
Proof. exact down_verdict_returns_sound. Qed.
Print Assumptions C01_verdict_returns_down.

(* ------------------------------------------------------------------ (3) refutations *)
(* the code as found = [search_up_g false] / [search_down_g false] (no guard) and no validation in
   MsgCreatePool.  price_ratio = 1: the search never ends *)
Theorem C01_price_ratio_one_diverges_refuted : forall mp offset,
  offset < mp -> Z.abs mp <= DEC_LIM -> forall fuel t, search_up_g false fuel mp offset P t = Err E_FUEL.
Proof. exact price_ratio_one_diverges. Qed.
Print Assumptions C01_price_ratio_one_diverges_refuted.
(* regression: with the guard the same input ends at the first step with ErrPriceOutOfBound *)
Theorem C01_price_ratio_one_guarded_regression : forall mp offset fuel t,
  offset < mp -> Z.abs mp <= DEC_LIM -> search_up_g true (S fuel) mp offset P t = Err E_PRICE_OUT_OF_BOUND.
Proof. exact price_ratio_one_guarded. Qed.
Print Assumptions C01_price_ratio_one_guarded_regression.

Theorem C01_price_ratio_le_one_diverges_refuted : forall ratio offset, 0 < ratio <= P ->
  forall fuel mp t, 0 <= mp < offset -> mp <= DEC_LIM -> search_down_g false fuel mp offset ratio t = Err E_FUEL.
Proof. exact price_ratio_le_one_diverges. Qed.
Print Assumptions C01_price_ratio_le_one_diverges_refuted.

(* price_ratio = 1 + 10^-18, first position 1000 base / 2000 quote: >= 4*10^17 iterations *)
Theorem C01_price_ratio_next_to_one_refuted : forall g, exists mp,
  first_position_search 2000 1000 {| price_ratio := P + 1; base_offset := 0 |} = Some (true, mp, MULT) /\
  forall fuel t, Z.of_nat fuel <= 4 * 10 ^ 17 -> search_up_g g fuel mp MULT (P + 1) t = Err E_FUEL.
Proof. exact price_ratio_next_to_one_astronomic. Qed.
Print Assumptions C01_price_ratio_next_to_one_refuted.

(* the DEFAULT ratio 1.0001: a first position of 10^33 base units against 1 quote unit gives the
   multiplied price 1024e-18, and 1024 * 1.0001 rounds back to 1024: the loop as found never ends *)
Theorem C01_tiny_price_default_ratio_refuted :
  first_position_search 1 (10 ^ 33) tp_default = Some (false, 1024, MULT) /\
  (forall fuel t, search_down_g false fuel 1024 MULT RATIO_DEFAULT t = Err E_FUEL) /\
  (forall fuel t, search_down (S fuel) 1024 MULT RATIO_DEFAULT t = Err E_PRICE_OUT_OF_BOUND).
Proof. exact tiny_price_default_ratio_diverges. Qed.
Print Assumptions C01_tiny_price_default_ratio_refuted.

(* price_ratio = 2, base offset -0.5 (accepted by the validation of commit 117698b, which had no
   upper bound): PowApprox's series does not converge within the model's 4000 passes; on the real
   application the first MsgCreatePosition does not return.  Rejected by [pool_params_ok]. *)
Theorem C01_pow_approx_ratio_two_refuted :
  pool_params_ok_lower 10000000000000000 (2 * P) (- HALF) = true /\
  pow (2 * P) (- HALF) = None /\
  pool_params_ok 10000000000000000 (2 * P) (- HALF) = false.
Proof. exact pow_approx_ratio_two_does_not_converge. Qed.
Print Assumptions C01_pow_approx_ratio_two_refuted.

(* x/da: replication factor 10^19 passes Params.Validate as found and panics in EndBlock;
   rejected / harmless after the repair *)
Theorem C01_da_replication_factor_halts_refuted :
  da_params_ok_found w_da_params HALF 1000 = true /\
  da_end false 7 5000000000 w_da_in = Panic /\
  da_params_ok w_da_params HALF 1000 = false /\
  is_ok (da_end true 7 5000000000 w_da_in) = true.
Proof. exact da_replication_factor_halts. Qed.
Print Assumptions C01_da_replication_factor_halts_refuted.

(* x/da: a slash_fraction that does not parse (a validation that forgets the field would accept
   it): HandleSlashEpoch panics at the next multiple of slash_epoch.  [da_inv] demands that the
   stored string parses into [0,1] (what Params.Validate checks on /repo HEAD; the harness asks the
   real validation for every field, CField cases) *)
Theorem C01_unparsable_slash_fraction_halts_refuted :
  da_end true 2000 5000000000
    {| di_state := Da.St ex_da_params_0 [] [] [] []; di_bank := {| Base.Bank.bal := fun _ _ => 0; Base.Bank.sup := fun _ => 0 |};
       di_nact := 1; di_sft := HALF; di_sfr := None; di_cc := 0; di_slash_epoch := 1000 |} = Panic.
Proof. exact da_unparsable_slash_fraction_halts. Qed.
Print Assumptions C01_unparsable_slash_fraction_halts_refuted.

(* x/shareclass: slash during unbonding -> EndBlocker error (open: known finding) *)
Theorem C01_slashed_unbonding_halts_refuted : exists e, sc_end 12000000000 w_sc_in = Err e.
Proof. exact sc_slashed_unbonding_halts. Qed.
Print Assumptions C01_slashed_unbonding_halts_refuted.

(* x/shareclass: a blocked recipient (module account) named in MsgNonVotingUndelegate: the payout
   is refused, the end blocker fails at every block from the completion on (repaired: rejected) *)
Theorem C01_blocked_recipient_halts_refuted :
  sc_end 12000000000 {| sc_queue := [ShareClass.mkUnb 3 900 10000000000 50000]; sc_mod_bond := 0; sc_released := 50000;
                          sc_staking_times := [10000000000]; sc_slash_loss := 0; sc_blocked := [3] |}
  = Err E_BLOCKED.
Proof. exact sc_blocked_recipient_halts. Qed.
Print Assumptions C01_blocked_recipient_halts_refuted.

(* PrepareProposal as found: a full mempool and one verified DA item: 13595 bytes for a budget of
   13558 (the numbers observed on the real application); 13558 after the repair *)
Theorem C01_prepare_proposal_exceeds_refuted :
  let sel := fun m : Z => [m] in
  (forall m, 0 <= m -> zsumL (sel m) <= m) /\ zsumL (prepare_proposal false sel 13558 10 [27]) = 13595 /\
  zsumL (prepare_proposal true sel 13558 10 [27]) = 13558.
Proof. exact prepare_proposal_as_found_exceeds. Qed.
Print Assumptions C01_prepare_proposal_exceeds_refuted.

(* ------------------------------------------------------------------ non-vacuity *)
(* a concrete block (epoch with two gauges, one pool without in-range liquidity, minute epoch
   firing, a challenged DA item due for tally on a slash-epoch height, metadata entries after the
   splitter, one unbonding completing and one completing later in the same second) satisfies
   [block_inv]; the composed hooks return Ok with non-trivial effects *)
Example C01_nonvacuous :
  block_inv ex_block /\
  exists o, run_block true ex_block = Ok o /\
            o_pds o = [{| pd_uri := 1; pd_verified_height := 5 |}] /\
            o_alloc o = ([700; 0], 300) /\
            (exists m, o_mint o = Some m /\ 0 < mo_fee_minted m /\ 0 < mo_bond_minted m) /\
            length (o_sc o) = 1%nat.
Proof.
  split.
  - unfold block_inv. split; [|split; [|split; [|split]]].
    + split; [vm_compute; split; congruence|]. intros e0 He. vm_compute in He. injection He as <-.
      split; [repeat constructor; vm_compute; congruence|vm_compute; congruence].
    + vm_compute. repeat split; congruence.
    + unfold da_inv. split; [vm_compute; reflexivity|]. split; [repeat constructor; vm_compute; congruence|].
      vm_compute. repeat split; congruence.
    + unfold tally_defined. vm_compute. discriminate.
    + split; [repeat constructor; vm_compute; congruence|split; [vm_compute; congruence|reflexivity]].
  - eexists. split; [vm_compute; reflexivity|]. cbn [o_pds o_alloc o_mint o_sc].
    repeat split; try reflexivity. eexists. repeat split; reflexivity.
Qed.

(* the hypotheses of the loop bounds hold for the default pool parameters (ratio 1.0001, offset
   0 -> offset price 10^18) and an ordinary price: from the largest admissible price at most 2.93 million iterations upwards, 1.68 million downwards *)
Example C01_loop_bounds_nonvacuous :
  P + 1 <= RATIO_DEFAULT /\ RATIO_DEFAULT <= 2 * (RATIO_DEFAULT - P) * MULT /\
  search_up_bound RATIO_DEFAULT MAX_MULT_SPOT = 2930000 /\
  search_down_bound RATIO_DEFAULT MULT = 1680000 /\
  P < 2 * (RATIO_DEFAULT - P) * 5001.
Proof. vm_compute. repeat split; congruence. Qed.
