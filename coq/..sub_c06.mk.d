Amm/Fees.vo Amm/Fees.glob Amm/Fees.v.beautified Amm/Fees.required_vo: Amm/Fees.v Base/Outcome.vo Base/Dec.vo Amm/Math.vo Amm/Pool.vo
Amm/Fees.vio: Amm/Fees.v Base/Outcome.vio Base/Dec.vio Amm/Math.vio Amm/Pool.vio
Amm/Fees.vos Amm/Fees.vok Amm/Fees.required_vos: Amm/Fees.v Base/Outcome.vos Base/Dec.vos Amm/Math.vos Amm/Pool.vos
Amm/FeesVec.vo Amm/FeesVec.glob Amm/FeesVec.v.beautified Amm/FeesVec.required_vo: Amm/FeesVec.v Base/Outcome.vo Base/Dec.vo Base/DecLemmas.vo Amm/Math.vo Amm/Pool.vo Amm/Fees.vo
Amm/FeesVec.vio: Amm/FeesVec.v Base/Outcome.vio Base/Dec.vio Base/DecLemmas.vio Amm/Math.vio Amm/Pool.vio Amm/Fees.vio
Amm/FeesVec.vos Amm/FeesVec.vok Amm/FeesVec.required_vos: Amm/FeesVec.v Base/Outcome.vos Base/Dec.vos Base/DecLemmas.vos Amm/Math.vos Amm/Pool.vos Amm/Fees.vos
Amm/FeesProofs.vo Amm/FeesProofs.glob Amm/FeesProofs.v.beautified Amm/FeesProofs.required_vo: Amm/FeesProofs.v Base/Outcome.vo Base/Dec.vo Base/DecLemmas.vo Amm/Math.vo Amm/Pool.vo Amm/LiqDefs.vo Amm/LiqLists.vo Amm/LiqInv.vo Amm/Fees.vo Amm/FeesVec.vo
Amm/FeesProofs.vio: Amm/FeesProofs.v Base/Outcome.vio Base/Dec.vio Base/DecLemmas.vio Amm/Math.vio Amm/Pool.vio Amm/LiqDefs.vio Amm/LiqLists.vio Amm/LiqInv.vio Amm/Fees.vio Amm/FeesVec.vio
Amm/FeesProofs.vos Amm/FeesProofs.vok Amm/FeesProofs.required_vos: Amm/FeesProofs.v Base/Outcome.vos Base/Dec.vos Base/DecLemmas.vos Amm/Math.vos Amm/Pool.vos Amm/LiqDefs.vos Amm/LiqLists.vos Amm/LiqInv.vos Amm/Fees.vos Amm/FeesVec.vos
Amm/FeesLoop.vo Amm/FeesLoop.glob Amm/FeesLoop.v.beautified Amm/FeesLoop.required_vo: Amm/FeesLoop.v Base/Outcome.vo Base/Dec.vo Base/DecLemmas.vo Amm/Math.vo Amm/Pool.vo Amm/Fees.vo
Amm/FeesLoop.vio: Amm/FeesLoop.v Base/Outcome.vio Base/Dec.vio Base/DecLemmas.vio Amm/Math.vio Amm/Pool.vio Amm/Fees.vio
Amm/FeesLoop.vos Amm/FeesLoop.vok Amm/FeesLoop.required_vos: Amm/FeesLoop.v Base/Outcome.vos Base/Dec.vos Base/DecLemmas.vos Amm/Math.vos Amm/Pool.vos Amm/Fees.vos
Amm/FeesFlow.vo Amm/FeesFlow.glob Amm/FeesFlow.v.beautified Amm/FeesFlow.required_vo: Amm/FeesFlow.v Base/Outcome.vo Base/Dec.vo Base/DecLemmas.vo Amm/Math.vo Amm/Pool.vo Amm/LiqDefs.vo Amm/LiqLists.vo Amm/LiqInv.vo Amm/Fees.vo Amm/FeesVec.vo Amm/FeesProofs.vo Amm/FeesLoop.vo
Amm/FeesFlow.vio: Amm/FeesFlow.v Base/Outcome.vio Base/Dec.vio Base/DecLemmas.vio Amm/Math.vio Amm/Pool.vio Amm/LiqDefs.vio Amm/LiqLists.vio Amm/LiqInv.vio Amm/Fees.vio Amm/FeesVec.vio Amm/FeesProofs.vio Amm/FeesLoop.vio
Amm/FeesFlow.vos Amm/FeesFlow.vok Amm/FeesFlow.required_vos: Amm/FeesFlow.v Base/Outcome.vos Base/Dec.vos Base/DecLemmas.vos Amm/Math.vos Amm/Pool.vos Amm/LiqDefs.vos Amm/LiqLists.vos Amm/LiqInv.vos Amm/Fees.vos Amm/FeesVec.vos Amm/FeesProofs.vos Amm/FeesLoop.vos
Amm/FeesSwap.vo Amm/FeesSwap.glob Amm/FeesSwap.v.beautified Amm/FeesSwap.required_vo: Amm/FeesSwap.v Base/Outcome.vo Base/Dec.vo Base/DecLemmas.vo Amm/Math.vo Amm/Pool.vo Amm/LiqDefs.vo Amm/LiqLists.vo Amm/Fees.vo Amm/FeesVec.vo Amm/FeesProofs.vo Amm/FeesLoop.vo Amm/FeesFlow.vo
Amm/FeesSwap.vio: Amm/FeesSwap.v Base/Outcome.vio Base/Dec.vio Base/DecLemmas.vio Amm/Math.vio Amm/Pool.vio Amm/LiqDefs.vio Amm/LiqLists.vio Amm/Fees.vio Amm/FeesVec.vio Amm/FeesProofs.vio Amm/FeesLoop.vio Amm/FeesFlow.vio
Amm/FeesSwap.vos Amm/FeesSwap.vok Amm/FeesSwap.required_vos: Amm/FeesSwap.v Base/Outcome.vos Base/Dec.vos Base/DecLemmas.vos Amm/Math.vos Amm/Pool.vos Amm/LiqDefs.vos Amm/LiqLists.vos Amm/Fees.vos Amm/FeesVec.vos Amm/FeesProofs.vos Amm/FeesLoop.vos Amm/FeesFlow.vos
Amm/FeesAccrual.vo Amm/FeesAccrual.glob Amm/FeesAccrual.v.beautified Amm/FeesAccrual.required_vo: Amm/FeesAccrual.v Base/Outcome.vo Base/Dec.vo Base/DecLemmas.vo Amm/Math.vo Amm/Pool.vo Amm/LiqDefs.vo Amm/LiqLists.vo Amm/LiqInv.vo Amm/Fees.vo Amm/FeesVec.vo Amm/FeesProofs.vo Amm/FeesLoop.vo Amm/FeesFlow.vo Amm/FeesSwap.vo
Amm/FeesAccrual.vio: Amm/FeesAccrual.v Base/Outcome.vio Base/Dec.vio Base/DecLemmas.vio Amm/Math.vio Amm/Pool.vio Amm/LiqDefs.vio Amm/LiqLists.vio Amm/LiqInv.vio Amm/Fees.vio Amm/FeesVec.vio Amm/FeesProofs.vio Amm/FeesLoop.vio Amm/FeesFlow.vio Amm/FeesSwap.vio
Amm/FeesAccrual.vos Amm/FeesAccrual.vok Amm/FeesAccrual.required_vos: Amm/FeesAccrual.v Base/Outcome.vos Base/Dec.vos Base/DecLemmas.vos Amm/Math.vos Amm/Pool.vos Amm/LiqDefs.vos Amm/LiqLists.vos Amm/LiqInv.vos Amm/Fees.vos Amm/FeesVec.vos Amm/FeesProofs.vos Amm/FeesLoop.vos Amm/FeesFlow.vos Amm/FeesSwap.vos
Amm/C06Check.vo Amm/C06Check.glob Amm/C06Check.v.beautified Amm/C06Check.required_vo: Amm/C06Check.v Amm/AmmCheck.vo Amm/Fees.vo
Amm/C06Check.vio: Amm/C06Check.v Amm/AmmCheck.vio Amm/Fees.vio
Amm/C06Check.vos Amm/C06Check.vok Amm/C06Check.required_vos: Amm/C06Check.v Amm/AmmCheck.vos Amm/Fees.vos
