(* Outcomes of Go operations: success, returned error (with a small class code),
   or run-time panic.  Models never totalise a panicking operation. *)
From Coq Require Import ZArith List.
Import ListNotations.

Inductive res (A : Type) : Type :=
| Ok (a : A)
| Err (e : Z)
| Panic.
Arguments Ok {A} a.
Arguments Err {A} e.
Arguments Panic {A}.

Definition rbind {A B} (x : res A) (f : A -> res B) : res B :=
  match x with Ok a => f a | Err e => Err e | Panic => Panic end.

Definition of_opt {A} (x : option A) : res A :=
  match x with Some a => Ok a | None => Panic end.

Definition obind {A B} (x : option A) (f : A -> option B) : option B :=
  match x with Some a => f a | None => None end.

Declare Scope res_scope.
Notation "'let!' x ':=' c 'in' k" := (rbind c (fun x => k))
  (at level 200, x pattern, c at level 100, k at level 200, right associativity) : res_scope.
Notation "'let?' x ':=' c 'in' k" := (obind c (fun x => k))
  (at level 200, x pattern, c at level 100, k at level 200, right associativity) : res_scope.

Definition is_ok {A} (x : res A) : bool := match x with Ok _ => true | _ => false end.
Definition is_panic {A} (x : res A) : bool := match x with Panic => true | _ => false end.
