// Package shape: the service-method table of the custom modules and the reflective
// flattening of request messages into field shapes (Coq terms of Sys/Inputs.v).
// Shared by the C15 harness (values) and the translator harness/trans/msgs (types only);
// it links only the modules' types packages, not the application.
package shape

import (
	"fmt"
	"math/big"
	"reflect"
	"sort"
	"strings"
	"time"

	sdkmath "cosmossdk.io/math"
	sdk "github.com/cosmos/cosmos-sdk/types"

	datypes "github.com/sunriselayer/sunrise/x/da/types"
	feetypes "github.com/sunriselayer/sunrise/x/fee/types"
	litypes "github.com/sunriselayer/sunrise/x/liquidityincentive/types"
	lptypes "github.com/sunriselayer/sunrise/x/liquiditypool/types"
	sdtypes "github.com/sunriselayer/sunrise/x/selfdelegation/types"
	sctypes "github.com/sunriselayer/sunrise/x/shareclass/types"
	swaptypes "github.com/sunriselayer/sunrise/x/swap/types"
	tctypes "github.com/sunriselayer/sunrise/x/tokenconverter/types"
)

// Method is one Msg or Query service method (interface side only).
type Method struct {
	Module string // directory name under x/
	Kind   string // "Msg" | "Query"
	Name   string
	In     reflect.Type // pointer to the request struct
	Iface  reflect.Type
}

func (m Method) Key() string { return m.Module + "." + m.Kind + "." + m.Name }

func ifaceOf[T any]() reflect.Type { return reflect.TypeOf((*T)(nil)).Elem() }

type svc struct {
	module, kind string
	iface        reflect.Type
}

// Services lists the service interfaces of the custom modules.
func services() []svc {
	return []svc{
		{"da", "Msg", ifaceOf[datypes.MsgServer]()}, {"da", "Query", ifaceOf[datypes.QueryServer]()},
		{"fee", "Msg", ifaceOf[feetypes.MsgServer]()}, {"fee", "Query", ifaceOf[feetypes.QueryServer]()},
		{"liquidityincentive", "Msg", ifaceOf[litypes.MsgServer]()}, {"liquidityincentive", "Query", ifaceOf[litypes.QueryServer]()},
		{"liquiditypool", "Msg", ifaceOf[lptypes.MsgServer]()}, {"liquiditypool", "Query", ifaceOf[lptypes.QueryServer]()},
		{"selfdelegation", "Msg", ifaceOf[sdtypes.MsgServer]()}, {"selfdelegation", "Query", ifaceOf[sdtypes.QueryServer]()},
		{"shareclass", "Msg", ifaceOf[sctypes.MsgServer]()}, {"shareclass", "Query", ifaceOf[sctypes.QueryServer]()},
		{"swap", "Msg", ifaceOf[swaptypes.MsgServer]()}, {"swap", "Query", ifaceOf[swaptypes.QueryServer]()},
		{"tokenconverter", "Msg", ifaceOf[tctypes.MsgServer]()}, {"tokenconverter", "Query", ifaceOf[tctypes.QueryServer]()},
	}
}

// Methods lists every Msg / Query service method, sorted by key.
func Methods() []Method {
	var ms []Method
	for _, s := range services() {
		for i := 0; i < s.iface.NumMethod(); i++ {
			im := s.iface.Method(i)
			ms = append(ms, Method{Module: s.module, Kind: s.kind, Name: im.Name, In: im.Type.In(1), Iface: s.iface})
		}
	}
	sort.Slice(ms, func(i, j int) bool { return ms[i].Key() < ms[j].Key() })
	return ms
}

var (
	tInt   = reflect.TypeOf(sdkmath.Int{})
	tDec   = reflect.TypeOf(sdkmath.LegacyDec{})
	tTime  = reflect.TypeOf(time.Time{})
	tRoute = reflect.TypeOf(swaptypes.Route{})
)

func exported(sf reflect.StructField) bool {
	return sf.PkgPath == "" && !strings.HasPrefix(sf.Name, "XXX_")
}

// Sig renders the field-kind signature of a Go type as a Coq term of type [Inputs.sig].
// Types the flattening does not understand become SUnknown (the coverage theorem rejects a
// head that reads such a field).
func Sig(t reflect.Type) string {
	switch {
	case t == tInt:
		return "SInt"
	case t == tDec:
		return "SDec"
	case t == tTime:
		return "SNum"
	case t == tRoute:
		return "(SRoute false)"
	case t.Kind() == reflect.Ptr && t.Elem() == tRoute:
		return "(SRoute true)"
	}
	switch t.Kind() {
	case reflect.String:
		return "SStr"
	case reflect.Bool, reflect.Int, reflect.Int32, reflect.Int64, reflect.Uint, reflect.Uint8, reflect.Uint16, reflect.Uint32, reflect.Uint64:
		return "SNum"
	case reflect.Slice:
		if t.Elem().Kind() == reflect.Uint8 {
			return "SBytes"
		}
		return "(SList " + Sig(t.Elem()) + ")"
	case reflect.Ptr:
		if t.Elem().Kind() == reflect.Struct {
			return "(SMsg true " + sigFields(t.Elem()) + ")"
		}
	case reflect.Struct:
		return "(SMsg false " + sigFields(t) + ")"
	}
	return "SUnknown"
}

func sigFields(t reflect.Type) string {
	var fs []string
	for i := 0; i < t.NumField(); i++ {
		if exported(t.Field(i)) {
			fs = append(fs, Sig(t.Field(i).Type))
		}
	}
	return "[" + strings.Join(fs, "; ") + "]"
}

// FieldNames lists the exported field names of the request struct, in flattening order.
func FieldNames(t reflect.Type) []string {
	if t.Kind() == reflect.Ptr {
		t = t.Elem()
	}
	var fs []string
	for i := 0; i < t.NumField(); i++ {
		if exported(t.Field(i)) {
			fs = append(fs, t.Field(i).Name)
		}
	}
	return fs
}

// Oracles are the string parsers of the running application.
type Oracles struct {
	AccOK  func(string) bool // account address codec accepts
	ValOK  func(string) bool // validator address codec accepts
	IsAuth func(string) bool // decodes to the module authority
}

func z(x *big.Int) string {
	if x.Sign() < 0 {
		return "(" + x.String() + ")"
	}
	return x.String()
}

func optZ(x *big.Int) string {
	if x == nil {
		return "None"
	}
	return "(Some " + z(x) + ")"
}

func b(x bool) string {
	if x {
		return "true"
	}
	return "false"
}

// Bytes renders a Go string as a Coq list of byte values.
func Bytes(s string) string {
	xs := make([]string, len(s))
	for i := 0; i < len(s); i++ {
		xs[i] = fmt.Sprint(s[i])
	}
	return "[" + strings.Join(xs, "; ") + "]"
}

// StrInfo renders what the handlers can learn from a string field.
func (o Oracles) StrInfo(s string) string {
	var iv, dv *big.Int
	if x, ok := sdkmath.NewIntFromString(s); ok {
		iv = x.BigInt()
	}
	if d, err := sdkmath.LegacyNewDecFromStr(s); err == nil {
		dv = d.BigInt()
	}
	return fmt.Sprintf("(VStr {| si_empty := %s; si_acc := %s; si_val := %s; si_auth := %s; si_int := %s; si_dec := %s; si_denom := %s; si_suffix := %s |})",
		b(s == ""), b(o.AccOK(s)), b(o.ValOK(s)), b(o.IsAuth(s)), optZ(iv), optZ(dv), b(sdk.ValidateDenom(s) == nil),
		b(sdk.ValidateDenom("shareclass/non-voting-share/"+s) == nil))
}

// Weight renders math.LegacyNewDecFromStr of a route weight.
func Weight(s string) string {
	d, err := sdkmath.LegacyNewDecFromStr(s)
	if err != nil {
		return "WBad"
	}
	return "(WDec " + z(d.BigInt()) + ")"
}

// Route renders a swap route as a term of Swap.Memo.route.
func Route(r *swaptypes.Route) string {
	din, dout := Bytes(r.DenomIn), Bytes(r.DenomOut)
	list := func(rs []swaptypes.Route) string {
		xs := make([]string, len(rs))
		for i := range rs {
			xs[i] = Route(&rs[i])
		}
		return "[" + strings.Join(xs, "; ") + "]"
	}
	switch s := r.Strategy.(type) {
	case nil:
		return fmt.Sprintf("(RNone %s %s)", din, dout)
	case *swaptypes.Route_Pool:
		if s == nil {
			return fmt.Sprintf("(RNone %s %s)", din, dout) // typed nil wrapper: not produced by any decoder
		}
		if s.Pool == nil {
			return fmt.Sprintf("(RPool %s %s None)", din, dout)
		}
		return fmt.Sprintf("(RPool %s %s (Some %d))", din, dout, s.Pool.PoolId)
	case *swaptypes.Route_Series:
		if s.Series == nil {
			return fmt.Sprintf("(RSeries %s %s false [])", din, dout)
		}
		return fmt.Sprintf("(RSeries %s %s true %s)", din, dout, list(s.Series.Routes))
	case *swaptypes.Route_Parallel:
		if s.Parallel == nil {
			return fmt.Sprintf("(RParallel %s %s false [] [])", din, dout)
		}
		ws := make([]string, len(s.Parallel.Weights))
		for i, w := range s.Parallel.Weights {
			ws[i] = Weight(w)
		}
		return fmt.Sprintf("(RParallel %s %s true %s [%s])", din, dout, list(s.Parallel.Routes), strings.Join(ws, "; "))
	}
	panic("unknown route strategy")
}

// RouteOpt renders a possibly nil *Route.
func RouteOpt(r *swaptypes.Route) string {
	if r == nil {
		return "None"
	}
	return "(Some " + Route(r) + ")"
}

// Val renders a Go value as a Coq term of type [Inputs.fval], following Sig.
func (o Oracles) Val(v reflect.Value) string {
	t := v.Type()
	switch {
	case t == tInt:
		x := v.Interface().(sdkmath.Int)
		if x.IsNil() {
			return "(VInt None)"
		}
		return "(VInt " + optZ(x.BigInt()) + ")"
	case t == tDec:
		x := v.Interface().(sdkmath.LegacyDec)
		if x.IsNil() {
			return "(VDec None)"
		}
		return "(VDec " + optZ(x.BigInt()) + ")"
	case t == tTime:
		return "(VNum " + z(big.NewInt(v.Interface().(time.Time).Unix())) + ")"
	case t == tRoute:
		r := v.Interface().(swaptypes.Route)
		return "(VRoute (Some " + Route(&r) + "))"
	case t.Kind() == reflect.Ptr && t.Elem() == tRoute:
		return "(VRoute " + RouteOpt(v.Interface().(*swaptypes.Route)) + ")"
	}
	switch t.Kind() {
	case reflect.String:
		return o.StrInfo(v.String())
	case reflect.Bool:
		if v.Bool() {
			return "(VNum 1)"
		}
		return "(VNum 0)"
	case reflect.Int, reflect.Int32, reflect.Int64:
		return "(VNum " + z(big.NewInt(v.Int())) + ")"
	case reflect.Uint, reflect.Uint8, reflect.Uint16, reflect.Uint32, reflect.Uint64:
		return "(VNum " + new(big.Int).SetUint64(v.Uint()).String() + ")"
	case reflect.Slice:
		if t.Elem().Kind() == reflect.Uint8 {
			return fmt.Sprintf("(VBytes %d)", v.Len())
		}
		xs := make([]string, v.Len())
		for i := range xs {
			xs[i] = o.Val(v.Index(i))
		}
		return "(VList [" + strings.Join(xs, "; ") + "])"
	case reflect.Ptr:
		if t.Elem().Kind() == reflect.Struct {
			if v.IsNil() {
				return "(VMsg false [])"
			}
			return "(VMsg true " + o.fields(v.Elem()) + ")"
		}
	case reflect.Struct:
		return "(VMsg true " + o.fields(v) + ")"
	}
	return "VUnknown"
}

func (o Oracles) fields(v reflect.Value) string {
	t := v.Type()
	var fs []string
	for i := 0; i < t.NumField(); i++ {
		if exported(t.Field(i)) {
			fs = append(fs, o.Val(v.Field(i)))
		}
	}
	return "[" + strings.Join(fs, "; ") + "]"
}
