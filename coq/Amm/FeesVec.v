(* C06 support: rounding directions of the LegacyDec operations the fee code uses, and pointwise
   reasoning about the four-slot vectors (DecCoins / Coins) of Amm/Pool.v. *)
From Coq Require Import ZArith Bool List Lia ZifyBool.
Import ListNotations.
From Sunrise Require Import Base.Outcome Base.Dec Base.DecLemmas Amm.Math Amm.Pool Amm.Fees.
Local Open Scope Z_scope.
Ltac Zify.zify_post_hook ::= Z.div_mod_to_equations.

(* ---------- rounding directions ---------- *)

Lemma dquoU_bracket a b r : 0 <= a -> 0 < b -> dquoU a b = Some r -> a * P <= r * b < a * P + b.
Proof.
  intros Ha Hb. unfold dquoU.
  destruct (Z.eqb_spec b 0); [lia|].
  assert (Hn : 0 <= a * P) by (unfold P; lia).
  rewrite Z.quot_div_nonneg, Z.rem_mod_nonneg by lia.
  assert (Hq : 0 <= a * P / b) by (apply Z.div_pos; lia).
  replace (a * P / b <? 0) with false by lia. replace (b <? 0) with false by lia. cbn [Bool.eqb].
  rewrite andb_true_r. cbn [negb]. rewrite andb_false_r, orb_false_r.
  destruct (Z.ltb_spec 0 ((a * P) mod b)) as [Hr|Hr]; intros H; apply chk_some in H; destruct H as [-> _].
  - pose proof (Z.div_mod (a * P) b). pose proof (Z.mod_pos_bound (a*P) b). nia.
  - pose proof (Z.div_mod (a * P) b). pose proof (Z.mod_pos_bound (a*P) b). nia.
Qed.

Lemma dquoT_bracket a b r : 0 <= a -> 0 < b -> dquoT a b = Some r -> r * b <= a * P < r * b + b.
Proof.
  intros Ha Hb. unfold dquoT. destruct (Z.eqb_spec b 0); [lia|].
  assert (Hn : 0 <= a * P) by (unfold P; lia).
  rewrite Z.quot_div_nonneg by lia. intros H; apply chk_some in H; destruct H as [-> _].
  pose proof (Z.div_mod (a * P) b). pose proof (Z.mod_pos_bound (a*P) b). nia.
Qed.
Lemma dquoT_nonneg a b r : 0 <= a -> 0 < b -> dquoT a b = Some r -> 0 <= r.
Proof. intros Ha Hb H. pose proof (dquoT_bracket _ _ _ Ha Hb H). unfold P in *. nia. Qed.
Lemma dquoT_val a b r : dquoT a b = Some r -> b <> 0 /\ r = Z.quot (a * P) b.
Proof.
  unfold dquoT. destruct (Z.eqb_spec b 0); [discriminate|]. intros H. apply chk_some in H. tauto.
Qed.

Lemma dmulU_bracket a b r : 0 <= a -> 0 <= b -> dmulU a b = Some r -> a * b <= r * P < a * b + P.
Proof.
  intros Ha Hb H. unfold dmulU in H. apply chk_some in H. destruct H as [-> _].
  apply chop_roundup_bracket. nia.
Qed.

Lemma dmul_bracket a b r : dmul a b = Some r -> a * b - HALF <= r * P <= a * b + HALF.
Proof. intros H. apply dmul_some in H. subst. apply chop_round_bracket. Qed.

(* a product that is at most m (an integer number of ulps) rounds to at most m *)
Lemma dmul_le_int a b r m : dmul a b = Some r -> a * b <= m * P -> r <= m.
Proof. intros H Hle. pose proof (dmul_bracket _ _ _ H). unfold P, HALF in *. lia. Qed.
Lemma dmul_ge_int a b r m : dmul a b = Some r -> m * P <= a * b -> m <= r.
Proof. intros H Hle. pose proof (dmul_bracket _ _ _ H). unfold P, HALF in *. lia. Qed.

Lemma dceil_bracket a c : 0 <= a -> dceil a = Some c -> a <= c < a + P /\ c = dtrunc_int c * P.
Proof.
  intros Ha H. unfold dceil in H. apply chk_some in H. destruct H as [-> _].
  rewrite Z.quot_div_nonneg, Z.rem_mod_nonneg by (unfold P; lia).
  unfold dtrunc_int. destruct (Z.ltb_spec 0 (a mod P)); rewrite Z.quot_mul by (unfold P; lia); unfold P in *; lia.
Qed.

(* ---------- the fee of one bucket step ---------- *)

(* fee = ceil(amount_in * ceil(rate/(1-rate))): at least rate x gross input, and at most
   (rate/(1-rate) + 1e-18) x amount_in + 1e-18 *)
Theorem fee_charge_bounds amount_in fee fomf fc :
  0 <= amount_in -> 0 < fee < P ->
  fee_over_one_minus_fee fee = Some fomf -> fee_charge_from_in amount_in fomf = Some fc ->
  amount_in * fee <= fc * (P - fee) /\
  fc * P * (P - fee) < amount_in * (fee * P + (P - fee)) + P * (P - fee) /\ 0 <= fc.
Proof.
  intros Ha Hf Hfomf Hfc. unfold fee_over_one_minus_fee in Hfomf.
  destruct (dsub P fee) as [om|] eqn:Eom; [|discriminate]. cbn [obind] in Hfomf.
  apply dsub_some in Eom. subst om.
  pose proof (dquoU_bracket fee (P - fee) fomf ltac:(lia) ltac:(lia) Hfomf) as Hb1.
  assert (H0 : 0 <= fomf) by (unfold P in *; nia).
  unfold fee_charge_from_in in Hfc.
  pose proof (dmulU_bracket amount_in fomf fc Ha H0 Hfc) as Hb2.
  assert (Hp : 0 < P) by reflexivity.
  split; [|split].
  - (* fc*P >= a*fomf, fomf*(P-fee) >= fee*P *)
    assert (fc * P * (P - fee) >= amount_in * (fee * P)) by nia. nia.
  - assert (amount_in * fomf * (P - fee) <= amount_in * (fee * P + (P - fee))) by nia. nia.
  - nia.
Qed.

(* ---------- vectors, pointwise ---------- *)
Notation vn v i := (nth i v 0).

Lemma vmap2_nth f : forall a b c, vmap2 f a b = Some c -> length a = length b ->
  length c = length a /\ forall i, (i < length a)%nat -> f (vn a i) (vn b i) = Some (vn c i).
Proof.
  induction a as [|x a IH]; intros [|y b] c H Hl; cbn in Hl; try discriminate.
  - cbn in H. injection H as <-. split; [reflexivity|]. intros i Hi. cbn in Hi. lia.
  - cbn [vmap2] in H. destruct (f x y) as [z|] eqn:Ez; cbn [obind] in H; [|discriminate].
    destruct (vmap2 f a b) as [r|] eqn:Er; cbn [obind] in H; [|discriminate]. injection H as <-.
    destruct (IH b r Er ltac:(lia)) as [L N]. split; [cbn; lia|].
    intros [|i] Hi; cbn; [exact Ez|]. apply N. cbn in Hi. lia.
Qed.
Lemma vmap_nth f : forall a c, vmap f a = Some c ->
  length c = length a /\ forall i, (i < length a)%nat -> f (vn a i) = Some (vn c i).
Proof.
  induction a as [|x a IH]; intros c H.
  - cbn in H. injection H as <-. split; [reflexivity|]. intros i Hi. cbn in Hi. lia.
  - cbn [vmap] in H. destruct (f x) as [z|] eqn:Ez; cbn [obind] in H; [|discriminate].
    destruct (vmap f a) as [r|] eqn:Er; cbn [obind] in H; [|discriminate]. injection H as <-.
    destruct (IH r eq_refl) as [L N]. split; [cbn; lia|].
    intros [|i] Hi; cbn; [exact Ez|]. apply N. cbn in Hi. lia.
Qed.

Lemma vec_ext (a b : vec) : length a = length b -> (forall i, (i < length a)%nat -> vn a i = vn b i) -> a = b.
Proof.
  revert b. induction a as [|x a IH]; intros [|y b] Hl H; cbn in Hl; try discriminate; [reflexivity|].
  f_equal; [apply (H 0%nat); cbn; lia|]. apply IH; [lia|]. intros i Hi. apply (H (S i)). cbn. lia.
Qed.

Lemma vadd_nth a b c : vadd a b = Some c -> length a = length b ->
  length c = length a /\ forall i, (i < length a)%nat -> vn c i = vn a i + vn b i.
Proof.
  intros H Hl. destruct (vmap2_nth _ _ _ _ H Hl) as [L N]. split; [exact L|].
  intros i Hi. specialize (N i Hi). apply dadd_some in N. exact N.
Qed.
Lemma vsafe_sub_nth a b c : vsafe_sub a b = Some c -> length a = length b ->
  length c = length a /\ forall i, (i < length a)%nat -> vn c i = vn a i - vn b i.
Proof.
  intros H Hl. destruct (vmap2_nth _ _ _ _ H Hl) as [L N]. split; [exact L|].
  intros i Hi. specialize (N i Hi). apply dsub_some in N. exact N.
Qed.
Lemma existsb_nth_false (f : Z -> bool) (v : vec) : existsb f v = false ->
  forall i, (i < length v)%nat -> f (vn v i) = false.
Proof.
  intros H i Hi. destruct (f (vn v i)) eqn:E; [|reflexivity].
  assert (existsb f v = true) by (apply existsb_exists; exists (vn v i); split; [apply nth_In; exact Hi|exact E]).
  congruence.
Qed.
Lemma vsub_nth a b c : vsub a b = Some c -> length a = length b ->
  length c = length a /\ forall i, (i < length a)%nat -> vn c i = vn a i - vn b i /\ 0 <= vn c i.
Proof.
  unfold vsub. intros H Hl. destruct (vsafe_sub a b) as [d|] eqn:Ed; cbn [obind] in H; [|discriminate].
  destruct (vany_neg d) eqn:En; [discriminate|]. injection H as <-.
  destruct (vsafe_sub_nth _ _ _ Ed Hl) as [L N]. split; [exact L|]. intros i Hi. split; [apply N; exact Hi|].
  unfold vany_neg in En. pose proof (existsb_nth_false _ _ En i ltac:(lia)) as Hn. cbn beta in Hn. lia.
Qed.
Lemma vmul_dec_nth a d c : vmul_dec a d = Some c ->
  length c = length a /\ forall i, (i < length a)%nat -> dmul (vn a i) d = Some (vn c i).
Proof. unfold vmul_dec. intros H. exact (vmap_nth _ _ _ H). Qed.
Lemma vquo_dec_trunc_nth a d c : vquo_dec_trunc a d = Some c ->
  d <> 0 /\ length c = length a /\ forall i, (i < length a)%nat -> dquoT (vn a i) d = Some (vn c i).
Proof.
  unfold vquo_dec_trunc. destruct (Z.eqb_spec d 0); [discriminate|]. intros H.
  split; [assumption|]. exact (vmap_nth _ _ _ H).
Qed.

Lemma vplus_length a b : length a = length b -> length (vplus a b) = length a.
Proof. intros H. unfold vplus. rewrite map_length, combine_length. lia. Qed.
Lemma vminus_length a b : length a = length b -> length (vminus a b) = length a.
Proof. intros H. unfold vminus. rewrite map_length, combine_length. lia. Qed.
Lemma vplus_nth : forall a b i, length a = length b -> (i < length a)%nat -> vn (vplus a b) i = vn a i + vn b i.
Proof.
  unfold vplus. induction a as [|x a IH]; intros [|y b] i Hl Hi; cbn in Hl, Hi; try lia.
  destruct i as [|i]; cbn; [reflexivity|]. apply IH; lia.
Qed.
Lemma vminus_nth : forall a b i, length a = length b -> (i < length a)%nat -> vn (vminus a b) i = vn a i - vn b i.
Proof.
  unfold vminus. induction a as [|x a IH]; intros [|y b] i Hl Hi; cbn in Hl, Hi; try lia.
  destruct i as [|i]; cbn; [reflexivity|]. apply IH; lia.
Qed.
Lemma map_nth0 (f : Z -> Z) : forall (a : vec) i, (i < length a)%nat -> vn (map f a) i = f (vn a i).
Proof. induction a as [|x a IH]; intros i Hi; cbn in Hi; [lia|]. destruct i; cbn; [reflexivity|]. apply IH. lia. Qed.
Lemma vtrunc_nth a : let '(c, d) := vtrunc a in
  length c = length a /\ length d = length a /\
  forall i, (i < length a)%nat -> vn c i = Z.quot (vn a i) P /\ vn d i = vn a i - Z.quot (vn a i) P * P.
Proof.
  unfold vtrunc. rewrite !map_length. split; [reflexivity|]. split; [reflexivity|]. intros i Hi.
  split; rewrite map_nth0 by exact Hi; reflexivity.
Qed.
Lemma vis_zero_nth v : vis_zero v = true <-> forall i, (i < length v)%nat -> vn v i = 0.
Proof.
  unfold vis_zero. rewrite forallb_forall. split.
  - intros H i Hi. specialize (H (vn v i) (nth_In _ _ Hi)). lia.
  - intros H x Hx. destruct (In_nth _ _ 0 Hx) as (i & Hi & <-). specialize (H i Hi). lia.
Qed.
Lemma vzero_nth i : vn vzero i = 0.
Proof. do 5 (destruct i as [|i]; [reflexivity|]). reflexivity. Qed.
Lemma vzero_len : length vzero = 4%nat. Proof. reflexivity. Qed.
Lemma vis_zero_eq v : len4 v -> vis_zero v = true -> v = vzero.
Proof.
  intros Hl Hz. apply vec_ext; [exact Hl|]. intros i Hi. rewrite vzero_nth. apply vis_zero_nth; assumption.
Qed.
Lemma vnonneg_nth v : vnonneg v <-> forall i, (i < length v)%nat -> 0 <= vn v i.
Proof.
  unfold vnonneg. rewrite Forall_forall. split.
  - intros H i Hi. apply H. apply nth_In. exact Hi.
  - intros H x Hx. destruct (In_nth _ _ 0 Hx) as (i & Hi & <-). apply H. exact Hi.
Qed.
Lemma vle_nth : forall a b, length a = length b -> (vle a b = true <-> forall i, (i < length a)%nat -> vn a i <= vn b i).
Proof.
  induction a as [|x a IH]; intros [|y b] Hl; cbn in Hl; try discriminate.
  - cbn. split; [intros _ i Hi; lia|reflexivity].
  - cbn [vle]. rewrite andb_true_iff, IH by lia. split.
    + intros [H1 H2] [|i] Hi; cbn; [lia|]. apply H2. cbn in Hi. lia.
    + intros H. split; [specialize (H 0%nat); cbn in H; lia|]. intros i Hi. apply (H (S i)). cbn. lia.
Qed.

Lemma set_nth_aux : forall (a : vec) n v,  (n < length a)%nat ->
  length (firstn n a ++ v :: skipn (S n) a) = length a /\
  forall j, vn (firstn n a ++ v :: skipn (S n) a) j = if Nat.eqb j n then v else vn a j.
Proof.
  induction a as [|x a IH]; intros n v Hn; cbn in Hn; [lia|]. destruct n as [|n].
  - cbn. split; [reflexivity|]. intros [|j]; reflexivity.
  - destruct (IH n v ltac:(lia)) as [L N]. cbn [firstn skipn app length]. split; [cbn in L; lia|].
    intros [|j]; [reflexivity|]. cbn [nth]. rewrite N. reflexivity.
Qed.
Lemma vset_length (a : vec) i v : 0 <= i -> (Z.to_nat i < length a)%nat -> length (vset a i v) = length a.
Proof. intros Hi Hlt. unfold vset. apply set_nth_aux. exact Hlt. Qed.
Lemma vset_nth (a : vec) i v j : 0 <= i -> (Z.to_nat i < length a)%nat ->
  vn (vset a i v) j = if Nat.eqb j (Z.to_nat i) then v else vn a j.
Proof. intros Hi Hlt. unfold vset. apply set_nth_aux. exact Hlt. Qed.
Lemma vsingle_length d v : 0 <= d < 4 -> length (vsingle d v) = 4%nat.
Proof. intros H. unfold vsingle. rewrite vset_length; [reflexivity|lia|cbn; lia]. Qed.
Lemma vsingle_nth d v j : 0 <= d < 4 -> vn (vsingle d v) j = if Nat.eqb j (Z.to_nat d) then v else 0.
Proof. intros H. unfold vsingle. rewrite vset_nth; [|lia|cbn; lia]. rewrite vzero_nth. reflexivity. Qed.
