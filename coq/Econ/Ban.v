(* Transfer ban of send-disabled denoms (bond token, share tokens), C13.
   bank Msg/Send and Msg/MultiSend check SendEnabled; keeper-level SendCoins does not, which is
   why every custom handler that moves user funds calls IsSendEnabledCoins itself. *)
From Coq Require Import ZArith Bool List.
Import ListNotations.
From Sunrise Require Import Base.Outcome Base.Bank.
Local Open Scope Z_scope.

Definition E_SEND_DISABLED : Z := 7.

(* bank Msg/Send of one denom *)
Definition msg_send (enabled : Z -> bool) (b : bank) (from to d amt : Z) : bank * res unit :=
  tx (fun b => if negb (enabled d) then Err E_SEND_DISABLED
               else rbind (bank_send b from to d amt) (fun b' => Ok (b', tt))) b.

(* a custom handler that moves [amt] of [d] from the user after the explicit send-enabled check *)
Definition guarded_move (enabled : Z -> bool) (b : bank) (from to d amt : Z) : bank * res unit :=
  msg_send enabled b from to d amt.

Lemma msg_send_disabled enabled b from to d amt :
  enabled d = false -> msg_send enabled b from to d amt = (b, Err E_SEND_DISABLED).
Proof. intros H. unfold msg_send, tx. rewrite H. reflexivity. Qed.
