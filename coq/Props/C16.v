(* C16 — Governance tally ignores non-voting stake without distorting turnout.
   Only statements, each closed by [exact]; proofs live in Stake/GovTallyProofs.v.

   [tally] is app/gov/gov.go after notes/patches/C16-gov-turnout.patch; [tally_orig] is the
   function at the pinned commit; [std_tally] is the SDK's default function. A graph is the list of
   bonded validators (id, bonded tokens, delegator shares), the share-class account's delegations
   (validator, shares), and the stored votes, each with its weighted options and the voter's own
   delegations. [None] = the Go code panics. *)
From Coq Require Import ZArith List Lia.
Import ListNotations.
From Sunrise Require Import Base.Outcome Base.Dec Stake.TallyCore Stake.TallyCoreProofs Stake.GovTally Stake.GovTallyProofs.
Local Open Scope Z_scope.

(* Votes cast by the share-class account are discarded: the result depends on the stored votes
   only through the votes of everybody else (whatever the account's options and delegations). *)
Theorem C16_shareclass_votes_discarded : forall sc vals scdels bs1 bs2 bonded,
  drop_sc sc bs1 = drop_sc sc bs2 ->
  tally sc vals scdels bs1 bonded = tally sc vals scdels bs2 bonded.
Proof. exact shareclass_votes_discarded. Qed.
Print Assumptions C16_shareclass_votes_discarded.

(* Non-voting stake adds nothing to any option, whoever votes: two graphs with the same votes
   whose validators differ only by the amount of share-class stake (same voting shares, same
   tokens-per-share rate) give the same five option totals and the same voted power. *)
Theorem C16_nonvoting_adds_nothing : forall sc vals1 scdels1 vals2 scdels2 bs t1 o1 nb1 t2 o2 nb2,
  vals_ok vals1 ->
  Forall2 (val_rel scdels1 scdels2) vals1 vals2 ->
  tally_core sc vals1 scdels1 bs = Some (t1, o1, nb1) ->
  tally_core sc vals2 scdels2 bs = Some (t2, o2, nb2) ->
  t1 = t2 /\ o1 = o2.
Proof. exact nonvoting_adds_nothing. Qed.
Print Assumptions C16_nonvoting_adds_nothing.

(* Option totals (and the voted power) equal, exactly, those of the SDK's default tally on the
   graph with the share-class delegations removed at each validator's exchange rate - which is
   possible with integer tokens in particular whenever tokens = shares. When the rate cannot be
   kept (tokens * remaining shares not divisible by shares) staking's Unbond itself moves the rate
   by < 1 token per validator; that case is monitored (Stake/C16Check.v mon_ref_close), not proved. *)
Theorem C16_options_equal_reference : forall sc vals scdels bs vals' voted opts nb t' o',
  vals_ok vals -> ~ In sc (map v_id vals) ->
  Forall2 (val_rel scdels []) vals vals' ->
  tally_core sc vals scdels bs = Some (voted, opts, nb) ->
  std_tally vals' (ref_ballots sc bs) = Some (t', o') ->
  opts = o' /\ voted = t'.
Proof. exact options_equal_reference. Qed.
Print Assumptions C16_options_equal_reference.

(* Reported turnout = voted power * bonded / (bonded - non-voting bonded), to within the rounding of
   one LegacyDec.Quo ((1/2 + 10^-18) ulp); nb is the token value of the share-class shares on the
   bonded validators. When no bonded power can vote the voted power is reported unscaled. *)
Theorem C16_turnout_formula : forall sc vals scdels bs bonded t opts,
  vals_ok vals ->
  tally sc vals scdels bs bonded = Some (t, opts) ->
  exists voted nb,
    tally_core sc vals scdels bs = Some (voted, opts, nb) /\
    nb = nb_sum vals scdels /\
    let vb := bonded * P - nb in
    (0 < vb -> Z.abs (t * vb * P - voted * bonded * P * P) <= (HALF + 1) * vb) /\
    (vb <= 0 -> t = voted).
Proof. exact turnout_formula. Qed.
Print Assumptions C16_turnout_formula.

(* The rescale cannot divide by zero (only the 2^256 range assertion of LegacyDec remains). *)
Theorem C16_rescale_no_div_zero : forall voted bonded nb,
  Z.abs (bonded * P - nb) <= DEC_LIM -> Z.abs (voted * bonded) <= DEC_LIM ->
  Z.abs voted * Z.abs bonded * P * P <= DEC_LIM ->
  rescale voted bonded nb <> None.
Proof. exact rescale_no_div_zero. Qed.
Print Assumptions C16_rescale_no_div_zero.

(* ---- the pinned commit (before the repair): refuted, witnesses replayed by the harness corpus ---- *)
Theorem C16_orig_turnout_subtracts_shares_again_refuted :
  delegator_bonded [(D 40000000, 100000000, D 100000000)] = Some 40000000 /\
  tally_orig 9 wa_vals wa_scdels wa_ballots 101000000 40000000
    = Some (33114754098360655737704918, [D 60000000; 0; 0; 0; 0]) /\
  tally 9 wa_vals wa_scdels wa_ballots 101000000
    = Some (99344262295081967213114754, [D 60000000; 0; 0; 0; 0]).
Proof. exact orig_turnout_subtracts_shares_again. Qed.
Print Assumptions C16_orig_turnout_subtracts_shares_again_refuted.

Theorem C16_orig_turnout_negative_refuted :
  exists t o,
    tally_orig 9 wa_vals wa_scdels [ {| b_voter := 7; b_w := yes; b_dels := [(1, D 10000000)] |} ] 101000000 40000000
      = Some (t, o) /\ t < 0.
Proof. exact orig_turnout_negative. Qed.
Print Assumptions C16_orig_turnout_negative_refuted.

Theorem C16_orig_turnout_div_zero_refuted :
  delegator_bonded [(D 5, 5000000, D 5)] = Some 5000000 /\
  tally_orig 9 [ {| v_id := 1; v_tok := 5000000; v_sh := D 5 |} ] [(1, D 5)]
             [ {| b_voter := 2; b_w := yes; b_dels := [] |} ] 5000000 5000000 = None /\
  tally 9 [ {| v_id := 1; v_tok := 5000000; v_sh := D 5 |} ] [(1, D 5)]
        [ {| b_voter := 2; b_w := yes; b_dels := [] |} ] 5000000 = Some (0, [0; 0; 0; 0; 0]).
Proof. exact orig_turnout_div_zero. Qed.
Print Assumptions C16_orig_turnout_div_zero_refuted.

Theorem C16_orig_turnout_counts_unbonded_refuted :
  delegator_bonded [(D 3, 4000000, D 4); (D 3, 6000000, D 6)] = Some 6000000 /\
  tally_orig 9 [ {| v_id := 1; v_tok := 6000000; v_sh := D 6 |} ] [(2, D 3); (1, D 3)]
             [ {| b_voter := 3; b_w := yes; b_dels := [(2, D 1); (1, D 1)] |};
               {| b_voter := 4; b_w := yes; b_dels := [(1, D 2)] |} ] 6000000 6000000 = None /\
  tally 9 [ {| v_id := 1; v_tok := 6000000; v_sh := D 6 |} ] [(2, D 3); (1, D 3)]
        [ {| b_voter := 3; b_w := yes; b_dels := [(2, D 1); (1, D 1)] |};
          {| b_voter := 4; b_w := yes; b_dels := [(1, D 2)] |} ] 6000000
    = Some (D 6000000, [D 3000000; 0; 0; 0; 0]).
Proof. exact orig_turnout_counts_unbonded. Qed.
Print Assumptions C16_orig_turnout_counts_unbonded_refuted.

(* non-vacuity: a graph with tokens <> shares on both validators (rates 3/2 and 10^6), non-voting
   stake on both, a validator, one of its delegators and the share-class account voting with split
   weights; every hypothesis of the theorems above holds, the reference graph exists, and the
   results are the same non-zero numbers on both sides. *)
Definition nv_vals := [ {| v_id := 1; v_tok := 150; v_sh := D 100 |}; {| v_id := 2; v_tok := 9000000; v_sh := D 9 |} ].
Definition nv_scdels := [ (1, D 40); (2, D 4) ].
Definition nv_vals' := [ {| v_id := 1; v_tok := 90; v_sh := D 60 |}; {| v_id := 2; v_tok := 5000000; v_sh := D 5 |} ].
Definition nv_ballots :=
  [ {| b_voter := 1; b_w := [(1, 700000000000000000); (3, 300000000000000000)]; b_dels := [(1, D 20)] |};
    {| b_voter := 9; b_w := [(4, P)]; b_dels := nv_scdels |};
    {| b_voter := 5; b_w := [(2, 333333333333333333); (1, 666666666666666667)]; b_dels := [(1, D 10); (2, D 3)] |} ].
Example C16_nonvacuous :
  vals_ok nv_vals /\ ~ In 9 (map v_id nv_vals) /\
  Forall2 (val_rel nv_scdels []) nv_vals nv_vals' /\
  tally_core 9 nv_vals nv_scdels nv_ballots
    = Some (D 3000090, [2000062500000000001000005; 1000004999999999998999995; 22500000000000000000; 0; 0], D 4000060) /\
  std_tally nv_vals' (ref_ballots 9 nv_ballots)
    = Some (D 3000090, [2000062500000000001000005; 1000004999999999998999995; 22500000000000000000; 0; 0]) /\
  tally 9 nv_vals nv_scdels nv_ballots 9000150 = Some (5400154799913601555172007, [2000062500000000001000005; 1000004999999999998999995; 22500000000000000000; 0; 0]).
Proof.
  split; [repeat constructor; cbn; intuition lia|].
  split; [cbn; intuition lia|].
  split; [repeat constructor; vm_compute; try reflexivity; intuition discriminate|].
  vm_compute. repeat split; reflexivity.
Qed.
