// Package c01: block processing never halts.
//
// Full-application histories through the real FinalizeBlock with signed transactions of every
// custom module interleaved with block boundaries; block times from a schedule generator (whole
// seconds, sub-second offsets, jumps across every pending deadline +- 1 ns / +- 1 s, minute and
// year boundaries of the mint schedule); parameters at the edges their Validate accepts.
// Before every block the projections the custom hooks read are dumped (CBlock cases: the Gallina
// composition Sys/Blocks.v predicts the outcome class and a few post-state fields).
// MsgCreatePool + the first MsgCreatePosition of a pool - the transaction that runs the unmetered
// price -> tick search - are executed in child processes under a watchdog (CWatch cases).
package c01

import (
	"fmt"
	"sync"
	"time"

	"verifharness/emit"
)

const watchdog = 20 * time.Second

// Run generates about n cases from seed, runs them on the real application and writes
// cases_*.v and stats.json into outDir.
func Run(seed int64, n int, outDir string) error {
	st := emit.NewStats("C01", seed, rule)
	cf := &emit.CasesFile{Import: "Sys.C01Check", Runner: "run", Type: "c01_case"}
	rn := &runner{r: emit.NewRand(seed), cf: cf, st: st, seed: seed}

	// watched transactions run in child processes while the histories are executed
	specs := watchCorpus()
	nw := n / 40
	if nw < 4 {
		nw = 4
	}
	specs = append(specs, watchRandom(emit.NewRand(seed+7777), nw)...)
	outs := make([]watchOut, len(specs))
	var wg sync.WaitGroup
	sem := make(chan struct{}, 3)
	for i := range specs {
		wg.Add(1)
		go func(i int) {
			defer wg.Done()
			sem <- struct{}{}
			defer func() { <-sem }()
			outs[i] = runWatched(specs[i], watchdog)
		}(i)
	}

	rn.corpus()
	perHistory := 45
	for k := 0; st.Evaluations < n-len(specs); k++ {
		if rn.w != nil {
			rn.w.h.Close()
		}
		rn.w = newWorld(seed*1000+int64(k), 8, 2)
		rn.dead = false
		rn.pendingPool = nil
		rn.r = emit.NewRand(seed*7919 + int64(k))
		rn.w.r = rn.r
		st.Count("history:generated")
		left := n - len(specs) - st.Evaluations
		nb := perHistory
		if left < nb {
			nb = left
		}
		rn.history(nb)
		if k > 200 {
			break
		}
	}
	if rn.w != nil {
		rn.w.h.Close()
	}

	wg.Wait()
	for i, sp := range specs {
		o := outs[i]
		if o.ChildErr != "" && !o.TimedOut {
			return fmt.Errorf("watch child %d: %s", i, o.ChildErr)
		}
		returned := o.PosDone && !o.TimedOut
		term := fmt.Sprintf("(CWatch %s %s %s %s %s {| wo_pool_ok := %s; wo_returned := %s; wo_pos_ok := %s; wo_tick := %d |})",
			emit.Z(decRawOr(sp.Fee)), emit.Z(decRawOr(sp.Ratio)), emit.Z(decRawOr(sp.Offset)), sp.Quote, sp.Base,
			emit.Bool(o.PoolCode == 0 && o.PoolErr == ""), emit.Bool(returned), emit.Bool(returned && o.PosCode == 0 && o.PosErr == ""), o.Tick)
		rn.add(term, map[string]any{"kind": "watch", "spec": sp, "out": o, "seed": seed})
		st.Count(fmt.Sprintf("watch:returned=%v", returned))
		if returned && o.PosCode == 0 {
			st.Count("watch:position-created")
			st.Nontriv(fmt.Sprintf("watch|%s|%s|tick%d", sp.Ratio, sp.Offset, bucket(o.Tick)))
		} else {
			st.Nontriv(fmt.Sprintf("watch|%s|%s|pool%d|pos%d|timeout=%v", sp.Ratio, sp.Offset, o.PoolCode, o.PosCode, o.TimedOut))
		}
	}
	if _, err := cf.Write(outDir, "cases", 40); err != nil {
		return err
	}
	return st.Write(outDir)
}

func bucket(t int64) int {
	if t < 0 {
		t = -t
	}
	b := 0
	for t > 0 {
		t /= 10
		b++
	}
	return b
}
