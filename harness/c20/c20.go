// Package c20: harness for property C20 — erasure coding (x/da/erasurecoding on top of
// klauspost/reedsolomon), shard assignment (x/da/types/shards.go) and proof binding
// (x/da/zkp + Msg/SubmitValidityProof on the running application).
package c20

import (
	"fmt"
	"strings"

	"verifharness/emit"
)

const rule = "round trip: real ErasureCode + ReconstructAndJoinShards on generated (blob, k, m, erasure set); " +
	"non-trivial when exactly m or m+1 shards are erased or the blob length is not a multiple of k, distinct by (k, m, len, #erased, pattern class); " +
	"also run as call sequences in one process over configuration families (same decimal string str(k)+str(m), exchanged pair, same total, same k, same m; forwards, backwards, interleaved encode/join/reconstruct). " +
	"assignment: real ShardIndicesForValidator against the model fed with the swap stream recorded from rand.Shuffle with the same seed; " +
	"non-trivial when 0 < threshold < n, distinct by (address, threshold, n). " +
	"binding: real Msg/SubmitValidityProof with real Groth16 proofs; non-trivial when at least one pair reaches verification, distinct by (indices, proof ids, hash ids)"

// byte as the Coq constructor of Init.Byte.byte
func coqByte(b byte) string { return fmt.Sprintf("x%02x", b) }

func coqBytes(bs []byte) string {
	var sb strings.Builder
	sb.Grow(len(bs)*5 + 2)
	sb.WriteByte('[')
	for i, b := range bs {
		if i > 0 {
			sb.WriteByte(';')
		}
		sb.WriteString(coqByte(b))
	}
	sb.WriteByte(']')
	return sb.String()
}

func coqRows(rows [][]byte) string {
	xs := make([]string, len(rows))
	for i, r := range rows {
		xs[i] = coqBytes(r)
	}
	return emit.List(xs)
}

// a shard as Coq [option (list byte)]: nil slice = None
func coqShards(sh [][]byte) string {
	xs := make([]string, len(sh))
	for i, s := range sh {
		if s == nil {
			xs[i] = "None"
		} else {
			xs[i] = "(Some " + coqBytes(s) + ")"
		}
	}
	return emit.List(xs)
}

func coqNats(xs []int) string {
	ss := make([]string, len(xs))
	for i, x := range xs {
		ss[i] = fmt.Sprintf("%d%%nat", x)
	}
	return emit.List(ss)
}

func coqZs(xs []int64) string {
	ss := make([]string, len(xs))
	for i, x := range xs {
		ss[i] = emit.ZI(x)
	}
	return emit.List(ss)
}

type ctxRun struct {
	r  *emit.Rand
	st *emit.Stats
	cf *emit.CasesFile
}

// Run generates n cases (plus the fixed corpus) and writes cases + stats into outDir.
func Run(seed int64, n int, outDir string) error {
	c := &ctxRun{
		r:  emit.NewRand(seed),
		st: emit.NewStats("C20", seed, rule),
		cf: &emit.CasesFile{Import: "Da.C20Check", Runner: "run", Type: "c20_case"},
	}
	// corpus first
	if err := c.rsCorpus(); err != nil {
		return err
	}
	nRS := n * 45 / 100
	nMal := n * 10 / 100
	nShuf := n * 23 / 100
	nSub := n - nRS - nMal - nShuf
	for i := 0; i < nRS; i++ {
		c.rsRound(c.genRound(), "gen")
	}
	for i := 0; i < nMal; i++ {
		c.rsMalformed()
	}
	c.rsSequences(n / 80)
	if err := c.shuffleCases(nShuf); err != nil {
		return err
	}
	if err := c.submitCases(nSub); err != nil {
		return err
	}
	if _, err := c.cf.Write(outDir, "cases", 60); err != nil {
		return err
	}
	return c.st.Write(outDir)
}
