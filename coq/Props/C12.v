(* C12 — Lockup accounts never release locked funds early.
   Only statements, each closed by [exact]; the model is Stake/Lockup.v (the non-voting-delegatable
   and the self-delegatable continuous locking accounts, the self-delegation proxy and the
   x/selfdelegation message servers), the proofs are in Stake/LockupProofs.v.

   Vocabulary (all defined in Stake/Lockup.v / Stake/LockupProofs.v):
     world       the account's stored state (owner, schedule, OriginalLocking, DL, DF, unbond entries),
                 the bank balances of the account and of its proxy, what is in custody of staking
                 (the proxy's delegation and unbonding entries) and of x/shareclass (principal delegated
                 and pending unbondings), and the ghosts  w_out / w_rew / w_dep  = cumulative value that
                 left account+proxy to any other address / rewards received / third-party deposits.
     step c w o  one operation as a transaction: any execute message of the three account types with an
                 arbitrary real sender [es] and an arbitrary msg.Sender field [ms], a third-party
                 deposit, a time step, an end-of-block settlement.
     hist_ok     the values returned by the oracles (staking, distribution, share-class) along the
                 history meet their contract [op_ok]: rewards are non-negative, staking only undelegates
                 what is delegated, completion times handed out do not decrease.
     conf        [bond_sendable c = false] is the bank configuration of the production genesis
                 (uvrise is send-disabled, app/custom/bank.go); [fixed_sender c = true] is the repaired
                 sender check (patch C12-check-real-sender).
     lk w        locked(now): the continuous schedule exactly as written (LegacyDec arithmetic on Unix
                 seconds, RoundInt), 0 in the one-second window in which the code panics.
     bval b      value of a balance in the fee and the bond denom, counted 1:1 (C13 convert_exact). *)
From Coq Require Import ZArith List.
Import ListNotations.
From Sunrise Require Import Base.Outcome Base.Dec Stake.Lockup Stake.LockupProofs.
Local Open Scope Z_scope.

(* Clause 1: for every history of operations, with every sender of every message, the cumulative
   value that has left the account and its proxy never exceeds what the schedule has unlocked plus
   rewards plus third-party deposits. *)
Theorem C12_outflow_bounded : forall c w0 os,
  bond_sendable c = false -> init_ok w0 -> hist_ok c w0 os ->
  let w := run c w0 os in
  bval (w_out w) <= orig_fee w - lk w + bval (w_rew w) + bval (w_dep w).
Proof. exact outflow_bounded. Qed.
Print Assumptions C12_outflow_bounded.

(* ... stated with the schedule's own value whenever its computation does not panic *)
Theorem C12_outflow_bounded_locked : forall c w0 os L,
  bond_sendable c = false -> init_ok w0 -> hist_ok c w0 os ->
  let w := run c w0 os in
  locked_of w FEE = Some L ->
  bval (w_out w) <= orig_fee w - L + bval (w_rew w) + bval (w_dep w).
Proof. exact outflow_bounded_locked. Qed.
Print Assumptions C12_outflow_bounded_locked.

(* Every other denomination attached at Init (e.g. uusdc) obeys the same bound on its own, for every
   history and every oracle behaviour: nothing but Send moves it. *)
Theorem C12_outflow_bounded_other : forall c d w0 os,
  other d -> init_ok_o d w0 ->
  let w := run c w0 os in
  bget (w_out w) d <= get d (w_orig w) - lk_d d w + bget (w_rew w) d + bget (w_dep w) d.
Proof. exact outflow_bounded_other. Qed.
Print Assumptions C12_outflow_bounded_other.

(* the schedule and the owner are never changed by any history *)
Theorem C12_config_immutable : forall c os w, same_cfg w (run c w os).
Proof. exact run_cfg. Qed.
Print Assumptions C12_config_immutable.

(* the schedule: 0 <= locked <= original, never increasing with time, everything unlocked at the end *)
Theorem C12_schedule_bounds : forall orig st en now, 0 <= orig -> 0 <= lkv orig st en now <= orig.
Proof. exact lkv_bounds. Qed.
Print Assumptions C12_schedule_bounds.
Theorem C12_schedule_monotone : forall orig st en t t', 0 <= orig -> t <= t' -> lkv orig st en t' <= lkv orig st en t.
Proof. exact lkv_mono. Qed.
Print Assumptions C12_schedule_monotone.
Theorem C12_schedule_end : forall orig st en, 0 <= orig -> orig <= INT_LIM -> st <= en -> unix st < unix en ->
  locked_raw orig st en en = Some 0.
Proof. exact lkv_end. Qed.
Print Assumptions C12_schedule_end.

(* Clause 2: only the owner can act.  Every execute handler of the three account types fails
   without any state change unless both the real sender and the msg.Sender field are the owner
   (for the proxy: the root owner, which is the lockup's owner). *)
Theorem C12_only_owner_acts : forall c w o es ms,
  fixed_sender c = true -> op_senders o = Some (es, ms) ->
  (es <> w_owner w \/ ms <> w_owner w) ->
  step c w o = (w, 1).
Proof. exact only_owner_acts. Qed.
Print Assumptions C12_only_owner_acts.

Theorem C12_failed_message_changes_nothing : forall c w o, snd (step c w o) <> 0 -> fst (step c w o) = w.
Proof. exact failed_step_no_change. Qed.
Print Assumptions C12_failed_message_changes_nothing.

(* The sender check of the pinned tree (msg.Sender only) is refuted: a stranger is paid. This witness
   was reproduced on the real application with a signed transaction (notes/C12.md) and is case 1 of
   the corpus. *)
Theorem C12_only_owner_prefix_refuted :
  exists w o es ms, op_senders o = Some (es, ms) /\ es <> w_owner w /\
    snd (step conf_prefix w o) = 0 /\
    bval (w_out (fst (step conf_prefix w o))) = bval (w_out w) + 7.
Proof. exact only_owner_prefix_refuted. Qed.
Print Assumptions C12_only_owner_prefix_refuted.

(* Clause 3: tracked <= actual.  DL and DF never exceed what is actually delegated or unbonding
   [custody_b]: bond tokens held by the proxy + the proxy's stake + its staking unbondings + the
   share-class principal + pending share-class unbondings -- up to the matured entries the account
   has recorded itself and not yet swept (the refresh is lazy) ... *)
Theorem C12_tracked_le_actual : forall c w0 os,
  bond_sendable c = false -> init_ok w0 -> hist_ok c w0 os ->
  let w := run c w0 os in
  0 <= w_DL w /\ 0 <= w_DF w /\
  w_DL w + w_DF w <= custody_b w + matured_st (w_now w) (w_ent w).
Proof. exact tracked_le_actual. Qed.
Print Assumptions C12_tracked_le_actual.

(* ... and with no slack for the refreshed values, which are the ones every handler uses; the
   refresh itself never fails on a reachable state *)
Theorem C12_tracked_le_actual_refreshed : forall c w0 os st dl df,
  bond_sendable c = false -> init_ok w0 -> hist_ok c w0 os ->
  let w := run c w0 os in
  sweep (w_now w) (w_ent w) (w_DL w) (w_DF w) = Ok (st, dl, df) ->
  dl + df <= custody_b w.
Proof. exact tracked_le_actual_refreshed. Qed.
Print Assumptions C12_tracked_le_actual_refreshed.

Theorem C12_refresh_never_fails : forall c w0 os,
  bond_sendable c = false -> init_ok w0 -> hist_ok c w0 os ->
  let w := run c w0 os in
  exists st dl df, sweep (w_now w) (w_ent w) (w_DL w) (w_DF w) = Ok (st, dl, df).
Proof. exact sweep_never_fails. Qed.
Print Assumptions C12_refresh_never_fails.

(* The bank configuration hypothesis is necessary: with the bond denom send-enabled the root owner
   forwards unbonded stake through the proxy's Send while everything is still locked. *)
Theorem C12_outflow_needs_bond_send_disabled :
  exists w0 os, init_ok w0 /\ hist_ok conf_bond_sendable w0 os /\
    let w := run conf_bond_sendable w0 os in
    lk w = 100 /\ bval (w_out w) = 100 /\ bval (w_rew w) = 0 /\ bval (w_dep w) = 0 /\ orig_fee w = 100.
Proof. exact outflow_needs_bond_send_disabled. Qed.
Print Assumptions C12_outflow_needs_bond_send_disabled.

(* non-vacuity: concrete histories (computed by the model) that satisfy every hypothesis above, with
   0 < locked(now) < original, DL > 0, outflow > 0, rewards > 0, a forged and a stranger's message *)
Example C12_nonvacuous_self_delegatable :
  let w0 := w_init true 1000 (500 * SEC) 0 (1000 * SEC) in
  init_ok w0 /\ hist_ok conf_prod w0 hist_nv /\
  let w := run conf_prod w0 hist_nv in
  lk w = 400 /\ w_DL w = 500 /\ w_DF w = 40 /\ bval (w_out w) = 204 /\ bval (w_rew w) = 6 /\
  custody_b w = 542.
Proof. exact nonvacuous_sd. Qed.

Example C12_nonvacuous_non_voting :
  let w0 := w_init false 1000 (500 * SEC) 0 (1000 * SEC) in
  init_ok w0 /\ hist_ok conf_prod w0 hist_nv2 /\
  let w := run conf_prod w0 hist_nv2 in
  lk w = 250 /\ w_DL w = 500 /\ w_DF w = 0 /\ bval (w_out w) = 300 /\ custody_b w = 500 /\
  w_ent w = [(3, [{| e_end := 700 * SEC; e_amt := 100; e_h := 1 |}; {| e_end := 900 * SEC; e_amt := 50; e_h := 1 |}])].
Proof. exact nonvacuous_nv. Qed.
