(* cosmossdk.io/math v1.5.0 `Dec` (cockroachdb/apd v3.2.1 decimals) as used by x/shareclass,
   modelled at the level of values: a Dec is the rational number it denotes.
     Add / Sub      apd.BaseContext (precision 0): exact
     Quo / Mul      dec128Context: the exact result rounded to 34 significant digits, half up
                    (away from zero on ties), see context.go Quo / Mul + round.go
     SdkIntTrim     truncation toward zero, error above 256 bits
     NewDecFromString(int.String()): exact
   Not modelled: the exponent limits +-100000 of apd (unreachable from 256-bit integers and
   34-digit quotients), the (coefficient, exponent) representation (only values are observable:
   the module stores Dec.String(), which prints every digit). *)
From Coq Require Import ZArith QArith Qround Bool List.
From Sunrise Require Import Base.Outcome.
Local Open Scope Z_scope.

(* number of decimal digits of a positive integer *)
Fixpoint ndig_aux (fuel : nat) (n : Z) : Z :=
  match fuel with
  | O => 0
  | S f => if n <? 10 then 1 else 1 + ndig_aux f (n / 10)
  end.
Definition ndig (n : Z) : Z := ndig_aux (S (Z.to_nat (Z.log2 n))) n.

Definition E33 : Z := 10 ^ 33.

(* n/d (n, d > 0) rounded to 34 significant digits, half up; result as numerator, denominator.
   Same steps as apd Context.Quo: scale so that 1 <= n2/d1 < 10, take 33 more digits, look at
   the remainder. *)
Definition rnd34_pos (n d : Z) : Z * Z :=
  let dn := ndig n in
  let dd := ndig d in
  let a0 := if dn <? dd then dd - dn else 0 in
  let b := if dd <? dn then dn - dd else 0 in
  let n1 := n * 10 ^ a0 in
  let d1 := d * 10 ^ b in
  let lt := n1 <? d1 in
  let a := if lt then a0 + 1 else a0 in
  let n2 := if lt then n1 * 10 else n1 in
  let num := n2 * E33 in
  let c := num / d1 in
  let r := num mod d1 in
  let cr := if d1 <=? 2 * r then c + 1 else c in
  (cr * 10 ^ b, 10 ^ a * E33).

Local Open Scope Q_scope.

Definition mkq (p : Z * Z) : Q := Qmake (fst p) (Z.to_pos (snd p)).

Definition rnd34 (x : Q) : Q :=
  match Qnum x with
  | Z0 => 0
  | Zpos _ => mkq (rnd34_pos (Qnum x) (Zpos (Qden x)))
  | Zneg p => - mkq (rnd34_pos (Zpos p) (Zpos (Qden x)))
  end.

Definition dec_of_int (i : Z) : Q := inject_Z i.
Definition dadd (x y : Q) : Q := x + y.
Definition dsub (x y : Q) : Q := x - y.
Definition dmul (x y : Q) : Q := rnd34 (x * y).
(* None = "division by zero" error *)
Definition dquo (x y : Q) : option Q := if Qeq_bool y 0 then None else Some (rnd34 (x / y)).

(* truncation toward zero *)
Definition trim (x : Q) : Z := Z.quot (Qnum x) (Zpos (Qden x)).
Definition BITS256 : Z := (2 ^ 256)%Z.
(* SdkIntTrim: error when the integer needs more than 256 bits *)
Definition trim_int (x : Q) : option Z :=
  let t := trim x in if (Z.abs t <? BITS256)%Z then Some t else None.

(* a Dec printed by the implementation as coefficient * 10^exponent *)
Definition of_ce (c e : Z) : Q :=
  if (0 <=? e)%Z then inject_Z (c * 10 ^ e) else Qmake c (Z.to_pos (10 ^ (- e))).
