(* Rounding-direction facts about the LegacyDec model. *)
From Coq Require Import ZArith Bool Lia.
From Sunrise Require Import Base.Outcome Base.Dec.
Local Open Scope Z_scope.
Ltac Zify.zify_post_hook ::= Z.div_mod_to_equations.

Lemma P_pos : 0 < P. Proof. reflexivity. Qed.
Lemma P_val : P = 2 * HALF. Proof. reflexivity. Qed.

Lemma chk_some x y : chk x = Some y -> y = x /\ Z.abs x <= DEC_LIM.
Proof. unfold chk, in_range. destruct (Z.leb_spec (Z.abs x) DEC_LIM) as [Hl|Hl]; intros H; [injection H as <-; split; [reflexivity|exact Hl] | discriminate H]. Qed.
Lemma chk_int_some x y : chk_int x = Some y -> y = x /\ Z.abs x <= INT_LIM.
Proof. unfold chk_int, int_ok. destruct (Z.leb_spec (Z.abs x) INT_LIM) as [Hl|Hl]; intros H; [injection H as <-; split; [reflexivity|exact Hl] | discriminate H]. Qed.

Ltac ulia := unfold P, HALF, DEC_LIM, INT_LIM in *; lia.

(* banker's rounding is within half an ulp *)
Lemma chop_round_pos_bracket d : 0 <= d ->
  d - HALF <= chop_round_pos d * P <= d + HALF.
Proof.
  intros Hd. unfold chop_round_pos.
  destruct (Z.eqb_spec (d mod P) 0); [ulia|].
  destruct (Z.ltb_spec (d mod P) HALF); [ulia|].
  destruct (Z.ltb_spec HALF (d mod P)); [ulia|].
  destruct (Z.even (d / P)); ulia.
Qed.
Lemma chop_round_pos_nonneg d : 0 <= d -> 0 <= chop_round_pos d.
Proof.
  intros Hd. unfold chop_round_pos.
  destruct (d mod P =? 0); [ulia|]. destruct (d mod P <? HALF); [ulia|].
  destruct (HALF <? d mod P); [ulia|]. destruct (Z.even (d / P)); ulia.
Qed.
Lemma chop_round_bracket d : d - HALF <= chop_round d * P <= d + HALF.
Proof.
  unfold chop_round. destruct (Z.ltb_spec d 0).
  - pose proof (chop_round_pos_bracket (- d)). lia.
  - apply chop_round_pos_bracket; lia.
Qed.
Lemma chop_round_nonneg d : 0 <= d -> 0 <= chop_round d.
Proof. intros. unfold chop_round. destruct (Z.ltb_spec d 0); [lia|]. apply chop_round_pos_nonneg; lia. Qed.

Lemma chop_trunc_bracket d : 0 <= d -> chop_trunc d * P <= d < chop_trunc d * P + P.
Proof. intros. unfold chop_trunc. rewrite Z.quot_div_nonneg by ulia. ulia. Qed.
Lemma chop_roundup_bracket d : 0 <= d -> d <= chop_roundup d * P < d + P.
Proof.
  intros. unfold chop_roundup.
  destruct (Z.ltb_spec d 0); [lia|]. destruct (Z.eqb_spec (d mod P) 0); ulia.
Qed.

Lemma dtrunc_int_bracket a : 0 <= a -> dtrunc_int a * P <= a < dtrunc_int a * P + P.
Proof. apply chop_trunc_bracket. Qed.
Lemma dtrunc_int_nonneg a : 0 <= a -> 0 <= dtrunc_int a.
Proof. intros. unfold dtrunc_int. rewrite Z.quot_div_nonneg by ulia. ulia. Qed.

Lemma dmul_some a b r : dmul a b = Some r -> r = chop_round (a * b).
Proof. unfold dmul. intros H. apply chk_some in H. tauto. Qed.
Lemma dmul_nonneg a b r : 0 <= a -> 0 <= b -> dmul a b = Some r -> 0 <= r.
Proof. intros Ha Hb H. apply dmul_some in H. subst. apply chop_round_nonneg. nia. Qed.
Lemma dmul_int_some a i r : dmul_int a i = Some r -> r = a * i.
Proof. unfold dmul_int. intros H. apply chk_some in H. tauto. Qed.
Lemma dadd_some a b r : dadd a b = Some r -> r = a + b.
Proof. unfold dadd. intros H. apply chk_some in H. tauto. Qed.
Lemma dsub_some a b r : dsub a b = Some r -> r = a - b.
Proof. unfold dsub. intros H. apply chk_some in H. tauto. Qed.
