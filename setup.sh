#!/bin/sh
# Run once after a fresh restore, offline: clean full .vo build of the Coq development and
# a first build of the Go harness against /repo (warms the Go build cache).
set -e
cd "$(dirname "$0")"
export GOFLAGS=-mod=mod GOPROXY=off GOSUMDB=off GOTOOLCHAIN=local GOWORK=off
mkdir -p build evidence replays
./coq/build.sh clean | grep -v '^WARNING conda' | tail -5
python3 - <<'PY'
import importlib.machinery, importlib.util, sys
loader = importlib.machinery.SourceFileLoader("check", "./check")
spec = importlib.util.spec_from_loader("check", loader)
m = importlib.util.module_from_spec(spec); loader.exec_module(m)
rc, out, binp = m.build_harness()
print("harness:", rc, binp)
if rc != 0:
    print(out[-3000:]); sys.exit(1)
PY
