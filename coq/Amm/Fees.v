(* C06 — LP fee and incentive accrual. Definitions only (no proofs here):
   well-formedness of the fee state, the entitlement of a position as prepare_claim computes it,
   the coins an operation moves into / out of the pool's fee account (ghost flows), the
   "growth below a tick" reading of the tick store, and one iteration of the swap loop as a
   function (tied to Pool.swap_loop by the unfolding lemma in FeesLoop.v). *)
From Coq Require Import ZArith Bool List.
Import ListNotations.
From Sunrise Require Import Base.Outcome Base.Dec Amm.Math Amm.Pool.
Local Open Scope Z_scope.
Local Open Scope res_scope.

(* ---- vectors: every DecCoins / Coins value of one pool has the four denom slots ---- *)
Definition len4 (v : vec) : Prop := length v = 4%nat.
Definition len4b (v : vec) : bool := Nat.eqb (length v) 4.
Definition vnonneg (v : vec) : Prop := Forall (fun x => 0 <= x) v.
Definition vnonnegb (v : vec) : bool := forallb (fun x => 0 <=? x) v.

(* ---- the entitlement of a position: GetTotalRewards after the checkpoint has been shifted by
   the growth outside, i.e. the DecCoins that prepareClaimableFees truncates ---- *)
Definition entitlement (s : amm) (pid : Z) : res vec :=
  match find_pos (a_positions s) pid with
  | None => Err E_NOT_FOUND
  | Some pos =>
    match find_ap (a_acc_pos s) pid with
    | None => Err E_GENERIC
    | Some ap0 =>
      let! outside := of_opt (fee_growth_outside s (pos_lower pos) (pos_upper pos)) in
      let! v1 := of_opt (vadd (ap_value ap0) outside) in
      of_opt (total_rewards (a_acc_value s)
                {| ap_id := pid; ap_shares := ap_shares ap0; ap_value := v1; ap_unclaimed := ap_unclaimed ap0 |})
    end
  end.

(* growth inside a range, as SetAccumulatorPositionFeeAccumulator / updateAccumAndClaimRewards compute it *)
Definition growth_inside (s : amm) (lo up : Z) : option vec :=
  let? outside := fee_growth_outside s lo up in vsafe_sub (a_acc_value s) outside.

(* ---- ghost flows: what a successful operation moves into / out of the fee account ---- *)
Definition swap_fee_coins (s : amm) (exact_in : bool) (denom_in denom_out specified : Z) : vec :=
  match compute_swap s exact_in denom_in denom_out specified (p_fee (a_pool s))
          (if denom_in =? 0 then MIN_MULT_SPOT else MAX_MULT_SPOT) true with
  | Ok r => match dceil (sr_fees r) with
            | Some fc => if dtrunc_int fc =? 0 then vzero else vsingle denom_in (dtrunc_int fc)
            | None => vzero
            end
  | _ => vzero
  end.

Definition collected (s : amm) (sender pid : Z) : vec :=
  match collect_fees s sender pid with Ok (_, c) => c | _ => vzero end.

(* coins credited to the fee account by a successful [o] from [s] *)
Definition received (s : amm) (o : op) : vec :=
  match o with
  | OSwap ei di do_ sp => swap_fee_coins s ei di do_ sp
  | OAllocate coins => coins
  | _ => vzero
  end.
(* coins paid out of the fee account by a successful [o] from [s] *)
Definition claimed_by (s : amm) (o : op) : vec :=
  match o with
  | OClaim sender ids => match msg_claim_rewards s sender ids with Ok (_, c) => c | _ => vzero end
  | ODecrease sender pid _ => collected s sender pid
  | OIncrease sender pid _ _ _ _ => collected s sender pid
  | _ => vzero
  end.

(* histories with the two ghost totals threaded along (they start at zero with the history) *)
Fixpoint run_ghost (s : amm) (recv cl : vec) (ops : list op) : amm * vec * vec :=
  match ops with
  | [] => (s, recv, cl)
  | o :: tl =>
    match step s o with
    | (s', Ok _) => run_ghost s' (vplus recv (received s o)) (vplus cl (claimed_by s o)) tl
    | (s', _) => run_ghost s' recv cl tl
    end
  end.

(* sum of what GetClaimableFees answers over the open positions (an erroring query counts zero) *)
Definition claimable_of (s : amm) (pid : Z) : vec :=
  match claimable_fees s pid with Ok c => c | _ => vzero end.
Fixpoint claimable_sum_over (s : amm) (ps : list position) : vec :=
  match ps with [] => vzero | p :: r => vplus (claimable_of s (pos_id p)) (claimable_sum_over s r) end.
Definition claimable_sum (s : amm) : vec := claimable_sum_over s (a_positions s).

(* ---- well-formedness of the fee state of one pool ---- *)
Definition tick_wf (t : tick) : Prop := len4 (t_growth t).
Definition ap_wf (a : accum_pos) : Prop :=
  len4 (ap_value a) /\ len4 (ap_unclaimed a) /\ vnonneg (ap_unclaimed a) /\ 0 <= ap_shares a.
Record FeeWF (s : amm) : Prop := {
  fw_acc : len4 (a_acc_value s);
  fw_ticks : Forall tick_wf (a_ticks s);
  fw_aps : Forall ap_wf (a_acc_pos s);
  fw_bal_fee : len4 (a_bal_fee s);
  fw_bal_pool : len4 (a_bal_pool s);
  fw_bal_user : len4 (a_bal_user s)
}.
Definition fee_wf_b (s : amm) : bool :=
  len4b (a_acc_value s) &&
  forallb (fun t => len4b (t_growth t)) (a_ticks s) &&
  forallb (fun a => len4b (ap_value a) && len4b (ap_unclaimed a) && vnonnegb (ap_unclaimed a) && (0 <=? ap_shares a)) (a_acc_pos s) &&
  len4b (a_bal_fee s) && len4b (a_bal_pool s) && len4b (a_bal_user s).

(* ---- growth "below" a tick: the reading of the tick store under which
   growth inside [lo,up) = below(up) - below(lo).  Exact integer arithmetic on raw decimals. ---- *)
Definition below (ts : list tick) (cur : Z) (G : vec) (t : Z) : vec :=
  match find_tick ts t with
  | Some x => if t <=? cur then t_growth x else vminus G (t_growth x)
  | None => G
  end.
Definition inside_exact (ts : list tick) (cur : Z) (G : vec) (lo up : Z) : vec :=
  vminus (below ts cur G up) (below ts cur G lo).

(* ---- one iteration of the swap loop (Pool.swap_loop body), returned as data ---- *)
Inductive iter_out :=
| ItStop                                               (* loop condition false: the state is final *)
| ItNext (iter' : list tick) (st' : swap_state)
         (crossed : bool)                              (* the step reached the next initialised tick *)
         (recomputed : bool)                           (* the tick was recomputed from the price *)
         (fee_charge per : Z).                         (* fee of the step and its growth per unit liquidity *)

Definition loop_iter (exact_in b4q update_acc : bool) (fee limit : Z) (tp : tick_params)
           (acc_value : vec) (denom_in : Z) (iter : list tick) (st : swap_state) : res iter_out :=
  if negb ((0 <? ss_remaining st) && negb (ss_sqrt st =? limit)) then Ok ItStop else
  match iter with
  | [] => Err E_RAN_OUT_OF_TICKS
  | nt :: iter' =>
    let next_tick := t_index nt in
    let! next_sp := (match tick_to_sqrt_price next_tick tp with
                     | Ok v => Ok v | Panic => Panic
                     | Err e => if e =? E_FUEL then Err E_FUEL else Err E_GENERIC end) in
    let target := sqrt_target b4q limit next_sp in
    let start := ss_sqrt st in
    let! (computed, spec_used, other, fee_charge) :=
      of_opt ((if exact_in then step_out_given_in b4q else step_in_given_out b4q)
                fee (ss_sqrt st) target (ss_liq st) (ss_remaining st)) in
    let amt_in := if exact_in then spec_used else other in
    let amt_out := if exact_in then other else spec_used in
    if (computed =? start) && negb ((amt_in =? 0) && (amt_out =? 0)) then Err E_NO_SQRT_AFTER_SWAP else
    let! (growth, fees, per) :=
      (if update_acc then
         let! fees' := of_opt (dadd (ss_fees st) fee_charge) in
         if ss_liq st =? 0 then Ok (ss_growth st, fees', 0) else
         let! per := of_opt (dquoT fee_charge (ss_liq st)) in
         let! g := of_opt (dadd (ss_growth st) per) in Ok (g, fees', per)
       else Ok (ss_growth st, ss_fees st, 0)) in
    let! in_fee := of_opt (dadd amt_in fee_charge) in
    let! remaining := of_opt (if exact_in then dsub (ss_remaining st) in_fee else dsub (ss_remaining st) amt_out) in
    let! calculated := of_opt (if exact_in then dadd (ss_calculated st) amt_out else dadd (ss_calculated st) in_fee) in
    let! (tick', liq', ticks', iter2, crossed, recomputed) :=
      (if next_sp =? computed then
         let cur := match find_tick (ss_ticks st) next_tick with Some t => t | None => nt end in
         let! ticks2 :=
           (if update_acc then
              let! g1 := of_opt (vadd acc_value (vsingle denom_in growth)) in
              let! g2 := of_opt (vsub g1 (t_growth cur)) in
              Ok (put_tick (ss_ticks st) {| t_index := next_tick; t_gross := t_gross cur; t_net := t_net cur; t_growth := g2 |})
            else Ok (ss_ticks st)) in
         let net := if b4q then - t_net cur else t_net cur in
         let! l := of_opt (dadd (ss_liq st) net) in
         Ok ((if b4q then next_tick - 1 else next_tick), l, ticks2, iter', true, false)
       else if (if b4q then computed <? next_sp else next_sp <? computed) then Err E_INVALID_COMPUTED
       else if negb (start =? computed) then
         let! nt' := sqrt_price_to_tick computed tp in Ok (nt', ss_liq st, ss_ticks st, iter, false, true)
       else Ok (ss_tick st, ss_liq st, ss_ticks st, iter, false, false)) in
    let zero_progress := if exact_in then amt_in =? 0 else amt_out =? 0 in
    if zero_progress && (100 <=? ss_noprog st) then Err E_RAN_OUT_OF_ITER else
    Ok (ItNext iter2
          {| ss_remaining := remaining; ss_calculated := calculated; ss_sqrt := computed; ss_tick := tick';
             ss_liq := liq'; ss_growth := growth; ss_fees := fees; ss_ticks := ticks';
             ss_noprog := if zero_progress then ss_noprog st + 1 else ss_noprog st |}
          crossed recomputed fee_charge per)
  end.

(* the recomputed tick stays in the bucket the loop is walking: between the cursor and the
   next initialised tick in the direction of the trade *)
Definition in_bucket (b4q : bool) (cur : Z) (iter : list tick) (t' : Z) : Prop :=
  match iter with
  | [] => True
  | nt :: _ => if b4q then t_index nt <= t' <= cur else cur <= t' < t_index nt
  end.

(* "cursor consistency" of a whole loop run: every recomputed tick stays in its bucket *)
Fixpoint cursor_ok (fuel : nat) (exact_in b4q update_acc : bool) (fee limit : Z) (tp : tick_params)
         (acc_value : vec) (denom_in : Z) (iter : list tick) (st : swap_state) : Prop :=
  match fuel with
  | O => True
  | S f =>
    match loop_iter exact_in b4q update_acc fee limit tp acc_value denom_in iter st with
    | Ok (ItNext iter' st' _ recomputed _ _) =>
        (recomputed = true -> in_bucket b4q (ss_tick st) iter (ss_tick st')) /\
        cursor_ok f exact_in b4q update_acc fee limit tp acc_value denom_in iter' st'
    | _ => True
    end
  end.

(* ---- regression: AllocateIncentive before the fix "take the coins first" ----
   x/liquidityincentive's BeginBlocker calls AllocateIncentive on the block context (no transaction)
   and only logs an error.  Before the fix the accumulator was written before the bank send, so a
   failing send left the growth in place.  This is the state such a call left behind. *)
Definition allocate_nontx_prefix (s : amm) (coins : vec) : amm :=
  if negb (has_position (a_pool s)) then s else
  if p_liq (a_pool s) <=? 0 then s else
  match vquo_dec_trunc (map dec_of_int coins) (p_liq (a_pool s)) with
  | None => s
  | Some g =>
    match vadd (a_acc_value s) g with
    | None => s
    | Some v =>
      let s1 := set_acc s v (a_acc_shares s) in
      match send s1 AUser AFee coins with Ok s2 => s2 | _ => s1 end
    end
  end.
(* the repaired call: a failing send leaves nothing behind *)
Definition allocate_nontx (s : amm) (coins : vec) : amm :=
  match allocate_incentive s coins with Ok s' => s' | _ => s end.
