package c20

import (
	"encoding/hex"
	"encoding/json"
	"fmt"
	"math/rand/v2"
	"os"
	"os/exec"
	"strings"

	sdk "github.com/cosmos/cosmos-sdk/types"

	datypes "github.com/sunriselayer/sunrise/x/da/types"

	"verifharness/emit"
)

type shufIn struct {
	Addr      string `json:"addr"` // hex
	Threshold int64  `json:"t"`
	N         int64  `json:"n"`
	// Slack bytes of capacity behind the address in its backing array (the first call), filled
	// with Fill; the repeated call uses the same address bytes in another backing array.
	Slack int  `json:"slack"`
	Fill  byte `json:"fill"`
}

// the address bytes inside a backing array with the given spare capacity and filling
func (in shufIn) slice(slack int, fill byte) []byte {
	addr, _ := hex.DecodeString(in.Addr)
	buf := make([]byte, len(addr)+slack)
	copy(buf, addr)
	for i := len(addr); i < len(buf); i++ {
		buf[i] = fill
	}
	return buf[:len(addr):len(buf)]
}

// realIndices calls the real function; nil, true on panic.
func realIndices(addr []byte, threshold, n int64) (out []int64, panicked bool) {
	defer func() {
		if r := recover(); r != nil {
			out, panicked = nil, true
		}
	}()
	res := datypes.ShardIndicesForValidator(sdk.ValAddress(addr), threshold, n)
	if res == nil {
		res = []int64{}
	}
	return res, false
}

func realSeed(addr []byte) (seed uint64, panicked bool) {
	defer func() {
		if r := recover(); r != nil {
			panicked = true
		}
	}()
	return datypes.ValidatorSeed(sdk.ValAddress(addr)), false
}

// recordSwaps replays rand.Shuffle with the seed the real function uses and records (i, j).
func recordSwaps(seed uint64, n int64) (pairs [][2]int64, panicked bool) {
	defer func() {
		if r := recover(); r != nil {
			panicked = true
		}
	}()
	rng := rand.New(rand.NewPCG(seed, 1024))
	rng.Shuffle(int(n), func(i, j int) { pairs = append(pairs, [2]int64{int64(i), int64(j)}) })
	return pairs, false
}

// The child process: C20_CHILD=1, inputs as JSON on stdin, outputs as JSON on stdout.
func init() {
	if os.Getenv("C20_CHILD") != "1" {
		return
	}
	var ins []shufIn
	if err := json.NewDecoder(os.Stdin).Decode(&ins); err != nil {
		fmt.Fprintln(os.Stderr, "c20 child:", err)
		os.Exit(2)
	}
	outs := make([]*[]int64, len(ins))
	for i, in := range ins {
		if res, p := realIndices(in.slice(0, 0), in.Threshold, in.N); !p {
			outs[i] = &res
		}
	}
	json.NewEncoder(os.Stdout).Encode(outs)
	os.Exit(0)
}

func otherProcess(ins []shufIn) ([]*[]int64, error) {
	exe, err := os.Executable()
	if err != nil {
		return nil, err
	}
	b, _ := json.Marshal(ins)
	cmd := exec.Command(exe)
	cmd.Env = append(os.Environ(), "C20_CHILD=1")
	cmd.Stdin = strings.NewReader(string(b))
	cmd.Stderr = os.Stderr
	out, err := cmd.Output()
	if err != nil {
		return nil, fmt.Errorf("c20: second process failed: %w", err)
	}
	var outs []*[]int64
	if err := json.Unmarshal(out, &outs); err != nil {
		return nil, fmt.Errorf("c20: second process output: %w", err)
	}
	if len(outs) != len(ins) {
		return nil, fmt.Errorf("c20: second process returned %d results for %d inputs", len(outs), len(ins))
	}
	return outs, nil
}

func eqI64(a, b []int64) bool {
	if len(a) != len(b) {
		return false
	}
	for i := range a {
		if a[i] != b[i] {
			return false
		}
	}
	return true
}

func (c *ctxRun) genShuf() shufIn {
	r := c.r
	var alen int
	switch r.Intn(16) {
	case 0:
		alen = 0
	case 1:
		alen = 1 + r.Intn(31)
	case 2:
		alen = 32 // one MiMC block; may exceed the field modulus (Write fails, seed of the empty input)
	case 3: // longer than a block, not a whole number of blocks
		alen = 33 + r.Intn(31)
	case 4:
		alen = 64
	case 5:
		alen = 65 + r.Intn(190)
	default:
		alen = 20
	}
	addr := make([]byte, alen)
	for i := range addr {
		addr[i] = byte(r.U64())
	}
	if alen == 32 && r.Bool() {
		addr[0] = 0xff // certainly above the modulus
	}
	var n int64
	switch r.Intn(10) {
	case 0:
		n = 0
	case 1:
		n = 1
	case 2:
		n = 2
	case 3:
		n = 255
	case 4:
		n = 256 + int64(r.Intn(700))
	default:
		n = 3 + int64(r.Intn(253)) // shard counts of the chain: up to 255
	}
	var t int64
	switch r.Intn(10) {
	case 0:
		t = 0
	case 1:
		t = 1
	case 2:
		t = n
	case 3:
		t = n + 1 + int64(r.Intn(5))
	case 4:
		t = n - 1
	case 5:
		t = 2*n + 3
	default:
		t = int64(r.Intn(int(n) + 1))
	}
	if t < 0 {
		t = 0
	}
	// outside the property's domain, inside the model's: negative arguments panic
	if r.Chance(1, 40) {
		t = -1 - int64(r.Intn(3))
	}
	if r.Chance(1, 40) {
		n = -1 - int64(r.Intn(3))
	}
	slack := 0
	if r.Chance(1, 2) {
		slack = 1 + r.Intn(64)
	}
	return shufIn{Addr: hex.EncodeToString(addr), Threshold: t, N: n, Slack: slack, Fill: byte(r.U64())}
}

func (c *ctxRun) shuffleCases(n int) error {
	ins := make([]shufIn, 0, n+6)
	l33 := make([]byte, 33)
	for i := range l33 {
		l33[i] = byte(i + 1)
	}
	l33[32] = 0
	long33 := hex.EncodeToString(l33)
	// corpus: the repository test's shape and the edges
	ins = append(ins,
		shufIn{Addr: hex.EncodeToString([]byte("validator")), Threshold: 3, N: 10},
		shufIn{Addr: hex.EncodeToString([]byte("validator")), Threshold: 10, N: 10},
		shufIn{Addr: "", Threshold: 5, N: 7},
		shufIn{Addr: hex.EncodeToString(make([]byte, 20)), Threshold: 0, N: 0},
		// witnesses of the seed derivation reading past a 33-byte address (fixed by
		// notes/patches/C20-validator-seed-padding.patch): spare capacity -> adjacent memory
		// enters the seed; no spare capacity -> slice bounds panic
		shufIn{Addr: long33, Threshold: 3, N: 10, Slack: 31, Fill: 5},
		shufIn{Addr: long33, Threshold: 3, N: 10, Slack: 0},
	)
	for i := 0; i < n; i++ {
		ins = append(ins, c.genShuf())
	}
	other, err := otherProcess(ins)
	if err != nil {
		return err
	}
	for i, in := range ins {
		first := in.slice(in.Slack, in.Fill)
		res, panicked := realIndices(first, in.Threshold, in.N)
		seed, seedPanicked := realSeed(first)
		// the same address bytes in a different backing array (other capacity, other neighbours)
		res2, panicked2 := realIndices(in.slice(64-in.Slack%64, ^in.Fill), in.Threshold, in.N)
		same := panicked == panicked2 && eqI64(res, res2)
		if panicked {
			same = same && other[i] == nil
		} else {
			same = same && other[i] != nil && eqI64(res, *other[i])
		}
		var pairs [][2]int64
		rp := false
		if !seedPanicked {
			pairs, rp = recordSwaps(seed, in.N)
		}
		ps := make([]string, len(pairs))
		for k, p := range pairs {
			ps[k] = emit.Tuple(emit.ZI(p[0]), emit.ZI(p[1]))
		}
		obs := "None"
		if !panicked {
			obs = emit.Some(coqZs(res))
		}
		term := fmt.Sprintf("CShuf {| sh_addr_len := %d; sh_n := %s; sh_threshold := %s; sh_seed_panicked := %s; sh_swaps := %s; sh_obs := %s; sh_repeat_equal := %s; sh_replay_panicked := %s |}",
			len(in.Addr)/2, emit.ZI(in.N), emit.ZI(in.Threshold), emit.Bool(seedPanicked), emit.List(ps), obs, emit.Bool(same), emit.Bool(rp))
		c.cf.Add(term)
		info := map[string]any{"kind": "shuffle", "addr": in.Addr, "addr_len": len(in.Addr) / 2, "spare_capacity": in.Slack, "threshold": in.Threshold, "n": in.N,
			"panicked": panicked, "seed_derivation_panicked": seedPanicked, "same_across_calls_and_processes": same}
		if !panicked {
			info["indices"] = res
		}
		c.st.Info(info)
		c.st.Evaluations++
		if al := len(in.Addr) / 2; al > 32 && al%32 != 0 {
			c.st.Count("shuffle:address>32-bytes-not-multiple-of-32")
		}
		switch {
		case seedPanicked:
			c.st.Count("shuffle:panic(seed derivation)")
		case panicked:
			c.st.Count("shuffle:panic(negative argument)")
		case in.Threshold >= in.N:
			c.st.Count("shuffle:threshold>=n")
		case in.Threshold == 0:
			c.st.Count("shuffle:threshold=0")
		default:
			c.st.Count("shuffle:0<threshold<n")
			c.st.Nontriv(fmt.Sprintf("shuf/%s/%d/%d", in.Addr, in.Threshold, in.N))
			c.st.Sample(info)
		}
	}
	return nil
}
