// Package c09: DA verdicts and validator fault counts are per item, by distinct validators.
//
// The harness runs the real application (x/da keeper with the real staking and slashing
// keepers) and observes whole DA end blockers: the due items with their stored proofs, the
// bonded validator set in the keeper's own iteration order, the keeper's own zkp threshold
// and shard assignment (types.ShardIndicesForValidator), the fault and challenge counters
// before and after, the resulting statuses, and the Slash/Jail effects of the epoch end.
// Three streams: (1) states written through the keeper's exported setters on discarded
// cache contexts (volume, edge cases), (2) the same logical items tallied under several
// orders / groupings from one state, (3) one long history through the real message handlers
// with real Groth16 proofs and full FinalizeBlock/Commit blocks.
package c09

import (
	"fmt"

	"verifharness/emit"
)

const rule = "a DA end blocker is non-trivial when it tallied >= 2 items in one block with >= 2 stored proofs and at least one duplicate index in a stored proof or one out-of-range index (stored directly, or submitted and refused by the handler) in its round; distinct by (replication factor, active validators, multiset of item shapes with their proofs)"

func corpus(w *world) []struct {
	tag   string
	setup setupSpec
	items []itemSpec
} {
	all := func(n int) []int64 {
		out := make([]int64, n)
		for i := range out {
			out[i] = int64(i)
		}
		return out
	}
	type c = struct {
		tag   string
		setup setupSpec
		items []itemSpec
	}
	base := setupSpec{RF: "5", SFT: "0.5", Fraction: "0.001", FC: map[int]uint64{}}
	var out []c
	// (a) duplicate index: two validators each listing shard 0 twice reach the count 4 >= 3.33
	out = append(out, c{"corpus:duplicate-index", base, []itemSpec{{N: 1, Parity: 0, Due: true, Coll: true, Invs: [][]int64{{0}},
		Proofs: []proofSpec{{Val: 0, Indices: []int64{0, 0}}, {Val: 1, Indices: []int64{0, 0}}}}}})
	// (b) faults leak: item 0 leaves validator 4 at fault, item 1 is proven by everybody
	lk := base
	lk.RF = "3"
	var everybody []proofSpec
	for i := range w.vals {
		everybody = append(everybody, proofSpec{Val: i, Indices: all(2)})
	}
	// (written third = oldest timestamp = tallied first)
	out = append(out, c{"corpus:faults-leak", lk, []itemSpec{
		{N: 2, Parity: 0, Due: true, Coll: true, Invs: [][]int64{{1}}, Proofs: everybody},
		{N: 2, Parity: 0, Due: true, Coll: true, Invs: [][]int64{{1}}, Proofs: everybody},
		{N: 2, Parity: 0, Due: true, Coll: true, Invs: [][]int64{{0}}, Proofs: everybody[:len(everybody)-1]}}})
	// (c) rejected item without any invalidity record (challenge threshold 0): reward division by zero
	out = append(out, c{"corpus:zero-challengers", base, []itemSpec{{N: 3, Parity: 0, Due: true, Coll: true}}})
	// (d) a counter of an operator that is no longer a validator survives the epoch end
	st := base
	st.Epoch = true
	st.FC = map[int]uint64{91: 3, 1: 2}
	st.CC = 3
	out = append(out, c{"corpus:removed-validator-counter", st, nil})
	// (e) epoch end directly after a tally in the same block
	ep := base
	ep.Epoch = true
	ep.RF = "3"
	ep.SFT = "0.5"
	ep.CC = 3
	ep.FC = map[int]uint64{len(w.vals): 2, 1: 2}
	out = append(out, c{"corpus:tally-then-epoch", ep, []itemSpec{
		{N: 2, Parity: 0, Due: true, Coll: true, Invs: [][]int64{{0}}, Proofs: everybody[:len(everybody)-1]}}})
	return out
}

// Run generates n cases from seed and writes cases_*.v and stats.json into outDir.
func Run(seed int64, n int, outDir string) error {
	r := emit.NewRand(seed)
	st := emit.NewStats("C09", seed, rule)
	cf := &emit.CasesFile{Import: "Da.C09Check", Runner: "run", Type: "c09_case"}

	sizes := []int{4, 1, 2, 3, 6, 8}
	var worlds []*world
	for _, nv := range sizes {
		w := newWorld(nv)
		defer w.h.Close()
		worlds = append(worlds, w)
	}

	addBlock := func(b blockResult, tag string, refusedOOR bool) {
		b.Info["tag"] = tag
		cf.Add(b.Term)
		st.Info(b.Info)
		st.Evaluations++
		st.Count("block:" + tag)
		ni, np := len(b.Pre.Items), 0
		dup, oor := false, refusedOOR
		for _, it := range b.Pre.Items {
			np += len(it.Proofs)
			for _, pr := range it.Proofs {
				seen := map[int64]bool{}
				for _, x := range pr.Indices {
					if seen[x] {
						dup = true
					}
					seen[x] = true
					if x < 0 || x >= int64(it.N) {
						oor = true
					}
				}
			}
		}
		st.Count(fmt.Sprintf("items-tallied:%d", min(ni, 5)))
		if b.Pre.Epoch {
			st.Count("epoch-end")
		}
		if b.Obs.Panic {
			st.Count("panic")
		}
		for _, s := range b.Obs.Status {
			switch s {
			case stVerified:
				st.Count("verdict:verified")
			case stRejected:
				st.Count("verdict:rejected")
			default:
				st.Count("verdict:none")
			}
		}
		st.Hist["slashed"] += len(b.Obs.SlashEv)
		faults := 0
		for _, id := range b.Pre.IDs {
			if !b.Pre.Epoch && b.Obs.FC[id] > b.Pre.FC[id] {
				faults += int(b.Obs.FC[id] - b.Pre.FC[id])
			}
		}
		st.Hist["fault-increments"] += faults
		if dup {
			st.Count("with-duplicate-index")
		}
		if oor {
			st.Count("with-out-of-range-index")
		}
		if ni >= 2 && np >= 2 && (dup || oor) {
			st.Nontriv(shapeKey(b.Pre))
			st.Sample(b.Info)
		}
	}

	addQuery := func(q queryResult) {
		cf.Add(q.Term)
		st.Info(q.Info)
		st.Evaluations++
		st.Count("query")
	}

	// 1. corpus (regression witnesses of the repaired defects) on the 4-validator world
	for _, c := range corpus(worlds[0]) {
		res := worlds[0].directCase(c.setup, c.items)
		addBlock(res, c.tag, false)
	}

	// 2. the real message path: one long history on a 5-validator world
	wr := newWorldAccts(5, 8)
	defer wr.h.Close()
	rh, err := newRealHistory(wr, r)
	if err != nil {
		return err
	}
	realBlocks := n / 5
	// the first rounds are the fixed deputy histories (corpus), then random and directed rounds mixed
	fixed := []int{rndOwnAndDeputy, rndDeputyOnly, rndReRegister, rndOwnAndDeputy}
	for done, rnd := 0, 0; done < realBlocks; rnd++ {
		kind := rndRandom
		if rnd < len(fixed) {
			kind = fixed[rnd]
		} else if r.Chance(1, 3) {
			kind = emit.Pick(r, rndOwnAndDeputy, rndReRegister, rndDeputyOnly)
		}
		blocks, oor, err := rh.round(kind)
		if err != nil {
			return fmt.Errorf("real history: %w", err)
		}
		tag := "real"
		if kind != rndRandom {
			tag = "real-deputy"
		}
		for _, b := range blocks {
			addBlock(b, tag, oor)
			done++
		}
		for _, sb := range rh.subs {
			cf.Add(sb.coq())
			st.Info(map[string]any{"kind": "submit-validity-proof", "for_validator": sb.Val, "signed_by": sb.Via, "shards": sb.N, "indices": sb.Indices, "accepted": sb.Accepted, "error_class": sb.Err})
			st.Evaluations++
			st.Count("submission")
		}
		rh.subs = nil
		for _, q := range rh.queries {
			addQuery(q)
		}
		rh.queries = nil
	}
	for k, v := range rh.msgHist {
		st.Hist[k] += v
	}

	// 3. order / grouping experiments
	nOrder := n / 30
	for i := 0; i < nOrder; i++ {
		w := worlds[r.Intn(len(worlds))]
		if len(w.vals) == 1 && r.Bool() {
			w = worlds[0]
		}
		o := genOrder(r, w)
		for _, b := range o.Blocks {
			addBlock(b, "order", false)
		}
		cf.Add(o.Term)
		st.Info(o.Info)
		st.Evaluations++
		st.Count("order-experiment")
	}

	// 4. direct-write cases
	for i := 0; i < n/2; i++ {
		w := worlds[r.Intn(len(worlds))]
		res, _, _, _, _ := genDirect(r, w)
		addBlock(res, "direct", false)
		for _, q := range res.Query {
			addQuery(q)
		}
	}

	if _, err := cf.Write(outDir, "cases", 200); err != nil {
		return err
	}
	return st.Write(outDir)
}
