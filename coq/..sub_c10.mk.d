Stake/C10Check.vo Stake/C10Check.glob Stake/C10Check.v.beautified Stake/C10Check.required_vo: Stake/C10Check.v Base/Outcome.vo Base/Check.vo Stake/ApdDec.vo Stake/ShareClass.vo
Stake/C10Check.vio: Stake/C10Check.v Base/Outcome.vio Base/Check.vio Stake/ApdDec.vio Stake/ShareClass.vio
Stake/C10Check.vos Stake/C10Check.vok Stake/C10Check.required_vos: Stake/C10Check.v Base/Outcome.vos Base/Check.vos Stake/ApdDec.vos Stake/ShareClass.vos
