package c14

// Failing messages with several independent defects.
//
// For every custom message type with a repeated field that a module message server handles
// (x/da: PublishData, SubmitInvalidity, SubmitValidityProof; x/liquidityincentive: VoteGauge;
// x/liquiditypool: ClaimRewards; x/swap: SwapExactAmountIn / SwapExactAmountOut through their
// series / parallel routes) the generator builds messages whose repeated field carries two or
// more bad entries of DIFFERENT kinds, in random order. Which defect is reported (code and
// codespace enter the block's LastResultsHash) must be a function of state and message. Every
// such message is executed repeatK times in the same process on the same state (GOMAXPROCS > 1;
// cache contexts that are dropped), once more through the normal recorded path, and — when the
// sender has a key — once as a signed transaction through FinalizeBlock. All executions in all
// processes must give the same result (CRepeat case, monitor 6).

import (
	"bytes"
	"crypto/sha256"
	"encoding/hex"
	"fmt"
	"runtime"

	errorsmod "cosmossdk.io/errors"
	sdkmath "cosmossdk.io/math"
	storetypes "cosmossdk.io/store/types"
	groth16bn254 "github.com/consensys/gnark/backend/groth16/bn254"
	sdk "github.com/cosmos/cosmos-sdk/types"
	gogoproto "github.com/cosmos/gogoproto/proto"

	datypes "github.com/sunriselayer/sunrise/x/da/types"
	litypes "github.com/sunriselayer/sunrise/x/liquidityincentive/types"
	lptypes "github.com/sunriselayer/sunrise/x/liquiditypool/types"
	swaptypes "github.com/sunriselayer/sunrise/x/swap/types"

	"verifharness/apph"
)

const repeatK = 6

// an outcome is "<codespace>/<code> gas=<n>" + logSep + "<log text>": the first part is consensus
// relevant (enters LastResultsHash / decides the fee), the log text is not hashed by CometBFT
const logSep = " log="

type repeatObs struct {
	Kind     string   `json:"kind"`
	Arg      string   `json:"arg"`
	Outcomes []string `json:"outcomes"` // one per execution in this process
}

func init() {
	if runtime.GOMAXPROCS(0) < 4 {
		runtime.GOMAXPROCS(4)
	}
}

// outcomeOf: what a node would put into the transaction result for this error.
func outcomeOf(err error, gas uint64) string {
	if err == nil {
		return fmt.Sprintf("ok gas=%d", gas)
	}
	codespace, code, log := errorsmod.ABCIInfo(err, false)
	return fmt.Sprintf("%s/%d gas=%d%s%s", codespace, code, gas, logSep, log)
}

// execRepeat executes one message repeatK times on the committed state without keeping any
// write, then once through exec (recorded in the block digests).
func (w *world) execRepeat(kind, arg string, f func(ctx sdk.Context) (gogoproto.Message, error)) {
	ro := repeatObs{Kind: kind, Arg: arg}
	for i := 0; i < repeatK; i++ {
		ctx := w.h.Ctx().WithEventManager(sdk.NewEventManager()).WithGasMeter(storetypes.NewInfiniteGasMeter())
		cctx, _ := ctx.CacheContext()
		var err error
		func() {
			defer func() {
				if r := recover(); r != nil {
					err = fmt.Errorf("panic: %v", r)
				}
			}()
			_, err = f(cctx)
		}()
		ro.Outcomes = append(ro.Outcomes, outcomeOf(err, uint64(ctx.GasMeter().GasConsumed())))
	}
	w.out.Repeats = append(w.out.Repeats, ro)
	w.count("repeat:" + kind)
	w.exec(kind, arg, f)
}

func outcomeDigest(s string) string {
	h := sha256.Sum256([]byte(s))
	return hex.EncodeToString(h[:])
}

// queueTx signs msgs with the account's key and queues the transaction for the next block.
func (w *world) queueTx(kind, arg string, signer apph.Acct, msgs ...sdk.Msg) {
	bz, err := w.signTx(signer, msgs, sdk.NewCoins(sdk.NewInt64Coin(fee, 40000)), 2_000_000)
	op := opInfo{Kind: "tx-" + kind, Arg: arg}
	if err != nil {
		op.Err = "sign: " + err.Error()
	} else {
		w.txs = append(w.txs, bz)
	}
	w.ops = append(w.ops, op)
	w.count("op:tx-" + kind)
}

func (w *world) shuffleInts(n int) []int {
	p := make([]int, n)
	for i := range p {
		p[i] = i
	}
	for i := n - 1; i > 0; i-- {
		j := w.r.Intn(i + 1)
		p[i], p[j] = p[j], p[i]
	}
	return p
}

// wellFormedProof: bytes that decode as a groth16 proof (all points at infinity) and fail
// verification; built with gnark's own encoder.
func wellFormedProof() []byte {
	var p groth16bn254.Proof
	var buf bytes.Buffer
	if _, err := p.WriteTo(&buf); err != nil {
		panic(err)
	}
	return buf.Bytes()
}

// ---- x/da SubmitValidityProof: entries (index, proof) with defects of different kinds
func (w *world) multiValidityProof(it *daItem) {
	r := w.r
	wf := wellFormedProof()
	type entry struct {
		idx   int64
		proof []byte
		kind  string
	}
	mk := func(k int) entry {
		switch k {
		case 0:
			return entry{int64(it.n + r.Intn(5)), wf, "index-too-large"}
		case 1:
			return entry{int64(-1 - r.Intn(3)), wf, "index-negative"}
		case 2:
			return entry{int64(r.Intn(it.n)), wf[:len(wf)-1-r.Intn(len(wf)/2)], "proof-truncated"}
		case 3:
			return entry{int64(r.Intn(it.n)), nil, "proof-empty"}
		default:
			return entry{int64(r.Intn(it.n)), wf, "proof-does-not-verify"}
		}
	}
	kinds := w.shuffleInts(5)
	cnt := 2 + r.Intn(3)
	var es []entry
	for i := 0; i < cnt; i++ {
		es = append(es, mk(kinds[i]))
	}
	if r.Chance(1, 3) { // a repeat of one kind on top of the distinct ones
		es = append(es, mk(kinds[0]))
	}
	var idx []int64
	var proofs [][]byte
	var desc []string
	for _, e := range es {
		idx, proofs, desc = append(idx, e.idx), append(proofs, e.proof), append(desc, fmt.Sprintf("%s@%d", e.kind, e.idx))
	}
	v := r.Intn(len(w.vals))
	val := w.vals[v]
	arg := fmt.Sprintf("%s val %d %v", it.uri, v, desc)
	w.execRepeat("da-validity-proof-multidefect", arg, func(ctx sdk.Context) (gogoproto.Message, error) {
		return w.dam.SubmitValidityProof(ctx, &datypes.MsgSubmitValidityProof{Sender: val.Acc.String(), ValidatorAddress: val.Oper,
			MetadataUri: it.uri, Indices: idx, Proofs: proofs})
	})
	// the same through FinalizeBlock, signed by the validator's registered deputy
	if a, ok := w.deputies[v]; ok {
		w.queueTx("da-validity-proof-multidefect", arg, w.h.Accts[a], &datypes.MsgSubmitValidityProof{Sender: w.h.Accts[a].Addr.String(),
			ValidatorAddress: val.Oper, MetadataUri: it.uri, Indices: idx, Proofs: proofs})
	}
}

// ---- x/da SubmitInvalidity: several bad indices of different kinds
func (w *world) multiInvalidity(it *daItem) {
	r := w.r
	cands := []int64{int64(it.n + r.Intn(4)), int64(-1 - r.Intn(3)), int64(it.n), 1 << 40}
	p := w.shuffleInts(len(cands))
	var idx []int64
	for i := 0; i < 2+r.Intn(2); i++ {
		idx = append(idx, cands[p[i]])
	}
	if r.Bool() {
		idx = append(idx, idx[0]) // and a duplicate
	}
	a := 3 + r.Intn(4)
	arg := fmt.Sprintf("%s acct %d %v", it.uri, a, idx)
	msg := &datypes.MsgSubmitInvalidity{Sender: w.h.Accts[a].Addr.String(), MetadataUri: it.uri, Indices: idx}
	w.execRepeat("da-invalidity-multidefect", arg, func(ctx sdk.Context) (gogoproto.Message, error) {
		// a message that is accepted must not change the state the history continues on
		resp, err := w.dam.SubmitInvalidity(ctx, msg)
		if err == nil {
			return resp, fmt.Errorf("accepted (discarded by the harness): %v", idx)
		}
		return resp, err
	})
}

// ---- x/da PublishData: bad parity, existing uri, malformed hashes
func (w *world) multiPublish() {
	r := w.r
	n := 2 + r.Intn(4)
	hashes := make([][]byte, n)
	for i := range hashes {
		switch r.Intn(3) {
		case 0:
			hashes[i] = nil
		case 1:
			hashes[i] = []byte{1, 2, 3}
		default:
			s := sha256.Sum256([]byte{byte(i)})
			hashes[i] = s[:]
		}
	}
	uri := fmt.Sprintf("ipfs://verif-c14/%d", 1+r.Intn(w.daSeq+1)) // usually an existing item
	parity := uint64(n + r.Intn(3))                                  // >= number of shards
	a := 1 + r.Intn(2)
	arg := fmt.Sprintf("%s n=%d parity=%d acct %d", uri, n, parity, a)
	msg := &datypes.MsgPublishData{Sender: w.h.Accts[a].Addr.String(), MetadataUri: uri, ParityShardCount: parity, ShardDoubleHashes: hashes, DataSourceInfo: "verif"}
	w.execRepeat("da-publish-multidefect", arg, func(ctx sdk.Context) (gogoproto.Message, error) {
		return w.dam.PublishData(ctx, msg)
	})
	w.queueTx("da-publish-multidefect", arg, w.h.Accts[a], msg)
}

// ---- x/liquidityincentive VoteGauge: weights that do not parse, negative, unknown pool, sum > 1
func (w *world) multiVoteGauge() {
	r := w.r
	bad := []litypes.PoolWeight{
		{PoolId: w.pools[0], Weight: "abc"}, {PoolId: w.pools[1], Weight: "-0.25"}, {PoolId: 99, Weight: "0.1"},
		{PoolId: w.pools[2], Weight: "0.9"}, {PoolId: w.pools[0], Weight: "0.8"}, {PoolId: 98, Weight: ""},
		{PoolId: w.pools[1], Weight: "1e400"},
	}
	p := w.shuffleInts(len(bad))
	var pw []litypes.PoolWeight
	for i := 0; i < 2+r.Intn(3); i++ {
		pw = append(pw, bad[p[i]])
	}
	a := 1 + r.Intn(len(w.h.Accts)-1)
	arg := fmt.Sprintf("acct %d %v", a, pw)
	msg := &litypes.MsgVoteGauge{Sender: w.h.Accts[a].Addr.String(), PoolWeights: pw}
	w.execRepeat("vote-gauge-multidefect", arg, func(ctx sdk.Context) (gogoproto.Message, error) {
		resp, err := w.li.VoteGauge(ctx, msg)
		if err == nil {
			return resp, fmt.Errorf("accepted (discarded by the harness)")
		}
		return resp, err
	})
	w.queueTx("vote-gauge-multidefect", arg, w.h.Accts[a], msg)
}

// ---- x/liquiditypool ClaimRewards: positions of somebody else, positions that do not exist
func (w *world) multiClaim() {
	r := w.r
	a := 1 + r.Intn(len(w.h.Accts)-1)
	cands := []uint64{0, 1, 2, 9999, 1 << 50, uint64(3 + r.Intn(40))} // 0..2 belong to account 0
	p := w.shuffleInts(len(cands))
	var ids []uint64
	for i := 0; i < 2+r.Intn(3); i++ {
		ids = append(ids, cands[p[i]])
	}
	arg := fmt.Sprintf("acct %d %v", a, ids)
	msg := &lptypes.MsgClaimRewards{Sender: w.h.Accts[a].Addr.String(), PositionIds: ids}
	w.execRepeat("claim-rewards-multidefect", arg, func(ctx sdk.Context) (gogoproto.Message, error) {
		resp, err := w.lp.ClaimRewards(ctx, msg)
		if err == nil {
			return resp, fmt.Errorf("accepted (discarded by the harness)")
		}
		return resp, err
	})
	w.queueTx("claim-rewards-multidefect", arg, w.h.Accts[a], msg)
}

// ---- x/swap: series / parallel routes with several bad hops
func (w *world) multiSwap() {
	r := w.r
	a := 1 + r.Intn(len(w.h.Accts)-1)
	hop := func(in, out string, pool uint64) swaptypes.Route {
		return swaptypes.Route{DenomIn: in, DenomOut: out, Strategy: &swaptypes.Route_Pool{Pool: &swaptypes.RoutePool{PoolId: pool}}}
	}
	badHops := []swaptypes.Route{
		hop("uusdc", "uatom", 77),         // unknown pool
		hop("uosmo", "uusdc", w.pools[0]), // pool 0 is uusdc/uatom: denoms do not match
		hop("uatom", "uatom", w.pools[1]), // same denom in and out
		hop("", "uosmo", w.pools[2]),      // empty denom
	}
	p := w.shuffleInts(len(badHops))
	hops := []swaptypes.Route{badHops[p[0]], badHops[p[1]]}
	if r.Bool() {
		hops = append(hops, badHops[p[2]])
	}
	var route swaptypes.Route
	var shape string
	if r.Bool() {
		shape = "series"
		route = swaptypes.Route{DenomIn: hops[0].DenomIn, DenomOut: hops[len(hops)-1].DenomOut, Strategy: &swaptypes.Route_Series{Series: &swaptypes.RouteSeries{Routes: hops}}}
	} else {
		shape = "parallel"
		weights := []string{"0.5", "x"} // one weight too few for three hops, one that does not parse
		route = swaptypes.Route{DenomIn: "uusdc", DenomOut: "uatom", Strategy: &swaptypes.Route_Parallel{Parallel: &swaptypes.RouteParallel{Routes: hops, Weights: weights}}}
	}
	sender := w.h.Accts[a].Addr.String()
	arg := fmt.Sprintf("acct %d %s %v", a, shape, hops)
	if r.Bool() {
		msg := &swaptypes.MsgSwapExactAmountIn{Sender: sender, Route: route, AmountIn: sdkmath.NewInt(1000), MinAmountOut: sdkmath.OneInt()}
		w.execRepeat("swap-exact-in-multidefect", arg, func(ctx sdk.Context) (gogoproto.Message, error) {
			resp, err := w.sw.SwapExactAmountIn(ctx, msg)
			if err == nil {
				return resp, fmt.Errorf("accepted (discarded by the harness)")
			}
			return resp, err
		})
		w.queueTx("swap-exact-in-multidefect", arg, w.h.Accts[a], msg)
	} else {
		msg := &swaptypes.MsgSwapExactAmountOut{Sender: sender, Route: route, MaxAmountIn: sdkmath.NewInt(100000), AmountOut: sdkmath.NewInt(1000)}
		w.execRepeat("swap-exact-out-multidefect", arg, func(ctx sdk.Context) (gogoproto.Message, error) {
			resp, err := w.sw.SwapExactAmountOut(ctx, msg)
			if err == nil {
				return resp, fmt.Errorf("accepted (discarded by the harness)")
			}
			return resp, err
		})
		w.queueTx("swap-exact-out-multidefect", arg, w.h.Accts[a], msg)
	}
}

func (w *world) opMultiDefect() {
	switch w.r.Intn(4) {
	case 0:
		w.multiPublish()
	case 1:
		w.multiVoteGauge()
	case 2:
		w.multiClaim()
	default:
		w.multiSwap()
	}
}
