(* /repo app/gov/gov.go: the custom CalculateVoteResultsAndVotingPowerFn installed in the gov
   keeper (app.go: depinject.Provide(gov.ProvideCalculateVoteResultsAndVotingPowerFn)), next to
   the SDK's default function it replaces (x/gov keeper/tally.go).

   Vote options are keys 1..5 = Yes, Abstain, No, NoWithVeto, Spam (gov only stores votes whose
   options are valid, so no other key reaches the tally).

   [tally]       the function after the repair notes/patches/C16-gov-turnout.patch
   [tally_orig]  the function as it is at the pinned commit (three defects in the turnout
                 rescale, see GovTallyProofs.v *_refuted / *_div_zero / *_unbonded) *)
From Coq Require Import ZArith Bool List.
Import ListNotations.
From Sunrise Require Import Base.Outcome Base.Dec Stake.TallyCore.
Local Open Scope Z_scope.
Local Open Scope res_scope.

Definition gov_res0 : list (Z * Z) := [(1, 0); (2, 0); (3, 0); (4, 0); (5, 0)].   (* createEmptyResults *)
Definition opts_of (res : list (Z * Z)) : list Z := map (fun k => rget k res) [1; 2; 3; 4; 5].

(* ---- SDK default (reference) ---- *)
Definition std_tally (vals : list val) (bs : list ballot) : option (Z * list Z) :=
  let? (r) := core (map init_vi vals) gov_res0 bs in
  let '(tot, res, _) := r in
  Some (tot, opts_of res).

(* the votes as the reference graph sees them: the share-class account holds no delegation *)
Definition ref_ballots (sc : Z) (bs : list ballot) : list ballot :=
  map (fun b => if b_voter b =? sc then {| b_voter := b_voter b; b_w := b_w b; b_dels := [] |} else b) bs.

(* ---- sunrise ---- *)
(* gov.go:47-56 (repaired): deduct the share-class delegations from the validators of the map
   and add up the tokens behind them *)
Definition sc_step (st : list vinfo * Z) (d : Z * Z) : option (list vinfo * Z) :=
  let '(vis, nb) := st in
  let '(vid, sh) := d in
  match find_vi vid vis with
  | None => Some st
  | Some vi =>
      let? ded := dadd (vi_ded vi) sh in
      let? tk := power sh (vi_tok vi) (vi_sh vi) in
      let? nb' := dadd nb tk in
      Some (upd_vi (set_ded vi ded) vis, nb')
  end.
(* gov.go:47-56 (pinned commit): ... and add up the shares *)
Definition sc_step_orig (st : list vinfo * Z) (d : Z * Z) : option (list vinfo * Z) :=
  let '(vis, scvp) := st in
  let '(vid, sh) := d in
  match find_vi vid vis with
  | None => Some st
  | Some vi =>
      let? ded := dadd (vi_ded vi) sh in
      let? scvp' := dadd scvp sh in
      Some (upd_vi (set_ded vi ded) vis, scvp')
  end.

(* gov.go:74-79: votes of the share-class account are skipped (and removed) *)
Definition drop_sc (sc : Z) (bs : list ballot) : list ballot :=
  filter (fun b => negb (b_voter b =? sc)) bs.

(* everything before the rescale: (voted power, option totals, non-voting bonded tokens as Dec) *)
Definition tally_core (sc : Z) (vals : list val) (scdels : list (Z * Z)) (bs : list ballot)
  : option (Z * list Z * Z) :=
  let? (s0) := ofold sc_step scdels (map init_vi vals, 0) in
  let '(vis0, nb) := s0 in
  let? (r) := core vis0 gov_res0 (drop_sc sc bs) in
  let '(tot, res, _) := r in
  Some (tot, opts_of res, nb).

(* gov.go:147-166 repaired: votingBonded = Dec(totalBonded) - shareclassBonded;
   if positive, totalVP = totalVP.MulInt(totalBonded).Quo(votingBonded) *)
Definition rescale (voted bonded nb : Z) : option Z :=
  let? vb := dsub (bonded * P) nb in
  if 0 <? vb then (let? m := dmul_int voted bonded in dquo m vb) else Some voted.

Definition tally (sc : Z) (vals : list val) (scdels : list (Z * Z)) (bs : list ballot) (bonded : Z)
  : option (Z * list Z) :=
  let? (c) := tally_core sc vals scdels bs in
  let '(voted, opts, nb) := c in
  let? t := rescale voted bonded nb in
  Some (t, opts).

(* ---- the pinned commit ---- *)
(* gov.go:152-166: shareclassBonded = GetDelegatorBonded(shareclass) (an input here: staking's
   sum over ALL validators, bonded or not, of the truncated token value of the delegation,
   rounded to an integer), numerator = totalVP - shareclassVP (shares!), denominator =
   totalBonded - shareclassBonded *)
Definition rescale_orig (voted scvp bonded scbonded : Z) : option Z :=
  if bonded =? 0 then Some voted else
  let? num := dsub voted scvp in
  let? den := chk_int (bonded - scbonded) in
  let? num' := dmul_int num bonded in
  dquo num' (den * P).

Definition tally_orig (sc : Z) (vals : list val) (scdels : list (Z * Z)) (bs : list ballot)
  (bonded scbonded : Z) : option (Z * list Z) :=
  let? (s0) := ofold sc_step_orig scdels (map init_vi vals, 0) in
  let '(vis0, scvp) := s0 in
  let? (r) := core vis0 gov_res0 (drop_sc sc bs) in
  let '(tot, res, _) := r in
  let? t := rescale_orig tot scvp bonded scbonded in
  Some (t, opts_of res).

(* staking GetDelegatorBonded: every delegation whose validator exists (bonded or not),
   TokensFromSharesTruncated = shares.MulInt(tokens).QuoTruncate(delegatorShares), summed as Dec,
   RoundInt. Entries are (shares, validator tokens, validator shares). *)
Fixpoint delegator_bonded_dec (ds : list (Z * Z * Z)) (acc : Z) : option Z :=
  match ds with
  | [] => Some acc
  | (sh, tok, tsh) :: tl =>
      let? m := dmul_int sh tok in
      let? t := dquoT m tsh in
      let? acc' := dadd acc t in
      delegator_bonded_dec tl acc'
  end.
Definition delegator_bonded (ds : list (Z * Z * Z)) : option Z :=
  let? d := delegator_bonded_dec ds 0 in Some (dround_int d).
