(* C08 - DA collateral: accounting definitions over the projection of Da.v (no proofs here).
   Everything is per denom [d] (position in the coin vectors). *)
From Coq Require Import ZArith List Bool.
Import ListNotations.
From Sunrise Require Import Base.Outcome Base.Dec Base.Bank Da.Da.
Local Open Scope Z_scope.

(* amount of denom d in a coin vector whose first position is denom d0 *)
Fixpoint vat (v : list Z) (d0 d : Z) : Z :=
  match v with
  | [] => 0
  | x :: v' => (if d =? d0 then x else 0) + vat v' (d0 + 1) d
  end.
Definition amt (d : Z) (v : list Z) : Z := vat v 0 d.

Definition sumf {A} (h : A -> Z) (l : list A) : Z := fold_right (fun x acc => h x + acc) 0 l.

Definition unresolved (it : item) : bool := (i_status it =? ST_CP) || (i_status it =? ST_CH).
Definition n_invs (u : Z) (invs : list inval) : Z := Z.of_nat (length (invs_of u invs)).

(* collateral posted for one item and not yet paid out: the publisher's plus one invalidity
   collateral per recorded challenger *)
Definition posted (d : Z) (invs : list inval) (it : item) : Z :=
  amt d (i_pc it) + n_invs (i_uri it) invs * amt d (i_ic it).
Definition open_coll (d : Z) (s : dstate) : Z :=
  sumf (fun it => if unresolved it then posted d (s_invs s) it else 0) (s_items s).

(* what the module account holds beyond the open collateral (division dust, stuck amounts) *)
Definition excess (d : Z) (s : dstate) (b : bank) : Z := bal b MODULE d - open_coll d s.

(* an invalidity record whose collateral can no longer be paid out by any code path: its item is
   gone or already resolved *)
Definition orphan (items : list item) (v : inval) : bool :=
  match find_item (v_uri v) items with
  | Some it => negb (unresolved it)
  | None => true
  end.
Definition orphans (s : dstate) : list inval := filter (orphan (s_items s)) (s_invs s).

(* ---------- what a block end does to the money, item by item ---------- *)
(* the equal share of the publisher's collateral each of k challengers receives on rejection *)
Definition share (d : Z) (x : item) (k : Z) : Z := if k =? 0 then 0 else amt d (i_pc x) / k.
(* what is left in the module account after a rejected item x has been paid out *)
Definition dust (d : Z) (vd : verdict) (s : dstate) (x : item) : Z :=
  let k := n_invs (i_uri x) (s_invs s) in
  if rejected x (safe_of vd (s_prfs s) x) then amt d (i_pc x) - k * share d x k else 0.
(* x expires unchallenged (below the threshold) at the block end at [now] / is tallied at it *)
Definition expiring (s : dstate) (now : Z) (x : item) : bool :=
  due repaired ST_CP (pr_cp (s_prm s)) now x &&
  match reaches (pr_thr (s_prm s)) x (s_invs s) with Some false => true | _ => false end.
Definition tallied (s : dstate) (now : Z) (x : item) : bool := due repaired ST_CH (pr_pp (s_prm s)) now x.
(* invalidity collateral of challengers whose challenge stayed below the threshold *)
Definition stuck (d : Z) (s : dstate) (now : Z) : Z :=
  sumf (fun x => if expiring s now x then n_invs (i_uri x) (s_invs s) * amt d (i_ic x) else 0) (s_items s).
Definition dust_total (d : Z) (vd : verdict) (s : dstate) (now : Z) : Z :=
  sumf (fun x => if tallied s now x then dust d vd s x else 0) (s_items s).

(* ---------- triggers of the known findings ---------- *)
(* F1: an item in the challenge period expires at this block end with >= 1 invalidity record and
   without reaching the threshold: ChangeToVerifiedFromProofPeriod refunds only the publisher and
   leaves the records (and their collateral) behind for ever. *)
Definition trig_stuck_challengers (s : dstate) (now : Z) : bool :=
  existsb (fun it =>
    (i_status it =? ST_CP) && negb (now <? i_ts it + pr_cp (s_prm s)) &&
    match reaches (pr_thr (s_prm s)) it (s_invs s) with Some true => false | _ => true end &&
    negb (n_invs (i_uri it) (s_invs s) =? 0)) (s_items s).
(* F2: an item is rejected with no invalidity record at all (possible only with challenge
   threshold 0): there is nobody to pay the publish collateral to and it stays in the module. *)
Definition trig_reject_no_challenger (vd : verdict) (s : dstate) (now : Z) : bool :=
  existsb (fun it =>
    (i_status it =? ST_CH) && negb (now <? i_ts it + pr_pp (s_prm s)) &&
    (n_invs (i_uri it) (s_invs s) =? 0) && all_positive (i_pc it) &&
    rejected it (safe_of vd (s_prfs s) it)) (s_items s).

(* ---------- the documented payout rule, driven by the statuses the implementation produced --- *)
(* amount of denom d that account a receives for item x, which was unresolved before the block end
   and has status [st'] after it *)
Definition payout_spec (d : Z) (vd : verdict) (pre : dstate) (x : item) (st' : Z) (a : Z) : Z :=
  let vi := invs_of (i_uri x) (s_invs pre) in
  let k := Z.of_nat (length vi) in
  if st' =? ST_REJ then
    (* challengers refunded and rewarded with an equal share of the publisher's collateral *)
    fold_right (fun v acc => (if v_sender v =? a then amt d (i_ic x) + (if k =? 0 then 0 else amt d (i_pc x) / k) else 0) + acc) 0 vi
  else if st' =? ST_VER then
    if i_status x =? ST_CH then
      let safe := safe_of vd (s_prfs pre) x in
      (* right challengers refunded, wrong ones forfeit to the publisher *)
      fold_right (fun v acc => (if correct v safe
                                then (if v_sender v =? a then amt d (i_ic x) else 0)
                                else (if i_pub x =? a then amt d (i_ic x) else 0)) + acc) 0 vi
      + (if i_pub x =? a then amt d (i_pc x) else 0)
    else (if i_pub x =? a then amt d (i_pc x) else 0)      (* unchallenged expiry: publisher refunded *)
  else 0.
