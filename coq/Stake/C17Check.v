(* Correspondence + monitors for C17 (gauge voting, epochs, emission split). *)
From Coq Require Import ZArith List Bool.
Import ListNotations.
From Sunrise Require Export Base.Outcome Base.Dec Base.Check Stake.TallyCore Stake.Gauge.
Local Open Scope Z_scope.

Record vote_case := {
  vc_sender_ok : bool;                 (* the sender string is an address *)
  vc_pools : list Z;                   (* existing liquidity pools *)
  vc_pre : vstore;                     (* Votes collection before, sorted by voter *)
  vc_sender : Z;
  vc_weights : list (Z * option Z);    (* (pool id, weight parsed by LegacyNewDecFromStr) *)
  vc_obs : res unit;
  vc_post : vstore }.
Record tally_case := {
  tc_vals : list val; tc_ballots : list ballot; tc_bonded : Z;
  (* ghost quantities tracked by the harness from x/staking alone (not from the tally):
     per vote record (empty or not): its weights and the voter's own stake
     (Validator.TokensFromShares, raw Dec) at each bonded validator it delegates to;
     per bonded validator: the operator's recorded weights and its bonded tokens minus the stake of
     all its delegators that have any vote record *)
  tc_gh_voters : list (list (Z * Z) * list Z);
  tc_gh_vals : list (list (Z * Z) * Z);
  tc_obs : res (list (Z * Z)) }.
Record begin_case := {
  bc_balance : Z;                      (* fee collector, bond denom *)
  bc_last : option epoch;              (* GetLastEpoch *)
  bc_status : Z -> pool_status;
  bc_obs : res (list Z * Z) }.         (* received by each gauge's pool fee account; fee collector after *)
Record block_case := {
  kc_pre : istate; kc_balance : Z; kc_status : Z -> pool_status;
  kc_height : Z; kc_epoch_blocks : Z;
  kc_vals : list val; kc_ballots : list ballot; kc_bonded : Z;   (* staking graph and votes at the end of the block *)
  kc_gh_voters : list (list (Z * Z) * list Z);                  (* ghosts as in tally_case, end of the block *)
  kc_gh_vals : list (list (Z * Z) * Z);
  kc_created : list epoch;      (* ghost kept by the harness: the epochs seen to appear in the store, in
                                   creation order (the most recent ones), as stored when they appeared *)
  kc_obs : res (list Z * istate) }.
Inductive c17_case :=
| CVote (c : vote_case) | CTally (c : tally_case) | CBegin (c : begin_case) | CBlock (c : block_case).

(* ---- equality tests ---- *)
Fixpoint list_eqb {A} (eq : A -> A -> bool) (a b : list A) : bool :=
  match a, b with
  | [], [] => true
  | x :: a', y :: b' => eq x y && list_eqb eq a' b'
  | _, _ => false
  end.
Definition pair_eqb (a b : Z * Z) : bool := (fst a =? fst b) && (snd a =? snd b).
Definition vstore_eqb : vstore -> vstore -> bool :=
  list_eqb (fun a b => (fst a =? fst b) && list_eqb pair_eqb (snd a) (snd b)).
Definition gauge_eqb (a b : gauge) : bool :=
  (g_prev a =? g_prev b) && (g_pool a =? g_pool b) && (g_count a =? g_count b).
Definition epoch_eqb (a b : epoch) : bool :=
  (e_id a =? e_id b) && (e_start a =? e_start b) && (e_end a =? e_end b) && list_eqb gauge_eqb (e_gauges a) (e_gauges b).
Definition istate_eqb (a b : istate) : bool :=
  list_eqb epoch_eqb (s_epochs a) (s_epochs b) && list_eqb gauge_eqb (s_gauges a) (s_gauges b).

(* ---- correspondence ---- *)
Definition vote_corr (c : vote_case) : bool :=
  match vote_gauge (vc_sender_ok c) (vc_pools c) (vc_pre c) (vc_sender c) (vc_weights c), vc_obs c with
  | Ok s, Ok _ => vstore_eqb s (vc_post c)
  | Err e, Err e' => (e =? e') && vstore_eqb (vc_pre c) (vc_post c)
  | Panic, Panic => vstore_eqb (vc_pre c) (vc_post c)
  | _, _ => false
  end.
Definition tally_corr (c : tally_case) : bool :=
  match gauge_tally (tc_vals c) (tc_ballots c) (tc_bonded c), tc_obs c with
  | Some l, Ok l' => list_eqb pair_eqb l l'
  | None, Panic => true
  | _, _ => false
  end.
Definition begin_corr (c : begin_case) : bool :=
  match begin_block (bc_balance c) (bc_last c) (bc_status c), bc_obs c with
  | Some (ts, rem), Ok (ts', rem') => zlist_eqb ts ts' && (rem =? rem')
  | None, Panic => true
  | _, _ => false
  end.
Definition tally_res (vals : list val) (bs : list ballot) (bonded : Z) : res (list (Z * Z)) :=
  match gauge_tally vals bs bonded with Some l => Ok l | None => Panic end.
Definition block_corr (c : block_case) : bool :=
  match begin_block (kc_balance c) (last_epoch (s_epochs (kc_pre c))) (kc_status c),
        end_block (kc_pre c) (kc_height c) (kc_epoch_blocks c) (tally_res (kc_vals c) (kc_ballots c) (kc_bonded c)),
        kc_obs c with
  | Some (ts, _), Ok st, Ok (ts', st') => zlist_eqb ts ts' && istate_eqb st st'
  | None, _, Panic => true
  | _, Panic, Panic => true
  | _, _, _ => false
  end.

(* ---- monitors: the property statement on the observed values ---- *)
Definition zsum (l : list Z) : Z := fold_right Z.add 0 l.

(* 1 (tally): the gauge counts are non-negative and add up to at most the bonded tokens of the
     listed validators (the rounding terms of the theorem, one 10^-18 unit each, stay below a token) *)
Definition lenz {A} (l : list A) : Z := Z.of_nat (length l).
Definition maxw (bs : list ballot) : Z := fold_right (fun b a => Z.max (lenz (b_w b)) a) 0 bs.
Definition slack (vals : list val) (bs : list ballot) : Z :=
  fold_right (fun b a => lenz (b_dels b) * (1 + lenz (b_w b)) + a) 0 bs + lenz vals * (1 + maxw bs).
Definition mon_total_le_bonded (c : tally_case) : bool :=
  match tc_obs c with
  | Ok l =>
      if slack (tc_vals c) (tc_ballots c) <? P
      then (zsum (map snd l) <=? fold_right (fun v a => v_tok v + a) 0 (tc_vals c))
           && forallb (fun kv => 0 <=? snd kv) l
      else true
  | _ => true
  end.

(* 7 (tally / new epoch): a delegator's vote overrides its validator's for the delegator's own
     stake, every token counted once: the observed count of every pool equals
        sum over vote records  weight(pool) * own stake
      + sum over validators    weight(pool) * (bonded tokens - stake of its delegators with a vote record)
     truncated, up to the rounding slack (a few 10^-18 units per accumulated term; scale here:
     weight * stake, both raw Dec, so one token = 10^36). An empty vote contributes 0 and still
     overrides. *)
Definition wsum_k (k : Z) (w : list (Z * Z)) : Z :=
  fold_right (fun kv a => if fst kv =? k then snd kv + a else a) 0 w.
Definition gh_expected (k : Z) (voters : list (list (Z * Z) * list Z)) (vals : list (list (Z * Z) * Z)) : Z :=
  fold_right (fun v a => wsum_k k (fst v) * zsum (snd v) + a) 0 voters
  + fold_right (fun v a => wsum_k k (fst v) * snd v + a) 0 vals.
Definition gh_terms (voters : list (list (Z * Z) * list Z)) (vals : list (list (Z * Z) * Z)) : Z :=
  let nd := fold_right (fun v a => lenz (snd v) + a) 0 voters in
  fold_right (fun v a => (lenz (fst v) + 1) * (lenz (snd v) + 1) + a) 0 voters
  + fold_right (fun v a => (lenz (fst v) + 1) * (nd + 2) + a) 0 vals.
Definition gh_keys (l : list (Z * Z)) (voters : list (list (Z * Z) * list Z)) (vals : list (list (Z * Z) * Z)) : list Z :=
  map fst l ++ flat_map (fun v => map fst (fst v)) voters ++ flat_map (fun v => map fst (fst v)) vals.
Definition mon_override (bonded : Z) (l : list (Z * Z))
  (voters : list (list (Z * Z) * list Z)) (vals : list (list (Z * Z) * Z)) : bool :=
  if bonded =? 0 then true else
  let tol := 4 * P * gh_terms voters vals in
  forallb (fun k =>
    let c := rget k l in
    let e := gh_expected k voters vals in
    (c * P * P <=? e + tol) && (e - tol <? (c + 1) * P * P)) (gh_keys l voters vals).

(* 2 (vote): an accepted vote has non-negative weights summing to at most one and replaces only
     the sender's vote; a rejected one changes nothing *)
Definition weights_ok (w : list (Z * Z)) : bool :=
  forallb (fun kv => 0 <=? snd kv) w && (zsum (map snd w) <=? P).
Definition others_same (a : Z) (s s' : vstore) : bool :=
  forallb (fun kv => (fst kv =? a) ||
            match vget (fst kv) s' with Some w => list_eqb pair_eqb w (snd kv) | None => false end) s
  && forallb (fun kv => (fst kv =? a) ||
            match vget (fst kv) s with Some _ => true | None => false end) s'.
Definition mon_vote (c : vote_case) : bool :=
  match vc_obs c with
  | Ok _ =>
      match vget (vc_sender c) (vc_post c) with
      | Some w => weights_ok w && list_eqb pair_eqb w (weights_of (vc_weights c))
      | None => false
      end && others_same (vc_sender c) (vc_pre c) (vc_post c)
  | _ => vstore_eqb (vc_pre c) (vc_post c)
  end.
(* every stored vote keeps weights >= 0 with sum <= 1 *)
Definition mon_store_ok (c : vote_case) : bool :=
  forallb (fun kv => weights_ok (snd kv)) (vc_post c).

(* 3/4 (emission): nothing beyond the balance leaves the fee collector; a pool that can take an
   incentive receives floor(balance * weight) with weight within half a 10^-18 unit of count/total.
   Stated under the hypothesis of the theorem, balance * #gauges < 2 * 10^18 (the chain's supply
   cap is 10^15). *)
Definition gauges_of (last : option epoch) : list gauge :=
  match last with Some e => e_gauges e | None => [] end.
Definition count_sum (gs : list gauge) : Z := fold_right (fun g a => g_count g + a) 0 gs.
Definition small (balance : Z) (gs : list gauge) : bool := balance * Z.of_nat (length gs) <? 2 * P.

Definition mon_le_available (balance : Z) (ts : list Z) : bool :=
  (zsum ts <=? balance) && forallb (fun t => 0 <=? t) ts.

Fixpoint prop_ok (balance C : Z) (status : Z -> pool_status) (gs : list gauge) (ts : list Z) : bool :=
  match gs, ts with
  | [], [] => true
  | g :: gs', t :: ts' =>
      let c := g_count g in
      let upper := 2 * C * P * t <=? balance * (2 * c * P + C) in
      let lower := 2 * P * P * balance * c <? 2 * C * P * P * (t + 1) + C * balance * (P + 2) in
      (match status (g_pool g) with
       | PoolOk => upper && lower
       | _ => t =? 0
       end) && prop_ok balance C status gs' ts'
  | _, _ => false
  end.
Definition mon_proportional (balance : Z) (last : option epoch) (status : Z -> pool_status) (ts : list Z) : bool :=
  let gs := gauges_of last in
  let C := count_sum gs in
  if small balance gs && (0 <? C) then prop_ok balance C status gs ts else true.

(* trigger 1: rounded weights sum above one and the truncated allocations exceed the balance
   (needs balance * #gauges >= 2 * 10^18) *)
Definition trig_overshoot (balance : Z) (last : option epoch) : bool :=
  match last with
  | Some e =>
      match total_count (e_gauges e) 0 with
      | Some total =>
          if total =? 0 then false else
          match allocs balance total (e_gauges e) with
          | Some l => balance <? zsum l
          | None => false
          end
      | None => false
      end
  | None => false
  end.

(* 5 (block): epochs are created with the next id at or after the end of the previous one, at
   most two are kept and they are consecutive *)
Definition epochs_shape (es : list epoch) : bool :=
  match es with
  | [] => true
  | [e] => true
  | [e1; e2] => (e_id e2 =? e_id e1 + 1) && (e_end e1 <=? e_start e2)
  | _ => false
  end.
Fixpoint last2 {A} (l : list A) : list A :=
  match l with
  | _ :: ((_ :: _ :: _) as tl) => last2 tl
  | _ => l
  end.
(* the stored epochs are exactly the two most recent created ones (ghost list), each with its
   gauge records, and nothing else *)
Definition mon_epoch_store (c : block_case) : bool :=
  match kc_obs c with
  | Ok (_, st') =>
      let keep := last2 (kc_created c) in
      list_eqb epoch_eqb (s_epochs st') keep &&
      list_eqb gauge_eqb (s_gauges st') (flat_map e_gauges keep)
  | _ => true
  end.
Definition mon_epochs (c : block_case) : bool :=
  match kc_obs c with
  | Ok (_, st') =>
      let pre := s_epochs (kc_pre c) in
      let post := s_epochs st' in
      epochs_shape post &&
      match last_epoch pre, last_epoch post with
      | _, None => match pre with [] => true | _ => false end
      | None, Some e => (e_id e =? 1) && (e_start e =? kc_height c)
      | Some a, Some e =>
          (epoch_eqb a e && list_eqb epoch_eqb pre post)   (* nothing created: nothing may change *)
          || ((e_id e =? e_id a + 1) && (e_start e =? kc_height c) && (e_end a <=? kc_height c) &&
              (e_end e =? kc_height c + kc_epoch_blocks c) &&
              (* the previous last epoch is the other one kept *)
              match post with [a'; _] => epoch_eqb a a' | _ => false end)
      end &&
      (* every gauge of a kept epoch is stored under (previous epoch id, pool) and vice versa *)
      list_eqb gauge_eqb (s_gauges st') (flat_map e_gauges post) &&
      forallb (fun e => forallb (fun g => g_prev g =? e_id e - 1) (e_gauges e)) post
  | _ => true
  end.

(* trigger 2: the block (or BeginBlocker) panicked exactly where the pinned commit's
   AllocateIncentive divides by a zero in-range liquidity *)
Definition trig_zero_liq {A} (balance : Z) (last : option epoch) (status : Z -> pool_status) (obs : res A) : bool :=
  match obs, begin_block_orig balance last status, begin_block balance last status with
  | Panic, None, Some _ => true
  | _, _, _ => false
  end.

Definition c17_check (c : c17_case) : list Z :=
  match c with
  | CVote c => flag 0 (vote_corr c) ++ flag 2 (mon_vote c) ++ flag 6 (mon_store_ok c)
  | CTally c => flag 0 (tally_corr c) ++ flag 1 (mon_total_le_bonded c) ++
      match tc_obs c with
      | Ok l => flag 7 (mon_override (tc_bonded c) l (tc_gh_voters c) (tc_gh_vals c))
      | _ => []
      end
  | CBegin c =>
      flag 0 (begin_corr c) ++
      match bc_obs c with
      | Ok (ts, rem) =>
          flag 3 (mon_le_available (bc_balance c) ts && (rem =? bc_balance c - zsum ts)) ++
          flag 4 (mon_proportional (bc_balance c) (bc_last c) (bc_status c) ts)
      | _ => []
      end ++ flag 101 (negb (trig_overshoot (bc_balance c) (bc_last c)))
      ++ flag 102 (negb (trig_zero_liq (bc_balance c) (bc_last c) (bc_status c) (bc_obs c)))
  | CBlock c =>
      flag 0 (block_corr c) ++
      match kc_obs c with
      | Ok (ts, _) =>
          flag 3 (mon_le_available (kc_balance c) ts) ++
          flag 4 (mon_proportional (kc_balance c) (last_epoch (s_epochs (kc_pre c))) (kc_status c) ts)
      | _ => []
      end ++ flag 5 (mon_epochs c && mon_epoch_store c) ++
      (* the gauges of an epoch created in this block, against the ghosts *)
      match kc_obs c with
      | Ok (_, st') =>
          match last_epoch (s_epochs st'), last_epoch (s_epochs (kc_pre c)) with
          | Some e, prev =>
              if match prev with Some a => e_id a =? e_id e | None => false end then []
              else flag 7 (mon_override (kc_bonded c) (map (fun g => (g_pool g, g_count g)) (e_gauges e))
                                        (kc_gh_voters c) (kc_gh_vals c))
          | None, _ => []
          end
      | _ => []
      end ++
      flag 101 (negb (trig_overshoot (kc_balance c) (last_epoch (s_epochs (kc_pre c))))) ++
      flag 102 (negb (trig_zero_liq (kc_balance c) (last_epoch (s_epochs (kc_pre c))) (kc_status c) (kc_obs c)))
  end.

Definition run := run_cases c17_check.
