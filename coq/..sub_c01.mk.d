Sys/Loops.vo Sys/Loops.glob Sys/Loops.v.beautified Sys/Loops.required_vo: Sys/Loops.v Base/Outcome.vo Base/Dec.vo Amm/Math.vo Amm/Pool.vo
Sys/Loops.vio: Sys/Loops.v Base/Outcome.vio Base/Dec.vio Amm/Math.vio Amm/Pool.vio
Sys/Loops.vos Sys/Loops.vok Sys/Loops.required_vos: Sys/Loops.v Base/Outcome.vos Base/Dec.vos Amm/Math.vos Amm/Pool.vos
Sys/LoopsProofs.vo Sys/LoopsProofs.glob Sys/LoopsProofs.v.beautified Sys/LoopsProofs.required_vo: Sys/LoopsProofs.v Base/Outcome.vo Base/Dec.vo Base/DecLemmas.vo Amm/Math.vo Amm/Pool.vo Sys/Loops.vo
Sys/LoopsProofs.vio: Sys/LoopsProofs.v Base/Outcome.vio Base/Dec.vio Base/DecLemmas.vio Amm/Math.vio Amm/Pool.vio Sys/Loops.vio
Sys/LoopsProofs.vos Sys/LoopsProofs.vok Sys/LoopsProofs.required_vos: Sys/LoopsProofs.v Base/Outcome.vos Base/Dec.vos Base/DecLemmas.vos Amm/Math.vos Amm/Pool.vos Sys/Loops.vos
