package c02

// Exact-amount-OUT swaps have their own loop (computeInAmtGivenOut) and share the fee transfer with
// exact-in swaps (updatePoolForSwap).  Two things only they, or only many of them, exercise:
//   - a fee-paying step FOLLOWED by a tick crossing inside one exact-out swap: the fee growth of the
//     swap so far is written into the crossed tick, under the input denom, and is what the positions
//     bounded by that tick later claim from;
//   - the fee part of every swap's input is rounded up into the fee account; claims are truncated:
//     after many small swaps with fractional fees the fee account must still cover everybody's claim.

import (
	"fmt"
	"math/big"

	sdk "github.com/cosmos/cosmos-sdk/types"

	"verifharness/amm"
)

func (r *runner) claimOf(ctx sdk.Context, p amm.PoolInfo, lo, up int64, tag string) {
	if q, ok := r.findPos(ctx, p, lo, up); ok {
		r.commit(ctx, p, amm.Op{Kind: "claim", Sender: r.ownerIndex(q.Address), Pids: []uint64{q.Id}, Tag: tag})
	}
}

func (r *runner) scenarioExactOut(ctx sdk.Context, maxOrders int) error {
	p, err := r.w.CreatePool("uosmo", "uusdc", "0.01", "1.0001", "0")
	if err != nil {
		return err
	}
	r.commit(ctx, p, create(0, -300, 300, bi("10000000"), bi("10000000"), "exact-out/wide"))
	r.commit(ctx, p, create(1, -80, 40, bi("3000000"), bi("3000000"), "exact-out/A"))
	r.commit(ctx, p, create(2, 40, 120, bi("2000000"), bi("0"), "exact-out/B"))
	r.commit(ctx, p, create(2, -160, -80, bi("0"), bi("2000000"), "exact-out/C"))
	// many small exact-out swaps at a 1 % fee: every fee has a fractional part
	for i := 0; i < 8; i++ {
		r.commit(ctx, p, swapOp(3, false, i%2, big.NewInt(int64(12345+1111*i)), "exact-out/small-fractional-fee"))
	}
	to := func(target int64, what string) error {
		if !r.swapToBucket(ctx, p, target, false, fmt.Sprintf("exact-out/to-%d-%s", target, what)) {
			r.st.Count("scenario-step-skipped:exact-out") // the attempt itself was recorded as a case
		}
		return nil
	}
	// up: a fee-paying step inside A's range, then across tick 40 (A.upper = B.lower)
	if err := to(60, "crossing-40-after-a-fee-step"); err != nil {
		return err
	}
	r.claimOf(ctx, p, -80, 40, "exact-out/claim-A-after-crossing-its-upper")
	r.claimOf(ctx, p, 40, 120, "exact-out/claim-B-after-crossing-its-lower")
	if err := to(150, "crossing-120"); err != nil {
		return err
	}
	// down: three initialised ticks in one swap, fee-paying steps between the crossings
	if err := to(-100, "crossing-120-40-and-minus-80"); err != nil {
		return err
	}
	r.claimOf(ctx, p, -80, 40, "exact-out/claim-A-after-crossing-both-bounds")
	r.claimOf(ctx, p, 40, 120, "exact-out/claim-B-after-crossing-both-bounds")
	r.claimOf(ctx, p, -160, -80, "exact-out/claim-C-after-crossing-its-upper")
	// up again across two ticks
	if err := to(60, "crossing-minus-80-and-40"); err != nil {
		return err
	}
	r.claimAll(ctx, p, "exact-out/claim")
	r.drainPool(ctx, p, 3, maxOrders, "exact-out")
	return nil
}

// crossingExactOut (generator bias): an exact-out swap that ends a few ticks beyond a bound of a random
// position (so that the bound is crossed after at least one fee-paying step when the price was not
// already on it), then that position's owner claims.
func (r *runner) crossingExactOut(ctx sdk.Context, p amm.PoolInfo) bool {
	poss := r.w.C02Positions(ctx, p)
	if len(poss) == 0 {
		return false
	}
	q := poss[r.w.R.Intn(len(poss))]
	cur := r.curTick(ctx, p)
	var target int64
	switch {
	case q.UpperTick > cur+1 && r.w.R.Bool():
		target = q.UpperTick + 2
	case q.LowerTick < cur-1:
		target = q.LowerTick - 3
	case q.UpperTick > cur+1:
		target = q.UpperTick + 2
	default:
		return false
	}
	if !r.swapToBucket(ctx, p, target, false, fmt.Sprintf("exact-out-across-bound/%d", target)) {
		return false
	}
	r.st.Count("exact-out-across-a-bound")
	r.commit(ctx, p, amm.Op{Kind: "claim", Sender: r.ownerIndex(q.Address), Pids: []uint64{q.Id}, Tag: "claim-after-exact-out-crossing"})
	return true
}
