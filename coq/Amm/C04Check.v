(* C04: correspondence with the real module + monitors for the liquidity bookkeeping. *)
From Coq Require Import ZArith List Bool.
Import ListNotations.
From Sunrise Require Export Amm.AmmCheck Amm.LiqDefs.
Local Open Scope Z_scope.

(* clause (3): the current price lies in the price interval of the current tick, bounds included
   (only when the pool has positions) *)
Definition price_in_tick_b (s : amm) : bool :=
  match a_positions s with
  | [] => true
  | _ =>
    let p := a_pool s in
    match tick_to_sqrt_price (p_tick p) (p_tp p), tick_to_sqrt_price (p_tick p + 1) (p_tp p) with
    | Ok lo, Ok hi => (lo <=? p_sqrt p) && (p_sqrt p <=? hi)
    | _, _ => false
    end
  end.

(* "a pool whose last position is removed is fully reset": nothing of the pool's cursor survives *)
Definition reset_b (s : amm) : bool :=
  match a_positions s with
  | [] => (p_tick (a_pool s) =? 0) && (p_sqrt (a_pool s) =? 0) && (p_liq (a_pool s) =? 0) && (a_acc_shares s =? 0)
  | _ => true
  end.
Definition ticks_absent_b (s : amm) : bool :=
  match a_positions s with [] => match a_ticks s with [] => true | _ => false end | _ => true end.

Definition c04_check (c : amm_case) : list Z :=
  flag 0 (corr c) ++ (if undecided c then [150] else []) ++
  flag 1 (liq_inv_b (c_post c)) ++      (* clauses (1) (2) (4) (5) on the implementation's state *)
  flag 2 (price_in_tick_b (c_post c)) ++
  flag 3 (reset_b (c_post c) && ticks_absent_b (c_post c)) ++
  flag 4 (liq_inv_b (c_pre c)).

Definition run := run_cases c04_check.
