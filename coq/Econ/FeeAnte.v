(* x/fee: the fee ante decorator (x/fee/ante/fee.go, validator_tx_fee.go) and the burn
   keeper method (x/fee/keeper/keeper_burn.go) over the ledger of Base/Bank.v.

   Denoms are integers chosen by the harness so that integer order = byte order of the
   denom strings (sdk.Coins validity and the sorted look-ups depend on that order);
   [bad] lists the denoms that fail sdk.ValidateDenom.  Accounts are integers.
   Oracles (read from the running application, never modelled): the feegrant keeper's
   UseGrantedFees verdict, the bank ledger of Base/Bank.v. *)
From Coq Require Import ZArith List Bool.
Import ListNotations.
From Sunrise Require Import Base.Outcome Base.Dec Base.Bank.
Local Open Scope Z_scope.

Definition coin := (Z * Z)%type.          (* denom, amount *)
Definition coins := list coin.

(* sdk error codes (codespace "sdk"); E_INTERNAL = an unregistered error (ABCI code 1) *)
Definition E_INTERNAL : Z := 1.
Definition E_INSUFFICIENT_FUNDS : Z := 5.
Definition E_INVALID_COINS : Z := 10.
Definition E_INSUFFICIENT_FEE : Z := 13.
Definition E_INVALID_GAS : Z := 41.

(* cosmossdk.io/core/transaction.ExecMode *)
Inductive exec_mode :=
| MCheck | MReCheck | MSimulate | MPrepare | MProcess | MVoteExt | MVerifyVoteExt | MFinalize.
Definition is_check (m : exec_mode) : bool := match m with MCheck => true | _ => false end.
Definition is_sim (m : exec_mode) : bool := match m with MSimulate => true | _ => false end.

Definition MAX_I64 : Z := 2 ^ 63 - 1.
Definition is_int64 (x : Z) : bool := (- 2 ^ 63 <=? x) && (x <=? MAX_I64).
(* Go's int64(gas) on a uint64 *)
Definition int64_of_uint64 (g : Z) : Z := if g <? 2 ^ 63 then g else g - 2 ^ 64.

Definition valid_denom (bad : list Z) (d : Z) : bool := negb (existsb (Z.eqb d) bad).

(* Coins.AmountOfNoDenomValidation on a sorted duplicate-free set (first match) *)
Fixpoint find_amt (cs : coins) (d : Z) : Z :=
  match cs with
  | [] => 0
  | (d', a) :: tl => if d' =? d then a else find_amt tl d
  end.
(* total declared under a denom (= find_amt on duplicate-free sets) *)
Fixpoint amount_of (cs : coins) (d : Z) : Z :=
  match cs with
  | [] => 0
  | (d', a) :: tl => (if d' =? d then a else 0) + amount_of tl d
  end.

(* Coins.IsZero / DecCoins.IsZero: no coins, or every amount zero *)
Definition all_zero (cs : coins) : bool := forallb (fun c => snd c =? 0) cs.

(* Coins.Validate: valid denoms, strictly increasing, strictly positive *)
Fixpoint coins_valid_from (bad : list Z) (low : Z) (cs : coins) : bool :=
  match cs with
  | [] => true
  | (d, a) :: tl => valid_denom bad d && (low <? d) && (0 <? a) && coins_valid_from bad d tl
  end.
Definition coins_valid (bad : list Z) (cs : coins) : bool :=
  match cs with
  | [] => true
  | (d, a) :: tl => valid_denom bad d && (0 <? a) && coins_valid_from bad d tl
  end.

Record ante_in := {
  ai_mode : exec_mode;
  ai_height : Z;                 (* HeaderInfo.Height *)
  ai_gas : Z;                    (* feeTx.GetGas(), a uint64 *)
  ai_fee : coins;                (* feeTx.GetFee() *)
  ai_mgp : coins;                (* ctx.MinGasPrices(): denom, raw LegacyDec; sorted *)
  ai_params : option (Z * list Z);   (* fee params: fee denom, bypass denoms; None = not set *)
  ai_bad : list Z;               (* denoms failing sdk.ValidateDenom *)
  ai_payer : Z;
  ai_granter : option Z;
  ai_allow : res unit;           (* feegrant UseGrantedFees(granter, payer, fee, msgs): accepted / error class / panic (oracle) *)
  ai_collector : Z }.

(* requiredFees[i] = sdk.NewCoin(gp.Denom, gp.Amount.Mul(glDec).Ceil().TruncateInt()) *)
Definition required_fee (bad : list Z) (gl : Z) (gp : coin) : res coin :=
  match dmul (snd gp) (dec_of_int gl) with
  | None => Panic
  | Some f =>
    match dceil f with
    | None => Panic
    | Some c =>
      match chk_int (dtrunc_int c) with
      | None => Panic
      | Some n => if valid_denom bad (fst gp) && (0 <=? n) then Ok (fst gp, n) else Panic
      end
    end
  end.
Fixpoint required_fees (bad : list Z) (gl : Z) (mgp : coins) : res coins :=
  match mgp with
  | [] => Ok []
  | gp :: tl =>
    rbind (required_fee bad gl gp) (fun c => rbind (required_fees bad gl tl) (fun r => Ok (c :: r)))
  end.

(* feeCoins.IsAnyGTE(required): AmountOf panics on an invalid denom *)
Fixpoint any_gte_loop (bad : list Z) (fee req : coins) : res bool :=
  match fee with
  | [] => Ok false
  | (d, a) :: tl =>
    if valid_denom bad d then
      let amt := find_amt req d in
      if (amt <=? a) && negb (amt =? 0) then Ok true else any_gte_loop bad tl req
    else Panic
  end.
Definition is_any_gte (bad : list Z) (fee req : coins) : res bool :=
  match req with [] => Ok false | _ => any_gte_loop bad fee req end.

(* getTxPriority: Int.QuoRaw(gas) panics on a zero divisor *)
Fixpoint prio_loop (fee : coins) (gas prio : Z) : res Z :=
  match fee with
  | [] => Ok prio
  | (_, a) :: tl =>
    if gas =? 0 then Panic else
    let gp := Z.quot a gas in
    let p := if is_int64 gp then gp else MAX_I64 in
    prio_loop tl gas (if (prio =? 0) || (p <? prio) then p else prio)
  end.

(* the sunrise denom filter (check mode, height > 0) *)
Definition denom_filter (i : ante_in) : res unit :=
  if 0 <? ai_height i then
    match ai_fee i with
    | [(d, _)] =>
      match ai_params i with
      | None => Err E_INTERNAL
      | Some (fd, byp) => if (d =? fd) || existsb (Z.eqb d) byp then Ok tt else Err E_INVALID_COINS
      end
    | _ => Err E_INVALID_COINS
    end
  else Ok tt.

Definition min_price_check (i : ante_in) : res unit :=
  if all_zero (ai_mgp i) then Ok tt else
  rbind (required_fees (ai_bad i) (int64_of_uint64 (ai_gas i)) (ai_mgp i)) (fun req =>
  rbind (is_any_gte (ai_bad i) (ai_fee i) req) (fun ok =>
  if ok then Ok tt else Err E_INSUFFICIENT_FEE)).

(* checkTxFeeWithValidatorMinGasPrices: effective fee and priority *)
Definition check_fee (i : ante_in) : res (coins * Z) :=
  rbind (if is_check (ai_mode i)
         then rbind (denom_filter i) (fun _ => min_price_check i)
         else Ok tt) (fun _ =>
  rbind (prio_loop (ai_fee i) (int64_of_uint64 (ai_gas i)) 0) (fun p => Ok (ai_fee i, p))).

(* innerValidateTx up to the fee decision *)
Definition ante_decide (i : ante_in) : res (coins * Z) :=
  if negb (is_sim (ai_mode i)) && (0 <? ai_height i) && (ai_gas i =? 0) then Err E_INVALID_GAS
  else if is_sim (ai_mode i) then Ok (ai_fee i, 0)
  else check_fee i.

(* checkDeductFee: who pays *)
Definition deduct_from (i : ante_in) : res Z :=
  match ai_granter i with
  | None => Ok (ai_payer i)
  | Some g =>
    if g =? ai_payer i then Ok g
    else match ai_allow i with Ok _ => Ok g | Err e => Err e | Panic => Panic end
  end.

(* bank SendCoins of a valid coin set: coin by coin *)
Fixpoint send_coins (b : bank) (from to : Z) (cs : coins) : res bank :=
  match cs with
  | [] => Ok b
  | (d, a) :: tl => rbind (bank_send b from to d a) (fun b' => send_coins b' from to tl)
  end.

(* DeductFees *)
Definition deduct_fees (i : ante_in) (src : Z) (fee : coins) (b : bank) : res bank :=
  if all_zero fee then Ok b
  else if negb (coins_valid (ai_bad i) fee) then Err E_INSUFFICIENT_FEE
  else match send_coins b src (ai_collector i) fee with
       | Ok b' => Ok b'
       | Err _ => Err E_INTERNAL      (* fmt.Errorf("failed to deduct fees: %w"): the bank's code 5 is lost *)
       | Panic => Panic
       end.

(* the decorator, under baseapp's cache-context semantics: result = priority handed on *)
Definition ante_body (i : ante_in) (b : bank) : res (bank * Z) :=
  rbind (ante_decide i) (fun fp =>
  rbind (deduct_from i) (fun src =>
  rbind (deduct_fees i src (fst fp) b) (fun b' => Ok (b', snd fp)))).
Definition ante_tx (i : ante_in) (b : bank) : bank * res Z := tx (ante_body i) b.

(* ---------------------------------------------------------------- Keeper.Burn *)
(* Not transactional at keeper level: the state reached so far is returned with the verdict. *)
Fixpoint burn_loop (fd ratio collector feemod : Z) (fees : coins) (b : bank) : bank * res unit :=
  match fees with
  | [] => (b, Ok tt)
  | (d, a) :: tl =>
    if negb (d =? fd) then burn_loop fd ratio collector feemod tl b else
    match dmul_int ratio a with
    | None => (b, Panic)                                   (* LegacyDec range assertion *)
    | Some m =>
      match chk_int (dtrunc_int m) with
      | None => (b, Panic)
      | Some n =>
        if n =? 0 then burn_loop fd ratio collector feemod tl b
        else if n <? 0 then (b, Panic)                     (* sdk.NewCoin on a negative amount *)
        else match bank_send b collector feemod d n with
             | Ok b1 =>
               match bank_burn b1 feemod d n with
               | Ok b2 => burn_loop fd ratio collector feemod tl b2
               | Err e => (b1, Err e)
               | Panic => (b1, Panic)
               end
             | Err _ => (b, Err E_INSUFFICIENT_FUNDS)
             | Panic => (b, Panic)
             end
      end
    end
  end.
