package c06

import (
	"math/big"
	"strings"

	sdk "github.com/cosmos/cosmos-sdk/types"

	lptypes "github.com/sunriselayer/sunrise/x/liquiditypool/types"

	"verifharness/amm"
)

func bi(x int64) *big.Int { return big.NewInt(x) }

func pow10(n int) *big.Int { return new(big.Int).Exp(big.NewInt(10), big.NewInt(int64(n)), nil) }

// width of a "narrow" range on this pool's tick grid (a few percent of price)
func narrow(p amm.PoolInfo) int64 {
	// the model's price->tick search is linear in |tick| and slow under vm_compute: keep ticks small
	switch p.Ratio {
	case "1.0001":
		return 60
	case "1.001":
		return 30
	default:
		return 3
	}
}

// corpus: a fixed history on the coarse-grid pool exercising every clause once: overlapping and
// out-of-range positions, swaps crossing initialised ticks both ways between claims, a claim
// repeated, an allocation in the incentive-only denoms, a position created after trades.
func (r *run) corpus(ctx sdk.Context) error {
	p := r.w.Pools[2]
	z := bi(0)
	mk := func(s int, lo, up int64, b, q int64, tag string) amm.Op {
		return amm.Op{Kind: "create", Sender: s, Lower: lo, Upper: up, Base: bi(b), Quote: bi(q), MinBase: z, MinQuote: z, Tag: "corpus/" + tag}
	}
	sw := func(s int, exactIn bool, din int, amt int64, tag string) amm.Op {
		return amm.Op{Kind: "swap", Sender: s, ExactIn: exactIn, DenomIn: din, Amount: bi(amt), Tag: "corpus/" + tag}
	}
	swX := func(s int, exactIn bool, din int, tag string) amm.Op { // amount fixed when the case runs
		return amm.Op{Kind: "swap", Sender: s, ExactIn: exactIn, DenomIn: din, Amount: bi(1_000_000), Tag: "corpus/cross/" + tag}
	}
	cl := func(s int, tag string, ids ...uint64) amm.Op {
		return amm.Op{Kind: "claim", Sender: s, Pids: ids, Tag: "corpus/" + tag}
	}
	// a position whose bounds are given relative to the tick the pool will be at when it is created
	mkCur := func(s int, dlo, dup int64, tag string) amm.Op {
		return amm.Op{Kind: "create", Sender: s, Lower: dlo, Upper: dup, Base: bi(700_000_000), Quote: bi(700_000_000), MinBase: z, MinQuote: z, Tag: "corpus/cur/" + tag}
	}
	first := r.nextID(ctx)
	a, b, c, d := first, first+1, first+2, first+3
	ops := []amm.Op{
		mk(0, -10, 10, 1_000_000_000, 1_000_000_000, "A-wide"),
		mk(1, 2, 6, 1_000_000_000, 1_000_000_000, "B-above"),
		mk(2, -6, -3, 1_000_000_000, 1_000_000_000, "C-below"),
		sw(0, true, 1, 600_000_000, "up-across-B"),
		cl(0, "claim-A", a),
		cl(0, "claim-A-again", a),
		sw(1, true, 0, 1_500_000_000, "down-across-B-and-C"),
		{Kind: "allocate", Sender: 3, Coins: []*big.Int{bi(0), bi(7), bi(1_000_003), bi(999)}, Tag: "corpus/allocate-incentive-denoms"},
		cl(1, "claim-B", b),
		cl(2, "claim-C-twice-in-one-message", c, c),
		mk(1, -8, -1, 500_000_000, 500_000_000, "D-after-trades"),
		cl(1, "claim-D-new", d),
		sw(2, false, 1, 300_000_000, "exact-out-up"),
		{Kind: "decrease", Sender: 1, Pid: b, Liq: bi(1), Tag: "corpus/decrease-B-1ulp"},
		cl(1, "claim-B-D", d, b),
		sw(0, true, 1, 2_000_000_000, "up-across-everything"),
		cl(2, "claim-C", c),
		cl(0, "claim-A", a),
		// ranges with a bound exactly on the current tick, created after fees have accrued
		mkCur(2, -4, 0, "E-upper-on-current"),
		mkCur(1, 0, 5, "F-lower-on-current"),
		sw(1, true, 0, 40_000_000, "small-down"),
		sw(1, true, 1, 90_000_000, "small-up"),
		cl(2, "claim-E", d+1),
		cl(1, "claim-F", d+2),
		// swaps that cross exactly one initialised tick - a bound of some of the positions above -
		// and stop just beyond it, exact-out and exact-in, both directions; the positions inside and
		// beyond the tick then claim
		swX(0, false, 1, "exact-out-up"),
		cl(1, "claim-B-D-F", b, d, d+2),
		swX(1, false, 0, "exact-out-down"),
		cl(0, "claim-A", a),
		swX(2, false, 0, "exact-out-down-again"),
		cl(2, "claim-C-E", c, d+1),
		swX(0, true, 1, "exact-in-up"),
		swX(1, true, 0, "exact-in-down"),
		cl(1, "claim-B-D-F", d+2, d, b),
		cl(0, "claim-A", a),
		cl(0, "claim-not-owner", b),
		// an allocation made the way BeginBlock makes it (no transaction around the keeper call)
		// whose bank send fails (the sender does not hold the coins): nothing may be accrued
		{Kind: "allocate", Sender: 3, Coins: []*big.Int{bi(0), new(big.Int).Mul(pow10(36), bi(5)), bi(0), bi(0)}, Tag: "direct/allocate-send-fails"},
		cl(0, "claim-A-after-failed-allocation", a),
		{Kind: "claim", Sender: 0, Pids: []uint64{}, Tag: "corpus/claim-empty"},
	}
	r.runCorpus(ctx, p, ops)
	r.corpusGaps(ctx)
	r.corpusZeroFee(ctx)
	r.corpusBaselines(ctx)
	r.corpusDeep(ctx)
	return nil
}

// runCorpus executes scripted operations; amounts / ticks that depend on the state reached are fixed
// when the case runs (tags corpus/cross/, corpus/land/, corpus/cur/).
func (r *run) runCorpus(ctx sdk.Context, p amm.PoolInfo, ops []amm.Op) {
	gh := r.gh[p.ID]
	for _, o := range ops {
		if strings.HasPrefix(o.Tag, "corpus/cross/") {
			if a := r.crossAmount(ctx, p, o.Sender, o.ExactIn, o.DenomIn); a != nil {
				o.Amount = a
			}
		}
		if strings.HasPrefix(o.Tag, "corpus/to/") { // o.Lower carries the tick to stop in
			if a := r.reachAmount(ctx, p, o.Sender, o.ExactIn, o.DenomIn, o.Lower); a != nil {
				o.Amount = a
			}
		}
		if strings.HasPrefix(o.Tag, "corpus/land/") {
			if a := r.landAmount(ctx, p, o.Sender, o.DenomIn); a != nil {
				o.Amount = a
			}
		}
		if o.Kind == "decrease" && strings.Contains(o.Tag, "withdraw") { // the whole liquidity, whatever it is by now
			for _, q := range r.w.PositionsSorted(ctx, p) {
				if q.Id == o.Pid {
					o.Liq = amm.Raw(q.Liquidity)
				}
			}
		}
		if strings.HasPrefix(o.Tag, "corpus/cur/") {
			pool, _, _ := r.w.K.GetPool(ctx, p.ID)
			o.Lower += pool.CurrentTick
			o.Upper += pool.CurrentTick
		}
		r.doCase(ctx, p, o, gh, false)
	}
}

// corpusGaps: swaps whose FIRST step reaches a position's bound before any fee has been charged,
// after earlier trades have produced global fee growth: (a) the price rests in a gap without
// liquidity (the only in-range position was withdrawn while disjoint positions remain), (b) the price
// rests exactly on an initialised tick (the previous swap ended there).  The position entered then
// claims: it must not inherit growth of trades made while it was out of range.
func (r *run) corpusGaps(ctx sdk.Context) {
	p := r.w.Pools[1]
	z := bi(0)
	mk := func(s int, lo, up int64, tag string) amm.Op {
		return amm.Op{Kind: "create", Sender: s, Lower: lo, Upper: up, Base: bi(1_000_000_000), Quote: bi(1_000_000_000), MinBase: z, MinQuote: z, Tag: "corpus/gap/" + tag}
	}
	swX := func(s int, exactIn bool, din int, tag string) amm.Op {
		return amm.Op{Kind: "swap", Sender: s, ExactIn: exactIn, DenomIn: din, Amount: bi(1_000_000), Tag: "corpus/cross/gap/" + tag}
	}
	land := func(s int, din int, tag string) amm.Op {
		return amm.Op{Kind: "swap", Sender: s, ExactIn: true, DenomIn: din, Amount: bi(1_000_000), Tag: "corpus/land/" + tag}
	}
	cl := func(s int, tag string, ids ...uint64) amm.Op {
		return amm.Op{Kind: "claim", Sender: s, Pids: ids, Tag: "corpus/gap/" + tag}
	}
	first := r.nextID(ctx)
	a, v, b := first, first+1, first+2
	r.runCorpus(ctx, p, []amm.Op{
		mk(0, -10, 10, "A-middle"),
		mk(1, -200, -100, "V-below-disjoint"),
		mk(2, 100, 200, "B-above-disjoint"),
		swX(0, true, 0, "down-out-of-A-through-the-gap-into-V"),
		swX(1, true, 1, "up-out-of-V-through-the-gap-into-A"),
		cl(0, "claim-A", a),
		{Kind: "decrease", Sender: 0, Pid: a, Liq: bi(0), Tag: "corpus/gap/withdraw-A-leaving-a-gap"},
		swX(2, false, 1, "exact-out-up-from-the-gap-into-B"),
		cl(2, "claim-B-just-entered", b),
		cl(1, "claim-V", v),
		swX(0, true, 1, "up-inside-B"),
		land(1, 0, "down-onto-lower-tick-of-B"),
		swX(2, true, 1, "exact-in-up-from-the-resting-tick-into-B"),
		cl(2, "claim-B-entered-from-resting-tick", b),
		land(1, 0, "down-onto-lower-tick-of-B-again"),
		swX(0, false, 0, "exact-out-down-from-the-resting-tick-through-the-gap-into-V"),
		cl(1, "claim-V-entered-from-the-gap", v),
		cl(2, "claim-B", b),
	})
}

// corpusZeroFee: (c) a pool with fee rate 0 that only receives incentives: every tick is crossed
// without the swap having accrued any fee growth.
func (r *run) corpusZeroFee(ctx sdk.Context) {
	p := r.w.Pools[3]
	z := bi(0)
	mk := func(s int, lo, up int64, tag string) amm.Op {
		return amm.Op{Kind: "create", Sender: s, Lower: lo, Upper: up, Base: bi(1_000_000_000), Quote: bi(1_000_000_000), MinBase: z, MinQuote: z, Tag: "corpus/zerofee/" + tag}
	}
	swX := func(s int, exactIn bool, din int, tag string) amm.Op {
		return amm.Op{Kind: "swap", Sender: s, ExactIn: exactIn, DenomIn: din, Amount: bi(1_000_000), Tag: "corpus/cross/zerofee/" + tag}
	}
	al := func(c0, c1, c2, c3 int64) amm.Op {
		return amm.Op{Kind: "allocate", Sender: 3, Coins: []*big.Int{bi(c0), bi(c1), bi(c2), bi(c3)}, Tag: "corpus/zerofee/allocate"}
	}
	cl := func(s int, tag string, ids ...uint64) amm.Op {
		return amm.Op{Kind: "claim", Sender: s, Pids: ids, Tag: "corpus/zerofee/" + tag}
	}
	first := r.nextID(ctx)
	pp, q := first, first+1
	r.runCorpus(ctx, p, []amm.Op{
		mk(0, -10, 10, "P-in-range"),
		mk(1, 10, 30, "Q-adjacent-above"),
		al(500_000, 700_000, 1_000_003, 999),
		swX(2, true, 1, "up-across-10-into-Q"),
		cl(1, "claim-Q-just-entered", q),
		al(300_000, 0, 77, 5_000_000),
		swX(2, false, 0, "exact-out-down-across-10-into-P"),
		cl(0, "claim-P", pp),
		cl(1, "claim-Q", q),
	})
}

// crossAmount sizes a swap so that it crosses exactly the nearest initialised tick in its direction
// and stops just beyond it (the step that reaches the tick and the step after it are both real
// trade steps, with different in-range liquidity when a position ends or starts at that tick).
// The amount is found by bisection on discarded cache contexts of the real keeper. nil if there is
// no such tick or no amount does it.
func (r *run) crossAmount(ctx sdk.Context, p amm.PoolInfo, sender int, exactIn bool, din int) *big.Int {
	pool, _, _ := r.w.K.GetPool(ctx, p.ID)
	cur := pool.CurrentTick
	var next int64
	found := false
	for _, t := range r.w.K.GetAllInitializedTicksForPool(ctx, p.ID) {
		if din == 1 { // price up: smallest initialised tick above the cursor
			if t.TickIndex > cur && (!found || t.TickIndex < next) {
				next, found = t.TickIndex, true
			}
		} else if t.TickIndex <= cur && (!found || t.TickIndex > next) { // price down: largest one at or below it
			next, found = t.TickIndex, true
		}
	}
	if !found {
		return nil
	}
	crossed := func(a *big.Int) (ok, did bool) {
		c, _ := ctx.CacheContext()
		if _, err := r.w.Exec(c, p, amm.Op{Kind: "swap", Sender: sender, ExactIn: exactIn, DenomIn: din, Amount: a}); err != nil {
			return false, false
		}
		q, _, _ := r.w.K.GetPool(c, p.ID)
		if din == 1 {
			return true, q.CurrentTick >= next
		}
		return true, q.CurrentTick < next
	}
	// grow until the tick is crossed or, after some amount has worked, the swap stops working (too
	// much for the liquidity there is); tiny amounts fail with a zero result: grow through them
	lo, hi := bi(0), bi(1000)
	seenOK := false
	for i := 0; ; i++ {
		ok, did := crossed(hi)
		if (ok && did) || (!ok && seenOK) {
			break
		}
		if i > 130 {
			return nil
		}
		if ok {
			seenOK = true
			lo = new(big.Int).Set(hi)
		}
		hi = new(big.Int).Mul(hi, bi(2))
	}
	for i := 0; i < 300 && new(big.Int).Sub(hi, lo).Cmp(bi(1)) > 0; i++ {
		mid := new(big.Int).Rsh(new(big.Int).Add(lo, hi), 1)
		if ok, did := crossed(mid); !ok || did {
			hi = mid
		} else {
			lo = mid
		}
	}
	if ok, did := crossed(hi); !ok || !did {
		return nil
	}
	// a little beyond the tick: +2 % of the amount that just reaches it (at least 1000 units)
	extra := new(big.Int).Div(hi, bi(50))
	if extra.Cmp(bi(1000)) < 0 {
		extra = bi(1000)
	}
	amt := new(big.Int).Add(hi, extra)
	if ok, _ := crossed(amt); !ok {
		return nil
	}
	return amt
}

// reachAmount sizes a swap so that it moves the price into tick `target` (up: first amount with
// tick >= target, down: first amount with tick <= target, found by bisection on discarded cache
// contexts of the real keeper) plus 1 %, i.e. it stops inside that tick. nil if no amount does it.
func (r *run) reachAmount(ctx sdk.Context, p amm.PoolInfo, sender int, exactIn bool, din int, target int64) *big.Int {
	reached := func(a *big.Int) (ok, did bool) {
		c, _ := ctx.CacheContext()
		if _, err := r.w.Exec(c, p, amm.Op{Kind: "swap", Sender: sender, ExactIn: exactIn, DenomIn: din, Amount: a}); err != nil {
			return false, false
		}
		q, _, _ := r.w.K.GetPool(c, p.ID)
		if din == 1 {
			return true, q.CurrentTick >= target
		}
		return true, q.CurrentTick <= target
	}
	// grow until the target is reached or, after some amount has worked, the swap stops working (too
	// much for the liquidity there is); tiny amounts fail with a zero result: grow through them
	lo, hi := bi(0), bi(1000)
	seenOK := false
	for i := 0; ; i++ {
		ok, did := reached(hi)
		if (ok && did) || (!ok && seenOK) {
			break
		}
		if i > 130 {
			return nil
		}
		if ok {
			seenOK = true
			lo = new(big.Int).Set(hi)
		}
		hi = new(big.Int).Mul(hi, bi(2))
	}
	for i := 0; i < 300 && new(big.Int).Sub(hi, lo).Cmp(bi(1)) > 0; i++ {
		mid := new(big.Int).Rsh(new(big.Int).Add(lo, hi), 1)
		if ok, did := reached(mid); !ok || did {
			hi = mid
		} else {
			lo = mid
		}
	}
	if ok, did := reached(hi); !ok || !did {
		return nil
	}
	amt := new(big.Int).Add(hi, new(big.Int).Div(hi, bi(100)))
	if ok, _ := reached(amt); !ok {
		return hi
	}
	return amt
}

// roundingSensitive: an allocation whose exact growth per unit of liquidity, coins / L, has a fraction
// of frac/100 of the 18th decimal (k whole units of it before): truncation and any other rounding of
// that quotient differ by a whole unit of growth, i.e. by about L * 1e-18 coins claimable.  Needs deep
// liquidity (L of the order of 1e18 or more); nil when the pool is too shallow for such an amount.
func roundingSensitive(liqRaw *big.Int, k, frac int64) *big.Int {
	// coins = floor(L * (k + frac/100) * 1e-18), L = liqRaw * 1e-18
	n := new(big.Int).Mul(liqRaw, bi(100*k+frac))
	n.Div(n, pow10(38))
	if n.Sign() <= 0 {
		return nil
	}
	return n
}

// restingTick: does the pool's price sit exactly on the price of an initialisable tick next to the cursor?
func (r *run) restingTick(ctx sdk.Context, p amm.PoolInfo) (int64, bool) {
	pool, _, _ := r.w.K.GetPool(ctx, p.ID)
	if pool.CurrentSqrtPrice == "" {
		return 0, false
	}
	tp := lptypes.TickParams{PriceRatio: p.Ratio, BaseOffset: p.Offset}
	for _, t := range []int64{pool.CurrentTick + 1, pool.CurrentTick} {
		if sp, err := lptypes.TickToSqrtPrice(t, tp); err == nil && sp.String() == pool.CurrentSqrtPrice {
			return t, true
		}
	}
	return 0, false
}

// landAmount: an exact-in amount with which a swap ends exactly on the nearest initialised tick in
// its direction (the amount the keeper itself computes for crossing one tick, or a neighbour of it).
func (r *run) landAmount(ctx sdk.Context, p amm.PoolInfo, sender, din int) (amt *big.Int) {
	defer func() {
		if recover() != nil {
			amt = nil
		}
	}()
	maxIn, _, err := r.w.K.ComputeMaxInAmtGivenMaxTicksCrossed(ctx, p.ID, p.Denoms[din], 1)
	if err != nil || !maxIn.Amount.IsPositive() {
		return nil
	}
	for _, d := range []int64{0, 1, -1, 2, 3} {
		a := new(big.Int).Add(maxIn.Amount.BigInt(), bi(d))
		if a.Sign() <= 0 {
			continue
		}
		c, _ := ctx.CacheContext()
		if _, err := r.w.Exec(c, p, amm.Op{Kind: "swap", Sender: sender, ExactIn: true, DenomIn: din, Amount: a}); err != nil {
			continue
		}
		if _, ok := r.restingTick(c, p); ok {
			return a
		}
	}
	return nil
}

func (r *run) nextID(ctx sdk.Context) uint64 {
	n, err := r.w.K.GetPositionCount(ctx)
	if err != nil {
		panic(err)
	}
	return n
}

// genOp: one operation for pool p from the current state, biased towards what C06 is about:
// positions with overlapping narrow ranges near the price, swaps sized against the pool's
// reserves so that they cross initialised ticks (with a drifting direction, so both ways),
// claims in varying orders, incentive allocations (also in denoms 2 and 3).
func (r *run) genOp(ctx sdk.Context, p amm.PoolInfo) amm.Op {
	w := r.w
	rd := w.R
	pool, _, _ := w.K.GetPool(ctx, p.ID)
	poss := w.PositionsSorted(ctx, p)
	cur := pool.CurrentTick
	nw := narrow(p)
	z := bi(0)
	sender := rd.Intn(3)
	amount := func() *big.Int { // 10^6 .. 10^13
		x := new(big.Int).Mul(bi(int64(1+rd.Intn(9999))), pow10(3+rd.Intn(8)))
		return x
	}
	if len(poss) == 0 {
		base := amount()
		if rd.Chance(1, 4) { // deep: 18-decimals-token scale
			base = new(big.Int).Mul(bi(int64(1+rd.Intn(9999))), pow10(18+rd.Intn(6)))
		}
		quote := new(big.Int).Div(new(big.Int).Mul(base, bi(int64(70+rd.Intn(61)))), bi(100))
		if quote.Sign() == 0 {
			quote.SetInt64(1)
		}
		return amm.Op{Kind: "create", Sender: sender, Lower: -nw * int64(2+rd.Intn(4)), Upper: nw * int64(2+rd.Intn(4)), Base: base, Quote: quote, MinBase: z, MinQuote: z, Tag: "first"}
	}
	pick := func() lptypes.Position { return poss[rd.Intn(len(poss))] }
	sized := func(exactIn bool, din int) *big.Int { // cross the nearest tick, else 5 % of the reserves
		if a := r.crossAmount(ctx, p, sender, exactIn, din); a != nil {
			return a
		}
		res := w.BalInts(ctx, p, lptypes.NewPoolAddress(p.ID))
		a := new(big.Int).Div(res[1-din], bi(20))
		if exactIn && res[din].Sign() > 0 {
			a = new(big.Int).Div(res[din], bi(20))
		}
		if a.Sign() == 0 {
			a = bi(1000)
		}
		return a
	}
	// follow-ups planned by the previous step on this pool
	if plan := r.plan[p.ID]; plan != "" {
		delete(r.plan, p.ID)
		switch plan {
		case "reverse-0", "reverse-1": // the price rests exactly on a tick: trade back across it
			if _, ok := r.restingTick(ctx, p); ok {
				din := int(plan[len(plan)-1] - '0')
				exactIn := rd.Bool()
				r.plan[p.ID] = "claim-around"
				return amm.Op{Kind: "swap", Sender: sender, ExactIn: exactIn, DenomIn: din, Amount: sized(exactIn, din), Tag: "swap/from-resting-tick"}
			}
		case "claim-in-range": // after an allocation: the in-range positions of one owner claim
			var ids []uint64
			owner := -1
			for _, o := range poss {
				if o.LowerTick <= cur && cur < o.UpperTick && (owner < 0 || w.UserIndex(o.Address) == owner) && len(ids) < 3 {
					owner = w.UserIndex(o.Address)
					ids = append(ids, o.Id)
				}
			}
			if len(ids) > 0 {
				return amm.Op{Kind: "claim", Sender: owner, Pids: ids, Tag: "claim/after-allocation"}
			}
		case "claim-around": // the positions bounded by / next to the price claim
			q := pick()
			for _, o := range poss {
				if o.LowerTick <= cur+1 && cur-1 <= o.UpperTick && rd.Bool() {
					q = o
				}
			}
			return amm.Op{Kind: "claim", Sender: w.UserIndex(q.Address), Pids: []uint64{q.Id}, Tag: "claim/after-entering"}
		}
	}
	// the price rests in a gap without liquidity (positions exist, none in range): trade out of it, so the
	// first step of the swap reaches a position's bound without having charged any fee
	if amm.Raw(pool.CurrentTickLiquidity).Sign() == 0 && rd.Chance(3, 4) {
		din := rd.Intn(2)
		exactIn := rd.Bool()
		r.plan[p.ID] = "claim-around"
		return amm.Op{Kind: "swap", Sender: sender, ExactIn: exactIn, DenomIn: din, Amount: sized(exactIn, din), Tag: "swap/from-gap"}
	}
	// exactly one position in range and others beside it: now and then withdraw it, leaving a gap
	if len(poss) >= 2 && rd.Chance(1, 12) {
		var in []lptypes.Position
		for _, o := range poss {
			if o.LowerTick <= cur && cur < o.UpperTick {
				in = append(in, o)
			}
		}
		if len(in) == 1 {
			return amm.Op{Kind: "decrease", Sender: w.UserIndex(in[0].Address), Pid: in[0].Id, Liq: amm.Raw(in[0].Liquidity), Tag: "decrease-all/leaves-gap"}
		}
	}
	k := rd.Intn(100)
	if len(poss) < 3 && k >= 40 && rd.Bool() {
		k = 0 // get a few overlapping positions first
	}
	switch {
	case k < 15: // create
		a := int64(1 + rd.Intn(int(nw)))
		b := int64(1 + rd.Intn(int(nw)))
		var lo, up int64
		tag := ""
		switch rd.Intn(9) {
		case 0:
			lo, up, tag = cur+a, cur+a+b, "above"
		case 1:
			lo, up, tag = cur-a-b, cur-a, "below"
		case 2:
			q := pick()
			if rd.Bool() {
				lo, up, tag = q.UpperTick, q.UpperTick+b, "adjacent-above"
			} else {
				lo, up, tag = q.LowerTick-b, q.LowerTick, "adjacent-below"
			}
		case 3:
			q := pick()
			lo, up, tag = q.LowerTick, q.UpperTick, "same-range"
		case 4:
			if rd.Bool() {
				lo, up, tag = cur, cur+b, "lower-on-current"
			} else {
				lo, up, tag = cur-a, cur, "upper-on-current"
			}
		case 5:
			q := pick()
			lo, up, tag = q.LowerTick+(q.UpperTick-q.LowerTick)/3, q.UpperTick, "shares-upper"
			if lo >= up {
				lo = q.LowerTick
			}
		case 6:
			if rd.Chance(2, 3) {
				// a range that ends or starts exactly at the nearest initialised tick above / below the
				// price: crossing that tick changes who is in range
				var above, below int64
				ha, hb := false, false
				for _, t := range w.K.GetAllInitializedTicksForPool(ctx, p.ID) {
					if t.TickIndex > cur && (!ha || t.TickIndex < above) {
						above, ha = t.TickIndex, true
					}
					if t.TickIndex <= cur && (!hb || t.TickIndex > below) {
						below, hb = t.TickIndex, true
					}
				}
				switch {
				case ha && rd.Bool():
					if rd.Bool() {
						lo, up, tag = cur-a, above, "ends-at-next-above"
					} else {
						lo, up, tag = above, above+b, "starts-at-next-above"
					}
				case hb && below-a < below:
					if rd.Bool() {
						lo, up, tag = below, cur+b, "starts-at-next-below"
					} else {
						lo, up, tag = below-a, below, "ends-at-next-below"
					}
				default:
					lo, up, tag = cur-a, cur, "upper-on-current"
				}
			} else if rd.Bool() {
				lo, up, tag = cur-a, cur, "upper-on-current"
			} else {
				lo, up, tag = cur-a*4, cur+b*4, "wide"
			}
		default:
			lo, up, tag = cur-a, cur+b, "around"
		}
		return amm.Op{Kind: "create", Sender: sender, Lower: lo, Upper: up, Base: amount(), Quote: amount(), MinBase: z, MinQuote: z, Tag: tag}
	case k < 52: // swap sized against the pool's reserves
		if rd.Chance(1, 5) {
			r.drift[p.ID] = 1 - r.drift[p.ID]
		}
		din := r.drift[p.ID]
		if rd.Chance(1, 4) {
			din = 1 - din
		}
		exactIn := rd.Chance(3, 5)
		res := w.BalInts(ctx, p, lptypes.NewPoolAddress(p.ID))
		pct := []int64{1, 2, 5, 10, 20, 35, 60, 120}[rd.Intn(8)]
		var amt *big.Int
		tag := "swap"
		if exactIn {
			amt = new(big.Int).Div(new(big.Int).Mul(res[din], bi(pct)), bi(100))
			if res[din].Sign() == 0 { // the pool holds none of the input side: size against the other side
				amt = new(big.Int).Div(new(big.Int).Mul(res[1-din], bi(pct)), bi(100))
			}
		} else {
			if pct > 60 {
				pct = 60
			}
			amt = new(big.Int).Div(new(big.Int).Mul(res[1-din], bi(pct)), bi(100))
			tag = "swap-exact-out"
		}
		switch rd.Intn(14) {
		case 0:
			amt, tag = bi(1), tag+"/1"
		case 1:
			amt, tag = bi(int64(2+rd.Intn(2000))), tag+"/small"
		case 7, 8: // end exactly on the nearest initialised tick; the next step on this pool trades back across it
			if a := r.landAmount(ctx, p, sender, din); a != nil {
				r.plan[p.ID] = []string{"reverse-1", "reverse-0"}[din]
				return amm.Op{Kind: "swap", Sender: sender, ExactIn: true, DenomIn: din, Amount: a, Tag: "swap/to-tick"}
			}
		case 2, 3, 4, 5, 6: // cross exactly the nearest initialised tick and stop just beyond it
			if a := r.crossAmount(ctx, p, sender, exactIn, din); a != nil {
				amt, tag = a, tag+"/cross-one"
			}
		}
		if amt.Sign() == 0 {
			amt = bi(1)
		}
		return amm.Op{Kind: "swap", Sender: sender, ExactIn: exactIn, DenomIn: din, Amount: amt, Tag: tag}
	case k < 72: // claim: some of one owner's positions, in a random order
		q := pick()
		owner := w.UserIndex(q.Address)
		ids := []uint64{q.Id}
		for _, o := range poss {
			if o.Id != q.Id && w.UserIndex(o.Address) == owner && rd.Bool() && len(ids) < 4 {
				ids = append(ids, o.Id)
			}
		}
		for i := len(ids) - 1; i > 0; i-- {
			j := rd.Intn(i + 1)
			ids[i], ids[j] = ids[j], ids[i]
		}
		s, tag := owner, "claim"
		switch rd.Intn(16) {
		case 0:
			s, tag = (owner+1)%3, "claim/not-owner"
		case 1:
			ids, tag = append(ids, 999999), "claim/unknown-id"
		case 2:
			ids, tag = append(ids, ids[0]), "claim/same-id-twice"
		case 3:
			ids, tag = []uint64{}, "claim/empty"
		}
		return amm.Op{Kind: "claim", Sender: s, Pids: ids, Tag: tag}
	case k < 83: // allocate incentive
		cs := make([]*big.Int, 4)
		for i := range cs {
			cs[i] = bi(0)
			if rd.Chance(3, 5) {
				cs[i] = rd.LogUniform(14)
			}
		}
		if rd.Chance(1, 10) {
			cs = []*big.Int{bi(0), bi(0), bi(1), bi(0)}
		}
		tag := "allocate"
		if rd.Bool() { // deep pool: amounts on which the rounding of coins / liquidity matters
			liq := amm.Raw(pool.CurrentTickLiquidity)
			hit := false
			for i := range cs {
				if a := roundingSensitive(liq, int64(rd.Intn(3)), []int64{50, 51, 75, 99}[rd.Intn(4)]); a != nil && rd.Chance(3, 4) {
					cs[i], hit = a, true
				}
			}
			if hit {
				tag = "allocate/rounding-sensitive"
				r.plan[p.ID] = "claim-in-range"
			}
		}
		return amm.Op{Kind: "allocate", Sender: 3, Coins: cs, Tag: tag}
	case k < 92: // decrease
		q := pick()
		owner := w.UserIndex(q.Address)
		l := amm.Raw(q.Liquidity)
		tag := "decrease-all"
		switch rd.Intn(6) {
		case 0, 1, 2:
			l.Div(l, bi(int64(2+rd.Intn(5))))
			tag = "decrease-part"
		case 3:
			l.SetInt64(1)
			tag = "decrease-1ulp"
		}
		s := owner
		if rd.Chance(1, 10) {
			s, tag = (owner+1)%3, tag+"/not-owner"
		}
		return amm.Op{Kind: "decrease", Sender: s, Pid: q.Id, Liq: l, Tag: tag}
	default: // increase (= collect + withdraw everything + re-create under a new id)
		q := pick()
		owner := w.UserIndex(q.Address)
		return amm.Op{Kind: "increase", Sender: owner, Pid: q.Id, Base: amount(), Quote: amount(), MinBase: z, MinQuote: z, Tag: "increase"}
	}
}

// corpusBaselines: positions whose fee-growth-inside baseline is NOT a non-negative vector.  The per-tick
// growth values are conventions fixed when a tick is initialised (all earlier growth is taken to have
// happened below a tick at or below the price); only differences matter.  A range whose upper tick is old
// and was crossed downwards (its value = growth that happened above it) and whose lower tick is
// younger has a negative growth inside in every denom with such fees - and with fees inside the range
// after the lower tick was initialised, a mixed-sign one.  The position must neither forfeit what it
// earns afterwards (baseline treated as 0 although negative) nor be credited growth from before it
// existed (mixed-sign baseline reset to 0).  Price inside and price below the range; creation and claim.
func (r *run) corpusBaselines(ctx sdk.Context) {
	p := r.w.Pools[0]
	z := bi(0)
	mk := func(s int, lo, up int64, tag string) amm.Op {
		return amm.Op{Kind: "create", Sender: s, Lower: lo, Upper: up, Base: bi(1_000_000_000), Quote: bi(1_000_000_000), MinBase: z, MinQuote: z, Tag: "corpus/baseline/" + tag}
	}
	to := func(s int, exactIn bool, din int, target int64, tag string) amm.Op {
		return amm.Op{Kind: "swap", Sender: s, ExactIn: exactIn, DenomIn: din, Lower: target, Amount: bi(1_000_000), Tag: "corpus/to/" + tag}
	}
	cl := func(s int, tag string, ids ...uint64) amm.Op {
		return amm.Op{Kind: "claim", Sender: s, Pids: ids, Tag: "corpus/baseline/" + tag}
	}
	first := r.nextID(ctx)
	w, x, n1, n3, n2, m := first, first+1, first+2, first+3, first+4, first+5
	r.runCorpus(ctx, p, []amm.Op{
		mk(0, -40, 40, "W-wide"),
		mk(1, 5, 15, "X-above-initialises-tick-5"),
		to(2, true, 1, 9, "up-across-5-to-9"),
		to(2, false, 0, 1, "exact-out-down-across-5-to-1"),
		// negative baseline in both denoms: new lower tick, old upper tick crossed downwards, price inside
		mk(2, -3, 5, "N1-new-lower-old-upper-price-inside"),
		cl(2, "claim-N1-at-once", n1),
		to(0, true, 0, -2, "down-inside-N1"),
		to(0, false, 1, 4, "exact-out-up-inside-N1"),
		cl(2, "claim-N1", n1),
		cl(0, "claim-W", w),
		cl(1, "claim-X", x),
		// mixed-sign baseline: both ticks old (lower younger than the upper's crossing), fees inside since
		mk(1, -3, 5, "N3-both-ticks-old-mixed-sign"),
		to(2, false, 0, 0, "exact-out-down-inside"),
		to(2, true, 1, 3, "up-inside"),
		cl(1, "claim-N3-X", n3, x),
		cl(2, "claim-N1", n1),
		cl(0, "claim-W", w),
		// negative baseline, price below the range
		to(0, true, 0, -8, "down-out-of-the-narrow-ranges"),
		mk(2, -6, 5, "N2-new-lower-old-upper-price-below"),
		to(1, true, 1, 2, "up-into-N2-N1-N3"),
		to(1, false, 0, -1, "exact-out-down-inside"),
		cl(2, "claim-N2-N1", n2, n1),
		cl(1, "claim-N3", n3),
		// the mirror: old lower tick crossed upwards, new upper tick
		mk(0, -3, 7, "M-old-lower-new-upper"),
		to(2, false, 1, 6, "exact-out-up-across-5-into-M-only"),
		to(2, true, 0, 1, "down-back"),
		cl(0, "claim-M-W", m, w),
		cl(2, "claim-N2-N1", n1, n2),
		cl(1, "claim-N3-X", x, n3),
	})
}

// corpusDeep: incentive allocations on a pool of 18-decimals-token depth (in-range liquidity far above
// 1e18): the growth per unit of liquidity, coins / L, has 18 decimals, and one unit of it is worth
// L * 1e-18 coins to the in-range positions - thousands of coins here.  Allocations whose exact quotient
// has a fraction of 0.5, 0.51, 0.75, 0.99 of the last decimal, in all four denoms (2 and 3 receive
// nothing else), each followed at once by the claimable query of every position (monitor 1 runs on
// every case) and by the claims of the in-range positions; a second in-range position joins halfway.
func (r *run) corpusDeep(ctx sdk.Context) {
	p := r.w.Pools[4]
	z := bi(0)
	e21 := pow10(21)
	mk := func(s int, lo, up int64, units int64, tag string) amm.Op {
		a := new(big.Int).Mul(bi(units), e21)
		return amm.Op{Kind: "create", Sender: s, Lower: lo, Upper: up, Base: a, Quote: new(big.Int).Set(a), MinBase: z, MinQuote: z, Tag: "corpus/deep/" + tag}
	}
	al := func(tag string, spec ...int64) amm.Op { // spec: k, frac per denom; fixed from the liquidity when the case runs
		cs := make([]*big.Int, 4)
		for i := range cs {
			cs[i] = bi(100*spec[2*i] + spec[2*i+1]) // carrier, replaced below
		}
		return amm.Op{Kind: "allocate", Sender: 3, Coins: cs, Tag: "corpus/deep/alloc/" + tag}
	}
	cl := func(s int, tag string, ids ...uint64) amm.Op {
		return amm.Op{Kind: "claim", Sender: s, Pids: ids, Tag: "corpus/deep/" + tag}
	}
	first := r.nextID(ctx)
	d1, d2 := first, first+1
	ops := []amm.Op{
		mk(0, -20, 20, 3, "D1-deep"),
		al("0.75-of-the-last-decimal", 0, 75, 0, 75, 0, 75, 0, 75),
		cl(0, "claim-D1", d1),
		al("1.5-and-0.51", 1, 50, 0, 51, 1, 50, 0, 51),
		cl(0, "claim-D1", d1),
		mk(1, -5, 7, 2, "D2-deep-narrow"),
		al("two-positions-0.99-and-2.5", 0, 99, 2, 50, 2, 50, 0, 99),
		cl(0, "claim-D1", d1),
		cl(1, "claim-D2", d2),
		al("two-positions-0.5", 0, 50, 0, 50, 0, 50, 0, 50),
		cl(1, "claim-D2", d2),
		cl(0, "claim-D1", d1),
		{Kind: "swap", Sender: 2, ExactIn: true, DenomIn: 1, Amount: new(big.Int).Mul(bi(7), pow10(18)), Tag: "corpus/deep/swap-up-a-little"},
		al("after-a-swap-0.75", 0, 75, 1, 75, 0, 75, 3, 75),
		cl(1, "claim-D2", d2),
		cl(0, "claim-D1", d1),
	}
	gh := r.gh[p.ID]
	for _, o := range ops {
		if strings.HasPrefix(o.Tag, "corpus/deep/alloc/") {
			pool, _, _ := r.w.K.GetPool(ctx, p.ID)
			liq := amm.Raw(pool.CurrentTickLiquidity)
			for i, c := range o.Coins {
				v := c.Int64()
				if a := roundingSensitive(liq, v/100, v%100); a != nil {
					o.Coins[i] = a
				} else {
					o.Coins[i] = bi(v)
				}
			}
		}
		r.doCase(ctx, p, o, gh, false)
	}
}
