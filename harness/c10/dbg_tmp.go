package c10

import (
	"fmt"
	"math/big"
	"time"

	sdkmath "cosmossdk.io/math"
	sdk "github.com/cosmos/cosmos-sdk/types"

	"verifharness/emit"
)

func dbgSlash(outDir string) error {
	rn := newRunner(1)
	defer rn.w.h.Close()
	rn.st = emit.NewStats("C10", 1, "dbg")
	rn.cf = &emit.CasesFile{Import: "Stake.C10Check", Runner: "run", Type: "c10_any"}
	w, h := rn.w, rn.w.h
	ms := time.Millisecond
	rn.do(op{Kind: kBlock, Dt: 600 * ms}, "s")
	rn.do(op{Kind: kDelegate, U: 0, V: 0, Amt: bi(1_000_000)}, "s")
	rn.do(op{Kind: kDelegate, U: 1, V: 0, Amt: bi(3_000_001)}, "s")
	rn.do(op{Kind: kBlock, Dt: 1300 * ms}, "s")
	// slash validator 0 by 1/3 (exchange rate becomes non-terminating)
	ctx := w.msgCtx()
	val, _ := h.App.StakingKeeper.GetValidator(ctx, w.valb[0])
	fmt.Println("before slash: tokens", val.Tokens, "deleg", w.delegated(ctx, 0))
	burned, err := h.App.StakingKeeper.Slash(ctx, sdk.ConsAddress(w.cons[0]), h.Height, val.ConsensusPower(sdkmath.NewInt(1_000_000)), sdkmath.LegacyNewDecWithPrec(333333, 6))
	fmt.Println("slash burned", burned, err)
	fmt.Println("after slash: deleg", w.delegated(h.Ctx(), 0))
	rn.do(op{Kind: kBlock, Dt: 1300 * ms}, "s")
	for _, o := range []op{
		{Kind: kDelegate, U: 2, V: 0, Amt: bi(777_777)},
		{Kind: kUndelegate, U: 0, V: 0, Amt: bi(100_001), Rcp: 3},
		{Kind: kUndelegate, U: 1, V: 0, Amt: bi(7), Rcp: -3},
		{Kind: kClaim, U: 1, V: 0},
	} {
		out := rn.do(o, "s")
		fmt.Println(o, "->", out.Class, out.Err, "ret", out.Ret, "deleg", w.delegated(h.Ctx(), 0))
	}
	q := w.dump(h.Ctx()).Queue
	for _, e := range q {
		fmt.Println("queue", e.ID, e.Rcp, e.Amt)
	}
	first := q[0].Time
	out := rn.do(op{Kind: kBlock, Dt: time.Unix(0, first).Sub(h.Time) + 2*time.Second}, "s")
	fmt.Println("completion block ->", out.Class, out.Err, "released", out.Released)
	fmt.Println("recipient u3 urise delta from 1e39:", new(big.Int).Sub(h.Bal(h.Ctx(), h.Accts[3].Addr, "urise").BigInt(), ub0))
	if _, err := rn.cf.Write(outDir, "cases", 100); err != nil {
		return err
	}
	return rn.st.Write(outDir)
}
