package main

// Process-local mutable state (kind KGlobal).
//
// A package-level variable of a scanned package is a KGlobal site when it can change after
// package initialisation, i.e. when at least one of the following holds:
//
//	G1  it is written outside `func init()`: assigned / op-assigned / inc-dec'ed, an element or a
//	    field reached from it is assigned, it is the operand of delete(), its address is taken
//	    (explicitly with &, or implicitly by calling a pointer-receiver method on the addressable
//	    value), or a method with a mutating name (Store, LoadOrStore, Delete, Swap, Lock, Do, Add,
//	    Set, ...) is called on it or on something reached from it;
//	G2  its type is mutable by mere use: a map, a channel, a value or pointer of a type declared in
//	    sync or sync/atomic, a slice or map built with make(), or a struct/array directly containing
//	    one of these.
//
// Variables that satisfy neither (error registrations, key prefixes, codecs built once and only
// read, string / numeric tables) cannot be told apart from constants by the program and are not
// sites. The hash of a site covers the declaration and every write found, so a reviewed read-only
// table that later gains a writer has to be reviewed again.
//
// Known gap (stated in notes/C14.md): a pointer- or slice-typed variable that is only mutated by a
// callee it is passed to, or through a method whose name is not in the list, is not detected.

import (
	"fmt"
	"go/ast"
	"go/token"
	"go/types"
	"sort"
	"strings"

	"golang.org/x/tools/go/packages"
)

var mutatingNames = map[string]bool{
	"Store": true, "LoadOrStore": true, "LoadAndDelete": true, "Delete": true, "Swap": true, "CompareAndSwap": true,
	"CompareAndDelete": true, "Lock": true, "Unlock": true, "RLock": true, "RUnlock": true, "TryLock": true, "Do": true,
	"Add": true, "Done": true, "Wait": true, "Set": true, "Put": true, "Get": true, "Push": true, "Pop": true, "Append": true,
	"Insert": true, "Remove": true, "Reset": true, "Clear": true, "Write": true, "WriteString": true, "Grow": true,
	"Inc": true, "Dec": true, "Signal": true, "Broadcast": true, "Seed": true, "Range": true,
}

type globalVar struct {
	obj    *types.Var
	file   string
	line   int
	zone   string
	decl   string // normalised text of the ValueSpec
	typ    string
	g2     string   // reason by type / initialiser, "" if none
	writes []string // "func: how: statement"
}

func pkgLevel(v *types.Var) bool {
	return v != nil && v.Pkg() != nil && v.Parent() == v.Pkg().Scope() && !v.IsField()
}

// rootVar follows x in x.f, x[i], *x, (x), pkg.x down to a package-level variable.
func rootVar(info *types.Info, e ast.Expr) *types.Var {
	for {
		switch x := e.(type) {
		case *ast.Ident:
			if v, ok := info.Uses[x].(*types.Var); ok && pkgLevel(v) {
				return v
			}
			if v, ok := info.Defs[x].(*types.Var); ok && pkgLevel(v) {
				return v
			}
			return nil
		case *ast.SelectorExpr:
			if v, ok := info.Uses[x.Sel].(*types.Var); ok && pkgLevel(v) {
				return v // pkg.Var
			}
			e = x.X
		case *ast.IndexExpr:
			e = x.X
		case *ast.StarExpr:
			e = x.X
		case *ast.ParenExpr:
			e = x.X
		case *ast.SliceExpr:
			e = x.X
		case *ast.TypeAssertExpr:
			e = x.X
		default:
			return nil
		}
	}
}

func syncLike(t types.Type) string {
	if p, ok := t.(*types.Pointer); ok {
		t = p.Elem()
	}
	if n, ok := t.(*types.Named); ok && n.Obj().Pkg() != nil {
		switch n.Obj().Pkg().Path() {
		case "sync", "sync/atomic":
			return n.Obj().Pkg().Path() + "." + n.Obj().Name()
		}
	}
	return ""
}

// mutableByUse implements G2 on the type (depth-limited into structs and arrays).
func mutableByUse(t types.Type, depth int) string {
	if s := syncLike(t); s != "" {
		return "type " + s
	}
	switch u := t.Underlying().(type) {
	case *types.Map:
		return "map type"
	case *types.Chan:
		return "chan type"
	case *types.Struct:
		if depth > 2 {
			return ""
		}
		for i := 0; i < u.NumFields(); i++ {
			if r := mutableByUse(u.Field(i).Type(), depth+1); r != "" {
				return "struct field " + u.Field(i).Name() + ": " + r
			}
		}
	case *types.Array:
		if depth <= 2 {
			return mutableByUse(u.Elem(), depth+1)
		}
	}
	return ""
}

func madeWithMake(e ast.Expr) bool {
	c, ok := e.(*ast.CallExpr)
	if !ok {
		return false
	}
	id, ok := c.Fun.(*ast.Ident)
	return ok && id.Name == "make"
}

func scanGlobals(pkgs []*packages.Package) {
	vars := map[*types.Var]*globalVar{}
	byKey := map[string]*globalVar{} // pkgpath.name, for objects seen through export data
	keyOf := func(v *types.Var) string { return v.Pkg().Path() + "." + v.Name() }
	// pass 1: declarations
	for _, p := range pkgs {
		if p.TypesInfo == nil {
			continue
		}
		for _, f := range p.Syntax {
			file, _ := rel(p.Fset, f.Pos())
			for _, d := range f.Decls {
				gd, ok := d.(*ast.GenDecl)
				if !ok || gd.Tok != token.VAR {
					continue
				}
				for _, sp := range gd.Specs {
					vs := sp.(*ast.ValueSpec)
					for i, name := range vs.Names {
						if name.Name == "_" {
							continue
						}
						v, ok := p.TypesInfo.Defs[name].(*types.Var)
						if !ok {
							continue
						}
						_, line := rel(p.Fset, name.Pos())
						g := &globalVar{obj: v, file: file, line: line, zone: zoneOf(file), decl: norm(p.Fset, vs),
							typ: types.TypeString(v.Type(), func(q *types.Package) string { return q.Name() })}
						g.g2 = mutableByUse(v.Type(), 0)
						if g.g2 == "" && len(vs.Values) == len(vs.Names) && madeWithMake(vs.Values[i]) {
							g.g2 = "built with make()"
						}
						vars[v] = g
						byKey[keyOf(v)] = g
					}
				}
			}
		}
	}
	lookup := func(v *types.Var) *globalVar {
		if v == nil {
			return nil
		}
		if g, ok := vars[v]; ok {
			return g
		}
		return byKey[keyOf(v)]
	}
	// pass 2: writes outside init
	for _, p := range pkgs {
		if p.TypesInfo == nil {
			continue
		}
		info := p.TypesInfo
		for _, f := range p.Syntax {
			for _, d := range f.Decls {
				fd, ok := d.(*ast.FuncDecl)
				if !ok || fd.Body == nil {
					continue
				}
				if fd.Recv == nil && fd.Name.Name == "init" {
					continue
				}
				fname := funcName([]ast.Node{fd})
				note := func(v *types.Var, how string, n ast.Node) {
					if g := lookup(v); g != nil {
						g.writes = append(g.writes, fname+": "+how+": "+short(norm(p.Fset, n), 160))
					}
				}
				ast.Inspect(fd.Body, func(n ast.Node) bool {
					switch x := n.(type) {
					case *ast.AssignStmt:
						if x.Tok == token.DEFINE {
							break
						}
						for _, l := range x.Lhs {
							if v := rootVar(info, l); v != nil {
								how := "assigned"
								switch l.(type) {
								case *ast.IndexExpr:
									how = "element assigned"
								case *ast.SelectorExpr:
									if _, direct := info.Uses[l.(*ast.SelectorExpr).Sel].(*types.Var); !direct || !pkgLevel(info.Uses[l.(*ast.SelectorExpr).Sel].(*types.Var)) {
										how = "field assigned"
									}
								case *ast.StarExpr:
									how = "assigned through pointer"
								}
								note(v, how, x)
							}
						}
					case *ast.IncDecStmt:
						if v := rootVar(info, x.X); v != nil {
							note(v, "inc/dec", x)
						}
					case *ast.RangeStmt:
						if x.Tok == token.ASSIGN {
							for _, e := range []ast.Expr{x.Key, x.Value} {
								if e != nil {
									if v := rootVar(info, e); v != nil {
										note(v, "assigned by range", x.X)
									}
								}
							}
						}
					case *ast.UnaryExpr:
						if x.Op == token.AND {
							if _, isLit := x.X.(*ast.CompositeLit); !isLit {
								if v := rootVar(info, x.X); v != nil {
									note(v, "address taken", x)
								}
							}
						}
					case *ast.CallExpr:
						if id, ok := x.Fun.(*ast.Ident); ok && (id.Name == "delete" || id.Name == "clear") && len(x.Args) > 0 {
							if _, isBuiltin := info.Uses[id].(*types.Builtin); isBuiltin {
								if v := rootVar(info, x.Args[0]); v != nil {
									note(v, id.Name+"()", x)
								}
							}
						}
						if id, ok := x.Fun.(*ast.Ident); ok && (id.Name == "append" || id.Name == "copy") && len(x.Args) > 0 {
							// copy(v, ...) writes v's backing array; append is only a write when assigned (seen above)
							if _, isBuiltin := info.Uses[id].(*types.Builtin); isBuiltin && id.Name == "copy" {
								if v := rootVar(info, x.Args[0]); v != nil {
									note(v, "copy() into", x)
								}
							}
						}
						sel, ok := x.Fun.(*ast.SelectorExpr)
						if !ok {
							break
						}
						s := info.Selections[sel]
						if s == nil || s.Kind() != types.MethodVal {
							break
						}
						v := rootVar(info, sel.X)
						if v == nil {
							break
						}
						fn, _ := s.Obj().(*types.Func)
						ptrRecv := false
						if fn != nil {
							if sig, ok := fn.Type().(*types.Signature); ok && sig.Recv() != nil {
								_, ptrRecv = sig.Recv().Type().(*types.Pointer)
							}
						}
						_, recvIsPtr := info.TypeOf(sel.X).Underlying().(*types.Pointer)
						switch {
						case ptrRecv && !recvIsPtr:
							note(v, "pointer-receiver method "+sel.Sel.Name+" on the addressable value", x)
						case mutatingNames[sel.Sel.Name]:
							note(v, "method "+sel.Sel.Name, x)
						}
					}
					return true
				})
			}
		}
	}
	// emit
	var gs []*globalVar
	for _, g := range vars {
		if g.g2 != "" || len(g.writes) > 0 {
			gs = append(gs, g)
		}
	}
	sort.Slice(gs, func(i, j int) bool {
		if gs[i].file != gs[j].file {
			return gs[i].file < gs[j].file
		}
		return gs[i].line < gs[j].line
	})
	for _, g := range gs {
		why := g.g2
		if len(g.writes) > 0 {
			if why != "" {
				why += "; "
			}
			why += fmt.Sprintf("%d write(s) outside init, first: %s", len(g.writes), g.writes[0])
		}
		zone := g.zone
		// what protoc-gen-gocosmos emits into every *.pb.go, recognised by generated file + declared
		// type + name + absence of any other write — not by file alone:
		//   xxx_messageInfo_<Msg> proto.InternalMessageInfo   lazily built marshal table of one message type
		//   _<Svc>_serviceDesc grpc.ServiceDesc               only ever passed by address to the registrars
		//   <Enum>_name / <Enum>_value                        enum lookup maps, never written
		if zone == "generated-proto" {
			ts := types.TypeString(g.obj.Type(), nil)
			name := g.obj.Name()
			onlyAddr := true
			for _, w := range g.writes {
				if !strings.Contains(w, ": address taken: ") {
					onlyAddr = false
				}
			}
			switch {
			case strings.HasPrefix(name, "xxx_messageInfo_") && ts == "github.com/cosmos/gogoproto/proto.InternalMessageInfo":
				zone = "generated-proto-runtime"
			case strings.HasSuffix(name, "_serviceDesc") && ts == "google.golang.org/grpc.ServiceDesc" && onlyAddr:
				zone = "generated-proto-runtime"
			case len(g.writes) == 0 && ((strings.HasSuffix(name, "_name") && ts == "map[int32]string") || (strings.HasSuffix(name, "_value") && ts == "map[string]int32")):
				zone = "generated-proto-runtime"
			}
		}
		sites = append(sites, site{File: g.file, Func: g.obj.Name(), Kind: "KGlobal", Zone: zone,
			Detail: short(g.typ+" -- "+why, 200), Hash: hash60(g.decl + " ;; " + strings.Join(g.writes, " ;; ")), Line: g.line})
	}
}
