package c11

import (
	"bytes"
	"encoding/json"
	"fmt"
	"math/big"
	"os"
	"strings"
	"time"

	errorsmod "cosmossdk.io/errors"
	sdkmath "cosmossdk.io/math"
	sdk "github.com/cosmos/cosmos-sdk/types"
	sdkerrors "github.com/cosmos/cosmos-sdk/types/errors"
	authtypes "github.com/cosmos/cosmos-sdk/x/auth/types"
	transfertypes "github.com/cosmos/ibc-go/v9/modules/apps/transfer/types"
	channeltypes "github.com/cosmos/ibc-go/v9/modules/core/04-channel/types"

	swaptypes "github.com/sunriselayer/sunrise/x/swap/types"

	"verifharness/emit"
)

// ---------- specification of a history ----------

type legSpec struct {
	Ch      int    // 0..3: channel the leg leaves through
	Retries uint32 // metadata.retries
	Bad     string // "": fine. Failing before any coin moves: "channel" (unknown channel), "port" (a port without transfer channels). Failing after the escrow / burn: "timeout" (0s: already elapsed), "blank" (receiver " " passes the memo validation, not the packet data validation), "closed" (a closed channel)
}

type pktSpec struct {
	Rcv      int    // index into env.rcv; -1: not an address; -2: a blocked module account
	Amount   int64  // amount of the incoming transfer
	Class    string // swap | pass | invalid | panic
	Prov     int    // 0 none, 1 valid provider, 2 a string that is not an address
	ExactOut bool
	Arg      int64 // min_amount_out (exact in) or amount_out (exact out)
	Change   *legSpec
	Forward  *legSpec
	BadDenom bool // route.denom_in is not the denom of the packet on this chain
	BadPool  bool // route names a pool that does not exist
	Route    int  // 0 one pool; 1 parallel 1:1; 2 parallel 1:1:1; 3 parallel 0.3:0.7; 4 parallel 2:1 of (pool, series of two pools); 5 series of two pools
	Variant  int  // which malformed memo (classes pass / invalid / panic)
}

// op: Pkt >= 0, Leg < 0: relay the incoming packet Pkt; Leg in {0 change, 1 forward}: deliver Kind
// ("ok", "err", "timeout") to that leg's current packet. Kind "dup": relay an already resolved
// packet again (redundant relay).
type op struct {
	Pkt  int
	Leg  int
	Kind string
}

type history struct {
	Name       string
	Wired      bool // the harness supplies IbcKeeperFn (true) or the application's own wiring is used (false)
	Pkts       []pktSpec
	Ops        []op
	Align      bool // before the first relay, pad the channels of packet 0's change and forward legs to the same next sequence
	Drain      bool // after Ops, deliver outcomes (chosen from DrainKinds round-robin) until no leg is live
	DrainKinds []string
}

func chName(i int) string { return fmt.Sprintf("channel-%d", i) }

func (e *env) fwdJSON(l *legSpec) string {
	ch, prt, to, rcv := chName(l.Ch), port, "600s", e.far.String()
	switch l.Bad {
	case "blank":
		rcv = " "
	case "closed":
		ch = chanE
	case "channel":
		ch = "channel-9"
	case "port":
		prt = "icahost"
	case "timeout":
		to = "0s"
	}
	return fmt.Sprintf(`{"receiver":"%s","port":"%s","channel":"%s","timeout":"%s","retries":%d}`, rcv, prt, ch, to, l.Retries)
}

// routeJSON renders the route of the memo: a single pool, a parallel split over two or three pools
// of the same pair (weights that do not divide most amounts), a series over the intermediate denom,
// or a parallel split whose second branch is such a series.
func (e *env) routeJSON(p pktSpec, din string) string {
	pool := func(in, out string, id uint64) string {
		if p.BadPool {
			id = 777
		}
		return fmt.Sprintf(`{"denom_in":"%s","denom_out":"%s","pool":{"pool_id":"%d"}}`, in, out, id)
	}
	series := func(in string) string {
		return fmt.Sprintf(`{"denom_in":"%s","denom_out":"%s","series":{"routes":[%s,%s]}}`, in, quote,
			pool(in, mid, e.poolInMid), pool(mid, quote, e.poolMidOut))
	}
	par := func(in string, weights []string, branches ...string) string {
		return fmt.Sprintf(`{"denom_in":"%s","denom_out":"%s","parallel":{"routes":[%s],"weights":["%s"]}}`, in, quote,
			strings.Join(branches, ","), strings.Join(weights, `","`))
	}
	switch p.Route {
	case 1:
		return par(din, []string{"1", "1"}, pool(din, quote, e.pools[0]), pool(din, quote, e.pools[1]))
	case 2:
		return par(din, []string{"1", "1", "1"}, pool(din, quote, e.pools[0]), pool(din, quote, e.pools[1]), pool(din, quote, e.pools[2]))
	case 3:
		return par(din, []string{"0.3", "0.7"}, pool(din, quote, e.pools[1]), pool(din, quote, e.pools[2]))
	case 4:
		return par(din, []string{"2", "1"}, pool(din, quote, e.pools[0]), series(din))
	case 5:
		return series(din)
	}
	return pool(din, quote, e.pools[0])
}

func (e *env) memo(p pktSpec) string {
	switch p.Class {
	case "pass":
		return []string{"", "hello", `{"wasm":{"contract":"x"}}`, `{"swap":null}`, `[1,2]`}[p.Variant%5]
	case "panic":
		return []string{`{"swap":1}`, `{"swap":{"forward":1}}`, `{"swap":{}}`}[p.Variant%3]
	}
	din := e.denomIn
	if p.BadDenom {
		din = quote
	}
	var sb strings.Builder
	sb.WriteString(`{"swap":{`)
	switch p.Prov {
	case 1:
		sb.WriteString(fmt.Sprintf(`"interface_provider":"%s",`, e.prov.String()))
	case 2:
		sb.WriteString(`"interface_provider":"not-an-address",`)
	}
	sb.WriteString(`"route":` + e.routeJSON(p, din) + `,`)
	if p.Class == "invalid" {
		switch p.Variant % 3 {
		case 0: // min_amount_out must be positive
			sb.WriteString(`"exact_amount_in":{"min_amount_out":"0"}}}`)
		case 1: // forward receiver empty
			sb.WriteString(`"exact_amount_in":{"min_amount_out":"1"},"forward":{"receiver":"","port":"transfer","channel":"channel-0","timeout":"600s"}}}`)
		default: // invalid channel identifier in the change metadata
			sb.WriteString(fmt.Sprintf(`"exact_amount_out":{"amount_out":"10","change":{"receiver":"%s","port":"transfer","channel":"c","timeout":"600s"}}}}`, e.far.String()))
		}
		return sb.String()
	}
	if p.ExactOut {
		sb.WriteString(fmt.Sprintf(`"exact_amount_out":{"amount_out":"%d"`, p.Arg))
		if p.Change != nil {
			sb.WriteString(`,"change":` + e.fwdJSON(p.Change))
		}
		sb.WriteString(`}`)
	} else {
		sb.WriteString(fmt.Sprintf(`"exact_amount_in":{"min_amount_out":"%d"}`, p.Arg))
	}
	if p.Forward != nil {
		sb.WriteString(`,"forward":` + e.fwdJSON(p.Forward))
	}
	sb.WriteString(`}}`)
	return sb.String()
}

// ---------- acknowledgement codes ----------

var successAck = channeltypes.NewResultAcknowledgement([]byte{byte(1)}).Acknowledgement()
var timeoutAck = channeltypes.NewErrorAcknowledgement(errorsmod.Wrap(sdkerrors.ErrUnknownRequest, "Retry count on timeout exceeds")).Acknowledgement()

func ackCode(bz []byte) int64 {
	switch {
	case len(bz) == 0:
		return 0
	case bytes.Equal(bz, successAck):
		return 1
	case bytes.Equal(bz, timeoutAck):
		return 3
	}
	var a channeltypes.Acknowledgement
	if err := transfertypes.ModuleCdc.UnmarshalJSON(bz, &a); err == nil {
		if _, ok := a.Response.(*channeltypes.Acknowledgement_Error); ok {
			return 2
		}
	}
	return 9
}

type swapAck struct {
	Result struct {
		TokenIn  sdk.Coin `json:"token_in"`
		TokenOut sdk.Coin `json:"token_out"`
	} `json:"result"`
	IncomingAck []byte `json:"ibc_ack"`
	ChangeAck   []byte `json:"change_ack,omitempty"`
	ForwardAck  []byte `json:"forward_ack,omitempty"`
}

// ackView = [tag; tin; tout; a0; ca; fa] of the acknowledgement bytes written for an incoming packet
func ackView(bz []byte) []string {
	z := []string{"0", "0", "0", "0", "0", "0"}
	if bz == nil {
		return z
	}
	var a channeltypes.Acknowledgement
	if err := transfertypes.ModuleCdc.UnmarshalJSON(bz, &a); err != nil {
		z[0] = "9"
		return z
	}
	switch r := a.Response.(type) {
	case *channeltypes.Acknowledgement_Error:
		z[0] = "1"
	case *channeltypes.Acknowledgement_Result:
		if bytes.Equal(r.Result, []byte{1}) {
			z[0] = "2"
			return z
		}
		var sa swapAck
		if err := json.Unmarshal(r.Result, &sa); err != nil {
			z[0] = "9"
			return z
		}
		return []string{"3", emit.Z(sa.Result.TokenIn.Amount.BigInt()), emit.Z(sa.Result.TokenOut.Amount.BigInt()),
			emit.ZI(ackCode(sa.IncomingAck)), emit.ZI(ackCode(sa.ChangeAck)), emit.ZI(ackCode(sa.ForwardAck))}
	}
	return z
}

func chNum(ch string) int64 {
	switch ch {
	case chanA:
		return 0
	case chanB:
		return 1
	case chanC:
		return 2
	case chanD:
		return 3
	case chanE:
		return 4
	case chanF:
		return 5
	}
	return 99
}

// ---------- relayer state ----------

type legState struct {
	Key     [2]int64 // incoming packet it belongs to
	Fwd     bool
	Denom   int64 // 1 = denomIn, 2 = quote
	Amt     *big.Int
	Cur     channeltypes.Packet
	Live    bool     // sent and not successfully acknowledged / timed out for good
	Pending bool     // no final outcome submitted yet
	Outcome int64    // final outcome code submitted (0 none)
	First   [2]int64 // index under which the leg was first sent
}

type pktState struct {
	Spec     pktSpec
	Packet   channeltypes.Packet
	Key      [2]int64
	Sent     bool
	Relayed  bool
	Accepted bool
	Legs     [2]*legState
	AckBz    []byte
	NAcks    int
	Back     bool   // acknowledgement relayed back to the sender's end
	Actual   string // what the real decoder / validator made of the memo
}

type runner struct {
	e                                             *env
	pk                                            []*pktState
	idxs                                          [][2]int64 // every outgoing index seen
	recvIn, recvOut, swIn, swOut, sentIn, sentOut *big.Int
	steps                                         []stepRec
	trace                                         []string
}

type stepRec struct {
	Event string
	Class int
	View  rawView
	Book  string
}

type rawView struct {
	Bal, Nseq  []string
	Keys       map[[2]int64][]string
	Legs       map[[2]int64][]string
	Ninc, Nout int
}

func (r *runner) note(f string, a ...any) { r.trace = append(r.trace, fmt.Sprintf(f, a...)) }

func (r *runner) addIdx(i [2]int64) {
	for _, x := range r.idxs {
		if x == i {
			return
		}
	}
	r.idxs = append(r.idxs, i)
}

func slotView(idx *swaptypes.PacketIndex, ack []byte, isIdx bool) []string {
	if isIdx {
		return []string{"1", emit.ZI(chNum(idx.ChannelId)), emit.ZI(int64(idx.Sequence))}
	}
	return []string{"0", "0", emit.ZI(ackCode(ack))}
}

func (r *runner) observe() rawView {
	e := r.e
	v := rawView{Keys: map[[2]int64][]string{}, Legs: map[[2]int64][]string{}}
	z := func(x sdkmath.Int) string { return emit.Z(x.BigInt()) }
	v.Bal = []string{z(e.bal(e.mod, e.denomIn)), z(e.bal(e.mod, quote)), z(e.bal(e.prov, e.denomIn)), z(e.bal(e.prov, quote)),
		z(e.locked(e.denomIn)), z(e.locked(quote)), z(e.bal(e.mod, mid)), z(e.modRest())}
	for _, a := range e.rcv {
		v.Bal = append(v.Bal, z(e.bal(a, e.denomIn)), z(e.bal(a, quote)))
	}
	v.Nseq = []string{emit.ZI(int64(e.nextSeqSend(chanA))), emit.ZI(int64(e.nextSeqSend(chanB))), emit.ZI(int64(e.nextSeqSend(chanC))), emit.ZI(int64(e.nextSeqSend(chanD)))}
	inc := e.incoming()
	out := e.outgoing()
	v.Ninc, v.Nout = len(inc), len(out)
	ctx := e.h.CtxAt(e.now)
	for _, p := range r.pk {
		if !p.Sent {
			continue
		}
		kv := []string{"0"}
		if _, ok := e.h.App.IBCKeeper.ChannelKeeper.GetPacketReceipt(ctx, port, chanB, uint64(p.Key[1])); ok {
			kv[0] = "1"
		}
		stored, has := e.h.App.IBCKeeper.ChannelKeeper.GetPacketAcknowledgement(ctx, port, chanB, uint64(p.Key[1]))
		switch {
		case !has:
			kv = append(kv, ackView(nil)...)
		case p.AckBz != nil && bytes.Equal(stored, channeltypes.CommitAcknowledgement(p.AckBz)):
			kv = append(kv, ackView(p.AckBz)...)
		default:
			kv = append(kv, "9", "0", "0", "0", "0", "0") // an acknowledgement the relayer did not see being written
		}
		found := false
		for _, ip := range inc {
			if ip.Index.ChannelId == chanB && int64(ip.Index.Sequence) == p.Key[1] {
				found = true
				kv = append(kv, "1", emit.ZI(ackCode(ip.Ack)), emit.Z(ip.Result.TokenIn.Amount.BigInt()), emit.Z(ip.Result.TokenOut.Amount.BigInt()),
					emit.Z(ip.InterfaceFee.BigInt()))
				switch c := ip.Change.(type) {
				case *swaptypes.IncomingInFlightPacket_OutgoingIndexChange:
					kv = append(kv, slotView(c.OutgoingIndexChange, nil, true)...)
				case *swaptypes.IncomingInFlightPacket_AckChange:
					kv = append(kv, slotView(nil, c.AckChange, false)...)
				default: // the empty oneof (no change leg) does not survive the store round trip
					kv = append(kv, "0", "0", "0")
				}
				switch c := ip.Forward.(type) {
				case *swaptypes.IncomingInFlightPacket_OutgoingIndexForward:
					kv = append(kv, slotView(c.OutgoingIndexForward, nil, true)...)
				case *swaptypes.IncomingInFlightPacket_AckForward:
					kv = append(kv, slotView(nil, c.AckForward, false)...)
				default:
					kv = append(kv, "0", "0", "0")
				}
			}
		}
		if !found {
			kv = append(kv, "0", "0", "0", "0", "0", "0", "0", "0", "0", "0", "0")
		}
		v.Keys[p.Key] = kv
	}
	for _, i := range r.idxs {
		lv := []string{"0"}
		if e.hasCommitment(chName(int(i[0])), uint64(i[1])) {
			lv[0] = "1"
		}
		found := false
		for _, op := range out {
			if chNum(op.Index.ChannelId) == i[0] && int64(op.Index.Sequence) == i[1] {
				found = true
				lv = append(lv, "1", emit.ZI(chNum(op.AckWaitingIndex.ChannelId)), emit.ZI(int64(op.AckWaitingIndex.Sequence)), emit.ZI(int64(op.RetriesRemaining)))
			}
		}
		if !found {
			lv = append(lv, "0", "0", "0", "0")
		}
		v.Legs[i] = lv
	}
	return v
}

func idxTerm(i [2]int64) string { return fmt.Sprintf("(%d, %d)", i[0], i[1]) }

func (r *runner) book() string {
	var live []string
	for _, p := range r.pk {
		for _, l := range p.Legs {
			if l != nil && l.Live {
				live = append(live, fmt.Sprintf("{| l_idx := %s; l_key := %s; l_fwd := %s; l_denom := %d; l_amt := %s |}",
					idxTerm([2]int64{chNum(l.Cur.SourceChannel), int64(l.Cur.Sequence)}), idxTerm(l.Key), emit.Bool(l.Fwd), l.Denom, emit.Z(l.Amt)))
			}
		}
	}
	var nacks, outc []string
	for _, p := range r.pk {
		if !p.Sent {
			continue
		}
		nacks = append(nacks, emit.ZI(int64(p.NAcks)))
		oc := [2]int64{}
		for j, l := range p.Legs {
			if l != nil {
				oc[j] = l.Outcome
			}
		}
		outc = append(outc, fmt.Sprintf("(%d, %d)", oc[0], oc[1]))
	}
	return fmt.Sprintf("{| b_live := %s; b_recv := [%s; %s]; b_swapped := [%s; %s]; b_sent := [%s; %s]; b_nacks := %s; b_outcome := %s; b_bank := %s |}",
		emit.List(live), emit.Z(r.recvIn), emit.Z(r.recvOut), emit.Z(r.swIn), emit.Z(r.swOut), emit.Z(r.sentIn), emit.Z(r.sentOut),
		emit.List(nacks), emit.List(outc), emit.List(r.e.bankTotals()))
}

func (r *runner) record(event string, class int) {
	r.steps = append(r.steps, stepRec{Event: event, Class: class, View: r.observe(), Book: r.book()})
}

func classOf(err error) int {
	if err == nil {
		return 0
	}
	if strings.HasPrefix(err.Error(), "panic:") {
		return 2
	}
	return 1
}

// noteAcks stores acknowledgements written for incoming packets during a step
func (r *runner) noteAcks(evs sdk.Events) {
	for _, w := range acksOf(evs) {
		for _, p := range r.pk {
			if p.Sent && w.Packet.DestinationChannel == chanB && w.Packet.SourceChannel == chanA && int64(w.Packet.Sequence) == p.Key[1] &&
				bytes.Equal(w.Packet.Data, p.Packet.Data) {
				p.AckBz = w.Ack
				p.NAcks++
			}
		}
	}
}

func (r *runner) legDenom(data []byte) (int64, *big.Int, string) {
	var d transfertypes.FungibleTokenPacketData
	if err := transfertypes.ModuleCdc.UnmarshalJSON(data, &d); err != nil {
		return 0, big.NewInt(0), ""
	}
	amt, _ := new(big.Int).SetString(d.Amount, 10)
	if d.Denom == quote {
		return 2, amt, d.Sender
	}
	return 1, amt, d.Sender
}

// quote obtains the outcome of the route execution on the current state from the real keeper
func (r *runner) quote(p pktSpec) string {
	e := r.e
	if p.Class != "swap" || r.classify(e.memo(p)) != "swap" {
		return "(Err 0)"
	}
	m, err := swaptypes.DecodeSwapMetadata(e.memo(p))
	if err != nil || m.Swap == nil || m.Swap.Route == nil {
		return "(Err 0)"
	}
	ctx, _ := e.h.CtxAt(e.now).CacheContext()
	out := "(Err 0)"
	func() {
		defer func() {
			if rec := recover(); rec != nil {
				out = "Panic"
			}
		}()
		var res swaptypes.RouteResult
		var err error
		// the route is executed for real, from the (well funded) LP account, in a context that is thrown
		// away: a calculation query alone is not the oracle, an executed route can fail where the quote
		// succeeds (e.g. a parallel branch whose share rounds to zero)
		if p.ExactOut {
			prov := ""
			if p.Prov != 0 {
				prov = e.prov.String()
			}
			huge, _ := sdkmath.NewIntFromString("100000000000000000000000")
			res, _, err = e.h.App.SwapKeeper.SwapExactAmountOut(ctx, e.lp, prov, *m.Swap.Route, huge, sdkmath.NewInt(p.Arg))
		} else {
			res, _, err = e.h.App.SwapKeeper.SwapExactAmountIn(ctx, e.lp, "", *m.Swap.Route, sdkmath.NewInt(p.Amount), sdkmath.ZeroInt())
		}
		if err == nil {
			out = fmt.Sprintf("(Ok (%s, %s))", emit.Z(res.TokenIn.Amount.BigInt()), emit.Z(res.TokenOut.Amount.BigInt()))
		}
	}()
	return out
}

// classify runs the real decoder and validator on the memo, as OnRecvPacket does, and reports what
// they do: "pass" (decode error: the packet is left to the transfer module), "invalid" (Validate
// error: refused), "panic", or "swap".
func (r *runner) classify(memo string) (class string) {
	defer func() {
		if rec := recover(); rec != nil {
			class = "panic"
		}
	}()
	m, err := swaptypes.DecodeSwapMetadata(memo)
	if err != nil {
		return "pass"
	}
	metadata := *m.Swap
	if err := metadata.Validate(); err != nil {
		return "invalid"
	}
	return "swap"
}

func legTerm(l *legSpec) string {
	if l == nil {
		return "None"
	}
	return fmt.Sprintf("(Some {| f_chan := %d; f_retries := %d; f_ok := %s |})", l.Ch, l.Retries, emit.Bool(l.Bad == ""))
}

func (r *runner) recvTerm(p *pktState) string {
	e := r.e
	s := p.Spec
	rcv, ok := int64(99), false
	if s.Rcv >= 0 {
		rcv, ok = int64(10+s.Rcv), true
	}
	class := "MPass"
	switch r.classify(e.memo(s)) {
	case "invalid":
		class = "MInvalid"
	case "panic":
		class = "MPanic"
	case "swap":
		if s.Class != "swap" {
			panic("a memo generated as malformed was accepted by the decoder and the validator: " + e.memo(s))
		}
		strat := fmt.Sprintf("(ExIn %d)", s.Arg)
		if s.ExactOut {
			strat = fmt.Sprintf("(ExOut %s %s)", emit.ZI(s.Arg), legTerm(s.Change))
		}
		class = fmt.Sprintf("(MSwap {| m_prov := %d; m_strat := %s; m_fwd := %s |})", s.Prov, strat, legTerm(s.Forward))
	}
	pr, err := e.h.App.SwapKeeper.Params.Get(e.h.CtxAt(e.now))
	if err != nil {
		panic(err)
	}
	rate := sdkmath.LegacyMustNewDecFromStr(pr.InterfaceFeeRate).BigInt()
	return fmt.Sprintf("ERecv {| r_key := %s; r_rcv := %d; r_rcv_ok := %s; r_in := 1; r_out := 2; r_amt := %d; r_class := %s; r_denom_ok := %s; r_quote := %s; r_rate := %s |}",
		idxTerm(p.Key), rcv, emit.Bool(ok), s.Amount, class, emit.Bool(!s.BadDenom), r.quote(s), emit.Z(rate))
}

func (r *runner) receiverString(s pktSpec) string {
	switch {
	case s.Rcv >= 0:
		return r.e.rcv[s.Rcv].String()
	case s.Rcv == -2:
		return authtypes.NewModuleAddress(authtypes.FeeCollectorName).String()
	}
	return "not-a-bech32-address"
}

func (r *runner) send(pi int) {
	e := r.e
	p := r.pk[pi]
	p.Packet = e.sendTransfer(chanA, e.sender, r.receiverString(p.Spec), sdk.NewCoin(base, sdkmath.NewInt(p.Spec.Amount)), e.memo(p.Spec), 24*time.Hour)
	p.Key = [2]int64{1, int64(p.Packet.Sequence)}
	p.Sent = true
}

// doRecv relays incoming packet pi
func (r *runner) doRecv(pi int) {
	e := r.e
	p := r.pk[pi]
	term := r.recvTerm(p)
	p.Actual = r.classify(e.memo(p.Spec))
	first := !p.Relayed
	evs, err := e.recv(p.Packet)
	r.note("recv pkt %d key %v class=%s (decoder: %s) err=%v", pi, p.Key, p.Spec.Class, p.Actual, err)
	if err == nil && first {
		p.Relayed = true
		r.noteAcks(evs)
		legs := packetsOf(evs, channeltypes.EventTypeSendPacket)
		refused := p.AckBz != nil && ackView(p.AckBz)[0] == "1"
		if !refused {
			p.Accepted = true
			r.recvIn.Add(r.recvIn, big.NewInt(p.Spec.Amount))
			// amounts swapped: from the acknowledgement or the in-flight record
			if p.AckBz != nil {
				av := ackView(p.AckBz)
				if av[0] == "3" {
					a, _ := new(big.Int).SetString(strings.Trim(av[1], "()"), 10)
					b, _ := new(big.Int).SetString(strings.Trim(av[2], "()"), 10)
					r.swIn.Add(r.swIn, a)
					r.swOut.Add(r.swOut, b)
				}
			} else {
				for _, ip := range e.incoming() {
					if ip.Index.ChannelId == chanB && int64(ip.Index.Sequence) == p.Key[1] {
						r.swIn.Add(r.swIn, ip.Result.TokenIn.Amount.BigInt())
						r.swOut.Add(r.swOut, ip.Result.TokenOut.Amount.BigInt())
					}
				}
			}
		}
		for _, l := range legs {
			d, amt, _ := r.legDenom(l.Data)
			ls := &legState{Key: p.Key, Fwd: d == 2, Denom: d, Amt: amt, Cur: l, Live: true, Pending: true, First: [2]int64{chNum(l.SourceChannel), int64(l.Sequence)}}
			j := 0
			if ls.Fwd {
				j = 1
			}
			p.Legs[j] = ls
			r.addIdx([2]int64{chNum(l.SourceChannel), int64(l.Sequence)})
			r.note("  leg %d of pkt %d: %s/%d amount %s", j, pi, l.SourceChannel, l.Sequence, amt)
		}
	}
	r.record(term, classOf(err))
}

// doLeg delivers an outcome to the current packet of leg (pi, li)
func (r *runner) doLeg(pi, li int, kind string) {
	e := r.e
	p := r.pk[pi]
	l := p.Legs[li]
	if l == nil {
		return
	}
	idx := [2]int64{chNum(l.Cur.SourceChannel), int64(l.Cur.Sequence)}
	switch kind {
	case "ok", "err":
		var ackBz []byte
		if e.hasAck(l.Cur.DestinationChannel, l.Cur.Sequence) && l.farAck() != nil {
			ackBz = l.farAck()
		} else {
			a, err := e.farRecv(l.Cur, kind == "err")
			if err != nil {
				r.note("  far receive of leg failed: %v", err)
				return
			}
			ackBz = a
			farAcks[idx] = a
		}
		code := ackCode(ackBz)
		wasLive := l.Live
		evs, err := e.ackEv(l.Cur, ackBz)
		r.note("ack leg %d of pkt %d (%v) code %d err=%v", li, pi, idx, code, err)
		if wasLive && l.Pending {
			l.Pending = false
			l.Outcome = code
		}
		if err == nil {
			r.noteAcks(evs)
			if wasLive && !e.hasCommitment(l.Cur.SourceChannel, l.Cur.Sequence) {
				l.Live = false
				if code == 1 {
					if l.Denom == 1 {
						r.sentIn.Add(r.sentIn, l.Amt)
					} else {
						r.sentOut.Add(r.sentOut, l.Amt)
					}
				}
			}
		}
		r.record(fmt.Sprintf("EAck %s %d", idxTerm(idx), code), classOf(err))
	case "timeout":
		if t := time.Unix(0, int64(l.Cur.TimeoutTimestamp)).Add(time.Second); t.After(e.now) {
			e.now = t
		}
		wasLive := l.Live
		evs, err := e.timeout(l.Cur)
		r.note("timeout leg %d of pkt %d (%v) err=%v", li, pi, idx, err)
		resent := false
		if err == nil {
			r.noteAcks(evs)
			for _, nl := range packetsOf(evs, channeltypes.EventTypeSendPacket) {
				resent = true
				l.Cur = nl
				r.addIdx([2]int64{chNum(nl.SourceChannel), int64(nl.Sequence)})
				r.note("  re-sent as %s/%d", nl.SourceChannel, nl.Sequence)
			}
			if wasLive && !resent && !e.hasCommitment(l.Cur.SourceChannel, l.Cur.Sequence) {
				l.Live = false
			}
		}
		if wasLive && l.Pending && !resent {
			l.Pending = false
			l.Outcome = 3
		}
		r.record(fmt.Sprintf("ETimeout %s", idxTerm(idx)), classOf(err))
	}
}

var farAcks = map[[2]int64][]byte{}

func (l *legState) farAck() []byte {
	return farAcks[[2]int64{chNum(l.Cur.SourceChannel), int64(l.Cur.Sequence)}]
}

func viewTerm(v rawView, keys, idxs [][2]int64) string {
	var kv, lv []string
	for _, k := range keys {
		x, ok := v.Keys[k]
		if !ok {
			x = []string{"0", "0", "0", "0", "0", "0", "0", "0", "0", "0", "0", "0", "0", "0", "0", "0", "0", "0"}
		}
		kv = append(kv, emit.List(x))
	}
	for _, i := range idxs {
		x, ok := v.Legs[i]
		if !ok {
			x = []string{"0", "0", "0", "0", "0"}
		}
		lv = append(lv, emit.List(x))
	}
	return fmt.Sprintf("{| v_bal := %s; v_nseq := %s; v_keys := %s; v_legs := %s; v_ninc := %d; v_nout := %d |}",
		emit.List(v.Bal), emit.List(v.Nseq), emit.List(kv), emit.List(lv), v.Ninc, v.Nout)
}

func cfgTerm(wired bool) string {
	c := map[string]bool{"unblocked": true, "rem": true, "idx": true, "refund": true}
	if v := os.Getenv("VERIF_C11_CFG"); v != "" { // development aid: model the code as found ("as_found") or with some repairs only
		for k := range c {
			c[k] = false
		}
		for _, k := range strings.Split(v, ",") {
			if _, ok := c[k]; ok {
				c[k] = true
			}
		}
	}
	return fmt.Sprintf("{| c_unblocked := %s; c_wired := %s; c_fix_rem := %s; c_fix_idx := %s; c_fix_refund := %s |}",
		emit.Bool(c["unblocked"]), emit.Bool(wired), emit.Bool(c["rem"]), emit.Bool(c["idx"]), emit.Bool(c["refund"]))
}

// runHistory executes one history on the application and returns the Coq term of the case.
func (e *env) runHistory(h history) (term string, info map[string]any, r *runner) {
	if n, m := len(e.incoming()), len(e.outgoing()); n != 0 || m != 0 {
		panic(fmt.Sprintf("history %q starts with %d/%d in-flight records", h.Name, n, m))
	}
	e.setWired(h.Wired)
	wired := h.Wired || e.nativeFn != nil
	r = &runner{e: e, recvIn: new(big.Int), recvOut: new(big.Int), swIn: new(big.Int), swOut: new(big.Int), sentIn: new(big.Int), sentOut: new(big.Int)}
	for _, s := range h.Pkts {
		r.pk = append(r.pk, &pktState{Spec: s})
	}
	// the incoming packets are committed on the remote end first (not part of the model)
	for pi := range r.pk {
		r.send(pi)
	}
	if h.Align && len(h.Pkts) > 0 && h.Pkts[0].Change != nil && h.Pkts[0].Forward != nil && h.Pkts[0].Change.Ch != h.Pkts[0].Forward.Ch &&
		h.Pkts[0].Change.Bad == "" && h.Pkts[0].Forward.Bad == "" {
		cx, cy := chName(h.Pkts[0].Change.Ch), chName(h.Pkts[0].Forward.Ch)
		n := e.nextSeqSend(cx)
		if m := e.nextSeqSend(cy); m > n {
			n = m
		}
		e.pad(cx, n)
		e.pad(cy, n)
	}
	init := r.observe()
	bank0 := e.bankTotals()
	for _, o := range h.Ops {
		if o.Leg < 0 {
			r.doRecv(o.Pkt)
		} else {
			r.doLeg(o.Pkt, o.Leg, o.Kind)
		}
	}
	final := false
	if h.Drain {
		kinds := h.DrainKinds
		if len(kinds) == 0 {
			kinds = []string{"ok"}
		}
		n := 0
		for round := 0; round < 12; round++ {
			any := false
			for pi, p := range r.pk {
				for li, l := range p.Legs {
					if l != nil && l.Pending {
						any = true
						r.doLeg(pi, li, kinds[n%len(kinds)])
						n++
					}
				}
			}
			if !any {
				break
			}
		}
		final = true
		for _, p := range r.pk {
			if !p.Relayed && p.Actual != "panic" {
				final = false
			}
			for _, l := range p.Legs {
				if l != nil && l.Pending {
					final = false
				}
			}
		}
	}
	// relay the acknowledgements of the incoming packets back to the sender's end (outside the model:
	// only the remote sender's balance and the remote escrow are touched)
	for _, p := range r.pk {
		if p.Sent && p.AckBz != nil && !p.Back {
			if err := e.ack(p.Packet, p.AckBz); err != nil {
				r.note("relaying the acknowledgement of %v back failed: %v", p.Key, err)
			}
			p.Back = true
		}
	}
	var keys [][2]int64
	for _, p := range r.pk {
		if p.Sent {
			keys = append(keys, p.Key)
		}
	}
	var steps []string
	for _, s := range r.steps {
		steps = append(steps, fmt.Sprintf("(%s, {| o_class := %d; o_view := %s; o_book := %s |})", s.Event, s.Class, viewTerm(s.View, keys, r.idxs), s.Book))
	}
	var kt, it []string
	for _, k := range keys {
		kt = append(kt, idxTerm(k))
	}
	for _, i := range r.idxs {
		it = append(it, idxTerm(i))
	}
	term = fmt.Sprintf("{| h_cfg := %s; h_rcvs := [10; 11; 12]; h_keys := %s; h_idxs := %s; h_init := %s; h_bank0 := %s; h_steps := %s; h_final := %s |}",
		cfgTerm(wired), emit.List(kt), emit.List(it), viewTerm(init, keys, r.idxs), emit.List(bank0), emit.List(steps), emit.Bool(final))
	info = map[string]any{"name": h.Name, "wired_by_harness": h.Wired, "wired_by_app": e.nativeFn != nil, "packets": h.Pkts, "ops": h.Ops,
		"drain": h.Drain, "drain_kinds": h.DrainKinds, "align": h.Align, "trace": r.trace}
	var acc []bool
	for _, p := range r.pk {
		acc = append(acc, p.Accepted)
	}
	info["accepted"] = acc
	// leave no in-flight record behind for the next history
	e.cleanup(r)
	return term, info, r
}

// cleanup resolves whatever the history left in flight (with the harness wiring), so that the next
// history starts from empty stores; records that cannot be resolved are deleted directly.
func (e *env) cleanup(r *runner) {
	e.setWired(true)
	for round := 0; round < 12; round++ {
		for _, p := range r.pk {
			for _, l := range p.Legs {
				if l != nil && e.hasCommitment(l.Cur.SourceChannel, l.Cur.Sequence) {
					if t := time.Unix(0, int64(l.Cur.TimeoutTimestamp)).Add(time.Second); t.After(e.now) {
						e.now = t
					}
					evs, err := e.timeout(l.Cur)
					if err == nil {
						for _, nl := range packetsOf(evs, channeltypes.EventTypeSendPacket) {
							l.Cur = nl
						}
					}
				}
			}
		}
	}
	ctx := e.h.CtxAt(e.now)
	for _, ip := range e.incoming() {
		_ = e.h.App.SwapKeeper.RemoveIncomingInFlightPacket(ctx, ip.Index.PortId, ip.Index.ChannelId, ip.Index.Sequence)
	}
	for _, op := range e.outgoing() {
		_ = e.h.App.SwapKeeper.RemoveOutgoingInFlightPacket(ctx, op.Index.PortId, op.Index.ChannelId, op.Index.Sequence)
	}
}
