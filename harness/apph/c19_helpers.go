package apph

// Helpers for C19 (genesis export/import): an application that has run InitChain on a given
// genesis state and nothing else, and access to the state InitChain produced.

import (
	"encoding/json"
	"fmt"
	"os"
	"time"

	"cosmossdk.io/core/appmodule"
	"cosmossdk.io/core/header"
	coretesting "cosmossdk.io/core/testing"
	"cosmossdk.io/log"
	sdkmath "cosmossdk.io/math"
	banktypes "cosmossdk.io/x/bank/types"
	abci "github.com/cometbft/cometbft/abci/types"
	cmtproto "github.com/cometbft/cometbft/api/cometbft/types/v1"
	cmttypes "github.com/cometbft/cometbft/types"
	"github.com/cosmos/cosmos-sdk/baseapp"
	cryptocodec "github.com/cosmos/cosmos-sdk/crypto/codec"
	"github.com/cosmos/cosmos-sdk/crypto/keys/ed25519"
	simtestutil "github.com/cosmos/cosmos-sdk/testutil/sims"
	sdk "github.com/cosmos/cosmos-sdk/types"
	"github.com/cosmos/cosmos-sdk/types/module"
	authtypes "github.com/cosmos/cosmos-sdk/x/auth/types"

	"github.com/sunriselayer/sunrise/app"
	"github.com/sunriselayer/sunrise/app/custom"
)

// NewInitChainOnly builds the application exactly as New does (production default genesis,
// funded accounts, one validator), lets o.Mutate edit the genesis state, runs InitChain and
// stops: no block is executed, so no begin/end blocker has touched the state.
func NewInitChainOnly(o Options) (h *H, err error) {
	defer func() {
		if r := recover(); r != nil {
			err = fmt.Errorf("panic: %v", r)
		}
	}()
	sdk.DefaultBondDenom = "uvrise"
	if o.NumAccounts == 0 {
		o.NumAccounts = 4
	}
	if o.NumValidators == 0 {
		o.NumValidators = 1
	}
	if o.Balances == nil {
		big, _ := sdkmath.NewIntFromString("1000000000000000000000000000000000000")
		o.Balances = sdk.NewCoins(
			sdk.NewCoin("urise", big), sdk.NewCoin("uvrise", big),
			sdk.NewCoin("uusdc", big), sdk.NewCoin("uatom", big), sdk.NewCoin("uosmo", big),
		)
	}
	if o.GenesisTime.IsZero() {
		o.GenesisTime = time.Unix(1_700_000_000, 0).UTC()
	}
	home, err := os.MkdirTemp("", "verifapp")
	if err != nil {
		return nil, err
	}
	a := app.New(log.NewNopLogger(), coretesting.NewMemDB(), nil, true,
		simtestutil.NewAppOptionsWithFlagHome(home), baseapp.SetChainID(ChainID))
	h = &H{App: a, home: home}
	var vals []*cmttypes.Validator
	for i := 0; i < o.NumValidators; i++ {
		pk := ed25519.GenPrivKeyFromSecret([]byte(fmt.Sprintf("verif-val-%d", i))).PubKey()
		tmpk, err2 := cryptocodec.ToCmtPubKeyInterface(pk)
		if err2 != nil {
			return nil, err2
		}
		vals = append(vals, cmttypes.NewValidator(tmpk, 1))
	}
	h.Vals = vals
	var genAccs []authtypes.GenesisAccount
	var bals []banktypes.Balance
	for i := 0; i < o.NumAccounts; i++ {
		p := detPriv(i, "acct")
		addr := sdk.AccAddress(p.PubKey().Address())
		h.Accts = append(h.Accts, Acct{Priv: p, Addr: addr})
		genAccs = append(genAccs, authtypes.NewBaseAccount(addr, p.PubKey(), uint64(i), 0))
		bals = append(bals, banktypes.Balance{Address: addr.String(), Coins: o.Balances})
	}
	gs := a.DefaultGenesis()
	mm := &module.Manager{Modules: map[string]appmodule.AppModule{}}
	for k, v := range a.ModuleManager.Modules {
		mm.Modules[k] = v
	}
	custom.ReplaceCustomModules(mm, a.AppCodec())
	for _, name := range []string{"bank", "fee", "gov", "mint", "protocolpool", "staking"} {
		if m, ok := mm.Modules[name].(interface{ DefaultGenesis() json.RawMessage }); ok {
			gs[name] = m.DefaultGenesis()
		} else {
			return nil, fmt.Errorf("custom module without DefaultGenesis: %s", name)
		}
	}
	gs, err = simtestutil.GenesisStateWithValSet(a.AppCodec(), gs, cmttypes.NewValidatorSet(vals), genAccs, bals...)
	if err != nil {
		return nil, err
	}
	if o.Mutate != nil {
		o.Mutate(gs, a)
	}
	stateBytes, err := json.Marshal(gs)
	if err != nil {
		return nil, err
	}
	_, err = a.InitChain(&abci.InitChainRequest{
		ChainId: ChainID, Time: o.GenesisTime, Validators: []abci.ValidatorUpdate{},
		ConsensusParams: simtestutil.DefaultConsensusParams, AppStateBytes: stateBytes, InitialHeight: 1,
	})
	if err != nil {
		return nil, err
	}
	h.Height, h.Time = 0, o.GenesisTime
	return h, nil
}

// InitChainCtx returns a context on the (uncommitted) state that InitChain produced.
func (h *H) InitChainCtx() sdk.Context {
	return h.App.NewContextLegacy(false, cmtproto.Header{Height: 1, Time: h.Time, ChainID: ChainID}).
		WithHeaderInfo(header.Info{Height: 1, Time: h.Time, ChainID: ChainID})
}
