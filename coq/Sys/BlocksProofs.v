(* C01: every modelled custom hook returns Ok on states satisfying the module invariants
   (Sys/Blocks.v run_block), and the inputs on which a hook of the code as found halts the chain. *)
From Coq Require Import ZArith Bool List Lia ZifyBool.
Import ListNotations.
From Sunrise Require Import Base.Outcome Base.Dec Base.DecLemmas Base.Bank Econ.Mint Econ.MintProofs
  Stake.TallyCore Stake.TallyCoreProofs Sys.MintTotal Sys.Blocks.
From Sunrise Require Stake.Gauge Stake.GaugeProofs Stake.ShareClass Da.Da Da.DaProofs Da.Tally.
Local Open Scope Z_scope.
Local Open Scope res_scope.
Ltac Zify.zify_post_hook ::= Z.div_mod_to_equations.

(* ------------------------------------------------------------------ PreBlocker *)
Theorem pre_block_total txs h s : exists s', pre_block txs h s = Ok s'.
Proof. unfold pre_block. destruct (after_splitter txs); eexists; reflexivity. Qed.

(* the pre-blocker only ever writes the verified height of records that exist *)
Lemma set_height_uris u h s : map pd_uri (set_height u h s) = map pd_uri s.
Proof.
  induction s as [|x tl IH]; [reflexivity|]. cbn [set_height].
  destruct (Z.eqb_spec (pd_uri x) u) as [E|E]; cbn [map pd_uri]; [rewrite E; reflexivity|rewrite IH; reflexivity].
Qed.
Theorem pre_block_keeps_records txs h s s' : pre_block txs h s = Ok s' -> map pd_uri s' = map pd_uri s.
Proof.
  unfold pre_block. destruct (after_splitter txs) as [es|]; intros H; injection H as <-; [|reflexivity].
  revert s. induction es as [|e tl IH]; intros s; [reflexivity|]. cbn [fold_left].
  rewrite IH. destruct (rt_uri e); [apply set_height_uris|reflexivity].
Qed.

(* ------------------------------------------------------------------ PrepareProposal *)
Lemma zsumL_cons x l : zsumL (x :: l) = x + zsumL l.
Proof. reflexivity. Qed.
Lemma zsumL_app a b : zsumL (a ++ b) = zsumL a + zsumL b.
Proof. induction a as [|x a IH]; [reflexivity|]. rewrite <- app_comm_cons, !zsumL_cons, IH. lia. Qed.
Lemma zsumL_nonneg l : Forall (fun e => 0 <= e) l -> 0 <= zsumL l.
Proof. induction 1 as [|x l Hx Hl IH]; [cbn; lia|]. rewrite zsumL_cons. lia. Qed.

Lemma take_fitting_nonneg budget : forall entries used, Forall (fun e => 0 <= e) entries ->
  Forall (fun e => 0 <= e) (take_fitting budget used entries).
Proof.
  induction entries as [|e tl IH]; intros used Hn; cbn [take_fitting]; [constructor|].
  inversion Hn as [|? ? He Ht]; subst. destruct (budget <? used + e); [constructor|].
  constructor; [exact He|apply IH; exact Ht].
Qed.

Lemma take_fitting_le budget : forall entries used, Forall (fun e => 0 <= e) entries ->
  used + zsumL (take_fitting budget used entries) <= Z.max used budget.
Proof.
  induction entries as [|e tl IH]; intros used Hn; cbn [take_fitting]; [cbn; lia|].
  inversion Hn as [|? ? He Ht]; subst.
  destruct (Z.ltb_spec budget (used + e)); [cbn; lia|].
  rewrite zsumL_cons. specialize (IH (used + e) Ht). lia.
Qed.

Lemma metadata_section_le max split entries : 0 <= max -> 0 <= split -> Forall (fun e => 0 <= e) entries ->
  0 <= zsumL (metadata_section max split entries) <= max.
Proof.
  intros Hm Hs Hn. unfold metadata_section.
  pose proof (take_fitting_le (max / 2) entries split Hn) as Hle.
  pose proof (zsumL_nonneg _ (take_fitting_nonneg (max / 2) entries split Hn)) as Hnn.
  destruct (take_fitting (max / 2) split entries) as [|x l] eqn:E; [cbn; lia|].
  rewrite zsumL_cons.
  (* the section is not empty: its first entry e was admitted, so split + e <= max / 2 *)
  destruct entries as [|e tl]; [discriminate|]. cbn [take_fitting] in E.
  destruct (Z.ltb_spec (max / 2) (split + e)); [discriminate|].
  inversion Hn as [|? ? He Ht]; subst.
  assert (Z.max split (max / 2) = max / 2) by lia. lia.
Qed.

(* with the repair the proposal never exceeds MaxTxBytes, whatever the verified items and
   whatever the default handler selects within its contract *)
Theorem prepare_proposal_fits sel max split entries :
  (forall m, 0 <= m -> zsumL (sel m) <= m) -> 0 <= max -> 0 <= split -> Forall (fun e => 0 <= e) entries ->
  zsumL (prepare_proposal true sel max split entries) <= max.
Proof.
  intros Hsel Hm Hs Hn. unfold prepare_proposal. rewrite zsumL_app.
  pose proof (metadata_section_le max split entries Hm Hs Hn) as Hle.
  specialize (Hsel (max - zsumL (metadata_section max split entries)) ltac:(lia)). lia.
Qed.
(* as found: a full mempool (the default handler fills its budget) and one verified item *)
Theorem prepare_proposal_as_found_exceeds :
  let sel := fun m : Z => [m] in
  (forall m, 0 <= m -> zsumL (sel m) <= m) /\ zsumL (prepare_proposal false sel 13558 10 [27]) = 13595 /\
  zsumL (prepare_proposal true sel 13558 10 [27]) = 13558.
Proof. cbn. repeat split; try reflexivity. intros m _. lia. Qed.

(* ------------------------------------------------------------------ liquidityincentive BeginBlocker *)
Definition BAL_MAX : Z := 2 ^ 128.
Definition CNT_MAX : Z := 2 ^ 128.

Lemma total_count_total gs : GaugeProofs.counts_nonneg gs -> GaugeProofs.count_sum gs <= CNT_MAX ->
  forall acc, 0 <= acc -> acc + GaugeProofs.count_sum gs * P <= DEC_LIM ->
  Gauge.total_count gs acc = Some (acc + GaugeProofs.count_sum gs * P).
Proof.
  induction 1 as [|g tl Hg Hn IH]; intros Hs acc Ha Hlim; cbn [Gauge.total_count].
  - cbn. f_equal. lia.
  - change (GaugeProofs.count_sum (g :: tl)) with (Gauge.g_count g + GaugeProofs.count_sum tl) in *.
    pose proof (GaugeProofs.count_sum_nonneg tl Hn) as Ht.
    unfold dadd. rewrite chk_ok by (unfold P in *; lia). cbn [obind].
    rewrite IH; [f_equal; lia|lia|unfold P in *; lia|lia].
Qed.

Lemma pweight_le_one c C : 0 <= c <= C -> 0 < C -> 0 <= GaugeProofs.pweight c C <= P.
Proof.
  intros Hc HC. pose proof (GaugeProofs.pweight_nonneg c C ltac:(lia) HC). pose proof (GaugeProofs.pweight_upper c C ltac:(lia) HC).
  split; [assumption|]. set (w := GaugeProofs.pweight c C) in *.
  assert (HcP : c * P <= C * P) by (apply Z.mul_le_mono_nonneg_r; [unfold P|]; lia).
  destruct (Z_le_gt_dec w P) as [|Hgt]; [assumption|exfalso].
  assert (C * (P + 1) <= C * w) by (apply Z.mul_le_mono_nonneg_l; lia).
  lia.
Qed.

Lemma alloc_of_total b c C : 0 <= b <= BAL_MAX -> 0 <= c <= C -> 0 < C ->
  exists a, Gauge.alloc_of b (C * P) c = Some a.
Proof.
  intros Hb Hc HC. unfold Gauge.alloc_of.
  assert (Ew : dquo (c * P) (C * P) = Some (GaugeProofs.pweight c C)).
  { unfold dquo. destruct (Z.eqb_spec (C * P) 0); [unfold P in *; lia|].
    fold (GaugeProofs.pweight c C). apply chk_ok. pose proof (pweight_le_one c C Hc HC). unfold DEC_LIM, P in *. lia. }
  rewrite Ew. cbn [obind]. pose proof (pweight_le_one c C Hc HC) as Hw.
  destruct ((GaugeProofs.pweight c C =? 0) || (b =? 0)); [eexists; reflexivity|].
  unfold dmulT. rewrite chk_ok; [cbn [obind]; eexists; reflexivity|].
  unfold chop_trunc. replace (b * P * GaugeProofs.pweight c C) with (b * GaugeProofs.pweight c C * P) by ring.
  rewrite Z.quot_mul by (unfold P; lia). unfold BAL_MAX, DEC_LIM, P in *. nia.
Qed.

Lemma in_count_le gs g : GaugeProofs.counts_nonneg gs -> In g gs -> 0 <= Gauge.g_count g <= GaugeProofs.count_sum gs.
Proof.
  induction 1 as [|x tl Hx Hn IH]; intros Hin; [contradiction|].
  change (GaugeProofs.count_sum (x :: tl)) with (Gauge.g_count x + GaugeProofs.count_sum tl).
  pose proof (GaugeProofs.count_sum_nonneg tl Hn). destruct Hin as [->|Hin]; [lia|specialize (IH Hin); lia].
Qed.

Lemma allocate_total b C : 0 <= b <= BAL_MAX -> 0 < C ->
  forall (gs : list (Gauge.gauge * Gauge.pool_status)) rem,
  (forall g ps, In (g, ps) gs -> 0 <= Gauge.g_count g <= C) ->
  exists r, Gauge.allocate true b (C * P) gs rem = Some r.
Proof.
  intros Hb HC. induction gs as [|[g ps] tl IH]; intros rem Hin; cbn [Gauge.allocate]; [eexists; reflexivity|].
  destruct (alloc_of_total b (Gauge.g_count g) C Hb (Hin g ps (or_introl eq_refl)) HC) as (a & Ea).
  rewrite Ea. cbn [obind].
  assert (Htl : forall rem', exists r, Gauge.allocate true b (C * P) tl rem' = Some r).
  { intros rem'. apply IH. intros g' ps' H'. apply (Hin g' ps'). right; exact H'. }
  assert (Hskip : exists r, (let? r := Gauge.allocate true b (C * P) tl rem in Some (0 :: fst r, snd r)) = Some r).
  { destruct (Htl rem) as (r & Er). rewrite Er. cbn [obind]. eexists; reflexivity. }
  destruct (0 <? a); [|exact Hskip].
  destruct ps; try exact Hskip.
  destruct (a <=? rem); [|exact Hskip].
  destruct (Htl (rem - a)) as (r & Er). rewrite Er. cbn [obind]. eexists; reflexivity.
Qed.

Definition li_inv (balance : Z) (st : Gauge.istate) : Prop :=
  0 <= balance <= BAL_MAX /\
  forall e, Gauge.last_epoch (Gauge.s_epochs st) = Some e ->
    GaugeProofs.counts_nonneg (Gauge.e_gauges e) /\ GaugeProofs.count_sum (Gauge.e_gauges e) <= CNT_MAX.

Theorem li_begin_total balance st status : li_inv balance st ->
  exists r, Gauge.begin_block balance (Gauge.last_epoch (Gauge.s_epochs st)) status = Some r.
Proof.
  intros (Hb & He). unfold Gauge.begin_block, Gauge.begin_block_gen.
  destruct (Gauge.last_epoch (Gauge.s_epochs st)) as [e|]; [|eexists; reflexivity].
  destruct (He e eq_refl) as (Hn & Hs).
  pose proof (GaugeProofs.count_sum_nonneg _ Hn) as Hs0.
  rewrite (total_count_total _ Hn Hs 0 ltac:(lia)) by (unfold CNT_MAX, DEC_LIM, P in *; lia).
  cbn [obind]. rewrite Z.add_0_l.
  destruct (Z.eqb_spec (GaugeProofs.count_sum (Gauge.e_gauges e) * P) 0); [eexists; reflexivity|].
  apply allocate_total; [exact Hb|unfold P in *; lia|].
  intros g ps Hin. apply in_map_iff in Hin as (g0 & Heq & Hin0). injection Heq as -> _.
  apply in_count_le; assumption.
Qed.

(* ------------------------------------------------------------------ DA EndBlocker *)
Lemma dmul_int_ok a i : Z.abs (a * i) <= DEC_LIM -> dmul_int a i = Some (a * i).
Proof. intros. unfold dmul_int. apply chk_ok. assumption. Qed.

Lemma safe_thr_total rf n parity : 0 < rf <= RF_MAX -> 1 <= n <= N_MAX -> 0 <= parity <= N_MAX ->
  Da.safe_thr rf n parity <> None.
Proof.
  intros Hrf Hn Hp. unfold Da.safe_thr.
  rewrite dmul_int_ok by (unfold RF_MAX, N_MAX, DEC_LIM, P in *; nia). cbn [obind].
  unfold dquo_int at 1. destruct (Z.eqb_spec n 0); [lia|]. cbn [obind].
  assert (Hq : Z.abs (Z.quot (rf * (n - parity)) n) <= Z.abs (rf * (n - parity))).
  { rewrite <- (Z.abs_eq n) at 1 by lia. rewrite <- Z.quot_abs by lia.
    apply Z.quot_le_upper_bound; [lia|]. pose proof (Z.abs_nonneg (rf * (n - parity))). nia. }
  rewrite dmul_int_ok; [cbn [obind]; unfold dquo_int; cbn; discriminate|].
  assert (Z.abs (rf * (n - parity)) <= RF_MAX * N_MAX).
  { rewrite Z.abs_mul. apply Z.mul_le_mono_nonneg; lia. }
  unfold RF_MAX, N_MAX, DEC_LIM, P in *. lia.
Qed.

Lemma da_verdict_total rf : 0 < rf <= RF_MAX -> forall x pi, da_verdict rf x pi <> None.
Proof.
  intros Hrf x pi. unfold da_verdict.
  destruct ((1 <=? Da.i_n x) && (Da.i_n x <=? N_MAX) && (0 <=? Da.i_parity x) && (Da.i_parity x <=? N_MAX)) eqn:E;
    [|discriminate].
  unfold Da.code_verdict, Da.safe_shards.
  destruct (nodup Z.eq_dec (concat (map Da.p_idx pi))); [discriminate|].
  destruct (Da.i_n x <? Da.i_parity x); [discriminate|].
  destruct (Da.safe_thr rf (Da.i_n x) (Da.i_parity x)) eqn:Et; [discriminate|].
  exfalso. revert Et. apply safe_thr_total; lia.
Qed.

Lemma dceil_total b : Z.abs b <= DEC_LIM - P -> exists c, dceil b = Some c /\ Z.abs c <= Z.abs b + P.
Proof.
  intros Hb. unfold dceil. assert (HP : 0 < P) by reflexivity.
  pose proof (Z.quot_rem' b P) as Hq. pose proof (Z.rem_bound_abs b P ltac:(lia)) as Hr.
  set (q := Z.quot b P) in *. set (r := Z.rem b P) in *.
  assert (Z.abs ((if 0 <? r then q + 1 else q) * P) <= Z.abs b + P).
  { destruct (Z.ltb_spec 0 r); unfold P in *; lia. }
  eexists. split; [apply chk_ok; lia|assumption].
Qed.

Lemma zkp_threshold_c_no_panic rf n nact : 0 < rf <= RF_MAX -> 0 <= n <= N_MAX -> 0 <= nact ->
  is_panic (zkp_threshold_c rf n nact) = false.
Proof.
  intros Hrf Hn Hna. unfold zkp_threshold_c. destruct (Z.eqb_spec nact 0); [reflexivity|].
  rewrite dmul_int_ok by (unfold RF_MAX, N_MAX, DEC_LIM, P in *; nia). cbn [obind].
  unfold dquo_int. destruct (Z.eqb_spec nact 0); [lia|]. cbn [obind].
  assert (Hq : Z.abs (Z.quot (rf * n) nact) <= rf * n).
  { rewrite <- (Z.abs_eq nact) at 1 by lia. rewrite <- Z.quot_abs by lia. rewrite (Z.abs_eq (rf * n)) by nia.
    apply Z.quot_le_upper_bound; [lia|]. nia. }
  destruct (dceil_total (Z.quot (rf * n) nact)) as (c & Ec & _);
    [unfold RF_MAX, N_MAX, DEC_LIM, P in *; nia|].
  rewrite Ec. destruct (c <? n * P); reflexivity.
Qed.

(* the same function as C09's model of GetZkpThreshold (validated against the keeper on every C09 case) *)
Lemma zkp_threshold_c_is_tally rf n nact : 0 < rf -> 0 <= n <= N_MAX -> 0 < nact ->
  zkp_threshold_c rf n nact = of_opt (Tally.zkp_threshold rf n nact).
Proof.
  intros Hrf Hn Hna. unfold zkp_threshold_c, Tally.zkp_threshold.
  destruct (Z.eqb_spec nact 0); [lia|].
  destruct (dmul_int rf n) as [a|] eqn:Ea; cbn [obind]; [|reflexivity].
  destruct (dquo_int a nact) as [b|] eqn:Eb; cbn [obind]; [|reflexivity].
  destruct (dceil b) as [c|] eqn:Ec; cbn [obind]; [|reflexivity].
  destruct (Z.ltb_spec c (n * P)) as [Hlt|Hge]; [|reflexivity].
  (* 0 <= c < n * P: the truncation fits an int64 *)
  apply dmul_int_some in Ea. subst a.
  unfold dquo_int in Eb. destruct (nact =? 0); [discriminate|]. injection Eb as <-.
  assert (Hb0 : 0 <= Z.quot (rf * n) nact) by (apply Z.quot_pos; nia).
  unfold dceil in Ec. apply chk_some in Ec as [-> _].
  assert (HP : 0 < P) by reflexivity.
  set (b := Z.quot (rf * n) nact) in *.
  assert (Hq0 : 0 <= Z.quot b P) by (apply Z.quot_pos; lia).
  assert (Hc0 : 0 <= (if 0 <? Z.rem b P then Z.quot b P + 1 else Z.quot b P) * P).
  { destruct (0 <? Z.rem b P); nia. }
  set (c := (if 0 <? Z.rem b P then Z.quot b P + 1 else Z.quot b P) * P) in *.
  pose proof (dtrunc_int_bracket c Hc0). pose proof (dtrunc_int_nonneg c Hc0).
  assert (Ht : (dtrunc_int c <=? Tally.INT64_MAX) && (- Tally.INT64_MAX - 1 <=? dtrunc_int c) = true).
  { apply andb_true_intro. split; apply Z.leb_le; unfold Tally.INT64_MAX; [|lia].
    assert (dtrunc_int c * P < 2 ^ 63 * P) by (unfold N_MAX in *; nia). unfold P in *. lia. }
  rewrite Ht. reflexivity.
Qed.

Lemma slash_threshold_total sft cc : 0 <= sft <= P -> 0 <= cc < 2 ^ 63 -> Tally.slash_threshold sft cc <> None.
Proof.
  intros Hs Hc. unfold Tally.slash_threshold.
  rewrite dmul_int_ok by (unfold DEC_LIM, P in *; nia). cbn [obind].
  destruct (dceil_total (sft * cc)) as (c & Ec & Hc'); [unfold DEC_LIM, P in *; nia|].
  rewrite Ec. cbn [obind].
  assert (Hc0 : 0 <= c <= sft * cc + P).
  { unfold dceil in Ec. apply chk_some in Ec as [-> _].
    assert (0 <= sft * cc) by nia.
    pose proof (Z.quot_rem' (sft * cc) P). pose proof (Z.rem_nonneg (sft * cc) P ltac:(unfold P; lia) ltac:(lia)).
    pose proof (Z.rem_bound_pos (sft * cc) P ltac:(lia) ltac:(reflexivity)).
    assert (0 <= Z.quot (sft * cc) P) by (apply Z.quot_pos; [lia|unfold P; lia]).
    destruct (Z.ltb_spec 0 (Z.rem (sft * cc) P)); unfold P in *; nia. }
  assert (Ht : 0 <= dtrunc_int c <= cc + 1).
  { pose proof (dtrunc_int_bracket c ltac:(lia)). pose proof (dtrunc_int_nonneg c ltac:(lia)).
    split; [assumption|]. assert (dtrunc_int c * P <= cc * P + P) by nia. unfold P in *. nia. }
  destruct (Z.leb_spec 0 (dtrunc_int c)); [|lia].
  destruct (Z.leb_spec (dtrunc_int c) Tally.UINT64_MAX); [discriminate|unfold Tally.UINT64_MAX in *; lia].
Qed.

Definition ex_da_params_0 : Da.params := Da.Pm 0 (5 * P) 1000000000 1000000000 1000000000 1000000000 [0] [0].
Definition da_inv (i : da_in) : Prop :=
  let p := Da.s_prm (di_state i) in
  da_params_ok p (di_sft i) (di_slash_epoch i) = true /\
  Forall (fun it => 1 <= Da.i_n it <= N_MAX) (Da.s_items (di_state i)) /\
  0 <= di_nact i /\ 0 <= di_cc i < 2 ^ 63 /\
  field_ok 1 (di_sfr i) = true.      (* Params.Validate: slash_fraction parses and lies in [0,1] *)

Theorem da_end_total height now i : da_inv i -> exists r, da_end true height now i = Ok r.
Proof.
  intros (Hp & Hitems & Hna & Hcc & Hsfr). unfold da_end.
  unfold da_params_ok, da_params_ok_found in Hp.
  set (p := Da.s_prm (di_state i)) in *.
  assert (Hrf : 0 < Da.pr_rf p <= RF_MAX) by lia.
  assert (Hfa : forallb (fun it => negb (Da.due Da.repaired Da.ST_CH (Da.pr_pp p) now it)
                          || da_threshold_ok true (Da.pr_rf p) (Da.i_n it) (di_nact i))
                (Da.s_items (di_state i)) = true).
  { apply forallb_forall. intros it Hin. rewrite Forall_forall in Hitems. specialize (Hitems it Hin).
    unfold da_threshold_ok. rewrite zkp_threshold_c_no_panic by lia. apply orb_true_r. }
  rewrite Hfa. cbn [negb].
  set (s_run := if di_nact i =? 0 then with_pp (di_state i) (now + 1) else di_state i).
  assert (Hsame : Da.s_items s_run = Da.s_items (di_state i) /\ Da.pr_thr (Da.s_prm s_run) = Da.pr_thr p).
  { unfold s_run. destruct (di_nact i =? 0); split; reflexivity. }
  destruct Hsame as (Hit & Hthr).
  destruct (DaProofs.end_block_total (da_verdict (Da.pr_rf p)) now s_run (di_bank i)) as (s' & b' & E).
  - intros x Hx _. rewrite Hit in Hx. rewrite Hthr. rewrite Forall_forall in Hitems. specialize (Hitems x Hx).
    unfold Dec.in_range. apply Z.leb_le. unfold N_MAX, DEC_LIM, P in *. nia.
  - apply da_verdict_total. exact Hrf.
  - rewrite E. cbn [rbind].
    destruct (Z.eqb_spec (di_slash_epoch i) 0); [lia|].
    destruct (height mod di_slash_epoch i =? 0); [|eexists; reflexivity].
    destruct (di_sfr i) as [sfr|]; [|discriminate Hsfr].
    destruct (Tally.slash_threshold (di_sft i) (di_cc i)) eqn:Es; [eexists; reflexivity|].
    exfalso. revert Es. apply slash_threshold_total; lia.
Qed.

(* a slash_fraction that does not parse (accepted by a validation that forgets the field): the end
   blocker panics at the next multiple of slash_epoch *)
Theorem da_unparsable_slash_fraction_halts :
  da_end true 2000 5000000000
    {| di_state := Da.St ex_da_params_0 [] [] [] []; di_bank := {| bal := fun _ _ => 0; sup := fun _ => 0 |};
       di_nact := 1; di_sft := HALF; di_sfr := None; di_cc := 0; di_slash_epoch := 1000 |} = Panic.
Proof. vm_compute. reflexivity. Qed.

(* ------------------------------------------------------------------ share-class EndBlocker *)
Definition amounts_nonneg (q : list ShareClass.unb) : Prop := Forall (fun e => 0 <= ShareClass.u_amt e) q.
Lemma sc_due_nonneg now q : amounts_nonneg q -> 0 <= sc_due now q.
Proof.
  induction 1 as [|e tl He Ht IH]; cbn [sc_due]; [lia|].
  destruct (ShareClass.unix now <? ShareClass.unix (ShareClass.u_time e)); [lia|].
  destruct (now <? ShareClass.u_time e); lia.
Qed.

Lemma gc_total now q : amounts_nonneg q -> forall ub mb, sc_due now q <= mb ShareClass.BOND ->
  exists r, ShareClass.gc true now q ub mb = Ok r.
Proof.
  induction 1 as [|e tl He Ht IH]; intros ub mb H; cbn [ShareClass.gc]; [eexists; reflexivity|].
  cbn [sc_due] in H.
  destruct (ShareClass.unix now <? ShareClass.unix (ShareClass.u_time e)); [eexists; reflexivity|].
  cbn [andb]. destruct (now <? ShareClass.u_time e).
  - destruct (IH ub mb H) as ([[q' ub'] mb'] & E). rewrite E. cbn [rbind]. eexists; reflexivity.
  - pose proof (sc_due_nonneg now tl Ht) as Hn.
    destruct (Z.ltb_spec (mb ShareClass.BOND) (ShareClass.u_amt e)) as [Hlt|Hge]; [lia|].
    apply IH. unfold ShareClass.upd. rewrite Z.eqb_refl. lia.
Qed.

(* the other direction: when the recorded amounts that complete now exceed what the module
   account holds, the end blocker returns an error (FinalizeBlock fails: the chain halts) *)
Lemma gc_short now q : amounts_nonneg q -> forall ub mb, 0 <= mb ShareClass.BOND ->
  mb ShareClass.BOND < sc_due now q -> exists e, ShareClass.gc true now q ub mb = Err e.
Proof.
  induction 1 as [|e tl He Ht IH]; intros ub mb H0 H; cbn [sc_due] in H; [lia|]. cbn [ShareClass.gc].
  destruct (ShareClass.unix now <? ShareClass.unix (ShareClass.u_time e)); [lia|].
  cbn [andb]. destruct (now <? ShareClass.u_time e).
  - destruct (IH ub mb H0 H) as (e' & E). rewrite E. cbn [rbind]. eexists; reflexivity.
  - destruct (Z.ltb_spec (mb ShareClass.BOND) (ShareClass.u_amt e)) as [Hlt|Hge]; [eexists; reflexivity|].
    apply IH; unfold ShareClass.upd; rewrite Z.eqb_refl; lia.
Qed.

(* staking has released what the entries completing now record (no shortfall) *)
Definition sc_inv (now : Z) (i : sc_in) : Prop :=
  amounts_nonneg (sc_queue i) /\ sc_due now (sc_queue i) <= sc_mod_bond i + sc_released i /\
  sc_blocked i = [].      (* the handler rejects blocked recipients: no stored entry has one *)

Lemma no_blocked now q : existsb (fun e => sc_pays now e && existsb (Z.eqb (ShareClass.u_id e)) []) q = false.
Proof. induction q as [|e tl IH]; [reflexivity|]. cbn [existsb]. rewrite andb_false_r. exact IH. Qed.

Theorem sc_end_total now i : sc_inv now i -> exists q, sc_end now i = Ok q.
Proof.
  intros (Hn & Hd & Hb). unfold sc_end. rewrite Hb, no_blocked.
  destruct (gc_total now (sc_queue i) Hn (fun _ _ => 0)
             (fun d => if d =? ShareClass.BOND then sc_mod_bond i + sc_released i else 0)) as ([[q ub] mb] & E).
  - rewrite Z.eqb_refl. exact Hd.
  - rewrite E. eexists; reflexivity.
Qed.
Theorem sc_end_halts now i : amounts_nonneg (sc_queue i) -> 0 <= sc_mod_bond i + sc_released i ->
  sc_mod_bond i + sc_released i < sc_due now (sc_queue i) -> exists e, sc_end now i = Err e.
Proof.
  intros Hn H0 Hd. unfold sc_end.
  destruct (existsb _ (sc_queue i)); [eexists; reflexivity|].
  destruct (gc_short now (sc_queue i) Hn (fun _ _ => 0)
             (fun d => if d =? ShareClass.BOND then sc_mod_bond i + sc_released i else 0)) as (e & E).
  - rewrite Z.eqb_refl. exact H0.
  - rewrite Z.eqb_refl. exact Hd.
  - rewrite E. eexists; reflexivity.
Qed.

(* ------------------------------------------------------------------ the composition *)
Definition mint_inv (b : block_in) : Prop :=
  match b_mint b with
  | None => True
  | Some i => 0 <= mi_fee_supply i /\ 0 <= mi_bond_supply i /\ mi_fee_supply i + mi_bond_supply i < 2 ^ 255 /\
              0 <= mi_ratio i <= P /\ Z.abs (secs_of i) <= SECS_MAX
  end.
(* the tally of the staking graph is defined (Stake/TallyCore.v: no range assertion fires, no
   validator with zero delegator shares holds a delegation) *)
Definition tally_defined (b : block_in) : Prop :=
  Gauge.gauge_tally (b_vals b) (b_ballots b) (b_bonded b) <> None.

Definition block_inv (b : block_in) : Prop :=
  li_inv (b_li_balance b) (b_li b) /\ mint_inv b /\ da_inv (b_da b) /\ tally_defined b /\
  sc_inv (b_now b) (b_sc b).

Lemma li_end_total b : tally_defined b -> exists st, li_end b = Ok st.
Proof.
  intros Ht. unfold li_end. destruct (Gauge.gauge_tally (b_vals b) (b_ballots b) (b_bonded b)) as [t|] eqn:E; [|contradiction].
  cbn [of_opt]. unfold Gauge.end_block.
  destruct (Gauge.last_epoch (Gauge.s_epochs (b_li b))) as [le|].
  - destruct (Gauge.e_end le <=? b_height b); [|eexists; reflexivity].
    unfold Gauge.create_epoch. cbn [rbind]. destruct t as [|r tl].
    + destruct (Gauge.s_epochs (b_li b)) as [|e0 [|e1 [|e2 rest]]]; eexists; reflexivity.
    + match goal with |- context [match Gauge.s_epochs ?st with _ => _ end] =>
        destruct (Gauge.s_epochs st) as [|e0 [|e1 [|e2 rest]]] end; eexists; reflexivity.
  - unfold Gauge.create_epoch. cbn [rbind]. destruct t as [|r tl]; eexists; reflexivity.
Qed.

Theorem hooks_total b : block_inv b -> exists o, run_block true b = Ok o.
Proof.
  intros (Hli & Hm & Hda & Ht & Hsc). unfold run_block.
  destruct (pre_block_total (b_txs b) (b_height b) (b_pds b)) as (pds & E1). rewrite E1. cbn [rbind].
  destruct (li_begin_total _ _ (b_pool_status b) Hli) as (al & E2). unfold li_begin. rewrite E2. cbn [of_opt rbind].
  assert (E3 : exists m, mint_hook b = Ok m).
  { unfold mint_hook. unfold mint_inv in Hm. destruct (b_mint b) as [i|]; [|eexists; reflexivity].
    destruct Hm as (h1 & h2 & h3 & h4 & h5). destruct (mint_fn i) eqn:Em; [eexists; reflexivity|].
    exfalso. revert Em. apply mint_fn_total; assumption. }
  destruct E3 as (m & E3). rewrite E3. cbn [rbind].
  destruct (da_end_total (b_height b) (b_now b) (b_da b) Hda) as (da & E4). rewrite E4. cbn [rbind].
  destruct (li_end_total b Ht) as (li & E5). rewrite E5. cbn [rbind].
  destruct (sc_end_total (b_now b) (b_sc b) Hsc) as (sc & E6). rewrite E6. cbn [rbind].
  eexists; reflexivity.
Qed.

(* ------------------------------------------------------------------ halts of the code as found (computed witnesses) *)
(* 1. x/da: Params.Validate as found accepts replication_factor = 10^19; one challenged item
      (1 shard) reaches the tally with one bonded validator: GetZkpThreshold's TruncateInt64
      panics inside EndBlock.  Reproduced on the real application (harness corpus "da-rf").
      After notes/patches/C01-da-replication-factor.patch the parameter is rejected and the
      threshold is clamped as a decimal: the same state no longer panics. *)
Definition w_da_params : Da.params := Da.Pm 0 (10 ^ 19 * P) 1000000000 1000000000 1000000000 1000000000 [0] [0].
Definition w_da_in : da_in :=
  {| di_state := Da.St w_da_params [Da.It 1 Da.ST_CH 0 1 0 1 [0] [0]] [] [] [];
     di_bank := {| bal := fun _ _ => 0; sup := fun _ => 0 |};
     di_nact := 1; di_sft := HALF; di_sfr := Some 0; di_cc := 0; di_slash_epoch := 1000 |}.
Theorem da_replication_factor_halts :
  da_params_ok_found w_da_params HALF 1000 = true /\
  da_end false 7 5000000000 w_da_in = Panic /\
  da_params_ok w_da_params HALF 1000 = false /\
  is_ok (da_end true 7 5000000000 w_da_in) = true.
Proof. repeat split; vm_compute; reflexivity. Qed.

(* 2. x/shareclass: the validator is slashed (5 %) while an entry of 99999 is unbonding:
      x/staking releases 95000, the end blocker tries to convert and pay the recorded 99999 and
      returns "insufficient funds": FinalizeBlock fails.  Reproduced on the real application
      (harness corpus "sc-slash"); not repaired (known finding). *)
Definition w_sc_in : sc_in :=
  {| sc_queue := [ShareClass.mkUnb 0 1 10000000000 99999]; sc_mod_bond := 0; sc_released := 95000;
     sc_staking_times := [10000000000]; sc_slash_loss := 4999; sc_blocked := [] |}.
Theorem sc_slashed_unbonding_halts : exists e, sc_end 12000000000 w_sc_in = Err e.
Proof. eexists. vm_compute. reflexivity. Qed.
(* the same shortfall arises without any slash during the unbonding when the recorded amount
   is the requested one and x/staking unbonds one unit less (exchange rate <> 1): recorded 92,
   released 91.  Repaired by notes/patches/C01-shareclass-record-released-amount.patch: the
   amount x/staking reports is recorded, so the entry owes exactly what is released. *)
Theorem sc_requested_amount_halts :
  exists e, sc_end 12000000000 {| sc_queue := [ShareClass.mkUnb 6 1 10000000000 92]; sc_mod_bond := 0; sc_released := 91;
                                sc_staking_times := [10000000000]; sc_slash_loss := 0; sc_blocked := [] |} = Err e.
Proof. eexists. vm_compute. reflexivity. Qed.
(* 3. the recipient named in MsgNonVotingUndelegate is a blocked address (the fee collector):
      funds are there, the bank refuses the payout, the end blocker returns the error at every
      block from the completion on.  Reproduced on the real application (corpus
      "sc-blocked-recipient"); repaired by notes/patches/C01-shareclass-reject-blocked-recipient.patch
      (the handler rejects such recipients, [sc_blocked] stays empty). *)
Theorem sc_blocked_recipient_halts :
  sc_end 12000000000 {| sc_queue := [ShareClass.mkUnb 3 900 10000000000 50000]; sc_mod_bond := 0; sc_released := 50000;
                          sc_staking_times := [10000000000]; sc_slash_loss := 0; sc_blocked := [3] |}
  = Err E_BLOCKED.
Proof. vm_compute. reflexivity. Qed.

(* ------------------------------------------------------------------ non-vacuity *)
Definition ex_li : Gauge.istate :=
  {| Gauge.s_epochs := [{| Gauge.e_id := 1; Gauge.e_start := 2; Gauge.e_end := 5;
                           Gauge.e_gauges := [{| Gauge.g_prev := 0; Gauge.g_pool := 0; Gauge.g_count := 7 |};
                                              {| Gauge.g_prev := 0; Gauge.g_pool := 1; Gauge.g_count := 3 |}] |}];
     Gauge.s_gauges := [{| Gauge.g_prev := 0; Gauge.g_pool := 0; Gauge.g_count := 7 |};
                        {| Gauge.g_prev := 0; Gauge.g_pool := 1; Gauge.g_count := 3 |}] |}.
Definition ex_da_params : Da.params := Da.Pm 0 (5 * P) 1000000000 1000000000 1000000000 1000000000 [0] [0].
Definition ex_block : block_in :=
  {| b_height := 5; b_now := 1800000060 * 1000000000;
     b_txs := [{| rt_splitter := false; rt_uri := None |}; {| rt_splitter := true; rt_uri := None |};
               {| rt_splitter := false; rt_uri := Some 1 |}; {| rt_splitter := false; rt_uri := None |}];
     b_pds := [{| pd_uri := 1; pd_verified_height := 0 |}];
     b_li_balance := 1000; b_li := ex_li;
     b_pool_status := fun p => if p =? 0 then Gauge.PoolOk else Gauge.PoolZeroLiq;
     b_mint := Some {| mi_fee_supply := 400000000000000; mi_bond_supply := 100000000000000;
                       mi_last := Some 1800000000; mi_now_ns := 1800000060 * 1000000000;
                       mi_ratio := 333333333333333333 |};
     b_da := {| di_state := Da.St ex_da_params [Da.It 1 Da.ST_CH 0 4 2 1 [0] [0]] [] [] [];
                di_bank := {| bal := fun _ _ => 0; sup := fun _ => 0 |};
                di_nact := 3; di_sft := HALF; di_sfr := Some 1000000000000000; di_cc := 2; di_slash_epoch := 5 |};
     b_epoch_blocks := 3;
     b_vals := [{| v_id := 1; v_tok := 1000000; v_sh := 1000000 * P |}];
     b_ballots := [{| b_voter := 1; b_w := [(0, P)]; b_dels := [(1, 400000 * P)] |}];
     b_bonded := 1000000;
     b_sc := {| sc_queue := [ShareClass.mkUnb 0 1 (1800000059 * 1000000000) 500;
                             ShareClass.mkUnb 1 1 (1800000060 * 1000000000 + 5) 300];
                sc_mod_bond := 0; sc_released := 500;
                sc_staking_times := [1800000059 * 1000000000; 1800000060 * 1000000000 + 5]; sc_slash_loss := 0;
                sc_blocked := [] |} |}.
