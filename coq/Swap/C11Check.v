(* C11 — correspondence + monitors, evaluated by the generated cases files.
   One case = one history executed on the real application: the observed state before it, and per
   event the observed outcome class, the observed projection of the state after it, and the relayer's
   own books (what it sent, delivered and saw acknowledged), which the monitors use so that they do
   not depend on the model. *)
From Coq Require Import ZArith List Bool.
Import ListNotations.
From Sunrise Require Export Base.Outcome Base.Dec Base.Check Swap.IbcSwap.
Local Open Scope Z_scope.

Definition IN : Z := 1.
Definition OUT : Z := 2.
Definition MID : Z := 3.    (* the intermediate denom of series routes *)
Definition REST : Z := 4.   (* every other denom, summed *)

(* ---------- projection of a model state ---------- *)
Definition acct_keys (rcvs : list Z) : list (Z * Z) :=
  [(MOD, IN); (MOD, OUT); (PROV, IN); (PROV, OUT); (ESC, IN); (ESC, OUT); (MOD, MID); (MOD, REST)] ++ flat_map (fun r => [(r, IN); (r, OUT)]) rcvs.

Fixpoint assoc (l : list ((Z * Z) * Z)) (a d : Z) : Z :=
  match l with
  | [] => 0
  | ((a', d'), v) :: tl => if (a' =? a) && (d' =? d) then v else assoc tl a d
  end.
Definition bank_of (rcvs : list Z) (vals : list Z) : bank := assoc (combine (acct_keys rcvs) vals).

Definition slot_view (x : slot) : list Z :=
  match x with SIdx (c, q) => [1; c; q] | SAck a => [0; 0; a] end.
Definition key_view (s : st) (k : idx) : list Z :=
  [if rcpt s k then 1 else 0] ++
  match acks s k with
  | None => [0; 0; 0; 0; 0; 0]
  | Some AErr => [1; 0; 0; 0; 0; 0]
  | Some APlain => [2; 0; 0; 0; 0; 0]
  | Some (ASwap tin tout a0 ca fa) => [3; tin; tout; a0; ca; fa]
  end ++
  match incs s k with
  | None => [0; 0; 0; 0; 0; 0; 0; 0; 0; 0; 0]
  | Some r => [1; i_ack0 r; i_tin r; i_tout r; i_fee r] ++ slot_view (i_change r) ++ slot_view (i_forward r)
  end.
Definition leg_view (s : st) (i : idx) : list Z :=
  [match coms s i with Some _ => 1 | None => 0 end] ++
  match outs s i with
  | None => [0; 0; 0; 0]
  | Some o => [1; fst (o_wait o); snd (o_wait o); o_retries o]
  end.
Definition count {A} (f : idx -> option A) (l : list idx) : Z :=
  fold_right (fun i n => match f i with Some _ => n + 1 | None => n end) 0 l.

Record view := {
  v_bal : list Z;            (* in the order of acct_keys *)
  v_nseq : list Z;           (* next send sequence of channels 0..3 (two loop-back pairs 0<->1, 2<->3) *)
  v_keys : list (list Z);    (* key_view per incoming key of the history *)
  v_legs : list (list Z);    (* leg_view per outgoing index of the history *)
  v_ninc : Z; v_nout : Z     (* sizes of the two in-flight stores *)
}.

Definition view_of (rcvs : list Z) (keys idxs : list idx) (s : st) : view :=
  {| v_bal := map (fun '(a, d) => bal s a d) (acct_keys rcvs);
     v_nseq := [nseq s 0; nseq s 1; nseq s 2; nseq s 3];
     v_keys := map (key_view s) keys;
     v_legs := map (leg_view s) idxs;
     v_ninc := count (incs s) keys; v_nout := count (outs s) idxs |}.

Fixpoint zll_eqb (a b : list (list Z)) : bool :=
  match a, b with
  | [], [] => true
  | x :: a', y :: b' => zlist_eqb x y && zll_eqb a' b'
  | _, _ => false
  end.
Definition view_eqb (a b : view) : bool :=
  zlist_eqb (v_bal a) (v_bal b) && zlist_eqb (v_nseq a) (v_nseq b) && zll_eqb (v_keys a) (v_keys b) &&
  zll_eqb (v_legs a) (v_legs b) && (v_ninc a =? v_ninc b) && (v_nout a =? v_nout b).

(* ---------- the relayer's books (independent of the model) ---------- *)
Record leg := { l_idx : idx; l_key : idx; l_fwd : bool; l_denom : Z; l_amt : Z }.
Record book := {
  b_live : list leg;               (* outgoing legs sent and not yet acknowledged / timed out for good *)
  b_recv : list Z;                 (* [in; out] amounts of accepted incoming packets so far *)
  b_swapped : list Z;              (* [sum of result.token_in; sum of result.token_out] of accepted packets *)
  b_sent : list Z;                 (* [in; out] amounts of legs acknowledged with success *)
  b_nacks : list Z;                (* per key: write_acknowledgement events seen *)
  b_outcome : list (Z * Z);        (* per key: final outcome code of (change, forward) leg; 0 = none / not yet *)
  b_bank : list Z                  (* bank totals: [supply in; supply out; all escrow accounts in; all escrow accounts out] *)
}.

Record obs := { o_class : Z (* 0 ok, 1 failed, 2 panicked *); o_view : view; o_book : book }.

Record hist := {
  h_cfg : cfg;
  h_rcvs : list Z; h_keys : list idx; h_idxs : list idx;
  h_init : view;
  h_bank0 : list Z;       (* the bank totals of b_bank before the history *)
  h_steps : list (event * obs);
  h_final : bool          (* the relayer delivered a final outcome to every leg *)
}.

Definition init_state (h : hist) : st :=
  let v := h_init h in
  clean (bank_of (h_rcvs h) (v_bal v)) (fun c => if (0 <=? c) && (c <? 4) then nth (Z.to_nat c) (v_nseq v) 0 else 0).

Definition class_of (r : res st) : Z := match r with Ok _ => 0 | Err _ => 1 | Panic => 2 end.

(* threaded refinement: the model is run along the observed events; its projection must equal the
   observation after every event (so each step is also checked from the observed pre-state) *)
Fixpoint corr_steps (h : hist) (s : st) (l : list (event * obs)) : bool :=
  match l with
  | [] => true
  | (e, o) :: tl =>
      let r := step (h_cfg h) s e in
      let s' := match r with Ok x => x | _ => s end in
      (class_of r =? o_class o) && view_eqb (view_of (h_rcvs h) (h_keys h) (h_idxs h) s') (o_view o) && corr_steps h s' tl
  end.
Definition corr (h : hist) : bool :=
  view_eqb (view_of (h_rcvs h) (h_keys h) (h_idxs h) (init_state h)) (h_init h) && corr_steps h (init_state h) (h_steps h).

(* ---------- monitors: the property text on observed values ---------- *)
Definition nz (l : list Z) (n : nat) : Z := nth n l 0.
Definition vb (v : view) (n : nat) : Z := nz (v_bal v) n.
(* positions in v_bal: 0 MOD in, 1 MOD out, 2 PROV in, 3 PROV out, 4 ESC in, 5 ESC out, 6 MOD mid, 7 MOD every
   other denom (summed), then receivers *)
Fixpoint sum_rcv (l : list Z) (par : bool) : Z * Z :=   (* sums of the (in, out) entries of receivers *)
  match l with
  | a :: b :: tl => let '(x, y) := sum_rcv tl par in (a + x, b + y)
  | _ => (0, 0)
  end.
Definition rcv_in (v : view) : Z := fst (sum_rcv (skipn 8 (v_bal v)) true).
Definition rcv_out (v : view) : Z := snd (sum_rcv (skipn 8 (v_bal v)) true).
Definition live_sum (b : book) (d : Z) : Z :=
  fold_right (fun l n => if l_denom l =? d then n + l_amt l else n) 0 (b_live b).

Definition all_obs (h : hist) (f : view -> obs -> bool) : bool :=
  forallb (fun '(_, o) => f (h_init h) o) (h_steps h).

(* 1: the swap module's own account is left as it was, in every denom, after every event *)
Definition mon_module (h : hist) : bool :=
  all_obs h (fun v0 o => (vb (o_view o) 0 =? vb v0 0) && (vb (o_view o) 1 =? vb v0 1) &&
                         (vb (o_view o) 6 =? vb v0 6) && (vb (o_view o) 7 =? vb v0 7)).

(* 2: every unit received is swapped, paid as interface fee, delivered to a receiver, or sent onward
      (in flight or acknowledged) *)
Definition mon_funds (h : hist) : bool :=
  all_obs h (fun v0 o =>
    let v := o_view o in let b := o_book o in
    (nz (b_recv b) 0 =? nz (b_swapped b) 0 + (vb v 2 - vb v0 2) + (rcv_in v - rcv_in v0) + live_sum b IN + nz (b_sent b) 0) &&
    (nz (b_swapped b) 1 + nz (b_recv b) 1 =? (vb v 3 - vb v0 3) + (rcv_out v - rcv_out v0) + live_sum b OUT + nz (b_sent b) 1)).

(* 3: a refused (or failed) receive keeps nothing: balances, stores and sequences are as before *)
Definition is_refusal (k : idx) (keys : list idx) (v : view) : bool :=
  existsb (fun '(k', kv) => idx_eqb k k' && ((nz kv 1 =? 1) || (nz kv 0 =? 0))) (combine keys (v_keys v)).
Fixpoint mon_refused_steps (keys : list idx) (prev : view) (l : list (event * obs)) : bool :=
  match l with
  | [] => true
  | (e, o) :: tl =>
      (match e with
       | ERecv r =>
           if is_refusal (r_key r) keys (o_view o) then
             zlist_eqb (v_bal (o_view o)) (v_bal prev) && zlist_eqb (v_nseq (o_view o)) (v_nseq prev) &&
             zll_eqb (v_legs (o_view o)) (v_legs prev) && (v_ninc (o_view o) =? v_ninc prev) && (v_nout (o_view o) =? v_nout prev)
           else true
       | _ => true
       end) && mon_refused_steps keys (o_view o) tl
  end.
Definition mon_refused (h : hist) : bool := mon_refused_steps (h_keys h) (h_init h) (h_steps h).

(* 4: at most one acknowledgement per incoming packet, never while one of its legs is still in
      flight; once every leg has its outcome, exactly one *)
Definition acked (kv : list Z) : bool := negb (nz kv 1 =? 0).
Definition mon_one_ack (h : hist) : bool :=
  all_obs h (fun _ o =>
    forallb (fun '(k, (kv, n)) =>
      (n <=? 1) && (Bool.eqb (acked kv) (n =? 1)) &&
      (if acked kv then negb (existsb (fun l => idx_eqb (l_key l) k) (b_live (o_book o))) else true))
      (combine (h_keys h) (combine (v_keys (o_view o)) (b_nacks (o_book o))))) &&
  (if h_final h then
     match rev (h_steps h) with
     | (_, o) :: _ => forallb (fun kv => if nz kv 0 =? 1 then acked kv else true) (v_keys (o_view o))
     | [] => true
     end
   else true).

(* 5: the combined acknowledgement reports each leg's own result *)
Definition mon_reports (h : hist) : bool :=
  all_obs h (fun _ o =>
    forallb (fun '(kv, (oc, of)) =>
      if nz kv 1 =? 3 then (nz kv 5 =? oc) && (nz kv 6 =? of) else true)
      (combine (v_keys (o_view o)) (b_outcome (o_book o)))).

(* 6: once the acknowledgement is written the in-flight records of that packet are gone; with no
      leg in flight both stores are empty *)
Definition mon_gone (h : hist) : bool :=
  all_obs h (fun _ o =>
    let v := o_view o in
    forallb (fun '(k, kv) =>
      if acked kv then (nz kv 7 =? 0) && forallb (fun lv => negb ((nz lv 1 =? 1) && (nz lv 2 =? fst k) && (nz lv 3 =? snd k))) (v_legs v)
      else true) (combine (h_keys h) (v_keys v)) &&
    (match b_live (o_book o) with [] => (v_ninc v =? 0) && (v_nout v =? 0) | _ => true end)).

(* 7: tokens are never both refunded and re-sent, nothing is burned or escrowed without a packet in
      flight: on the bank's own totals (voucher supply, balances of all escrow accounts), what outgoing
      transfers took out of circulation is exactly what is in flight or acknowledged as delivered, minus
      what incoming packets released *)
Definition mon_backed (h : hist) : bool :=
  all_obs h (fun v0 o =>
    let v := o_view o in let b := o_book o in
    let k := b_bank b in let k0 := h_bank0 h in
    (vb v 4 - vb v0 4 =? live_sum b IN + nz (b_sent b) 0 - nz (b_recv b) 0) &&
    (vb v 5 - vb v0 5 =? live_sum b OUT + nz (b_sent b) 1 - nz (b_recv b) 1) &&
    ((nz k 2 - nz k0 2) - (nz k 0 - nz k0 0) =? live_sum b IN + nz (b_sent b) 0 - nz (b_recv b) 0) &&
    ((nz k 3 - nz k0 3) - (nz k 1 - nz k0 1) =? live_sum b OUT + nz (b_sent b) 1 - nz (b_recv b) 1)).

Definition c11_check (h : hist) : list Z :=
  flag 0 (corr h) ++ flag 1 (mon_module h) ++ flag 2 (mon_funds h) ++ flag 3 (mon_refused h) ++
  flag 4 (mon_one_ack h) ++ flag 5 (mon_reports h) ++ flag 6 (mon_gone h) ++ flag 7 (mon_backed h).

Definition run := run_cases c11_check.

(* ---------- diagnosis (used when building replay data; not part of the verdict) ---------- *)
Fixpoint diag_steps (h : hist) (s : st) (n : Z) (l : list (event * obs)) : option (Z * Z * view * view) :=
  match l with
  | [] => None
  | (e, o) :: tl =>
      let r := step (h_cfg h) s e in
      let s' := match r with Ok x => x | _ => s end in
      let v := view_of (h_rcvs h) (h_keys h) (h_idxs h) s' in
      if (class_of r =? o_class o) && view_eqb v (o_view o) then diag_steps h s' (n + 1) tl
      else Some (n, class_of r, v, o_view o)
  end.
(* first disagreeing step: (step number, model's outcome class, model's view, observed view); step -1 = initial view *)
Definition diag (h : hist) : option (Z * Z * view * view) :=
  let v := view_of (h_rcvs h) (h_keys h) (h_idxs h) (init_state h) in
  if view_eqb v (h_init h) then diag_steps h (init_state h) 0 (h_steps h) else Some (-1, 0, v, h_init h).
