package c18

import (
	"fmt"
	"math/big"

	banktypes "cosmossdk.io/x/bank/types"
	abci "github.com/cometbft/cometbft/abci/types"
	sdk "github.com/cosmos/cosmos-sdk/types"

	"verifharness/apph"
	"verifharness/emit"
)

// The node's minimum gas price as part of the generated configuration: the real application
// is built (a) with `minimum-gas-prices` in the app options (+ server.DefaultBaseappOptions, as
// cmd/sunrised does), (b) with a programmatic baseapp.SetMinGasPrices option and nothing in the
// app options, (c) with both (the later, programmatic option is the one the SDK applies),
// (d) with neither.  Signed transactions with fees at required-1 / required / required+1 for
// the CONFIGURED price go through the real CheckTx; the model input (and monitor 2) uses the
// price the harness configured, not what the application ended up handing to the ante handler.
var nodePrices = []string{"0.01urise", "0.0005urise", "0.002urise", "0.025urise,0.05uvrise", "1urise", "0.000000000000000001urise", "0.004uvrise"}

func (e *env) nodeConfigCases(k int) error {
	r := e.r
	var nc apph.NodeConfig
	// corpus: each way of configuring, with prices above and below the chain's default 0.002urise
	corpus := []struct {
		how      int
		app, bap string
	}{
		{0, "0.01urise", ""}, {1, "", "0.01urise"}, {2, "0.0005urise", "0.025urise,0.05uvrise"}, {3, "", ""},
		{1, "", "0.0005urise"}, {2, "1urise", "0.0005urise"}, {0, "0.004uvrise", ""}, {1, "", "0.025urise,0.05uvrise"},
	}
	how := r.Intn(4)
	fixedApp, fixedBap := "", ""
	if k < len(corpus) {
		how, fixedApp, fixedBap = corpus[k].how, corpus[k].app, corpus[k].bap
	}
	pick := func(fixed string) *string {
		s := nodePrices[r.Intn(len(nodePrices))]
		if fixed != "" {
			s = fixed
		}
		return &s
	}
	configured := ""
	switch how {
	case 0:
		nc.AppOptsMinGasPrices = pick(fixedApp)
		configured = *nc.AppOptsMinGasPrices
	case 1:
		nc.BaseappMinGasPrices = pick(fixedBap)
		configured = *nc.BaseappMinGasPrices
	case 2:
		nc.AppOptsMinGasPrices, nc.BaseappMinGasPrices = pick(fixedApp), pick(fixedBap)
		configured = *nc.BaseappMinGasPrices
	}
	kind := []string{"app-options", "baseapp-option", "both", "neither"}[how]
	h, err := apph.NewNode(apph.Options{NumAccounts: 4}, nc)
	if err != nil {
		return fmt.Errorf("node with min gas price configured through %s: %w", kind, err)
	}
	defer h.Close()
	_, mgp := parseMgp(configured)
	p := paramConfigs[0]
	fp, err := h.App.FeeKeeper.Params.Get(h.Ctx())
	if err != nil {
		return err
	}
	if fp.FeeDenom != p.FeeDenom || len(fp.BypassDenoms) != 1 || fp.BypassDenoms[0] != p.Bypass[0] {
		return fmt.Errorf("default fee params are not %v: %v", p, fp)
	}
	gas := emit.Pick(r, uint64(200_000), uint64(200_000), uint64(123_457), uint64(1_000_000))
	// fees around the requirement of the configured price (and the plain cases without one)
	var fees [][]coin
	for _, d := range []string{"urise", "uvrise"} {
		if req := requiredFor(mgp, d, gas); req != nil {
			for _, dlt := range []int64{-1, 0, 1} {
				a := new(big.Int).Add(req, big.NewInt(dlt))
				if a.Sign() >= 0 {
					fees = append(fees, []coin{{d, a}})
				}
			}
		}
	}
	if len(fees) == 0 {
		fees = [][]coin{nil, {{"urise", big.NewInt(0)}}, {{"urise", big.NewInt(1)}}, {{"uvrise", big.NewInt(int64(1 + r.Intn(1000)))}}}
	} else if r.Chance(1, 2) {
		fees = append(fees, []coin{{"urise", big.NewInt(int64(1 + r.Intn(300)))}})
	}
	byst := h.Accts[3]
	for i, fee := range fees {
		payer := h.Accts[i%3]
		cc := checkCtx(h)
		msgs := []sdk.Msg{&banktypes.MsgSend{FromAddress: payer.Addr.String(), ToAddress: payer.Addr.String(), Amount: sdk.NewCoins(sdk.NewInt64Coin("urise", 1))}}
		bz, err := signTx(h, cc, payer, msgs, sdkCoins(fee), gas, nil)
		if err != nil {
			return fmt.Errorf("sign: %w", err)
		}
		dtx, err := h.App.TxConfig().TxDecoder()(bz)
		if err != nil {
			return fmt.Errorf("generated tx does not decode: %w", err)
		}
		in := anteIn{Mode: 0, Height: h.Height, Gas: gas, Fee: fromSdk(dtx.(sdk.FeeTx).GetFee()), Mgp: mgp, Params: &p, AllowErr: "(Ok tt)"}
		accts := []sdk.AccAddress{payer.Addr, h.Accts[(i+1)%3].Addr, collector, byst.Addr}
		pre := view(h, cc, accts)
		resp, err := h.App.CheckTx(&abci.CheckTxRequest{Tx: bz, Type: abci.CHECK_TX_TYPE_CHECK})
		if err != nil {
			return fmt.Errorf("CheckTx: %w", err)
		}
		post := view(h, checkCtx(h), accts)
		obs := "(Ok 0)"
		if resp.Code != 0 {
			obs = classOf(resp.Codespace, resp.Code)
		}
		info := map[string]any{"kind": "ante-node-config", "configured_through": kind, "configured_min_gas_prices": configured,
			"app_options_value": nc.AppOptsMinGasPrices, "baseapp_option_value": nc.BaseappMinGasPrices, "gas": gas,
			"fee": strCoins(in.Fee), "code": resp.Code, "codespace": resp.Codespace, "result": obs, "pre": pre, "post": post}
		if resp.Code != 0 {
			info["log"] = resp.Log
		}
		e.st.Count("node-config/" + kind)
		e.emitAnte(in, pre, obs, post, true, info)
	}
	return nil
}
