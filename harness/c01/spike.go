package c01

import (
	"fmt"
	"math/big"
	"time"

	sdkmath "cosmossdk.io/math"
	stakingtypes "cosmossdk.io/x/staking/types"
	abci "github.com/cometbft/cometbft/abci/types"
	cmttypes "github.com/cometbft/cometbft/types"
	sdk "github.com/cosmos/cosmos-sdk/types"

	"verifharness/apph"
)

// Spike runs one exploratory scenario on the real application and prints what happened
// (development aid: `dev_c01 spike <name>`).
func Spike(name string) error {
	switch name {
	case "slash":
		return spikeSlash()
	case "rf":
		return spikeRF()
	case "hang":
		return spikeHang()
	case "proposal":
		return spikeProposal()
	}
	return fmt.Errorf("unknown spike %q", name)
}

func (w *world) mustBlock(dt time.Duration) blockRes {
	r := w.block(dt, nil)
	fmt.Printf("  block h=%d t=%s err=%q wall=%s txs=%v\n", w.h.Height, w.h.Time.Format(time.RFC3339Nano), r.Err, r.Wall, r.Txs)
	return r
}

func (w *world) setUnbondingTime(d time.Duration) {
	ctx := w.h.Ctx()
	p, err := w.h.App.StakingKeeper.Params.Get(ctx)
	if err != nil {
		panic(err)
	}
	p.UnbondingTime = d
	if err := w.h.App.StakingKeeper.Params.Set(ctx, p); err != nil {
		panic(err)
	}
}

func (w *world) dumpStake(v int) {
	ctx := w.h.Ctx()
	val, _ := w.h.App.StakingKeeper.GetValidator(ctx, w.vals[v].Bytes)
	fmt.Println("  validator tokens", val.Tokens, "shares", val.DelegatorShares, "status", val.Status, "jailed", val.Jailed)
	u, err := w.h.App.StakingKeeper.GetUnbondingDelegation(ctx, w.mod, w.vals[v].Bytes)
	fmt.Println("  ubd err", err)
	for _, e := range u.Entries {
		fmt.Println("  staking ubd entry", e.InitialBalance, e.Balance, e.CompletionTime, e.CreationHeight)
	}
	fmt.Println("  module bond balance", w.h.Bal(ctx, w.mod, bond), "user fee", w.h.Bal(ctx, w.h.Accts[2].Addr, fee))
	us, _ := w.h.App.ShareclassKeeper.GetAllUnbondings(ctx)
	fmt.Println("  sc queue len", len(us))
}

func spikeSlash() error {
	w := newWorld(1, 6, 2)
	defer w.h.Close()
	w.setUnbondingTime(10 * time.Second)
	w.createValidator(1, 5_000_000)
	w.mustBlock(time.Second)
	w.refreshVals()
	w.mustBlock(time.Second)
	var v int
	for i, x := range w.vals {
		if x.Created {
			v = i
		}
	}
	fmt.Println("validators", len(w.vals), "created idx", v)
	// 1. past slash: exchange rate != 1
	ctx := w.h.Ctx()
	val, err := w.h.App.StakingKeeper.GetValidator(ctx, w.vals[v].Bytes)
	if err != nil {
		return err
	}
	ca, _ := val.GetConsAddr()
	err = apph.Tx(ctx, func(c sdk.Context) error {
		_, e := w.h.App.StakingKeeper.Slash(c, ca, w.h.Height-1, val.GetConsensusPower(w.h.App.StakingKeeper.PowerReduction(c)), sdkmath.LegacyNewDecWithPrec(3, 2))
		return e
	})
	fmt.Println("slash err", err)
	w.mustBlock(time.Second)
	w.queue("nv-delegate", 2, 2_000_000, w.msgNvDelegate(2, v, 1_000_003))
	w.mustBlock(time.Second)
	w.queue("nv-undelegate", 2, 2_000_000, w.msgNvUndelegate(2, v, 777_777))
	w.mustBlock(time.Second)
	us, _ := w.h.App.ShareclassKeeper.GetAllUnbondings(w.h.Ctx())
	for _, u := range us {
		fmt.Println("  sc unbonding", u.Address, u.Amount, u.CompletionTime)
	}
	w.dumpStake(v)
	fmt.Println("module bond balance", w.h.Bal(w.h.Ctx(), w.mod, bond))
	r := w.mustBlock(12 * time.Second)
	fmt.Println("completion block err:", r.Err)
	w.dumpStake(v)
	// slash while an entry is unbonding
	w.queue("nv-undelegate", 2, 2_000_000, w.msgNvUndelegate(2, v, 100_000))
	w.mustBlock(time.Second)
	ctx = w.h.Ctx()
	err = apph.Tx(ctx, func(c sdk.Context) error {
		_, e := w.h.App.StakingKeeper.Slash(c, ca, w.h.Height-2, val.GetConsensusPower(w.h.App.StakingKeeper.PowerReduction(c)), sdkmath.LegacyNewDecWithPrec(5, 2))
		return e
	})
	fmt.Println("slash during unbonding err", err)
	w.dumpStake(v)
	r = w.mustBlock(12 * time.Second)
	fmt.Println("completion after slash err:", r.Err)
	for round := 0; round < 0 && r.Err == ""; round++ {
		for k := 0; k < 7; k++ {
			w.queue("nv-undelegate", 2, 2_000_000, w.msgNvUndelegate(2, v, int64(1+round*7+k)*13+1))
			w.block(time.Millisecond, nil)
		}
		w.dumpStake(v)
		r = w.mustBlock(12 * time.Second)
	}
	fmt.Println("user fee balance", w.h.Bal(w.h.Ctx(), w.h.Accts[2].Addr, fee))
	return nil
}

func spikeRF() error {
	w := newWorld(1, 6, 2)
	defer w.h.Close()
	ctx := w.h.Ctx()
	p, err := w.h.App.DaKeeper.Params.Get(ctx)
	if err != nil {
		return err
	}
	p.ReplicationFactor = "10000000000000000000"
	p.ChallengeThreshold = "0"
	p.ProofPeriod = 5 * time.Second
	fmt.Println("validate:", p.Validate())
	if err := w.h.App.DaKeeper.Params.Set(ctx, p); err != nil {
		return err
	}
	m, uri := w.msgPublish(1, 4, 2)
	w.queue("da-publish", 1, 2_000_000, m)
	w.mustBlock(time.Second)
	d, found, _ := w.h.App.DaKeeper.GetPublishedData(w.h.Ctx(), uri)
	fmt.Println("item", found, d.Status)
	w.mustBlock(time.Second)
	d, found, _ = w.h.App.DaKeeper.GetPublishedData(w.h.Ctx(), uri)
	fmt.Println("item", found, d.Status)
	r := w.mustBlock(6 * time.Second)
	fmt.Println("tally block err:", r.Err)
	return nil
}

func spikeHang() error {
	for _, c := range []struct{ ratio, offs, base, quote string }{
		{"2", "-0.5", "476555980", "53217587"},
		{"2", "0.5", "476555980", "53217587"},
		{"1.9", "-0.5", "476555980", "53217587"},
		{"1.5", "-0.999999999999999999", "476555980", "53217587"},
		{"3", "-0.5", "476555980", "53217587"},
		{"1000000", "-0.5", "476555980", "53217587"},
	} {
		b, _ := new(big.Int).SetString(c.base, 10)
		q, _ := new(big.Int).SetString(c.quote, 10)
		out := runWatched(watchSpec{Ratio: c.ratio, Offset: c.offs, Fee: "0.01", Base: b.String(), Quote: q.String(), Lower: -10, Upper: 10}, 15*time.Second)
		fmt.Printf("ratio=%s offs=%s base=%s quote=%s -> %+v\n", c.ratio, c.offs, c.base, c.quote, out)
	}
	return nil
}

var _ = stakingtypes.ModuleName

// spikeProposal: does PrepareProposal respect MaxTxBytes once it appends the METADATA section?
func spikeProposal() error {
	w := newWorld(1, 6, 2)
	defer w.h.Close()
	ctx := w.h.Ctx()
	p, err := w.h.App.DaKeeper.Params.Get(ctx)
	if err != nil {
		return err
	}
	p.ChallengePeriod = 3 * time.Second
	if err := w.h.App.DaKeeper.Params.Set(ctx, p); err != nil {
		return err
	}
	m, uri := w.msgPublish(1, 4, 2)
	w.queue("da-publish", 1, 3_000_000, m)
	w.mustBlock(time.Second)
	w.mustBlock(5 * time.Second)
	d, found, _ := w.h.App.DaKeeper.GetPublishedData(w.h.Ctx(), uri)
	fmt.Println("item", found, d.Status)
	// a full mempool: as many signed sends as fit max bytes
	var txs [][]byte
	for i := 0; i < 40; i++ {
		bz, err := w.signTx(w.h.Accts[2], []sdk.Msg{w.msgDelegate(2, 0, int64(1000+i))}, 1_000_000)
		if err != nil {
			return err
		}
		txs = append(txs, bz)
	}
	size := func(xs [][]byte) int64 {
		var t []cmttypes.Tx
		for _, x := range xs {
			t = append(t, cmttypes.Tx(x))
		}
		return cmttypes.ComputeProtoSizeForTxs(t)
	}
	max := size(txs)
	resp, err := w.h.App.PrepareProposal(&abci.PrepareProposalRequest{MaxTxBytes: max, Txs: txs, Height: w.h.Height + 1, Time: w.h.Time.Add(time.Second)})
	if err != nil {
		return err
	}
	fmt.Printf("max_tx_bytes=%d  offered %d txs (%d bytes)  response %d entries, %d bytes  -> exceeds: %v\n", max, len(txs), size(txs), len(resp.Txs), size(resp.Txs), size(resp.Txs) > max)
	return nil
}
