// Package c05: swap pricing vs the exact curve — swap-heavy histories on the real
// x/liquiditypool, paired quotes (monotonicity), round trips, and direct calls of the four
// per-bucket step functions.
package c05

import (
	"fmt"
	"math/big"

	sdkmath "cosmossdk.io/math"
	sdk "github.com/cosmos/cosmos-sdk/types"

	lpkeeper "github.com/sunriselayer/sunrise/x/liquiditypool/keeper"

	"verifharness/amm"
	"verifharness/emit"
)

func legacy(r *big.Int) sdkmath.LegacyDec { return sdkmath.LegacyNewDecFromBigIntWithPrec(r, 18) }

func bucketCase(r *emit.Rand) (string, map[string]any) {
	b4q, exactIn := r.Bool(), r.Bool()
	p18 := new(big.Int).Exp(big.NewInt(10), big.NewInt(18), nil)
	fee := emit.Pick(r, "0", "100000000000000", "3000000000000000", "10000000000000000", "300000000000000000", "999999999999999999")
	feeR, _ := new(big.Int).SetString(fee, 10)
	// sqrt price around 10^k, k in [-6, 6]
	sp := new(big.Int).Mul(r.LogUniform(7), new(big.Int).Exp(big.NewInt(10), big.NewInt(int64(12+r.Intn(7))), nil))
	// target: a relative move of 10^-j in the trade direction (sometimes equal, sometimes 1 ulp)
	var delta *big.Int
	switch r.Intn(6) {
	case 0:
		delta = big.NewInt(0)
	case 1:
		delta = big.NewInt(1)
	default:
		delta = new(big.Int).Div(sp, new(big.Int).Exp(big.NewInt(10), big.NewInt(int64(1+r.Intn(8))), nil))
	}
	target := new(big.Int)
	if b4q {
		target.Sub(sp, delta)
		if target.Sign() <= 0 {
			target.SetInt64(1)
		}
	} else {
		target.Add(sp, delta)
	}
	var liq *big.Int
	switch r.Intn(8) {
	case 0:
		liq = big.NewInt(0)
	case 1:
		liq = big.NewInt(int64(1 + r.Intn(1000)))
	default:
		liq = new(big.Int).Mul(r.LogUniform(30), p18)
		liq.Add(liq, r.Big(p18))
	}
	rem := new(big.Int).Mul(r.LogUniform(28), p18)
	if r.Chance(1, 6) {
		rem.Add(rem, r.Big(p18)) // non-integer remainder (later loop iterations)
	}
	return bucketCall(b4q, exactIn, feeR, sp, target, liq, rem)
}

type bucketInput struct {
	tag             string
	b4q, exactIn    bool
	fee, sp, target *big.Int
	liq, rem        *big.Int
}

func bigs(s string) *big.Int {
	v, ok := new(big.Int).SetString(s, 10)
	if !ok {
		panic("bad literal " + s)
	}
	return v
}

// bucketCorpus: (1) the step found by the thorough run after the dust cap: 1.89 units of base into
// liquidity 1.3e21 at sqrt price 1.8e-11 - the next price, rounded up twice, came out one ulp ABOVE
// the current one and the step paid liquidity x ulp = 1323 units of quote for it; (2) the same
// with amounts around the cost of one ulp; (3) a remainder below one unit after a tick (the band
// that used to panic with a negative fee charge).
func bucketCorpus() []bucketInput {
	fee := bigs("3000000000000000")
	lbig := bigs("1323027827718843346121535534668354600753")
	var l []bucketInput
	for i, rem := range []string{"1894887867063294064", "1", "1000000000000000000", "4000000000000000000000000000000000000000000", "40000000000000000000000000000000000000000000"} {
		l = append(l, bucketInput{tag: fmt.Sprintf("overshoot/%d", i), b4q: true, exactIn: true, fee: fee, sp: bigs("18131478"), target: bigs("1061193"), liq: lbig, rem: bigs(rem)})
	}
	for i, rem := range []string{"292929292928101474", "999999999999999999", "1000000000000000001"} {
		for _, b4q := range []bool{true, false} {
			target := "990000000000000000"
			if !b4q {
				target = "1010000000000000000"
			}
			l = append(l, bucketInput{tag: fmt.Sprintf("dust/%d/%v", i, b4q), b4q: b4q, exactIn: true, fee: bigs("10000000000000000"), sp: bigs("1000000000000000000"), target: bigs(target), liq: bigs("6000000000000000000000000"), rem: bigs(rem)})
		}
	}
	return l
}

func bucketCall(b4q, exactIn bool, feeR, sp, target, liq, rem *big.Int) (string, map[string]any) {
	fee := feeR.String()
	h := lpkeeper.New(b4q, legacy(target), legacy(feeR))
	obs := "None"
	info := map[string]any{"kind": "bucket", "b4q": b4q, "exact_in": exactIn, "fee": fee, "sp": sp.String(), "target": target.String(), "liq": liq.String(), "rem": rem.String()}
	func() {
		defer func() {
			if rec := recover(); rec != nil {
				info["panic"] = fmt.Sprint(rec)
			}
		}()
		var a, b, c, d sdkmath.LegacyDec
		if exactIn {
			a, b, c, d = h.ComputeSwapWithinBucketOutGivenIn(legacy(sp), legacy(target), legacy(liq), legacy(rem))
		} else {
			a, b, c, d = h.ComputeSwapWithinBucketInGivenOut(legacy(sp), legacy(target), legacy(liq), legacy(rem))
		}
		obs = fmt.Sprintf("(Some (%s, %s, %s, %s))", emit.Z(a.BigInt()), emit.Z(b.BigInt()), emit.Z(c.BigInt()), emit.Z(d.BigInt()))
		info["next"], info["spec"], info["other"], info["fee_charge"] = a.String(), b.String(), c.String(), d.String()
	}()
	return fmt.Sprintf("C5Bucket %s %s %s %s %s %s %s %s", emit.Bool(b4q), emit.Bool(exactIn), emit.Z(feeR), emit.Z(sp), emit.Z(target), emit.Z(liq), emit.Z(rem), obs), info
}

func Run(seed int64, n int, outDir string) error {
	w := amm.NewWorld(seed)
	defer w.H.Close()
	if err := w.SetupPools(4); err != nil {
		return err
	}
	// a pool whose price is many orders of magnitude below 1 (an 18-decimals base token quoted in a
	// 6-decimals one: price about 1.5^-68 = 1e-12, sqrt price 1e-6): products and quotients of sqrt
	// prices keep few significant digits there
	if _, err := w.CreatePoolAt("urise", "uatom", "0.003", "1.5", "0", -68); err != nil {
		return err
	}
	st := emit.NewStats("C05", seed, "swap-heavy histories over 4 pools (C5Step: pre-state, op, result, post-state), paired quotes on one state (C5Mono), there-and-back swaps (C5Round), and direct calls of the four ComputeSwapWithinBucket* functions on generated (price, target, liquidity, remaining, fee) incl. zero liquidity (C5Bucket); non-trivial = a swap that moved the price with a non-zero rounded-off remainder (distinct by pool and resulting price) or a bucket call with a distinct result")
	cf := &emit.CasesFile{Import: "Amm.C05Check", Runner: "run", Type: "c05_case"}
	// pure bucket steps: cheap on both sides, go in their own shards
	bf := &emit.CasesFile{Import: "Amm.C05Check", Runner: "run", Type: "c05_case"}
	// corpus of bucket steps (every run): witnesses of repaired defects and their neighbours
	for _, bc := range bucketCorpus() {
		term, info := bucketCall(bc.b4q, bc.exactIn, bc.fee, bc.sp, bc.target, bc.liq, bc.rem)
		info["tag"] = bc.tag
		bf.Add(term)
		st.Info(info)
		st.Evaluations++
		st.Count("bucket:corpus")
		st.Nontriv("bucket/corpus/" + bc.tag)
	}
	nb := n * 6
	for i := 0; i < nb; i++ {
		term, info := bucketCase(w.R)
		bf.Add(term)
		st.Info(info)
		st.Evaluations++
		st.Count("bucket")
		if _, bad := info["panic"]; bad {
			st.Count("bucket:panic")
		} else {
			st.Nontriv("bucket/" + fmt.Sprint(info["next"], info["spec"]))
		}
	}
	ctx := w.H.Ctx()
	add := func(term string, info map[string]any, kind string, err error) {
		cf.Add(term)
		if err != nil {
			info["err"] = err.Error()
			st.Count(kind + ":err")
		} else {
			st.Count(kind + ":ok")
			st.Sample(info)
		}
		st.Info(info)
		st.Evaluations++
	}
	// corpus (every run): swaps that end exactly on an initialised tick, and the same with one to
	// three units of dust left over, on a pool so deep that the dust does not move the price; each
	// followed by a trade back across that tick. Exact-input and exact-output, both directions.
	if err := dustCorpus(w, ctx, add, st); err != nil {
		return err
	}
	for i := 0; i < n; i++ {
		p := w.Pools[w.R.Intn(len(w.Pools))]
		o := w.GenOp(ctx, p)
		// bias towards swaps once the pool has positions
		if o.Kind != "swap" && o.Kind != "create" && w.R.Chance(2, 3) {
			o = amm.Op{Kind: "swap", Sender: w.R.Intn(3), ExactIn: w.R.Chance(3, 5), DenomIn: w.R.Intn(2), Amount: w.R.LogUniform(20), Tag: "swap"}
		}
		pre, _, _ := w.K.GetPool(ctx, p.ID)
		term, err := w.Step(ctx, p, o, false)
		info := o.Info()
		info["pool"] = p.ID
		add("C5Step "+term, info, o.Kind, err)
		post, _, _ := w.K.GetPool(ctx, p.ID)
		if o.Kind == "swap" && err == nil && pre.CurrentSqrtPrice != post.CurrentSqrtPrice {
			st.Nontriv(fmt.Sprintf("swap/%d/%s", p.ID, post.CurrentSqrtPrice))
		}
		if post.CurrentSqrtPrice == "" || len(w.K.GetAllInitializedTicksForPool(ctx, p.ID)) == 0 {
			continue
		}
		// paired quotes on the current state
		if w.R.Chance(1, 3) {
			ei := w.R.Bool()
			di := w.R.Intn(2)
			x1 := w.R.LogUniform(18)
			x2 := new(big.Int).Add(x1, w.R.LogUniform(1+w.R.Intn(18)))
			user := w.H.Accts[0].Addr
			state := w.Dump(ctx, p, user)
			q := func(x *big.Int) *big.Int {
				pool, _, _ := w.K.GetPool(ctx, p.ID)
				var v sdkmath.Int
				var e error
				func() {
					defer func() {
						if rec := recover(); rec != nil {
							e = fmt.Errorf("panic: %v", rec)
						}
					}()
					if ei {
						v, e = w.K.CalculateResultExactAmountIn(ctx, pool, sdk.NewCoin(p.Denoms[di], sdkmath.NewIntFromBigInt(x)), p.Denoms[1-di], true)
					} else {
						v, e = w.K.CalculateResultExactAmountOut(ctx, pool, sdk.NewCoin(p.Denoms[1-di], sdkmath.NewIntFromBigInt(x)), p.Denoms[di], true)
					}
				}()
				if e != nil {
					return big.NewInt(-1)
				}
				return v.BigInt()
			}
			r1, r2 := q(x1), q(x2)
			info := map[string]any{"kind": "mono", "pool": p.ID, "exact_in": ei, "denom_in": di, "x1": x1.String(), "r1": r1.String(), "x2": x2.String(), "r2": r2.String()}
			add(fmt.Sprintf("C5Mono %s %s %d %s %s %s %s", state, emit.Bool(ei), di, emit.Z(x1), emit.Z(r1), emit.Z(x2), emit.Z(r2)), info, "mono", nil)
			if r1.Sign() > 0 && r2.Sign() > 0 {
				st.Nontriv(fmt.Sprintf("mono/%d/%s/%s", p.ID, r1, r2))
			}
		}
		// there and back, in a discarded cache context
		if w.R.Chance(1, 4) {
			c, _ := ctx.CacheContext()
			di := w.R.Intn(2)
			x := w.R.LogUniform(18)
			user := w.H.Accts[0]
			state := w.Dump(c, p, user.Addr)
			y, xb := big.NewInt(-1), big.NewInt(-1)
			pool, _, _ := w.K.GetPool(c, p.ID)
			func() {
				defer func() { recover() }()
				out, e := w.K.SwapExactAmountIn(c, user.Addr, pool, sdk.NewCoin(p.Denoms[di], sdkmath.NewIntFromBigInt(x)), p.Denoms[1-di], true)
				if e != nil {
					return
				}
				y = out.BigInt()
				pool2, _, _ := w.K.GetPool(c, p.ID)
				back, e := w.K.SwapExactAmountIn(c, user.Addr, pool2, sdk.NewCoin(p.Denoms[1-di], out), p.Denoms[di], true)
				if e != nil {
					return
				}
				xb = back.BigInt()
			}()
			info := map[string]any{"kind": "round", "pool": p.ID, "denom_in": di, "x": x.String(), "y": y.String(), "x_back": xb.String()}
			add(fmt.Sprintf("C5Round %s %d %s %s %s", state, di, emit.Z(x), emit.Z(y), emit.Z(xb)), info, "round", nil)
			if xb.Sign() > 0 {
				st.Nontriv(fmt.Sprintf("round/%d/%s/%s", p.ID, x, xb))
			}
		}
		if w.R.Chance(1, 25) {
			if _, err := w.H.NextBlock(1e9); err != nil {
				return fmt.Errorf("block failed: %w", err)
			}
			ctx = w.H.Ctx()
		}
	}
	// the two case files share one index space: bucket cases first
	all := &emit.CasesFile{Import: "Amm.C05Check", Runner: "run", Type: "c05_case"}
	all.Cases = append(all.Cases, bf.Cases...)
	nbk := len(bf.Cases)
	all.Cases = append(all.Cases, cf.Cases...)
	// write bucket shards (large) and step shards (small) with a common numbering
	bfOnly := &emit.CasesFile{Import: all.Import, Runner: all.Runner, Type: all.Type, Cases: all.Cases[:nbk]}
	if _, err := bfOnly.Write(outDir, "casesb", 300); err != nil {
		return err
	}
	if err := writeOffset(all, nbk, outDir); err != nil {
		return err
	}
	// case_info order: bucket infos were added first, then steps: matches the numbering
	return st.Write(outDir)
}

func dustCorpus(w *amm.World, ctx sdk.Context, add func(term string, info map[string]any, kind string, err error), st *emit.Stats) error {
	p, err := w.CreatePool("uusdc", "uosmo", "0.0001", "1.0001", "0")
	if err != nil {
		return err
	}
	e26 := new(big.Int).Exp(big.NewInt(10), big.NewInt(26), nil)
	zero := big.NewInt(0)
	step := func(c sdk.Context, o amm.Op) error {
		term, err := w.Step(c, p, o, false)
		info := o.Info()
		info["pool"] = p.ID
		add("C5Step "+term, info, o.Kind, err)
		return err
	}
	// A spans the price, B ends at tick -20 (entered going down), C starts at tick 30 (entered going up)
	for _, o := range []amm.Op{
		{Kind: "create", Sender: 0, Lower: -300, Upper: 300, Base: new(big.Int).Mul(big.NewInt(5), e26), Quote: new(big.Int).Mul(big.NewInt(5), e26), MinBase: zero, MinQuote: zero, Tag: "corpus/dust/A"},
		{Kind: "create", Sender: 1, Lower: -300, Upper: -20, Base: zero, Quote: new(big.Int).Mul(big.NewInt(40), e26), MinBase: zero, MinQuote: zero, Tag: "corpus/dust/B"},
		{Kind: "create", Sender: 1, Lower: 30, Upper: 300, Base: new(big.Int).Mul(big.NewInt(40), e26), Quote: zero, MinBase: zero, MinQuote: zero, Tag: "corpus/dust/C"},
	} {
		if err := step(ctx, o); err != nil {
			return fmt.Errorf("dust corpus setup: %w", err)
		}
	}
	for din := 0; din < 2; din++ {
		maxIn, out, err := w.K.ComputeMaxInAmtGivenMaxTicksCrossed(ctx, p.ID, p.Denoms[din], 1)
		if err != nil {
			return fmt.Errorf("dust corpus: %w", err)
		}
		for _, exactIn := range []bool{true, false} {
			for d := int64(-1); d <= 3; d++ {
				c, _ := ctx.CacheContext()
				a := maxIn.Amount.BigInt()
				if !exactIn {
					a = out.Amount.BigInt()
				}
				a = new(big.Int).Add(a, big.NewInt(d))
				tag := fmt.Sprintf("corpus/dust/din=%d/exact_in=%v/to-tick%+d", din, exactIn, d)
				if err := step(c, amm.Op{Kind: "swap", Sender: 2, ExactIn: exactIn, DenomIn: din, Amount: a, Tag: tag}); err != nil {
					continue
				}
				st.Nontriv(tag)
				// there and back from the same starting state (monitor 7)
				if exactIn {
					roundTrip(w, ctx, p, din, a, add, tag+"/round")
				}
				// back across the tick, and a little further the same way
				_ = step(c, amm.Op{Kind: "swap", Sender: 2, ExactIn: true, DenomIn: 1 - din, Amount: new(big.Int).Div(a, big.NewInt(3)), Tag: tag + "/back"})
				_ = step(c, amm.Op{Kind: "swap", Sender: 2, ExactIn: true, DenomIn: din, Amount: new(big.Int).Div(a, big.NewInt(7)), Tag: tag + "/on"})
			}
		}
	}
	// a position whose upper (lower) tick IS the pool's current tick is out of range (in range): open
	// both, deep, then trade both ways - the curve is the one of the positions that contain the cursor
	if pool, found, _ := w.K.GetPool(ctx, p.ID); found {
		cur := pool.CurrentTick
		_ = step(ctx, amm.Op{Kind: "create", Sender: 2, Lower: cur - 30, Upper: cur, Base: zero, Quote: new(big.Int).Mul(big.NewInt(40), e26), MinBase: zero, MinQuote: zero, Tag: "corpus/boundary/upper-on-current-tick"})
		_ = step(ctx, amm.Op{Kind: "create", Sender: 2, Lower: cur, Upper: cur + 25, Base: new(big.Int).Mul(big.NewInt(3), e26), Quote: new(big.Int).Mul(big.NewInt(3), e26), MinBase: zero, MinQuote: zero, Tag: "corpus/boundary/lower-on-current-tick"})
		for _, o := range []amm.Op{
			{Kind: "swap", Sender: 2, ExactIn: true, DenomIn: 1, Amount: new(big.Int).Div(e26, big.NewInt(1000)), Tag: "corpus/boundary/quote-in"},
			{Kind: "swap", Sender: 2, ExactIn: true, DenomIn: 0, Amount: new(big.Int).Div(e26, big.NewInt(700)), Tag: "corpus/boundary/base-in"},
			{Kind: "swap", Sender: 2, ExactIn: false, DenomIn: 0, Amount: new(big.Int).Div(e26, big.NewInt(900)), Tag: "corpus/boundary/exact-out-base-in"},
		} {
			c, _ := ctx.CacheContext()
			if err := step(c, o); err == nil {
				st.Nontriv(o.Tag)
			}
		}
	}
	return nil
}

// roundTrip swaps x of denom di for the other token and all of that back, in a discarded cache
// context, and emits the C5Round case.
func roundTrip(w *amm.World, ctx sdk.Context, p amm.PoolInfo, di int, x *big.Int, add func(term string, info map[string]any, kind string, err error), tag string) {
	c, _ := ctx.CacheContext()
	user := w.H.Accts[0]
	state := w.Dump(c, p, user.Addr)
	y, xb := big.NewInt(-1), big.NewInt(-1)
	pool, _, _ := w.K.GetPool(c, p.ID)
	func() {
		defer func() { recover() }()
		out, e := w.K.SwapExactAmountIn(c, user.Addr, pool, sdk.NewCoin(p.Denoms[di], sdkmath.NewIntFromBigInt(x)), p.Denoms[1-di], true)
		if e != nil {
			return
		}
		y = out.BigInt()
		pool2, _, _ := w.K.GetPool(c, p.ID)
		back, e := w.K.SwapExactAmountIn(c, user.Addr, pool2, sdk.NewCoin(p.Denoms[1-di], out), p.Denoms[di], true)
		if e != nil {
			return
		}
		xb = back.BigInt()
	}()
	info := map[string]any{"kind": "round", "pool": p.ID, "denom_in": di, "x": x.String(), "y": y.String(), "x_back": xb.String(), "tag": tag}
	add(fmt.Sprintf("C5Round %s %d %s %s %s", state, di, emit.Z(x), emit.Z(y), emit.Z(xb)), info, "round", nil)
}

// writeOffset writes cases[nbk:] as shards of 30 whose base index continues after the bucket cases.
func writeOffset(all *emit.CasesFile, nbk int, outDir string) error {
	rest := &emit.CasesFile{Import: all.Import, Runner: all.Runner, Type: all.Type, Cases: all.Cases[nbk:]}
	rest.Base = nbk
	_, err := rest.Write(outDir, "cases", 10)
	return err
}
