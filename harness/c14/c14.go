// Package c14: replicated execution is deterministic.
//
// One generated history (bank sends as signed transactions through FinalizeBlock, token
// conversions, pools / positions / swaps, gauge votes, delegations, DA publish / challenge /
// proofs, governance proposals and votes, block boundaries with chosen times) is executed in
// N >= 3 separate OS processes: the harness re-executes its own binary with VERIF_C14_CHILD set.
// Go randomises map iteration order per process and per range statement, so any dependence of
// state, results or events on map order, wall-clock time, unseeded randomness, goroutine
// scheduling or pointer values shows up as a difference between the processes.
//
// Per block every process records three digests: the app hash, the transaction results (signed
// transactions: ExecTxResult without events; direct message-server calls: error text, response
// bytes, gas consumed), and the events (block events, transaction events, events of direct
// calls). The parent emits one CBlock case per block with the N digests of each kind.
//
// In addition process 0 dumps, for the two multi-element tallies written by sunrise, what the
// real code read and what it produced (CTally: Keeper.Tally; CDa: one item resolved by
// TallyValidityProofs), so that the Gallina step functions the order-independence theorems are
// about are compared with the real loops on every run.
package c14

import (
	"crypto/sha256"
	"encoding/hex"
	"encoding/json"
	"fmt"
	"os"
	"os/exec"
	"path/filepath"
	"sort"
	"strings"
	"sync"

	"verifharness/emit"
)

const (
	childEnv = "VERIF_C14_CHILD"
	warmEnv  = "VERIF_C14_WARM" // name of the warm-up this replica runs before the compared history
)

type opInfo struct {
	Kind string `json:"kind"`
	Arg  string `json:"arg,omitempty"`
	Err  string `json:"err,omitempty"`
	Code string `json:"code,omitempty"` // codespace/code of a failing direct call
}

type blockObs struct {
	Height  int64    `json:"height"`
	DtSec   int64    `json:"dt_s"`
	AppHash string   `json:"app_hash"`
	Results string   `json:"results"`
	Events  string   `json:"events"`
	Faults  string   `json:"fault_counters"`
	// digest of what CometBFT hashes into LastResultsHash per transaction (code, data, gas wanted,
	// gas used) plus the codespace; for direct calls code, codespace and gas consumed
	Consensus string   `json:"consensus_results"`
	TxResults []string `json:"tx_results,omitempty"`
	Ops     []opInfo `json:"ops"`
	Err     string   `json:"err,omitempty"`
}

type modelCase struct {
	Term string         `json:"term"`
	Info map[string]any `json:"info"`
}

type childOut struct {
	Blocks   []blockObs     `json:"blocks"`
	Models   []modelCase    `json:"models"`
	Repeats  []repeatObs    `json:"repeats"`
	Coverage map[string]int `json:"coverage"` // site -> number of executions on >= 2 elements
	Hist     map[string]int `json:"hist"`
	Notes    []string       `json:"notes"`
}

// Run is the harness entry point (parent), or one replica (child) when VERIF_C14_CHILD is set.
func Run(seed int64, n int, outDir string) error {
	if p := os.Getenv(childEnv); p != "" {
		opts := worldOpts{}
		if wn := os.Getenv(warmEnv); wn != "" {
			found := false
			for _, wu := range warmups {
				if wu.Name == wn {
					found = true
					if err := runWarmup(wu, seed); err != nil {
						return err
					}
				}
			}
			if !found {
				return fmt.Errorf("unknown warm-up %q", wn)
			}
			opts.NoDumps = true
		}
		out, err := runHistory(seed, n, opts)
		if err != nil {
			return err
		}
		b, err := json.Marshal(out)
		if err != nil {
			return err
		}
		return os.WriteFile(p, b, 0o644)
	}
	return runParent(seed, n, outDir)
}

func digestZ(hexDigest string) string {
	// first 15 hex digits = 60 bits, as a decimal Coq Z
	if len(hexDigest) < 15 {
		return "0"
	}
	var x uint64
	fmt.Sscanf(hexDigest[:15], "%x", &x)
	return fmt.Sprint(x)
}

func runParent(seed int64, n int, outDir string) error {
	// F fresh replicas (the process does nothing before the history) and M warm replicas (the
	// process first runs another chain, see warmups)
	F, M := 3, 2
	if n > 1000 {
		F, M = 4, 3
	}
	if s := os.Getenv("VERIF_C14_N"); s != "" {
		fmt.Sscan(s, &F)
	}
	if F < 3 {
		F = 3
	}
	if M > len(warmups) {
		M = len(warmups)
	}
	N := F + M
	role := func(i int) string {
		if i < F {
			return "fresh"
		}
		return "after " + warmups[i-F].Name
	}
	exe, err := os.Executable()
	if err != nil {
		return err
	}
	outs := make([]childOut, N)
	errs := make([]error, N)
	var wg sync.WaitGroup
	sem := make(chan struct{}, 3) // at most three replicas at a time
	for i := 0; i < N; i++ {
		wg.Add(1)
		go func(i int) {
			defer wg.Done()
			sem <- struct{}{}
			defer func() { <-sem }()
			p := filepath.Join(outDir, fmt.Sprintf("replica_%d.json", i))
			cmd := exec.Command(exe, os.Args[1:]...)
			cmd.Env = append(os.Environ(), childEnv+"="+p)
			if i >= F {
				cmd.Env = append(cmd.Env, warmEnv+"="+warmups[i-F].Name)
			}
			b, err := cmd.CombinedOutput()
			if err != nil {
				errs[i] = fmt.Errorf("replica %d: %v: %s", i, err, tail(string(b), 1500))
				return
			}
			raw, err := os.ReadFile(p)
			if err != nil {
				errs[i] = err
				return
			}
			errs[i] = json.Unmarshal(raw, &outs[i])
		}(i)
	}
	wg.Wait()
	for _, e := range errs {
		if e != nil {
			return e
		}
	}
	st := emit.NewStats("C14", seed, "a map-range site of consensus code counts when it was executed on >= 2 elements in >= 2 processes (distinct sites); a block counts as evaluated when all processes (fresh ones and ones that ran a warm-up chain first) produced its four digests")
	cf := &emit.CasesFile{Import: "Sys.C14Check", Runner: "run", Type: "c14_case"}
	st.Extra["processes"] = N
	st.Extra["fresh_processes"] = F
	st.Extra["warm_processes"] = warmups[:M]
	// blocks: compare position by position; a replica that stopped early shows as digest 0
	maxBlocks := 0
	for _, o := range outs {
		if len(o.Blocks) > maxBlocks {
			maxBlocks = len(o.Blocks)
		}
	}
	for b := 0; b < maxBlocks; b++ {
		var ah, rs, ev, fc, cs []string
		var info map[string]any
		for i, o := range outs {
			if b >= len(o.Blocks) {
				ah, rs, ev, fc, cs = append(ah, "0"), append(rs, "0"), append(ev, "0"), append(fc, "0"), append(cs, "0")
				continue
			}
			blk := o.Blocks[b]
			fsum := sha256.Sum256([]byte(blk.Faults))
			ah, rs, ev = append(ah, digestZ(blk.AppHash)), append(rs, digestZ(blk.Results)), append(ev, digestZ(blk.Events))
			fc = append(fc, digestZ(hex.EncodeToString(fsum[:])))
			cs = append(cs, digestZ(blk.Consensus))
			if i == 0 {
				info = map[string]any{"kind": "block", "block_index": b, "height": blk.Height, "dt_s": blk.DtSec, "ops": blk.Ops, "err": blk.Err,
					"replay": map[string]any{"H": map[string]any{"seed": seed, "n": n, "upto_block_index": b},
						"W": warmups[:M], "how": "rerun the harness with the same seed and n; replica i >= fresh_processes first runs warm-up W[i - fresh_processes] (VERIF_C14_WARM) in the same OS process"}}
			}
		}
		if info == nil {
			info = map[string]any{"kind": "block", "block_index": b}
		}
		per := []map[string]string{}
		for i, o := range outs {
			if b < len(o.Blocks) {
				per = append(per, map[string]string{"replica": fmt.Sprint(i), "process": role(i), "app_hash": o.Blocks[b].AppHash, "results": o.Blocks[b].Results,
					"events": o.Blocks[b].Events, "fault_counters": o.Blocks[b].Faults, "consensus_results": o.Blocks[b].Consensus,
					"tx_results": strings.Join(o.Blocks[b].TxResults, " | ")})
			}
		}
		info["digests"] = per
		h := int64(0)
		if b < len(outs[0].Blocks) {
			h = outs[0].Blocks[b].Height
		}
		cf.Add(fmt.Sprintf("CBlock %d %s %s %s %s %s", h, emit.List(ah), emit.List(rs), emit.List(ev), emit.List(fc), emit.List(cs)))
		st.Info(info)
		st.Evaluations++
		st.Count("block")
		if b < len(outs[0].Blocks) {
			for _, op := range outs[0].Blocks[b].Ops {
				k := "op:" + op.Kind
				if op.Err != "" {
					k += ":err"
				}
				st.Count(k)
			}
			if outs[0].Blocks[b].Err != "" {
				st.Count("block:failed")
			}
		}
	}
	// failing messages with several independent defects: every execution in every process
	maxRep := 0
	for _, o := range outs {
		if len(o.Repeats) > maxRep {
			maxRep = len(o.Repeats)
		}
	}
	for k := 0; k < maxRep; k++ {
		var ds, ls []string
		info := map[string]any{"kind": "repeat"}
		per := []map[string]any{}
		for i, o := range outs {
			if k >= len(o.Repeats) {
				ds, ls = append(ds, "0"), append(ls, "0")
				continue
			}
			rp := o.Repeats[k]
			if i == 0 {
				info["message"], info["message_kind"] = rp.Arg, rp.Kind
			}
			distinct := map[string]int{}
			for _, oc := range rp.Outcomes {
				cons := oc
				if j := strings.Index(oc, logSep); j >= 0 {
					cons = oc[:j]
				}
				ds = append(ds, digestZ(outcomeDigest(cons)))
				ls = append(ls, digestZ(outcomeDigest(oc)))
				distinct[oc]++
			}
			per = append(per, map[string]any{"replica": i, "process": role(i), "message": rp.Kind + " " + rp.Arg, "outcomes": distinct})
		}
		info["executions"] = per
		info["replay"] = map[string]any{"H": map[string]any{"seed": seed, "n": n, "repeat_index": k}, "W": warmups[:M],
			"how": "rerun the harness with the same seed and n; the message above is executed repeatedly on the state the history has reached at that point"}
		cf.Add("CRepeat " + emit.List(ds) + " " + emit.List(ls))
		st.Info(info)
		st.Evaluations++
		st.Count("repeat:" + fmt.Sprint(info["message_kind"]))
	}
	// model correspondence cases from replica 0; the other replicas must have dumped the same terms
	for k, m := range outs[0].Models {
		for i := 1; i < F; i++ { // warm replicas make no dumps
			if k >= len(outs[i].Models) || outs[i].Models[k].Term != m.Term {
				st.Notes = append(st.Notes, fmt.Sprintf("model dump %d differs between replica 0 and %d", k, i))
				st.Count("model-dump-differs")
			}
		}
		cf.Add(m.Term)
		m.Info["replay"] = fmt.Sprintf("history of seed %d, n %d", seed, n)
		st.Info(m.Info)
		st.Evaluations++
		st.Count("model:" + fmt.Sprint(m.Info["kind"]))
		st.Sample(m.Info)
	}
	// coverage: executions on >= 2 elements per site, must be reported by >= 2 processes
	sites := map[string]bool{}
	for _, o := range outs {
		for s := range o.Coverage {
			sites[s] = true
		}
	}
	names := make([]string, 0, len(sites))
	for s := range sites {
		names = append(names, s)
	}
	sort.Strings(names)
	cov := map[string]any{}
	for _, s := range names {
		procs, total := 0, 0
		for _, o := range outs {
			if o.Coverage[s] > 0 {
				procs++
				total += o.Coverage[s]
			}
		}
		cov[s] = map[string]int{"processes": procs, "executions_on_2plus": total}
		if procs >= 2 {
			st.Nontriv(s)
		}
	}
	st.Extra["site_coverage"] = cov
	for k, v := range outs[0].Hist {
		st.Hist["replica0:"+k] = v
	}
	st.Notes = append(st.Notes, outs[0].Notes...)
	if len(outs[0].Blocks) > 0 {
		st.Sample(map[string]any{"kind": "block", "height": outs[0].Blocks[len(outs[0].Blocks)-1].Height,
			"app_hash": outs[0].Blocks[len(outs[0].Blocks)-1].AppHash, "processes": N})
	}
	if _, err := cf.Write(outDir, "cases", 400); err != nil {
		return err
	}
	return st.Write(outDir)
}

func tail(s string, n int) string {
	s = strings.TrimSpace(s)
	if len(s) > n {
		return s[len(s)-n:]
	}
	return s
}
