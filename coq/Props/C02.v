(* C02 — AMM custody: pools stay solvent and every liquidity provider can always exit.
   Statements only; definitions in Amm/Custody.v, proofs in Amm/CustodyProofs.v.
   The model is the bit-exact Amm/Pool.v (validated against x/liquiditypool on every run). *)
From Coq Require Import ZArith List Bool Sorting.Permutation.
Import ListNotations.
From Sunrise Require Import Base.Outcome Base.Dec Amm.Math Amm.Pool Amm.LiqDefs Amm.LiqInv Amm.LiqSwap
  Amm.Custody Amm.CustodyProofs.
Local Open Scope Z_scope.

(* ---- only a position's owner can reduce it or claim for it ----
   [non_owner_op s o]: o is a decrease / increase / claim that names an existing position whose owner
   is not the sender. Such a message fails and, by the transaction semantics of [step], changes nothing. *)
Theorem C02_only_owner_moves_funds : forall s o,
  non_owner_op s o = true -> fst (step s o) = s /\ is_ok (snd (step s o)) = false.
Proof. exact only_owner_moves_funds. Qed.
Print Assumptions C02_only_owner_moves_funds.

(* the same as a frame property of the whole state machine: whatever message is executed, a position
   whose owner is not the sender, and the record of its accrued fees, are exactly what they were
   (swaps and incentive allocations have no sender: they touch nobody's position record) *)
Theorem C02_others_untouched : forall s o pos,
  Inv s -> In pos (a_positions s) -> (forall x, op_sender o = Some x -> pos_owner pos <> x) ->
  find_pos (a_positions (fst (step s o))) (pos_id pos) = find_pos (a_positions s) (pos_id pos) /\
  find_ap (a_acc_pos (fst (step s o))) (pos_id pos) = find_ap (a_acc_pos s) (pos_id pos).
Proof. exact others_untouched. Qed.
Print Assumptions C02_others_untouched.

(* ---- pool_flows_accounted ----
   Every operation moves funds only by bank sends between the acting user, the pool account and the
   pool's fee account ([BalPath]: each send is of a non-negative amount the payer holds) ... *)
Theorem C02_flows_are_sends : forall s o, WF s -> op_wf o ->
  BalPath (bal_of s) (bal_of (fst (step s o))) /\ WF (fst (step s o)).
Proof. exact step_path. Qed.
Print Assumptions C02_flows_are_sends.
(* ... hence pool + fee + user is conserved for every denom ... *)
Theorem C02_pool_flows_accounted : forall s o, WF s -> op_wf o ->
  forall d, total3 (fst (step s o)) d = total3 s d.
Proof. exact step_conserves. Qed.
Print Assumptions C02_pool_flows_accounted.
(* ... and (dust_nonneg) no balance ever becomes negative: what the pool's accounts paid out never
   exceeds what they were paid *)
Theorem C02_dust_nonneg : forall s o, WF s -> op_wf o -> BalNonneg s -> BalNonneg (fst (step s o)).
Proof. exact step_nonneg. Qed.
Print Assumptions C02_dust_nonneg.
(* the same for histories of any length *)
Theorem C02_history_accounting : forall ops s, WF s -> Forall op_wf ops ->
  WF (run s ops) /\ (forall d, total3 (run s ops) d = total3 s d) /\ (BalNonneg s -> BalNonneg (run s ops)).
Proof. exact run_custody_accounting. Qed.
Print Assumptions C02_history_accounting.

(* ---- swap_flows ---- *)
Theorem C02_swap_flows : forall s ei di do_ sp fe s' i o, WF s ->
  swap s ei di do_ sp fe = Ok (s', i, o) ->
  exists fee, 0 <= fee /\ fee < i /\ 0 < o /\
    bal_of s' = send3 (send3 (send3 (bal_of s) AUser APool (vsingle di (i - fee))) AUser AFee (vsingle di fee))
                      APool AUser (vsingle do_ o) /\
    ((di = 0 /\ do_ = 1) \/ (di = 1 /\ do_ = 0)).
Proof. exact swap_flows. Qed.
Print Assumptions C02_swap_flows.

(* ---- rounding direction ----
   Same pool price, same range, same liquidity: what CalcActualAmounts pays out for -l never exceeds
   what it charges for +l, the charge is a whole number of units, and the payout is computable whenever
   the charge is. *)
Theorem C02_withdraw_le_deposit : forall p lo up l db dq,
  0 < l -> calc_actual_amounts p lo up l = Ok (db, dq) ->
  exists wb wq, calc_actual_amounts p lo up (- l) = Ok (wb, wq) /\
    Z.abs (dtrunc_int wb) <= Z.abs (dtrunc_int db) /\ Z.abs (dtrunc_int wq) <= Z.abs (dtrunc_int dq) /\
    dtrunc_int db * P = db /\ dtrunc_int dq * P = dq.
Proof. exact withdraw_le_deposit. Qed.
Print Assumptions C02_withdraw_le_deposit.
(* at the level of the messages: create a position and withdraw it completely right away *)
Theorem C02_roundtrip_no_profit : forall s sender lo up base quote mb mq s1 pid ab aq l s2 wb wq,
  create_position s sender lo up base quote mb mq = Ok (s1, (pid, ab, aq, l)) ->
  decrease_liquidity s1 sender pid l = Ok (s2, wb, wq) ->
  0 <= wb <= ab /\ 0 <= wq <= aq.
Proof. exact roundtrip_no_profit. Qed.
Print Assumptions C02_roundtrip_no_profit.

(* ---- custody ----
   [Solvent s]: the pool account holds at least the sum, over all open positions, of what
   DecreaseLiquidity(all) would pay that position at the current price (every payout computable). *)

(* a complete withdrawal pays exactly that amount, leaves what the others are owed unchanged
   (so the amounts do not depend on the exit order) and keeps the pool solvent *)
Theorem C02_exit_pays_owed : forall s sender pid pos s' b q,
  Inv s -> len4 (a_bal_pool s) -> Solvent s ->
  find_pos (a_positions s) pid = Some pos ->
  decrease_liquidity s sender pid (pos_liq pos) = Ok (s', b, q) ->
  Solvent s' /\ owed_pair (a_pool s) pos = Some (b, q) /\
  a_positions s' = del_pos (a_positions s) pid /\
  (a_positions s' <> [] -> same_price (a_pool s) (a_pool s')) /\
  vget (a_bal_pool s') 0 = vget (a_bal_pool s) 0 - b /\ vget (a_bal_pool s') 1 = vget (a_bal_pool s) 1 - q.
Proof. exact decrease_full_solvent. Qed.
Print Assumptions C02_exit_pays_owed.
(* under [Solvent] the send that pays a withdrawing provider out of the pool account cannot fail *)
Theorem C02_exit_never_short : forall s pid pos sa c sb ab aq le ue,
  Inv s -> WF s -> BalNonneg s -> Solvent s ->
  find_pos (a_positions s) pid = Some pos ->
  collect_fees s (pos_owner pos) pid = Ok (sa, c) ->
  update_position sa (pos_lower pos) (pos_upper pos) (- pos_liq pos) pid = Ok (sb, ab, aq, le, ue) ->
  exists sc, send sb APool AUser [Z.abs ab; Z.abs aq; 0; 0] = Ok sc.
Proof. exact exit_pool_send_covered. Qed.
Print Assumptions C02_exit_never_short.

(* custody_real, PARTIAL: [Solvent] is preserved by every creation, complete withdrawal, increase,
   claim and incentive allocation ([custody_safe_op]), for histories of any length.
   MISSING: swaps and partial withdrawals.  They are not provable for this code: see the refutation
   below; on the implementation [Solvent] is evaluated by the run-time monitor after every swap and
   every partial withdrawal. *)
Theorem C02_custody_step_partial : forall s o,
  Inv s -> WF s -> Solvent s -> custody_safe_op s o = true -> Solvent (fst (step s o)).
Proof. exact step_solvent. Qed.
Print Assumptions C02_custody_step_partial.
Theorem C02_custody_partial : forall ops s,
  Inv s -> WF s -> Forall op_wf ops -> Solvent s -> safe_ops s ops -> Solvent (run s ops).
Proof. exact run_solvent. Qed.
Print Assumptions C02_custody_partial.

(* the full statements (Amm/Custody.v): after any history from an empty pool the pool account covers
   all positions and the fee account all claims; withdrawing everything in any order never fails *)
Definition C02_custody_full : Prop := custody_full.
Definition C02_custody_budget_full (budget : Z) : Prop := custody_budget_full budget.
Definition C02_drain_full : Prop := drain_full.

(* REFUTED for the code as it is (finding C02-F1, reproduced on the implementation by the harness
   scenario F1): CalcAmountBaseDelta rounds its intermediate results half-even, so at a sqrt price of
   1e-9 two swaps leave the pool account one unit short of what its only position is owed. *)
Theorem C02_custody_full_refuted : ~ C02_custody_full.
Proof. exact custody_full_refuted. Qed.
Print Assumptions C02_custody_full_refuted.
Theorem C02_drain_full_refuted : ~ C02_drain_full.
Proof. exact drain_full_refuted. Qed.
Print Assumptions C02_drain_full_refuted.

(* the monitors decide exactly the predicates above *)
Theorem C02_monitor_solvent : forall s, solvent_b s = true <-> Solvent s.
Proof. exact solvent_b_iff. Qed.
Print Assumptions C02_monitor_solvent.
Theorem C02_monitor_wf : forall s, wf_b s = true <-> WF s.
Proof. exact wf_b_iff. Qed.
Print Assumptions C02_monitor_wf.
Theorem C02_monitor_nonneg : forall s, bal_nonneg_b s = true <-> BalNonneg s.
Proof. exact bal_nonneg_b_iff. Qed.
Print Assumptions C02_monitor_nonneg.

(* non-vacuity: a reachable state with two overlapping positions of different owners satisfies every
   hypothesis used above; a stranger's decrease is a non-owner op; both exit orders succeed *)
Example C02_nonvacuous :
  Reach0 ex_pool /\ Inv (run ex_pool ex_ops) /\ WF (run ex_pool ex_ops) /\ BalNonneg (run ex_pool ex_ops) /\
  Solvent (run ex_pool ex_ops) /\ map pos_id (a_positions (run ex_pool ex_ops)) = [0; 1] /\
  non_owner_op (run ex_pool ex_ops) (ODecrease 2 0 1) = true /\
  custody_safe_op (run ex_pool ex_ops) (OClaim 1 [0]) = true /\
  drain (run ex_pool ex_ops) [1; 0] = true /\ drain (run ex_pool ex_ops) [0; 1] = true.
Proof. exact nonvacuous_example. Qed.
