package c09

import (
	"fmt"
	"math/big"
	"sort"
	"strings"
	"time"

	sdkmath "cosmossdk.io/math"
	sdk "github.com/cosmos/cosmos-sdk/types"

	dakeeper "github.com/sunriselayer/sunrise/x/da/keeper"
	datypes "github.com/sunriselayer/sunrise/x/da/types"

	"verifharness/apph"
	"verifharness/emit"
)

// realHistory drives one long history through the real message handlers (PublishData,
// SubmitInvalidity, RegisterProofDeputy, UnregisterProofDeputy, SubmitValidityProof with real
// Groth16 proofs) and full FinalizeBlock/Commit blocks. Every block is observed: the projection
// is read just before the block (on a scratch context that already ran the staking end blocker,
// which precedes the DA end blocker in the block) and just after it.
//
// Ghost state: the harness records, for every accepted SubmitValidityProof, WHICH VALIDATOR the
// proof was for (msg.ValidatorAddress) and its index list; a later accepted submission for the
// same (item, validator) replaces the earlier one, whoever signed it (the validator's own key
// or its registered deputy). The model and the monitors are fed these proofs-in-force, never
// the Sender field of the stored records; the stored records are dumped next to them and must be
// the same set (one record per validator, filed under the validator's account address).
type realHistory struct {
	w       *world
	r       *emit.Rand
	srv     datypes.MsgServer
	proofBz []byte
	hash    []byte
	seq     int
	msgHist map[string]int
	subs    []submission               // every SubmitValidityProof of the current round
	ghost   map[string]map[int][]int64 // uri -> validator id -> indices of the proof in force
	deputy  map[int]int                // validator index -> account index of its registered deputy
	queries []queryResult              // query cases of the current round
}

// accounts: 0-1 publishers, 1-3 challengers, 4.. deputies
const firstDeputyAcct = 4

// submission records one SubmitValidityProof message and whether the handler stored it.
type submission struct {
	N        int
	Indices  []int64
	Accepted bool
	Err      string
	Via      string
	Val      int
}

func (s submission) coq() string {
	return fmt.Sprintf("CSubmit %d %s %s", s.N, zs(s.Indices), emit.Bool(s.Accepted))
}

func newRealHistory(w *world, r *emit.Rand) (*realHistory, error) {
	ctx := w.h.Ctx()
	params, err := w.h.App.DaKeeper.Params.Get(ctx)
	if err != nil {
		return nil, err
	}
	pb, hash, err := makeProof(params)
	if err != nil {
		return nil, fmt.Errorf("groth16 proof: %w", err)
	}
	params.SlashEpoch = 4
	params.SlashFraction = "0.01"
	if err := w.h.App.DaKeeper.Params.Set(ctx, params); err != nil {
		return nil, err
	}
	return &realHistory{w: w, r: r, srv: dakeeper.NewMsgServerImpl(w.h.App.DaKeeper), proofBz: pb, hash: hash,
		msgHist: map[string]int{}, ghost: map[string]map[int][]int64{}, deputy: map[int]int{}}, nil
}

func errClass(err error) string {
	if err == nil {
		return "ok"
	}
	s := err.Error()
	switch {
	case strings.HasPrefix(s, "panic:"):
		return "panic"
	case strings.Contains(s, "proof indices overflow"):
		return "err:indices-overflow"
	case strings.Contains(s, "not bonded"):
		return "err:not-bonded"
	case strings.Contains(s, "proof period is over"):
		return "err:proof-period-over"
	case strings.Contains(s, "not in challenge"):
		return "err:not-challenging"
	case strings.Contains(s, "deputy"):
		return "err:deputy"
	case strings.Contains(s, "mismatch"):
		return "err:count-mismatch"
	}
	return "err:other"
}

func (rh *realHistory) msg(kind string, f func(ctx sdk.Context) error) error {
	err := apph.Tx(rh.w.h.Ctx(), f)
	rh.msgHist["msg:"+kind+":"+errClass(err)]++
	return err
}

// ---------------------------------------------------------------- deputies

func (rh *realHistory) registerDeputy(vi, acct int) error {
	w := rh.w
	err := rh.msg("register-deputy", func(ctx sdk.Context) error {
		_, e := rh.srv.RegisterProofDeputy(ctx, &datypes.MsgRegisterProofDeputy{Sender: sdk.AccAddress(w.vals[vi].op).String(), DeputyAddress: w.h.Accts[acct].Addr.String()})
		return e
	})
	if err == nil {
		rh.deputy[vi] = acct
	}
	return err
}

func (rh *realHistory) unregisterDeputy(vi int) error {
	w := rh.w
	err := rh.msg("unregister-deputy", func(ctx sdk.Context) error {
		_, e := rh.srv.UnregisterProofDeputy(ctx, &datypes.MsgUnregisterProofDeputy{Sender: sdk.AccAddress(w.vals[vi].op).String()})
		return e
	})
	if err == nil {
		delete(rh.deputy, vi)
	}
	return err
}

// otherDeputy picks a deputy account different from the validator's current one.
func (rh *realHistory) otherDeputy(vi int) int {
	nd := len(rh.w.h.Accts) - firstDeputyAcct
	cur, has := rh.deputy[vi]
	a := firstDeputyAcct + rh.r.Intn(nd)
	if has && a == cur {
		a = firstDeputyAcct + (a-firstDeputyAcct+1)%nd
	}
	return a
}

// churnDeputies registers, re-registers and unregisters deputies at random.
func (rh *realHistory) churnDeputies() {
	for vi := range rh.w.vals {
		_, has := rh.deputy[vi]
		switch {
		case !has && rh.r.Chance(1, 3):
			rh.registerDeputy(vi, rh.otherDeputy(vi))
		case has && rh.r.Chance(1, 5):
			rh.registerDeputy(vi, rh.otherDeputy(vi)) // re-registration replaces the deputy
		case has && rh.r.Chance(1, 6):
			rh.unregisterDeputy(vi)
		case !has && rh.r.Chance(1, 12):
			rh.unregisterDeputy(vi) // refused: nothing registered
		}
	}
}

// ---------------------------------------------------------------- submissions

const (
	viaOwn = iota
	viaDeputy
	viaStranger // an account that is not (or no longer) the validator's deputy
)

// submit sends one MsgSubmitValidityProof for validator vi and keeps the ghost state.
func (rh *realHistory) submit(vi int, uri string, n int, idx []int64, via int) error {
	w := rh.w
	v := w.vals[vi]
	sender := sdk.AccAddress(v.op).String()
	viaName := "own-key"
	switch via {
	case viaDeputy:
		if a, ok := rh.deputy[vi]; ok {
			sender = w.h.Accts[a].Addr.String()
			viaName = "deputy"
		}
	case viaStranger:
		sender = w.h.Accts[rh.otherDeputy(vi)].Addr.String()
		viaName = "stranger"
	}
	proofs := make([][]byte, len(idx))
	for j := range proofs {
		proofs[j] = rh.proofBz
	}
	e := rh.msg("proof:"+viaName, func(ctx sdk.Context) error {
		_, e := rh.srv.SubmitValidityProof(ctx, &datypes.MsgSubmitValidityProof{Sender: sender, ValidatorAddress: v.op.String(), MetadataUri: uri, Indices: idx, Proofs: proofs})
		return e
	})
	sub := submission{N: n, Indices: append([]int64{}, idx...), Accepted: e == nil, Via: viaName, Val: v.id}
	if e != nil {
		sub.Err = errClass(e)
	} else {
		if rh.ghost[uri] == nil {
			rh.ghost[uri] = map[int][]int64{}
		}
		rh.ghost[uri][v.id] = append([]int64{}, idx...) // the proof in force for this validator
	}
	rh.subs = append(rh.subs, sub)
	return e
}

// ---------------------------------------------------------------- blocks

// observedBlock runs one full block and returns its case.
func (rh *realHistory) observedBlock(dt time.Duration) (blockResult, error) {
	w := rh.w
	tNext := w.h.Time.Add(dt)
	scratch, _ := w.h.Ctx().CacheContext()
	pctx := ctxAt(scratch, w.h.Height+1, tNext)
	if _, err := w.h.App.StakingKeeper.EndBlocker(pctx); err != nil {
		return blockResult{}, err
	}
	pre := w.readPre(pctx)
	// the proofs in force come from the ghost state, not from the stored Sender fields
	for i := range pre.Items {
		g := rh.ghost[pre.Items[i].URI]
		ids := make([]int, 0, len(g))
		for id := range g {
			ids = append(ids, id)
		}
		sort.Ints(ids)
		pre.Items[i].Proofs = nil
		for _, id := range ids {
			pre.Items[i].Proofs = append(pre.Items[i].Proofs, proofRec{Sender: id, Indices: g[id]})
		}
	}
	resp, err := w.h.Block(dt, nil)
	var obs blockObs
	if err != nil {
		// a panic or error in FinalizeBlock: the block is lost
		obs = w.readPost(w.h.Ctx(), pre, nil)
		obs.Panic, obs.PanicMsg = true, err.Error()
	} else {
		obs = w.readPost(w.h.Ctx(), pre, evtsOfABCI(resp.Events))
	}
	for i, it := range pre.Items {
		if i < len(obs.Status) && obs.Status[i] != stChallenging {
			delete(rh.ghost, it.URI)
		}
	}
	res := blockResult{Pre: pre, Obs: obs, Term: fmt.Sprintf("CBlock %s %s", pre.coq(), obs.coq(pre.IDs)),
		Info: map[string]any{"kind": "real-block", "height": w.h.Height, "pre": pre.info(), "observed": obs.info(pre.IDs)}}
	return res, nil
}

type pubItem struct {
	uri string
	n   int
}

// publish publishes nItems items with the given shard counts (parity as given) and has them
// challenged so that the next block moves them to Challenging.
func (rh *realHistory) publish(ns []int, parities []uint64) ([]pubItem, error) {
	w, r := rh.w, rh.r
	var out []pubItem
	for i, n := range ns {
		rh.seq++
		uri := fmt.Sprintf("c09/real/%04d", rh.seq)
		hs := make([][]byte, n)
		for j := range hs {
			hs[j] = rh.hash
		}
		pub := w.h.Accts[r.Intn(2)].Addr.String()
		parity := parities[i]
		if e := rh.msg("publish", func(ctx sdk.Context) error {
			_, e := rh.srv.PublishData(ctx, &datypes.MsgPublishData{Sender: pub, MetadataUri: uri, ParityShardCount: parity, ShardDoubleHashes: hs})
			return e
		}); e != nil {
			return nil, fmt.Errorf("publish: %w", e)
		}
		// challengers dispute every shard so that the item certainly reaches Challenging
		nch := 1 + r.Intn(3)
		for c := 0; c < nch; c++ {
			var idx []int64
			for j := 0; j < n; j++ {
				if c == 0 || r.Bool() {
					idx = append(idx, int64(j))
				}
			}
			if len(idx) == 0 {
				idx = []int64{0}
			}
			ch := w.h.Accts[1+c].Addr.String()
			if e := rh.msg("invalidity", func(ctx sdk.Context) error {
				_, e := rh.srv.SubmitInvalidity(ctx, &datypes.MsgSubmitInvalidity{Sender: ch, MetadataUri: uri, Indices: idx})
				return e
			}); e != nil {
				return nil, fmt.Errorf("invalidity: %w", e)
			}
		}
		out = append(out, pubItem{uri, n})
	}
	return out, nil
}

// bondedVals lists the validators (indices) that can submit proofs now.
func (rh *realHistory) bondedVals() []int {
	ctx := rh.w.h.Ctx()
	var out []int
	for vi, v := range rh.w.vals {
		x := rh.w.vinfoOf(ctx, v)
		if x.Exists && x.Bonded && !x.Jailed {
			out = append(out, vi)
		}
	}
	return out
}

// needed = the least number of distinct provers that makes a shard safe (parity 0).
func needed(rf string) int {
	raw := sdkmath.LegacyMustNewDecFromStr(rf).BigInt()
	t := new(big.Int).Mul(raw, big.NewInt(2))
	t.Quo(t, big.NewInt(3))
	one := new(big.Int).Exp(big.NewInt(10), big.NewInt(18), nil)
	k := new(big.Int).Add(t, new(big.Int).Sub(one, big.NewInt(1)))
	k.Quo(k, one)
	if k.Sign() <= 0 {
		return 1
	}
	return int(k.Int64())
}

func allIdx(n int) []int64 {
	out := make([]int64, n)
	for i := range out {
		out[i] = int64(i)
	}
	return out
}

// round kinds
const (
	rndRandom       = iota
	rndOwnAndDeputy // validator X proves with its own key and again through its deputy; distinct provers one short
	rndReRegister   // X proves through deputy D1, re-registers D2, proves again through D2; one short
	rndDeputyOnly   // X proves its assigned shards only through its deputy, the shards are safe: no fault
)

// round publishes items, challenges them, lets validators answer and returns the blocks run.
func (rh *realHistory) round(kind int) (blocks []blockResult, oor bool, err error) {
	w, r := rh.w, rh.r
	add := func(dt time.Duration) error {
		b, e := rh.observedBlock(dt)
		if e != nil {
			return e
		}
		b.Info["round_kind"] = kind
		blocks = append(blocks, b)
		return nil
	}
	ctx := w.h.Ctx()
	params, err := w.h.App.DaKeeper.Params.Get(ctx)
	if err != nil {
		return nil, false, err
	}
	// bring jailed validators back so that the history does not run out of validators
	bonded := rh.bondedVals()
	for _, v := range w.vals {
		vi := w.vinfoOf(ctx, v)
		if vi.Exists && vi.Jailed && (len(bonded) < 2 || r.Chance(1, 2)) {
			if e := w.h.App.StakingKeeper.Unjail(ctx, v.cons); e != nil {
				return nil, false, e
			}
			rh.msgHist["unjail"]++
		}
	}
	if kind == rndRandom {
		rh.churnDeputies()
	}
	// sometimes fewer validator slots than validators: the surplus validators leave the bonded
	// set at the next block (unbonding, not jailed) but stay in the staking power index
	if r.Chance(1, 3) {
		sp, e := w.h.App.StakingKeeper.Params.Get(ctx)
		if e != nil {
			return nil, false, e
		}
		sp.MaxValidators = uint32(emit.Pick(r, 3, 4, 4, len(w.vals)))
		if e := w.h.App.StakingKeeper.Params.Set(ctx, sp); e != nil {
			return nil, false, e
		}
		rh.msgHist[fmt.Sprintf("max-validators:%d", sp.MaxValidators)]++
	}
	// replication factor / fault threshold of the round
	rf := emit.Pick(r, "5", "3", "1.5", "2", "4.5", "1")
	directedX := -1
	if kind != rndRandom && len(bonded) > 0 {
		directedX = bonded[r.Intn(len(bonded))]
		// the largest threshold the bonded set can serve: others = k-2 (verdict rounds) / k-1 (fault round)
		rf = "3"
		for _, c := range []string{"5", "4.5", "3"} {
			k := needed(c)
			if kind == rndDeputyOnly && k-1 <= len(bonded)-1 {
				rf = c
				break
			}
			if kind != rndDeputyOnly && k >= 2 && k-2 <= len(bonded)-1 {
				rf = c
				break
			}
		}
	}
	params.ReplicationFactor = rf
	params.SlashFaultThreshold = emit.Pick(r, "0.5", "0.34", "0.2", "0.75")
	if err := w.h.App.DaKeeper.Params.Set(ctx, params); err != nil {
		return nil, false, err
	}
	var ns []int
	var ps []uint64
	nItems := 1 + r.Intn(3)
	for i := 0; i < nItems; i++ {
		n := 2 + r.Intn(5)
		ns = append(ns, n)
		if kind != rndRandom && i == 0 {
			ps = append(ps, 0)
		} else {
			ps = append(ps, uint64(r.Intn(n)))
		}
	}
	items, err := rh.publish(ns, ps)
	if err != nil {
		return nil, false, err
	}
	// next block moves them to Challenging
	if err := add(5 * time.Second); err != nil {
		return nil, false, err
	}
	ctx = w.h.Ctx()
	bonded = rh.bondedVals()
	for i, it := range items {
		n := it.n
		thr := w.ghostThr(ctx, n) // validators prove what the protocol rule assigns them
		qt, qi := w.queryCase(ctx, n)
		rh.queries = append(rh.queries, queryResult{qt, qi})
		if kind != rndRandom && i == 0 && directedX >= 0 {
			// directed item: X and a chosen number of other provers, everybody lists every shard
			k := needed(rf)
			others := k - 2
			if kind == rndDeputyOnly {
				others = k - 1 + r.Intn(2)
			} else if r.Chance(1, 4) {
				others = k - 1 // X's single proof completes the threshold: Verified either way
			}
			cnt := 0
			for _, vi := range bonded {
				if vi == directedX || cnt >= others {
					continue
				}
				rh.submit(vi, it.uri, n, allIdx(n), viaOwn)
				cnt++
			}
			x := directedX
			if _, has := rh.deputy[x]; !has {
				if e := rh.registerDeputy(x, rh.otherDeputy(x)); e != nil {
					return nil, false, e
				}
			}
			var mine []int64
			if thr != nil {
				mine = pureAssign(w.vals[x].op, int64(*thr), int64(n))
			}
			switch kind {
			case rndOwnAndDeputy:
				if r.Bool() {
					rh.submit(x, it.uri, n, allIdx(n), viaOwn)
					rh.submit(x, it.uri, n, allIdx(n), viaDeputy)
				} else {
					rh.submit(x, it.uri, n, allIdx(n), viaDeputy)
					rh.submit(x, it.uri, n, allIdx(n), viaOwn)
				}
			case rndReRegister:
				rh.submit(x, it.uri, n, allIdx(n), viaDeputy)
				if e := rh.registerDeputy(x, rh.otherDeputy(x)); e != nil {
					return nil, false, e
				}
				rh.submit(x, it.uri, n, allIdx(n), viaDeputy)
				if r.Bool() {
					rh.submit(x, it.uri, n, allIdx(n), viaOwn)
				}
			case rndDeputyOnly:
				rh.submit(x, it.uri, n, mine, viaDeputy)
			}
			continue
		}
		for vi, v := range w.vals {
			var idx []int64
			var assigned []int64
			if thr != nil {
				assigned = pureAssign(v.op, int64(*thr), int64(n))
			}
			b := r.Intn(9)
			if vi == 0 && kind == rndRandom {
				b = 2 // validator 1 mostly proves everything
			}
			switch b {
			case 0:
				continue
			case 1, 8:
				idx = append(idx, assigned...)
			case 2, 3:
				idx = allIdx(n)
			case 4: // every assigned index twice
				for _, x := range assigned {
					idx = append(idx, x, x)
				}
			case 5: // one index many times
				x := int64(r.Intn(n))
				for j := 0; j < 2+r.Intn(4); j++ {
					idx = append(idx, x)
				}
			case 6: // out of range: the whole message must be refused
				idx = append(append(idx, assigned...), int64(n))
				oor = true
			case 7: // negative index: refused
				idx = append(append(idx, assigned...), -1)
				oor = true
			}
			via := viaOwn
			if _, has := rh.deputy[vi]; has && r.Bool() {
				via = viaDeputy
			} else if r.Chance(1, 12) {
				via = viaStranger // refused: not the registered deputy
			}
			e := rh.submit(vi, it.uri, n, idx, via)
			// proving twice: a second submission for the same validator replaces the first,
			// by the same or the other key, sometimes with another index list
			if e == nil && r.Chance(1, 3) {
				via2 := viaOwn
				if _, has := rh.deputy[vi]; has && r.Bool() {
					via2 = viaDeputy
				}
				idx2 := idx
				if r.Chance(1, 3) {
					idx2 = append([]int64{}, assigned...)
				}
				rh.submit(vi, it.uri, n, idx2, via2)
			}
		}
	}
	// a block inside the proof period (nothing is due), then past the deadline
	if err := add(30 * time.Second); err != nil {
		return nil, false, err
	}
	// between the queries served above and the tally the threshold may move in either direction:
	// another replication factor and/or another number of validator slots (random rounds only:
	// the directed rounds rely on their replication factor)
	if kind == rndRandom && r.Chance(1, 2) {
		ctx = w.h.Ctx()
		w.setRF(ctx, emit.Pick(r, "5", "3", "1.5", "2", "4.5", "1", "7.25"))
		rh.msgHist["rf-changed-before-tally"]++
		if r.Bool() {
			sp, e := w.h.App.StakingKeeper.Params.Get(ctx)
			if e != nil {
				return nil, false, e
			}
			sp.MaxValidators = uint32(emit.Pick(r, 3, 4, len(w.vals)))
			if e := w.h.App.StakingKeeper.Params.Set(ctx, sp); e != nil {
				return nil, false, e
			}
			if err := add(5 * time.Second); err != nil {
				return nil, false, err
			}
		}
		for _, it := range items {
			qt, qi := w.queryCase(w.h.Ctx(), it.n)
			rh.queries = append(rh.queries, queryResult{qt, qi})
		}
	}
	if err := add(params.ProofPeriod + time.Duration(r.Intn(3))*time.Second); err != nil {
		return nil, false, err
	}
	if r.Chance(1, 2) {
		if err := add(5 * time.Second); err != nil {
			return nil, false, err
		}
	}
	return blocks, oor, nil
}
