// Package c12: lockup accounts never release locked funds early.
//
// The harness creates real x/accounts lockup accounts (non-voting-delegatable and
// self-delegatable continuous locking accounts) in the running application, drives them with
// Execute by the owner and by strangers, drives the self-delegation proxy as root owner,
// interleaves third-party deposits and blocks whose times straddle start, end and every
// unbonding completion, and emits every step as a Coq term: the projection of the
// implementation's state before the step, the operation with the oracle values read from the
// application (staking / share-class / distribution results), the result class and the
// projection after the step.  coq/Stake/C12Check.v evaluates the model on each of them.
package c12

import (
	"fmt"
	"math/big"
	"sort"
	"strings"
	"time"

	"cosmossdk.io/collections"
	sdkmath "cosmossdk.io/math"
	bankkeeper "cosmossdk.io/x/bank/keeper"
	banktypes "cosmossdk.io/x/bank/types"
	stakingkeeper "cosmossdk.io/x/staking/keeper"
	stakingtypes "cosmossdk.io/x/staking/types"
	abci "github.com/cometbft/cometbft/abci/types"
	cmtproto "github.com/cometbft/cometbft/api/cometbft/types/v1"
	codectypes "github.com/cosmos/cosmos-sdk/codec/types"
	"github.com/cosmos/cosmos-sdk/crypto/keys/ed25519"
	sdk "github.com/cosmos/cosmos-sdk/types"
	authtypes "github.com/cosmos/cosmos-sdk/x/auth/types"

	nvl "github.com/sunriselayer/sunrise/x/accounts/non_voting_delegatable_lockup"
	nvlt "github.com/sunriselayer/sunrise/x/accounts/non_voting_delegatable_lockup/v1"
	sdl "github.com/sunriselayer/sunrise/x/accounts/self_delegatable_lockup"
	sdlt "github.com/sunriselayer/sunrise/x/accounts/self_delegatable_lockup/v1"
	proxyt "github.com/sunriselayer/sunrise/x/accounts/self_delegation_proxy/v1"
	sctypes "github.com/sunriselayer/sunrise/x/shareclass/types"

	"verifharness/apph"
	"verifharness/emit"
)

// denominations, numbered in string order (the model relies on that order for sdk.Coins)
var denoms = []string{"uatom", "urise", "uusdc", "uvrise"}

const (
	dATOM = 1
	dFEE  = 2
	dUSDC = 3
	dBOND = 4
)

func denomID(s string) int {
	for i, d := range denoms {
		if d == s {
			return i + 1
		}
	}
	return 0
}

type bal4 [4]*big.Int // indexed by denom id - 1

func zero4() bal4 { return bal4{big.NewInt(0), big.NewInt(0), big.NewInt(0), big.NewInt(0)} }
func (b bal4) add(o bal4) bal4 {
	var r bal4
	for i := range r {
		r[i] = new(big.Int).Add(b[i], o[i])
	}
	return r
}
func (b bal4) sub(o bal4) bal4 {
	var r bal4
	for i := range r {
		r[i] = new(big.Int).Sub(b[i], o[i])
	}
	return r
}
func (b bal4) neg() bal4 { return zero4().sub(b) }
func (b bal4) coq() string {
	return fmt.Sprintf("{| b_fee := %s; b_bond := %s; b_oth := [(1, %s); (3, %s)] |}",
		emit.Z(b[dFEE-1]), emit.Z(b[dBOND-1]), emit.Z(b[dATOM-1]), emit.Z(b[dUSDC-1]))
}
func (b bal4) strs() []string {
	return []string{b[0].String(), b[1].String(), b[2].String(), b[3].String()}
}

type entryObs struct {
	End    int64 // ns
	Amt    *big.Int
	IsFee  bool
	Height int64
}
type unb struct {
	T   int64
	Amt *big.Int
}

// worldObs is the projection of the application state the model talks about.
type worldObs struct {
	SD           bool
	Owner        int
	Start, End   *big.Int // ns
	StartT, EndT time.Time
	Orig         [][2]*big.Int // denom id, amount (ascending)
	Now          int64
	Height       int64
	DL, DF       *big.Int
	Ent          []struct {
		Val int
		L   []entryObs
	}
	AB            bal4
	HasProxy      bool
	PB            bal4
	StkDel        *big.Int
	StkUnb        []unb
	ScDel         *big.Int
	ScUnb         []unb
	Out, Rew, Dep bal4
	// observed schedule (QueryLockupAccountInfo.LockedCoins); nil = the query panicked
	Locked [][2]*big.Int
}

// nsBig: nanoseconds since the Unix epoch, exact for every time.Time (UnixNano overflows after 2262)
func nsBig(t time.Time) *big.Int {
	x := new(big.Int).Mul(big.NewInt(t.Unix()), big.NewInt(1_000_000_000))
	return x.Add(x, big.NewInt(int64(t.Nanosecond())))
}

func pairList(l [][2]*big.Int) string {
	xs := make([]string, len(l))
	for i, p := range l {
		xs[i] = emit.Tuple(emit.Z(p[0]), emit.Z(p[1]))
	}
	return emit.List(xs)
}
func unbList(l []unb) string {
	xs := make([]string, len(l))
	for i, u := range l {
		xs[i] = emit.Tuple(emit.ZI(u.T), emit.Z(u.Amt))
	}
	return emit.List(xs)
}

func (w *worldObs) coq() string {
	var ents []string
	for _, kv := range w.Ent {
		var es []string
		for _, e := range kv.L {
			es = append(es, fmt.Sprintf("{| e_end := %s; e_amt := %s; e_h := %s |}",
				emit.ZI(e.End), emit.Z(e.Amt), emit.ZI(e.Height)))
		}
		ents = append(ents, emit.Tuple(emit.ZI(int64(kv.Val)), emit.List(es)))
	}
	return fmt.Sprintf("{| w_sd := %s; w_owner := %d; w_start := %s; w_end := %s; w_orig := %s; w_now := %s; w_height := %d; "+
		"w_DL := %s; w_DF := %s; w_ent := %s; w_ab := %s; w_has_proxy := %s; w_pb := %s; "+
		"w_stk_del := %s; w_stk_unb := %s; w_sc_del := %s; w_sc_unb := %s; w_out := %s; w_rew := %s; w_dep := %s |}",
		emit.Bool(w.SD), w.Owner, emit.Z(w.Start), emit.Z(w.End), pairList(w.Orig), emit.ZI(w.Now), w.Height,
		emit.Z(w.DL), emit.Z(w.DF), emit.List(ents), w.AB.coq(), emit.Bool(w.HasProxy), w.PB.coq(),
		emit.Z(w.StkDel), unbList(w.StkUnb), emit.Z(w.ScDel), unbList(w.ScUnb), w.Out.coq(), w.Rew.coq(), w.Dep.coq())
}
func (w *worldObs) lockedCoq() string {
	if w.Locked == nil {
		return "None"
	}
	return emit.Some(pairList(w.Locked))
}

// ---------------------------------------------------------------- environment

type env struct {
	h            *apph.H
	r            *emit.Rand
	st           *emit.Stats
	cf           *emit.CasesFile
	owners       []int    // indices of accounts that are validator operators
	vals         []string // all validator operator addresses, ascending (id = index + 1)
	funder       int
	outs         []int // watched outside accounts used as recipients / strangers
	distr        sdk.AccAddress
	scMod        sdk.AccAddress
	bondSendable bool
	ncases       int
	// ctxTime, when after h.Time, is the time of the block "in progress": operations run at
	// that time before the block's EndBlockers have settled anything (as transactions do)
	ctxTime time.Time
}

func (e *env) ctx() sdk.Context {
	if e.ctxTime.After(e.h.Time) {
		return e.h.CtxAt(e.ctxTime)
	}
	return e.h.Ctx()
}
func (e *env) now() time.Time {
	if e.ctxTime.After(e.h.Time) {
		return e.ctxTime
	}
	return e.h.Time
}

func (e *env) valID(addr string) int {
	for i, v := range e.vals {
		if v == addr {
			return i + 1
		}
	}
	return 0
}

func (e *env) bal(ctx sdk.Context, a sdk.AccAddress) bal4 {
	var b bal4
	for i, d := range denoms {
		b[i] = e.h.Bal(ctx, a, d).BigInt()
	}
	return b
}

// reward sources: the distribution module account and the share-class reward savers
func (e *env) rewardSources(ctx sdk.Context) bal4 {
	t := e.bal(ctx, e.distr)
	for _, v := range e.vals {
		t = t.add(e.bal(ctx, sctypes.RewardSaverAddress(v)))
	}
	return t
}
func (e *env) outsideTotal(ctx sdk.Context) bal4 {
	t := zero4()
	for i := range e.h.Accts {
		t = t.add(e.bal(ctx, e.h.Accts[i].Addr))
	}
	return t
}
func (e *env) scBonded(ctx sdk.Context) *big.Int {
	b, err := e.h.App.StakingKeeper.GetDelegatorBonded(ctx, e.scMod)
	if err != nil {
		panic(err)
	}
	return b.BigInt()
}

type scen struct {
	e             *env
	sd            bool
	owner         int
	addr          sdk.AccAddress
	accNum        uint64
	scDel         *big.Int
	out, rew, dep bal4
	start, end    time.Time
	origFee       *big.Int
	// tracking values of the recent past: a handler that reads DL/DF before it has refreshed or
	// updated them decides with exactly these values
	prevDL, prevDF *big.Int // stored DL / DF before the previous step
	lastOK         string   // kind of the last successful operation of the history
	hotLeft        int      // boundary sends still to be issued for the current "tracking changed" moment
	hotSig         string   // the moment already used
}

func (s *scen) proxy(ctx sdk.Context) sdk.AccAddress {
	p, err := s.e.h.App.SelfdelegationKeeper.SelfDelegationProxies.Get(ctx, s.addr)
	if err != nil {
		return nil
	}
	return p
}

func (s *scen) accountIndex(addr string) int {
	for i, a := range s.e.h.Accts {
		if a.Addr.String() == addr {
			return i
		}
	}
	return -1
}

// observe dumps the projection at the context's time.
func (s *scen) observe(ctx sdk.Context) *worldObs {
	e := s.e
	w := &worldObs{SD: s.sd, Now: ctx.HeaderInfo().Time.UnixNano(), Height: ctx.HeaderInfo().Height}
	var owner string
	var origC, dlC, dfC, lockedC sdk.Coins
	var st, en *time.Time
	qctx, _ := ctx.CacheContext()
	// base info never panics; the schedule part can (Quo by zero)
	func() {
		defer func() {
			if r := recover(); r != nil {
				w.Locked = nil
				lockedC = nil
				owner = ""
			}
		}()
		if s.sd {
			r, err := e.h.App.AccountsKeeper.Query(qctx, s.addr, &sdlt.QueryLockupAccountInfoRequest{})
			if err != nil {
				panic(err)
			}
			x := r.(*sdlt.QueryLockupAccountInfoResponse)
			owner, origC, dlC, dfC, st, en, lockedC = x.Owner, x.OriginalLocking, x.DelegatedLocking, x.DelegatedFree, x.StartTime, x.EndTime, x.LockedCoins
		} else {
			r, err := e.h.App.AccountsKeeper.Query(qctx, s.addr, &nvlt.QueryLockupAccountInfoRequest{})
			if err != nil {
				panic(err)
			}
			x := r.(*nvlt.QueryLockupAccountInfoResponse)
			owner, origC, dlC, dfC, st, en, lockedC = x.Owner, x.OriginalLocking, x.DelegatedLocking, x.DelegatedFree, x.StartTime, x.EndTime, x.LockedCoins
		}
	}()
	if owner == "" {
		// the info query panicked inside the schedule: read the stored fields directly
		owner = e.h.Accts[s.owner].Addr.String()
		w.Locked = nil
		dl, df, orig := s.rawLockup(ctx)
		w.DL, w.DF = dl, df
		w.Orig = orig
		w.Start, w.End, w.StartT, w.EndT = nsBig(s.start), nsBig(s.end), s.start, s.end
	} else {
		w.DL, w.DF = dlC.AmountOf("urise").BigInt(), dfC.AmountOf("urise").BigInt()
		for _, c := range origC {
			w.Orig = append(w.Orig, [2]*big.Int{big.NewInt(int64(denomID(c.Denom))), c.Amount.BigInt()})
		}
		w.Start, w.End, w.StartT, w.EndT = nsBig(*st), nsBig(*en), st.UTC(), en.UTC()
		w.Locked = [][2]*big.Int{}
		for _, p := range w.Orig {
			w.Locked = append(w.Locked, [2]*big.Int{p[0], lockedC.AmountOf(denoms[p[0].Int64()-1]).BigInt()})
		}
	}
	w.Owner = s.accountIndex(owner)
	w.Ent = s.entries(ctx)
	w.AB = e.bal(ctx, s.addr)
	w.PB = zero4()
	w.StkDel = big.NewInt(0)
	if p := s.proxy(ctx); p != nil {
		w.HasProxy = true
		w.PB = e.bal(ctx, p)
		b, err := e.h.App.StakingKeeper.GetDelegatorBonded(ctx, p)
		if err != nil {
			panic(err)
		}
		w.StkDel = b.BigInt()
		// the proxy only ever delegates to its root owner's validator
		u, err := e.h.App.StakingKeeper.GetUnbondingDelegation(ctx, p, sdk.ValAddress(e.h.Accts[s.owner].Addr))
		if err == nil {
			for _, en := range u.Entries {
				w.StkUnb = append(w.StkUnb, unb{T: en.CompletionTime.UnixNano(), Amt: en.Balance.BigInt()})
			}
		}
	}
	w.ScDel = new(big.Int).Set(s.scDel)
	us, err := e.h.App.ShareclassKeeper.GetUnbondingsByAddress(ctx, s.addr)
	if err != nil {
		panic(err)
	}
	for _, u := range us {
		w.ScUnb = append(w.ScUnb, unb{T: u.CompletionTime.UnixNano(), Amt: u.Amount.Amount.BigInt()})
	}
	w.Out, w.Rew, w.Dep = s.out, s.rew, s.dep
	return w
}

// raw account state: key = field prefix byte + collection key
func (s *scen) rawState(ctx sdk.Context, field byte, f func(key, val []byte)) {
	it, err := s.e.h.App.AccountsKeeper.AccountsState.Iterate(ctx, collections.NewPrefixedPairRange[uint64, []byte](s.accNum))
	if err != nil {
		panic(err)
	}
	defer it.Close()
	for ; it.Valid(); it.Next() {
		kv, err := it.KeyValue()
		if err != nil {
			panic(err)
		}
		k := kv.Key.K2()
		if len(k) > 0 && k[0] == field {
			f(k[1:], kv.Value)
		}
	}
}

func (s *scen) rawLockup(ctx sdk.Context) (dl, df *big.Int, orig [][2]*big.Int) {
	dl, df = big.NewInt(0), big.NewInt(0)
	readInt := func(v []byte) *big.Int {
		var i sdkmath.Int
		if err := i.Unmarshal(v); err != nil {
			panic(err)
		}
		return i.BigInt()
	}
	s.rawState(ctx, 2, func(k, v []byte) {
		if string(k) == "urise" {
			dl = readInt(v)
		}
	})
	s.rawState(ctx, 1, func(k, v []byte) {
		if string(k) == "urise" {
			df = readInt(v)
		}
	})
	s.rawState(ctx, 0, func(k, v []byte) {
		orig = append(orig, [2]*big.Int{big.NewInt(int64(denomID(string(k)))), readInt(v)})
	})
	sort.Slice(orig, func(i, j int) bool { return orig[i][0].Cmp(orig[j][0]) < 0 })
	return
}

func (s *scen) entries(ctx sdk.Context) (out []struct {
	Val int
	L   []entryObs
}) {
	cdc := s.e.h.App.AppCodec()
	s.rawState(ctx, 7, func(k, v []byte) {
		var l []entryObs
		if s.sd {
			var es sdlt.UnbondingEntries
			if err := cdc.Unmarshal(v, &es); err != nil {
				panic(err)
			}
			for _, x := range es.Entries {
				l = append(l, entryObs{End: x.EndTime.UnixNano(), Amt: x.Amount.Amount.BigInt(), IsFee: x.Amount.Denom == "urise", Height: x.CreationHeight})
			}
		} else {
			var es nvlt.UnbondingEntries
			if err := cdc.Unmarshal(v, &es); err != nil {
				panic(err)
			}
			for _, x := range es.Entries {
				l = append(l, entryObs{End: x.EndTime.UnixNano(), Amt: x.Amount.Amount.BigInt(), IsFee: x.Amount.Denom == "urise", Height: x.CreationHeight})
			}
		}
		out = append(out, struct {
			Val int
			L   []entryObs
		}{Val: s.e.valID(string(k)), L: l})
	})
	return
}

// ---------------------------------------------------------------- operations

type coin struct {
	D int
	A *big.Int
}

func coinsCoq(cs []coin) string {
	xs := make([]string, len(cs))
	for i, c := range cs {
		xs[i] = emit.Tuple(emit.ZI(int64(c.D)), emit.Z(c.A))
	}
	return emit.List(xs)
}
func rawCoins(cs []coin) sdk.Coins {
	out := sdk.Coins{}
	for _, c := range cs {
		out = append(out, sdk.Coin{Denom: denoms[c.D-1], Amount: sdkmath.NewIntFromBigInt(c.A)})
	}
	return out
}
func coinsStr(cs []coin) string {
	xs := make([]string, len(cs))
	for i, c := range cs {
		xs[i] = c.A.String() + denoms[c.D-1]
	}
	return strings.Join(xs, ",")
}

type opDesc struct {
	Kind    string
	ES, MS  int    // executing account, msg.Sender field (account indices)
	To      string // TAcct | TProxy | TOut | TBlocked
	Coins   []coin
	Val     int
	D       int
	Amt     *big.Int
	ToProxy bool
	T       int64
	H       int64
}

func errClass(err error) int {
	if err == nil {
		return 0
	}
	if strings.HasPrefix(err.Error(), "panic:") {
		return 2
	}
	return 1
}

// moduleFailure: did the failure come from the module message the handler sent (the oracle),
// as opposed to the handler's own checks
func moduleFailure(kind string, err error) bool {
	if err == nil {
		return false
	}
	m := err.Error()
	if strings.HasPrefix(m, "panic:") {
		return false
	}
	switch kind {
	case "Delegate", "Undelegate", "WithdrawReward", "SelfDelegate":
		return strings.Contains(m, "error executing message") || strings.Contains(m, "failed to execute message")
	case "PUndelegate", "PWithdrawReward":
		return !strings.Contains(m, "unauthorized")
	}
	return false
}

func (s *scen) target(ctx sdk.Context, to string) sdk.AccAddress {
	switch to {
	case "TAcct":
		return s.addr
	case "TProxy":
		return s.proxy(ctx)
	case "TBlocked":
		return s.e.distr
	}
	return s.e.h.Accts[s.e.outs[0]].Addr
}

func rz(x *big.Int) string { return emit.Z(x) }

// doExec runs one account / deposit operation and emits the case.
func (s *scen) doExec(o opDesc, tag string) {
	e := s.e
	h := e.h
	ctx := e.ctx()
	pre := s.observe(ctx)
	preOut, preRew, preSc := e.outsideTotal(ctx), e.rewardSources(ctx), e.scBonded(ctx)
	addrOf := func(i int) string {
		if i < 0 || i >= len(h.Accts) {
			return "not-an-address"
		}
		return h.Accts[i].Addr.String()
	}
	es := h.Accts[0].Addr
	if o.ES >= 0 && o.ES < len(h.Accts) {
		es = h.Accts[o.ES].Addr
	}
	ms := addrOf(o.MS)
	var completion int64
	var respAmt *big.Int
	var err error
	run := func(target sdk.AccAddress, msg sdk.Msg, after func(resp any)) {
		err = apph.Tx(ctx, func(c sdk.Context) error {
			r, e2 := h.App.AccountsKeeper.Execute(c, target, es, msg, nil)
			if e2 == nil && after != nil {
				after(r)
			}
			return e2
		})
	}
	proxy := s.proxy(ctx)
	switch o.Kind {
	case "Send":
		to := s.target(ctx, o.To)
		if s.sd {
			run(s.addr, &sdlt.MsgSend{Sender: ms, ToAddress: to.String(), Amount: rawCoins(o.Coins)}, nil)
		} else {
			run(s.addr, &nvlt.MsgSend{Sender: ms, ToAddress: to.String(), Amount: rawCoins(o.Coins)}, nil)
		}
	case "Delegate":
		c := sdk.Coin{Denom: denoms[o.D-1], Amount: sdkmath.NewIntFromBigInt(o.Amt)}
		if s.sd { // no such handler on this variant: send the other variant's message
			run(s.addr, &nvlt.MsgDelegate{Sender: ms, ValidatorAddress: e.vals[o.Val-1], Amount: c}, nil)
		} else {
			run(s.addr, &nvlt.MsgDelegate{Sender: ms, ValidatorAddress: e.vals[o.Val-1], Amount: c}, nil)
		}
	case "Undelegate":
		c := sdk.Coin{Denom: denoms[o.D-1], Amount: sdkmath.NewIntFromBigInt(o.Amt)}
		run(s.addr, &nvlt.MsgUndelegate{Sender: ms, ValidatorAddress: e.vals[o.Val-1], Amount: c}, func(resp any) {
			r := resp.(*nvlt.MsgExecuteMessagesResponse)
			var ur sctypes.MsgNonVotingUndelegateResponse
			if err := h.App.AppCodec().Unmarshal(r.Responses[0].Value, &ur); err != nil {
				panic(err)
			}
			completion = ur.CompletionTime.UnixNano()
			respAmt = ur.Amount.Amount.BigInt()
		})
	case "WithdrawReward":
		run(s.addr, &nvlt.MsgWithdrawReward{Sender: ms, ValidatorAddress: e.vals[o.Val-1]}, nil)
	case "SelfDelegate":
		run(s.addr, &sdlt.MsgSelfDelegate{Sender: ms, Amount: sdkmath.NewIntFromBigInt(o.Amt)}, nil)
	case "WithdrawUnbonded":
		run(s.addr, &sdlt.MsgWithdrawSelfDelegationUnbonded{Sender: ms, Amount: sdkmath.NewIntFromBigInt(o.Amt)}, nil)
	case "PUndelegate":
		run(proxy, &proxyt.MsgUndelegate{Sender: ms, Amount: sdkmath.NewIntFromBigInt(o.Amt)}, nil)
		if err == nil {
			ut, e2 := h.App.StakingKeeper.UnbondingTime(ctx)
			if e2 != nil {
				panic(e2)
			}
			completion = ctx.HeaderInfo().Time.Add(ut).UnixNano()
		}
	case "PWithdrawReward":
		run(proxy, &proxyt.MsgWithdrawReward{Sender: ms, ValidatorAddress: e.vals[o.Val-1]}, nil)
	case "PSend":
		to := s.target(ctx, o.To)
		run(proxy, &proxyt.MsgSend{Sender: ms, ToAddress: to.String(), Amount: rawCoins(o.Coins)}, nil)
	case "Deposit":
		to := s.addr
		if o.ToProxy {
			to = proxy
		}
		bs := bankkeeper.NewMsgServerImpl(h.App.BankKeeper)
		err = apph.Tx(ctx, func(c sdk.Context) error {
			_, e2 := bs.Send(c, &banktypes.MsgSend{FromAddress: h.Accts[e.funder].Addr.String(), ToAddress: to.String(), Amount: rawCoins(o.Coins)})
			return e2
		})
	default:
		panic("unknown op " + o.Kind)
	}
	code := errClass(err)
	// observed ghost updates, from balances the model does not predict
	postOut, postRew, postSc := e.outsideTotal(ctx), e.rewardSources(ctx), e.scBonded(ctx)
	dOut := postOut.sub(preOut)
	dRew := preRew.sub(postRew)
	if o.Kind == "Deposit" {
		s.dep = s.dep.add(dOut.neg())
	} else {
		s.out = s.out.add(dOut)
		s.rew = s.rew.add(dRew)
	}
	s.scDel = new(big.Int).Add(s.scDel, new(big.Int).Sub(postSc, preSc))
	if s.scDel.Sign() < 0 {
		// the share-class module let the account undelegate more than it had put in (shares are
		// rounded down, C10): the surplus is other delegators' money, a third-party inflow
		over := zero4()
		over[dFEE-1] = new(big.Int).Neg(s.scDel)
		s.dep = s.dep.add(over)
		s.scDel = big.NewInt(0)
	}
	post := s.observe(ctx)

	// oracle terms
	rf, rb := dRew[dFEE-1], dRew[dBOND-1]
	modFail := moduleFailure(o.Kind, err)
	okOr := func(v string) string {
		if modFail {
			return "(Err 1)"
		}
		return "(Ok " + v + ")"
	}
	toC := o.To
	var term string
	switch o.Kind {
	case "Send":
		term = fmt.Sprintf("(OSend %s %s %s %s)", emit.ZI(int64(o.ES)), emit.ZI(int64(o.MS)), toC, coinsCoq(o.Coins))
	case "Delegate":
		term = fmt.Sprintf("(ODelegate %s %s %d %d %s %s)", emit.ZI(int64(o.ES)), emit.ZI(int64(o.MS)), o.Val, o.D, rz(o.Amt), okOr(emit.Tuple(rz(rf), rz(rb))))
	case "Undelegate":
		if respAmt == nil {
			respAmt = big.NewInt(0)
		}
		term = fmt.Sprintf("(OUndelegate %s %s %d %d %s %s)", emit.ZI(int64(o.ES)), emit.ZI(int64(o.MS)), o.Val, o.D, rz(o.Amt),
			okOr(emit.Tuple(emit.ZI(completion), rz(respAmt), rz(rf), rz(rb))))
	case "WithdrawReward":
		term = fmt.Sprintf("(OWithdrawReward %s %s %d %s)", emit.ZI(int64(o.ES)), emit.ZI(int64(o.MS)), o.Val, okOr(emit.Tuple(rz(rf), rz(rb))))
	case "SelfDelegate":
		term = fmt.Sprintf("(OSelfDelegate %s %s %s %s)", emit.ZI(int64(o.ES)), emit.ZI(int64(o.MS)), rz(o.Amt), okOr(emit.Tuple(rz(rf), rz(rb))))
	case "WithdrawUnbonded":
		term = fmt.Sprintf("(OWithdrawUnbonded %s %s %s)", emit.ZI(int64(o.ES)), emit.ZI(int64(o.MS)), rz(o.Amt))
	case "PUndelegate":
		term = fmt.Sprintf("(OPUndelegate %s %s %s %s)", emit.ZI(int64(o.ES)), emit.ZI(int64(o.MS)), rz(o.Amt), okOr(emit.Tuple(emit.ZI(completion), rz(rf), rz(rb))))
	case "PWithdrawReward":
		term = fmt.Sprintf("(OPWithdrawReward %s %s %d %s)", emit.ZI(int64(o.ES)), emit.ZI(int64(o.MS)), o.Val, okOr(emit.Tuple(rz(rf), rz(rb))))
	case "PSend":
		term = fmt.Sprintf("(OPSend %s %s %s %s)", emit.ZI(int64(o.ES)), emit.ZI(int64(o.MS)), toC, coinsCoq(o.Coins))
	case "Deposit":
		term = fmt.Sprintf("(ODeposit %s %s)", emit.Bool(o.ToProxy), coinsCoq(o.Coins))
	}
	s.emit(pre, term, code, post, o, err, tag)
}

func (s *scen) emit(pre *worldObs, opTerm string, code int, post *worldObs, o opDesc, err error, tag string) {
	e := s.e
	term := fmt.Sprintf("{| k_conf := {| fixed_sender := true; bond_sendable := %s |};\n     k_pre := %s;\n     k_op := %s; k_code := %d;\n     k_post := %s;\n     k_lk_pre := %s; k_lk_post := %s |}",
		emit.Bool(e.bondSendable), pre.coq(), opTerm, code, post.coq(), pre.lockedCoq(), post.lockedCoq())
	e.cf.Add("CStep " + term)
	info := map[string]any{"tag": tag, "op": o.Kind, "variant_self_delegatable": s.sd, "lockup": s.addr.String(),
		"exec_sender": o.ES, "msg_sender": o.MS, "owner": pre.Owner, "code": code,
		"now_ns": pre.Now, "start": pre.StartT.Format(time.RFC3339Nano), "end": pre.EndT.Format(time.RFC3339Nano),
		"pre": map[string]any{"DL": pre.DL.String(), "DF": pre.DF.String(), "acct": pre.AB.strs(), "proxy": pre.PB.strs(), "stk_del": pre.StkDel.String(), "sc_del": pre.ScDel.String()},
		"post": map[string]any{"DL": post.DL.String(), "DF": post.DF.String(), "acct": post.AB.strs(), "proxy": post.PB.strs(), "stk_del": post.StkDel.String(), "sc_del": post.ScDel.String(),
			"out": post.Out.strs(), "rew": post.Rew.strs(), "dep": post.Dep.strs(), "now_ns": post.Now}}
	if o.Coins != nil {
		info["coins"] = coinsStr(o.Coins)
		info["to"] = o.To
	}
	if o.Amt != nil {
		info["amount"] = o.Amt.String()
	}
	if o.Kind == "Block" {
		info["block_time_ns"] = o.T
	}
	if err != nil {
		info["err"] = err.Error()
	}
	if post.Locked != nil && len(post.Locked) > 0 {
		info["locked"] = post.Locked[0][1].String()
	}
	e.st.Info(info)
	e.st.Evaluations++
	e.ncases++
	res := []string{"ok", "err", "panic"}[code]
	e.st.Count(o.Kind + ":" + res)
	s.prevDL, s.prevDF = pre.DL, pre.DF
	if code == 0 && o.Kind != "Block" {
		s.lastOK = o.Kind
	}
	if o.Kind == "Send" && o.ES == pre.Owner && o.MS == pre.Owner && code != 2 && s.maturedUnswept(pre) {
		e.st.Count("Send:first-after-maturity:" + res)
	}
	// non-trivial: owner action while 0 < locked(now) < original and DL > 0
	if o.Kind != "Block" && o.Kind != "Deposit" && pre.Locked != nil {
		for _, p := range pre.Locked {
			if p[0].Int64() == dFEE {
				switch {
				case p[1].Sign() == 0:
					e.st.Count("state:unlocked")
				case p[1].Cmp(s.origFee) == 0:
					e.st.Count("state:fully-locked")
				case pre.DL.Sign() > 0:
					e.st.Count("state:partly-locked,DL>0")
				default:
					e.st.Count("state:partly-locked,DL=0")
				}
			}
		}
	}
	if o.Kind != "Block" && o.Kind != "Deposit" && o.ES == pre.Owner && o.MS == pre.Owner && pre.Locked != nil {
		for _, p := range pre.Locked {
			if p[0].Int64() == dFEE && p[1].Sign() > 0 && p[1].Cmp(s.origFee) < 0 && pre.DL.Sign() > 0 {
				pm := new(big.Int).Div(new(big.Int).Mul(p[1], big.NewInt(10)), s.origFee)
				e.st.Nontriv(fmt.Sprintf("%v/%s/%s/%s/%d", s.sd, o.Kind, res, pm, pre.DL.BitLen()))
				e.st.Count("nontrivial-steps")
			}
		}
	}
	if code == 0 && o.Kind != "Block" {
		e.st.Sample(info)
	}
}

// doBlock advances the chain by one block at time t and emits the case.
func (s *scen) doBlock(t time.Time, tag string) error {
	e := s.e
	h := e.h
	pre := s.observe(e.ctx())
	if t.Before(e.now()) {
		t = e.now()
	}
	dt := t.Sub(h.Time)
	if dt <= 0 {
		dt = time.Millisecond
	}
	if err := e.block(dt); err != nil {
		return fmt.Errorf("block at %s failed: %w", h.Time, err)
	}
	e.ctxTime = time.Time{}
	post := s.observe(h.Ctx())
	term := fmt.Sprintf("(OBlock %s %d)", emit.ZI(h.Time.UnixNano()), h.Height)
	s.emit(pre, term, 0, post, opDesc{Kind: "Block", ES: -2, MS: -2, T: h.Time.UnixNano()}, nil, tag)
	return nil
}

// block runs FinalizeBlock+Commit like apph.Block, but with the bonded validators' votes in the
// last commit, so that the distribution module allocates the block's fees / minted coins to
// validators and their delegators (with no votes everything goes to the community pool and no
// delegator ever earns a reward).
func (e *env) block(dt time.Duration) (err error) {
	h := e.h
	ctx := h.Ctx()
	var votes []abci.VoteInfo
	vs, err := h.App.StakingKeeper.GetBondedValidatorsByPower(ctx)
	if err != nil {
		return err
	}
	pr := h.App.StakingKeeper.PowerReduction(ctx)
	for _, v := range vs {
		ca, err := v.GetConsAddr()
		if err != nil {
			return err
		}
		if sdk.ValAddress(h.Vals[0].Address).String() == v.OperatorAddress {
			continue // the genesis validator of the test genesis has no signing info: it does not vote
		}
		votes = append(votes, abci.VoteInfo{Validator: abci.Validator{Address: ca, Power: v.GetConsensusPower(pr)}, BlockIdFlag: cmtproto.BlockIDFlagCommit})
	}
	h.Height++
	h.Time = h.Time.Add(dt)
	defer func() {
		if r := recover(); r != nil {
			err = fmt.Errorf("panic: %v", r)
		}
	}()
	_, err = h.App.FinalizeBlock(&abci.FinalizeBlockRequest{Height: h.Height, Time: h.Time, DecidedLastCommit: abci.CommitInfo{Votes: votes}})
	if err != nil {
		return err
	}
	_, err = h.App.Commit()
	return err
}

// safeTime moves a candidate block time out of the windows [floor(T), T) of pending
// share-class unbondings with a fractional completion time T: a block there makes the
// share-class EndBlocker fail (it pays by second-truncated completion time while staking
// has not released the stake yet) -- that is finding C01#6, not a subject of this check.
func (e *env) safeTime(t time.Time) time.Time {
	us, err := e.h.App.ShareclassKeeper.GetAllUnbondings(e.h.Ctx())
	if err != nil {
		panic(err)
	}
	for i := 0; i < 3; i++ {
		moved := false
		for _, u := range us {
			c := u.CompletionTime
			if c.Nanosecond() != 0 && !t.Before(c.Truncate(time.Second)) && t.Before(c) {
				t = c
				moved = true
			}
		}
		if !moved {
			break
		}
	}
	return t
}

// ---------------------------------------------------------------- scenarios

func (e *env) newScenario(sd bool, owner int, start, end time.Time, startZero bool, funds []coin) (*scen, error) {
	h := e.h
	ctx := e.ctx()
	s := &scen{e: e, sd: sd, owner: owner, scDel: big.NewInt(0), out: zero4(), rew: zero4(), dep: zero4(), prevDL: big.NewInt(0), prevDF: big.NewInt(0)}
	st := start
	if startZero {
		st = time.Time{}
	}
	var addr []byte
	err := apph.Tx(ctx, func(c sdk.Context) error {
		var e2 error
		if sd {
			_, addr, e2 = h.App.AccountsKeeper.Init(c, sdl.CONTINUOUS_LOCKING_ACCOUNT, h.Accts[e.funder].Addr,
				&sdlt.MsgInitSelfDelegatableLockupAccount{Owner: h.Accts[owner].Addr.String(), StartTime: st, EndTime: end}, rawCoins(funds), nil)
		} else {
			_, addr, e2 = h.App.AccountsKeeper.Init(c, nvl.CONTINUOUS_LOCKING_ACCOUNT, h.Accts[e.funder].Addr,
				&nvlt.MsgInitNonVotingDelegatableLockupAccount{Owner: h.Accts[owner].Addr.String(), StartTime: st, EndTime: end}, rawCoins(funds), nil)
		}
		return e2
	})
	if err != nil {
		return nil, err
	}
	s.addr = addr
	n, err := h.App.AccountsKeeper.AccountByNumber.Get(ctx, addr)
	if err != nil {
		return nil, err
	}
	s.accNum = n
	s.start, s.end = start, end
	if startZero {
		s.start = e.now()
	}
	s.origFee = big.NewInt(0)
	for _, c := range funds {
		if c.D == dFEE {
			s.origFee = new(big.Int).Set(c.A)
		}
	}
	return s, nil
}

func big10(exp int) *big.Int { return new(big.Int).Exp(big.NewInt(10), big.NewInt(int64(exp)), nil) }

func (s *scen) amountNear(r *emit.Rand, ref *big.Int) *big.Int {
	switch r.Intn(9) {
	case 0:
		return new(big.Int).Set(ref)
	case 1:
		return new(big.Int).Add(ref, big.NewInt(1))
	case 2:
		if ref.Sign() > 0 {
			return new(big.Int).Sub(ref, big.NewInt(1))
		}
		return big.NewInt(1)
	case 3:
		return big.NewInt(1)
	case 4:
		return new(big.Int).Div(ref, big.NewInt(2))
	case 5:
		return new(big.Int).Div(ref, big.NewInt(3))
	default:
		return r.Big(new(big.Int).Add(ref, big.NewInt(1)))
	}
}

func (s *scen) spendable(w *worldObs) *big.Int { return s.spendableWith(w, w.DL) }

// maturedUnswept: the account has recorded an unbond entry that is mature and not yet swept
func (s *scen) maturedUnswept(w *worldObs) bool {
	for _, kv := range w.Ent {
		for _, en := range kv.L {
			if en.End <= w.Now {
				return true
			}
		}
	}
	return false
}

func (s *scen) maturedSig(w *worldObs) string {
	sig := ""
	for _, kv := range w.Ent {
		for _, en := range kv.L {
			if en.End <= w.Now {
				sig += fmt.Sprintf("%d:%d,", kv.Val, en.End)
			}
		}
	}
	return sig
}

// refreshed replays checkUnbondingEntriesMature on the observed entries (per validator: the mature
// prefix; DelegatedFree is reduced first, then DelegatedLocking) -- the values a correct handler uses
func (s *scen) refreshed(w *worldObs) (dl, df *big.Int) {
	dl, df = new(big.Int).Set(w.DL), new(big.Int).Set(w.DF)
	minB := func(a, b *big.Int) *big.Int {
		if a.Cmp(b) < 0 {
			return a
		}
		return b
	}
	for _, kv := range w.Ent {
		for _, en := range kv.L {
			if en.End > w.Now {
				break
			}
			x := minB(df, en.Amt)
			y := minB(dl, new(big.Int).Sub(en.Amt, x))
			df = new(big.Int).Sub(df, x)
			dl = new(big.Int).Sub(dl, y)
		}
	}
	return
}

// boundary: the amounts at which a Send flips between allowed and refused, for the refreshed
// tracking values and for every stale or wrong value a handler could read instead (stored before
// the refresh, before the previous operation, DL+DF, none at all, everything)
func (s *scen) boundary(r *emit.Rand, w *worldObs) *big.Int {
	rdl, _ := s.refreshed(w)
	cands := []*big.Int{
		s.spendableWith(w, rdl), s.spendableWith(w, rdl),
		s.spendableWith(w, w.DL), s.spendableWith(w, w.DL),
		s.spendableWith(w, s.prevDL),
		s.spendableWith(w, new(big.Int).Add(w.DL, w.DF)),
		s.spendableWith(w, big.NewInt(0)),
		w.AB[dFEE-1],
	}
	x := new(big.Int).Set(cands[r.Intn(len(cands))])
	switch r.Intn(4) {
	case 0:
		x.Add(x, big.NewInt(1))
	case 1:
		if x.Sign() > 1 {
			x.Sub(x, big.NewInt(1))
		}
	}
	if x.Sign() <= 0 {
		x = big.NewInt(1)
	}
	return x
}

func (s *scen) spendableWith(w *worldObs, dlv *big.Int) *big.Int {
	if w.Locked == nil {
		return w.AB[dFEE-1]
	}
	L := big.NewInt(0)
	for _, p := range w.Locked {
		if p[0].Int64() == dFEE {
			L = p[1]
		}
	}
	m := L
	if dlv.Cmp(L) < 0 {
		m = dlv
	}
	nb := new(big.Int).Sub(L, m)
	sp := new(big.Int).Sub(w.AB[dFEE-1], nb)
	if sp.Sign() < 0 {
		return big.NewInt(0)
	}
	return sp
}

// sender pair: mostly the owner, sometimes a stranger, sometimes a stranger spoofing the owner
func (s *scen) senders(r *emit.Rand) (es, ms int) {
	e := s.e
	switch r.Intn(32) {
	case 0:
		x := e.outs[r.Intn(len(e.outs))]
		return x, x
	case 1:
		return e.outs[r.Intn(len(e.outs))], s.owner // forged msg.Sender
	case 2:
		return s.owner, e.outs[r.Intn(len(e.outs))]
	case 3:
		return e.funder, e.funder
	}
	return s.owner, s.owner
}

// lockedOf: the observed locked amount of a denom (0 when the denom was never locked)
func lockedOf(w *worldObs, d int) *big.Int {
	for _, p := range w.Locked {
		if p[0].Int64() == int64(d) {
			return p[1]
		}
	}
	return big.NewInt(0)
}

// multiSend: one message carrying two or three denoms (ascending, as sdk.Coins requires): each locked
// denom at a boundary amount (spendable, spendable+1, whole balance), every other denom the account
// holds -- deposits of never-locked denoms sorting before (uatom) or after (uusdc) it -- in full
func (s *scen) multiSend(r *emit.Rand, w *worldObs) []coin {
	var cs []coin
	mode := r.Intn(4) // 0: all at spendable, 1: spendable+1 on the locked ones, 2: whole balances, 3: mixed
	for _, d := range []int{dATOM, dFEE, dUSDC} {
		bal := w.AB[d-1]
		if bal.Sign() <= 0 {
			continue
		}
		amt := new(big.Int).Set(bal)
		if L := lockedOf(w, d); L.Sign() > 0 {
			sp := new(big.Int).Sub(bal, L)
			if d == dFEE {
				rdl, _ := s.refreshed(w)
				sp = s.spendableWith(w, rdl)
			}
			if sp.Sign() < 0 {
				sp = big.NewInt(0)
			}
			m := mode
			if m == 3 {
				m = r.Intn(3)
			}
			switch m {
			case 0:
				amt = sp
			case 1:
				amt = new(big.Int).Add(sp, big.NewInt(1))
			}
		}
		if amt.Sign() <= 0 {
			amt = big.NewInt(1)
		}
		cs = append(cs, coin{d, amt})
	}
	if len(cs) == 3 && r.Chance(1, 3) { // two of the three
		i := r.Intn(3)
		cs = append(cs[:i:i], cs[i+1:]...)
	}
	return cs
}

func held(w *worldObs) int {
	n := 0
	for _, d := range []int{dATOM, dFEE, dUSDC} {
		if w.AB[d-1].Sign() > 0 {
			n++
		}
	}
	return n
}

func (s *scen) sendCoins(r *emit.Rand, w *worldObs, fromProxy bool) []coin {
	src := w.AB
	feeRef := s.spendable(w)
	if fromProxy {
		src = w.PB
		feeRef = src[dFEE-1]
	}
	if !fromProxy && w.Locked != nil && held(w) >= 2 && r.Chance(1, 3) {
		return s.multiSend(r, w)
	}
	switch r.Intn(40) {
	case 0: // empty
		return []coin{}
	case 1: // unsorted / duplicate
		return []coin{{dUSDC, big.NewInt(1)}, {dFEE, big.NewInt(1)}}
	case 2:
		return []coin{{dFEE, big.NewInt(1)}, {dFEE, big.NewInt(1)}}
	case 3: // zero / negative amount
		return []coin{{dFEE, big.NewInt(int64(-r.Intn(2)))}}
	case 4: // bond denom
		return []coin{{dBOND, s.amountNear(r, src[dBOND-1])}}
	case 5: // a denom the account was not created with
		return []coin{{dATOM, s.amountNear(r, src[dATOM-1])}}
	case 6, 7, 8: // two denoms
		return []coin{{dFEE, s.posAmount(r, feeRef)}, {dUSDC, s.posAmount(r, src[dUSDC-1])}}
	case 9, 10:
		return []coin{{dUSDC, s.posAmount(r, src[dUSDC-1])}}
	}
	if !fromProxy && r.Chance(1, 2) {
		return []coin{{dFEE, s.boundary(r, w)}}
	}
	return []coin{{dFEE, s.posAmount(r, feeRef)}}
}

func (s *scen) posAmount(r *emit.Rand, ref *big.Int) *big.Int {
	x := s.amountNear(r, ref)
	if x.Sign() == 0 {
		return big.NewInt(1)
	}
	return x
}

func (s *scen) pickTo(r *emit.Rand, w *worldObs) string {
	switch r.Intn(10) {
	case 0:
		return "TAcct"
	case 1:
		if w.HasProxy {
			return "TProxy"
		}
	case 2:
		return "TBlocked"
	}
	return "TOut"
}

// one random step of a history: a weighted choice among the operations that make sense in
// the current state (plus a thin stream of ones that do not)
func (s *scen) randomStep(r *emit.Rand) error {
	e := s.e
	h := e.h
	// sometimes open the next block: the following operations run at its time, before its
	// EndBlockers (staking / share-class settlement) have run
	if !e.ctxTime.After(h.Time) && r.Chance(1, 8) {
		e.ctxTime = e.safeTime(s.pickTime(r, s.observe(e.ctx())))
	}
	w := s.observe(e.ctx())
	// the tracking values are about to change or have just changed (an unbond entry matured and is
	// not swept yet; unbonded stake was just withdrawn from the proxy): let the owner's next
	// operations be Sends at the boundary amounts, before anything else refreshes the account
	sig := s.maturedSig(w)
	if s.lastOK == "WithdrawUnbonded" {
		sig += "/withdrawn"
	}
	hot := w.Locked != nil && sig != "" && sig != s.hotSig
	if hot && s.hotLeft == 0 {
		s.hotSig = sig // each such moment is used once
		if r.Chance(3, 4) {
			s.hotLeft = 1 + r.Intn(3)
		}
	}
	if s.hotLeft > 0 {
		s.hotLeft--
		s.doExec(opDesc{Kind: "Send", ES: s.owner, MS: s.owner, To: "TOut", Coins: []coin{{dFEE, s.boundary(r, w)}}}, "gen:boundary")
		return nil
	}
	es, ms := s.senders(r)
	type cand struct {
		w int
		f func() error
	}
	ex := func(o opDesc) func() error { return func() error { s.doExec(o, "gen"); return nil } }
	pos := func(x *big.Int, yes, no int) int {
		if x.Sign() > 0 {
			return yes
		}
		return no
	}
	ownVal := e.valID(sdk.ValAddress(h.Accts[s.owner].Addr).String())
	cs := []cand{
		{24, func() error { return s.doBlock(e.safeTime(s.pickTime(r, w)), "gen") }},
		{18, ex(opDesc{Kind: "Send", ES: es, MS: ms, To: s.pickTo(r, w), Coins: s.sendCoins(r, w, false)})},
		{6, func() error {
			c := []coin{{dFEE, s.amountNear(r, big10(3+r.Intn(9)))}}
			if r.Chance(1, 3) { // other denoms, sorting before (uatom) and after (uusdc) urise
				c = []coin{{[]int{dATOM, dUSDC}[r.Intn(2)], big.NewInt(int64(1 + r.Intn(1000)))}}
				if r.Chance(1, 4) {
					c = []coin{{dATOM, big.NewInt(int64(1 + r.Intn(1000)))}, {dUSDC, big.NewInt(int64(1 + r.Intn(1000)))}}
				}
			}
			if r.Chance(1, 12) {
				c = []coin{{dBOND, big.NewInt(5)}}
			}
			e.pickFunder()
			for i := range c { // the depositor can afford it
				if b := h.Bal(e.ctx(), h.Accts[e.funder].Addr, denoms[c[i].D-1]).BigInt(); b.Cmp(c[i].A) < 0 {
					c[i].A = new(big.Int).Div(b, big.NewInt(2))
				}
			}
			s.doExec(opDesc{Kind: "Deposit", ES: -2, MS: -2, ToProxy: w.HasProxy && r.Chance(1, 3), Coins: c}, "gen")
			return nil
		}},
	}
	if s.sd {
		cs = append(cs,
			cand{pos(w.AB[dFEE-1], 13, 2) + s.wantDL(w), ex(opDesc{Kind: "SelfDelegate", ES: es, MS: ms, Amt: s.delegAmount(r, w)})},
			cand{pos(w.PB[dBOND-1], 13, 2), func() error {
				ref := w.PB[dBOND-1]
				if r.Chance(1, 4) {
					ref = new(big.Int).Add(w.DL, w.DF)
				}
				s.doExec(opDesc{Kind: "WithdrawUnbonded", ES: es, MS: ms, Amt: s.signed(r, s.amountNear(r, ref))}, "gen")
				return nil
			}},
			cand{1, ex(opDesc{Kind: "Delegate", ES: es, MS: ms, Val: 1, D: dFEE, Amt: big.NewInt(10)})}, // no such handler
		)
		if w.HasProxy {
			cs = append(cs,
				cand{pos(w.StkDel, 11, 1), ex(opDesc{Kind: "PUndelegate", ES: es, MS: ms, Amt: s.signed(r, s.amountNear(r, w.StkDel))})},
				cand{4, ex(opDesc{Kind: "PWithdrawReward", ES: es, MS: ms, Val: ownVal})},
				cand{8, ex(opDesc{Kind: "PSend", ES: es, MS: ms, To: s.pickTo(r, w), Coins: s.sendCoins(r, w, true)})},
			)
		}
	} else {
		val := 1 + r.Intn(len(e.vals))
		d := dFEE
		if r.Chance(1, 12) {
			d = 1 + r.Intn(4)
		}
		ud := dFEE
		if r.Chance(1, 14) {
			ud = dBOND
		}
		cs = append(cs,
			cand{pos(w.AB[dFEE-1], 15, 2) + s.wantDL(w), ex(opDesc{Kind: "Delegate", ES: es, MS: ms, Val: val, D: d, Amt: s.delegAmount(r, w)})},
			cand{pos(s.scDel, 14, 2), ex(opDesc{Kind: "Undelegate", ES: es, MS: ms, Val: s.sharesVal(r, val), D: ud, Amt: s.signed(r, s.undelAmount(r))})},
			cand{3, ex(opDesc{Kind: "WithdrawReward", ES: es, MS: ms, Val: val})},
			cand{1, ex(opDesc{Kind: "SelfDelegate", ES: es, MS: ms, Amt: big.NewInt(10)})}, // no such handler
		)
	}
	tot := 0
	for _, c := range cs {
		tot += c.w
	}
	k := r.Intn(tot)
	for _, c := range cs {
		if k < c.w {
			return c.f()
		}
		k -= c.w
	}
	return nil
}

// wantDL: extra weight for delegating while funds are locked, there is a balance, and DL is still 0
func (s *scen) wantDL(w *worldObs) int {
	if w.Locked == nil || w.DL.Sign() > 0 || w.AB[dFEE-1].Sign() == 0 {
		return 0
	}
	for _, p := range w.Locked {
		if p[0].Int64() == dFEE && p[1].Sign() > 0 {
			return 40
		}
	}
	return 0
}

func (s *scen) undelAmount(r *emit.Rand) *big.Int {
	x := s.amountNear(r, s.scDel)
	if x.Sign() == 0 && r.Chance(5, 6) {
		x = big.NewInt(1)
	}
	return x
}

func (s *scen) signed(r *emit.Rand, x *big.Int) *big.Int {
	if r.Chance(1, 25) {
		return new(big.Int).Neg(new(big.Int).Add(x, big.NewInt(1)))
	}
	return x
}

func (s *scen) delegAmount(r *emit.Rand, w *worldObs) *big.Int {
	bal := w.AB[dFEE-1]
	switch r.Intn(10) {
	case 0:
		return big.NewInt(0)
	case 1:
		return new(big.Int).Add(bal, big.NewInt(1))
	case 2:
		return new(big.Int).Set(bal)
	case 3:
		return big.NewInt(-3)
	}
	x := s.amountNear(r, bal)
	if x.Sign() == 0 {
		x = big.NewInt(1)
	}
	return x
}

// sharesVal prefers a validator on which the account holds share tokens
func (s *scen) sharesVal(r *emit.Rand, fallback int) int {
	ctx := s.e.ctx()
	var have []int
	for i, v := range s.e.vals {
		if s.e.h.Bal(ctx, s.addr, sctypes.NonVotingShareTokenDenom(v)).IsPositive() {
			have = append(have, i+1)
		}
	}
	if len(have) == 0 || r.Chance(1, 10) {
		return fallback
	}
	return have[r.Intn(len(have))]
}

// pickTime: the next block time -- small steps, the schedule's start and end and every
// unbonding completion +- sub-second, and points inside the schedule.
func (s *scen) pickTime(r *emit.Rand, w *worldObs) time.Time {
	now := s.e.now()
	var marks []time.Time
	add := func(ns int64) {
		t := time.Unix(0, ns).UTC()
		if t.After(now) {
			marks = append(marks, t)
		}
	}
	// the chain never moves further than the horizon in one block (and is restarted long before
	// block time leaves the int64 nanosecond range); far-future ends are approached, never crossed
	const horizon = 40 * 365 * 24 * time.Hour
	addT := func(t time.Time) {
		if t.After(now) && t.Before(now.Add(horizon)) {
			marks = append(marks, t)
		}
	}
	addT(w.StartT)
	addT(w.EndT)
	for _, u := range w.StkUnb {
		add(u.T)
	}
	for _, u := range w.ScUnb {
		add(u.T)
	}
	for _, kv := range w.Ent {
		for _, en := range kv.L {
			add(en.End)
		}
	}
	sort.Slice(marks, func(i, j int) bool { return marks[i].Before(marks[j]) })
	jitter := []time.Duration{0, time.Nanosecond, -time.Nanosecond, 400 * time.Millisecond, -400 * time.Millisecond, time.Second, -time.Second, 1500 * time.Millisecond}
	near := func(m time.Time) time.Time {
		t := m.Add(jitter[r.Intn(len(jitter))])
		if t.After(now) {
			return t
		}
		return m
	}
	st, en := w.StartT, w.EndT
	var unbMarks []time.Time // completions of unbondings / recorded entries
	for _, m := range marks {
		if !m.Equal(st) && !m.Equal(en) {
			unbMarks = append(unbMarks, m)
		}
	}
	c := r.Intn(100)
	switch {
	case c < 35 && en.After(now):
		// a point inside the remaining schedule
		from := now
		if st.After(now) {
			from = st
		}
		span := en.Sub(from) // saturates at ~292 years
		if span > horizon {
			span = horizon
		}
		if span > 0 && from.Before(now.Add(horizon)) {
			f := time.Duration(r.Int63n(int64(span)/10 + 1))
			return from.Add(f + time.Duration(r.Int63n(1_000_000_000)))
		}
	case c < 60 && len(unbMarks) > 0:
		if r.Chance(2, 3) {
			return near(unbMarks[0])
		}
		return near(unbMarks[r.Intn(len(unbMarks))])
	case c < 70 && st.After(now) && st.Before(now.Add(horizon)):
		return near(st)
	case c < 75 && en.After(now) && en.Before(now.Add(horizon)):
		return near(en)
	}
	return now.Add(time.Duration(1+r.Intn(120))*time.Second + time.Duration(r.Int63n(1_000_000_000)))
}

// schedule regimes: lengths in years (1<<30 = up to the largest end time the account can store,
// 9999-12-31T23:59:59.999999999Z), plus one second and about one block
var regimeYears = []int{1, 100, 292, 293, 500, 1000, 1 << 30}
var maxTime = time.Date(9999, 12, 31, 23, 59, 59, 999999999, time.UTC)

func scheduleRegime(r *emit.Rand, now time.Time, lenIdx, startIdx int) (start, end time.Time) {
	switch startIdx {
	case 0:
		start = now.AddDate(-10, 0, 0)
	case 1:
		start = now.AddDate(-100, 0, -3)
	case 2:
		start = now.Add(-36 * time.Hour)
	case 3:
		start = now // "at genesis": the account starts with the chain
	case 4:
		start = now.Add(90 * time.Second)
	default:
		start = now.AddDate(1, 0, 0)
	}
	start = start.Add(time.Duration(r.Int63n(1_000_000_000)))
	switch {
	case lenIdx == len(regimeYears):
		end = start.Add(time.Second + time.Duration(r.Int63n(900_000_000)))
	case lenIdx == len(regimeYears)+1:
		end = start.Add(time.Duration(2+r.Intn(6)) * time.Second)
	case regimeYears[lenIdx] == 1<<30:
		end = maxTime
		if r.Chance(1, 2) {
			end = end.Add(-time.Duration(r.Int63n(1_000_000_000)))
		}
	default:
		end = start.AddDate(regimeYears[lenIdx], 0, 0).Add(time.Duration(r.Int63n(1_000_000_000)))
	}
	if end.After(maxTime) {
		end = maxTime
	}
	return start, end
}

// ---------------------------------------------------------------- Init cases

func optT(zero bool, t time.Time) string {
	if zero {
		return "None"
	}
	return emit.Some(emit.Z(nsBig(t)))
}

func (e *env) initCase(sd bool, start, end time.Time, startZero, endZero bool, funds []coin, tag string) *scen {
	en := end
	if endZero {
		en = time.Time{}
	}
	e.pickFunder()
	fundsOK := true
	for _, c := range funds {
		if c.D == dBOND && !e.bondSendable {
			fundsOK = false
		}
		if e.h.Bal(e.ctx(), e.h.Accts[e.funder].Addr, denoms[c.D-1]).BigInt().Cmp(c.A) < 0 {
			fundsOK = false
		}
	}
	s, err := e.newScenario(sd, e.owners[e.r.Intn(len(e.owners))], start, en, startZero, funds)
	obs := "None"
	if err == nil {
		w := s.observe(e.ctx())
		s.dep = w.AB.sub(fundsBal(funds)) // anything the address held before its creation
		w = s.observe(e.ctx())
		obs = emit.Some(emit.Tuple(emit.Z(w.Start), emit.Z(w.End), pairList(w.Orig), emit.Z(w.DL), emit.Z(w.DF)))
	}
	e.cf.Add(fmt.Sprintf("CInit %s %s %s %s %s %s", optT(startZero, start), optT(endZero, end), emit.ZI(e.now().UnixNano()), coinsCoq(funds), emit.Bool(fundsOK), obs))
	info := map[string]any{"tag": tag, "op": "Init", "variant_self_delegatable": sd, "start": start.String(), "end": end.String(), "start_zero": startZero, "end_zero": endZero, "funds": coinsStr(funds)}
	if err != nil {
		info["err"] = err.Error()
		e.st.Count("Init:err")
	} else {
		e.st.Count("Init:ok")
	}
	e.st.Info(info)
	e.st.Evaluations++
	e.ncases++
	if err != nil {
		return nil
	}
	return s
}

func fundsBal(cs []coin) bal4 {
	b := zero4()
	for _, c := range cs {
		b[c.D-1] = new(big.Int).Add(b[c.D-1], c.A)
	}
	return b
}

// ---------------------------------------------------------------- Run

func (e *env) createValidator(i int) error {
	h := e.h
	pk := ed25519.GenPrivKeyFromSecret([]byte(fmt.Sprintf("c12-val-%d", i))).PubKey()
	pkAny, err := codectypes.NewAnyWithValue(pk)
	if err != nil {
		return err
	}
	ss := stakingkeeper.NewMsgServerImpl(h.App.StakingKeeper)
	return apph.Tx(h.Ctx(), func(ctx sdk.Context) error {
		_, e2 := ss.CreateValidator(ctx, &stakingtypes.MsgCreateValidator{
			Description:       stakingtypes.Description{Moniker: fmt.Sprintf("owner-%d", i)},
			Commission:        stakingtypes.CommissionRates{Rate: sdkmath.LegacyNewDecWithPrec(1, 1), MaxRate: sdkmath.LegacyNewDecWithPrec(2, 1), MaxChangeRate: sdkmath.LegacyNewDecWithPrec(1, 2)},
			MinSelfDelegation: sdkmath.NewInt(1),
			ValidatorAddress:  sdk.ValAddress(h.Accts[i].Addr).String(),
			Pubkey:            pkAny,
			Value:             sdk.NewCoin("uvrise", sdkmath.NewInt(1_000_000)),
		})
		return e2
	})
}

const rule = "one step = one real x/accounts Execute (owner, stranger, forged msg.Sender) on a lockup account or its self-delegation proxy, a third-party bank send, or one block, compared with the model's step from the implementation's own pre-state; non-trivial when the owner acts while 0 < locked(now) < original and DelegatedLocking > 0, distinct by (variant, operation, result, locked decile, bit length of DL)"

// Run generates about n step cases (plus the fixed corpus) and writes cases + stats into outDir.
// newApp starts a fresh application instance for the environment (validators for the owners,
// a few blocks so that they are bonded and earn).
func (e *env) newApp() error {
	if e.h != nil {
		e.h.Close()
	}
	balc := sdk.NewCoins(sdk.NewCoin("urise", sdkmath.NewInt(40_000_000_000_000)), sdk.NewCoin("uvrise", sdkmath.NewInt(2_000_000_000)),
		sdk.NewCoin("uusdc", sdkmath.NewInt(1_000_000_000_000)), sdk.NewCoin("uatom", sdkmath.NewInt(1_000_000_000_000)))
	h := apph.New(apph.Options{NumAccounts: 7, Balances: balc})
	e.h = h
	e.ctxTime = time.Time{}
	e.vals = nil
	e.bondSendable = h.App.BankKeeper.IsSendEnabledDenom(h.Ctx(), "uvrise")
	for _, i := range e.owners {
		if err := e.createValidator(i); err != nil {
			return fmt.Errorf("create validator %d: %w", i, err)
		}
		e.vals = append(e.vals, sdk.ValAddress(h.Accts[i].Addr).String())
	}
	e.vals = append(e.vals, sdk.ValAddress(h.Vals[0].Address).String())
	sort.Strings(e.vals)
	for i := 0; i < 3; i++ { // let the new validators enter the bonded set and start earning
		if err := e.block(time.Second); err != nil {
			return err
		}
	}
	return nil
}

// richest: the account among the funder / recipients that holds most of the fee denom pays the
// next Init or deposit (coins sent out by earlier histories are recycled)
func (e *env) pickFunder() {
	best, bi := big.NewInt(-1), e.funder
	for _, i := range append([]int{3}, e.outs...) {
		b := e.h.Bal(e.h.Ctx(), e.h.Accts[i].Addr, "urise").BigInt()
		if b.Cmp(best) > 0 {
			best, bi = b, i
		}
	}
	e.funder = bi
}

// Run generates about n step cases (plus the fixed corpus) and writes cases + stats into outDir.
func Run(seed int64, n int, outDir string) error {
	r := emit.NewRand(seed)
	e := &env{r: r, owners: []int{0, 1, 2}, funder: 3, outs: []int{4, 5, 6},
		distr: authtypes.NewModuleAddress("distribution"), scMod: authtypes.NewModuleAddress(sctypes.ModuleName)}
	e.st = emit.NewStats("C12", seed, rule)
	e.cf = &emit.CasesFile{Import: "Stake.C12Check", Runner: "run", Type: "c12_case"}
	if err := e.newApp(); err != nil {
		return err
	}
	defer func() { e.h.Close() }()
	h := e.h
	e.st.Extra["bond_denom_send_enabled"] = e.bondSendable

	if err := e.corpus(); err != nil {
		return err
	}
	scenarios := 0
	day := 24 * time.Hour
	for e.ncases < n {
		// a fresh chain every few histories: block time stays far from the int64 nanosecond limit
		// and the funding accounts are refilled
		if scenarios > 0 && (scenarios%12 == 0 || e.now().Year() > 2120) {
			if err := e.newApp(); err != nil {
				return err
			}
			h = e.h
		}
		scenarios++
		_ = h
		sd := r.Bool()
		var dur time.Duration
		var off time.Duration
		if r.Chance(7, 10) {
			// long schedules, entered in the middle or about to start: unbondings (21 days) mature inside them
			dur = []time.Duration{60 * day, 100 * day, 365 * day, 2 * 365 * day}[r.Intn(4)]
			off = []time.Duration{-dur / 3, -dur / 2, -dur / 10, 0, 60 * time.Second, 3600 * time.Second}[r.Intn(6)]
		} else {
			dur = []time.Duration{30 * time.Second, 1000 * time.Second, 40 * day, 700 * time.Millisecond}[r.Intn(4)]
			off = []time.Duration{-dur / 2, -dur / 4, 0, 60 * time.Second, -3 * dur}[r.Intn(5)]
		}
		start := e.now().Add(off + time.Duration(r.Int63n(1_000_000_000)))
		end := start.Add(dur + time.Duration(r.Int63n(1_000_000_000)))
		if r.Chance(1, 4) {
			// the whole range of schedule lengths, from one second to the largest representable end
			// time (quasi-permanent locks), started in the past, now, or in the future
			start, end = scheduleRegime(r, e.now(), r.Intn(len(regimeYears)+2), r.Intn(6))
			dur = 400 * day // a full-length history
		}
		startZero := r.Chance(1, 8)
		endZero := r.Chance(1, 40)
		if r.Chance(1, 40) {
			end = start.Add(-time.Second)
		}
		amt := e.r.LogUniform(12)
		if amt.Cmp(big.NewInt(1000)) < 0 && r.Chance(2, 3) {
			amt = new(big.Int).Add(amt, big.NewInt(1_000_000))
		}
		funds := []coin{{dFEE, amt}}
		switch r.Intn(8) {
		case 0:
			funds = append(funds, coin{dUSDC, big.NewInt(int64(1 + r.Intn(100000)))})
		case 1:
			if r.Chance(1, 3) {
				funds = []coin{{dUSDC, big.NewInt(int64(1 + r.Intn(100000)))}}
			}
		case 2:
			if r.Chance(1, 3) {
				funds = append(funds, coin{dBOND, big.NewInt(100)})
			}
		case 3:
			if r.Chance(1, 2) { // the locked denom sorts first, urise arrives later as a deposit
				funds = []coin{{dATOM, big.NewInt(int64(1000 + r.Intn(1000000)))}}
			} else {
				funds = []coin{{dATOM, big.NewInt(int64(1000 + r.Intn(1000000)))}, {dFEE, amt}}
			}
		}
		s := e.initCase(sd, start, end, startZero, endZero, funds, "gen")
		if s == nil {
			continue
		}
		steps := 20 + r.Intn(40)
		if dur < day {
			steps = 8 + r.Intn(12)
		}
		for i := 0; i < steps && e.ncases < n; i++ {
			if err := s.randomStep(r); err != nil {
				return err
			}
			if i > 8 && e.now().After(s.end) && r.Chance(1, 6) {
				break
			}
			if i > 8 && e.now().After(s.end.Add(23*day)) && r.Chance(1, 3) {
				break // the schedule is long over and every unbonding has completed
			}
		}
	}
	if _, err := e.cf.Write(outDir, "cases", 60); err != nil {
		return err
	}
	return e.st.Write(outDir)
}

// corpus: fixed regression histories, run first.  They are the witnesses of the defects found
// while building the check (see notes/C12.md): forged msg.Sender, root-owner lookup of a
// lockup delegator, unbond entries recorded in the wrong denom, and the bank configuration
// the proxy's custody relies on.
func (e *env) corpus() error {
	h := e.h
	day := 24 * time.Hour
	own := func(s *scen) (int, int) { return s.owner, s.owner }
	stranger := e.outs[1]

	// (a) non-voting variant, fully unlocked; a stranger forges msg.Sender = owner
	a := e.initCase(false, h.Time.Add(-100*time.Second), h.Time.Add(-50*time.Second), false, false, []coin{{dFEE, big.NewInt(1000)}}, "corpus:a")
	if a == nil {
		return fmt.Errorf("corpus a: init failed")
	}
	a.doExec(opDesc{Kind: "Send", ES: stranger, MS: a.owner, To: "TOut", Coins: []coin{{dFEE, big.NewInt(7)}}}, "corpus:forged-sender-send")
	a.doExec(opDesc{Kind: "Delegate", ES: stranger, MS: a.owner, Val: 1, D: dFEE, Amt: big.NewInt(5)}, "corpus:forged-sender-delegate")
	es, ms := own(a)
	a.doExec(opDesc{Kind: "Send", ES: es, MS: ms, To: "TOut", Coins: []coin{{dFEE, big.NewInt(7)}}}, "corpus:owner-send")

	// (b) self-delegatable variant, locked for 100 days from now
	b := e.initCase(true, h.Time, h.Time.Add(100*day), false, false, []coin{{dFEE, big.NewInt(1_000_000)}}, "corpus:b")
	if b == nil {
		return fmt.Errorf("corpus b: init failed")
	}
	es, ms = own(b)
	b.doExec(opDesc{Kind: "SelfDelegate", ES: es, MS: ms, Amt: big.NewInt(400_000)}, "corpus:self-delegate")
	b.doExec(opDesc{Kind: "Send", ES: es, MS: ms, To: "TOut", Coins: []coin{{dFEE, big.NewInt(1)}}}, "corpus:send-while-locked")
	b.doExec(opDesc{Kind: "PUndelegate", ES: stranger, MS: b.owner, Amt: big.NewInt(100_000)}, "corpus:forged-sender-proxy")
	b.doExec(opDesc{Kind: "PUndelegate", ES: es, MS: ms, Amt: big.NewInt(100_000)}, "corpus:proxy-undelegate")
	if err := b.doBlock(h.Time.Add(30*day), "corpus:b"); err != nil {
		return err
	}
	b.doExec(opDesc{Kind: "PSend", ES: es, MS: ms, To: "TOut", Coins: []coin{{dBOND, big.NewInt(1)}}}, "corpus:proxy-send-bond-denom")
	b.doExec(opDesc{Kind: "PWithdrawReward", ES: es, MS: ms, Val: e.valID(sdk.ValAddress(h.Accts[b.owner].Addr).String())}, "corpus:proxy-withdraw-reward")
	b.doExec(opDesc{Kind: "WithdrawUnbonded", ES: es, MS: ms, Amt: big.NewInt(60_000)}, "corpus:withdraw-unbonded")
	w := b.observe(e.ctx())
	b.doExec(opDesc{Kind: "Send", ES: es, MS: ms, To: "TOut", Coins: []coin{{dFEE, new(big.Int).Add(b.spendable(w), big.NewInt(1))}}}, "corpus:send-spendable+1")
	b.doExec(opDesc{Kind: "Send", ES: es, MS: ms, To: "TOut", Coins: []coin{{dFEE, b.spendable(w)}}}, "corpus:send-spendable")

	// (c) non-voting variant: delegate, undelegate, let the unbonding mature, then send
	c := e.initCase(false, h.Time, h.Time.Add(100*day), false, false, []coin{{dFEE, big.NewInt(1_000_000)}}, "corpus:c")
	if c == nil {
		return fmt.Errorf("corpus c: init failed")
	}
	es, ms = own(c)
	c.doExec(opDesc{Kind: "Delegate", ES: es, MS: ms, Val: 1, D: dFEE, Amt: big.NewInt(300_000)}, "corpus:delegate")
	c.doExec(opDesc{Kind: "Undelegate", ES: es, MS: ms, Val: 1, D: dFEE, Amt: big.NewInt(100_000)}, "corpus:undelegate")
	if err := c.doBlock(e.safeTime(h.Time.Add(10*day)), "corpus:c"); err != nil {
		return err
	}
	c.doExec(opDesc{Kind: "Send", ES: es, MS: ms, To: "TOut", Coins: []coin{{dFEE, big.NewInt(1)}}}, "corpus:send-before-maturity")
	if err := c.doBlock(e.safeTime(h.Time.Add(12*day)), "corpus:c"); err != nil {
		return err
	}
	c.doExec(opDesc{Kind: "Send", ES: es, MS: ms, To: "TOut", Coins: []coin{{dFEE, big.NewInt(1)}}}, "corpus:send-after-maturity")
	c.doExec(opDesc{Kind: "Delegate", ES: es, MS: ms, Val: 1, D: dFEE, Amt: big.NewInt(10)}, "corpus:delegate-after-maturity")

	// (d) non-voting variant: two unbond entries on one validator, the first matured, the second not.
	// The refresh processes the first entry, meets the second, returns early WITHOUT storing the
	// shortened list: the first entry is tracked again by every later refresh (DL/DF are
	// over-decremented -- the conservative direction; same code as the upstream SDK lockup).
	d := e.initCase(false, h.Time, h.Time.Add(300*day), false, false, []coin{{dFEE, big.NewInt(1_000_000)}}, "corpus:d")
	if d == nil {
		return fmt.Errorf("corpus d: init failed")
	}
	es, ms = own(d)
	d.doExec(opDesc{Kind: "Delegate", ES: es, MS: ms, Val: 2, D: dFEE, Amt: big.NewInt(600_000)}, "corpus:d-delegate")
	d.doExec(opDesc{Kind: "Undelegate", ES: es, MS: ms, Val: 2, D: dFEE, Amt: big.NewInt(100_000)}, "corpus:d-undelegate-1")
	if err := d.doBlock(e.safeTime(h.Time.Add(5*day)), "corpus:d"); err != nil {
		return err
	}
	d.doExec(opDesc{Kind: "Undelegate", ES: es, MS: ms, Val: 2, D: dFEE, Amt: big.NewInt(50_000)}, "corpus:d-undelegate-2")
	if err := d.doBlock(e.safeTime(h.Time.Add(17*day)), "corpus:d"); err != nil {
		return err
	}
	d.doExec(opDesc{Kind: "Send", ES: es, MS: ms, To: "TOut", Coins: []coin{{dFEE, big.NewInt(1)}}}, "corpus:d-send-refresh-1")
	d.doExec(opDesc{Kind: "Send", ES: es, MS: ms, To: "TOut", Coins: []coin{{dFEE, big.NewInt(1)}}}, "corpus:d-send-refresh-2")
	d.doExec(opDesc{Kind: "Send", ES: es, MS: ms, To: "TOut", Coins: []coin{{dFEE, big.NewInt(1)}}}, "corpus:d-send-refresh-3")
	if err := d.doBlock(e.safeTime(h.Time.Add(6*day)), "corpus:d"); err != nil {
		return err
	}
	d.doExec(opDesc{Kind: "Send", ES: es, MS: ms, To: "TOut", Coins: []coin{{dFEE, big.NewInt(1)}}}, "corpus:d-send-after-both")

	// (e)-(h): the tracking values must be refreshed BEFORE they are used.  After an unbonding
	// has completed and the stake is back in the balance, the owner's FIRST operation is a Send of
	// exactly what would be spendable with the stale (pre-refresh) DelegatedLocking: it must be
	// refused; one more than the refreshed spendable amount must be refused; the refreshed
	// spendable amount itself must pass.  Fully locked (schedule not started) and half-way variants,
	// both account kinds, Send path and withdraw path.
	sendAt := func(sc *scen, amt *big.Int, tag string) {
		if amt.Sign() <= 0 {
			amt = big.NewInt(1)
		}
		o1, o2 := own(sc)
		sc.doExec(opDesc{Kind: "Send", ES: o1, MS: o2, To: "TOut", Coins: []coin{{dFEE, amt}}}, tag)
	}
	staleThenFresh := func(sc *scen, stale *big.Int, tag string) {
		w := sc.observe(e.ctx())
		rdl, _ := sc.refreshed(w)
		if stale == nil {
			stale = w.DL
		}
		sendAt(sc, sc.spendableWith(w, stale), tag+":send-stale-spendable")
		w = sc.observe(e.ctx())
		rdl, _ = sc.refreshed(w)
		sendAt(sc, new(big.Int).Add(sc.spendableWith(w, rdl), big.NewInt(1)), tag+":send-fresh-spendable+1")
		w = sc.observe(e.ctx())
		rdl, _ = sc.refreshed(w)
		sendAt(sc, sc.spendableWith(w, rdl), tag+":send-fresh-spendable")
	}
	for _, v := range []struct {
		tag      string
		startOff time.Duration
	}{{"corpus:e-nv-locked", 200 * day}, {"corpus:f-nv-halfway", -200 * day}} {
		sc := e.initCase(false, e.now().Add(v.startOff), e.now().Add(v.startOff+400*day), false, false, []coin{{dFEE, big.NewInt(1_000_000)}}, v.tag)
		if sc == nil {
			return fmt.Errorf("%s: init failed", v.tag)
		}
		es, ms = own(sc)
		sc.doExec(opDesc{Kind: "Delegate", ES: es, MS: ms, Val: 3, D: dFEE, Amt: big.NewInt(600_000)}, v.tag+":delegate")
		sc.doExec(opDesc{Kind: "Undelegate", ES: es, MS: ms, Val: 3, D: dFEE, Amt: big.NewInt(500_000)}, v.tag+":undelegate")
		if err := sc.doBlock(e.safeTime(e.now().Add(22*day)), v.tag); err != nil {
			return err
		}
		staleThenFresh(sc, nil, v.tag)
		// the same moment again, this time the first operation after maturity is a Delegate
		sc.doExec(opDesc{Kind: "Undelegate", ES: es, MS: ms, Val: 3, D: dFEE, Amt: big.NewInt(60_000)}, v.tag+":undelegate-2")
		if err := sc.doBlock(e.safeTime(e.now().Add(22*day)), v.tag); err != nil {
			return err
		}
		// (more than locked - stale DL, so that a stale read splits the amount differently between DL and DF)
		sc.doExec(opDesc{Kind: "Delegate", ES: es, MS: ms, Val: 3, D: dFEE, Amt: big.NewInt(450_000)}, v.tag+":delegate-first-after-maturity")
	}
	for _, v := range []struct {
		tag      string
		startOff time.Duration
	}{{"corpus:g-sd-locked", 200 * day}, {"corpus:h-sd-halfway", -200 * day}} {
		sc := e.initCase(true, e.now().Add(v.startOff), e.now().Add(v.startOff+400*day), false, false, []coin{{dFEE, big.NewInt(1_000_000)}}, v.tag)
		if sc == nil {
			return fmt.Errorf("%s: init failed", v.tag)
		}
		es, ms = own(sc)
		sc.doExec(opDesc{Kind: "SelfDelegate", ES: es, MS: ms, Amt: big.NewInt(600_000)}, v.tag+":self-delegate")
		sc.doExec(opDesc{Kind: "PUndelegate", ES: es, MS: ms, Amt: big.NewInt(500_000)}, v.tag+":proxy-undelegate")
		if err := sc.doBlock(e.safeTime(e.now().Add(22*day)), v.tag); err != nil {
			return err
		}
		// unbonded stake sits at the proxy: nothing more is spendable yet
		staleThenFresh(sc, nil, v.tag+":before-withdraw")
		w0 := sc.observe(e.ctx())
		sc.doExec(opDesc{Kind: "WithdrawUnbonded", ES: es, MS: ms, Amt: big.NewInt(500_000)}, v.tag+":withdraw-unbonded")
		// ... and after the withdrawal only with the reduced DelegatedLocking
		staleThenFresh(sc, w0.DL, v.tag+":after-withdraw")
	}

	// (k) self-delegatable, half-way through the schedule, stake made of BOTH locked and free coins
	// (one self-delegation larger than what is still locked, or a locked one followed by a free
	// one), all of it unbonded and withdrawn in ONE message whose amount exceeds DelegatedLocking -
	// and, as the control, in two messages: the withdrawal must reduce DelegatedFree first and
	// DelegatedLocking by the rest, after which exactly the unlocked part is spendable (seeded C12-r8)
	for _, v := range []struct {
		tag    string
		first  int64
		second int64
		parts  []int64
	}{{"corpus:k-sd-mixed-one-withdrawal", 800_000, 0, []int64{800_000}},
		{"corpus:k-sd-locked-then-free", 450_000, 300_000, []int64{750_000}},
		{"corpus:k-sd-mixed-two-withdrawals", 800_000, 0, []int64{300_000, 500_000}},
		{"corpus:k-sd-mixed-partial", 800_000, 0, []int64{650_000}}} {
		sc := e.initCase(true, e.now().Add(-200*day), e.now().Add(200*day), false, false, []coin{{dFEE, big.NewInt(1_000_000)}}, v.tag)
		if sc == nil {
			return fmt.Errorf("%s: init failed", v.tag)
		}
		es, ms = own(sc)
		sc.doExec(opDesc{Kind: "SelfDelegate", ES: es, MS: ms, Amt: big.NewInt(v.first)}, v.tag+":self-delegate")
		total := v.first
		if v.second > 0 {
			if err := sc.doBlock(e.safeTime(e.now().Add(40*day)), v.tag); err != nil {
				return err
			}
			sc.doExec(opDesc{Kind: "SelfDelegate", ES: es, MS: ms, Amt: big.NewInt(v.second)}, v.tag+":self-delegate-free")
			total += v.second
		}
		sc.doExec(opDesc{Kind: "PUndelegate", ES: es, MS: ms, Amt: big.NewInt(total)}, v.tag+":proxy-undelegate-all")
		if err := sc.doBlock(e.safeTime(e.now().Add(22*day)), v.tag); err != nil {
			return err
		}
		for i, part := range v.parts {
			w0 := sc.observe(e.ctx())
			sc.doExec(opDesc{Kind: "WithdrawUnbonded", ES: es, MS: ms, Amt: big.NewInt(part)}, fmt.Sprintf("%s:withdraw-unbonded-%d", v.tag, i))
			staleThenFresh(sc, w0.DL, fmt.Sprintf("%s:after-withdraw-%d", v.tag, i))
		}
	}

	// (i) every schedule length (1, 100, 292, 293, 500, 1000 years, end at the largest representable
	// time, one second, about a block) x start in the past / now / in the future, both kinds
	// alternating: sends at the boundary amounts right away, after a day and after a year, and one
	// delegation (the locked / free split uses the same schedule value)
	k := 0
	for lenIdx := 0; lenIdx < len(regimeYears)+2; lenIdx++ {
		for _, startIdx := range []int{0, 3, 5} {
			k++
			sdv := k%2 == 0
			tag := fmt.Sprintf("corpus:i-len%d-start%d", lenIdx, startIdx)
			st, en := scheduleRegime(e.r, e.now(), lenIdx, startIdx)
			sc := e.initCase(sdv, st, en, false, false, []coin{{dFEE, big.NewInt(1_000_000_000_000)}}, tag)
			if sc == nil {
				return fmt.Errorf("%s: init failed", tag)
			}
			es, ms = own(sc)
			staleThenFresh(sc, nil, tag+":t0")
			if sdv {
				sc.doExec(opDesc{Kind: "SelfDelegate", ES: es, MS: ms, Amt: big.NewInt(300_000_000_000)}, tag+":self-delegate")
			} else {
				sc.doExec(opDesc{Kind: "Delegate", ES: es, MS: ms, Val: 2, D: dFEE, Amt: big.NewInt(300_000_000_000)}, tag+":delegate")
			}
			if err := sc.doBlock(e.safeTime(e.now().Add(day+time.Duration(e.r.Int63n(1_000_000_000)))), tag); err != nil {
				return err
			}
			staleThenFresh(sc, nil, tag+":t+1d")
			if err := sc.doBlock(e.safeTime(e.now().AddDate(1, 0, 0)), tag); err != nil {
				return err
			}
			staleThenFresh(sc, nil, tag+":t+1y")
		}
		if e.now().Year() > 2060 { // keep block time small: a fresh chain
			if err := e.newApp(); err != nil {
				return err
			}
		}
	}

	// (j) one message carrying several denoms: a locked denom at spendable / spendable+1 / whole
	// balance together with the full deposit of never-locked denoms that sort before (uatom) and
	// after (uusdc) it; fully locked and half-way; both kinds; locked urise and locked uatom
	dep := func(sc *scen, cs []coin, tag string) {
		e.pickFunder()
		sc.doExec(opDesc{Kind: "Deposit", ES: -2, MS: -2, Coins: cs}, tag)
	}
	for _, sdv := range []bool{false, true} {
		for _, v := range []struct {
			tag      string
			startOff time.Duration
			funds    []coin
			deps     [][]coin
		}{
			{"locked-urise+usdc", 200 * day, []coin{{dFEE, big.NewInt(1_000_000)}}, [][]coin{{{dUSDC, big.NewInt(500)}}}},
			{"halfway-urise+usdc", -200 * day, []coin{{dFEE, big.NewInt(1_000_000)}}, [][]coin{{{dUSDC, big.NewInt(500)}}}},
			{"halfway-urise+atom", -200 * day, []coin{{dFEE, big.NewInt(1_000_000)}}, [][]coin{{{dATOM, big.NewInt(500)}}}},
			{"halfway-urise+atom+usdc", -200 * day, []coin{{dFEE, big.NewInt(1_000_000)}}, [][]coin{{{dATOM, big.NewInt(500)}}, {{dUSDC, big.NewInt(500)}}}},
			{"halfway-atom+urise", -200 * day, []coin{{dATOM, big.NewInt(1_000_000)}}, [][]coin{{{dFEE, big.NewInt(500)}}}},
			{"halfway-urise,usdc+atom", -200 * day, []coin{{dFEE, big.NewInt(1_000_000)}, {dUSDC, big.NewInt(1_000_000)}}, [][]coin{{{dATOM, big.NewInt(500)}}}},
		} {
			tag := fmt.Sprintf("corpus:j-%v-%s", sdv, v.tag)
			sc := e.initCase(sdv, e.now().Add(v.startOff), e.now().Add(v.startOff+400*day), false, false, v.funds, tag)
			if sc == nil {
				return fmt.Errorf("%s: init failed", tag)
			}
			for _, c := range v.deps {
				dep(sc, c, tag+":deposit")
			}
			es, ms = own(sc)
			for mode, name := range []string{"spendable", "spendable+1", "whole-balance"} {
				w := sc.observe(e.ctx())
				var cs []coin
				for _, d := range []int{dATOM, dFEE, dUSDC} {
					bal := w.AB[d-1]
					if bal.Sign() <= 0 {
						continue
					}
					amt := new(big.Int).Set(bal)
					if L := lockedOf(w, d); L.Sign() > 0 && mode < 2 {
						amt = new(big.Int).Sub(bal, L)
						if amt.Sign() < 0 {
							amt = big.NewInt(0)
						}
						amt.Add(amt, big.NewInt(int64(mode)))
					}
					if amt.Sign() <= 0 {
						amt = big.NewInt(1)
					}
					cs = append(cs, coin{d, amt})
				}
				sc.doExec(opDesc{Kind: "Send", ES: es, MS: ms, To: "TOut", Coins: cs}, tag+":send-all-denoms-"+name)
			}
		}
	}
	return nil
}
