package c19

import (
	"fmt"

	"cosmossdk.io/collections"
	sdkmath "cosmossdk.io/math"
	sdk "github.com/cosmos/cosmos-sdk/types"
	"github.com/cosmos/gogoproto/proto"

	datypes "github.com/sunriselayer/sunrise/x/da/types"
	litypes "github.com/sunriselayer/sunrise/x/liquidityincentive/types"
	lptypes "github.com/sunriselayer/sunrise/x/liquiditypool/types"
	swaptypes "github.com/sunriselayer/sunrise/x/swap/types"

	"verifharness/apph"
)

type setter func(sdk.Context) error

// imagesOf fills o.images (what the module's InitGenesis writes for each exported entry: the
// per-element call of x/<m>/keeper/genesis.go, run on an empty branch of the module's store) and
// o.cdef (what it writes for a zero counter).  Entries are read with the collections API (or
// decoded from the raw dump for the two raw-store collections), not with the GetAll* helpers
// that ExportGenesis uses.
func imagesOf(h *apph.H, ctx sdk.Context, mi int, o *obs) error {
	t := tables[mi]
	base, _ := ctx.CacheContext()
	wipe(h.App, base, t.name)
	elems := map[int][]setter{}
	counters := map[int]setter{}
	switch t.name {
	case "da":
		k := h.App.DaKeeper
		if err := k.PublishedData.Walk(ctx, nil, func(_ string, v datypes.PublishedData) (bool, error) {
			elems[1] = append(elems[1], func(sc sdk.Context) error { return k.SetPublishedData(sc, v) })
			return false, nil
		}); err != nil {
			return err
		}
		if err := k.Proofs.Walk(ctx, nil, func(_ collections.Pair[string, []byte], v datypes.Proof) (bool, error) {
			elems[5] = append(elems[5], func(sc sdk.Context) error { return k.SetProof(sc, v) })
			return false, nil
		}); err != nil {
			return err
		}
	case "liquidityincentive":
		k := h.App.LiquidityincentiveKeeper
		if err := k.Epochs.Walk(ctx, nil, func(_ uint64, v litypes.Epoch) (bool, error) {
			elems[1] = append(elems[1], func(sc sdk.Context) error { return k.SetEpoch(sc, v) })
			return false, nil
		}); err != nil {
			return err
		}
		if err := k.Gauges.Walk(ctx, nil, func(_ collections.Pair[uint64, uint64], v litypes.Gauge) (bool, error) {
			elems[3] = append(elems[3], func(sc sdk.Context) error { return k.SetGauge(sc, v) })
			return false, nil
		}); err != nil {
			return err
		}
		if err := k.Votes.Walk(ctx, nil, func(_ sdk.AccAddress, v litypes.Vote) (bool, error) {
			elems[4] = append(elems[4], func(sc sdk.Context) error { return k.SetVote(sc, v) })
			return false, nil
		}); err != nil {
			return err
		}
		counters[2] = func(sc sdk.Context) error { return k.SetEpochCount(sc, 0) }
	case "liquiditypool":
		k := h.App.LiquiditypoolKeeper
		if err := k.Pools.Walk(ctx, nil, func(_ uint64, v lptypes.Pool) (bool, error) {
			elems[1] = append(elems[1], func(sc sdk.Context) error { return k.SetPool(sc, v) })
			return false, nil
		}); err != nil {
			return err
		}
		if err := k.Positions.Walk(ctx, nil, func(_ uint64, v lptypes.Position) (bool, error) {
			elems[3] = append(elems[3], func(sc sdk.Context) error { return k.SetPosition(sc, v) })
			return false, nil
		}); err != nil {
			return err
		}
		for _, e := range o.before[8] {
			var v lptypes.AccumulatorObject
			if err := proto.Unmarshal(e.V, &v); err != nil {
				return fmt.Errorf("accumulator value does not decode: %w", err)
			}
			elems[8] = append(elems[8], func(sc sdk.Context) error { return k.SetAccumulator(sc, v) })
		}
		for _, e := range o.before[9] {
			var v lptypes.AccumulatorPosition
			if err := proto.Unmarshal(e.V, &v); err != nil {
				return fmt.Errorf("accumulator position value does not decode: %w", err)
			}
			// x/liquiditypool/keeper/genesis.go: parse NumShares, then SetAccumulatorPosition
			elems[9] = append(elems[9], func(sc sdk.Context) error {
				ns, err := sdkmath.LegacyNewDecFromStr(v.NumShares)
				if err != nil {
					return err
				}
				return k.SetAccumulatorPosition(sc, v.Name, v.AccumValuePerShare, v.Index, ns, v.UnclaimedRewardsTotal)
			})
		}
		counters[2] = func(sc sdk.Context) error { return k.SetPoolCount(sc, 0) }
		counters[4] = func(sc sdk.Context) error { return k.SetPositionCount(sc, 0) }
	case "swap":
		k := h.App.SwapKeeper
		if err := k.IncomingInFlightPackets.Walk(ctx, nil, func(_ collections.Triple[string, string, uint64], v swaptypes.IncomingInFlightPacket) (bool, error) {
			elems[1] = append(elems[1], func(sc sdk.Context) error { return k.SetIncomingInFlightPacket(sc, v) })
			return false, nil
		}); err != nil {
			return err
		}
		if err := k.OutgoingInFlightPackets.Walk(ctx, nil, func(_ collections.Triple[string, string, uint64], v swaptypes.OutgoingInFlightPacket) (bool, error) {
			elems[2] = append(elems[2], func(sc sdk.Context) error { return k.SetOutgoingInFlightPacket(sc, v) })
			return false, nil
		}); err != nil {
			return err
		}
	}
	writes := func(set setter) (ws []struct {
		field int
		e     kv
	}, err error) {
		sc, _ := base.CacheContext()
		defer func() {
			if r := recover(); r != nil {
				err = fmt.Errorf("panic: %v", r)
			}
		}()
		if err = set(sc); err != nil {
			return nil, err
		}
		fields, unk := group(t, dump(h.App, sc, t.name))
		if len(unk) > 0 {
			return nil, fmt.Errorf("setter wrote outside the known prefixes")
		}
		for fi, f := range fields {
			for _, e := range f {
				ws = append(ws, struct {
					field int
					e     kv
				}{fi, e})
			}
		}
		return ws, nil
	}
	for fi := 0; fi < len(t.prefixes); fi++ {
		list := elems[fi]
		if len(list) == 0 {
			continue
		}
		if len(list) != len(o.before[fi]) {
			return fmt.Errorf("prefix %q: %d entries in the store, %d through the typed walk", t.prefixes[fi], len(o.before[fi]), len(list))
		}
		for i, set := range list {
			ws, err := writes(set)
			if err != nil {
				return fmt.Errorf("prefix %q entry %d: %w", t.prefixes[fi], i, err)
			}
			o.images = append(o.images, struct {
				field int
				key   []byte
				img   []struct {
					field int
					e     kv
				}
			}{fi, o.before[fi][i].K, ws})
		}
	}
	for fi, set := range counters {
		ws, err := writes(set)
		if err != nil || len(ws) != 1 || ws[0].field != fi {
			return fmt.Errorf("counter %q: unexpected writes (%v)", t.prefixes[fi], err)
		}
		o.cdef[fi] = ws[0].e
	}
	return nil
}
