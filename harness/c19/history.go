package c19

import (
	"fmt"
	"time"

	sdkmath "cosmossdk.io/math"
	sdk "github.com/cosmos/cosmos-sdk/types"

	dakeeper "github.com/sunriselayer/sunrise/x/da/keeper"
	datypes "github.com/sunriselayer/sunrise/x/da/types"
	likeeper "github.com/sunriselayer/sunrise/x/liquidityincentive/keeper"
	litypes "github.com/sunriselayer/sunrise/x/liquidityincentive/types"
	lpkeeper "github.com/sunriselayer/sunrise/x/liquiditypool/keeper"
	lptypes "github.com/sunriselayer/sunrise/x/liquiditypool/types"
	sckeeper "github.com/sunriselayer/sunrise/x/shareclass/keeper"
	sctypes "github.com/sunriselayer/sunrise/x/shareclass/types"
	swapkeeper "github.com/sunriselayer/sunrise/x/swap/keeper"
	swaptypes "github.com/sunriselayer/sunrise/x/swap/types"

	"verifharness/apph"
	"verifharness/emit"
)

var _ = dakeeper.NewMsgServerImpl

// history drives the application to a state: real messages first (with blocks in between),
// then keeper setters for the stores that only consensus hooks, IBC callbacks or x/accounts
// write.  richness 0 = nothing, 1 = a few entries, 2 = random mix, 3 = every prefix populated.
// Failing operations are recorded and tolerated; only harness-level problems are errors.
func history(h *apph.H, r *emit.Rand, richness int) (log []string, err error) {
	if richness == 0 {
		return []string{"default genesis"}, nil
	}
	note := func(op string, e error) {
		if e != nil {
			log = append(log, op+": ERR "+firstLine(e.Error()))
		} else {
			log = append(log, op)
		}
	}
	want := func(p, q int) bool { return richness == 3 || r.Chance(p, q) }
	blocksOK := true
	block := func() {
		if !blocksOK {
			return
		}
		if _, e := h.NextBlock(time.Duration(1+r.Intn(5))*time.Second + time.Duration(r.Intn(1_000_000_000))); e != nil {
			blocksOK = false
			log = append(log, "block: ERR "+firstLine(e.Error()))
		}
	}
	lpSrv := lpkeeper.NewMsgServerImpl(h.App.LiquiditypoolKeeper)
	swSrv := swapkeeper.NewMsgServerImpl(h.App.SwapKeeper)
	liSrv := likeeper.NewMsgServerImpl(h.App.LiquidityincentiveKeeper)
	scSrv := sckeeper.NewMsgServerImpl(h.App.ShareclassKeeper)
	acct := func() apph.Acct { return h.Accts[r.Intn(len(h.Accts))] }

	// ---- liquidity pools, positions (-> tick infos, accumulators), swaps
	type pl struct {
		id          uint64
		base, quote string
	}
	var pools []pl
	npools := 1 + r.Intn(3)
	pairs := [][2]string{{"urise", "uusdc"}, {"uatom", "uusdc"}, {"uosmo", "urise"}, {"uatom", "uosmo"}}
	for i := 0; i < npools && want(4, 5); i++ {
		pr := pairs[r.Intn(len(pairs))]
		var id uint64
		e := apph.Tx(h.Ctx(), func(ctx sdk.Context) error {
			res, e := lpSrv.CreatePool(ctx, &lptypes.MsgCreatePool{Authority: h.Accts[0].Addr.String(), DenomBase: pr[0], DenomQuote: pr[1],
				FeeRate: emit.Pick(r, "0.01", "0.003", "0"), PriceRatio: "1.0001", BaseOffset: emit.Pick(r, "0", "-0.5")})
			if e == nil {
				id = res.Id
			}
			return e
		})
		note(fmt.Sprintf("create pool %s/%s", pr[0], pr[1]), e)
		if e == nil {
			pools = append(pools, pl{id, pr[0], pr[1]})
		}
	}
	var positions []uint64
	for _, p := range pools {
		np := 1 + r.Intn(4)
		for i := 0; i < np; i++ {
			lo := -int64(1 + r.Intn(3000))
			hi := int64(1 + r.Intn(3000))
			if r.Chance(1, 4) { // a range entirely above the current price
				lo, hi = int64(10+r.Intn(500)), int64(600+r.Intn(2000))
			}
			a := acct()
			var pid uint64
			e := apph.Tx(h.Ctx(), func(ctx sdk.Context) error {
				res, e := lpSrv.CreatePosition(ctx, &lptypes.MsgCreatePosition{Sender: a.Addr.String(), PoolId: p.id, LowerTick: lo, UpperTick: hi,
					TokenBase: sdk.NewCoin(p.base, sdkmath.NewInt(int64(100_000+r.Intn(10_000_000)))), TokenQuote: sdk.NewCoin(p.quote, sdkmath.NewInt(int64(100_000+r.Intn(10_000_000)))),
					MinAmountBase: sdkmath.ZeroInt(), MinAmountQuote: sdkmath.ZeroInt()})
				if e == nil {
					pid = res.Id
				}
				return e
			})
			note(fmt.Sprintf("create position pool %d [%d,%d]", p.id, lo, hi), e)
			if e == nil {
				positions = append(positions, pid)
			}
		}
		block()
		ns := r.Intn(5)
		for i := 0; i < ns; i++ {
			din, dout := p.base, p.quote
			if r.Bool() {
				din, dout = dout, din
			}
			a := acct()
			e := apph.Tx(h.Ctx(), func(ctx sdk.Context) error {
				_, e := swSrv.SwapExactAmountIn(ctx, &swaptypes.MsgSwapExactAmountIn{Sender: a.Addr.String(), InterfaceProvider: "",
					Route:    swaptypes.Route{DenomIn: din, DenomOut: dout, Strategy: &swaptypes.Route_Pool{Pool: &swaptypes.RoutePool{PoolId: p.id}}},
					AmountIn: sdkmath.NewInt(int64(1000 + r.Intn(2_000_000))), MinAmountOut: sdkmath.OneInt()})
				return e
			})
			note(fmt.Sprintf("swap %s->%s pool %d", din, dout, p.id), e)
		}
	}
	if len(positions) > 0 && r.Chance(1, 3) {
		id := positions[r.Intn(len(positions))]
		e := apph.Tx(h.Ctx(), func(ctx sdk.Context) error {
			pos, found, e := h.App.LiquiditypoolKeeper.GetPosition(ctx, id)
			if e != nil || !found {
				return fmt.Errorf("position not found")
			}
			_, e = lpSrv.DecreaseLiquidity(ctx, &lptypes.MsgDecreaseLiquidity{Sender: pos.Address, Id: id, Liquidity: pos.Liquidity})
			return e
		})
		note(fmt.Sprintf("remove position %d", id), e)
	}
	block()

	// ---- gauge votes; epochs and gauges come from the block hooks (or the setters below)
	for _, p := range pools {
		if want(1, 2) {
			a := acct()
			e := apph.Tx(h.Ctx(), func(ctx sdk.Context) error {
				_, e := liSrv.VoteGauge(ctx, &litypes.MsgVoteGauge{Sender: a.Addr.String(), PoolWeights: []litypes.PoolWeight{{PoolId: p.id, Weight: emit.Pick(r, "1", "0.5", "0.25")}}})
				return e
			})
			note(fmt.Sprintf("vote gauge pool %d", p.id), e)
		}
	}
	for i := r.Intn(4); i > 0; i-- {
		block()
	}

	// ---- share class: a real non-voting delegation when it works
	if want(1, 2) {
		ctx := h.Ctx()
		vals, e := h.App.StakingKeeper.GetAllValidators(ctx)
		if e == nil && len(vals) > 0 {
			a := acct()
			e = apph.Tx(ctx, func(ctx sdk.Context) error {
				_, e := scSrv.NonVotingDelegate(ctx, &sctypes.MsgNonVotingDelegate{Sender: a.Addr.String(), ValidatorAddress: vals[0].OperatorAddress, Amount: sdk.NewCoin("urise", sdkmath.NewInt(int64(1_000_000+r.Intn(1_000_000))))})
				return e
			})
			note("non-voting delegate", e)
			if e == nil && want(1, 2) {
				e = apph.Tx(ctx, func(ctx sdk.Context) error {
					_, e := scSrv.NonVotingUndelegate(ctx, &sctypes.MsgNonVotingUndelegate{Sender: a.Addr.String(), ValidatorAddress: vals[0].OperatorAddress, Amount: sdk.NewCoin("urise", sdkmath.NewInt(1000)), Recipient: a.Addr.String()})
					return e
				})
				note("non-voting undelegate", e)
			}
		}
		block()
	}

	// ---- degenerate-but-valid records through the message handlers (logged when rejected),
	// and the message history that leaves signed values in the store
	if richness >= 2 || r.Chance(1, 2) {
		degenerateMsgs(h, note)
		block()
		crossedTickScenario(h, r, note)
		block()
	}

	// ---- from here on: exported keeper setters, on the live state, no more blocks
	ctx := h.Ctx()
	future := h.Time.Add(time.Duration(1000+r.Intn(100000))*time.Second + time.Duration(r.Intn(1_000_000_000)))
	valAddr := func() sdk.ValAddress { return sdk.ValAddress(acct().Addr) }
	randBytes := func(n int) []byte {
		b := make([]byte, n)
		for i := range b {
			b[i] = byte(r.Intn(256))
		}
		return b
	}
	// liquidity incentive
	lik := h.App.LiquidityincentiveKeeper
	if want(1, 3) {
		cnt, _ := lik.GetEpochCount(ctx)
		ep := litypes.Epoch{Id: cnt, StartBlock: h.Height, EndBlock: h.Height + 10, Gauges: []litypes.Gauge{{PreviousEpochId: cnt, PoolId: 0, Count: sdkmath.NewInt(int64(r.Intn(1000)))}}}
		note("set epoch", lik.SetEpoch(ctx, ep))
		note("set epoch count", lik.SetEpochCount(ctx, cnt+1))
		note("set gauge", lik.SetGauge(ctx, litypes.Gauge{PreviousEpochId: cnt, PoolId: uint64(r.Intn(3)), Count: sdkmath.NewInt(int64(r.Intn(1000)))}))
	}
	if want(1, 3) {
		note("set vote", lik.SetVote(ctx, litypes.Vote{Sender: acct().Addr.String(), PoolWeights: []litypes.PoolWeight{{PoolId: uint64(r.Intn(3)), Weight: "0.5"}}}))
	}
	// swap: in-flight packets
	swk := h.App.SwapKeeper
	for i := r.Intn(3); i > 0 || (richness == 3 && i == 0); i-- {
		idx := swaptypes.PacketIndex{PortId: "transfer", ChannelId: fmt.Sprintf("channel-%d", r.Intn(3)), Sequence: uint64(1 + r.Intn(50))}
		in := swaptypes.IncomingInFlightPacket{Index: idx, Data: randBytes(10 + r.Intn(30)), SrcPortId: "transfer", SrcChannelId: "channel-9",
			TimeoutHeight: "0-100", TimeoutTimestamp: uint64(future.UnixNano()), InterfaceFee: sdkmath.NewInt(int64(r.Intn(100)))}
		if r.Bool() {
			in.Change = &swaptypes.IncomingInFlightPacket_AckChange{AckChange: randBytes(5)}
		}
		note("set incoming in-flight packet", swk.SetIncomingInFlightPacket(ctx, in))
		out := swaptypes.OutgoingInFlightPacket{Index: swaptypes.PacketIndex{PortId: "transfer", ChannelId: "channel-1", Sequence: uint64(1 + r.Intn(50))}, AckWaitingIndex: idx, RetriesRemaining: int32(r.Intn(3))}
		note("set outgoing in-flight packet", swk.SetOutgoingInFlightPacket(ctx, out))
		if richness == 3 {
			break
		}
	}
	// da
	dak := h.App.DaKeeper
	nda := r.Intn(4)
	if richness == 3 {
		nda = 2
	}
	for i := 0; i < nda; i++ {
		uri := fmt.Sprintf("ipfs://item-%d-%d", i, r.Intn(1000))
		pd := datypes.PublishedData{MetadataUri: uri, ParityShardCount: uint64(1 + r.Intn(4)), ShardDoubleHashes: [][]byte{randBytes(32), randBytes(32), randBytes(32)},
			Timestamp: future.Add(time.Duration(i)*time.Second + time.Duration(r.Intn(1_000_000_000))), Status: datypes.Status(1 + r.Intn(4)), Publisher: acct().Addr.String(),
			PublishDataCollateral: sdk.NewCoins(sdk.NewInt64Coin("urise", int64(1+r.Intn(1000)))), PublishedTimestamp: h.Time}
		if r.Bool() {
			pd.Challenger = acct().Addr.String()
			pd.SubmitInvalidityCollateral = sdk.NewCoins(sdk.NewInt64Coin("urise", int64(1+r.Intn(1000))))
		}
		note("set published data "+pd.Status.String(), dak.SetPublishedData(ctx, pd))
		if want(1, 2) {
			note("set proof", dak.SetProof(ctx, datypes.Proof{MetadataUri: uri, Sender: acct().Addr.String(), Indices: []int64{0, int64(r.Intn(3))}, Proofs: [][]byte{randBytes(16), randBytes(16)}}))
		}
		if want(1, 2) {
			note("set invalidity", dak.SetInvalidity(ctx, datypes.Invalidity{MetadataUri: uri, Sender: acct().Addr.String(), Indices: []int64{int64(r.Intn(3))}}))
		}
	}
	if want(1, 3) {
		note("set challenge counter", dak.SetChallengeCounter(ctx, uint64(1+r.Intn(20))))
	}
	if want(1, 3) {
		note("set fault counter", dak.SetFaultCounter(ctx, valAddr(), uint64(1+r.Intn(5))))
	}
	if want(1, 3) {
		note("set proof deputy", dak.SetProofDeputy(ctx, valAddr(), acct().Addr))
	}
	// share class
	sck := h.App.ShareclassKeeper
	if want(1, 3) {
		_, e := sck.AppendUnbonding(ctx, sctypes.Unbonding{Address: acct().Addr.String(), CompletionTime: future, Amount: sdk.NewInt64Coin("urise", int64(1+r.Intn(10000)))})
		note("append unbonding", e)
	}
	if want(1, 3) {
		d, _ := sdkmath.NewDecFromString(fmt.Sprintf("1.%d", 1+r.Intn(999)))
		note("set reward multiplier", sck.SetRewardMultiplier(ctx, valAddr(), "urise", d))
		note("set user's last reward multiplier", sck.SetUserLastRewardMultiplier(ctx, acct().Addr, valAddr(), "urise", d))
	}
	if want(1, 3) {
		note("set last reward handling time", sck.SetLastRewardHandlingTime(ctx, valAddr(), h.Time))
	}
	// self delegation
	sdk_ := h.App.SelfdelegationKeeper
	if want(1, 3) {
		note("register lockup account", sdk_.LockupAccounts.Set(ctx, randBytes(32), acct().Addr))
	}
	if want(1, 3) {
		note("register self-delegation proxy", sdk_.SelfDelegationProxies.Set(ctx, acct().Addr, randBytes(32)))
	}
	// parameters of the two params-only modules
	if want(1, 3) {
		p, e := h.App.FeeKeeper.Params.Get(ctx)
		if e == nil {
			p.BurnRatio = emit.Pick(r, "0.300000000000000000", "0.000000000000000000", "1.000000000000000000")
			p.BypassDenoms = []string{"uvrise", "uusdc"}
			e = h.App.FeeKeeper.Params.Set(ctx, p)
		}
		note("change fee params", e)
	}
	// degenerate-but-valid records in every collection (after the regular ones, so that none of
	// them is overwritten)
	if richness >= 3 || (richness == 2 && r.Chance(1, 2)) {
		degenerateRecords(h, ctx, note)
	}
	return log, nil
}

func firstLine(s string) string {
	for i, c := range s {
		if c == '\n' {
			return s[:i]
		}
	}
	if len(s) > 160 {
		return s[:160]
	}
	return s
}
