#!/bin/sh
# Run once after a fresh restore, offline: clean full .vo build of the Coq development and
# a first build of the Go harness against /repo (warms the Go build cache).
set -e
cd "$(dirname "$0")"
export GOFLAGS=-mod=mod GOPROXY=off GOSUMDB=off GOTOOLCHAIN=local GOWORK=off
mkdir -p build evidence replays
./coq/build.sh clean | grep -v '^WARNING conda' | tail -5
# one harness binary per property; a property whose harness does not build is reported by its own check
python3 - <<'PY'
import importlib.machinery, importlib.util, sys, json, concurrent.futures
loader = importlib.machinery.SourceFileLoader("check", "./check")
spec = importlib.util.spec_from_loader("check", loader)
def build(pid):
    m = importlib.util.module_from_spec(spec); loader.exec_module(m)
    m.CURRENT_PID = pid
    rc, out, binp = m.build_harness()
    return pid, rc, binp, out[-1500:]
pids = [c["property_id"] for c in json.load(open("MANIFEST.json"))["checks"]]
# first build serially (fills the Go build cache), the rest four at a time
results = [build(pids[0])]
with concurrent.futures.ThreadPoolExecutor(max_workers=4) as ex:
    results += list(ex.map(build, pids[1:]))
for pid, rc, binp, out in results:
    print("harness", pid, rc, binp)
    if rc != 0:
        print(out)
PY
