(* C14 model: the body of every `range` over a Go map that exists in consensus code of sunrise,
   as a Gallina step function over the loop's accumulator, plus the tables that tie each step
   function to the source text it abstracts (by hash of the normalised loop text, see
   harness/trans/sites).  No proofs in this file.

   Conventions: validators, pools, shard indices, vote options are integers (the harness codes
   addresses by their position in a sorted list); LegacyDec values are raw integers scaled by
   10^18 with the range assertion of cosmossdk.io/math explicit (Base/Dec.v); a Go panic is
   [Panic], a returned error is [Err]. *)
From Coq Require Import ZArith List Bool String.
From Sunrise Require Import Base.Outcome Base.Dec Sys.Coll Sys.Sites.
Import ListNotations.
Local Open Scope Z_scope.
Local Open Scope res_scope.

(* ================================================================== weighted tallies
   x/liquidityincentive/keeper/keeper_tally.go:101-122  (strict = false)
   app/gov/gov.go:132-146                               (strict = true)
   The two bodies differ only in what a bad weight string and an absent results key do:
     gauge: LegacyNewDecFromStr error -> the function returns the error; absent key -> zero
     gov:   the parse error is dropped (`weight, _ :=`), the nil Dec then panics inside Mul;
            results[option] of an absent key is a nil Dec whose Add panics. *)
Record tval := {
  tv_votes  : list (Z * option Z);   (* (pool id | vote option, weight; None = does not parse) *)
  tv_shares : Z;                     (* DelegatorShares *)
  tv_deduct : Z;                     (* DelegatorDeductions *)
  tv_bonded : Z                      (* BondedTokens (math.Int) *)
}.

Definition tstate := (smap Z * Z)%type.     (* results map, totalVotingPower *)

(* results[k] = results[k].Add(sub); strict_key: an absent key is a nil Dec whose Add panics *)
Definition add_result (strict_key : bool) (r : smap Z) (k sub : Z) : res (smap Z) :=
  let! old := match sget k r with
              | Some x => Ok x
              | None => if strict_key then Panic else Ok 0
              end in
  let! n := of_opt (dadd old sub) in
  Ok (supd k n r).

(* bad_panics: the parse error is dropped and the nil weight panics inside Mul;
   otherwise the parse error is returned *)
Fixpoint add_votes (bad_panics strict_key : bool) (vp : Z) (ws : list (Z * option Z)) (r : smap Z) : res (smap Z) :=
  match ws with
  | [] => Ok r
  | (k, w) :: tl =>
      let! w' := match w with
                 | Some x => Ok x
                 | None => if bad_panics then Panic else Err 1
                 end in
      let! sub := of_opt (dmul vp w') in
      let! r' := add_result strict_key r k sub in
      add_votes bad_panics strict_key vp tl r'
  end.

(* sharesAfterDeductions.MulInt(BondedTokens).Quo(DelegatorShares) *)
Definition voting_power (v : tval) : res Z :=
  let! after := of_opt (dsub (tv_shares v) (tv_deduct v)) in
  let! m := of_opt (dmul_int after (tv_bonded v)) in
  of_opt (dquo m (tv_shares v)).

(* strict = true: gov (both flags); strict = false: gauge tally (neither) *)
Definition tally_step (strict : bool) (s : tstate) (v : tval) : res tstate :=
  match tv_votes v with
  | [] => Ok s                                   (* continue *)
  | _ =>
      let '(r, tot) := s in
      let! vp := voting_power v in
      let! r' := add_votes strict strict vp (tv_votes v) r in
      let! tot' := of_opt (dadd tot vp) in
      Ok (r', tot')
  end.

(* the loops: the entries arrive in whatever order the Go runtime picked *)
Definition gauge_tally_loop (entries : list tval) (s : tstate) : res tstate := foldM (tally_step false) entries s.
Definition gov_tally_loop (entries : list tval) (s : tstate) : res tstate := foldM (tally_step true) entries s.

(* ================================================================== NewTallyResultFromMap + sort
   keeper_tally.go:143-151 appends {PoolId, Count.TruncateInt()} per entry of results;
   keeper_tally.go:134-137 then sort.SliceStable by PoolId. *)
Definition tally_results_append (acc : list (Z * Z)) (e : Z * Z) : list (Z * Z) :=
  acc ++ [(fst e, dtrunc_int (snd e))].
Definition tally_results (entries : list (Z * Z)) : list (Z * Z) :=
  isort_by fst (fold_left tally_results_append entries []).

(* ================================================================== DA: safe shards and fault set
   x/da/keeper/abci.go:214-236, range over shardProofCount (index -> number of proofs). *)
Record da_ctx := {
  dc_n : Z;                          (* len(data.ShardDoubleHashes) *)
  dc_parity : Z;                     (* data.ParityShardCount *)
  dc_rf : Z;                         (* replication factor, raw Dec *)
  dc_indexed : smap (list Z);        (* indexedValidators: shard index -> validators assigned *)
  dc_submitted : list (Z * Z)        (* shardProofSubmitted: (index, validator) pairs present *)
}.

Definition pair_mem (i v : Z) (l : list (Z * Z)) : bool :=
  existsb (fun p => (fst p =? i) && (snd p =? v)) l.

(* replicationFactor.MulInt64(n - parity).QuoInt64(n).MulInt64(2).QuoInt64(3) *)
Definition da_two_thirds (c : da_ctx) : res Z :=
  let! a := of_opt (dmul_int (dc_rf c) (dc_n c - dc_parity c)) in
  let! rfp := of_opt (dquo_int a (dc_n c)) in
  let! b := of_opt (dmul_int rfp 2) in
  of_opt (dquo_int b 3).

Definition da_fault_insert (c : da_ctx) (index : Z) (fault : smap Z) (v : Z) : smap Z :=
  if pair_mem index v (dc_submitted c) then fault else supd v v fault.

Definition da_state := (list Z * smap Z)%type.     (* safeShardIndices, faultValidators *)

Definition da_safe_step (c : da_ctx) (s : da_state) (e : Z * Z) : res da_state :=
  let '(index, count) := e in
  let '(safe, fault) := s in
  if dc_n c <? dc_parity c then Ok s              (* logged, continue *)
  else
    let! thr := da_two_thirds c in
    if thr <=? count * P then
      let vals := match sget index (dc_indexed c) with Some l => l | None => [] end in
      Ok (safe ++ [index], fold_left (da_fault_insert c index) vals fault)
    else Ok s.

Definition da_safe_loop (c : da_ctx) (entries : list (Z * Z)) (s : da_state) : res da_state :=
  foldM (da_safe_step c) entries s.

(* what the rest of TallyValidityProofs reads from safeShardIndices: its length
   (abci.go:244) and membership (checkCorrectInvalidity, abci.go:355-366) *)
Definition da_rejected (c : da_ctx) (safe : list Z) : bool :=
  Z.of_nat (List.length safe) + dc_parity c <? dc_n c.
Definition check_correct_invalidity (indices safe : list Z) : bool :=
  negb (existsb (fun i => zmem i safe) indices).

(* verdict of one item, the per-challenger refund decisions, and the fault set *)
Definition da_item (c : da_ctx) (entries : list (Z * Z)) (invalidities : list (list Z)) (fault0 : smap Z)
  : res (bool * list bool * smap Z) :=
  let! (safe, fault) := da_safe_loop c entries ([], fault0) in
  Ok (da_rejected c safe, map (fun ind => check_correct_invalidity ind safe) invalidities, fault).

(* ================================================================== DA: fault counters
   abci.go:310-321, range over faultValidators: FaultCounts[v] = FaultCounts[v] + 1 (uint64). *)
Definition U64 : Z := 2 ^ 64.
Definition fault_count_step (store : smap Z) (v : Z) : smap Z :=
  supd v ((match sget v store with Some c => c | None => 0 end + 1) mod U64) store.
Definition fault_count_loop (entries : list Z) (store : smap Z) : smap Z :=
  fold_left fault_count_step entries store.

(* ================================================================== app.BlockedAddresses
   app/app.go:429-431, range over GetMaccPerms(): result[addr] = true. *)
Definition blocked_step (s : smap bool) (addr : Z) : smap bool := supd addr true s.
Definition blocked_loop (entries : list Z) (s : smap bool) : smap bool := fold_left blocked_step entries s.

(* ================================================================== whole functions (for the run-time tie)
   Keeper.Tally (keeper_tally.go:22-140) end to end, so that the step functions above are
   compared with the real code on real staking state.  Map ranges are run in ascending key
   order here; the theorems say every other order gives the same result. *)
Record gvote := {
  vt_voter_val : option Z;            (* the voter's address read as a validator operator, if bonded *)
  vt_weights : list (Z * option Z);   (* vote.PoolWeights: (pool id, weight or None if it does not parse) *)
  vt_dels : list (Z * Z)              (* IterateDelegations(voter): (validator, shares), store order; validator -1 = not in the bonded set *)
}.

Definition with_votes (v : tval) (ws : list (Z * option Z)) : tval :=
  {| tv_votes := ws; tv_shares := tv_shares v; tv_deduct := tv_deduct v; tv_bonded := tv_bonded v |}.
Definition with_deduct (v : tval) (d : Z) : tval :=
  {| tv_votes := tv_votes v; tv_shares := tv_shares v; tv_deduct := d; tv_bonded := tv_bonded v |}.

Definition gstate := (smap tval * tstate)%type.

(* keeper_tally.go:69-94, one delegation of a voter *)
Definition gauge_del_step (ws : list (Z * option Z)) (st : gstate) (d : Z * Z) : res gstate :=
  let '(vals, (r, tot)) := st in
  let '(vid, dsh) := d in
  match sget vid vals with
  | None => Ok st
  | Some val =>
      let! ded := of_opt (dadd (tv_deduct val) dsh) in
      let! m := of_opt (dmul_int dsh (tv_bonded val)) in
      let! vp := of_opt (dquo m (tv_shares val)) in
      let! r' := add_votes true false vp ws r in
      let! tot' := of_opt (dadd tot vp) in
      Ok (supd vid (with_deduct val ded) vals, (r', tot'))
  end.

(* keeper_tally.go:52-98, one vote *)
Definition gauge_vote_step (st : gstate) (v : gvote) : res gstate :=
  let '(vals, acc) := st in
  let vals1 := match vt_voter_val v with
               | Some id => match sget id vals with
                            | Some val => supd id (with_votes val (vt_weights v)) vals
                            | None => vals
                            end
               | None => vals
               end in
  foldM (gauge_del_step (vt_weights v)) (vt_dels v) (vals1, acc).

(* bonded validators: (id, BondedTokens, DelegatorShares) *)
Definition gauge_init (bonded : list (Z * Z * Z)) : smap tval :=
  fold_left (fun m x => let '(id, tok, sh) := x in
               supd id {| tv_votes := []; tv_shares := sh; tv_deduct := 0; tv_bonded := tok |} m) bonded [].

Definition gauge_tally (bonded : list (Z * Z * Z)) (votes : list gvote) (total_bonded : Z) : res (list (Z * Z)) :=
  let! (vals, acc) := foldM gauge_vote_step votes (gauge_init bonded, ([], 0)) in
  let! (r, tot) := gauge_tally_loop (map snd vals) acc in
  if total_bonded =? 0 then Ok [] else Ok (tally_results r).

(* one CHALLENGING item resolved by TallyValidityProofs, with the fault counters it bumps
   (abci.go:181-321; one item per block, so the shared fault map starts empty) *)
Definition da_resolve (c : da_ctx) (entries : list (Z * Z)) (invalidities : list (list Z)) (counters : smap Z)
  : res (bool * list bool * smap Z) :=
  let! (rej, refunds, fault) := da_item c entries invalidities [] in
  Ok (rej, refunds, fault_count_loop (map snd fault) counters).

(* ================================================================== the tables *)
Inductive loop_id :=
| L_gauge_tally | L_gauge_results | L_gov_tally | L_da_safe_shards | L_da_fault_counters | L_blocked_addresses.

(* (file, enclosing function, hash of the normalised text of the range statement) -> model.
   The hash pins the model to the exact loop text it was written against: editing the loop
   (or the translator's normalisation) changes the hash and [sites_covered] stops computing
   to true until the model is re-read against the new text and the entry updated
   (notes/C14.md, "Updating the table"). *)
Definition proved_sites : list (string * string * Z * loop_id) := [
  ("x/liquidityincentive/keeper/keeper_tally.go", "Keeper.Tally", 28231371990367497, L_gauge_tally);
  ("x/liquidityincentive/keeper/keeper_tally.go", "NewTallyResultFromMap", 154059474737926502, L_gauge_results);
  ("app/gov/gov.go", "ProvideCalculateVoteResultsAndVotingPowerFn$lit", 1444318832345867, L_gov_tally);
  ("x/da/keeper/abci.go", "Keeper.TallyValidityProofs", 860863451144475297, L_da_safe_shards);
  ("x/da/keeper/abci.go", "Keeper.TallyValidityProofs", 857540022199497872, L_da_fault_counters);
  ("app/app.go", "BlockedAddresses", 410294359728355882, L_blocked_addresses)
]%string.

(* sites in consensus-zone files that were read and are not order-/time-/randomness-sensitive
   for block processing, with the reason; same key discipline (hash of the statement). *)
Definition reviewed_sites : list (string * string * kind * Z * string) := [
  ("app/ibc.go", "RegisterIBC", KMapRange, 8740173966820223,
   "client-side only (cmd/sunrised root command): registers interface types of six IBC modules into the interface registry, which is itself keyed by type URL; never called from app.New or block processing");
  ("x/da/types/shards.go", "GetRandomIndicesFromSeed", KRand, 889590861079030683,
   "rand.NewPCG(seed1, seed2): explicit seeds, seed1 = MiMC(validator address), seed2 = 1024; no global or time-seeded source");
  ("x/da/types/shards.go", "GetRandomIndicesFromSeed", KRand, 1092492510186236037,
   "rand.New(s3) wraps the explicitly seeded PCG source above");
  ("x/da/types/shards.go", "GetRandomIndicesFromSeed", KRand, 257857024759941619,
   "r3.Shuffle is a method of the explicitly seeded generator; a function of (n, seed) only");
  ("x/liquidityincentive/keeper/abci.go", "Keeper.BeginBlocker", KTime, 881718463905801463,
   "defer telemetry.ModuleMeasureSince(..., telemetry.Now(), ...): wall-clock duration goes to the metrics sink only, never to state, results or events");
  ("x/liquidityincentive/keeper/abci.go", "Keeper.EndBlocker", KTime, 227255994187712244,
   "defer telemetry.ModuleMeasureSince(..., telemetry.Now(), ...): metrics sink only");
  ("x/shareclass/keeper/abci.go", "Keeper.EndBlocker", KTime, 227255994187712244,
   "defer telemetry.ModuleMeasureSince(..., telemetry.Now(), ...): metrics sink only")
]%string.

(* code outside the loop bodies that the theorems' models include or rely on, pinned by hash of
   its normalised text: (file, function, what, hash).
   - the sort after NewTallyResultFromMap and everything else Keeper.Tally does with the slice
     (assign, sort, return): modelled by [tally_results];
   - everything TallyValidityProofs does with safeShardIndices (declare, append in the loop, take
     its length, pass it to checkCorrectInvalidity) and checkCorrectInvalidity itself: modelled by
     [da_rejected] / [check_correct_invalidity] in [da_item];
   - everything it does with faultValidators (declare, insert in the loop, range once). *)
Definition required_anchors : list (string * string * string * Z) := [
  ("x/liquidityincentive/keeper/keeper_tally.go", "Keeper.Tally", "sort:sort.SliceStable", 808125548425696040);
  ("x/liquidityincentive/keeper/keeper_tally.go", "Keeper.Tally", "uses:tallyResults", 653577715703955524);
  ("x/liquidityincentive/keeper/keeper_tally.go", "NewTallyResultFromMap", "func", 585944637192360590);
  ("x/da/keeper/abci.go", "Keeper.TallyValidityProofs", "uses:safeShardIndices", 1130165701143766888);
  ("x/da/keeper/abci.go", "Keeper.TallyValidityProofs", "uses:faultValidators", 77006775330500827);
  ("x/da/keeper/abci.go", "checkCorrectInvalidity", "func", 82986332870868567)
]%string.

Definition anchor_present (sites : list site) (a : string * string * string * Z) : bool :=
  let '(f, fn, what, h) := a in
  existsb (fun s => kind_eqb (s_kind s) KAnchor && String.eqb f (s_file s) && String.eqb fn (s_func s) &&
                    String.eqb what (s_detail s) && (h =? s_hash s)) sites.

(* zones outside block processing in which order-sensitive constructs are accepted unreviewed.
   generated-proto-runtime: only KGlobal sites get this zone, and only three exact shapes of
   *.pb.go files, recognised by type + name + absence of other writes (harness/trans/sites/globals.go):
   `xxx_messageInfo_<Msg> proto.InternalMessageInfo` (lazily built marshal table, a function of the
   message type alone), `_<Svc>_serviceDesc grpc.ServiceDesc` (only passed by address to the
   registrars), `<Enum>_name` / `<Enum>_value` (never written).
   Generated protobuf code (generated-proto) is deliberately NOT in this list: a map range in a
   Marshal method would be consensus relevant. *)
Definition accepted_zones : list string :=
  ["generated-gateway"; "generated-proto-runtime"; "simulation"; "cli"; "testutil"; "docs"; "cmd"]%string.

Definition str_mem (x : string) (l : list string) : bool := existsb (String.eqb x) l.

Definition in_proved (s : site) : bool :=
  existsb (fun e => let '(f, fn, h, _) := e in
             String.eqb f (s_file s) && String.eqb fn (s_func s) && (h =? s_hash s)) proved_sites.
Definition in_reviewed (s : site) : bool :=
  existsb (fun e => let '(f, fn, k, h, _) := e in
             String.eqb f (s_file s) && String.eqb fn (s_func s) && kind_eqb k (s_kind s) && (h =? s_hash s)) reviewed_sites.

Definition site_ok (s : site) : bool :=
  negb (is_unknown (s_kind s)) &&
  match s_zone s with
  | ZExcluded z => str_mem z accepted_zones || in_reviewed s
  | ZConsensus =>
      match s_kind s with
      | KMapRange => in_proved s || in_reviewed s
      | KAnchor => true
      | _ => in_reviewed s
      end
  end.
