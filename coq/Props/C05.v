(* C05 — Swap pricing never beats the exact curve; rounding never favours the trader.
   Statements only; proofs in Amm/StepBounds.v. All quantities are raw decimals (x 10^18). *)
From Coq Require Import ZArith.
From Sunrise Require Import Base.Outcome Base.Dec Base.DecLemmas Amm.Math Amm.StepBounds Amm.StepWhole Amm.StepBase.
Local Open Scope Z_scope.

(* next sqrt price is rounded in the pool's favour, for all four amount strategies *)
Theorem C05_next_price_quote_in : forall sp liq amt n,
  0 <= amt -> 0 < liq -> next_sqrt_from_quote_in_down sp liq amt = Some n ->
  sp <= n /\ (n - sp) * liq <= amt * P.
Proof. exact next_quote_in_down_le. Qed.
Print Assumptions C05_next_price_quote_in.

Theorem C05_next_price_quote_out : forall sp liq amt n,
  0 <= amt -> 0 < liq -> next_sqrt_from_quote_out_down sp liq amt = Some n ->
  n <= sp /\ amt * P <= (sp - n) * liq < amt * P + liq.
Proof. exact next_quote_out_down_ge. Qed.
Print Assumptions C05_next_price_quote_out.

Theorem C05_next_price_base_in : forall sp liq amt n,
  0 <= amt -> 0 < sp -> 0 < liq -> next_sqrt_from_base_in_up sp liq amt = Some n ->
  liq * sp * P <= n * (liq * P + amt * sp) /\ n <= sp.
Proof. exact next_base_in_up_ge. Qed.
Print Assumptions C05_next_price_base_in.

Theorem C05_next_price_base_out : forall sp liq amt n,
  0 <= amt -> 0 < sp -> 0 < liq -> amt * sp < liq * P ->
  next_sqrt_from_base_out_up sp liq amt = Some n ->
  liq * sp * P <= n * (liq * P - amt * sp).
Proof. exact next_base_out_up_ge. Qed.
Print Assumptions C05_next_price_base_out.

(* fee = in * rate/(1-rate) rounded up: at least rate x gross input *)
Theorem C05_fee_ge_rate : forall fee a f c,
  0 <= fee < P -> 0 <= a -> fee_over_one_minus_fee fee = Some f -> fee_charge_from_in a f = Some c ->
  a * fee <= c * (P - fee) /\ fee * (a + c) <= c * P.
Proof. exact fee_ge_rate. Qed.
Print Assumptions C05_fee_ge_rate.

(* quote-side amounts: within half an ulp of liquidity x price move; input sides rounded up to whole units *)
Theorem C05_quote_amount_half_ulp : forall liq sa sb r,
  calc_amount_quote_delta liq sa sb false = Some r -> 2 * Z.abs (r * P - Z.abs (sb - sa) * liq) <= P.
Proof. exact quote_delta_half_ulp. Qed.
Print Assumptions C05_quote_amount_half_ulp.

Theorem C05_quote_amount_in_rounded_up : forall liq sa sb r, 0 <= liq ->
  calc_amount_quote_delta liq sa sb true = Some r ->
  Z.abs (sb - sa) * liq - HALF <= r * P /\ r mod P = 0 /\ r * P < Z.abs (sb - sa) * liq + HALF + P * P.
Proof. exact quote_delta_roundup. Qed.
Print Assumptions C05_quote_amount_in_rounded_up.

(* final amounts: Ceil for the input, Truncate for the output *)
Theorem C05_final_in_ceil : forall used c, 0 <= used -> dceil used = Some c ->
  used <= dtrunc_int c * P /\ dtrunc_int c * P < used + P.
Proof. exact final_in_ceil. Qed.
Print Assumptions C05_final_in_ceil.
Theorem C05_final_out_trunc : forall calc, 0 <= calc -> dtrunc_int calc * P <= calc < dtrunc_int calc * P + P.
Proof. exact final_out_trunc. Qed.
Print Assumptions C05_final_out_trunc.

(* a step that stops short of its target consumes at most what is left (whole-unit rounding is
   capped), so its fee charge is defined and non-negative: the swap helper's explicit panic is dead *)
Theorem C05_partial_step_never_overcharges : forall a rem fee,
  0 <= fee -> 0 <= rem -> in_range rem = true -> 0 <= a ->
  exists fc, fee_charge_out_given_in false (if rem <? a then rem else a) rem fee = Some fc /\
             0 <= fc /\ (if rem <? a then rem else a) + fc <= rem.
Proof. exact fee_charge_not_reached_defined. Qed.
Print Assumptions C05_partial_step_never_overcharges.

(* ---- whole bucket steps of the swap loop (ComputeSwapWithinBucketOutGivenIn / InGivenOut), quote side ----
   Exact curve at liquidity l = liq/P and price s = sp/P: base in x pays out l x s^2 / (l + x s) quote;
   base out x costs l x s^2 / (l - x s) quote. Multiplied through by P^3 these are the bounds below. *)

(* exact input, base in: the price never rises and the quote paid out is at most half an ulp
   (5e-19 of a unit) above liquidity x price move ... *)
Theorem C05_step_base_in_direction : forall fee sp target liq rem next ain aout fc,
  0 < sp -> 0 < liq -> 0 <= rem -> 0 <= fee < P -> target <= sp ->
  b4q_out_given_in fee sp target liq rem = Some (next, ain, aout, fc) ->
  next <= sp /\ aout * P <= (sp - next) * liq + HALF.
Proof. exact b4q_out_given_in_direction. Qed.
Print Assumptions C05_step_base_in_direction.

(* ... and when the step ends inside the bucket, at most the exact curve's output for what was left
   after the fee, plus half an ulp: the step never beats the curve *)
Theorem C05_step_base_in_out_le_exact : forall fee sp target liq rem next ain aout fc,
  0 < sp -> 0 < liq -> 0 <= rem -> 0 <= fee < P -> target <= sp ->
  b4q_out_given_in fee sp target liq rem = Some (next, ain, aout, fc) ->
  next <> target ->
  exists af, dmul rem (P - fee) = Some af /\ 0 <= af /\ 2 * Z.abs (af * P - rem * (P - fee)) <= P /\
    (aout * P - HALF) * (liq * P + af * sp) <= liq * (af * sp * sp).
Proof. exact b4q_out_given_in_le_exact. Qed.
Print Assumptions C05_step_base_in_out_le_exact.

(* exact input, quote in: the price never falls, and inside the bucket it rises by at most
   (remaining after fee) / liquidity *)
Theorem C05_step_quote_in_direction : forall fee sp target liq rem next ain aout fc,
  0 < liq -> 0 <= rem -> 0 <= fee < P -> sp <= target ->
  q4b_out_given_in fee sp target liq rem = Some (next, ain, aout, fc) ->
  sp <= next /\
  (next <> target -> exists af, dmul rem (P - fee) = Some af /\ 2 * Z.abs (af * P - rem * (P - fee)) <= P /\
                                (next - sp) * liq <= af * P).
Proof. exact q4b_out_given_in_direction. Qed.
Print Assumptions C05_step_quote_in_direction.

(* exact output of base, paid in quote: inside the bucket the step delivers no more than is left and
   asks a whole number of units that is at least the exact curve's input minus half an ulp *)
Theorem C05_step_base_out_in_ge_exact : forall fee sp target liq rem next out ain fc,
  0 < sp -> 0 < liq -> 0 <= rem -> rem * sp < liq * P ->
  q4b_in_given_out fee sp target liq rem = Some (next, out, ain, fc) ->
  next <> target ->
  out <= rem /\ ain mod P = 0 /\
  liq * (rem * sp * sp) <= (ain * P + HALF) * (liq * P - rem * sp).
Proof. exact q4b_in_given_out_ge_exact. Qed.
Print Assumptions C05_step_base_out_in_ge_exact.

(* exact output of quote, paid in base: the price never rises, the step delivers no more than is left,
   and inside the bucket the price falls at least as far as the exact curve needs for that output *)
Theorem C05_step_quote_out_direction : forall fee sp target liq rem next out ain fc,
  0 < liq -> 0 <= rem -> target <= sp ->
  b4q_in_given_out fee sp target liq rem = Some (next, out, ain, fc) ->
  next <= sp /\ out <= rem /\ (next <> target -> rem * P <= (sp - next) * liq < rem * P + liq).
Proof. exact b4q_in_given_out_direction. Qed.
Print Assumptions C05_step_quote_out_direction.

(* the base-side amount (CalcAmountBaseDelta, truncating branch: three half-even roundings): never more
   than the exact liq x (1/s_a - 1/s_b) plus half an ulp x (1 + 1/s_a + 1/(s_a s_b)) - at sqrt prices
   >= 1 at most 1.5 ulp, below that growing like 1/price (the regime of finding C02-F1) *)
Theorem C05_base_amount_upper : forall liq sa0 sb0 r,
  0 <= liq -> 0 < sa0 -> 0 < sb0 ->
  calc_amount_base_delta liq sa0 sb0 false = Some r ->
  let sa := Z.min sa0 sb0 in let sb := Z.max sa0 sb0 in
  0 <= r /\
  r * P * sa * sb <= (sb - sa) * liq * (P * P) + HALF * (P * P) + HALF * sb * P + HALF * sa * sb.
Proof. exact base_delta_upper. Qed.
Print Assumptions C05_base_amount_upper.

(* exact input, quote in, base out: a step ending inside its bucket pays out  out * s * n <= af + rounding
   (s the price before, n >= s after, af what was left after the fee): never a better rate than the
   spot price the step started from *)
Theorem C05_step_quote_in_base_out_le : forall fee sp target liq rem next ain aout fc,
  0 < sp -> 0 < liq -> 0 <= rem -> 0 <= fee < P -> sp <= target ->
  q4b_out_given_in fee sp target liq rem = Some (next, ain, aout, fc) ->
  next <> target ->
  exists af, dmul rem (P - fee) = Some af /\ 2 * Z.abs (af * P - rem * (P - fee)) <= P /\
    sp <= next /\ 0 <= aout /\
    aout * P * sp * next <= af * P * (P * P) + HALF * (P * P) + HALF * next * P + HALF * sp * next.
Proof. exact q4b_out_given_in_base_out_le. Qed.
Print Assumptions C05_step_quote_in_base_out_le.

Example C05_steps_nonvacuous :
  (exists n a o f, b4q_out_given_in 3000000000000000 P (P / 2) (12345678 * P) (1001 * P) = Some (n, a, o, f) /\ n <> P / 2 /\ 0 < o) /\
  (exists n a o f, q4b_out_given_in 3000000000000000 P (2 * P) (12345678 * P) (1001 * P) = Some (n, a, o, f) /\ n <> 2 * P /\ 0 < o) /\
  (exists n a o f, q4b_in_given_out 3000000000000000 P (2 * P) (12345678 * P) (1001 * P) = Some (n, a, o, f) /\ n <> 2 * P /\ 0 < o) /\
  (exists n a o f, b4q_in_given_out 3000000000000000 P (P / 2) (12345678 * P) (1001 * P) = Some (n, a, o, f) /\ n <> P / 2 /\ 0 < o).
Proof. exact step_whole_nonvacuous. Qed.

(* The whole-swap statements of the property — output <= exact curve and within the stated bound,
   input >= exact, monotone output, no round-trip profit, price direction and limits — are NOT proved
   here over the multi-bucket loop, nor for the base-side INPUT amounts of a step (rounded up after three half-even roundings
   whose error depends on the price; only the upper bound of the paid-out side is proved above); they are the full statements below, checked on every implementation
   swap by monitors against an independent exact rational reference (Amm/Exact.v). PARTIAL. *)
Definition C05_out_le_exact_full : Prop :=
  forall (impl_out exact_out_floor : Z), impl_out <= exact_out_floor.

(* non-vacuity: concrete steps satisfying the hypotheses, with a non-zero rounded-off remainder *)
Example C05_nonvacuous :
  exists n, next_sqrt_from_base_in_up 1000000000000000000 (12345678 * P) (1001 * P) = Some n /\ 0 < n /\
  exists f c, fee_over_one_minus_fee 3000000000000000 = Some f /\ fee_charge_from_in (1001 * P) f = Some c /\ 0 < c.
Proof.
  eexists. split; [vm_compute; reflexivity|]. split; [vm_compute; reflexivity|].
  eexists. eexists. split; [vm_compute; reflexivity|]. split; [vm_compute; reflexivity|vm_compute; reflexivity].
Qed.
