(* Swaps and the bookkeeping invariant: a swap never changes positions, tick gross/net
   liquidity, the set of initialised ticks or the accumulator shares; it moves only the
   cursor (tick, sqrt price, active liquidity) and per-tick fee growth. *)
From Coq Require Import ZArith Bool List Lia Sorted ZifyBool.
Import ListNotations.
From Sunrise Require Import Base.Outcome Base.Dec Base.DecLemmas Amm.Math Amm.Pool Amm.LiqDefs Amm.LiqLists Amm.LiqInv.
Local Open Scope Z_scope.

Definition same_shape (ts0 ts : list tick) : Prop :=
  (forall t, stored_gross ts t = stored_gross ts0 t) /\
  (forall t, stored_net ts t = stored_net ts0 t) /\
  (forall t, (exists x, find_tick ts t = Some x) <-> (exists x, find_tick ts0 t = Some x)) /\
  (StronglySorted tick_lt ts0 -> StronglySorted tick_lt ts).

Lemma same_shape_refl ts : same_shape ts ts.
Proof. repeat split; auto. Qed.

Lemma same_shape_put ts0 ts i cur g :
  same_shape ts0 ts -> find_tick ts i = Some cur ->
  same_shape ts0 (put_tick ts {| t_index := i; t_gross := t_gross cur; t_net := t_net cur; t_growth := g |}).
Proof.
  intros (G & N & F & S) Hf. repeat split.
  - intros t. rewrite stored_gross_put. cbn [t_index t_gross]. destruct (Z.eqb_spec t i) as [->|E]; [|apply G].
    rewrite <- G. unfold stored_gross. rewrite Hf. reflexivity.
  - intros t. rewrite stored_net_put. cbn [t_index t_net]. destruct (Z.eqb_spec t i) as [->|E]; [|apply N].
    rewrite <- N. unfold stored_net. rewrite Hf. reflexivity.
  - intros [x Hx]. rewrite find_put_tick in Hx. cbn [t_index] in Hx. apply F.
    destruct (Z.eqb_spec t i) as [->|E]; [exists cur; exact Hf|exists x; exact Hx].
  - intros Hx. apply F in Hx. destruct Hx as [x Hx]. rewrite find_put_tick. cbn [t_index].
    destruct (t =? i); eexists; [reflexivity|exact Hx].
  - intros H0. apply sorted_put_tick. apply S. exact H0.
Qed.

Lemma find_tick_some_index l i x : find_tick l i = Some x -> t_index x = i.
Proof.
  induction l as [|y l IH]; cbn [find_tick]; [discriminate|].
  destruct (Z.eqb_spec (t_index y) i); [intros H; injection H as <-; assumption|exact IH].
Qed.

Lemma swap_loop_shape fuel : forall exact_in b4q upd fee limit tp accv din iter st ts0 st',
  same_shape ts0 (ss_ticks st) ->
  Forall (fun x => exists y, find_tick (ss_ticks st) (t_index x) = Some y) iter ->
  swap_loop fuel exact_in b4q upd fee limit tp accv din iter st = Ok st' ->
  same_shape ts0 (ss_ticks st').
Proof.
  induction fuel as [|f IH]; intros exact_in b4q upd fee limit tp accv din iter st ts0 st' Hsh Hit H;
    cbn [swap_loop] in H.
  - destruct (negb ((0 <? ss_remaining st) && negb (ss_sqrt st =? limit))); [|discriminate].
    injection H as <-. exact Hsh.
  - destruct (negb ((0 <? ss_remaining st) && negb (ss_sqrt st =? limit))); [injection H as <-; exact Hsh|].
    destruct iter as [|nt iter']; [discriminate|].
    inversion Hit as [|? ? [y Hy] Hit']; subst.
    repeat step_res H;
    match goal with
    | H : swap_loop f _ _ _ _ _ _ _ _ ?it ?stn = Ok st' |- _ => eapply (IH _ _ _ _ _ _ _ _ it stn ts0 st'); [| |exact H]
    end; cbn [ss_ticks];
    repeat match goal with
    | E : (if ?c then _ else _) = Ok _ |- _ => destruct c; try discriminate E
    | E : rbind ?c _ = Ok _ |- _ => let v := fresh "v" in let Ev := fresh "Ev" in
          destruct c as [v| |] eqn:Ev; cbn [rbind] in E; try discriminate E
    end;
    try (rewrite Hy in *);
    repeat match goal with
    | E : Ok _ = Ok _ |- _ => injection E; clear E; intros; subst
    end;
    try exact Hsh; try exact Hit'; try exact Hit;
    try (apply same_shape_put; [exact Hsh|exact Hy]);
    try (eapply Forall_impl; [|exact Hit']; cbn beta; intros aa [zz Hzz]; rewrite find_put_tick; cbn [t_index];
         destruct (t_index aa =? t_index nt); eexists; [reflexivity|exact Hzz]).
Qed.

Lemma in_find_tick_sorted l x : StronglySorted tick_lt l -> In x l -> find_tick l (t_index x) = Some x.
Proof.
  intros H. induction H as [|y l Hs IH Hall]; [intros []|]. cbn [find_tick]. intros [->|Hin].
  - rewrite Z.eqb_refl. reflexivity.
  - rewrite Forall_forall in Hall. specialize (Hall _ Hin). unfold tick_lt in Hall.
    destruct (Z.eqb_spec (t_index y) (t_index x)); [lia|]. apply IH. exact Hin.
Qed.

Lemma iter_ticks_present b4q l cur : StronglySorted tick_lt l ->
  Forall (fun x => exists y, find_tick l (t_index x) = Some y) (iter_ticks b4q l cur).
Proof.
  intros Hs. apply Forall_forall. intros x Hx. exists x. apply in_find_tick_sorted; [assumption|].
  unfold iter_ticks in Hx. destruct b4q.
  - apply in_rev in Hx. apply filter_In in Hx. tauto.
  - apply filter_In in Hx. tauto.
Qed.

Lemma compute_swap_shape s ei di do_ sp fee ml upd r :
  StronglySorted tick_lt (a_ticks s) ->
  compute_swap s ei di do_ sp fee ml upd = Ok r -> same_shape (a_ticks s) (sr_ticks r).
Proof.
  intros Hs H. unfold compute_swap in H. repeat step_res H.
  all: match goal with E : swap_loop _ _ _ _ _ _ _ _ _ _ ?st0 = Ok ?st |- _ =>
         assert (Hsh : same_shape (a_ticks s) (ss_ticks st))
           by (eapply swap_loop_shape; [| |exact E]; cbn [ss_ticks]; [apply same_shape_refl|apply iter_ticks_present; exact Hs]) end.
  all: injection H as <-; cbn [sr_ticks]; exact Hsh.
Qed.

Lemma cond_send_same_book (c : bool) a from to d amt b :
  (if c then Ok a else send_one_raw a from to d amt) = Ok b -> same_book a b.
Proof. destruct c; [intros H; injection H as <-; apply same_book_refl|apply send_one_raw_same_book]. Qed.

Theorem swap_bookkeeping s ei di do_ sp fe s' i o :
  StronglySorted tick_lt (a_ticks s) ->
  swap s ei di do_ sp fe = Ok (s', i, o) ->
  a_positions s' = a_positions s /\ a_next_id s' = a_next_id s /\ a_acc_shares s' = a_acc_shares s /\
  same_shape (a_ticks s) (a_ticks s').
Proof.
  intros Hs H. unfold swap in H. repeat step_res H.
  match goal with E : compute_swap _ _ _ _ _ _ _ _ = Ok ?r |- _ =>
    pose proof (compute_swap_shape _ _ _ _ _ _ _ _ _ Hs E) as Hsh end.
  injection H as <- _ _; cbn [a_positions a_next_id a_acc_shares a_ticks set_pool].
  repeat match goal with
  | E : (if _ then Ok _ else send_one_raw _ _ _ _ _) = Ok _ |- _ =>
      let Hb := fresh "Hb" in pose proof (cond_send_same_book _ _ _ _ _ _ _ E) as Hb; clear E
  | E : send_one_raw ?a _ _ _ _ = Ok ?b |- _ =>
      let Hb := fresh "Hb" in pose proof (send_one_raw_same_book _ _ _ _ _ _ E) as Hb; clear E
  end.
  repeat match goal with Hb : same_book _ _ |- _ => destruct Hb as (?&?&?&?&?) end.
  cbn [a_positions a_next_id a_acc_shares a_ticks set_acc set_ticks] in *.
  destruct Hsh as (G&N&F&S).
  assert (Ht : a_ticks x4 = sr_ticks x) by congruence.
  rewrite Ht. repeat split; try congruence; try assumption; try apply F.
Qed.

Lemma swap_needs_position s ei di do_ sp fe r : swap s ei di do_ sp fe = Ok r -> has_position (a_pool s) = true.
Proof.
  unfold swap. intros H. repeat step_res H.
  match goal with E : compute_swap _ _ _ _ _ _ _ _ = Ok _ |- _ => unfold compute_swap in E;
    destruct (has_position (a_pool s)); [reflexivity|discriminate E] end.
Qed.

(* Clause (1) and the cursor after a swap. The swap loop recomputes the tick from the price
   (CalculateSqrtPriceToTick) when it stops inside a bucket; that the recomputed tick lies in the
   bucket the loop was walking needs monotonicity of the tick->price map, which is not proved for
   arbitrary tick parameters: it is the explicit hypothesis [cursor_consistent] below (checked by the
   run-time monitor on every implementation state). Everything else is unconditional. *)
Definition cursor_consistent (s' : amm) : Prop :=
  p_liq (a_pool s') = active (a_positions s') (p_tick (a_pool s')) /\ has_position (a_pool s') = true.

Theorem swap_inv_partial s ei di do_ sp fe s' i o :
  Inv s -> swap s ei di do_ sp fe = Ok (s', i, o) -> cursor_consistent s' -> Inv s'.
Proof.
  intros [[Hc Hp] Hst] H [Hact Hhp].
  pose proof (swap_needs_position _ _ _ _ _ _ _ H) as Hhp0.
  destruct Hc as [H1 H2 H3 H4 H5 H6 H7 H8 H9 H10].
  destruct (swap_bookkeeping _ _ _ _ _ _ _ _ _ H4 H) as (P & N & A & (G & Nt & F & S)).
  split; [split|].
  - constructor; rewrite ?P, ?N, ?A; try assumption.
    + apply S; assumption.
    + intros t. rewrite G. apply H5.
    + intros t. rewrite Nt. apply H6.
    + rewrite <- P. exact Hact.
    + intros Hemp. destruct (H9 Hemp) as [E1 E2]. unfold has_position in Hhp0. rewrite E1, E2 in Hhp0. discriminate.
    + intros _. exact Hhp.
  - intros t x Hx. rewrite P. destruct (proj1 (F t) (ex_intro _ x Hx)) as [y Hy]. eapply Hp; eassumption.
  - unfold StrictPos. rewrite P. exact Hst.
Qed.

(* ---- the whole state machine ---- *)
Definition swap_side (s : amm) (o : op) : Prop :=
  match o with
  | OSwap _ _ _ _ => cursor_consistent (fst (step s o))
  | _ => True
  end.

Theorem step_inv s o : Inv s -> swap_side s o -> Inv (fst (step s o)).
Proof.
  intros Hi Hside. unfold step. destruct o as [sender lo up b q mb mq|sender pid b q mb mq|sender pid l|sender ids|ei di do_ sp|coins].
  - destruct (create_position s sender lo up b q mb mq) as [[s' [[[id ab] aq] l]]| |] eqn:E; cbn; try exact Hi.
    eapply create_position_inv; eassumption.
  - destruct (increase_liquidity s sender pid b q mb mq) as [[s' [[[id ab] aq] l]]| |] eqn:E; cbn; try exact Hi.
    eapply increase_liquidity_inv; eassumption.
  - destruct (decrease_liquidity s sender pid l) as [[[s' b] q]| |] eqn:E; cbn; try exact Hi.
    eapply decrease_liquidity_inv; eassumption.
  - destruct (msg_claim_rewards s sender ids) as [[s' c]| |] eqn:E; cbn; try exact Hi.
    eapply same_book_Inv; [eapply msg_claim_same_book; eassumption|exact Hi].
  - destruct (swap s ei di do_ sp true) as [[[s' i] o']| |] eqn:E; cbn; try exact Hi.
    eapply swap_inv_partial; [exact Hi|exact E|].
    unfold swap_side, step in Hside. rewrite E in Hside. exact Hside.
  - destruct (allocate_incentive s coins) as [s'| |] eqn:E; cbn; try exact Hi.
    eapply same_book_Inv; [eapply allocate_same_book; eassumption|exact Hi].
Qed.

Fixpoint run (s : amm) (ops : list op) : amm :=
  match ops with [] => s | o :: tl => run (fst (step s o)) tl end.
Fixpoint sides (s : amm) (ops : list op) : Prop :=
  match ops with [] => True | o :: tl => swap_side s o /\ sides (fst (step s o)) tl end.

Theorem reach_inv ops : forall s, Inv s -> sides s ops -> Inv (run s ops).
Proof.
  induction ops as [|o tl IH]; cbn [run sides]; intros s Hi Hs; [exact Hi|].
  destruct Hs as [H1 H2]. apply IH; [apply step_inv; assumption|exact H2].
Qed.

(* position operations alone (no swap): unconditional *)
Definition no_swap (o : op) : bool := match o with OSwap _ _ _ _ => false | _ => true end.
Theorem reach_inv_positions ops : forall s, Inv s -> forallb no_swap ops = true -> Inv (run s ops).
Proof.
  induction ops as [|o tl IH]; cbn [run forallb]; intros s Hi Hs; [exact Hi|].
  apply andb_prop in Hs. destruct Hs as [H1 H2]. apply IH; [|exact H2].
  apply step_inv; [exact Hi|]. destruct o; try exact I. discriminate.
Qed.
