// sites: static enumeration of every order-/time-/randomness-/scheduling-/pointer-/float-
// sensitive construct in the sunrise packages reachable from package app (property C14).
//
// Output: a Coq file (coq/Gen/Sites_gen.v) defining `sites : list site`. Every site carries
// the file, the enclosing function, the kind, the zone (consensus code or an excluded area with
// the reason), a 60-bit hash of the whitespace-normalised go/printer text of the construct (for a
// map range: the whole range statement including its body) and a detail string.
//
// The translator fails closed: a range statement whose operand has no type information, a range
// over a type parameter without a core type, a package with type errors, a file that does not
// parse — all are emitted as KUnknown sites, which the coverage theorem rejects.
package main

import (
	"bytes"
	"crypto/sha256"
	"flag"
	"fmt"
	"go/ast"
	"go/printer"
	"go/token"
	"go/types"
	"os"
	"path/filepath"
	"sort"
	"strings"

	"golang.org/x/tools/go/packages"
)

const modPath = "github.com/sunriselayer/sunrise"

type site struct {
	File, Func, Kind, Zone, Detail string
	Hash                           uint64
	Line                           int
}

var (
	sites []site
	repo  string
)

// Anchors: code that the order-independence arguments lean on OUTSIDE the loop bodies. Each is
// emitted as a KAnchor site with a hash; Sys/Determinism.v lists the hashes it was written
// against (required_anchors), so removing or editing an anchor breaks a proof obligation.
//   - every call of a sort function is an anchor automatically ("sort:<callee>");
//   - funcAnchors: whole functions ("func");
//   - varAnchors: every statement or loop/branch header of a function that mentions a variable,
//     in source order ("uses:<var>") — pins what the slice filled in map order is used for.
var funcAnchors = map[string]bool{
	"x/da/keeper/abci.go|checkCorrectInvalidity":                          true,
	"x/liquidityincentive/keeper/keeper_tally.go|NewTallyResultFromMap": true,
}
var varAnchors = map[string][]string{
	"x/da/keeper/abci.go|Keeper.TallyValidityProofs":           {"safeShardIndices", "faultValidators"},
	"x/liquidityincentive/keeper/keeper_tally.go|Keeper.Tally": {"tallyResults"},
}
var anchorsSeen = map[string]bool{}

func zoneOf(rel string) string {
	base := filepath.Base(rel)
	switch {
	case strings.HasSuffix(base, ".pb.gw.go"):
		return "generated-gateway" // REST gateway of the query services: client-facing only
	case strings.HasSuffix(base, ".pb.go"), strings.HasSuffix(base, ".pulsar.go"):
		return "generated-proto" // message codecs: consensus relevant, nothing is accepted here unreviewed
	case strings.Contains("/"+rel, "/simulation/"), base == "simulation.go":
		return "simulation"
	case strings.Contains("/"+rel, "/client/cli/"):
		return "cli"
	case strings.Contains("/"+rel, "/testutil/"):
		return "testutil"
	case strings.HasPrefix(rel, "docs/"):
		return "docs"
	case strings.HasPrefix(rel, "cmd/"):
		return "cmd"
	}
	return ""
}

func norm(fset *token.FileSet, n ast.Node) string {
	var buf bytes.Buffer
	if err := printer.Fprint(&buf, fset, n); err != nil {
		return "<<unprintable>>"
	}
	return strings.Join(strings.Fields(buf.String()), " ")
}

func hash60(s string) uint64 {
	h := sha256.Sum256([]byte(s))
	var x uint64
	for i := 0; i < 8; i++ {
		x = x<<8 | uint64(h[i])
	}
	return x >> 4
}

func short(s string, n int) string {
	if len(s) > n {
		return s[:n] + "..."
	}
	return s
}

func funcName(stack []ast.Node) string {
	name := "<file scope>"
	lits := 0
	for _, n := range stack {
		switch f := n.(type) {
		case *ast.FuncDecl:
			name = f.Name.Name
			if f.Recv != nil && len(f.Recv.List) > 0 {
				t := f.Recv.List[0].Type
				if st, ok := t.(*ast.StarExpr); ok {
					t = st.X
				}
				if ix, ok := t.(*ast.IndexExpr); ok {
					t = ix.X
				}
				if id, ok := t.(*ast.Ident); ok {
					name = id.Name + "." + name
				}
			}
			lits = 0
		case *ast.FuncLit:
			lits++
		}
	}
	if lits > 0 {
		name += strings.Repeat("$lit", 1) // one marker whatever the nesting depth: stable under refactoring
	}
	return name
}

func isFloat(t types.Type) bool {
	if t == nil {
		return false
	}
	b, ok := t.Underlying().(*types.Basic)
	if !ok {
		return false
	}
	switch b.Kind() {
	case types.Float32, types.Float64, types.Complex64, types.Complex128:
		return true
	}
	return false
}

var wallClock = map[string]bool{"Now": true, "Since": true, "Until": true, "After": true, "AfterFunc": true,
	"Tick": true, "NewTicker": true, "NewTimer": true, "Sleep": true}

func rel(fset *token.FileSet, pos token.Pos) (string, int) {
	p := fset.Position(pos)
	r, err := filepath.Rel(repo, p.Filename)
	if err != nil {
		r = p.Filename
	}
	return filepath.ToSlash(r), p.Line
}

// mutatesRanged reports whether the body of a range over identifier x assigns to x[...],
// deletes from x or re-assigns x: Go then leaves it unspecified whether new entries are visited.
func mutatesRanged(info *types.Info, rs *ast.RangeStmt) bool {
	var isX func(e ast.Expr) bool
	if id, ok := rs.X.(*ast.Ident); ok {
		obj := info.Uses[id]
		if obj == nil {
			return true // cannot tell: fail closed
		}
		isX = func(e ast.Expr) bool {
			i, ok := e.(*ast.Ident)
			return ok && info.Uses[i] == obj
		}
	} else {
		// a field or call result: compare by printed text
		want := exprText(rs.X)
		isX = func(e ast.Expr) bool { return exprText(e) == want }
	}
	found := false
	ast.Inspect(rs.Body, func(n ast.Node) bool {
		switch s := n.(type) {
		case *ast.AssignStmt:
			for _, l := range s.Lhs {
				if ix, ok := l.(*ast.IndexExpr); ok && isX(ix.X) {
					found = true
				}
				if isX(l) {
					found = true
				}
			}
		case *ast.IncDecStmt:
			if ix, ok := s.X.(*ast.IndexExpr); ok && isX(ix.X) {
				found = true
			}
		case *ast.CallExpr:
			if f, ok := s.Fun.(*ast.Ident); ok && f.Name == "delete" && len(s.Args) > 0 && isX(s.Args[0]) {
				found = true
			}
		}
		return true
	})
	return found
}

func hasValueMethod(t types.Type, name string) bool {
	ms := types.NewMethodSet(t)
	for i := 0; i < ms.Len(); i++ {
		if ms.At(i).Obj().Name() == name {
			return true
		}
	}
	return false
}

func holdsPointer(t types.Type, depth int) bool {
	switch u := t.Underlying().(type) {
	case *types.Pointer, *types.Chan, *types.Signature:
		return true
	case *types.Basic:
		return u.Kind() == types.UnsafePointer || u.Kind() == types.Uintptr
	case *types.Struct:
		if depth > 3 {
			return false
		}
		for i := 0; i < u.NumFields(); i++ {
			ft := u.Field(i).Type()
			if _, isIface := ft.Underlying().(*types.Interface); isIface {
				// an interface field usually holds a pointer (oneof wrappers, keepers)
				if !hasValueMethod(ft, "Error") {
					return true
				}
				continue
			}
			if _, isPtr := ft.Underlying().(*types.Pointer); isPtr {
				// fmt prints &{...} for a pointer to struct only at depth 0; nested it prints the address
				return true
			}
			if holdsPointer(ft, depth+1) {
				return true
			}
		}
	case *types.Array:
		return holdsPointer(u.Elem(), depth+1)
	case *types.Slice:
		if depth > 3 {
			return false
		}
		return holdsPointerElem(u.Elem(), depth+1)
	}
	return false
}

func holdsPointerElem(t types.Type, depth int) bool {
	if p, ok := t.Underlying().(*types.Pointer); ok {
		// []*T prints addresses unless *T is a Stringer
		return !hasValueMethod(p, "String") && !hasValueMethod(p, "Error")
	}
	if hasValueMethod(t, "String") || hasValueMethod(t, "Error") {
		return false
	}
	return holdsPointer(t, depth)
}

// printsAddress: a non-pointer struct (or array / slice of such) value that fmt walks field by
// field and that contains a pointer somewhere below the top level.
func printsAddress(t types.Type) bool {
	if _, isPtr := t.Underlying().(*types.Pointer); isPtr {
		return false // &{...} at top level, or the pointer type's own String method
	}
	if _, isIface := t.Underlying().(*types.Interface); isIface {
		return false // dynamic type unknown
	}
	if hasValueMethod(t, "String") || hasValueMethod(t, "Error") || hasValueMethod(t, "Format") || hasValueMethod(t, "GoString") {
		return false
	}
	switch t.Underlying().(type) {
	case *types.Struct, *types.Array, *types.Slice:
		return holdsPointer(t, 0)
	}
	return false
}

// concurrencyPkg: libraries whose purpose is to run or coordinate goroutines.
func concurrencyPkg(path string) bool {
	for _, p := range []string{"golang.org/x/sync/", "github.com/sourcegraph/conc", "go.uber.org/atomic",
		"github.com/panjf2000/ants", "github.com/gammazero/workerpool"} {
		if strings.HasPrefix(path, p) {
			return true
		}
	}
	return false
}

func exprText(e ast.Expr) string {
	var buf bytes.Buffer
	if err := printer.Fprint(&buf, token.NewFileSet(), e); err != nil {
		return "<<unprintable>>"
	}
	return strings.Join(strings.Fields(buf.String()), " ")
}

func scanFile(pkg *packages.Package, f *ast.File) {
	fset := pkg.Fset
	info := pkg.TypesInfo
	file, _ := rel(fset, f.Pos())
	zone := zoneOf(file)
	add := func(stack []ast.Node, n ast.Node, kind, detail string, hashed ast.Node) {
		_, line := rel(fset, n.Pos())
		sites = append(sites, site{File: file, Func: funcName(stack), Kind: kind, Zone: zone,
			Detail: short(detail, 120), Hash: hash60(norm(fset, hashed)), Line: line})
	}
	floatSeen := map[string]bool{}
	var stack []ast.Node
	// enclosing statement of the current node (for hashing call sites with their context)
	enclosingStmt := func() ast.Node {
		for i := len(stack) - 1; i >= 0; i-- {
			if s, ok := stack[i].(ast.Stmt); ok {
				if _, isBlock := s.(*ast.BlockStmt); !isBlock {
					return s
				}
			}
		}
		return stack[len(stack)-1]
	}
	ast.Inspect(f, func(n ast.Node) bool {
		if n == nil {
			stack = stack[:len(stack)-1]
			return true
		}
		stack = append(stack, n)
		switch x := n.(type) {
		case *ast.FuncDecl:
			key := file + "|" + funcName(stack)
			if funcAnchors[key] {
				anchorsSeen[key] = true
				add(stack, x, "KAnchor", "func", x)
			}
			for _, v := range varAnchors[key] {
				if txt, ok := varUses(fset, info, x, v); ok {
					anchorsSeen[key+"|"+v] = true
					_, line := rel(fset, x.Pos())
					sites = append(sites, site{File: file, Func: funcName(stack), Kind: "KAnchor", Zone: zone,
						Detail: "uses:" + v, Hash: hash60(txt), Line: line})
				}
			}
		case *ast.RangeStmt:
			tv, ok := info.Types[x.X]
			if !ok || tv.Type == nil {
				add(stack, x, "KUnknown", "range over expression without type information: "+norm(fset, x.X), x)
				break
			}
			t := tv.Type
			if tp, ok := t.(*types.TypeParam); ok {
				_ = tp
				add(stack, x, "KUnknown", "range over a type parameter: "+norm(fset, x.X), x)
				break
			}
			switch u := t.Underlying().(type) {
			case *types.Map:
				if mutatesRanged(info, x) {
					add(stack, x, "KUnknown", "map range whose body mutates the ranged map: "+norm(fset, x.X), x)
				} else {
					add(stack, x, "KMapRange", norm(fset, x.X)+" : "+types.TypeString(t, func(p *types.Package) string { return p.Name() }), x)
				}
			case *types.Signature:
				add(stack, x, "KRangeFunc", "range over function iterator "+norm(fset, x.X), x)
			case *types.Slice, *types.Array, *types.Basic, *types.Chan:
				_ = u
				if _, isChan := u.(*types.Chan); isChan {
					add(stack, x, "KSelect", "range over channel "+norm(fset, x.X), x)
				}
			case *types.Pointer:
				// pointer to array
			default:
				add(stack, x, "KUnknown", "range over unclassified type "+t.String(), x)
			}
		case *ast.GoStmt:
			add(stack, x, "KGo", norm(fset, x.Call.Fun), x)
		case *ast.ImportSpec:
			if ip := strings.Trim(x.Path.Value, "\""); concurrencyPkg(ip) || ip == "sync" || ip == "sync/atomic" || ip == "runtime" || ip == "os/signal" {
				add(stack, x, "KGo", "import "+ip, x)
			}
		case *ast.ChanType:
			add(stack, x, "KSelect", "channel type "+norm(fset, x), enclosingStmt())
		case *ast.SelectStmt:
			add(stack, x, "KSelect", "select", x)
		case *ast.SendStmt:
			add(stack, x, "KSelect", "channel send", x)
		case *ast.UnaryExpr:
			if x.Op == token.ARROW {
				add(stack, x, "KSelect", "channel receive", enclosingStmt())
			}
		case *ast.BasicLit:
			if x.Kind == token.STRING && strings.Contains(x.Value, "%p") {
				add(stack, x, "KPointer", "format verb %p in "+x.Value, enclosingStmt())
			}
			if x.Kind == token.FLOAT {
				// an untyped constant is exact; it is a float site only when it takes a float type
				if tv, ok := info.Types[x]; ok && isFloat(tv.Type) {
					fn := funcName(stack)
					if !floatSeen[fn] {
						floatSeen[fn] = true
						add(stack, x, "KFloat", "float literal "+x.Value, enclosingStmt())
					}
				}
			}
		case *ast.SelectorExpr:
			obj := info.Uses[x.Sel]
			if obj == nil || obj.Pkg() == nil {
				break
			}
			switch obj.Pkg().Path() {
			case "time":
				// package-level functions only: Time.After(u) is a comparison method, not the timer
				if fn, isFunc := obj.(*types.Func); isFunc && wallClock[obj.Name()] {
					if sig, ok := fn.Type().(*types.Signature); ok && sig.Recv() == nil {
						add(stack, x, "KTime", "time."+obj.Name(), enclosingStmt())
					}
				}
			case "math/rand", "math/rand/v2", "crypto/rand":
				// a type reference (*rand.Rand in a signature) is not a use of randomness
				if _, isType := obj.(*types.TypeName); !isType {
					add(stack, x, "KRand", obj.Pkg().Path()+"."+obj.Name(), enclosingStmt())
				}
			case "github.com/cosmos/cosmos-sdk/telemetry":
				// telemetry.Now() is time.Now() when telemetry is enabled
				switch obj.Name() {
				case "Now", "ModuleMeasureSince", "MeasureSince":
					add(stack, x, "KTime", "telemetry."+obj.Name(), enclosingStmt())
				}
			case "unsafe":
				add(stack, x, "KPointer", "unsafe."+obj.Name(), enclosingStmt())
			case "sort", "slices":
				switch obj.Name() {
				case "Slice", "SliceStable", "Sort", "Stable", "Strings", "Ints", "SortFunc", "SortStableFunc":
					add(stack, x, "KAnchor", "sort:"+obj.Pkg().Path()+"."+obj.Name(), enclosingStmt())
				}
			case "maps", "golang.org/x/exp/maps":
				switch obj.Name() {
				case "Keys", "Values", "All":
					add(stack, x, "KMapIter", obj.Pkg().Path()+"."+obj.Name(), enclosingStmt())
				}
			case "reflect":
				switch obj.Name() {
				case "MapKeys", "MapRange", "Pointer", "UnsafeAddr", "UnsafePointer":
					k := "KPointer"
					if strings.HasPrefix(obj.Name(), "Map") {
						k = "KMapIter"
					}
					add(stack, x, k, "reflect."+obj.Name(), enclosingStmt())
				}
			case "sync", "sync/atomic":
				// any use of a synchronisation primitive (WaitGroup, Once, Mutex, Pool, atomics, ...):
				// concurrency is in play even without a `go` statement in this package
				if obj.Name() == "Range" {
					add(stack, x, "KMapIter", "sync.Map.Range", enclosingStmt())
				}
				add(stack, x, "KGo", obj.Pkg().Path()+"."+obj.Name(), enclosingStmt())
			case "runtime", "os/signal":
				add(stack, x, "KGo", obj.Pkg().Path()+"."+obj.Name(), enclosingStmt())
			case "context":
				switch obj.Name() {
				case "WithCancel", "WithCancelCause", "WithTimeout", "WithTimeoutCause", "WithDeadline", "WithDeadlineCause", "AfterFunc":
					add(stack, x, "KGo", "context."+obj.Name()+" (cancellation-driven fan-out)", enclosingStmt())
				}
			default:
				if concurrencyPkg(obj.Pkg().Path()) {
					add(stack, x, "KGo", obj.Pkg().Path()+"."+obj.Name(), enclosingStmt())
				}
			}
		case *ast.CallExpr:
			// a method (or function-valued field) called Go on a type of another package starts
			// work concurrently by convention (errgroup.Group, conc pools, worker pools, ...)
			if sel, ok := x.Fun.(*ast.SelectorExpr); ok && sel.Sel.Name == "Go" {
				if tv, ok := info.Types[sel.X]; ok && tv.Type != nil && !tv.IsType() {
					t := tv.Type
					if p, ok := t.(*types.Pointer); ok {
						t = p.Elem()
					}
					local := false
					if n, ok := t.(*types.Named); ok && n.Obj().Pkg() != nil && n.Obj().Pkg() == pkg.Types {
						local = true
					}
					if !local {
						add(stack, x, "KGo", "method Go on "+types.TypeString(tv.Type, nil), enclosingStmt())
					}
				}
			}
			// a struct holding a pointer, formatted by value by a printf-like function, prints the
			// address unless the value type itself implements Stringer / error / Formatter
			if sig, ok := info.TypeOf(x.Fun).(*types.Signature); ok && sig.Variadic() && !x.Ellipsis.IsValid() {
				np := sig.Params().Len()
				if sl, ok := sig.Params().At(np - 1).Type().(*types.Slice); ok {
					if it, ok := sl.Elem().Underlying().(*types.Interface); ok && it.Empty() && len(x.Args) >= np {
						for _, a := range x.Args[np-1:] {
							if at := info.TypeOf(a); at != nil && printsAddress(at) {
								add(stack, a, "KPointer", "value of "+types.TypeString(at, nil)+" (holds a pointer, no value-receiver String/Error/Format) passed to a print-like function", enclosingStmt())
							}
						}
					}
				}
			}
			// conversion to uintptr
			if tv, ok := info.Types[x.Fun]; ok && tv.IsType() {
				if b, ok := tv.Type.Underlying().(*types.Basic); ok && (b.Kind() == types.Uintptr || b.Kind() == types.UnsafePointer) {
					add(stack, x, "KPointer", "conversion to "+b.Name(), enclosingStmt())
				}
			}
		}
		// float arithmetic / conversions: one site per function that touches a typed float
		if e, ok := n.(ast.Expr); ok {
			switch e.(type) {
			case *ast.BinaryExpr, *ast.CallExpr, *ast.UnaryExpr:
				tv, ok := info.Types[e]
				isF := ok && isFloat(tv.Type) && tv.Value == nil
				if be, isBin := e.(*ast.BinaryExpr); isBin && !isF {
					// comparisons of floats have type bool
					if tx, ok := info.Types[be.X]; ok && isFloat(tx.Type) && tx.Value == nil {
						isF = true
					}
				}
				if isF {
					fn := funcName(stack)
					if !floatSeen[fn] {
						floatSeen[fn] = true
						add(stack, e, "KFloat", "float-typed expression "+norm(fset, e), enclosingStmt())
					}
				}
			}
		}
		return true
	})
}

// varUses returns the normalised text of every simple statement, and of every loop / branch
// header, of fn that mentions the local variable called name, in source order.
func varUses(fset *token.FileSet, info *types.Info, fn *ast.FuncDecl, name string) (string, bool) {
	if fn.Body == nil {
		return "", false
	}
	var obj types.Object
	ast.Inspect(fn.Body, func(n ast.Node) bool {
		if id, ok := n.(*ast.Ident); ok && id.Name == name && obj == nil {
			if o := info.Defs[id]; o != nil {
				obj = o
			}
		}
		return true
	})
	if obj == nil {
		return "", false
	}
	var parts []string
	seen := map[ast.Node]bool{}
	var stack []ast.Node
	ast.Inspect(fn.Body, func(n ast.Node) bool {
		if n == nil {
			stack = stack[:len(stack)-1]
			return true
		}
		stack = append(stack, n)
		id, ok := n.(*ast.Ident)
		if !ok || (info.Uses[id] != obj && info.Defs[id] != obj) {
			return true
		}
		// nearest enclosing statement; compound statements contribute their header only
		for i := len(stack) - 1; i >= 0; i-- {
			st, ok := stack[i].(ast.Stmt)
			if !ok {
				continue
			}
			if seen[st] {
				break
			}
			var txt string
			switch s := st.(type) {
			case *ast.BlockStmt:
				continue
			case *ast.IfStmt:
				txt = "if " + norm(fset, s.Cond)
				if s.Init != nil {
					txt = "if " + norm(fset, s.Init) + "; " + norm(fset, s.Cond)
				}
			case *ast.ForStmt:
				txt = "for"
				if s.Init != nil {
					txt += " " + norm(fset, s.Init)
				}
				if s.Cond != nil {
					txt += "; " + norm(fset, s.Cond)
				}
				if s.Post != nil {
					txt += "; " + norm(fset, s.Post)
				}
			case *ast.RangeStmt:
				txt = "for "
				if s.Key != nil {
					txt += norm(fset, s.Key)
				}
				if s.Value != nil {
					txt += ", " + norm(fset, s.Value)
				}
				txt += " range " + norm(fset, s.X)
			case *ast.SwitchStmt:
				txt = "switch"
				if s.Tag != nil {
					txt += " " + norm(fset, s.Tag)
				}
			default:
				txt = norm(fset, st)
			}
			seen[st] = true
			parts = append(parts, txt)
			break
		}
		return true
	})
	return strings.Join(parts, " ;; "), true
}

func coqStr(s string) string { return "\"" + strings.ReplaceAll(s, "\"", "\"\"") + "\"" }

func main() {
	out := flag.String("out", "", "output .v file")
	dir := flag.String("dir", ".", "directory of the harness module (go list runs here)")
	modfile := flag.String("modfile", "", "alternative go.mod (as used for the harness build)")
	flag.Parse()
	repo = os.Getenv("VERIF_REPO")
	if repo == "" {
		repo = "/repo"
	}
	if r, err := filepath.EvalSymlinks(repo); err == nil {
		repo = r
	}
	flags := []string{"-tags=verif"}
	if *modfile != "" {
		flags = append(flags, "-modfile="+*modfile)
	}
	// 1. import closure of package app restricted to the sunrise module
	cfg := &packages.Config{Mode: packages.NeedName | packages.NeedImports | packages.NeedDeps | packages.NeedFiles | packages.NeedModule,
		Dir: *dir, BuildFlags: flags, Tests: false}
	roots, err := packages.Load(cfg, modPath+"/app")
	if err != nil {
		fmt.Fprintln(os.Stderr, "load:", err)
		os.Exit(1)
	}
	seen := map[string]bool{}
	var paths []string
	var walk func(p *packages.Package)
	walk = func(p *packages.Package) {
		if seen[p.PkgPath] {
			return
		}
		seen[p.PkgPath] = true
		if p.PkgPath == modPath || strings.HasPrefix(p.PkgPath, modPath+"/") {
			paths = append(paths, p.PkgPath)
		}
		for _, q := range p.Imports {
			walk(q)
		}
	}
	for _, p := range roots {
		if len(p.Errors) > 0 {
			fmt.Fprintln(os.Stderr, "load errors in", p.PkgPath, p.Errors)
			os.Exit(1)
		}
		walk(p)
	}
	sort.Strings(paths)
	if len(paths) < 10 {
		fmt.Fprintln(os.Stderr, "implausibly few sunrise packages reachable from app:", paths)
		os.Exit(1)
	}
	// 2. typed syntax of exactly those packages (dependencies from export data)
	cfg2 := &packages.Config{Mode: packages.NeedName | packages.NeedFiles | packages.NeedCompiledGoFiles | packages.NeedImports |
		packages.NeedTypes | packages.NeedTypesSizes | packages.NeedSyntax | packages.NeedTypesInfo,
		Dir: *dir, BuildFlags: flags, Tests: false}
	pkgs, err := packages.Load(cfg2, paths...)
	if err != nil {
		fmt.Fprintln(os.Stderr, "load2:", err)
		os.Exit(1)
	}
	sort.Slice(pkgs, func(i, j int) bool { return pkgs[i].PkgPath < pkgs[j].PkgPath })
	nfiles := 0
	for _, p := range pkgs {
		if len(p.Errors) > 0 || p.TypesInfo == nil {
			sites = append(sites, site{File: strings.TrimPrefix(p.PkgPath, modPath+"/"), Func: "<package>", Kind: "KUnknown",
				Detail: short(fmt.Sprint("package did not type-check: ", p.Errors), 160)})
			fmt.Fprintln(os.Stderr, "type errors in", p.PkgPath, p.Errors)
		}
		if len(p.Syntax) != len(p.CompiledGoFiles) {
			sites = append(sites, site{File: strings.TrimPrefix(p.PkgPath, modPath+"/"), Func: "<package>", Kind: "KUnknown",
				Detail: "not every compiled file was parsed"})
		}
		for _, f := range p.Syntax {
			if p.TypesInfo == nil {
				continue
			}
			nfiles++
			scanFile(p, f)
		}
	}
	scanGlobals(pkgs)
	for k := range funcAnchors {
		if !anchorsSeen[k] {
			fmt.Fprintln(os.Stderr, "anchor not found:", k)
		}
	}
	sort.SliceStable(sites, func(i, j int) bool {
		a, b := sites[i], sites[j]
		if a.File != b.File {
			return a.File < b.File
		}
		return a.Line < b.Line
	})
	var sb strings.Builder
	sb.WriteString("(* GENERATED by harness/trans/sites from the Go sources of sunrise — do not edit.\n")
	sb.WriteString("   Regenerate: harness/trans/sites/run.sh   (VERIF_REPO selects the tree, default /repo) *)\n")
	sb.WriteString("From Coq Require Import ZArith String List.\nImport ListNotations.\n")
	sb.WriteString("From Sunrise Require Import Sys.Sites.\nLocal Open Scope Z_scope.\nLocal Open Scope string_scope.\n\n")
	sb.WriteString(fmt.Sprintf("Definition packages_scanned : Z := %d.\nDefinition files_scanned : Z := %d.\n\n", len(pkgs), nfiles))
	sb.WriteString("Definition scanned_packages : list string := [\n")
	for i, p := range paths {
		sep := ";"
		if i == len(paths)-1 {
			sep = ""
		}
		sb.WriteString("  " + coqStr(strings.TrimPrefix(p, modPath+"/")) + sep + "\n")
	}
	sb.WriteString("].\n\nDefinition sites : list site := [\n")
	for i, s := range sites {
		zone := "ZConsensus"
		if s.Zone != "" {
			zone = "(ZExcluded " + coqStr(s.Zone) + ")"
		}
		sep := ";"
		if i == len(sites)-1 {
			sep = ""
		}
		sb.WriteString(fmt.Sprintf("  mk_site %s %s %s %s %d %d %s%s\n", coqStr(s.File), coqStr(s.Func), s.Kind, zone, s.Hash, s.Line, coqStr(s.Detail), sep))
	}
	sb.WriteString("].\n")
	if *out == "" {
		fmt.Print(sb.String())
		return
	}
	if err := os.MkdirAll(filepath.Dir(*out), 0o755); err != nil {
		fmt.Fprintln(os.Stderr, err)
		os.Exit(1)
	}
	old, _ := os.ReadFile(*out)
	if string(old) == sb.String() {
		fmt.Printf("sites: %d sites in %d files of %d packages (unchanged)\n", len(sites), nfiles, len(pkgs))
		return
	}
	if err := os.WriteFile(*out, []byte(sb.String()), 0o644); err != nil {
		fmt.Fprintln(os.Stderr, err)
		os.Exit(1)
	}
	fmt.Printf("sites: %d sites in %d files of %d packages (written)\n", len(sites), nfiles, len(pkgs))
}
