package c01

import (
	"fmt"
	"math/big"
	"time"

	sdkmath "cosmossdk.io/math"
	sdk "github.com/cosmos/cosmos-sdk/types"

	datypes "github.com/sunriselayer/sunrise/x/da/types"

	"verifharness/apph"
	"verifharness/emit"
)

// Fixed regression histories (witnesses of repaired defects and of the open finding); they run
// before the generated histories.

func (rn *runner) fresh(tag string) {
	if rn.w != nil {
		rn.w.h.Close()
	}
	rn.w = newWorld(rn.seed, 8, 2)
	rn.dead = false
	rn.pendingPool = nil
	rn.st.Count("history:" + tag)
	rn.setup()
}

func (rn *runner) createdVal() int {
	for i, v := range rn.w.vals {
		if v.Created {
			return i
		}
	}
	return 0
}

func (rn *runner) slash(v int, frac sdkmath.LegacyDec, infraction int64) {
	w := rn.w
	ctx := w.h.Ctx()
	val, err := w.h.App.StakingKeeper.GetValidator(ctx, w.vals[v].Bytes)
	if err != nil {
		panic(err)
	}
	ca, err := val.GetConsAddr()
	if err != nil {
		panic(err)
	}
	err = apph.Tx(ctx, func(c sdk.Context) error {
		_, e := w.h.App.StakingKeeper.Slash(c, ca, infraction, val.GetConsensusPower(w.h.App.StakingKeeper.PowerReduction(c)), frac)
		return e
	})
	if err != nil {
		panic(err)
	}
	rn.st.Count("corpus:slash")
}

//  1. a validator with an exchange rate other than one (slashed earlier): seven non-voting
//     undelegations; x/staking unbonds one unit less than requested for some of them.
//     Found: EndBlocker "insufficient funds" at completion (halt). Repaired: recorded = released.
func (rn *runner) corpusRounding() {
	rn.fresh("corpus:sc-rounding")
	if rn.dead {
		return
	}
	w := rn.w
	v := rn.createdVal()
	rn.slash(v, sdkmath.LegacyNewDecWithPrec(3, 2), w.h.Height-1)
	rn.blockCase(time.Second, nil, "corpus:sc-rounding:after-slash")
	w.queue("sc-delegate", 4, 2_000_000, w.msgNvDelegate(4, v, 1_000_003))
	rn.blockCase(time.Second, nil, "corpus:sc-rounding:delegate")
	for k := 0; k < 7 && !rn.dead; k++ {
		w.queue("sc-undelegate", 4, 2_000_000, w.msgNvUndelegate(4, v, int64(1+k)*13+1))
		rn.blockCase(time.Millisecond, nil, "corpus:sc-rounding:undelegate")
	}
	for k := 0; k < 3 && !rn.dead; k++ {
		rn.blockCase(9*time.Second, nil, "corpus:sc-rounding:completion")
	}
}

// 2. known finding: the validator is slashed while the entry is unbonding
func (rn *runner) corpusSlashedUnbonding() {
	rn.fresh("corpus:sc-slash")
	if rn.dead {
		return
	}
	w := rn.w
	v := rn.createdVal()
	w.queue("sc-delegate", 4, 2_000_000, w.msgNvDelegate(4, v, 1_000_000))
	rn.blockCase(time.Second, nil, "corpus:sc-slash:delegate")
	w.queue("sc-undelegate", 4, 2_000_000, w.msgNvUndelegate(4, v, 100_000))
	rn.blockCase(time.Second, nil, "corpus:sc-slash:undelegate")
	rn.slash(v, sdkmath.LegacyNewDecWithPrec(5, 2), w.h.Height-2)
	for k := 0; k < 4 && !rn.dead; k++ {
		rn.blockCase(8*time.Second, nil, "corpus:sc-slash:completion")
	}
}

//  3. unbonding entries completing inside the current second (fix e1d5c50), blocks placed
//     before / inside / at / after the fractional completion time
func (rn *runner) corpusSubsecond() {
	rn.fresh("corpus:sc-subsecond")
	if rn.dead {
		return
	}
	w := rn.w
	rn.blockCase(400*time.Millisecond, nil, "corpus:subsecond:offset")
	w.queue("sc-undelegate", 5, 2_000_000, w.msgNvUndelegate(5, 0, 70_000))
	rn.blockCase(350*time.Millisecond, nil, "corpus:subsecond:undelegate")
	q := w.scQueue(w.h.Ctx())
	if len(q) == 0 {
		return
	}
	T := q[len(q)-1].u.CompletionTime
	for _, t := range []time.Time{T.Truncate(time.Second).Add(-1), T.Truncate(time.Second), T.Add(-1), T, T.Add(1)} {
		if t.After(w.h.Time) && !rn.dead {
			rn.blockCase(t.Sub(w.h.Time), nil, "corpus:subsecond:around-completion")
		}
	}
}

//  4. gauge pool with positions but no in-range liquidity at BeginBlock (fix e760b00) and an
//     emission that is not divisible
func (rn *runner) corpusZeroLiquidity() {
	rn.fresh("corpus:zero-liquidity")
	if rn.dead {
		return
	}
	w := rn.w
	rn.queuePool(1, poolSpec{fee: "0.003", ratio: "1.0001", offs: "0", base: "uosmo", quote: "uusdc"})
	rn.blockCase(time.Second, nil, "corpus:zero-liq:pool")
	if len(w.pools) < 4 {
		return
	}
	p := w.pools[len(w.pools)-1]
	w.queue("amm-create-position", 1, 5_000_000, w.msgCreatePosition(1, p, 100, 200, big.NewInt(1_000_000), big.NewInt(1_000_000)))
	w.queue("vote-gauge", 1, 1_000_000, w.msgVoteGauge(1, map[uint64]string{p.id: "1"}))
	w.queue("vote-gauge", 2, 1_000_000, w.msgVoteGauge(2, map[uint64]string{p.id: "0.5", 0: "0.5"}))
	rn.blockCase(time.Second, nil, "corpus:zero-liq:position-votes")
	for k := 0; k < 8 && !rn.dead; k++ {
		rn.blockCase(emit.Pick(rn.r, time.Second, 61*time.Second), nil, "corpus:zero-liq:epochs")
	}
}

//  5. DA: threshold 0 (every item is challenged at once, nobody to reward: fix 6441886), the
//     largest admissible replication factor, the parameter values of the repaired validation
func (rn *runner) corpusDA() {
	rn.fresh("corpus:da")
	if rn.dead {
		return
	}
	w := rn.w
	set := func(rf, thr string, slashEpoch uint64) bool {
		ctx := w.h.Ctx()
		p, err := w.h.App.DaKeeper.Params.Get(ctx)
		if err != nil {
			panic(err)
		}
		p.ReplicationFactor, p.ChallengeThreshold, p.SlashEpoch = rf, thr, slashEpoch
		p.ChallengePeriod, p.ProofPeriod = 4*time.Second, 3*time.Second+500*time.Millisecond
		p.RejectedRemovalPeriod, p.VerifiedRemovalPeriod = 6*time.Second, 7*time.Second
		err = apph.Tx(ctx, func(c sdk.Context) error {
			_, e := rn.damsg.UpdateParams(c, &datypes.MsgUpdateParams{Authority: rn.daAuth, Params: p})
			return e
		})
		acc := err == nil
		rn.add(fmt.Sprintf("(CParam (Da.Pm %s %s %d %d %d %d %s %s) %s %d %s)", emit.Z(decRawOr(thr)), emit.Z(decRawOr(rf)),
			int64(p.ChallengePeriod), int64(p.ProofPeriod), int64(p.RejectedRemovalPeriod), int64(p.VerifiedRemovalPeriod),
			coinVec(p.PublishDataCollateral), coinVec(p.SubmitInvalidityCollateral), emit.Z(decRawOr(p.SlashFaultThreshold)), slashEpoch, emit.Bool(acc)),
			map[string]any{"kind": "da-params", "corpus": true, "replication_factor": rf, "threshold": thr, "slash_epoch": slashEpoch, "accepted": acc, "seed": rn.seed})
		rn.st.Count(fmt.Sprintf("da-params:accepted=%v", acc))
		return acc
	}
	run := func(tag string) {
		for _, n := range []int{1, 4, 8} {
			m, _ := w.msgPublish(1, n, n/2)
			w.queue("da-publish", 1, 3_000_000, m)
		}
		rn.blockCase(time.Second, nil, tag+":publish")
		for k := 0; k < 5 && !rn.dead; k++ {
			rn.blockCase(3*time.Second+500*time.Millisecond, nil, tag+":resolve")
		}
	}
	// the found halt: accepted before the repair, then the tally panics
	if set("10000000000000000000", "0", 1) {
		run("corpus:da-rf-1e19")
	}
	if rn.dead {
		return
	}
	set("4294967296", "0", 1)
	run("corpus:da-rf-max")
	if rn.dead {
		return
	}
	set("0.000000000000000001", "1", 3)
	run("corpus:da-rf-min")
}

// 6. pre-blocker: metadata entries of every shape, also in a block whose transactions fail
func (rn *runner) corpusPreBlock() {
	rn.fresh("corpus:preblock")
	if rn.dead {
		return
	}
	w := rn.w
	{
		ctx := w.h.Ctx()
		p, err := w.h.App.DaKeeper.Params.Get(ctx)
		if err != nil {
			panic(err)
		}
		// unchallenged items are verified after 3 s and stay in the store for a minute
		p.ChallengeThreshold, p.ReplicationFactor, p.SlashEpoch = "1", "5", 7
		p.ChallengePeriod, p.ProofPeriod = 3*time.Second, 4*time.Second
		p.RejectedRemovalPeriod, p.VerifiedRemovalPeriod = 30*time.Second, 60*time.Second
		if err := p.Validate(); err != nil {
			panic(err)
		}
		if err := w.h.App.DaKeeper.Params.Set(ctx, p); err != nil {
			panic(err)
		}
	}
	for _, n := range []int{4, 2, 6} {
		m, _ := w.msgPublish(1, n, n/2)
		w.queue("da-publish", 1, 3_000_000, m)
	}
	rn.blockCase(time.Second, nil, "corpus:preblock:publish")
	for k := 0; k < 4 && !rn.dead; k++ {
		rn.blockCase(time.Second, rn.metadataEntries(), "corpus:preblock:entries")
	}
	// PrepareProposal with a full candidate list while a verified item exists (found: the
	// response exceeds MaxTxBytes and CometBFT refuses the proposal)
	for k := 0; k < 12 && !rn.dead; k++ {
		if vs, _ := w.h.App.DaKeeper.GetSpecificStatusData(w.h.Ctx(), datypes.Status_STATUS_VERIFIED); len(vs) > 0 {
			for j := 0; j < 4; j++ {
				rn.proposalCase("corpus:proposal:verified-item")
			}
			// candidates + metadata section fill the budget to within -12 .. +12 bytes
			for d := int64(-12); d <= 12; d++ {
				dd := d
				rn.propDelta = &dd
				rn.proposalCase(fmt.Sprintf("corpus:proposal:fill%+d", -d))
			}
			rn.propDelta = nil
			break
		}
		rn.blockCase(2*time.Second, nil, "corpus:preblock:wait-verified")
	}
	rn.blockCase(time.Second, [][]byte{[]byte("METADATA")}, "corpus:preblock:splitter-only")
	rn.blockCase(time.Second, [][]byte{{1, 2, 3}, []byte("METADATA"), []byte("METADATA"), {}}, "corpus:preblock:odd")
}

//  7. the recipient of a non-voting undelegation is a blocked address (a module account): the
//     payout at completion is refused by the bank. Found: the end blocker returns that error at
//     every block from then on (halt). Repaired: the message is rejected.
func (rn *runner) corpusBlockedRecipient() {
	rn.fresh("corpus:sc-blocked-recipient")
	if rn.dead {
		return
	}
	w := rn.w
	w.queue("sc-undelegate", 5, 2_000_000, w.msgNvUndelegateTo(5, 0, 50_000, w.feeColl.String()))
	w.queue("sc-undelegate", 4, 2_000_000, w.msgNvUndelegateTo(4, len(w.vals)-1, 60_000, w.h.Accts[1].Addr.String()))
	rn.blockCase(time.Second, nil, "corpus:sc-blocked-recipient:undelegate")
	for k := 0; k < 4 && !rn.dead; k++ {
		rn.blockCase(8*time.Second, nil, "corpus:sc-blocked-recipient:completion")
	}
}

//  8. DA: invalidity reports whose index lists are not shard indices (the handler stores them:
//     known finding C07-F1), several items and several reporters per block, under thresholds
//     0 / 0.33 / 1; the end blocker reads them in the block they arrive and in every later one
func (rn *runner) corpusDAIndices() {
	rn.fresh("corpus:da-indices")
	if rn.dead {
		return
	}
	w := rn.w
	shapes := func(n int64) [][]int64 {
		return [][]int64{{n}, {n + 1, 0}, {-1}, {-9223372036854775808, 0}, {1 << 32}, {0, 0, n - 1, n - 1}, {9223372036854775807, -1, n, 0}, {0}, {}}
	}
	for _, thr := range []string{"0.33", "0", "1"} {
		ctx := w.h.Ctx()
		p, err := w.h.App.DaKeeper.Params.Get(ctx)
		if err != nil {
			panic(err)
		}
		p.ChallengeThreshold, p.ReplicationFactor, p.SlashEpoch = thr, "5", 3
		p.ChallengePeriod, p.ProofPeriod = 5*time.Second, 3*time.Second+500*time.Millisecond
		p.RejectedRemovalPeriod, p.VerifiedRemovalPeriod = 6*time.Second, 7*time.Second
		if err := p.Validate(); err != nil {
			panic(err)
		}
		if err := w.h.App.DaKeeper.Params.Set(ctx, p); err != nil {
			panic(err)
		}
		sh := shapes(4)
		for start := 0; start < len(sh) && !rn.dead; start += 3 {
			// three items per block, each with reports from accounts 2..5
			for it := 0; it < 3 && start+it < len(sh); it++ {
				m, uri := w.msgPublish(it%2, 4, 1)
				w.queue("da-publish", it%2, 3_000_000, m)
				a := 2 + (start+it)%4
				w.queue("da-invalidity", a, 3_000_000, &datypes.MsgSubmitInvalidity{Sender: w.h.Accts[a].Addr.String(), MetadataUri: uri, Indices: sh[start+it]})
				b := 2 + (start+it+1)%4
				w.queue("da-invalidity", b, 3_000_000, &datypes.MsgSubmitInvalidity{Sender: w.h.Accts[b].Addr.String(), MetadataUri: uri, Indices: []int64{1, 2}})
			}
			rn.blockCase(time.Second, nil, "corpus:da-indices:thr="+thr+":publish+report")
			if !rn.dead {
				rn.blockCase(time.Second, nil, "corpus:da-indices:thr="+thr+":next")
			}
		}
		for k := 0; k < 4 && !rn.dead; k++ {
			rn.blockCase(3*time.Second+500*time.Millisecond, nil, "corpus:da-indices:thr="+thr+":resolve")
		}
	}
}

//  9. every field of every custom module's Params is offered garbage and boundary values; whatever
//     the real validation accepts is the parameter set of the blocks that follow, which run
//     through the slash epoch (1), the gauge epoch, the minute epoch and the DA deadlines
func (rn *runner) corpusParams() {
	rn.fresh("corpus:params")
	if rn.dead {
		return
	}
	w := rn.w
	ctx := w.h.Ctx()
	p, err := w.h.App.DaKeeper.Params.Get(ctx)
	if err != nil {
		panic(err)
	}
	p.SlashEpoch, p.ChallengeThreshold, p.ReplicationFactor = 1, "0.33", "5"
	if err := w.h.App.DaKeeper.Params.Set(ctx, p); err != nil {
		panic(err)
	}
	for round := 0; round < 10 && !rn.dead; round++ {
		rn.paramFuzz(12)
		m, _ := w.msgPublish(round%2, 3, 1)
		w.queue("da-publish", round%2, 3_000_000, m)
		rn.blockCase(time.Second, nil, "corpus:params:block")
		if !rn.dead {
			rn.blockCase(emit.Pick(rn.r, 61*time.Second, 3*time.Second), nil, "corpus:params:block")
		}
	}
}

//  10. epochs whose gauges all count zero (every vote has weight 0): the begin blocker must return
//     before it divides by the total count; several such epochs in a row with bond coins in the
//     fee collector (minute epochs mint in between), then a normal epoch
func (rn *runner) corpusZeroGauges() {
	rn.fresh("corpus:zero-gauges")
	if rn.dead {
		return
	}
	w := rn.w
	ctx := w.h.Ctx()
	p, err := w.h.App.LiquidityincentiveKeeper.Params.Get(ctx)
	if err != nil {
		panic(err)
	}
	p.EpochBlocks, p.StakingRewardRatio = 1, "0.5"
	if err := w.h.App.LiquidityincentiveKeeper.Params.Set(ctx, p); err != nil {
		panic(err)
	}
	// every stored vote is replaced by a vote of weight zero (votes persist until replaced)
	votes, err := w.h.App.LiquidityincentiveKeeper.GetAllVotes(ctx)
	if err != nil {
		panic(err)
	}
	for _, v := range votes {
		a := indexOfAcct(w, v.Sender)
		w.queue("vote-gauge", a, 1_000_000, w.msgVoteGauge(a, map[uint64]string{0: "0", uint64(1 + a%2): "0"}))
	}
	rn.blockCase(time.Second, nil, "corpus:zero-gauges:votes")
	for k := 0; k < 6 && !rn.dead; k++ {
		rn.blockCase(emit.Pick(rn.r, 61*time.Second, time.Second), nil, "corpus:zero-gauges:epochs")
	}
	if rn.dead {
		return
	}
	w.queue("vote-gauge", 0, 1_000_000, w.msgVoteGauge(0, map[uint64]string{0: "0.7", 1: "0"}))
	rn.blockCase(time.Second, nil, "corpus:zero-gauges:normal-vote")
	for k := 0; k < 3 && !rn.dead; k++ {
		rn.blockCase(61*time.Second, nil, "corpus:zero-gauges:normal-epochs")
	}
}

func (rn *runner) corpus() {
	rn.corpusZeroGauges()
	if rn.dead {
		rn.dead = false
	}
	rn.corpusParams()
	if rn.dead {
		rn.dead = false
	}
	rn.corpusDAIndices()
	if rn.dead {
		rn.dead = false
	}
	rn.corpusBlockedRecipient()
	rn.corpusRounding()
	rn.corpusSubsecond()
	rn.corpusZeroLiquidity()
	rn.corpusDA()
	rn.corpusPreBlock()
	rn.corpusSlashedUnbonding()
}

// watched transactions: pool parameters x first-position amounts
func watchCorpus() []watchSpec {
	specs := []watchSpec{
		{Ratio: "1.0001", Offset: "0", Fee: "0.01", Base: "1000", Quote: "2000", Lower: -10, Upper: 10},
		{Ratio: "1.0001", Offset: "0", Fee: "0.01", Base: "1000000000000000000000000000000000", Quote: "1", Lower: -10, Upper: 10}, // stall: 1024e-18
		{Ratio: "1.0001", Offset: "0", Fee: "0.01", Base: "100000000000000000000000000000", Quote: "1", Lower: -10, Upper: 10},     // tiny but above the fixed point
		{Ratio: "1", Offset: "0", Fee: "0.01", Base: "1000", Quote: "2000", Lower: -10, Upper: 10},                                 // ratio one
		{Ratio: "0.5", Offset: "0", Fee: "0.01", Base: "2000", Quote: "1000", Lower: -10, Upper: 10},                               // ratio below one, price below offset
		{Ratio: "1.000000000000000001", Offset: "0", Fee: "0.01", Base: "1000", Quote: "2000", Lower: -10, Upper: 10},              // astronomically many steps
		{Ratio: "1.0001", Offset: "-0.5", Fee: "0", Base: "1", Quote: "1000000000000", Lower: -100, Upper: 100},                    // ~276 000 steps up
		{Ratio: "2", Offset: "0.5", Fee: "0.003", Base: "5", Quote: "1000000", Lower: -2, Upper: 30},
		{Ratio: "1.01", Offset: "0", Fee: "0.999999999999999999", Base: "1000000", Quote: "3", Lower: -2000, Upper: 10},
		{Ratio: "1.0001", Offset: "0.999999999999999999", Fee: "0.01", Base: "1000", Quote: "1000", Lower: -10, Upper: 10},
		{Ratio: "1.0001", Offset: "1", Fee: "0.01", Base: "1000", Quote: "1000", Lower: -10, Upper: 10}, // offset out of range
		{Ratio: "1.0001", Offset: "0", Fee: "1", Base: "1000", Quote: "1000", Lower: -10, Upper: 10},    // fee rate one
	}
	return specs
}

func watchRandom(r *emit.Rand, n int) []watchSpec {
	var out []watchSpec
	for i := 0; i < n; i++ {
		s := watchSpec{Ratio: emit.Pick(r, poolRatios[:9]...), Offset: emit.Pick(r, poolOffs[:5]...), Fee: emit.Pick(r, poolFees[:4]...), Lower: -int64(1 + r.Intn(50)), Upper: int64(1 + r.Intn(50))}
		s.Base = r.LogUniform(emit.Pick(r, 6, 12, 30)).String()
		s.Quote = r.LogUniform(emit.Pick(r, 6, 12, 30)).String()
		out = append(out, s)
	}
	return out
}
