(* Proofs about Swap/Route.v (the model of x/swap after the C03 repair patches). *)
From Coq Require Import ZArith List Bool Lia ZifyBool.
Import ListNotations.
From Sunrise Require Import Base.Outcome Base.Dec Base.DecLemmas Base.Bank Swap.Route.
Local Open Scope Z_scope.
Ltac Zify.zify_post_hook ::= Z.div_mod_to_equations.

(* ------------------------------------------------------------------ small tools *)
Lemma obind_some {A B} (x : option A) (f : A -> option B) r :
  obind x f = Some r -> exists a, x = Some a /\ f a = Some r.
Proof. destruct x; simpl; intros H; [eauto | discriminate]. Qed.
Lemma rbind_ok {A B} (x : res A) (f : A -> res B) r :
  rbind x f = Ok r -> exists a, x = Ok a /\ f a = Ok r.
Proof. destruct x; simpl; intros H; [eauto | discriminate | discriminate]. Qed.
Lemma of_opt_ok {A} (x : option A) a : of_opt x = Ok a -> x = Some a.
Proof. destruct x; simpl; intros H; [injection H as ->; reflexivity | discriminate]. Qed.

Lemma sumz_app l m : sumz (l ++ m) = sumz l + sumz m.
Proof. induction l; simpl; lia. Qed.

(* ------------------------------------------------------------------ the parallel split *)
Lemma sum_weights_spec ws : forall acc W, sum_weights ws acc = Some W -> W = acc + sumz ws.
Proof.
  induction ws as [|w tl IH]; simpl; intros acc W H.
  - injection H as <-. lia.
  - apply obind_some in H as (acc' & H1 & H2). apply dadd_some in H1. apply IH in H2. lia.
Qed.
Lemma sum_ints_spec l : forall acc v, sum_ints l acc = Some v -> v = acc + sumz l.
Proof.
  induction l as [|x tl IH]; simpl; intros acc v H.
  - injection H as <-. lia.
  - apply obind_some in H as (acc' & H1 & H2). apply chk_int_some in H1 as [-> _]. apply IH in H2. lia.
Qed.
Lemma shares_length ws a W sh : shares ws a W = Some sh -> length sh = pred (length ws).
Proof.
  revert sh. induction ws as [|w tl IH]; intros sh H.
  - simpl in H. injection H as <-. reflexivity.
  - destruct tl as [|w2 tl2].
    + simpl in H. injection H as <-. reflexivity.
    + cbn [shares] in H. apply obind_some in H as (x & _ & H). apply obind_some in H as (r & Hr & H).
      injection H as <-. apply IH in Hr. simpl in *. lia.
Qed.

(* after the repair the amounts handed to the branches sum to the exact amount *)
Lemma split_sum fx ws a amts : fix_sum fx = true -> split fx ws a = Some amts ->
  sumz amts = a /\ length amts = length ws.
Proof.
  intros Hfx H. unfold split in H. destruct ws as [|w tl]; [discriminate|].
  apply obind_some in H as (W & _ & H). apply obind_some in H as (sh & Hsh & H).
  rewrite Hfx in H. apply obind_some in H as (handed & Hh & H). apply obind_some in H as (last & Hl & H).
  injection H as <-. apply sum_ints_spec in Hh. apply chk_int_some in Hl as [-> _].
  apply shares_length in Hsh. rewrite sumz_app, app_length. simpl in *. lia.
Qed.
(* before the repair the last branch received the whole exact amount *)
Lemma split_prefix_last ws a amts : split PREFIX ws a = Some amts -> exists sh, amts = sh ++ [a].
Proof.
  intros H. unfold split in H. destruct ws as [|w tl]; [discriminate|].
  apply obind_some in H as (W & _ & H). apply obind_some in H as (sh & Hsh & H).
  simpl in H. apply obind_some in H as (last & Hl & H). apply chk_int_some in Hl as [-> _].
  injection H as <-. exists sh. repeat f_equal. lia.
Qed.

Lemma dquo_some a b r : dquo a b = Some r -> b <> 0 /\ r = chop_round (Z.quot (a * (P * P)) b).
Proof.
  unfold dquo. destruct (Z.eqb_spec b 0); [discriminate|]. intros H. apply chk_some in H. tauto.
Qed.

(* one branch: t = trunc(round18(w*a/W)), so  t <= w*a/W + 1/(2*10^18)  *)
Lemma share_bound w a W t : 0 <= a -> 0 < w -> 0 < W -> share w a W = Some t ->
  0 <= t /\ 2 * P * W * t <= 2 * P * (w * a) + W.
Proof.
  intros Ha Hw HW H. unfold share in H.
  apply obind_some in H as (m & Hm & H). apply obind_some in H as (q & Hq & H).
  apply dmul_int_some in Hm. apply dquo_some in Hq as [_ Hq]. apply chk_int_some in H as [-> _].
  assert (Hm0 : 0 <= m) by nia.
  set (q0 := Z.quot (m * (P * P)) W) in *.
  assert (Hq0 : 0 <= q0 /\ q0 * W <= m * (P * P)).
  { unfold q0. rewrite Z.quot_div_nonneg by (unfold P; nia).
    pose proof (Z.mul_div_le (m * (P * P)) W HW). split; [apply Z.div_pos; unfold P; nia | lia]. }
  pose proof (chop_round_bracket q0) as Hb. pose proof (chop_round_nonneg q0 (proj1 Hq0)) as Hr.
  rewrite <- Hq in Hb, Hr.
  pose proof (dtrunc_int_bracket q Hr) as Ht. pose proof (dtrunc_int_nonneg q Hr) as Ht0.
  split; [exact Ht0|]. set (t := dtrunc_int q) in *.
  assert (H1 : t * P * P <= q0 + HALF) by (unfold P, HALF in *; nia).
  assert (H2 : 2 * (t * P * P) * W <= 2 * (m * (P * P)) + P * W) by (unfold P, HALF in *; nia).
  subst m. unfold P in *. nia.
Qed.

Lemma sumz_removelast_last ws : ws <> [] -> sumz (removelast ws) + last ws 0 = sumz ws.
Proof.
  induction ws as [|w tl IH]; [congruence|]. intros _. destruct tl as [|w2 tl2]; [simpl; lia|].
  change (removelast (w :: w2 :: tl2)) with (w :: removelast (w2 :: tl2)).
  change (last (w :: w2 :: tl2) 0) with (last (w2 :: tl2) 0).
  pose proof (IH ltac:(discriminate)) as IH'. cbn [sumz] in *. lia.
Qed.

Lemma shares_bound ws a W : 0 <= a -> 0 < W -> Forall (fun w => 0 < w) ws -> forall sh,
  shares ws a W = Some sh ->
  Forall (fun x => 0 <= x) sh /\
  2 * P * W * sumz sh <= 2 * P * a * sumz (removelast ws) + Z.of_nat (length sh) * W.
Proof.
  intros Ha HW. induction ws as [|w tl IH]; intros Hpos sh H.
  - simpl in H. injection H as <-. simpl. split; [constructor|lia].
  - destruct tl as [|w2 tl2].
    + simpl in H. injection H as <-. simpl. split; [constructor|lia].
    + cbn [shares] in H. apply obind_some in H as (x & Hx & H). apply obind_some in H as (r & Hr & H).
      injection H as <-. inversion Hpos as [|? ? Hw Htl]; subst.
      apply (share_bound _ _ _ _ Ha Hw HW) in Hx as [Hx0 Hx].
      destruct (IH Htl r Hr) as [IH1 IH2].
      split; [constructor; assumption|].
      change (removelast (w :: w2 :: tl2)) with (w :: removelast (w2 :: tl2)).
      cbn [sumz length]. rewrite Nat2Z.inj_succ. nia.
Qed.

Lemma Forall_pos_sumz ws : Forall (fun w => 0 < w) ws -> 0 <= sumz ws.
Proof. induction 1; simpl; lia. Qed.
Lemma Forall_nonneg_app l x : Forall (fun y => 0 <= y) l -> 0 <= x -> Forall (fun y : Z => 0 <= y) (l ++ [x]).
Proof. intros. apply Forall_app. split; [assumption|constructor; [assumption|constructor]]. Qed.

(* parallel_split_sums: positive weights, a non-negative exact amount and fewer than 2*10^18
   branches: every branch amount is >= 0 and they sum to the exact amount *)
Lemma split_nonneg ws a amts :
  0 <= a -> Forall (fun w => 0 < w) ws -> Z.of_nat (length ws) < 2 * P ->
  split FIXED ws a = Some amts ->
  Forall (fun x => 0 <= x) amts /\ sumz amts = a /\ length amts = length ws.
Proof.
  intros Ha Hpos Hlen H. destruct (split_sum FIXED ws a amts eq_refl H) as [Hs Hl].
  split; [|tauto]. unfold split in H. destruct ws as [|w tl] eqn:Ews; [discriminate|]. rewrite <- Ews in *.
  apply obind_some in H as (W & HW & H). apply obind_some in H as (sh & Hsh & H).
  simpl in H. apply obind_some in H as (handed & Hh & H). apply obind_some in H as (lst & Hl' & H).
  injection H as <-. apply sum_weights_spec in HW. apply sum_ints_spec in Hh. apply chk_int_some in Hl' as [-> _].
  assert (Hne : ws <> []) by (rewrite Ews; discriminate).
  pose proof (sumz_removelast_last ws Hne) as Hrl.
  assert (Hlast : 0 < last ws 0).
  { rewrite Forall_forall in Hpos. apply Hpos.
    generalize (last ws 0) (app_removelast_last 0 Hne). intros z E. rewrite E.
    apply in_or_app. right. left. reflexivity. }
  assert (Hrm : 0 <= sumz (removelast ws)).
  { apply Forall_pos_sumz. rewrite Forall_forall in *. intros x Hx. apply Hpos.
    rewrite (app_removelast_last 0 Hne). apply in_or_app. left. exact Hx. }
  assert (HWpos : 0 < W) by lia.
  destruct (shares_bound ws a W Ha HWpos Hpos sh Hsh) as [Hnn Hb].
  apply Forall_nonneg_app; [exact Hnn|].
  pose proof (shares_length _ _ _ _ Hsh) as Hlsh.
  assert (Hn : Z.of_nat (length sh) < 2 * P) by lia.
  assert (HW' : W = sumz (removelast ws) + last ws 0) by lia.
  set (S := sumz sh) in *. set (L := sumz (removelast ws)) in *. set (wl := last ws 0) in *.
  set (n1 := Z.of_nat (length sh)) in *.
  destruct (Z_le_gt_dec (0 + S) a) as [Hok|Hbad]; [lia|exfalso].
  assert (n1 >= 0) by lia.
  assert (H1 : 2 * P * W * (a + 1) <= 2 * P * W * S) by (unfold P in *; nia).
  assert (H2 : 2 * P * a * (W - L) + (2 * P - n1) * W <= 0) by (unfold P in *; nia).
  assert (H3 : 0 <= 2 * P * a * (W - L)) by (unfold P in *; nia).
  assert (H4 : 0 < (2 * P - n1) * W) by (unfold P in *; nia).
  lia.
Qed.

(* ------------------------------------------------------------------ induction over route trees *)
Section RouteInd.
  Variable Pr : route -> Prop.
  Hypothesis Hpool : forall din dout pid, Pr (RPool din dout pid).
  Hypothesis Hser : forall din dout rs, Forall Pr rs -> Pr (RSeries din dout rs).
  Hypothesis Hpar : forall din dout rs ws, Forall Pr rs -> Pr (RParallel din dout rs ws).
  Hypothesis Hnone : forall din dout, Pr (RNone din dout).
  Fixpoint route_ind' (r : route) : Pr r :=
    match r with
    | RPool a b c => Hpool a b c
    | RSeries a b rs =>
        Hser a b rs ((fix go (l : list route) : Forall Pr l :=
                        match l with [] => Forall_nil _ | x :: tl => Forall_cons x (route_ind' x) (go tl) end) rs)
    | RParallel a b rs ws =>
        Hpar a b rs ws ((fix go (l : list route) : Forall Pr l :=
                        match l with [] => Forall_nil _ | x :: tl => Forall_cons x (route_ind' x) (go tl) end) rs)
    | RNone a b => Hnone a b
    end.
End RouteInd.

(* the header of a result: what InspectRoute writes at the node itself *)
Lemma gen_ok rev a x ti to : gen rev a x = Ok (ti, to) ->
  0 <= a /\ 0 <= x /\ ti = (if rev then x else a) /\ to = (if rev then a else x).
Proof.
  unfold gen. destruct (Z.ltb_spec a 0) as [Ha|Ha]; simpl; [discriminate|]. destruct (Z.ltb_spec x 0) as [Hx|Hx]; simpl; [discriminate|].
  destruct rev; intros H; injection H as <- <-; repeat split; lia.
Qed.

Lemma inspect_header S hop fx rev r a s x t s' :
  inspect S hop fx rev r a s = Ok (x, t, s') ->
  0 <= a /\ 0 <= x /\ rr_din t = r_in r /\ rr_dout t = r_out r /\
  rr_ain t = (if rev then x else a) /\ rr_aout t = (if rev then a else x).
Proof.
  destruct r as [din dout pid|din dout rs|din dout rs ws|din dout]; cbn [inspect]; intros H.
  - apply rbind_ok in H as ([x1 s1] & _ & H). apply rbind_ok in H as ([ti to] & Hg & H).
    injection H as <- <- <-. apply gen_ok in Hg as (? & ? & -> & ->). simpl. tauto.
  - apply rbind_ok in H as ([[x1 rrs] s1] & _ & H). apply rbind_ok in H as ([ti to] & Hg & H).
    injection H as <- <- <-. apply gen_ok in Hg as (? & ? & -> & ->). simpl. tauto.
  - destruct (negb (length rs =? length ws)%nat); [discriminate|].
    apply rbind_ok in H as (amts & _ & H). apply rbind_ok in H as ([[x1 rrs] s1] & _ & H).
    apply rbind_ok in H as ([ti to] & Hg & H).
    injection H as <- <- <-. apply gen_ok in Hg as (? & ? & -> & ->). simpl. tauto.
  - discriminate.
Qed.

(* ------------------------------------------------------------------ bank facts *)
Lemma bank_send_ok b from to d amt b' : bank_send b from to d amt = Ok b' ->
  0 <= amt <= bal b from d /\
  forall a' d', bal b' a' d' = bal b a' d'
      - (if (a' =? from) && (d' =? d) then amt else 0) + (if (a' =? to) && (d' =? d) then amt else 0).
Proof.
  unfold bank_send, bank_sub. destruct (Z.ltb_spec amt 0) as [H0|H0]; [discriminate|].
  destruct (Z.ltb_spec (bal b from d) amt) as [H1|H1]; [discriminate|]. simpl. intros H. injection H as <-.
  split; [lia|]. intros a' d'. unfold bank_add, upd2. simpl.
  destruct (Z.eqb_spec a' to), (Z.eqb_spec d' d), (Z.eqb_spec a' from); simpl; subst;
    repeat rewrite Z.eqb_refl; simpl; try lia;
    repeat match goal with |- context [?x =? ?y] => destruct (Z.eqb_spec x y); simpl; try lia; try congruence end.
Qed.
Lemma bank_send_err b from to d amt e : bank_send b from to d amt = Err e ->
  (amt < 0 /\ e = E_INVALID_COINS) \/ (bal b from d < amt /\ e = E_INSUFFICIENT).
Proof.
  unfold bank_send, bank_sub. destruct (Z.ltb_spec amt 0) as [H0|H0]; [intros H; injection H as <-; left; split; [lia|reflexivity]|].
  destruct (Z.ltb_spec (bal b from d) amt) as [H1|H1]; simpl; [intros H; injection H as <-; right; split; [lia|reflexivity]|discriminate].
Qed.
Lemma bank_send_total b from to d amt : 0 <= amt <= bal b from d -> exists b', bank_send b from to d amt = Ok b'.
Proof.
  intros H. unfold bank_send, bank_sub. destruct (Z.ltb_spec amt 0) as [H0|H0]; [lia|].
  destruct (Z.ltb_spec (bal b from d) amt) as [H1|H1]; [lia|]. simpl. eauto.
Qed.

(* ------------------------------------------------------------------ pool hops and routes over the bank *)
Section PoolProofs.
  Variable PS : Type.
  Variables (pq_in pq_out : PS -> Z -> Z -> Z -> res Z).
  Variables (px_in px_out : PS -> Z -> Z -> Z -> res (Z * Z)).
  Variables (pn_in pn_out : PS -> Z -> Z -> Z -> PS).
  Variable pacct : Z -> Z.
  Variable sender : Z.

  (* accounts: pool custody accounts are pairwise distinct and the sender is not one of them *)
  Hypothesis pacct_inj : forall p q, pacct p = pacct q -> p = q.
  Hypothesis sender_not_pool : forall pid, sender <> pacct pid.
  (* oracle contract of the liquidity pool (DESIGN.md section 6; observed per hop by the check):
     an executed hop consumes the whole exact input / produces the whole exact output, and the
     quote of a hop equals its execution on the same pool state *)
  Hypothesis full_in : forall ps din dout a c o, px_in ps din dout a = Ok (c, o) -> c = a.
  Hypothesis full_out : forall ps din dout a i g, px_out ps din dout a = Ok (i, g) -> g = a.
  Hypothesis quote_in_agrees : forall ps din dout a c o,
    px_in ps din dout a = Ok (c, o) -> pq_in ps din dout a = Ok o.

  Notation state := (st PS).
  Let xin := x_in PS px_in pn_in pacct sender.
  Let xout := x_out PS px_out pn_out pacct sender.
  Let qin := q_in PS pq_in.
  Let qout := q_out PS pq_out.

  (* effect of moving [ain] of [din] into [aout] of [dout] through the pools [pids]:
     only the sender's two balances change among the non-pool accounts, and pools outside
     [pids] (state and custody account) are untouched *)
  Definition eff (pids : list Z) (din dout ain aout : Z) (s s' : state) : Prop :=
    (forall addr d, (forall pid, addr <> pacct pid) ->
       bal (bk s') addr d = bal (bk s) addr d +
         (if addr =? sender then (if d =? dout then aout else 0) - (if d =? din then ain else 0) else 0)) /\
    (forall pid, ~ In pid pids ->
       pools s' pid = pools s pid /\ forall d, bal (bk s') (pacct pid) d = bal (bk s) (pacct pid) d).

  Lemma eff_id d a s : eff [] d d a a s s.
  Proof. split; [intros addr d' _; destruct (addr =? sender); lia | intros; tauto]. Qed.
  Lemma eff_zero din dout s : eff [] din dout 0 0 s s.
  Proof. split; [intros addr d' _; destruct (addr =? sender), (d' =? dout), (d' =? din); lia | intros; tauto]. Qed.
  Lemma eff_trans p1 p2 d0 d1 d2 a x y s s1 s2 :
    eff p1 d0 d1 a x s s1 -> eff p2 d1 d2 x y s1 s2 -> eff (p1 ++ p2) d0 d2 a y s s2.
  Proof.
    intros [A1 F1] [A2 F2]. split.
    - intros addr d Hn. rewrite (A2 addr d Hn), (A1 addr d Hn).
      destruct (addr =? sender); [|lia]. destruct (d =? d0), (d =? d1), (d =? d2); lia.
    - intros pid Hni. assert (~ In pid p1 /\ ~ In pid p2) as [N1 N2] by (split; intros Hc; apply Hni, in_or_app; tauto).
      destruct (F1 pid N1) as [E1 B1], (F2 pid N2) as [E2 B2]. split; [congruence|]. intros d. rewrite B2, B1. reflexivity.
  Qed.
  Lemma eff_par p1 p2 din dout a1 x1 a2 x2 s s1 s2 :
    eff p1 din dout a1 x1 s s1 -> eff p2 din dout a2 x2 s1 s2 -> eff (p1 ++ p2) din dout (a1 + a2) (x1 + x2) s s2.
  Proof.
    intros [A1 F1] [A2 F2]. split.
    - intros addr d Hn. rewrite (A2 addr d Hn), (A1 addr d Hn).
      destruct (addr =? sender); [|lia]. destruct (d =? din), (d =? dout); lia.
    - intros pid Hni. assert (~ In pid p1 /\ ~ In pid p2) as [N1 N2] by (split; intros Hc; apply Hni, in_or_app; tauto).
      destruct (F1 pid N1) as [E1 B1], (F2 pid N2) as [E2 B2]. split; [congruence|]. intros d. rewrite B2, B1. reflexivity.
  Qed.

  (* one executed hop *)
  Lemma hop_moves (pid din dout ain aout : Z) (s : state) b1 b2 ps' :
    bank_send (bk s) sender (pacct pid) din ain = Ok b1 ->
    bank_send b1 (pacct pid) sender dout aout = Ok b2 ->
    eff [pid] din dout ain aout s {| bk := b2; pools := updp PS (pools s) pid ps' |}.
  Proof.
    intros H1 H2. apply bank_send_ok in H1 as [_ H1]. apply bank_send_ok in H2 as [_ H2]. split.
    - intros addr d Hn. simpl. rewrite H2, H1. specialize (Hn pid).
      destruct (Z.eqb_spec addr (pacct pid)); [congruence|]. simpl.
      destruct (addr =? sender); simpl; [|lia]. destruct (d =? din), (d =? dout); lia.
    - intros p Hni. simpl. assert (p <> pid) by (intros ->; apply Hni; left; reflexivity).
      split; [unfold updp; destruct (Z.eqb_spec p pid); congruence|].
      intros d. rewrite H2, H1.
      destruct (Z.eqb_spec (pacct p) (pacct pid)) as [E|E]; [apply pacct_inj in E; congruence|].
      destruct (Z.eqb_spec (pacct p) sender) as [E'|E']; [symmetry in E'; apply sender_not_pool in E'; tauto|].
      simpl. lia.
  Qed.

  Lemma xin_ok pid din dout a s x s' : xin pid din dout a s = Ok (x, s') ->
    0 <= a /\ 0 < x /\ eff [pid] din dout a x s s'.
  Proof.
    unfold xin, x_in. destruct (pools s pid) as [ps|]; [|discriminate].
    destruct (Z.ltb_spec a 0) as [Ha|Ha]; [discriminate|]. intros H.
    apply rbind_ok in H as ([c o] & Hp & H). destruct (Z.leb_spec o 0) as [Ho|Ho]; [discriminate|].
    apply rbind_ok in H as (b1 & H1 & H). apply rbind_ok in H as (b2 & H2 & H). injection H as <- <-.
    apply full_in in Hp. subst c. repeat split; try lia; eapply hop_moves; eassumption.
  Qed.
  Lemma xout_ok pid din dout a s x s' : xout pid din dout a s = Ok (x, s') ->
    0 <= a /\ 0 < x /\ eff [pid] din dout x a s s'.
  Proof.
    unfold xout, x_out. destruct (pools s pid) as [ps|]; [|discriminate].
    destruct (Z.ltb_spec a 0) as [Ha|Ha]; [discriminate|]. intros H.
    apply rbind_ok in H as ([i g] & Hp & H). destruct (Z.leb_spec i 0) as [Hi|Hi]; [discriminate|].
    apply rbind_ok in H as (b1 & H1 & H). apply rbind_ok in H as (b2 & H2 & H). injection H as <- <-.
    apply full_out in Hp. subst g. repeat split; try lia; eapply hop_moves; eassumption.
  Qed.

  (* ---------------- exact-in: executing the route *)
  Definition exec_in_ok (r : route) : Prop :=
    validate_rec r = true -> forall fx, fix_sum fx = true -> forall a s x t s',
    inspect state xin fx false r a s = Ok (x, t, s') -> eff (pools_of r) (r_in r) (r_out r) a x s s'.

  Lemma ser_fwd_eff fx l : Forall exec_in_ok l -> fix_sum fx = true -> forall cur dl a s y rrs s',
    vseries validate_rec l cur = Some dl ->
    ser_fwd state (inspect state xin fx false) l a s = Ok (y, rrs, s') ->
    eff (flat_map pools_of l) cur dl a y s s'.
  Proof.
    intros HF Hfx. induction HF as [|r tl Hr _ IH]; intros cur dl a s y rrs s' Hv H.
    - simpl in *. injection Hv as <-. injection H as <- _ <-. apply eff_id.
    - cbn [vseries] in Hv. cbn [ser_fwd] in H.
      destruct (validate_rec r) eqn:Vr; [|discriminate]. destruct (Z.eqb_spec (r_in r) cur) as [E|E]; [|discriminate].
      simpl in Hv. apply rbind_ok in H as ([[x rr] s1] & H1 & H). apply rbind_ok in H as ([[y' rrs'] s2] & H2 & H).
      injection H as <- _ <-. cbn [flat_map]. subst cur.
      eapply eff_trans; [apply (Hr Vr fx Hfx _ _ _ _ _ H1) | apply (IH _ _ _ _ _ _ _ Hv H2)].
  Qed.

  Lemma par_walk_eff fx din dout l : Forall exec_in_ok l -> fix_sum fx = true -> forall ws amts acc s tot rrs s',
    vparallel validate_rec l ws din dout = true -> length amts = length l ->
    par_walk state (inspect state xin fx false) l amts acc s = Ok (tot, rrs, s') ->
    eff (flat_map pools_of l) din dout (sumz amts) (tot - acc) s s'.
  Proof.
    intros HF Hfx. induction HF as [|r tl Hr _ IH]; intros ws amts acc s tot rrs s' Hv Hlen H.
    - destruct amts; [|discriminate]. simpl in H. injection H as <- _ <-. replace (acc - acc) with 0 by lia. apply eff_zero.
    - destruct amts as [|a at']; [discriminate|]. destruct ws as [|w wt]; [discriminate|].
      cbn [vparallel] in Hv. cbn [par_walk] in H.
      destruct (validate_rec r) eqn:Vr; [|discriminate].
      destruct (Z.eqb_spec (r_in r) din) as [E1|E1]; [|discriminate].
      destruct (Z.eqb_spec (r_out r) dout) as [E2|E2]; [|discriminate].
      destruct (0 <? w); [|discriminate]. simpl in Hv.
      apply rbind_ok in H as ([[x rr] s1] & H1 & H). apply rbind_ok in H as (acc' & Hacc & H).
      apply of_opt_ok in Hacc. apply chk_int_some in Hacc as [-> _].
      apply rbind_ok in H as ([[tot' rrs'] s2] & H2 & H). injection H as <- _ <-.
      cbn [flat_map sumz]. replace (tot' - acc) with (x + (tot' - (acc + x))) by lia. subst din dout.
      assert (Hlen' : length at' = length tl) by (simpl in Hlen; lia).
      eapply eff_par; [apply (Hr Vr fx Hfx _ _ _ _ _ H1) | apply (IH _ _ _ _ _ _ _ Hv Hlen' H2)].
  Qed.

  Lemma exec_in_effect : forall r, exec_in_ok r.
  Proof.
    apply route_ind'; unfold exec_in_ok.
    - intros din dout pid _ fx _ a s x t s' H. cbn [inspect] in H.
      apply rbind_ok in H as ([x1 s1] & Hh & H). apply rbind_ok in H as ([ti to] & _ & H). injection H as <- _ <-.
      apply xin_ok in Hh. simpl. tauto.
    - intros din dout rs HF Hv fx Hfx a s x t s' H. cbn [validate_rec] in Hv. cbn [inspect] in H.
      apply andb_prop in Hv as [_ Hv]. destruct (vseries validate_rec rs din) as [dl|] eqn:Ev; [|discriminate].
      apply Z.eqb_eq in Hv. subst dl.
      apply rbind_ok in H as ([[x1 rrs] s1] & Hw & H). apply rbind_ok in H as ([ti to] & _ & H). injection H as <- _ <-.
      simpl. eapply ser_fwd_eff; eassumption.
    - intros din dout rs ws HF Hv fx Hfx a s x t s' H. cbn [validate_rec] in Hv. cbn [inspect] in H.
      apply andb_prop in Hv as [Hv Hvp]. apply andb_prop in Hv as [_ Hlen]. rewrite Hlen in H. simpl in H.
      apply Nat.eqb_eq in Hlen.
      apply rbind_ok in H as (amts & Hs & H). apply of_opt_ok in Hs. apply (split_sum fx ws a amts Hfx) in Hs as [Hsum Hl].
      apply rbind_ok in H as ([[x1 rrs] s1] & Hw & H). apply rbind_ok in H as ([ti to] & _ & H). injection H as <- _ <-.
      simpl. rewrite <- Hsum. replace x1 with (x1 - 0) by lia.
      eapply par_walk_eff; try eassumption. lia.
    - intros din dout Hv. discriminate.
  Qed.

  (* ---------------- exact-out: replaying the quoted tree *)
  Notation xtree := (exec_tree PS px_out pn_out pacct sender).
  Notation xlist := (exec_list PS xtree).

  Definition exec_out_ok (r : route) : Prop :=
    validate_rec r = true -> forall fx, fix_sum fx = true -> fix_order fx = true -> forall a s0 x t s0',
    inspect state qout fx true r a s0 = Ok (x, t, s0') ->
    forall s s', xtree t s = Ok s' -> eff (pools_of r) (r_in r) (r_out r) x a s s'.

  Lemma ser_rev_eff fx l : Forall exec_out_ok l -> fix_sum fx = true -> fix_order fx = true ->
    forall cur dl a s0 x rrs s0',
    vseries validate_rec l cur = Some dl ->
    ser_rev state fx (inspect state qout fx true) l a s0 = Ok (x, rrs, s0') ->
    forall s s', xlist rrs s = Ok s' -> eff (flat_map pools_of l) cur dl x a s s'.
  Proof.
    intros HF Hfx Hfo. induction HF as [|r tl Hr _ IH]; intros cur dl a s0 x rrs s0' Hv H s s' Hx.
    - simpl in *. injection Hv as <-. injection H as <- <- _. simpl in Hx. injection Hx as <-. apply eff_id.
    - cbn [vseries] in Hv. cbn [ser_rev] in H.
      destruct (validate_rec r) eqn:Vr; [|discriminate]. destruct (Z.eqb_spec (r_in r) cur) as [E|E]; [|discriminate].
      simpl in Hv. apply rbind_ok in H as ([[x1 rrs1] s1] & H1 & H). apply rbind_ok in H as ([[y rr] s2] & H2 & H).
      rewrite Hfo in H. injection H as <- <- _. cbn [exec_list] in Hx. apply rbind_ok in Hx as (sa & Hxa & Hxb).
      cbn [flat_map]. subst cur.
      eapply eff_trans; [apply (Hr Vr fx Hfx Hfo _ _ _ _ _ H2 _ _ Hxa) | apply (IH _ _ _ _ _ _ _ Hv H1 _ _ Hxb)].
  Qed.

  Lemma par_walk_out_eff fx din dout l : Forall exec_out_ok l -> fix_sum fx = true -> fix_order fx = true ->
    forall ws amts acc s0 tot rrs s0',
    vparallel validate_rec l ws din dout = true -> length amts = length l ->
    par_walk state (inspect state qout fx true) l amts acc s0 = Ok (tot, rrs, s0') ->
    forall s s', xlist rrs s = Ok s' -> eff (flat_map pools_of l) din dout (tot - acc) (sumz amts) s s'.
  Proof.
    intros HF Hfx Hfo. induction HF as [|r tl Hr _ IH]; intros ws amts acc s0 tot rrs s0' Hv Hlen H s s' Hx.
    - destruct amts; [|discriminate]. simpl in H. injection H as <- <- _. simpl in Hx. injection Hx as <-.
      replace (acc - acc) with 0 by lia. apply eff_zero.
    - destruct amts as [|a at']; [discriminate|]. destruct ws as [|w wt]; [discriminate|].
      cbn [vparallel] in Hv. cbn [par_walk] in H.
      destruct (validate_rec r) eqn:Vr; [|discriminate].
      destruct (Z.eqb_spec (r_in r) din) as [E1|E1]; [|discriminate].
      destruct (Z.eqb_spec (r_out r) dout) as [E2|E2]; [|discriminate].
      destruct (0 <? w); [|discriminate]. simpl in Hv.
      apply rbind_ok in H as ([[x rr] s1] & H1 & H). apply rbind_ok in H as (acc' & Hacc & H).
      apply of_opt_ok in Hacc. apply chk_int_some in Hacc as [-> _].
      apply rbind_ok in H as ([[tot' rrs'] s2] & H2 & H). injection H as <- <- _.
      cbn [exec_list] in Hx. apply rbind_ok in Hx as (sa & Hxa & Hxb).
      cbn [flat_map sumz]. replace (tot' - acc) with (x + (tot' - (acc + x))) by lia. subst din dout.
      assert (Hlen' : length at' = length tl) by (simpl in Hlen; lia).
      eapply eff_par; [apply (Hr Vr fx Hfx Hfo _ _ _ _ _ H1 _ _ Hxa) | apply (IH _ _ _ _ _ _ _ Hv Hlen' H2 _ _ Hxb)].
  Qed.

  Lemma exec_out_effect : forall r, exec_out_ok r.
  Proof.
    apply route_ind'; unfold exec_out_ok.
    - intros din dout pid _ fx _ _ a s0 x t s0' H s s' Hx. cbn [inspect] in H.
      apply rbind_ok in H as ([x1 s1] & Hh & H). apply rbind_ok in H as ([ti to] & Hg & H). injection H as <- <- _.
      apply gen_ok in Hg as (_ & _ & -> & ->). cbn [exec_tree] in Hx.
      apply rbind_ok in Hx as ([i s1'] & Hxo & Hx). destruct (Z.eqb_spec i x1) as [E|E]; [|discriminate].
      injection Hx as <-. subst i. apply xout_ok in Hxo. simpl. tauto.
    - intros din dout rs HF Hv fx Hfx Hfo a s0 x t s0' H s s' Hx. cbn [validate_rec] in Hv. cbn [inspect] in H.
      apply andb_prop in Hv as [_ Hv]. destruct (vseries validate_rec rs din) as [dl|] eqn:Ev; [|discriminate].
      apply Z.eqb_eq in Hv. subst dl.
      apply rbind_ok in H as ([[x1 rrs] s1] & Hw & H). apply rbind_ok in H as ([ti to] & _ & H). injection H as <- <- _.
      cbn [exec_tree] in Hx. simpl. eapply ser_rev_eff; eassumption.
    - intros din dout rs ws HF Hv fx Hfx Hfo a s0 x t s0' H s s' Hx. cbn [validate_rec] in Hv. cbn [inspect] in H.
      apply andb_prop in Hv as [Hv Hvp]. apply andb_prop in Hv as [_ Hlen]. rewrite Hlen in H. simpl in H.
      apply Nat.eqb_eq in Hlen.
      apply rbind_ok in H as (amts & Hs & H). apply of_opt_ok in Hs. apply (split_sum fx ws a amts Hfx) in Hs as [Hsum Hl].
      apply rbind_ok in H as ([[x1 rrs] s1] & Hw & H). apply rbind_ok in H as ([ti to] & _ & H). injection H as <- <- _.
      cbn [exec_tree] in Hx. simpl. rewrite <- Hsum. replace x1 with (x1 - 0) by lia.
      eapply par_walk_out_eff; try eassumption. lia.
    - intros din dout Hv. discriminate.
  Qed.

  (* ---------------- quotes do not change the state *)
  Lemma qin_state pid din dout a s x s' : qin pid din dout a s = Ok (x, s') -> s' = s.
  Proof.
    unfold qin, q_in. destruct (pools s pid); [|discriminate]. destruct (a <? 0); [discriminate|].
    intros H. apply rbind_ok in H as (o & _ & H). injection H as _ <-. reflexivity.
  Qed.
  Lemma qout_state pid din dout a s x s' : qout pid din dout a s = Ok (x, s') -> s' = s.
  Proof.
    unfold qout, q_out. destruct (pools s pid); [|discriminate]. destruct (a <? 0); [discriminate|].
    intros H. apply rbind_ok in H as (o & _ & H). injection H as _ <-. reflexivity.
  Qed.

  Section QuoteState.
    Variable hop : Z -> Z -> Z -> Z -> state -> res (Z * state).
    Hypothesis hop_state : forall pid din dout a s x s', hop pid din dout a s = Ok (x, s') -> s' = s.
    Variable fx : fixes.
    Definition keeps (rev : bool) (r : route) : Prop :=
      forall a s x t s', inspect state hop fx rev r a s = Ok (x, t, s') -> s' = s.
    Lemma ser_fwd_keeps rev l : Forall (keeps rev) l -> forall a s y rrs s',
      ser_fwd state (inspect state hop fx rev) l a s = Ok (y, rrs, s') -> s' = s.
    Proof.
      induction 1 as [|r tl Hr _ IH]; intros a s y rrs s' H; cbn [ser_fwd] in H.
      - injection H as _ _ <-. reflexivity.
      - apply rbind_ok in H as ([[x rr] s1] & H1 & H). apply rbind_ok in H as ([[y' rrs'] s2] & H2 & H).
        injection H as _ _ <-. apply Hr in H1. apply IH in H2. congruence.
    Qed.
    Lemma ser_rev_keeps rev l : Forall (keeps rev) l -> forall a s y rrs s',
      ser_rev state fx (inspect state hop fx rev) l a s = Ok (y, rrs, s') -> s' = s.
    Proof.
      induction 1 as [|r tl Hr _ IH]; intros a s y rrs s' H; cbn [ser_rev] in H.
      - injection H as _ _ <-. reflexivity.
      - apply rbind_ok in H as ([[x rrs1] s1] & H1 & H). apply rbind_ok in H as ([[y' rr] s2] & H2 & H).
        injection H as _ _ <-. apply IH in H1. apply Hr in H2. congruence.
    Qed.
    Lemma par_walk_keeps rev l : Forall (keeps rev) l -> forall amts acc s tot rrs s',
      par_walk state (inspect state hop fx rev) l amts acc s = Ok (tot, rrs, s') -> s' = s.
    Proof.
      induction 1 as [|r tl Hr _ IH]; intros amts acc s tot rrs s' H; cbn [par_walk] in H.
      - injection H as _ _ <-. reflexivity.
      - destruct amts as [|a at']; [discriminate|].
        apply rbind_ok in H as ([[x rr] s1] & H1 & H). apply rbind_ok in H as (acc' & _ & H).
        apply rbind_ok in H as ([[tot' rrs'] s2] & H2 & H). injection H as _ _ <-.
        apply Hr in H1. apply IH in H2. congruence.
    Qed.
    Lemma inspect_keeps rev : forall r, keeps rev r.
    Proof.
      apply route_ind'.
      - intros din dout pid a s x t s' H. cbn [inspect] in H. apply rbind_ok in H as ([x1 s1] & Hh & H).
        apply rbind_ok in H as ([ti to] & _ & H). injection H as _ _ <-. eapply hop_state; eassumption.
      - intros din dout rs HF a s x t s' H. cbn [inspect] in H. apply rbind_ok in H as ([[x1 rrs] s1] & Hw & H).
        apply rbind_ok in H as ([ti to] & _ & H). injection H as _ _ <-.
        destruct rev; [exact (ser_rev_keeps _ rs HF _ _ _ _ _ Hw) | exact (ser_fwd_keeps _ rs HF _ _ _ _ _ Hw)].
      - intros din dout rs ws HF a s x t s' H. cbn [inspect] in H.
        destruct (negb (length rs =? length ws)%nat); [discriminate|].
        apply rbind_ok in H as (amts & _ & H). apply rbind_ok in H as ([[x1 rrs] s1] & Hw & H).
        apply rbind_ok in H as ([ti to] & _ & H). injection H as _ _ <-. eapply par_walk_keeps; eassumption.
      - intros din dout a s x t s' H. discriminate.
    Qed.
  End QuoteState.

  (* ---------------- quote_equals_execution (exact-in): the walk that executes the hops and the
     walk that only quotes them on the pre-state return the same amounts and the same tree,
     because no pool is used twice *)
  Lemma NoDup_app_disjoint {A} (l1 l2 : list A) : NoDup (l1 ++ l2) ->
    NoDup l1 /\ NoDup l2 /\ forall x, In x l1 -> ~ In x l2.
  Proof.
    induction l1 as [|a l1 IH]; simpl; intros H.
    - split; [constructor|]. split; [assumption|]. intros x [].
    - inversion H as [|? ? Hn Hd]; subst. destruct (IH Hd) as (N1 & N2 & Dj).
      split; [constructor; [intros Hc; apply Hn, in_or_app; tauto|assumption]|]. split; [assumption|].
      intros x [<-|Hx]; [intros Hc; apply Hn, in_or_app; tauto | apply Dj, Hx].
  Qed.
  Lemma nodupb_NoDup l : nodupb l = true -> NoDup l.
  Proof.
    induction l as [|x tl IH]; simpl; intros H; [constructor|]. apply andb_prop in H as [H1 H2].
    constructor; [|apply IH, H2]. intros Hin. apply negb_true_iff in H1.
    assert (memz x tl = true); [|congruence]. clear -Hin. induction tl as [|y tl IH]; simpl in *; [tauto|].
    destruct Hin as [->|Hin]; [rewrite Z.eqb_refl; reflexivity | rewrite (IH Hin); apply orb_true_r].
  Qed.

  Definition agree (pids : list Z) (s0 s : state) : Prop := forall pid, In pid pids -> pools s0 pid = pools s pid.

  Definition quote_eq_ok (r : route) : Prop :=
    validate_rec r = true -> NoDup (pools_of r) -> forall fx, fix_sum fx = true -> forall a s x t s',
    inspect state xin fx false r a s = Ok (x, t, s') ->
    forall s0, agree (pools_of r) s0 s -> inspect state qin fx false r a s0 = Ok (x, t, s0).

  Lemma agree_after p1 p2 din dout a x s s1 s0 :
    eff p1 din dout a x s s1 -> (forall y, In y p1 -> ~ In y p2) -> agree (p1 ++ p2) s0 s -> agree p2 s0 s1.
  Proof.
    intros [_ F] Dj Ha pid Hin. rewrite (Ha pid (in_or_app _ _ _ (or_intror Hin))).
    symmetry. apply F. intros Hc. exact (Dj pid Hc Hin).
  Qed.

  Lemma ser_fwd_quote fx l : Forall quote_eq_ok l -> fix_sum fx = true -> forall cur dl a s y rrs s',
    vseries validate_rec l cur = Some dl -> NoDup (flat_map pools_of l) ->
    ser_fwd state (inspect state xin fx false) l a s = Ok (y, rrs, s') ->
    forall s0, agree (flat_map pools_of l) s0 s ->
    ser_fwd state (inspect state qin fx false) l a s0 = Ok (y, rrs, s0).
  Proof.
    intros HF Hfx. induction HF as [|r tl Hr _ IH]; intros cur dl a s y rrs s' Hv Hnd H s0 Hag.
    - simpl in *. injection H as <- <- _. reflexivity.
    - cbn [vseries] in Hv. cbn [ser_fwd] in H |- *. cbn [flat_map] in Hnd, Hag.
      destruct (validate_rec r) eqn:Vr; [|discriminate]. destruct (Z.eqb_spec (r_in r) cur) as [E|E]; [|discriminate].
      simpl in Hv. apply NoDup_app_disjoint in Hnd as (N1 & N2 & Dj).
      apply rbind_ok in H as ([[x rr] s1] & H1 & H). apply rbind_ok in H as ([[y' rrs'] s2] & H2 & H).
      injection H as <- <- _.
      rewrite (Hr Vr N1 fx Hfx _ _ _ _ _ H1 s0 (fun pid Hin => Hag pid (in_or_app _ _ _ (or_introl Hin)))). simpl.
      pose proof (exec_in_effect r Vr fx Hfx _ _ _ _ _ H1) as He.
      rewrite (IH _ _ _ _ _ _ _ Hv N2 H2 s0 (agree_after _ _ _ _ _ _ _ _ _ He Dj Hag)). reflexivity.
  Qed.

  Lemma par_walk_quote fx din dout l : Forall quote_eq_ok l -> fix_sum fx = true -> forall ws amts acc s tot rrs s',
    vparallel validate_rec l ws din dout = true -> NoDup (flat_map pools_of l) ->
    par_walk state (inspect state xin fx false) l amts acc s = Ok (tot, rrs, s') ->
    forall s0, agree (flat_map pools_of l) s0 s ->
    par_walk state (inspect state qin fx false) l amts acc s0 = Ok (tot, rrs, s0).
  Proof.
    intros HF Hfx. induction HF as [|r tl Hr _ IH]; intros ws amts acc s tot rrs s' Hv Hnd H s0 Hag.
    - simpl in *. injection H as <- <- _. reflexivity.
    - destruct ws as [|w wt]; [discriminate|]. cbn [vparallel] in Hv. cbn [par_walk] in H |- *. cbn [flat_map] in Hnd, Hag.
      destruct amts as [|a at']; [discriminate|].
      destruct (validate_rec r) eqn:Vr; [|discriminate].
      destruct (Z.eqb_spec (r_in r) din) as [E1|E1]; [|discriminate].
      destruct (Z.eqb_spec (r_out r) dout) as [E2|E2]; [|discriminate].
      destruct (0 <? w); [|discriminate]. simpl in Hv. apply NoDup_app_disjoint in Hnd as (N1 & N2 & Dj).
      apply rbind_ok in H as ([[x rr] s1] & H1 & H). apply rbind_ok in H as (acc' & Hacc & H).
      apply rbind_ok in H as ([[tot' rrs'] s2] & H2 & H). injection H as <- <- _.
      rewrite (Hr Vr N1 fx Hfx _ _ _ _ _ H1 s0 (fun pid Hin => Hag pid (in_or_app _ _ _ (or_introl Hin)))). simpl.
      rewrite Hacc. simpl.
      pose proof (exec_in_effect r Vr fx Hfx _ _ _ _ _ H1) as He.
      rewrite (IH _ _ _ _ _ _ _ Hv N2 H2 s0 (agree_after _ _ _ _ _ _ _ _ _ He Dj Hag)). reflexivity.
  Qed.

  Lemma quote_eq : forall r, quote_eq_ok r.
  Proof.
    apply route_ind'; unfold quote_eq_ok.
    - intros din dout pid _ _ fx _ a s x t s' H s0 Hag. cbn [inspect pools_of] in *.
      apply rbind_ok in H as ([x1 s1] & Hh & H). apply rbind_ok in H as ([ti to] & Hg & H). injection H as <- <- _.
      unfold xin, x_in in Hh. unfold qin, q_in. rewrite (Hag pid (or_introl eq_refl)).
      destruct (pools s pid) as [ps|]; [|discriminate]. destruct (a <? 0); [discriminate|].
      apply rbind_ok in Hh as ([c o] & Hp & Hh). destruct (o <=? 0); [discriminate|].
      apply rbind_ok in Hh as (b1 & _ & Hh). apply rbind_ok in Hh as (b2 & _ & Hh). injection Hh as <- _.
      rewrite (quote_in_agrees _ _ _ _ _ _ Hp). simpl. rewrite Hg. reflexivity.
    - intros din dout rs HF Hv Hnd fx Hfx a s x t s' H s0 Hag. cbn [validate_rec] in Hv. cbn [inspect pools_of] in *.
      apply andb_prop in Hv as [_ Hv]. destruct (vseries validate_rec rs din) as [dl|] eqn:Ev; [|discriminate].
      apply rbind_ok in H as ([[x1 rrs] s1] & Hw & H). apply rbind_ok in H as ([ti to] & Hg & H). injection H as <- <- _.
      rewrite (ser_fwd_quote fx rs HF Hfx _ _ _ _ _ _ _ Ev Hnd Hw s0 Hag). simpl. rewrite Hg. reflexivity.
    - intros din dout rs ws HF Hv Hnd fx Hfx a s x t s' H s0 Hag. cbn [validate_rec] in Hv. cbn [inspect pools_of] in *.
      apply andb_prop in Hv as [Hv Hvp]. destruct (negb (length rs =? length ws)%nat); [discriminate|].
      apply rbind_ok in H as (amts & Hs & H). rewrite Hs. simpl.
      apply rbind_ok in H as ([[x1 rrs] s1] & Hw & H). apply rbind_ok in H as ([ti to] & Hg & H). injection H as <- <- _.
      rewrite (par_walk_quote fx din dout rs HF Hfx _ _ _ _ _ _ _ Hvp Hnd Hw s0 Hag). simpl. rewrite Hg. reflexivity.
    - intros din dout Hv. discriminate.
  Qed.

  (* ---------------- only_input_needed (exact-in) *)
  (* further oracle contract: the pool computation itself never reports the bank's
     insufficient-funds class (funds are checked by the transfers, which are modelled here) *)
  Hypothesis px_in_no_bank_err : forall ps din dout a e, px_in ps din dout a = Err e -> e <> E_INSUFFICIENT.
  Hypothesis px_out_no_bank_err : forall ps din dout a e, px_out ps din dout a = Err e -> e <> E_INSUFFICIENT.
  Hypothesis quote_out_agrees : forall ps din dout a i g,
    px_out ps din dout a = Ok (i, g) -> pq_out ps din dout a = Ok i.

  Lemma rbind_err {A B} (x : res A) (f : A -> res B) e :
    rbind x f = Err e -> x = Err e \/ exists a, x = Ok a /\ f a = Err e.
  Proof. destruct x; simpl; intros H; [right; eauto | injection H as ->; left; reflexivity | discriminate]. Qed.
  Lemma of_opt_not_err {A} (x : option A) e : of_opt x <> Err e.
  Proof. destruct x; discriminate. Qed.
  Lemma gen_not_err rev a x e : gen rev a x <> Err e.
  Proof. unfold gen. destruct ((a <? 0) || (x <? 0)); discriminate. Qed.

  Definition funded (s : state) : Prop := forall d, 0 <= bal (bk s) sender d.
  (* every pool of [pids] holds whatever an exact-in hop on its current state would pay out *)
  Definition solvent_in (pids : list Z) (s : state) : Prop :=
    forall pid ps din dout a c o, In pid pids -> pools s pid = Some ps ->
      px_in ps din dout a = Ok (c, o) -> o <= bal (bk s) (pacct pid) dout.
  Definition solvent_out (pids : list Z) (s : state) : Prop :=
    forall pid ps din dout a i g, In pid pids -> pools s pid = Some ps ->
      px_out ps din dout a = Ok (i, g) -> g <= bal (bk s) (pacct pid) dout.

  Lemma eff_sender p din dout a x s s1 d : eff p din dout a x s s1 ->
    bal (bk s1) sender d = bal (bk s) sender d + (if d =? dout then x else 0) - (if d =? din then a else 0).
  Proof. intros [A _]. rewrite (A sender d sender_not_pool), Z.eqb_refl. lia. Qed.
  Lemma eff_funded p din dout a x s s1 : eff p din dout a x s s1 -> 0 <= x -> a <= bal (bk s) sender din ->
    funded s -> funded s1 /\ x <= bal (bk s1) sender dout /\ bal (bk s) sender din - a <= bal (bk s1) sender din.
  Proof.
    intros He Hx Ha Hf. split; [|split].
    - intros d. rewrite (eff_sender _ _ _ _ _ _ _ d He). specialize (Hf d).
      destruct (Z.eqb_spec d dout), (Z.eqb_spec d din); subst; lia.
    - rewrite (eff_sender _ _ _ _ _ _ _ dout He), Z.eqb_refl. specialize (Hf dout).
      destruct (Z.eqb_spec dout din); subst; lia.
    - rewrite (eff_sender _ _ _ _ _ _ _ din He), Z.eqb_refl. destruct (Z.eqb_spec din dout); lia.
  Qed.
  Lemma solvent_in_after p1 p2 din dout a x s s1 : eff p1 din dout a x s s1 ->
    (forall y, In y p1 -> ~ In y p2) -> solvent_in (p1 ++ p2) s -> solvent_in p2 s1.
  Proof.
    intros [_ F] Dj Hs pid ps di do' a' c o Hin Hp Hx.
    destruct (F pid (fun Hc => Dj pid Hc Hin)) as [Ep Eb]. rewrite Eb. rewrite Ep in Hp.
    eapply Hs; [apply in_or_app; right; exact Hin | exact Hp | exact Hx].
  Qed.
  Lemma solvent_out_after p1 p2 din dout a x s s1 : eff p1 din dout a x s s1 ->
    (forall y, In y p1 -> ~ In y p2) -> solvent_out (p1 ++ p2) s -> solvent_out p2 s1.
  Proof.
    intros [_ F] Dj Hs pid ps di do' a' c o Hin Hp Hx.
    destruct (F pid (fun Hc => Dj pid Hc Hin)) as [Ep Eb]. rewrite Eb. rewrite Ep in Hp.
    eapply Hs; [apply in_or_app; right; exact Hin | exact Hp | exact Hx].
  Qed.
  Lemma solvent_in_left p1 p2 s : solvent_in (p1 ++ p2) s -> solvent_in p1 s.
  Proof. intros Hs pid ps di do' a c o Hin. apply Hs, in_or_app. left. exact Hin. Qed.
  Lemma solvent_out_left p1 p2 s : solvent_out (p1 ++ p2) s -> solvent_out p1 s.
  Proof. intros Hs pid ps di do' a c o Hin. apply Hs, in_or_app. left. exact Hin. Qed.

  Lemma xin_err pid din dout a s e : 0 <= a -> a <= bal (bk s) sender din -> solvent_in [pid] s ->
    xin pid din dout a s = Err e -> e <> E_INSUFFICIENT.
  Proof.
    intros Ha Hb Hs. unfold xin, x_in. destruct (pools s pid) as [ps|] eqn:Ep; [|intros H; injection H as <-; discriminate].
    destruct (Z.ltb_spec a 0) as [Hn|_]; [lia|]. intros H.
    apply rbind_err in H as [H|([c o] & Hp & H)]; [eapply px_in_no_bank_err; eassumption|].
    destruct (Z.leb_spec o 0) as [Ho|Ho]; [injection H as <-; discriminate|].
    pose proof (full_in _ _ _ _ _ _ Hp). subst c.
    apply rbind_err in H as [H|(b1 & H1 & H)].
    { apply bank_send_err in H as [[Hc ->]|[Hc ->]]; [discriminate|lia]. }
    apply rbind_err in H as [H|(b2 & H2 & H)]; [|discriminate].
    apply bank_send_err in H as [[Hc ->]|[Hc ->]]; [discriminate|]. exfalso.
    apply bank_send_ok in H1 as [_ H1]. rewrite H1 in Hc.
    pose proof (Hs pid ps din dout a a o (or_introl eq_refl) Ep Hp).
    destruct (Z.eqb_spec (pacct pid) sender) as [E|_]; [symmetry in E; apply sender_not_pool in E; tauto|].
    rewrite Z.eqb_refl in Hc. simpl in Hc. destruct (dout =? din); lia.
  Qed.

  Definition need_in_ok (r : route) : Prop :=
    validate_rec r = true -> width_ok r = true -> NoDup (pools_of r) -> forall a s e,
    0 <= a -> a <= bal (bk s) sender (r_in r) -> funded s -> solvent_in (pools_of r) s ->
    inspect state xin FIXED false r a s = Err e -> e <> E_INSUFFICIENT.

  Lemma ser_fwd_need l : Forall need_in_ok l -> forall cur dl a s e,
    vseries validate_rec l cur = Some dl -> forallb width_ok l = true -> NoDup (flat_map pools_of l) ->
    0 <= a -> a <= bal (bk s) sender cur -> funded s -> solvent_in (flat_map pools_of l) s ->
    ser_fwd state (inspect state xin FIXED false) l a s = Err e -> e <> E_INSUFFICIENT.
  Proof.
    induction 1 as [|r tl Hr _ IH]; intros cur dl a s e Hv Hw Hnd Ha Hb Hf Hs H.
    - discriminate.
    - cbn [vseries] in Hv. cbn [ser_fwd] in H. cbn [flat_map] in Hnd, Hs. cbn [forallb] in Hw.
      apply andb_prop in Hw as [Hw1 Hw2].
      destruct (validate_rec r) eqn:Vr; [|discriminate]. destruct (Z.eqb_spec (r_in r) cur) as [E|E]; [|discriminate].
      simpl in Hv. subst cur. apply NoDup_app_disjoint in Hnd as (N1 & N2 & Dj).
      apply rbind_err in H as [H|([[x rr] s1] & H1 & H)].
      { exact (Hr Vr Hw1 N1 _ _ _ Ha Hb Hf (solvent_in_left _ _ _ Hs) H). }
      apply rbind_err in H as [H|([[y rrs] s2] & _ & H)]; [|discriminate].
      pose proof (exec_in_effect r Vr FIXED eq_refl _ _ _ _ _ H1) as He.
      pose proof (inspect_header _ _ _ _ _ _ _ _ _ _ H1) as (_ & Hx & _).
      destruct (eff_funded _ _ _ _ _ _ _ He Hx Hb Hf) as (Hf1 & Hb1 & _).
      exact (IH _ _ _ _ _ Hv Hw2 N2 Hx Hb1 Hf1 (solvent_in_after _ _ _ _ _ _ _ _ He Dj Hs) H).
  Qed.

  Lemma sumz_nonneg l : Forall (fun x => 0 <= x) l -> 0 <= sumz l.
  Proof. induction 1; simpl; lia. Qed.

  Lemma par_walk_need din dout l : Forall need_in_ok l -> forall ws amts acc s e,
    vparallel validate_rec l ws din dout = true -> forallb width_ok l = true -> NoDup (flat_map pools_of l) ->
    Forall (fun x => 0 <= x) amts -> sumz amts <= bal (bk s) sender din -> funded s ->
    solvent_in (flat_map pools_of l) s ->
    par_walk state (inspect state xin FIXED false) l amts acc s = Err e -> e <> E_INSUFFICIENT.
  Proof.
    induction 1 as [|r tl Hr _ IH]; intros ws amts acc s e Hv Hw Hnd Hnn Hb Hf Hs H.
    - discriminate.
    - destruct ws as [|w wt]; [discriminate|]. cbn [vparallel] in Hv. cbn [par_walk] in H.
      cbn [flat_map] in Hnd, Hs. cbn [forallb] in Hw. apply andb_prop in Hw as [Hw1 Hw2].
      destruct amts as [|a at']; [discriminate|]. inversion Hnn as [|? ? Ha Hnn']; subst. cbn [sumz] in Hb.
      destruct (validate_rec r) eqn:Vr; [|discriminate].
      destruct (Z.eqb_spec (r_in r) din) as [E1|E1]; [|discriminate].
      destruct (Z.eqb_spec (r_out r) dout) as [E2|E2]; [|discriminate].
      destruct (0 <? w); [|discriminate]. simpl in Hv. subst din dout.
      apply NoDup_app_disjoint in Hnd as (N1 & N2 & Dj). pose proof (sumz_nonneg _ Hnn') as Hrest.
      apply rbind_err in H as [H|([[x rr] s1] & H1 & H)].
      assert (Hb0 : a <= bal (bk s) sender (r_in r)) by lia.
      { exact (Hr Vr Hw1 N1 _ _ _ Ha Hb0 Hf (solvent_in_left _ _ _ Hs) H). }
      assert (Hb0 : a <= bal (bk s) sender (r_in r)) by lia.
      apply rbind_err in H as [H|(acc' & _ & H)]; [exfalso; eapply of_opt_not_err; eassumption|].
      apply rbind_err in H as [H|([[y rrs] s2] & _ & H)]; [|discriminate].
      pose proof (exec_in_effect r Vr FIXED eq_refl _ _ _ _ _ H1) as He.
      pose proof (inspect_header _ _ _ _ _ _ _ _ _ _ H1) as (_ & Hx & _).
      destruct (eff_funded _ _ _ _ _ _ _ He Hx Hb0 Hf) as (Hf1 & _ & Hb1).
      assert (Hb2 : sumz at' <= bal (bk s1) sender (r_in r)) by lia.
      exact (IH _ _ _ _ _ Hv Hw2 N2 Hnn' Hb2 Hf1 (solvent_in_after _ _ _ _ _ _ _ _ He Dj Hs) H).
  Qed.

  Lemma vparallel_weights vrec l ws din dout : vparallel vrec l ws din dout = true -> Forall (fun w => 0 < w) ws.
  Proof.
    revert ws. induction l as [|r tl IH]; intros [|w wt] H; simpl in H; try discriminate; [constructor|].
    repeat (apply andb_prop in H as [H ?]). constructor; [lia|]. apply IH. assumption.
  Qed.

  Lemma need_in : forall r, need_in_ok r.
  Proof.
    apply route_ind'; unfold need_in_ok.
    - intros din dout pid _ _ _ a s e Ha Hb Hf Hs H. cbn [inspect pools_of r_in] in *.
      apply rbind_err in H as [H|([x1 s1] & _ & H)]; [eapply xin_err; eassumption|].
      apply rbind_err in H as [H|([ti to] & _ & H)]; [exfalso; eapply gen_not_err; eassumption|discriminate].
    - intros din dout rs HF Hv Hw Hnd a s e Ha Hb Hf Hs H. cbn [validate_rec] in Hv. cbn [inspect pools_of r_in width_ok] in *.
      apply andb_prop in Hv as [_ Hv]. destruct (vseries validate_rec rs din) as [dl|] eqn:Ev; [|discriminate].
      apply rbind_err in H as [H|([[x1 rrs] s1] & _ & H)]; [eapply ser_fwd_need; eassumption|].
      apply rbind_err in H as [H|([ti to] & _ & H)]; [exfalso; eapply gen_not_err; eassumption|discriminate].
    - intros din dout rs ws HF Hv Hw Hnd a s e Ha Hb Hf Hs H. cbn [validate_rec] in Hv. cbn [inspect pools_of r_in width_ok] in *.
      apply andb_prop in Hv as [Hv Hvp]. apply andb_prop in Hw as [Hlen Hw].
      destruct (negb (length rs =? length ws)%nat); [discriminate|].
      apply rbind_err in H as [H|(amts & Hsp & H)]; [exfalso; eapply of_opt_not_err; eassumption|].
      apply of_opt_ok in Hsp.
      assert (Hlen' : Z.of_nat (length ws) < 2 * P) by lia.
      destruct (split_nonneg ws a amts Ha (vparallel_weights _ _ _ _ _ Hvp) Hlen' Hsp) as (Hnn & Hsum & _).
      apply rbind_err in H as [H|([[x1 rrs] s1] & _ & H)]; [eapply par_walk_need; try eassumption; lia|].
      apply rbind_err in H as [H|([ti to] & _ & H)]; [exfalso; eapply gen_not_err; eassumption|discriminate].
    - intros din dout Hv. discriminate.
  Qed.

  (* ---------------- only_input_needed (exact-out) *)
  Lemma xout_err pid din dout a s e ps x : pools s pid = Some ps -> pq_out ps din dout a = Ok x ->
    x <= bal (bk s) sender din -> solvent_out [pid] s ->
    xout pid din dout a s = Err e -> e <> E_INSUFFICIENT.
  Proof.
    intros Ep Hq Hb Hs. unfold xout, x_out. rewrite Ep. destruct (Z.ltb_spec a 0) as [Hn|_]; [discriminate|]. intros H.
    apply rbind_err in H as [H|([i g] & Hp & H)]; [eapply px_out_no_bank_err; eassumption|].
    destruct (Z.leb_spec i 0) as [Hi|Hi]; [injection H as <-; discriminate|].
    pose proof (full_out _ _ _ _ _ _ Hp). subst g.
    pose proof (quote_out_agrees _ _ _ _ _ _ Hp) as Hq'. rewrite Hq in Hq'. injection Hq' as ->.
    apply rbind_err in H as [H|(b1 & H1 & H)].
    { apply bank_send_err in H as [[Hc ->]|[Hc ->]]; [discriminate|lia]. }
    apply rbind_err in H as [H|(b2 & H2 & H)]; [|discriminate].
    apply bank_send_err in H as [[Hc ->]|[Hc ->]]; [discriminate|]. exfalso.
    apply bank_send_ok in H1 as [_ H1]. rewrite H1 in Hc.
    pose proof (Hs pid ps din dout a i a (or_introl eq_refl) Ep Hp).
    destruct (Z.eqb_spec (pacct pid) sender) as [E|_]; [symmetry in E; apply sender_not_pool in E; tauto|].
    rewrite Z.eqb_refl in Hc. simpl in Hc. destruct (dout =? din); lia.
  Qed.

  Definition need_out_ok (r : route) : Prop :=
    validate_rec r = true -> NoDup (pools_of r) -> forall a s0 x t s0',
    inspect state qout FIXED true r a s0 = Ok (x, t, s0') ->
    forall s e, agree (pools_of r) s0 s -> x <= bal (bk s) sender (r_in r) -> funded s ->
    solvent_out (pools_of r) s -> xtree t s = Err e -> e <> E_INSUFFICIENT.

  Lemma agree_left p1 p2 s0 s : agree (p1 ++ p2) s0 s -> agree p1 s0 s.
  Proof. intros H pid Hin. apply H, in_or_app. left. exact Hin. Qed.

  Lemma ser_rev_need l : Forall need_out_ok l -> forall cur dl a s0 x rrs s0',
    vseries validate_rec l cur = Some dl -> NoDup (flat_map pools_of l) ->
    ser_rev state FIXED (inspect state qout FIXED true) l a s0 = Ok (x, rrs, s0') ->
    forall s e, agree (flat_map pools_of l) s0 s -> x <= bal (bk s) sender cur -> funded s ->
    solvent_out (flat_map pools_of l) s -> xlist rrs s = Err e -> e <> E_INSUFFICIENT.
  Proof.
    induction 1 as [|r tl Hr _ IH]; intros cur dl a s0 x rrs s0' Hv Hnd H s e Hag Hb Hf Hs Hx.
    - simpl in H. injection H as _ <- _. discriminate.
    - cbn [vseries] in Hv. cbn [ser_rev] in H. cbn [flat_map] in Hnd, Hs, Hag.
      destruct (validate_rec r) eqn:Vr; [|discriminate]. destruct (Z.eqb_spec (r_in r) cur) as [E|E]; [|discriminate].
      simpl in Hv. subst cur. apply NoDup_app_disjoint in Hnd as (N1 & N2 & Dj).
      apply rbind_ok in H as ([[x1 rrs1] s1] & H1 & H). apply rbind_ok in H as ([[y rr] s2] & H2 & H).
      simpl in H. injection H as <- <- _.
      assert (s1 = s0) as -> by (eapply ser_rev_keeps; [|exact H1]; apply Forall_forall; intros; apply inspect_keeps, qout_state).
      cbn [exec_list] in Hx. apply rbind_err in Hx as [Hx|(sa & Hxa & Hxb)].
      { exact (Hr Vr N1 _ _ _ _ _ H2 _ _ (agree_left _ _ _ _ Hag) Hb Hf (solvent_out_left _ _ _ Hs) Hx). }
      pose proof (exec_out_effect r Vr FIXED eq_refl eq_refl _ _ _ _ _ H2 _ _ Hxa) as He.
      pose proof (inspect_header _ _ _ _ _ _ _ _ _ _ H2) as (Hx1 & _).
      destruct (eff_funded _ _ _ _ _ _ _ He Hx1 Hb Hf) as (Hf1 & Hb1 & _).
      exact (IH _ _ _ _ _ _ _ Hv N2 H1 _ _ (agree_after _ _ _ _ _ _ _ _ _ He Dj Hag) Hb1 Hf1
               (solvent_out_after _ _ _ _ _ _ _ _ He Dj Hs) Hxb).
  Qed.

  Lemma par_walk_ge hop fx rev l : forall amts acc s tot rrs s',
    par_walk state (inspect state hop fx rev) l amts acc s = Ok (tot, rrs, s') -> acc <= tot.
  Proof.
    induction l as [|r tl IH]; intros amts acc s tot rrs s' H; cbn [par_walk] in H.
    - injection H as <- _ _. lia.
    - destruct amts as [|a at']; [discriminate|].
      apply rbind_ok in H as ([[x rr] s1] & H1 & H). apply rbind_ok in H as (acc' & Hacc & H).
      apply of_opt_ok in Hacc. apply chk_int_some in Hacc as [-> _].
      apply rbind_ok in H as ([[tot' rrs'] s2] & H2 & H). injection H as <- _ _.
      apply inspect_header in H1 as (_ & Hx & _). apply IH in H2. lia.
  Qed.

  Lemma par_walk_need_out din dout l : Forall need_out_ok l -> forall ws amts acc s0 tot rrs s0',
    vparallel validate_rec l ws din dout = true -> NoDup (flat_map pools_of l) ->
    par_walk state (inspect state qout FIXED true) l amts acc s0 = Ok (tot, rrs, s0') ->
    forall s e, agree (flat_map pools_of l) s0 s -> tot - acc <= bal (bk s) sender din -> funded s ->
    solvent_out (flat_map pools_of l) s -> xlist rrs s = Err e -> e <> E_INSUFFICIENT.
  Proof.
    induction 1 as [|r tl Hr _ IH]; intros ws amts acc s0 tot rrs s0' Hv Hnd H s e Hag Hb Hf Hs Hx.
    - simpl in H. injection H as _ <- _. discriminate.
    - destruct ws as [|w wt]; [discriminate|]. cbn [vparallel] in Hv. cbn [par_walk] in H.
      cbn [flat_map] in Hnd, Hs, Hag. destruct amts as [|a at']; [discriminate|].
      destruct (validate_rec r) eqn:Vr; [|discriminate].
      destruct (Z.eqb_spec (r_in r) din) as [E1|E1]; [|discriminate].
      destruct (Z.eqb_spec (r_out r) dout) as [E2|E2]; [|discriminate].
      destruct (0 <? w); [|discriminate]. simpl in Hv. subst din dout.
      apply NoDup_app_disjoint in Hnd as (N1 & N2 & Dj).
      apply rbind_ok in H as ([[x rr] s1] & H1 & H). apply rbind_ok in H as (acc' & Hacc & H).
      apply of_opt_ok in Hacc. apply chk_int_some in Hacc as [-> _].
      apply rbind_ok in H as ([[tot' rrs'] s2] & H2 & H). injection H as <- <- _.
      assert (s1 = s0) as -> by (eapply inspect_keeps; [apply qout_state | exact H1]).
      pose proof (par_walk_ge _ _ _ _ _ _ _ _ _ _ H2) as Hge.
      pose proof (inspect_header _ _ _ _ _ _ _ _ _ _ H1) as (Ha & Hx0 & _).
      assert (Hb0 : x <= bal (bk s) sender (r_in r)) by lia.
      cbn [exec_list] in Hx. apply rbind_err in Hx as [Hx|(sa & Hxa & Hxb)].
      { exact (Hr Vr N1 _ _ _ _ _ H1 _ _ (agree_left _ _ _ _ Hag) Hb0 Hf (solvent_out_left _ _ _ Hs) Hx). }
      pose proof (exec_out_effect r Vr FIXED eq_refl eq_refl _ _ _ _ _ H1 _ _ Hxa) as He.
      destruct (eff_funded _ _ _ _ _ _ _ He Ha Hb0 Hf) as (Hf1 & _ & Hb1).
      assert (Hb2 : tot' - (acc + x) <= bal (bk sa) sender (r_in r)) by lia.
      exact (IH _ _ _ _ _ _ _ Hv N2 H2 _ _ (agree_after _ _ _ _ _ _ _ _ _ He Dj Hag) Hb2 Hf1
               (solvent_out_after _ _ _ _ _ _ _ _ He Dj Hs) Hxb).
  Qed.

  Lemma need_out : forall r, need_out_ok r.
  Proof.
    apply route_ind'; unfold need_out_ok.
    - intros din dout pid _ _ a s0 x t s0' H s e Hag Hb Hf Hs Hx. cbn [inspect pools_of r_in] in *.
      apply rbind_ok in H as ([x1 s1] & Hh & H). apply rbind_ok in H as ([ti to] & Hg & H). injection H as <- <- _.
      apply gen_ok in Hg as (_ & _ & -> & ->). cbn [exec_tree] in Hx.
      unfold qout, q_out in Hh. destruct (pools s0 pid) as [ps|] eqn:Ep; [|discriminate].
      destruct (a <? 0); [discriminate|]. apply rbind_ok in Hh as (i & Hq & Hh). injection Hh as <- _.
      rewrite (Hag pid (or_introl eq_refl)) in Ep.
      apply rbind_err in Hx as [Hx|([i' s1'] & _ & Hx)]; [eapply xout_err; eassumption|].
      destruct (i' =? i); [discriminate|]. injection Hx as <-. discriminate.
    - intros din dout rs HF Hv Hnd a s0 x t s0' H s e Hag Hb Hf Hs Hx. cbn [validate_rec] in Hv. cbn [inspect pools_of r_in] in *.
      apply andb_prop in Hv as [_ Hv]. destruct (vseries validate_rec rs din) as [dl|] eqn:Ev; [|discriminate].
      apply rbind_ok in H as ([[x1 rrs] s1] & Hw & H). apply rbind_ok in H as ([ti to] & _ & H). injection H as <- <- _.
      cbn [exec_tree] in Hx. eapply ser_rev_need; eassumption.
    - intros din dout rs ws HF Hv Hnd a s0 x t s0' H s e Hag Hb Hf Hs Hx. cbn [validate_rec] in Hv. cbn [inspect pools_of r_in] in *.
      apply andb_prop in Hv as [Hv Hvp]. destruct (negb (length rs =? length ws)%nat); [discriminate|].
      apply rbind_ok in H as (amts & _ & H).
      apply rbind_ok in H as ([[x1 rrs] s1] & Hw & H). apply rbind_ok in H as ([ti to] & _ & H). injection H as <- <- _.
      cbn [exec_tree] in Hx. assert (Hb0 : x1 - 0 <= bal (bk s) sender din) by lia.
      eapply par_walk_need_out; eassumption.
    - intros din dout Hv. discriminate.
  Qed.

  (* ---------------- the messages *)
  Section Msgs.
  Variable rate : Z.
  Variable v : variant.

  (* what the fee transfer adds to the balance of [addr] in [d] *)
  Definition fee_delta (prov : option Z) (dout fee addr d : Z) : Z :=
    match prov with
    | Some p => if d =? dout then (if addr =? p then fee else 0) - (if addr =? sender then fee else 0) else 0
    | None => 0
    end.

  Lemma pay_fee_ok prov dout fee b b' : pay_fee sender prov dout fee b = Ok b' ->
    (prov <> None -> 0 <= fee) /\
    forall addr d, bal b' addr d = bal b addr d + fee_delta prov dout fee addr d.
  Proof.
    unfold pay_fee, fee_delta. destruct prov as [p|].
    - destruct (Z.ltb_spec fee 0) as [Hf|Hf]; [discriminate|]. destruct (Z.ltb_spec 0 fee) as [Hp|Hp].
      + intros H. apply bank_send_ok in H as [_ H]. split; [lia|]. intros addr d. rewrite H.
        destruct (addr =? sender), (addr =? p), (d =? dout); simpl; lia.
      + intros H. injection H as <-. split; [lia|]. intros addr d. assert (fee = 0) by lia. subst fee.
        destruct (addr =? sender), (addr =? p), (d =? dout); simpl; lia.
    - intros H. injection H as <-. split; [congruence|]. intros. lia.
  Qed.

  Lemma fee_in_ok has gross net fee : fee_in has rate gross = Some (net, fee) ->
    net = gross - fee /\ (has = false -> fee = 0).
  Proof.
    unfold fee_in. destruct has.
    - intros H. apply obind_some in H as (om & _ & H). apply obind_some in H as (m & _ & H).
      apply obind_some in H as (n & Hn & H). apply obind_some in H as (f & Hf & H). injection H as <- <-.
      apply chk_int_some in Hf as [-> _]. split; [lia|discriminate].
    - intros H. injection H as <- <-. split; [lia|reflexivity].
  Qed.
  Lemma fee_out_ok has net gross fee : fee_out has rate net = Some (gross, fee) ->
    gross = net + fee /\ (has = false -> fee = 0).
  Proof.
    unfold fee_out. destruct has.
    - intros H. apply obind_some in H as (om & _ & H). apply obind_some in H as (q & _ & H).
      apply obind_some in H as (g & Hg & H). apply obind_some in H as (f & Hf & H). injection H as <- <-.
      apply chk_int_some in Hf as [-> _]. split; [lia|discriminate].
    - intros H. injection H as <- <-. split; [lia|reflexivity].
  Qed.

  Lemma validate_ok r : validate v r = Ok tt -> validate_rec r = true /\ nodupb (pools_of r) = true.
  Proof.
    unfold validate. destruct (validate_rec r); [|discriminate].
    destruct (nodupb (pools_of r)); [tauto|destruct (v_reuse_err v); discriminate].
  Qed.

  (* exact_in_amounts *)
  Theorem exact_in_amounts prov r a minout s s' resp :
    msg_swap_in PS px_in pn_in pacct FIXED rate v sender prov r a minout s = Ok (s', resp) ->
    let t := sr_tree resp in
    0 < a /\ 0 < minout /\
    rr_din t = r_in r /\ rr_dout t = r_out r /\ rr_ain t = a /\
    sr_amount resp = rr_aout t - sr_fee resp /\ minout <= sr_amount resp /\ 0 <= sr_fee resp /\
    (forall addr d, (forall pid, addr <> pacct pid) ->
       bal (bk s') addr d = bal (bk s) addr d
         + (if addr =? sender then (if d =? r_out r then rr_aout t else 0) - (if d =? r_in r then a else 0) else 0)
         + fee_delta prov (r_out r) (sr_fee resp) addr d) /\
    (prov = None -> sr_fee resp = 0).
  Proof.
    unfold msg_swap_in. intros H. apply rbind_ok in H as ([] & Hv & H). apply validate_ok in Hv as [Hv _].
    destruct (Z.leb_spec a 0) as [Ha|Ha]; [discriminate|]. destruct (Z.leb_spec minout 0) as [Hm|Hm]; [discriminate|].
    unfold keeper_swap_in in H. apply rbind_ok in H as ([[x t] s1] & Hi & H).
    apply rbind_ok in H as ([net fee] & Hf & H). apply of_opt_ok in Hf. apply fee_in_ok in Hf as [Hnet Hnone].
    destruct (Z.ltb_spec net minout) as [Hlt|Hge]; [discriminate|].
    apply rbind_ok in H as (b & Hp & H). apply rbind_ok in H as (amt & Hamt & H). apply of_opt_ok in Hamt.
    apply chk_int_some in Hamt as [-> _]. injection H as <- <-. cbn [sr_tree sr_fee sr_amount bk].
    pose proof (inspect_header _ _ _ _ _ _ _ _ _ _ Hi) as (_ & _ & Hdi & Hdo & Hai & Hao). simpl in Hai, Hao.
    pose proof (exec_in_effect r Hv FIXED eq_refl _ _ _ _ _ Hi) as [Heff _].
    apply pay_fee_ok in Hp as [Hfee Hp].
    assert (0 <= fee). { destruct prov; [apply Hfee; discriminate | rewrite (Hnone eq_refl); lia]. }
    repeat split; try assumption; try lia.
    - intros addr d Hn. rewrite Hp, (Heff addr d Hn), Hdo, Hao. reflexivity.
    - intros ->. apply Hnone. reflexivity.
  Qed.

  (* exact_out_amounts *)
  Theorem exact_out_amounts prov r maxin aout s s' resp :
    msg_swap_out PS pq_out px_out pn_out pacct FIXED rate v sender prov r maxin aout s = Ok (s', resp) ->
    let t := sr_tree resp in
    0 < aout /\ 0 < maxin /\
    rr_din t = r_in r /\ rr_dout t = r_out r /\
    rr_aout t = aout + sr_fee resp /\ sr_amount resp = aout /\ rr_ain t <= maxin /\ 0 <= sr_fee resp /\
    (forall addr d, (forall pid, addr <> pacct pid) ->
       bal (bk s') addr d = bal (bk s) addr d
         + (if addr =? sender then (if d =? r_out r then rr_aout t else 0) - (if d =? r_in r then rr_ain t else 0) else 0)
         + fee_delta prov (r_out r) (sr_fee resp) addr d) /\
    (prov = None -> sr_fee resp = 0).
  Proof.
    unfold msg_swap_out. intros H. apply rbind_ok in H as ([] & Hv & H). apply validate_ok in Hv as [Hv _].
    destruct (Z.leb_spec maxin 0) as [Hm|Hm]; [discriminate|]. destruct (Z.leb_spec aout 0) as [Ha|Ha]; [discriminate|].
    unfold keeper_swap_out in H. apply rbind_ok in H as ([t fee] & Hc & H).
    unfold calc_out in Hc. apply rbind_ok in Hc as ([gross fee'] & Hf & Hc). apply of_opt_ok in Hf.
    apply fee_out_ok in Hf as [Hgross Hnone].
    apply rbind_ok in Hc as ([[x t'] s0'] & Hi & Hc). injection Hc as <- <-.
    apply rbind_ok in H as (s1 & Hx & H). destruct (Z.ltb_spec maxin (rr_ain t')) as [Hgt|Hle]; [discriminate|].
    apply rbind_ok in H as (b & Hp & H). apply rbind_ok in H as (amt & Hamt & H). apply of_opt_ok in Hamt.
    apply chk_int_some in Hamt as [-> _]. injection H as <- <-. cbn [sr_tree sr_fee sr_amount bk].
    pose proof (inspect_header _ _ _ _ _ _ _ _ _ _ Hi) as (_ & _ & Hdi & Hdo & Hai & Hao). simpl in Hai, Hao.
    pose proof (exec_out_effect r Hv FIXED eq_refl eq_refl _ _ _ _ _ Hi _ _ Hx) as [Heff _].
    apply pay_fee_ok in Hp as [Hfee Hp].
    assert (0 <= fee'). { destruct prov; [apply Hfee; discriminate | rewrite (Hnone eq_refl); lia]. }
    repeat split; try assumption; try lia.
    - intros addr d Hn. rewrite Hp, (Heff addr d Hn), Hdo, Hao, Hai. reflexivity.
    - intros ->. apply Hnone. reflexivity.
  Qed.
  (* quote_equals_execution *)
  Theorem quote_equals_execution_in prov r a minout s s' resp :
    msg_swap_in PS px_in pn_in pacct FIXED rate v sender prov r a minout s = Ok (s', resp) ->
    query_in PS pq_in FIXED rate v (is_some prov) r a s = Ok resp.
  Proof.
    unfold msg_swap_in. intros H. apply rbind_ok in H as ([] & Hv0 & H). pose proof (validate_ok _ Hv0) as [Hv Hnd].
    apply nodupb_NoDup in Hnd.
    destruct (a <=? 0) eqn:Ea; [discriminate|]. destruct (minout <=? 0); [discriminate|].
    unfold keeper_swap_in in H. apply rbind_ok in H as ([[x t] s1] & Hi & H).
    apply rbind_ok in H as ([net fee] & Hf & H). destruct (net <? minout); [discriminate|].
    apply rbind_ok in H as (b & Hp & H). apply rbind_ok in H as (amt & Hamt & H). injection H as _ <-.
    unfold query_in, query_guard. rewrite Ea, Hv0. fold qin.
    replace (if v_query_validates v then Ok tt else Ok tt) with (@Ok unit tt) by (destruct (v_query_validates v); reflexivity).
    cbn [rbind].
    rewrite (quote_eq r Hv Hnd FIXED eq_refl _ _ _ _ _ Hi s (fun _ _ => eq_refl)). simpl.
    rewrite Hf. simpl. rewrite Hamt. reflexivity.
  Qed.
  Theorem quote_equals_execution_out prov r maxin aout s s' resp :
    msg_swap_out PS pq_out px_out pn_out pacct FIXED rate v sender prov r maxin aout s = Ok (s', resp) ->
    query_out PS pq_out FIXED rate v (is_some prov) r aout s =
      Ok {| sr_tree := sr_tree resp; sr_fee := sr_fee resp; sr_amount := rr_ain (sr_tree resp) |}.
  Proof.
    unfold msg_swap_out. intros H. apply rbind_ok in H as ([] & Hv0 & H).
    destruct (maxin <=? 0); [discriminate|]. destruct (aout <=? 0) eqn:Ea; [discriminate|].
    unfold keeper_swap_out in H. apply rbind_ok in H as ([t fee] & Hc & H).
    apply rbind_ok in H as (s1 & _ & H). destruct (maxin <? rr_ain t); [discriminate|].
    apply rbind_ok in H as (b & _ & H). apply rbind_ok in H as (amt & _ & H). injection H as _ <-.
    unfold query_out, query_guard. rewrite Ea, Hv0.
    replace (if v_query_validates v then Ok tt else Ok tt) with (@Ok unit tt) by (destruct (v_query_validates v); reflexivity).
    cbn [rbind]. rewrite Hc. reflexivity.
  Qed.
  (* only_input_needed *)
  Lemma validate_err r e : validate v r = Err e -> e = E_INVALID_ROUTE.
  Proof.
    unfold validate. destruct (validate_rec r).
    - destruct (nodupb (pools_of r)); [discriminate|]. destruct (v_reuse_err v); [|discriminate].
      intros H. injection H as <-. reflexivity.
    - intros H. injection H as <-. reflexivity.
  Qed.
  Lemma pay_fee_err prov dout fee b e : pay_fee sender prov dout fee b = Err e ->
    fee <= bal b sender dout -> e <> E_INSUFFICIENT.
  Proof.
    unfold pay_fee. destruct prov as [p|]; [|discriminate]. destruct (fee <? 0); [discriminate|].
    destruct (Z.ltb_spec 0 fee) as [Hp|Hp]; [|discriminate]. intros H Hb.
    apply bank_send_err in H as [[Hc ->]|[Hc ->]]; [discriminate|lia].
  Qed.

  Theorem only_input_needed_in prov r a minout s e :
    width_ok r = true -> a <= bal (bk s) sender (r_in r) -> funded s -> solvent_in (pools_of r) s ->
    msg_swap_in PS px_in pn_in pacct FIXED rate v sender prov r a minout s = Err e -> e <> E_INSUFFICIENT.
  Proof.
    intros Hw Hb Hf Hs. unfold msg_swap_in. intros H.
    apply rbind_err in H as [H|([] & Hv & H)]; [apply validate_err in H; subst e; discriminate|].
    apply validate_ok in Hv as [Hv Hnd]. apply nodupb_NoDup in Hnd.
    destruct (Z.leb_spec a 0) as [Ha|Ha]; [injection H as <-; discriminate|].
    destruct (Z.leb_spec minout 0) as [Hm|Hm]; [injection H as <-; discriminate|].
    unfold keeper_swap_in in H. apply rbind_err in H as [H|([[x t] s1] & Hi & H)].
    { assert (Ha0 : 0 <= a) by lia. exact (need_in r Hv Hw Hnd _ _ _ Ha0 Hb Hf Hs H). }
    apply rbind_err in H as [H|([net fee] & Hfe & H)]; [exfalso; eapply of_opt_not_err; eassumption|].
    apply of_opt_ok in Hfe. apply fee_in_ok in Hfe as [Hnet _].
    destruct (Z.ltb_spec net minout) as [Hlt|Hge]; [injection H as <-; discriminate|].
    apply rbind_err in H as [H|(b & _ & H)].
    - pose proof (exec_in_effect r Hv FIXED eq_refl _ _ _ _ _ Hi) as He.
      pose proof (inspect_header _ _ _ _ _ _ _ _ _ _ Hi) as (_ & Hx & _ & Hdo & _ & Hao). simpl in Hao.
      destruct (eff_funded _ _ _ _ _ _ _ He Hx Hb Hf) as (_ & Hb1 & _).
      eapply pay_fee_err; [exact H|]. rewrite Hdo. lia.
    - apply rbind_err in H as [H|(amt & _ & H)]; [exfalso; eapply of_opt_not_err; eassumption|discriminate].
  Qed.

  Theorem only_input_needed_out prov r maxin aout s e t fee :
    calc_out PS pq_out FIXED rate (is_some prov) r aout s = Ok (t, fee) ->
    rr_ain t <= bal (bk s) sender (r_in r) -> funded s -> solvent_out (pools_of r) s ->
    msg_swap_out PS pq_out px_out pn_out pacct FIXED rate v sender prov r maxin aout s = Err e -> e <> E_INSUFFICIENT.
  Proof.
    intros Hc Hb Hf Hs. unfold msg_swap_out. intros H.
    apply rbind_err in H as [H|([] & Hv & H)]; [apply validate_err in H; subst e; discriminate|].
    apply validate_ok in Hv as [Hv Hnd]. apply nodupb_NoDup in Hnd.
    destruct (Z.leb_spec maxin 0) as [Hm|Hm]; [injection H as <-; discriminate|].
    destruct (Z.leb_spec aout 0) as [Ha|Ha]; [injection H as <-; discriminate|].
    unfold keeper_swap_out in H. rewrite Hc in H. simpl in H.
    unfold calc_out in Hc. apply rbind_ok in Hc as ([gross fee'] & Hfe & Hc). apply of_opt_ok in Hfe.
    apply fee_out_ok in Hfe as [Hgross _].
    apply rbind_ok in Hc as ([[x t'] s0'] & Hi & Hc). injection Hc as <- <-.
    pose proof (inspect_header _ _ _ _ _ _ _ _ _ _ Hi) as (Hg0 & Hx & _ & Hdo & Hai & Hao). simpl in Hai, Hao.
    rewrite Hai in Hb.
    apply rbind_err in H as [H|(s1 & Hx1 & H)].
    { exact (need_out r Hv Hnd _ _ _ _ _ Hi s e (fun _ _ => eq_refl) Hb Hf Hs H). }
    destruct (Z.ltb_spec maxin (rr_ain t')) as [Hgt|Hle]; [injection H as <-; discriminate|].
    apply rbind_err in H as [H|(b & _ & H)].
    - pose proof (exec_out_effect r Hv FIXED eq_refl eq_refl _ _ _ _ _ Hi _ _ Hx1) as He.
      destruct (eff_funded _ _ _ _ _ _ _ He Hg0 Hb Hf) as (_ & Hb1 & _).
      eapply pay_fee_err; [exact H|]. rewrite Hdo. lia.
    - apply rbind_err in H as [H|(amt & _ & H)]; [exfalso; eapply of_opt_not_err; eassumption|discriminate].
  Qed.
  (* ---------------- settlement of a swap that arrives over IBC (Keeper.SwapIncomingFund):
     [sender] is the swap module account here *)
  Lemma keeper_in_effect prov r a minout s s' resp : validate_rec r = true ->
    keeper_swap_in PS px_in pn_in pacct FIXED rate sender prov r a minout s = Ok (s', resp) ->
    let t := sr_tree resp in
    rr_dout t = r_out r /\ rr_ain t = a /\ 0 <= rr_aout t /\
    sr_amount resp = rr_aout t - sr_fee resp /\ minout <= sr_amount resp /\ 0 <= sr_fee resp /\
    (forall addr d, (forall pid, addr <> pacct pid) ->
       bal (bk s') addr d = bal (bk s) addr d
         + (if addr =? sender then (if d =? r_out r then rr_aout t else 0) - (if d =? r_in r then a else 0) else 0)
         + fee_delta prov (r_out r) (sr_fee resp) addr d).
  Proof.
    intros Hv H. unfold keeper_swap_in in H. apply rbind_ok in H as ([[x t] s1] & Hi & H).
    apply rbind_ok in H as ([net fee] & Hf & H). apply of_opt_ok in Hf. apply fee_in_ok in Hf as [Hnet Hnone].
    destruct (Z.ltb_spec net minout) as [Hlt|Hge]; [discriminate|].
    apply rbind_ok in H as (b & Hp & H). apply rbind_ok in H as (amt & Hamt & H). apply of_opt_ok in Hamt.
    apply chk_int_some in Hamt as [-> _]. injection H as <- <-. cbn [sr_tree sr_fee sr_amount bk].
    pose proof (inspect_header _ _ _ _ _ _ _ _ _ _ Hi) as (_ & Hx0 & Hdi & Hdo & Hai & Hao). simpl in Hai, Hao.
    pose proof (exec_in_effect r Hv FIXED eq_refl _ _ _ _ _ Hi) as [Heff _].
    apply pay_fee_ok in Hp as [Hfee Hp].
    assert (0 <= fee). { destruct prov; [apply Hfee; discriminate | rewrite (Hnone eq_refl); lia]. }
    repeat split; try assumption; try lia.
    intros addr d Hn. rewrite Hp, (Heff addr d Hn), Hdo, Hao. reflexivity.
  Qed.
  Lemma keeper_out_effect prov r maxin aout s s' resp : validate_rec r = true ->
    keeper_swap_out PS pq_out px_out pn_out pacct FIXED rate sender prov r maxin aout s = Ok (s', resp) ->
    let t := sr_tree resp in
    rr_dout t = r_out r /\ rr_aout t = aout + sr_fee resp /\ 0 <= rr_aout t /\
    sr_amount resp = aout /\ rr_ain t <= maxin /\ 0 <= sr_fee resp /\
    (forall addr d, (forall pid, addr <> pacct pid) ->
       bal (bk s') addr d = bal (bk s) addr d
         + (if addr =? sender then (if d =? r_out r then rr_aout t else 0) - (if d =? r_in r then rr_ain t else 0) else 0)
         + fee_delta prov (r_out r) (sr_fee resp) addr d).
  Proof.
    intros Hv H. unfold keeper_swap_out in H. apply rbind_ok in H as ([t fee] & Hc & H).
    unfold calc_out in Hc. apply rbind_ok in Hc as ([gross fee'] & Hf & Hc). apply of_opt_ok in Hf.
    apply fee_out_ok in Hf as [Hgross Hnone].
    apply rbind_ok in Hc as ([[x t'] s0'] & Hi & Hc). injection Hc as <- <-.
    apply rbind_ok in H as (s1 & Hx & H). destruct (Z.ltb_spec maxin (rr_ain t')) as [Hgt|Hle]; [discriminate|].
    apply rbind_ok in H as (b & Hp & H). apply rbind_ok in H as (amt & Hamt & H). apply of_opt_ok in Hamt.
    apply chk_int_some in Hamt as [-> _]. injection H as <- <-. cbn [sr_tree sr_fee sr_amount bk].
    pose proof (inspect_header _ _ _ _ _ _ _ _ _ _ Hi) as (Hg0 & _ & Hdi & Hdo & Hai & Hao). simpl in Hai, Hao.
    pose proof (exec_out_effect r Hv FIXED eq_refl eq_refl _ _ _ _ _ Hi _ _ Hx) as [Heff _].
    apply pay_fee_ok in Hp as [Hfee Hp].
    assert (0 <= fee'). { destruct prov; [apply Hfee; discriminate | rewrite (Hnone eq_refl); lia]. }
    repeat split; try assumption; try lia.
    intros addr d Hn. rewrite Hp, (Heff addr d Hn), Hdo, Hao, Hai. reflexivity.
  Qed.

  (* what handing [net] of [dout] from the module account to [receiver] adds to [addr] in [d] *)
  Definition forward_delta (receiver dout net addr d : Z) : Z :=
    if d =? dout then (if addr =? receiver then net else 0) - (if addr =? sender then net else 0) else 0.

  (* incoming_fund_amounts: a successful SwapIncomingFund on a valid route. The receiver's net
     output is amount_out (exact-out) resp. >= min_amount_out (exact-in), the input spent is at
     most the incoming amount, and every non-pool account changes by the swap, the fee and the
     hand-over: in particular the module account keeps nothing of the output denom. *)
  Theorem incoming_fund_amounts receiver prov out r amt_in x s s' resp : validate_rec r = true ->
    swap_incoming_fund PS pq_out px_in px_out pn_in pn_out pacct FIXED rate sender receiver prov out r amt_in x s = Ok (s', resp) ->
    let t := sr_tree resp in
    sr_amount resp = rr_aout t - sr_fee resp /\ 0 <= sr_fee resp /\ rr_ain t <= amt_in /\
    (if out then sr_amount resp = x else rr_ain t = amt_in /\ x <= sr_amount resp) /\
    (forall addr d, (forall pid, addr <> pacct pid) ->
       bal (bk s') addr d = bal (bk s) addr d
         + (if addr =? sender then (if d =? r_out r then rr_aout t else 0) - (if d =? r_in r then rr_ain t else 0) else 0)
         + fee_delta prov (r_out r) (sr_fee resp) addr d
         + forward_delta receiver (r_out r) (sr_amount resp) addr d).
  Proof.
    intros Hv H. unfold swap_incoming_fund in H. apply rbind_ok in H as ([s1 resp1] & Hk & H).
    apply rbind_ok in H as (net & Hnet & H). apply of_opt_ok in Hnet. apply chk_int_some in Hnet as [-> _].
    destruct (Z.ltb_spec (rr_aout (sr_tree resp1) - sr_fee resp1) 0) as [Hneg|Hnn]; [discriminate|].
    apply rbind_ok in H as (b & Hb & H). injection H as <- <-. cbn [sr_tree sr_fee sr_amount bk].
    assert (Hfw : forall addr d, bal b addr d = bal (bk s1) addr d
              + forward_delta receiver (rr_dout (sr_tree resp1)) (rr_aout (sr_tree resp1) - sr_fee resp1) addr d).
    { unfold forward_delta. destruct (Z.eqb_spec (rr_aout (sr_tree resp1) - sr_fee resp1) 0) as [E|E].
      - injection Hb as <-. intros addr d. rewrite E. destruct (d =? _), (addr =? receiver), (addr =? sender); lia.
      - apply bank_send_ok in Hb as [_ Hb]. intros addr d. rewrite Hb.
        destruct (addr =? sender), (addr =? receiver), (d =? rr_dout (sr_tree resp1)); simpl; lia. }
    destruct out.
    - pose proof (keeper_out_effect prov r amt_in x s s1 resp1 Hv Hk) as Hx. cbv zeta in Hx.
      destruct Hx as (Hdo & Hao & _ & Hamt & Hmax & Hfee & Heff).
      repeat split; try assumption; try lia.
      intros addr d Hn. rewrite Hfw, (Heff addr d Hn), Hdo. reflexivity.
    - pose proof (keeper_in_effect prov r amt_in x s s1 resp1 Hv Hk) as Hx. cbv zeta in Hx.
      destruct Hx as (Hdo & Hai & _ & Hamt & Hmin & Hfee & Heff).
      repeat split; try assumption; try lia.
      intros addr d Hn. rewrite Hfw, (Heff addr d Hn), Hdo, Hai. reflexivity.
  Qed.

  Lemma keeper_in_need prov r a minout s e : validate_rec r = true -> NoDup (pools_of r) -> width_ok r = true ->
    0 <= a -> 0 < minout -> a <= bal (bk s) sender (r_in r) -> funded s -> solvent_in (pools_of r) s ->
    keeper_swap_in PS px_in pn_in pacct FIXED rate sender prov r a minout s = Err e -> e <> E_INSUFFICIENT.
  Proof.
    intros Hv Hnd Hw Ha Hm Hb Hf Hs H.
    unfold keeper_swap_in in H. apply rbind_err in H as [H|([[x t] s1] & Hi & H)].
    { exact (need_in r Hv Hw Hnd _ _ _ Ha Hb Hf Hs H). }
    apply rbind_err in H as [H|([net fee] & Hfe & H)]; [exfalso; eapply of_opt_not_err; eassumption|].
    apply of_opt_ok in Hfe. apply fee_in_ok in Hfe as [Hnet _].
    destruct (Z.ltb_spec net minout) as [Hlt|Hge]; [injection H as <-; discriminate|].
    apply rbind_err in H as [H|(b & _ & H)].
    - pose proof (exec_in_effect r Hv FIXED eq_refl _ _ _ _ _ Hi) as He.
      pose proof (inspect_header _ _ _ _ _ _ _ _ _ _ Hi) as (_ & Hx & _ & Hdo & _ & Hao). simpl in Hao.
      destruct (eff_funded _ _ _ _ _ _ _ He Hx Hb Hf) as (_ & Hb1 & _).
      eapply pay_fee_err; [exact H|]. rewrite Hdo. lia.
    - apply rbind_err in H as [H|(amt & _ & H)]; [exfalso; eapply of_opt_not_err; eassumption|discriminate].
  Qed.
  Lemma keeper_out_need prov r maxin aout s e t fee : validate_rec r = true -> NoDup (pools_of r) -> 0 < aout ->
    calc_out PS pq_out FIXED rate (is_some prov) r aout s = Ok (t, fee) ->
    rr_ain t <= bal (bk s) sender (r_in r) -> funded s -> solvent_out (pools_of r) s ->
    keeper_swap_out PS pq_out px_out pn_out pacct FIXED rate sender prov r maxin aout s = Err e -> e <> E_INSUFFICIENT.
  Proof.
    intros Hv Hnd Ha Hc Hb Hf Hs H.
    unfold keeper_swap_out in H. rewrite Hc in H. simpl in H.
    unfold calc_out in Hc. apply rbind_ok in Hc as ([gross fee'] & Hfe & Hc). apply of_opt_ok in Hfe.
    apply fee_out_ok in Hfe as [Hgross _].
    apply rbind_ok in Hc as ([[x t'] s0'] & Hi & Hc). injection Hc as <- <-.
    pose proof (inspect_header _ _ _ _ _ _ _ _ _ _ Hi) as (Hg0 & Hx & _ & Hdo & Hai & Hao). simpl in Hai, Hao.
    rewrite Hai in Hb.
    apply rbind_err in H as [H|(s1 & Hx1 & H)].
    { exact (need_out r Hv Hnd _ _ _ _ _ Hi s e (fun _ _ => eq_refl) Hb Hf Hs H). }
    destruct (Z.ltb_spec maxin (rr_ain t')) as [Hgt|Hle]; [injection H as <-; discriminate|].
    apply rbind_err in H as [H|(b & _ & H)].
    - pose proof (exec_out_effect r Hv FIXED eq_refl eq_refl _ _ _ _ _ Hi _ _ Hx1) as He.
      destruct (eff_funded _ _ _ _ _ _ _ He Hg0 Hb Hf) as (_ & Hb1 & _).
      eapply pay_fee_err; [exact H|]. rewrite Hdo. lia.
    - apply rbind_err in H as [H|(amt & _ & H)]; [exfalso; eapply of_opt_not_err; eassumption|discriminate].
  Qed.

  (* incoming_only_input: the module account holding only the incoming amount of the input denom
     (>= amount_in, resp. >= the quoted input) never meets an insufficient-funds failure, neither
     in the swap, nor in the fee transfer, nor in the hand-over to the receiver *)
  Theorem incoming_only_input receiver prov (out : bool) r amt_in x s e :
    validate_rec r = true -> NoDup (pools_of r) -> width_ok r = true -> 0 <= amt_in -> 0 < x ->
    funded s -> solvent_in (pools_of r) s -> solvent_out (pools_of r) s ->
    (if out then exists t fee, calc_out PS pq_out FIXED rate (is_some prov) r x s = Ok (t, fee) /\
                               rr_ain t <= bal (bk s) sender (r_in r)
     else amt_in <= bal (bk s) sender (r_in r)) ->
    swap_incoming_fund PS pq_out px_in px_out pn_in pn_out pacct FIXED rate sender receiver prov out r amt_in x s = Err e ->
    e <> E_INSUFFICIENT.
  Proof.
    intros Hv Hnd Hw Ha Hx Hf Hsi Hso Hpre H. unfold swap_incoming_fund in H.
    apply rbind_err in H as [H|([s1 resp1] & Hk & H)].
    { destruct out.
      - destruct Hpre as (t & fee & Hc & Hb). eapply (keeper_out_need prov r amt_in x s e t fee); eassumption.
      - eapply (keeper_in_need prov r amt_in x s e); eassumption. }
    apply rbind_err in H as [H|(net & Hnet & H)]; [exfalso; eapply of_opt_not_err; eassumption|].
    apply of_opt_ok in Hnet. apply chk_int_some in Hnet as [-> _].
    destruct (Z.ltb_spec (rr_aout (sr_tree resp1) - sr_fee resp1) 0) as [Hneg|Hnn]; [discriminate|].
    apply rbind_err in H as [H|(b & _ & H)]; [|discriminate].
    destruct (Z.eqb_spec (rr_aout (sr_tree resp1) - sr_fee resp1) 0) as [E|E]; [discriminate|].
    apply bank_send_err in H as [[Hc ->]|[Hc ->]]; [discriminate|]. exfalso.
    (* the module account holds at least gross - fee of the output denom after the keeper call *)
    assert (Hbal : rr_aout (sr_tree resp1) - sr_fee resp1 <= bal (bk s1) sender (rr_dout (sr_tree resp1))); [|lia].
    destruct out.
    - destruct Hpre as (t & fee & Hc' & Hb).
      pose proof (keeper_out_effect prov r amt_in x s s1 resp1 Hv Hk) as Hy. cbv zeta in Hy.
      destruct Hy as (Hdo & Hao & Hg0 & Hamt & Hmax & Hfee & Heff).
      assert (Ht : sr_tree resp1 = t).
      { unfold keeper_swap_out in Hk. rewrite Hc' in Hk. simpl in Hk.
        apply rbind_ok in Hk as (s2 & _ & Hk). destruct (amt_in <? rr_ain t); [discriminate|].
        apply rbind_ok in Hk as (b2 & _ & Hk). apply rbind_ok in Hk as (amt & _ & Hk). injection Hk as _ <-. reflexivity. }
      rewrite Ht in *. rewrite (Heff sender _ sender_not_pool), Hdo, !Z.eqb_refl. unfold fee_delta.
      pose proof (Hf (r_out r)) as Hf0.
      destruct prov as [p|]; rewrite ?Z.eqb_refl; [destruct (sender =? p)|]; destruct (Z.eqb_spec (r_out r) (r_in r)) as [Ed|Ed]; try rewrite Ed in *; lia.
    - pose proof (keeper_in_effect prov r amt_in x s s1 resp1 Hv Hk) as Hy. cbv zeta in Hy.
      destruct Hy as (Hdo & Hai & Hg0 & Hamt & Hmin & Hfee & Heff).
      rewrite (Heff sender _ sender_not_pool), Hdo, !Z.eqb_refl. unfold fee_delta.
      pose proof (Hf (r_out r)) as Hf0.
      destruct prov as [p|]; rewrite ?Z.eqb_refl; [destruct (sender =? p)|]; destruct (Z.eqb_spec (r_out r) (r_in r)) as [Ed|Ed]; try rewrite Ed in *; lia.
  Qed.
  End Msgs.
End PoolProofs.

(* ------------------------------------------------------------------ statements over a bundled contract *)
(* The oracle contract of the liquidity-pool keeper and the account layout, as one predicate.
   [sender] is the account that signs the swap. *)
Record lp_contract (PS : Type) (pq_in pq_out : PS -> Z -> Z -> Z -> res Z)
  (px_in px_out : PS -> Z -> Z -> Z -> res (Z * Z)) (pacct : Z -> Z) (sender : Z) : Prop := {
  lc_pacct_inj : forall p q, pacct p = pacct q -> p = q;
  lc_sender_not_pool : forall pid, sender <> pacct pid;
  lc_full_in : forall ps din dout a c o, px_in ps din dout a = Ok (c, o) -> c = a;
  lc_full_out : forall ps din dout a i g, px_out ps din dout a = Ok (i, g) -> g = a;
  lc_quote_in : forall ps din dout a c o, px_in ps din dout a = Ok (c, o) -> pq_in ps din dout a = Ok o;
  lc_quote_out : forall ps din dout a i g, px_out ps din dout a = Ok (i, g) -> pq_out ps din dout a = Ok i;
  lc_in_no_bank_err : forall ps din dout a e, px_in ps din dout a = Err e -> e <> E_INSUFFICIENT;
  lc_out_no_bank_err : forall ps din dout a e, px_out ps din dout a = Err e -> e <> E_INSUFFICIENT
}.

Section Bundled.
  Variable PS : Type.
  Variables (pq_in pq_out : PS -> Z -> Z -> Z -> res Z) (px_in px_out : PS -> Z -> Z -> Z -> res (Z * Z)).
  Variables (pn_in pn_out : PS -> Z -> Z -> Z -> PS) (pacct : Z -> Z) (sender : Z).
  Hypothesis C : lp_contract PS pq_in pq_out px_in px_out pacct sender.
  Variable rate : Z.
  Variable v : variant.

  (* the change of the balance of a non-pool account [addr] in denom [d] caused by a swap that
     moved [ain] of [din] into [aout] of [dout] for [sender] and paid [fee] to [prov] *)
  Definition swap_delta (prov : option Z) (din dout ain aout fee addr d : Z) : Z :=
    (if addr =? sender then (if d =? dout then aout else 0) - (if d =? din then ain else 0) else 0)
    + fee_delta sender prov dout fee addr d.

  Lemma b_exact_in_amounts prov r a minout s s' resp :
    msg_swap_in PS px_in pn_in pacct FIXED rate v sender prov r a minout s = Ok (s', resp) ->
    let t := sr_tree resp in
    0 < a /\ 0 < minout /\
    rr_din t = r_in r /\ rr_dout t = r_out r /\ rr_ain t = a /\
    sr_amount resp = rr_aout t - sr_fee resp /\ minout <= sr_amount resp /\ 0 <= sr_fee resp /\
    (forall addr d, (forall pid, addr <> pacct pid) ->
       bal (bk s') addr d = bal (bk s) addr d + swap_delta prov (r_in r) (r_out r) a (rr_aout t) (sr_fee resp) addr d) /\
    (prov = None -> sr_fee resp = 0).
  Proof.
    intros H. destruct C as [c1 c2 c3 c4 c5 c6 c7 c8].
    pose proof (exact_in_amounts PS pq_in pq_out px_in px_out pn_in pn_out pacct sender c1 c2 c3 c4 c5 c7 c8 c6
                  rate v prov r a minout s s' resp H) as Hx.
    cbv zeta in Hx |- *. destruct Hx as (? & ? & ? & ? & ? & ? & ? & ? & Hb & Hnf). repeat split; try assumption.
    intros addr d Hn. rewrite (Hb addr d Hn). unfold swap_delta. lia.
  Qed.

  Lemma b_exact_out_amounts prov r maxin aout s s' resp :
    msg_swap_out PS pq_out px_out pn_out pacct FIXED rate v sender prov r maxin aout s = Ok (s', resp) ->
    let t := sr_tree resp in
    0 < aout /\ 0 < maxin /\
    rr_din t = r_in r /\ rr_dout t = r_out r /\
    rr_aout t = aout + sr_fee resp /\ sr_amount resp = aout /\ rr_ain t <= maxin /\ 0 <= sr_fee resp /\
    (forall addr d, (forall pid, addr <> pacct pid) ->
       bal (bk s') addr d = bal (bk s) addr d + swap_delta prov (r_in r) (r_out r) (rr_ain t) (rr_aout t) (sr_fee resp) addr d) /\
    (prov = None -> sr_fee resp = 0).
  Proof.
    intros H. destruct C as [c1 c2 c3 c4 c5 c6 c7 c8].
    pose proof (exact_out_amounts PS pq_in pq_out px_in px_out pn_in pn_out pacct sender c1 c2 c3 c4 c5 c7 c8 c6
                  rate v prov r maxin aout s s' resp H) as Hx.
    cbv zeta in Hx |- *. destruct Hx as (? & ? & ? & ? & ? & ? & ? & ? & Hb & Hnf). repeat split; try assumption.
    intros addr d Hn. rewrite (Hb addr d Hn). unfold swap_delta. lia.
  Qed.

  Lemma b_quote_equals_execution_in prov r a minout s s' resp :
    msg_swap_in PS px_in pn_in pacct FIXED rate v sender prov r a minout s = Ok (s', resp) ->
    query_in PS pq_in FIXED rate v (is_some prov) r a s = Ok resp.
  Proof.
    destruct C as [c1 c2 c3 c4 c5 c6 c7 c8]. eapply quote_equals_execution_in; eassumption.
  Qed.
  Lemma b_quote_equals_execution_out prov r maxin aout s s' resp :
    msg_swap_out PS pq_out px_out pn_out pacct FIXED rate v sender prov r maxin aout s = Ok (s', resp) ->
    query_out PS pq_out FIXED rate v (is_some prov) r aout s =
      Ok {| sr_tree := sr_tree resp; sr_fee := sr_fee resp; sr_amount := rr_ain (sr_tree resp) |}.
  Proof. destruct C as [c1 c2 c3 c4 c5 c6 c7 c8]. eapply quote_equals_execution_out; eassumption. Qed.

  Lemma b_only_input_needed_in prov r a minout s e :
    width_ok r = true -> a <= bal (bk s) sender (r_in r) -> funded PS sender s ->
    solvent_in PS px_in pacct (pools_of r) s ->
    msg_swap_in PS px_in pn_in pacct FIXED rate v sender prov r a minout s = Err e -> e <> E_INSUFFICIENT.
  Proof.
    destruct C as [c1 c2 c3 c4 c5 c6 c7 c8]. eapply only_input_needed_in; eassumption.
  Qed.
  Lemma b_only_input_needed_out prov r maxin aout s e t fee :
    calc_out PS pq_out FIXED rate (is_some prov) r aout s = Ok (t, fee) ->
    rr_ain t <= bal (bk s) sender (r_in r) -> funded PS sender s ->
    solvent_out PS px_out pacct (pools_of r) s ->
    msg_swap_out PS pq_out px_out pn_out pacct FIXED rate v sender prov r maxin aout s = Err e -> e <> E_INSUFFICIENT.
  Proof.
    destruct C as [c1 c2 c3 c4 c5 c6 c7 c8]. eapply only_input_needed_out; eassumption.
  Qed.
  (* the property text, for the sender, when the interface provider is another account *)
  Lemma b_exact_in_sender prov r a minout s s' resp :
    prov <> Some sender ->
    msg_swap_in PS px_in pn_in pacct FIXED rate v sender prov r a minout s = Ok (s', resp) ->
    rr_ain (sr_tree resp) = a /\ minout <= sr_amount resp /\
    forall d, bal (bk s') sender d = bal (bk s) sender d
                + (if d =? r_out r then sr_amount resp else 0) - (if d =? r_in r then a else 0).
  Proof.
    intros Hp H. pose proof (b_exact_in_amounts prov r a minout s s' resp H) as Hx. cbv zeta in Hx.
    destruct Hx as (_ & _ & _ & _ & Hai & Hamt & Hmin & _ & Hb & Hnf). split; [exact Hai|]. split; [exact Hmin|].
    intros d. rewrite (Hb sender d (lc_sender_not_pool _ _ _ _ _ _ _ C)). unfold swap_delta, fee_delta.
    rewrite Z.eqb_refl, Hamt. destruct prov as [p|].
    - destruct (Z.eqb_spec sender p) as [E|E]; [subst p; congruence|]. destruct (d =? r_out r), (d =? r_in r); lia.
    - rewrite (Hnf eq_refl). destruct (d =? r_out r), (d =? r_in r); lia.
  Qed.
  Lemma b_exact_out_sender prov r maxin aout s s' resp :
    prov <> Some sender ->
    msg_swap_out PS pq_out px_out pn_out pacct FIXED rate v sender prov r maxin aout s = Ok (s', resp) ->
    sr_amount resp = aout /\ rr_ain (sr_tree resp) <= maxin /\
    forall d, bal (bk s') sender d = bal (bk s) sender d
                + (if d =? r_out r then aout else 0) - (if d =? r_in r then rr_ain (sr_tree resp) else 0).
  Proof.
    intros Hp H. pose proof (b_exact_out_amounts prov r maxin aout s s' resp H) as Hx. cbv zeta in Hx.
    destruct Hx as (_ & _ & _ & _ & Hao & Hamt & Hmax & _ & Hb & Hnf). split; [exact Hamt|]. split; [exact Hmax|].
    intros d. rewrite (Hb sender d (lc_sender_not_pool _ _ _ _ _ _ _ C)). unfold swap_delta, fee_delta.
    rewrite Z.eqb_refl, Hao. destruct prov as [p|].
    - destruct (Z.eqb_spec sender p) as [E|E]; [subst p; congruence|]. destruct (d =? r_out r), (d =? r_in r); lia.
    - rewrite (Hnf eq_refl). destruct (d =? r_out r), (d =? r_in r); lia.
  Qed.
  (* settlement of a swap arriving over IBC; [sender] is the swap module account *)
  Lemma b_incoming_fund_amounts receiver prov out r amt_in x s s' resp : validate_rec r = true ->
    swap_incoming_fund PS pq_out px_in px_out pn_in pn_out pacct FIXED rate sender receiver prov out r amt_in x s = Ok (s', resp) ->
    let t := sr_tree resp in
    sr_amount resp = rr_aout t - sr_fee resp /\ 0 <= sr_fee resp /\ rr_ain t <= amt_in /\
    (if out then sr_amount resp = x else rr_ain t = amt_in /\ x <= sr_amount resp) /\
    (forall addr d, (forall pid, addr <> pacct pid) ->
       bal (bk s') addr d = bal (bk s) addr d
         + swap_delta prov (r_in r) (r_out r) (rr_ain t) (rr_aout t) (sr_fee resp) addr d
         + forward_delta sender receiver (r_out r) (sr_amount resp) addr d).
  Proof.
    intros Hv H. destruct C as [c1 c2 c3 c4 c5 c6 c7 c8].
    pose proof (incoming_fund_amounts PS pq_in pq_out px_in px_out pn_in pn_out pacct sender c1 c2 c3 c4 c5 c7 c8 c6
                  rate receiver prov out r amt_in x s s' resp Hv H) as Hx.
    cbv zeta in Hx |- *. destruct Hx as (? & ? & ? & ? & Hb). repeat split; try assumption.
    intros addr d Hn. rewrite (Hb addr d Hn). unfold swap_delta. lia.
  Qed.
  Lemma b_incoming_only_input receiver prov (out : bool) r amt_in x s e :
    validate_rec r = true -> NoDup (pools_of r) -> width_ok r = true -> 0 <= amt_in -> 0 < x ->
    funded PS sender s -> solvent_in PS px_in pacct (pools_of r) s -> solvent_out PS px_out pacct (pools_of r) s ->
    (if out then exists t fee, calc_out PS pq_out FIXED rate (is_some prov) r x s = Ok (t, fee) /\
                               rr_ain t <= bal (bk s) sender (r_in r)
     else amt_in <= bal (bk s) sender (r_in r)) ->
    swap_incoming_fund PS pq_out px_in px_out pn_in pn_out pacct FIXED rate sender receiver prov out r amt_in x s = Err e ->
    e <> E_INSUFFICIENT.
  Proof. destruct C as [c1 c2 c3 c4 c5 c6 c7 c8]. eapply incoming_only_input; eassumption. Qed.
End Bundled.

(* ------------------------------------------------------------------ a concrete instance: witnesses *)
(* Constant-price pools (1:1, no fee) with ids 0..9, custody accounts 2*pid, sender = account 1
   holding 1000 of denom 1 and nothing else. Used for non-vacuity and for the regression
   lemmas about the functions before the repairs. *)
Definition V0 : variant := {| v_reuse_err := false; v_query_validates := false |}.
Definition toy_q (_ : unit) (din dout a : Z) : res Z :=
  if din =? dout then Err 21117 else if 1000000 <? a then Err E_INSUFFICIENT_LIQ else Ok a.
Definition toy_x (_ : unit) (din dout a : Z) : res (Z * Z) :=
  if din =? dout then Err 21117 else if 1000000 <? a then Err E_INSUFFICIENT_LIQ else Ok (a, a).
Definition toy_n (u : unit) (_ _ _ : Z) : unit := u.
Definition toy_pacct (pid : Z) : Z := 2 * pid.
Definition toy_bank : bank :=
  {| bal := fun a d => if a =? 1 then (if d =? 1 then 1000 else 0) else if Z.even a then 1000000 else 0;
     sup := fun _ => 0 |}.
Definition toy_st : st unit :=
  {| bk := toy_bank; pools := fun pid => if (0 <=? pid) && (pid <? 10) then Some tt else None |}.

Lemma toy_contract : lp_contract unit toy_q toy_q toy_x toy_x toy_pacct 1.
Proof.
  split; unfold toy_pacct, toy_q, toy_x; intros.
  - lia.
  - lia.
  - destruct (din =? dout); [discriminate|]. destruct (1000000 <? a); [discriminate|]. injection H as <- _. reflexivity.
  - destruct (din =? dout); [discriminate|]. destruct (1000000 <? a); [discriminate|]. injection H as _ <-. reflexivity.
  - destruct (din =? dout); [discriminate|]. destruct (1000000 <? a); [discriminate|]. injection H as _ <-. reflexivity.
  - destruct (din =? dout); [discriminate|]. destruct (1000000 <? a); [discriminate|]. injection H as <- _. reflexivity.
  - destruct (din =? dout); [injection H as <-; discriminate|]. destruct (1000000 <? a); [injection H as <-|]; discriminate.
  - destruct (din =? dout); [injection H as <-; discriminate|]. destruct (1000000 <? a); [injection H as <-|]; discriminate.
Qed.

Lemma toy_funded : funded unit 1 toy_st.
Proof. intros d. simpl. destruct (d =? 1); lia. Qed.
Lemma toy_solvent_in pids : solvent_in unit toy_x toy_pacct pids toy_st.
Proof.
  intros pid ps din dout a c o _ _ Hx. unfold toy_st, toy_bank, toy_pacct. cbn [bk bal].
  rewrite Z.even_mul. cbn [Z.even orb].
  destruct (Z.eqb_spec (2 * pid) 1) as [E|E]; [lia|]. unfold toy_x in Hx.
  destruct (din =? dout); [discriminate|]. destruct (Z.ltb_spec 1000000 a) as [Hl|Hl]; [discriminate|].
  injection Hx as _ <-. lia.
Qed.
Lemma toy_solvent_out pids : solvent_out unit toy_x toy_pacct pids toy_st.
Proof.
  intros pid ps din dout a c o _ _ Hx. unfold toy_st, toy_bank, toy_pacct. cbn [bk bal].
  rewrite Z.even_mul. cbn [Z.even orb].
  destruct (Z.eqb_spec (2 * pid) 1) as [E|E]; [lia|]. unfold toy_x in Hx.
  destruct (din =? dout); [discriminate|]. destruct (Z.ltb_spec 1000000 a) as [Hl|Hl]; [discriminate|].
  injection Hx as _ <-. lia.
Qed.

Definition nested_example : route :=
  RParallel 1 3
    [RSeries 1 3 [RParallel 1 2 [RPool 1 2 0; RPool 1 2 4] [P; P]; RPool 2 3 1];
     RPool 1 3 3;
     RSeries 1 3 [RPool 1 4 6; RPool 4 3 2]]
    [333333333333333333; P; 2 * P].

(* defect 1 before the repair: the 1:1 split of 100 is [50; 100], the sender pays 150 *)
Definition par11 : route := RParallel 1 2 [RPool 1 2 0; RPool 1 2 1] [P; P].
Lemma parallel_split_prefix_witness :
  split PREFIX [P; P] 100 = Some [50; 100] /\ split FIXED [P; P] 100 = Some [50; 50].
Proof. split; vm_compute; reflexivity. Qed.
Lemma parallel_overcharge_prefix_witness :
  (exists s' resp, msg_swap_in unit toy_x toy_n toy_pacct PREFIX 0 V0 1 None par11 100 1 toy_st = Ok (s', resp) /\
     rr_ain (sr_tree resp) = 100 /\ bal (bk s') 1 1 = bal (bk toy_st) 1 1 - 150) /\
  (exists s' resp, msg_swap_in unit toy_x toy_n toy_pacct FIXED 0 V0 1 None par11 100 1 toy_st = Ok (s', resp) /\
     rr_ain (sr_tree resp) = 100 /\ bal (bk s') 1 1 = bal (bk toy_st) 1 1 - 100).
Proof.
  split; (eexists; eexists; split; [vm_compute; reflexivity|]; vm_compute; split; reflexivity).
Qed.

(* defect 2 before the repair: a two-hop exact-out series fails for a sender who holds only the
   input denom (the last hop is executed first); after the repair it succeeds *)
Definition ser2 : route := RSeries 1 3 [RPool 1 2 0; RPool 2 3 1].
Lemma exact_out_series_order_prefix_witness :
  msg_swap_out unit toy_q toy_x toy_n toy_pacct PREFIX 0 V0 1 None ser2 1000 10 toy_st = Err E_INSUFFICIENT /\
  (exists t, calc_out unit toy_q PREFIX 0 false ser2 10 toy_st = Ok (t, 0) /\ rr_ain t = 10) /\
  (exists s' resp, msg_swap_out unit toy_q toy_x toy_n toy_pacct FIXED 0 V0 1 None ser2 1000 10 toy_st = Ok (s', resp) /\
     bal (bk s') 1 1 = 990 /\ bal (bk s') 1 2 = 0 /\ bal (bk s') 1 3 = 10).
Proof.
  split; [vm_compute; reflexivity|]. split.
  - eexists. split; vm_compute; reflexivity.
  - eexists; eexists; split; [vm_compute; reflexivity|]. vm_compute. repeat split; reflexivity.
Qed.

(* defect 3 (liquidity pool fills partially at its price limit): with a pool that consumes one
   unit less than the exact input, the response still says amount_in but the sender paid less *)
Definition toy_partial (_ : unit) (din dout a : Z) : res (Z * Z) := Ok (a - 1, a - 1).
Lemma partial_fill_witness :
  exists s' resp, msg_swap_in unit toy_partial toy_n toy_pacct FIXED 0 V0 1 None (RPool 1 2 0) 100 1 toy_st = Ok (s', resp) /\
    rr_ain (sr_tree resp) = 100 /\ bal (bk s') 1 1 = bal (bk toy_st) 1 1 - 99.
Proof. eexists; eexists; split; [vm_compute; reflexivity|]. vm_compute. split; reflexivity. Qed.

(* non-vacuity: the nested route is valid, within the width bound, and both messages succeed on
   the toy state under the contract *)
Lemma nested_example_runs :
  validate V0 nested_example = Ok tt /\ width_ok nested_example = true /\
  (exists s' resp, msg_swap_in unit toy_x toy_n toy_pacct FIXED 10000000000000000 V0 1 (Some 5) nested_example 999 1 toy_st = Ok (s', resp) /\
     0 < sr_fee resp /\ bal (bk s') 5 3 = bal (bk toy_st) 5 3 + sr_fee resp) /\
  (exists s' resp, msg_swap_out unit toy_q toy_x toy_n toy_pacct FIXED 10000000000000000 V0 1 (Some 5) nested_example 1000 500 toy_st = Ok (s', resp) /\
     sr_amount resp = 500).
Proof.
  split; [vm_compute; reflexivity|]. split; [vm_compute; reflexivity|]. split.
  - eexists; eexists; split; [vm_compute; reflexivity|]. vm_compute. split; reflexivity.
  - eexists; eexists; split; [vm_compute; reflexivity|]. vm_compute. reflexivity.
Qed.

(* non-vacuity of the incoming-fund statements: account 1 as the module account holding only
   1000 of the input denom, receiver 7, provider 5, 1% fee *)
Lemma incoming_example_runs :
  exists s' resp, swap_incoming_fund unit toy_q toy_x toy_x toy_n toy_n toy_pacct FIXED 10000000000000000 1 7 (Some 5) true
                    nested_example 1000 500 toy_st = Ok (s', resp) /\
    sr_amount resp = 500 /\ bal (bk s') 7 3 = bal (bk toy_st) 7 3 + 500 /\ bal (bk s') 1 3 = 0 /\
    bal (bk s') 1 1 = 1000 - rr_ain (sr_tree resp).
Proof. eexists; eexists; split; [vm_compute; reflexivity|]. vm_compute. repeat split; reflexivity. Qed.
