(* Correspondence + monitors for C19 (genesis export/import). Evaluated by generated cases files. *)
From Coq Require Import ZArith List Bool String.
Import ListNotations.
From Sunrise Require Export Base.Outcome Base.Check Sys.Genesis.
Local Open Scope Z_scope.

(* one observation = one module of one exported application state *)
Record c19_obs := {
  go_module : nat;                         (* position in [all_specs] *)
  go_prefixes : list (list Z);             (* the harness's prefix table for the module, in field order *)
  go_before : mstate;                      (* raw store before export, grouped by prefix *)
  go_unknown_before : store;               (* keys under none of the prefixes *)
  go_img : list (nat * Z * image);         (* (collection field, key) -> writes of the genesis setter for that entry *)
  go_cdef : list (nat * (Z * Z));          (* counter field -> entry written for count 0 *)
  go_after : option (mstate * store);      (* store of the fresh chain after InitChain on the export; None = export or import failed *)
  go_reexport_same : bool }.               (* ExportGenesis of the fresh chain = the export it was initialised from *)

Definition spec_of (n : nat) : modspec := nth n all_specs fee_spec.

Definition img_of (l : list (nat * Z * image)) : img_fn :=
  fun c k => match find (fun e => Nat.eqb (fst (fst e)) c && (snd (fst e) =? k)) l with
             | Some e => snd e | None => [] end.
Definition cdef_of (l : list (nat * (Z * Z))) : cdef_fn :=
  fun f => match find (fun e => Nat.eqb (fst e) f) l with Some e => snd e | None => (0, 0) end.

Fixpoint store_eqb (a c : store) : bool :=
  match a, c with
  | [], [] => true
  | (k, v) :: a', (k', v') :: c' => (k =? k') && (v =? v') && store_eqb a' c'
  | _, _ => false
  end.
Fixpoint mstate_eqb (a c : mstate) : bool :=
  match a, c with
  | [], [] => true
  | x :: a', y :: c' => store_eqb x y && mstate_eqb a' c'
  | _, _ => false
  end.
Fixpoint prefixes_eqb (a c : list (list Z)) : bool :=
  match a, c with
  | [], [] => true
  | x :: a', y :: c' => zl_eqb x y && prefixes_eqb a' c'
  | _, _ => false
  end.

(* the hypotheses of the round-trip theorem, decided on the observed state: every exported
   collection and index is what its setter rebuilds, counters exist, unused prefixes are empty *)
Definition field_ok_b (m : modspec) (img : img_fn) (s : mstate) (f : nat) : bool :=
  match role_of m f with
  | RParams => true
  | RCounter => true      (* an absent counter is normalised by the monitor, see [norm_field] *)
  | RColl => store_eqb (rebuild img f f (field s f)) (field s f)
  | RIndexOf c => store_eqb (rebuild img c f (field s c)) (field s f)
  | RLost => true
  | RDeclaredOnly => match field s f with [] => true | _ => false end
  end.
Definition wf_b (m : modspec) (img : img_fn) (s : mstate) : bool :=
  forallb (field_ok_b m img s) (seq 0 (nfields m)).

Definition c19_corr (o : c19_obs) : bool :=
  let m := spec_of (go_module o) in
  let img := img_of (go_img o) in
  prefixes_eqb (map f_prefix (m_fields m)) (go_prefixes o) &&
  Nat.eqb (List.length (go_before o)) (nfields m) &&
  wf_b m img (go_before o) &&
  match export m (cdef_of (go_cdef o)) (go_before o), go_after o with
  | Some g, Some (after, unknown_after) =>
      mstate_eqb (init m img g) after && match unknown_after with [] => true | _ => false end
  | None, None => true
  | _, _ => false
  end.

(* global numbering of (module, field): monitor code k = field k preserved, code 100+k = field k
   was non-empty before the export *)
Fixpoint offset (n : nat) (l : list modspec) : nat :=
  match n, l with
  | O, _ => O
  | S k, m :: tl => (nfields m + offset k tl)%nat
  | S _, [] => O
  end.
Definition gid (mod_idx f : nat) : Z := Z.of_nat (offset mod_idx all_specs + f + 1).

(* a counter that was never written reads as 0: absent and "0" are the same stored value *)
Definition norm_field (m : modspec) (cdef : cdef_fn) (f : nat) (s : store) : store :=
  match role_of m f, s with RCounter, [] => [cdef f] | _, _ => s end.

Definition c19_check (o : c19_obs) : list Z :=
  let m := spec_of (go_module o) in
  let cdef := cdef_of (go_cdef o) in
  flag 0 (c19_corr o) ++
  match go_after o with
  | None => [98]
  | Some (after, unknown_after) =>
    flat_map (fun f =>
      flag (gid (go_module o) f)
           (store_eqb (norm_field m cdef f (field (go_before o) f)) (norm_field m cdef f (field after f))))
      (seq 0 (nfields m)) ++
    flag 99 (store_eqb (go_unknown_before o) unknown_after) ++
    flag 97 (go_reexport_same o)
  end ++
  flat_map (fun f => match field (go_before o) f with [] => [] | _ => [100 + gid (go_module o) f] end)
           (seq 0 (nfields m)).

Definition run := run_cases c19_check.
