(* C06 proofs: the swap loop, one iteration at a time.  [Fees.loop_iter] is the body of
   [Pool.swap_loop] (proved here: swap_loop_unfold), its successful outcomes are characterised
   (loop_iter_inv), and invariants are lifted over the loop (swap_loop_inv). *)
From Coq Require Import ZArith Bool List Lia ZifyBool.
Import ListNotations.
From Sunrise Require Import Base.Outcome Base.Dec Base.DecLemmas Amm.Math Amm.Pool Amm.Fees.
Local Open Scope Z_scope.

Ltac sync1 :=
  match goal with
  | |- context [of_opt ?c] => destruct c; cbn [of_opt rbind]
  | |- context [tick_to_sqrt_price ?a ?b] => destruct (tick_to_sqrt_price a b); cbn [rbind]
  | |- context [sqrt_price_to_tick ?a ?b] => destruct (sqrt_price_to_tick a b); cbn [rbind]
  | |- context [let '(_, _) := ?p in _] => is_var p; destruct p
  | |- context [if ?c then _ else _] => destruct c; cbn [rbind]
  end.

Lemma swap_loop_unfold f ei b4q upd fee limit tp accv din iter st :
  swap_loop (S f) ei b4q upd fee limit tp accv din iter st =
  match loop_iter ei b4q upd fee limit tp accv din iter st with
  | Ok ItStop => Ok st
  | Ok (ItNext iter' st' _ _ _ _) => swap_loop f ei b4q upd fee limit tp accv din iter' st'
  | Err e => Err e
  | Panic => Panic
  end.
Proof.
  cbn [swap_loop]. unfold loop_iter.
  destruct (negb ((0 <? ss_remaining st) && negb (ss_sqrt st =? limit))); [reflexivity|].
  destruct iter as [|nt iter']; [reflexivity|].
  destruct ei, b4q, upd; cbn [rbind]; repeat (try reflexivity; sync1); try reflexivity.
Qed.

Lemma swap_loop_zero ei b4q upd fee limit tp accv din iter st st' :
  swap_loop 0 ei b4q upd fee limit tp accv din iter st = Ok st' -> st' = st.
Proof.
  cbn [swap_loop]. destruct (negb ((0 <? ss_remaining st) && negb (ss_sqrt st =? limit))); [|discriminate].
  intros H. injection H as <-. reflexivity.
Qed.

(* the tick record the crossing logic reads: the stored one (through the iterator) *)
Definition cross_cur (st : swap_state) (nt : tick) : tick :=
  match find_tick (ss_ticks st) (t_index nt) with Some t => t | None => nt end.

(* what one successful iteration did *)
Record iter_facts (ei b4q upd : bool) (fee limit : Z) (tp : tick_params) (accv : vec) (din : Z)
       (iter : list tick) (st : swap_state) (iter' : list tick) (st' : swap_state)
       (crossed recomputed : bool) (fc per : Z)
       (if_nt : tick) (if_tl : list tick) (if_next_sp if_spec if_other : Z) : Prop := {
  if_iter : iter = if_nt :: if_tl;
  if_cond : (0 <? ss_remaining st) && negb (ss_sqrt st =? limit) = true;
  if_sp : tick_to_sqrt_price (t_index if_nt) tp = Ok if_next_sp;
  if_step : (if ei then step_out_given_in b4q else step_in_given_out b4q)
              fee (ss_sqrt st) (sqrt_target b4q limit if_next_sp) (ss_liq st) (ss_remaining st)
            = Some (ss_sqrt st', if_spec, if_other, fc);
  if_fees : if upd then
              dadd (ss_fees st) fc = Some (ss_fees st') /\
              ((ss_liq st = 0 /\ per = 0 /\ ss_growth st' = ss_growth st) \/
               (ss_liq st <> 0 /\ dquoT fc (ss_liq st) = Some per /\ ss_growth st' = ss_growth st + per))
            else per = 0 /\ ss_growth st' = ss_growth st /\ ss_fees st' = ss_fees st;
  if_remaining : ss_remaining st' = (if ei then ss_remaining st - (if_spec + fc) else ss_remaining st - if_spec);
  if_calculated : ss_calculated st' = (if ei then ss_calculated st + if_other else ss_calculated st + (if_other + fc));
  if_cursor :
    (crossed = true /\ recomputed = false /\ if_next_sp = ss_sqrt st' /\ iter' = if_tl /\
     ss_tick st' = (if b4q then t_index if_nt - 1 else t_index if_nt) /\
     ss_liq st' = ss_liq st + (if b4q then - t_net (cross_cur st if_nt) else t_net (cross_cur st if_nt)) /\
     (if upd then exists g1 g2, vadd accv (vsingle din (ss_growth st')) = Some g1 /\
                   vsub g1 (t_growth (cross_cur st if_nt)) = Some g2 /\
                   ss_ticks st' = put_tick (ss_ticks st)
                     {| t_index := t_index if_nt; t_gross := t_gross (cross_cur st if_nt);
                        t_net := t_net (cross_cur st if_nt); t_growth := g2 |}
      else ss_ticks st' = ss_ticks st))
    \/
    (crossed = false /\ if_next_sp <> ss_sqrt st' /\ iter' = iter /\ ss_liq st' = ss_liq st /\ ss_ticks st' = ss_ticks st /\
     ((recomputed = true /\ sqrt_price_to_tick (ss_sqrt st') tp = Ok (ss_tick st') /\ ss_sqrt st <> ss_sqrt st') \/
      (recomputed = false /\ ss_tick st' = ss_tick st /\ ss_sqrt st' = ss_sqrt st)))
}.

Ltac norm_some :=
  repeat match goal with
  | H : dadd _ _ = Some _ |- _ => apply dadd_some in H
  | H : dsub _ _ = Some _ |- _ => apply dsub_some in H
  end.

Lemma loop_iter_inv ei b4q upd fee limit tp accv din iter st iter' st' crossed recomputed fc per :
  loop_iter ei b4q upd fee limit tp accv din iter st = Ok (ItNext iter' st' crossed recomputed fc per) ->
  exists nt tl next_sp spec other,
  iter_facts ei b4q upd fee limit tp accv din iter st iter' st' crossed recomputed fc per nt tl next_sp spec other.
Proof.
  unfold loop_iter. intros H.
  destruct ((0 <? ss_remaining st) && negb (ss_sqrt st =? limit)) eqn:Econd; cbn [negb] in H; [|discriminate].
  destruct iter as [|nt tl]; [discriminate|].
  destruct (tick_to_sqrt_price (t_index nt) tp) as [next_sp|e|] eqn:Esp; cbn [rbind] in H;
    [|destruct (e =? E_FUEL); discriminate|discriminate].
  match type of H with rbind (of_opt ?c) _ = _ => destruct c as [[[[computed spec] other] fc0]|] eqn:Estep; cbn [of_opt rbind] in H; [|discriminate] end.
  destruct ((computed =? ss_sqrt st) && negb (((if ei then spec else other) =? 0) && ((if ei then other else spec) =? 0))); [discriminate|].
  (* fees *)
  match type of H with rbind ?c _ = _ => destruct c as [[[growth fees] per0]| |] eqn:Efee; cbn [rbind] in H; try discriminate end.
  match type of H with rbind (of_opt ?c) _ = _ => destruct c as [in_fee|] eqn:Einfee; cbn [of_opt rbind] in H; [|discriminate] end.
  match type of H with rbind (of_opt ?c) _ = _ => destruct c as [remaining|] eqn:Erem; cbn [of_opt rbind] in H; [|discriminate] end.
  match type of H with rbind (of_opt ?c) _ = _ => destruct c as [calculated|] eqn:Ecalc; cbn [of_opt rbind] in H; [|discriminate] end.
  match type of H with rbind ?c _ = _ => destruct c as [[[[[[tick' liq'] ticks'] iter2] cr] rc]| |] eqn:Ecur; cbn [rbind] in H; try discriminate end.
  match type of H with (if ?c then _ else _) = _ => destruct c; [discriminate|] end.
  injection H as <- <- <- <- <- <-.
  apply dadd_some in Einfee.
  exists nt, tl, next_sp, spec, other.
  constructor; cbn [ss_remaining ss_calculated ss_sqrt ss_tick ss_liq ss_growth ss_fees ss_ticks].
  - reflexivity.
  - exact Econd.
  - exact Esp.
  - exact Estep.
  - destruct upd.
    + destruct (of_opt (dadd (ss_fees st) fc0)) as [fees'| |] eqn:Ef; cbn [rbind] in Efee; try discriminate.
      destruct (dadd (ss_fees st) fc0) as [f0|] eqn:Ef0; cbn [of_opt] in Ef; [|discriminate]. injection Ef as ->.
      destruct (Z.eqb_spec (ss_liq st) 0) as [Ez|Ez].
      * injection Efee as <- <- <-. split; [reflexivity|]. left. repeat split; assumption.
      * destruct (dquoT fc0 (ss_liq st)) as [p0|] eqn:Eq; cbn [of_opt rbind] in Efee; [|discriminate].
        destruct (dadd (ss_growth st) p0) as [g0|] eqn:Eg; cbn [of_opt rbind] in Efee; [|discriminate].
        injection Efee as <- <- <-. apply dadd_some in Eg. split; [reflexivity|]. right. repeat split; assumption.
    + injection Efee as <- <- <-. repeat split.
  - destruct ei; apply dsub_some in Erem; subst; [lia|reflexivity].
  - destruct ei; apply dadd_some in Ecalc; subst; [reflexivity|lia].
  - unfold cross_cur. destruct (Z.eqb_spec next_sp computed) as [Eq|Eq].
    + left.
      match type of Ecur with rbind ?c _ = _ => destruct c as [ticks2| |] eqn:Et; cbn [rbind] in Ecur; try discriminate end.
      match type of Ecur with rbind (of_opt ?c) _ = _ => destruct c as [l|] eqn:El; cbn [of_opt rbind] in Ecur; [|discriminate] end.
      injection Ecur as <- <- <- <- <- <-. apply dadd_some in El.
      repeat (split; [first [reflexivity|assumption]|]).
      destruct upd.
      * match type of Et with rbind (of_opt ?c) _ = _ => destruct c as [g1|] eqn:Eg1; cbn [of_opt rbind] in Et; [|discriminate] end.
        match type of Et with rbind (of_opt ?c) _ = _ => destruct c as [g2|] eqn:Eg2; cbn [of_opt rbind] in Et; [|discriminate] end.
        injection Et as <-. exists g1, g2. repeat split; assumption.
      * injection Et as <-. reflexivity.
    + right.
      match type of Ecur with (if ?c then _ else _) = _ => destruct c; [discriminate|] end.
      destruct (Z.eqb_spec (ss_sqrt st) computed) as [Eq2|Eq2]; cbn [negb] in Ecur.
      * injection Ecur as <- <- <- <- <- <-. repeat (split; [first [reflexivity|assumption]|]). right. repeat split. symmetry; assumption.
      * destruct (sqrt_price_to_tick computed tp) as [nt'| |] eqn:Ent; cbn [rbind] in Ecur; try discriminate.
        injection Ecur as <- <- <- <- <- <-. repeat (split; [first [reflexivity|assumption]|]). left. repeat split; assumption.
Qed.

(* ---------- lifting invariants over the loop ---------- *)
Lemma swap_loop_inv (I : list tick -> swap_state -> Prop) ei b4q upd fee limit tp accv din :
  (forall iter st iter' st' c r fc per,
     I iter st -> loop_iter ei b4q upd fee limit tp accv din iter st = Ok (ItNext iter' st' c r fc per) ->
     (r = true -> in_bucket b4q (ss_tick st) iter (ss_tick st')) -> I iter' st') ->
  forall fuel iter st st', I iter st -> cursor_ok fuel ei b4q upd fee limit tp accv din iter st ->
    swap_loop fuel ei b4q upd fee limit tp accv din iter st = Ok st' -> exists iter', I iter' st'.
Proof.
  intros Hstep. induction fuel as [|f IH]; intros iter st st' Hi Hc H.
  - apply swap_loop_zero in H. subst. exists iter. exact Hi.
  - rewrite swap_loop_unfold in H. cbn [cursor_ok] in Hc.
    destruct (loop_iter ei b4q upd fee limit tp accv din iter st) as [[|iter1 st1 c r fc per]|e|] eqn:E; try discriminate.
    + injection H as <-. exists iter. exact Hi.
    + destruct Hc as [Hb Hc]. eapply IH; [|exact Hc|exact H]. eapply Hstep; [exact Hi|exact E|exact Hb].
Qed.

(* without a cursor hypothesis *)
Lemma swap_loop_inv0 (I : list tick -> swap_state -> Prop) ei b4q upd fee limit tp accv din :
  (forall iter st iter' st' c r fc per,
     I iter st -> loop_iter ei b4q upd fee limit tp accv din iter st = Ok (ItNext iter' st' c r fc per) -> I iter' st') ->
  forall fuel iter st st', I iter st ->
    swap_loop fuel ei b4q upd fee limit tp accv din iter st = Ok st' -> exists iter', I iter' st'.
Proof.
  intros Hstep. induction fuel as [|f IH]; intros iter st st' Hi H.
  - apply swap_loop_zero in H. subst. exists iter. exact Hi.
  - rewrite swap_loop_unfold in H.
    destruct (loop_iter ei b4q upd fee limit tp accv din iter st) as [[|iter1 st1 c r fc per]|e|] eqn:E; try discriminate.
    + injection H as <-. exists iter. exact Hi.
    + eapply IH; [|exact H]. eapply Hstep; [exact Hi|exact E].
Qed.
