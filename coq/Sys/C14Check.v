(* Correspondence + monitors for C14, evaluated by the generated cases files.

   CBlock: one block of one generated history executed in N separate OS processes (Go
           randomises map iteration per process and per range statement); some of the processes
           are fresh, the others have run a different chain (other validator count, other
           replication factor, shard-index queries) before, so that process-local state differs.
           The monitors are the property statement on the observed digests: app hash,
           transaction results, events, DA fault counters identical on every run and node.
   CRepeat: one failing message with several independent defects, executed several times in every
           process on the same state: code, codespace, gas and log must be the same every time.
   CTally: the real Keeper.Tally on real staking/vote state against the model built from the
           loop step functions the theorems are about.
   CDa:    one CHALLENGING item resolved by the real EndBlocker against da_resolve. *)
From Coq Require Import ZArith List Bool.
Import ListNotations.
From Sunrise Require Export Base.Outcome Base.Dec Base.Check Sys.Coll Sys.Sites Sys.Determinism.
Local Open Scope Z_scope.

Definition all_same (l : list Z) : bool :=
  match l with [] => true | x :: t => forallb (Z.eqb x) t end.

Fixpoint zzlist_eqb (a b : list (Z * Z)) : bool :=
  match a, b with
  | [], [] => true
  | (x1, y1) :: a', (x2, y2) :: b' => (x1 =? x2) && (y1 =? y2) && zzlist_eqb a' b'
  | _, _ => false
  end.

Fixpoint blist_eqb (a b : list bool) : bool :=
  match a, b with
  | [], [] => true
  | x :: a', y :: b' => Bool.eqb x y && blist_eqb a' b'
  | _, _ => false
  end.

(* observed result of Keeper.Tally: Ok results | Err | Panic *)
Definition tally_corr (model obs : res (list (Z * Z))) : bool :=
  match model, obs with
  | Ok a, Ok b => zzlist_eqb a b
  | Err _, Err _ => true
  | Panic, Panic => true
  | _, _ => false
  end.

Record da_obs := {
  do_rejected : bool;            (* status after the block is REJECTED (else VERIFIED) *)
  do_refunds : list bool;        (* per invalidity, in store order: challenger got the collateral back (VERIFIED only) *)
  do_counters : list (Z * Z)     (* fault counters after the block, ascending validator id *)
}.

Definition da_corr (c : da_ctx) (entries : list (Z * Z)) (invs : list (list Z)) (counters0 : smap Z) (o : da_obs) : bool :=
  match da_resolve c entries invs counters0 with
  | Ok (rej, refunds, counters) =>
      Bool.eqb rej (do_rejected o) &&
      (if rej then true else blist_eqb refunds (do_refunds o)) &&
      zzlist_eqb counters (do_counters o)
  | _ => false
  end.

Inductive c14_case :=
| CBlock (height : Z) (apphash results events faults consensus : list Z)     (* one digest per process *)
| CRepeat (consensus full : list Z)   (* one failing multi-defect message: per execution, all processes: digest of
                                         (codespace, code, gas) and digest of the same plus the log text *)
| CTally (bonded : list (Z * Z * Z)) (votes : list gvote) (total_bonded : Z) (obs : res (list (Z * Z)))
| CDa (c : da_ctx) (entries : list (Z * Z)) (invs : list (list Z)) (counters0 : list (Z * Z)) (o : da_obs).

Definition c14_check (c : c14_case) : list Z :=
  match c with
  | CBlock _ a r e f c => flag 1 (all_same a) ++ flag 2 (all_same r) ++ flag 3 (all_same e) ++ flag 4 (all_same f) ++ flag 5 (all_same c)
  | CRepeat c f => flag 6 (all_same c) ++ flag 7 (all_same f)
  | CTally b v t o => flag 0 (tally_corr (gauge_tally b v t) o)
  | CDa c en invs c0 o => flag 0 (da_corr c en invs c0 o)
  end.

Definition run := run_cases c14_check.
