#!/bin/sh
# final_pass.sh: re-verify every kept seeded change against the committed checks, regenerate the
# seeded table, then re-run every quick check on the unchanged /repo so that evidence/ comes from
# clean-tree runs. Logs under /tmp/main/final (not needed afterwards).
cd "$(dirname "$0")/.." || exit 2
mkdir -p /tmp/main/final
all=$(ls seeded | grep '^C[0-9][0-9]')
ser=$(echo "$all" | grep '^C14\|^C15\|^C19')
par=$(echo "$all" | grep -v '^C14\|^C15\|^C19')
echo "== reverify (parallel part) $(date +%T)"
tools/reverify_seeded.sh -j 3 $par > /tmp/main/final/reverify-par.log 2>&1
echo "== reverify (translator properties, serial) $(date +%T)"
tools/reverify_seeded.sh -j 1 $ser > /tmp/main/final/reverify-ser.log 2>&1
python3 tools/seeded_results.py
echo "== clean-tree quick runs $(date +%T)"
tools/run_all.sh quick > /tmp/main/final/runall.log 2>&1
grep -c "VIOLATION" /tmp/main/final/runall.log
echo "== done $(date +%T)"
