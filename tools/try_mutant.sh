#!/bin/sh
# try_mutant.sh <ID> [tier]: rebase the seeded change in /tmp/mut/<ID> onto /repo's HEAD and run
# ./check <ID> against that worktree (VERIF_REPO), keeping the log in /tmp/main/mut/check-<ID>.log
id=$1; tier=${2:-quick}; wt=/tmp/mut/$id
cd $wt || exit 2
head=$(git -C /repo rev-parse HEAD)
if [ "$(git rev-parse HEAD)" != "$head" ]; then
  git diff -- . ':(exclude)*_test.go' > /tmp/mut/$id.srcpatch
  git stash -q -u && git checkout -q --detach $head && git stash pop -q || { echo "REBASE FAILED"; exit 3; }
fi
cd /verif && VERIF_HARNESS_CMD=dev_$(echo $id | tr A-Z a-z) VERIF_REPO=$wt timeout 3000 ./check $id --tier $tier > /tmp/main/mut/check-$id.log 2>&1
echo "exit=$?" >> /tmp/main/mut/check-$id.log
grep -v "^WARNING conda\|^KNOWN-FINDING" /tmp/main/mut/check-$id.log | tail -4
