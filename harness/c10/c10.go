// Package c10: non-voting delegation (x/shareclass) driven on the real application.
//
// A history of delegate / undelegate / claim / bank-send messages and blocks is executed on the
// full application (real staking, distribution, bank, tokenconverter). Around every operation
// the projection of the state the Coq model talks about is dumped; the case carries the dump
// before, the operation, the answers of the oracle modules, the result class and the dump after.
package c10

import (
	"fmt"
	"math/big"
	"time"

	sdkmath "cosmossdk.io/math"
	sdk "github.com/cosmos/cosmos-sdk/types"
	authtypes "github.com/cosmos/cosmos-sdk/x/auth/types"

	sctypes "github.com/sunriselayer/sunrise/x/shareclass/types"

	"verifharness/emit"
)

const (
	nUsers  = 5 // 0..3 act, 4 funds the fee collector and only receives
	nVals   = 3
	funder  = 4
	secondN = int64(1_000_000_000)
)

type runner struct {
	w     *world
	r     *emit.Rand
	cf    *emit.CasesFile
	st    *emit.Stats
	fresh [][]bool       // [user][validator]: claimed after the validator's last accrual
	ent   [][][]*big.Rat // [user][validator][denom]: entitlement accrued so far (exact)
	paid  [][][]*big.Int // [user][validator][denom]: paid so far
	maxE  int
	left  []int // per validator: who undelegated the last shares of the previous generation (-1 = nobody)
}

func newRunner(seed int64) *runner {
	rn := &runner{w: newWorld(nVals, nUsers), r: emit.NewRand(seed*1000003 + 17)} // emit.NewRand streams of neighbouring seeds are one draw apart: spread them
	me, err := rn.w.h.App.StakingKeeper.MaxEntries(rn.w.h.Ctx())
	if err != nil {
		panic(err)
	}
	rn.maxE = int(me)
	for v := 0; v < nVals; v++ {
		rn.left = append(rn.left, -1)
	}
	for u := 0; u < nUsers; u++ {
		rn.fresh = append(rn.fresh, make([]bool, nVals))
		var er [][]*big.Rat
		var pr [][]*big.Int
		for v := 0; v < nVals; v++ {
			var es []*big.Rat
			var ps []*big.Int
			for range denomNames {
				es = append(es, new(big.Rat))
				ps = append(ps, new(big.Int))
			}
			er = append(er, es)
			pr = append(pr, ps)
		}
		rn.ent = append(rn.ent, er)
		rn.paid = append(rn.paid, pr)
	}
	return rn
}

// do runs one op on the application and emits the case.
func (rn *runner) do(o op, tag string) outcome {
	w, h := rn.w, rn.w.h
	if o.Kind == kBlock && !o.Fees.IsZero() {
		if err := h.App.BankKeeper.SendCoinsFromAccountToModule(h.Ctx(), h.Accts[funder].Addr, authtypes.FeeCollectorName, o.Fees); err != nil {
			panic(err)
		}
	}
	// a share of the generated messages spell their address fields in upper case
	if tag[:3] == "gen" && (o.Kind == kClaim || o.Kind == kDelegate || o.Kind == kUndelegate) && o.V >= 0 && rn.r.Chance(1, 14) {
		o.Up = 1 + rn.r.Intn(7)
	}
	if o.Up != 0 {
		rn.st.Count("upper-case-address")
	}
	pre := w.dump(h.Ctx())
	now := h.Time.Add(o.Dt).UnixNano()
	out := w.apply(o)
	post := w.dump(h.Ctx())

	leak := make([]*big.Int, len(denomNames))
	for i := range leak {
		leak[i] = big.NewInt(0)
		if (o.Kind == kDelegate || o.Kind == kUndelegate) && out.Class == 0 {
			leak[i].Sub(post.MB[i], pre.MB[i])
		}
	}
	opTerm := o.coq()
	if o.Kind == kBlock {
		opTerm = fmt.Sprintf("(OEndBlock %d)", now)
	}
	// cells the message does not address and that did not change are not shown
	hide := map[int]bool{}
	if o.Kind != kBlock {
		for v := range pre.Cells {
			if v != o.V && pre.Cells[v].coq() == post.Cells[v].coq() {
				hide[v] = true
			}
		}
	}
	postTerm := emit.None()
	if !sameState(pre, post) {
		postTerm = emit.Some(post.coqRel(&pre, hide))
	}
	fresh, grem := false, "[]"
	actor := o.Kind == kClaim || o.Kind == kDelegate || o.Kind == kUndelegate
	if actor && o.V >= 0 {
		fresh = rn.fresh[o.U][o.V]
		var rs []string
		for d := range denomNames {
			rem := new(big.Rat).Sub(rn.ent[o.U][o.V][d], new(big.Rat).SetInt(rn.paid[o.U][o.V][d]))
			rs = append(rs, emit.App("zp", emit.Z(rem.Num()), emit.Z(rem.Denom())))
		}
		grem = emit.List(rs)
	}
	rw := make([]string, len(out.Rw))
	for i, r := range out.Rw {
		rw[i] = zlist(r)
	}
	rn.cf.Add(fmt.Sprintf("CStep (mkCase %s %d %s %d %s %s %s %s %d %s %s %s)", opTerm, out.Ct, emit.Z(out.Ret), rn.maxE, zlist(leak),
		emit.List(rw), emit.Z(out.Released), pre.coqRel(nil, hide), out.Class, postTerm, emit.Bool(fresh), grem))

	// statistics
	kind := []string{"claim", "delegate", "undelegate", "send-share", "block"}[o.Kind]
	rn.st.Count(fmt.Sprintf("%s:%d", kind, out.Class))
	rn.st.Evaluations++
	info := map[string]any{"op": o.String(), "class": out.Class, "tag": tag, "time": h.Time.Format(time.RFC3339Nano)}
	if out.Err != "" {
		info["err"] = out.Err
	}
	if actor && o.V >= 0 && out.Class == 0 {
		paid := []string{}
		any := false
		for d := range denomNames {
			p := new(big.Int).Sub(pre.Cells[o.V].S[d], post.Cells[o.V].S[d])
			paid = append(paid, p.String())
			any = any || p.Sign() > 0
		}
		info["paid"] = paid
		distinct := map[string]bool{}
		for _, s := range pre.Cells[o.V].Sh {
			if s.Sign() > 0 {
				distinct[s.String()] = true
			}
		}
		if any {
			rn.st.Count("claim-paid>0")
			if len(distinct) >= 2 {
				rn.st.Nontriv(fmt.Sprintf("%d/%d/%v", o.V, o.U, paid))
				rn.st.Sample(info)
			}
		}
		for d, l := range leak {
			if l.Sign() > 0 {
				rn.st.Count("hook-leak:" + denomNames[d])
			}
		}
	}
	if o.Kind == kBlock {
		info["released"] = out.Released.String()
		if len(pre.Queue) != len(post.Queue) {
			rn.st.Count("block:paid-unbondings")
		}
		for _, q := range pre.Queue {
			if q.Time/secondN == now/secondN && q.Time > now {
				rn.st.Count("block:same-second-before-completion")
				break
			}
		}
	}
	rn.st.Info(info)

	if o.Kind == kUndelegate && o.V >= 0 && out.Class == 0 && post.Cells[o.V].T.Sign() == 0 && pre.Cells[o.V].T.Sign() > 0 {
		rn.left[o.V] = o.U
		for d := range denomNames {
			if post.Cells[o.V].M[d].C.Sign() > 0 {
				rn.st.Count("generation-exit:supply-zero-with-positive-multiplier")
				break
			}
		}
	}
	if o.Kind == kDelegate && o.V >= 0 && out.Class == 0 && pre.Cells[o.V].T.Sign() == 0 {
		for d := range denomNames {
			if pre.Cells[o.V].M[d].C.Sign() > 0 {
				if o.U != rn.left[o.V] {
					rn.st.Count("generation-entry:other-account-opens-after-exit")
				} else {
					rn.st.Count("generation-entry:leaver-reopens")
				}
				break
			}
		}
	}
	// ghosts
	if actor && o.V >= 0 && out.Class == 0 {
		rn.fresh[o.U][o.V] = true
		for d := range denomNames {
			rn.paid[o.U][o.V][d].Add(rn.paid[o.U][o.V][d], new(big.Int).Sub(pre.Cells[o.V].S[d], post.Cells[o.V].S[d]))
		}
	}
	if o.Kind == kBlock && out.Class == 0 {
		for v := range w.vals {
			for d := range denomNames {
				// what the saver received is owed pro rata to the shares held now
				if recv := new(big.Int).Sub(post.Cells[v].S[d], pre.Cells[v].S[d]); recv.Sign() > 0 && pre.Cells[v].T.Sign() > 0 {
					for u := 0; u < nUsers; u++ {
						x := new(big.Rat).SetFrac(new(big.Int).Mul(recv, pre.Cells[v].Sh[u]), pre.Cells[v].T)
						rn.ent[u][v][d].Add(rn.ent[u][v][d], x)
					}
				}
				if !pre.Cells[v].M[d].eq(post.Cells[v].M[d]) {
					for u := 0; u < nUsers; u++ {
						rn.fresh[u][v] = false
					}
				}
			}
		}
	}
	return out
}

func bi(x int64) *big.Int { return big.NewInt(x) }

func coins(pairs ...any) sdk.Coins {
	cs := sdk.NewCoins()
	for i := 0; i+1 < len(pairs); i += 2 {
		cs = cs.Add(sdk.NewCoin(pairs[i].(string), sdkmath.NewIntFromBigInt(pairs[i+1].(*big.Int))))
	}
	return cs
}

// corpus: the witnesses of the repaired defects and of the known findings, run first.
func (rn *runner) corpus() {
	h := rn.w.h
	ms := time.Millisecond
	rn.corpusZeroSaver()
	rn.do(op{Kind: kDelegate, U: 0, V: 0, Amt: bi(1_000_000)}, "corpus")
	rn.do(op{Kind: kDelegate, U: 1, V: 0, Amt: bi(3_000_000)}, "corpus")
	rn.do(op{Kind: kDelegate, U: 2, V: 1, Amt: bi(2_000_000)}, "corpus")
	rn.do(op{Kind: kBlock, Dt: 1000 * ms}, "corpus")
	rn.do(op{Kind: kBlock, Dt: 1300 * ms, Fees: coins("urise", bi(3_000_000), "uusdc", bi(500_000))}, "corpus")
	rn.do(op{Kind: kBlock, Dt: 1300 * ms}, "corpus")
	// checkpoint witness: the same rewards must not be claimable again, and u1 must still be paid
	rn.do(op{Kind: kClaim, U: 0, V: 0}, "corpus:checkpoint")
	rn.do(op{Kind: kClaim, U: 0, V: 0}, "corpus:checkpoint")
	rn.do(op{Kind: kClaim, U: 0, V: 0}, "corpus:checkpoint")
	rn.do(op{Kind: kClaim, U: 1, V: 0}, "corpus:checkpoint")
	rn.do(op{Kind: kDelegate, U: 1, V: 0, Amt: bi(1)}, "corpus:checkpoint")
	rn.do(op{Kind: kSend, U: 0, U2: 3, V: 0, Amt: bi(5)}, "corpus:send")
	// unbonding that completes at a sub-second offset (.6 s), paid to a third party
	rn.do(op{Kind: kUndelegate, U: 2, V: 1, Amt: bi(500_000), Rcp: 3}, "corpus:subsecond")
	// seven undelegations of one delegator in distinct blocks, then another delegator's
	for i := 0; i < 7; i++ {
		rn.do(op{Kind: kUndelegate, U: 0, V: 0, Amt: bi(2), Rcp: -3}, "corpus:max-entries")
		rn.do(op{Kind: kBlock, Dt: 1100 * ms}, "corpus:max-entries")
	}
	rn.do(op{Kind: kUndelegate, U: 1, V: 0, Amt: bi(1000), Rcp: -3}, "corpus:max-entries")
	// a block in the second of the first completion, before it
	q := rn.w.dump(h.Ctx()).Queue
	if len(q) > 0 {
		first := q[0].Time
		target := time.Unix(0, first-first%secondN).Add(100 * ms)
		if out := rn.do(op{Kind: kBlock, Dt: target.Sub(h.Time)}, "corpus:subsecond"); out.Class != 0 {
			rn.st.Notes = append(rn.st.Notes, "EndBlock failed in the second of a completion, before it: "+out.Err)
		}
		rn.do(op{Kind: kBlock, Dt: time.Unix(0, first).Sub(h.Time)}, "corpus:subsecond")
		rn.do(op{Kind: kBlock, Dt: 2 * time.Second}, "corpus:subsecond")
	}
	// run past every completion, then the delegator left on validator 2 takes the rest out
	if q := rn.w.dump(h.Ctx()).Queue; len(q) > 0 {
		last := q[0].Time
		for _, e := range q {
			if e.Time > last {
				last = e.Time
			}
		}
		rn.do(op{Kind: kBlock, Dt: time.Unix(0, last).Sub(h.Time) + time.Second}, "corpus:completion")
	}
	rn.do(op{Kind: kUndelegate, U: 0, V: 2, Amt: bi(600_000), Rcp: -3}, "corpus:overdraw")
	rn.do(op{Kind: kBlock, Dt: 1300 * ms}, "corpus:overdraw")
	// address strings in upper case decode to the same accounts: they must address the same share
	// class (one denom, one supply, one set of multipliers per validator)
	rn.do(op{Kind: kDelegate, U: 1, V: 0, Amt: bi(3_000_000), Up: 1}, "corpus:upper-case")
	rn.do(op{Kind: kClaim, U: 1, V: 0, Up: 3}, "corpus:upper-case")
	rn.do(op{Kind: kUndelegate, U: 1, V: 0, Amt: bi(2_000_000), Rcp: 3, Up: 7}, "corpus:upper-case")
	rn.do(op{Kind: kBlock, Dt: 1300 * ms}, "corpus:upper-case")
}

// corpusZeroSaver: a delegator joins (or returns) while the reward saver holds exactly nothing of
// a denom whose multiplier is already positive. A sole holder of 10^6 shares is paid exactly
// everything (reward / 10^6 is a finite decimal, x 10^6 is the reward), in urise and in uusdc;
// then the second delegator comes, more rewards arrive through real blocks, and both claim:
// joiner first on validator 2 (where the joiner is a returning delegator who had undelegated
// everything), incumbent first on validator 1. Regression for a claim that advances the
// checkpoints only of the denoms the saver currently holds.
func (rn *runner) corpusZeroSaver() {
	ms := time.Millisecond
	tag := "corpus:zero-saver"
	m := bi(1_000_000)
	rn.do(op{Kind: kBlock, Dt: 600 * ms}, tag) // completion times below end in .6 s
	rn.do(op{Kind: kDelegate, U: 3, V: 2, Amt: m}, tag)
	rn.do(op{Kind: kDelegate, U: 0, V: 2, Amt: m}, tag)
	rn.do(op{Kind: kUndelegate, U: 3, V: 2, Amt: m, Rcp: -3}, tag) // leaves completely, returns below
	rn.do(op{Kind: kDelegate, U: 1, V: 1, Amt: m}, tag)
	// (x/distribution gives a delegation no rewards for the block in which it was touched: the
	// messages above belong to the next block, so let that block pass before fees arrive)
	rn.do(op{Kind: kBlock, Dt: 1300 * ms}, tag)
	f1 := coins("urise", bi(3_000_000), "uusdc", bi(600_000))
	rn.do(op{Kind: kBlock, Dt: 1300 * ms, Fees: f1}, tag)
	rn.do(op{Kind: kBlock, Dt: 1300 * ms}, tag)
	rn.do(op{Kind: kClaim, U: 0, V: 2}, tag) // sole holders: paid everything
	rn.do(op{Kind: kClaim, U: 1, V: 1}, tag)
	d := rn.w.dump(rn.w.h.Ctx())
	for _, v := range []int{1, 2} {
		for _, dn := range []int{0, 2} {
			if d.Cells[v].S[dn].Sign() == 0 && d.Cells[v].M[dn].C.Sign() > 0 {
				rn.st.Count("corpus:saver-zero-with-positive-multiplier")
			}
		}
	}
	rn.do(op{Kind: kDelegate, U: 3, V: 2, Amt: m}, tag) // returning delegator
	rn.do(op{Kind: kDelegate, U: 2, V: 1, Amt: m}, tag) // new delegator
	rn.do(op{Kind: kBlock, Dt: 1300 * ms}, tag)
	f2 := coins("urise", bi(24_000_000), "uusdc", bi(4_800_000))
	rn.do(op{Kind: kBlock, Dt: 1300 * ms, Fees: f2}, tag)
	rn.do(op{Kind: kBlock, Dt: 1300 * ms}, tag)
	rn.do(op{Kind: kClaim, U: 3, V: 2}, tag) // joiner first
	rn.do(op{Kind: kClaim, U: 0, V: 2}, tag)
	rn.do(op{Kind: kClaim, U: 1, V: 1}, tag) // incumbent first
	rn.do(op{Kind: kClaim, U: 2, V: 1}, tag)
	rn.corpusGeneration()
}

// corpusGeneration: a whole generation of delegators leaves validator 1 (share supply back to
// exactly 0, the module's delegation gone, the multipliers still positive), then an account that
// never delegated to it opens the next generation, another one joins, rewards arrive through real
// blocks and the first one claims, then the second. Whoever opens a generation must be
// checkpointed at the historic multipliers like any other joiner.
func (rn *runner) corpusGeneration() {
	ms := time.Millisecond
	tag := "corpus:generation"
	m := bi(1_000_000)
	rn.do(op{Kind: kUndelegate, U: 1, V: 1, Amt: m, Rcp: -3}, tag)
	rn.do(op{Kind: kUndelegate, U: 2, V: 1, Amt: m, Rcp: 3}, tag) // the last one leaves: supply 0
	d := rn.w.dump(rn.w.h.Ctx())
	if d.Cells[1].T.Sign() == 0 && d.Cells[1].B == nil && d.Cells[1].M[0].C.Sign() > 0 {
		rn.st.Count("corpus:supply-zero-with-positive-multiplier")
	}
	rn.do(op{Kind: kBlock, Dt: 1300 * ms}, tag)
	rn.do(op{Kind: kDelegate, U: 3, V: 1, Amt: m}, tag) // never delegated to validator 1 before
	rn.do(op{Kind: kDelegate, U: 0, V: 1, Amt: bi(3_000_000)}, tag)
	rn.do(op{Kind: kBlock, Dt: 1300 * ms}, tag)
	rn.do(op{Kind: kBlock, Dt: 1300 * ms, Fees: coins("urise", bi(60_000_000), "uusdc", bi(12_000_000))}, tag) // large: an inflated claim would be payable
	rn.do(op{Kind: kBlock, Dt: 1300 * ms}, tag)
	rn.do(op{Kind: kClaim, U: 3, V: 1}, tag)
	rn.do(op{Kind: kClaim, U: 0, V: 1}, tag)
	rn.corpusOverdraw()
}

// corpusOverdraw: undelegations of more than the sender's shares are worth, with another
// delegator on the same validator (validator 2: u0 and u3 hold 10^6 shares each against
// 2*10^6 staked): almost twice the value, the value plus one, a non-holder asking for a part
// and for the whole of the pooled delegation; then exactly the value; then the remaining
// delegator: value plus dust, a part. corpus() ends by running past every completion and the
// remaining delegator's exit.
func (rn *runner) corpusOverdraw() {
	tag := "corpus:overdraw"
	rn.do(op{Kind: kUndelegate, U: 3, V: 2, Amt: bi(1_900_000), Rcp: -3}, tag)
	rn.do(op{Kind: kUndelegate, U: 3, V: 2, Amt: bi(1_000_001), Rcp: -3}, tag)
	rn.do(op{Kind: kUndelegate, U: funder, V: 2, Amt: bi(100_000), Rcp: -3}, tag)
	rn.do(op{Kind: kUndelegate, U: funder, V: 2, Amt: bi(2_000_000), Rcp: -3}, tag)
	rn.do(op{Kind: kUndelegate, U: 3, V: 2, Amt: bi(1_000_000), Rcp: -3}, tag) // exactly the value
	rn.do(op{Kind: kUndelegate, U: 0, V: 2, Amt: bi(1_000_003), Rcp: -3}, tag) // value plus dust
	rn.do(op{Kind: kUndelegate, U: 0, V: 2, Amt: bi(400_000), Rcp: 3}, tag)
}

// Run generates n cases from seed, runs them on the real application and writes
// cases_*.v and stats.json into outDir.
func Run(seed int64, n int, outDir string) error {
	rn := newRunner(seed)
	defer rn.w.h.Close()
	rn.st = emit.NewStats("C10", seed, "step: one message or block on the full application, compared with the model on the dumped state; non-trivial when a claim (explicit or inside delegate/undelegate) paid > 0 while >= 2 delegators of the validator held different share amounts, distinct by (validator, user, amounts paid). pure: types.Calculate* on generated integers")
	rn.cf = &emit.CasesFile{Import: "Stake.C10Check", Runner: "run", Type: "c10_any"}
	rn.corpus()
	for i := 0; i < n; i++ {
		rn.genStep()
	}
	for i := 0; i < n/2; i++ {
		rn.genPure()
	}
	rn.st.Extra["final_time"] = rn.w.h.Time.Format(time.RFC3339Nano)
	if _, err := rn.cf.Write(outDir, "cases", 40); err != nil {
		return err
	}
	return rn.st.Write(outDir)
}

var _ = sctypes.ModuleName
