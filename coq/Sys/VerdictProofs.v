(* C01: the verdicts the check computes for a price -> tick search (Loops.up_verdict /
   down_verdict) are facts about the loop: [Hangs] = out of fuel for every fuel up to 10^7,
   [Returns n] = some fuel of at most max(n, cap) iterations suffices. *)
From Coq Require Import ZArith Bool List Lia ZifyBool.
Import ListNotations.
From Sunrise Require Import Base.Outcome Base.Dec Base.DecLemmas Amm.Math Amm.Pool Sys.Loops Sys.LoopsProofs.
Local Open Scope Z_scope.
Local Open Scope res_scope.
Ltac Zify.zify_post_hook ::= Z.div_mod_to_equations.

Lemma run_up_spec g offset ratio : forall cap n mp,
  match run_up g cap n mp offset ratio with
  | inl _ => exists j, (j <= cap)%nat /\ forall t, search_up_g g j mp offset ratio t <> Err E_FUEL
  | inr (mp', stalled) => exists j, (j <= cap)%nat /\ offset < mp' /\
      (forall fuel t, search_up_g g (j + fuel) mp offset ratio t = search_up_g g fuel mp' offset ratio (t + Z.of_nat j)) /\
      (stalled = true -> g = false /\ dquo mp' ratio = Some mp')
  end.
Proof.
  induction cap as [|c IH]; intros n mp; cbn [run_up].
  - destruct (Z.leb_spec mp offset) as [Hle|Hgt].
    + exists 0%nat. split; [lia|]. intros t. cbn [search_up_g]. destruct (Z.leb_spec mp offset); [discriminate|lia].
    + exists 0%nat. split; [lia|]. split; [exact Hgt|]. split; [|discriminate].
      intros fuel t. cbn [plus Z.of_nat]. rewrite Z.add_0_r. reflexivity.
  - destruct (Z.leb_spec mp offset) as [Hle|Hgt].
    + exists 0%nat. split; [lia|]. intros t. cbn [search_up_g]. destruct (Z.leb_spec mp offset); [discriminate|lia].
    + destruct (dquo mp ratio) as [mp'|] eqn:Hq.
      * destruct (g && negb (mp' <? mp)) eqn:Hg.
        { exists 1%nat. split; [lia|]. intros t. cbn [search_up_g]. destruct (Z.leb_spec mp offset); [lia|].
          rewrite Hq. cbn [of_opt rbind]. rewrite Hg. discriminate. }
        destruct (Z.eqb_spec mp' mp) as [->|Hne].
        { exists 0%nat. split; [lia|]. split; [exact Hgt|]. split.
          - intros fuel t. cbn [plus Z.of_nat]. rewrite Z.add_0_r. reflexivity.
          - intros _. split; [|exact Hq]. destruct g; [|reflexivity]. cbn in Hg. rewrite Z.ltb_irrefl in Hg. discriminate. }
        specialize (IH (n + 1) mp').
        destruct (run_up g c (n + 1) mp' offset ratio) as [k|[mp2 st]].
        { destruct IH as (j & Hj & Hs). exists (S j). split; [lia|]. intros t. cbn [search_up_g].
          destruct (Z.leb_spec mp offset); [lia|]. rewrite Hq. cbn [of_opt rbind]. rewrite Hg. apply Hs. }
        { destruct IH as (j & Hj & Ho & Hs & Hst). exists (S j). split; [lia|]. split; [exact Ho|]. split; [|exact Hst].
          intros fuel t. cbn [plus search_up_g]. destruct (Z.leb_spec mp offset); [lia|].
          rewrite Hq. cbn [of_opt rbind]. rewrite Hg. rewrite Hs. f_equal. lia. }
      * exists 1%nat. split; [lia|]. intros t. cbn [search_up_g]. destruct (Z.leb_spec mp offset); [lia|].
        rewrite Hq. discriminate.
Qed.

Lemma run_down_spec g offset ratio : forall cap n mp,
  match run_down g cap n mp offset ratio with
  | inl _ => exists j, (j <= cap)%nat /\ forall t, search_down_g g j mp offset ratio t <> Err E_FUEL
  | inr (mp', stalled) => exists j, (j <= cap)%nat /\ mp' < offset /\
      (forall fuel t, search_down_g g (j + fuel) mp offset ratio t = search_down_g g fuel mp' offset ratio (t - Z.of_nat j)) /\
      (stalled = true -> g = false /\ dmul mp' ratio = Some mp')
  end.
Proof.
  induction cap as [|c IH]; intros n mp; cbn [run_down].
  - destruct (Z.leb_spec offset mp) as [Hle|Hgt].
    + exists 0%nat. split; [lia|]. intros t. cbn [search_down_g]. destruct (Z.leb_spec offset mp); [discriminate|lia].
    + exists 0%nat. split; [lia|]. split; [exact Hgt|]. split; [|discriminate].
      intros fuel t. cbn [plus Z.of_nat]. rewrite Z.sub_0_r. reflexivity.
  - destruct (Z.leb_spec offset mp) as [Hle|Hgt].
    + exists 0%nat. split; [lia|]. intros t. cbn [search_down_g]. destruct (Z.leb_spec offset mp); [discriminate|lia].
    + destruct (dmul mp ratio) as [mp'|] eqn:Hq.
      * destruct (g && negb (mp <? mp')) eqn:Hg.
        { exists 1%nat. split; [lia|]. intros t. cbn [search_down_g]. destruct (Z.leb_spec offset mp); [lia|].
          rewrite Hq. cbn [of_opt rbind]. rewrite Hg. discriminate. }
        destruct (Z.eqb_spec mp' mp) as [->|Hne].
        { exists 0%nat. split; [lia|]. split; [exact Hgt|]. split.
          - intros fuel t. cbn [plus Z.of_nat]. rewrite Z.sub_0_r. reflexivity.
          - intros _. split; [|exact Hq]. destruct g; [|reflexivity]. cbn in Hg. rewrite Z.ltb_irrefl in Hg. discriminate. }
        specialize (IH (n + 1) mp').
        destruct (run_down g c (n + 1) mp' offset ratio) as [k|[mp2 st]].
        { destruct IH as (j & Hj & Hs). exists (S j). split; [lia|]. intros t. cbn [search_down_g].
          destruct (Z.leb_spec offset mp); [lia|]. rewrite Hq. cbn [of_opt rbind]. rewrite Hg. apply Hs. }
        { destruct IH as (j & Hj & Ho & Hs & Hst). exists (S j). split; [lia|]. split; [exact Ho|]. split; [|exact Hst].
          intros fuel t. cbn [plus search_down_g]. destruct (Z.leb_spec offset mp); [lia|].
          rewrite Hq. cbn [of_opt rbind]. rewrite Hg. rewrite Hs. f_equal. lia. }
      * exists 1%nat. split; [lia|]. intros t. cbn [search_down_g]. destruct (Z.leb_spec offset mp); [lia|].
        rewrite Hq. discriminate.
Qed.

(* out of fuel after j steps at a price still beyond the offset, hence for every smaller fuel too *)
Lemma prefix_out_of_fuel_up g offset ratio mp mp' j :
  (forall fuel t, search_up_g g (j + fuel) mp offset ratio t = search_up_g g fuel mp' offset ratio (t + Z.of_nat j)) ->
  offset < mp' ->
  forall Fmax, (forall f t, Z.of_nat f <= Fmax -> search_up_g g f mp' offset ratio t = Err E_FUEL) -> 0 <= Fmax ->
  forall fuel t, Z.of_nat fuel <= Fmax -> search_up_g g fuel mp offset ratio t = Err E_FUEL.
Proof.
  intros Hs Ho Fmax Hall HF fuel t Hf.
  destruct (le_lt_dec j fuel) as [Hge|Hlt].
  - replace fuel with (j + (fuel - j))%nat by lia. rewrite Hs. apply Hall. lia.
  - assert (Hj : search_up_g g j mp offset ratio t = Err E_FUEL).
    { replace j with (j + 0)%nat by lia. rewrite Hs. apply Hall. lia. }
    destruct (search_up_fuel_mono g ratio offset fuel j mp t ltac:(lia) Hj) as (_ & H & _). exact H.
Qed.
Lemma prefix_out_of_fuel_down g offset ratio mp mp' j :
  (forall fuel t, search_down_g g (j + fuel) mp offset ratio t = search_down_g g fuel mp' offset ratio (t - Z.of_nat j)) ->
  forall Fmax, (forall f t, Z.of_nat f <= Fmax -> search_down_g g f mp' offset ratio t = Err E_FUEL) -> 0 <= Fmax ->
  forall fuel t, Z.of_nat fuel <= Fmax -> search_down_g g fuel mp offset ratio t = Err E_FUEL.
Proof.
  intros Hs Fmax Hall HF fuel t Hf.
  destruct (le_lt_dec j fuel) as [Hge|Hlt].
  - replace fuel with (j + (fuel - j))%nat by lia. rewrite Hs. apply Hall. lia.
  - assert (Hj : search_down_g g j mp offset ratio t = Err E_FUEL).
    { replace j with (j + 0)%nat by lia. rewrite Hs. apply Hall. lia. }
    exact (search_down_fuel_mono g ratio offset fuel j mp t ltac:(lia) Hj).
Qed.

Theorem up_verdict_hangs_sound g cap mp offset ratio :
  up_verdict g cap mp offset ratio = Hangs ->
  forall fuel t, Z.of_nat fuel <= LIMIT -> search_up_g g fuel mp offset ratio t = Err E_FUEL.
Proof.
  unfold up_verdict. pose proof (run_up_spec g offset ratio cap 0 mp) as Hr.
  destruct (run_up g cap 0 mp offset ratio) as [k|[mp' st]]; [discriminate|].
  destruct Hr as (j & Hj & Ho & Hs & Hst). intros H.
  destruct st.
  - destruct (Hst eq_refl) as (-> & Hq). clear H.
    apply (prefix_out_of_fuel_up false offset ratio mp mp' j Hs Ho LIMIT); [|unfold LIMIT; lia].
    intros f t _. apply search_up_stall; assumption.
  - destruct ((1 <=? ratio - P) && (0 <=? offset) && (ratio <=? 2 * (ratio - P) * offset) &&
              (search_up_bound ratio mp <? LIMIT)); [discriminate|].
    destruct ((1 <=? ratio - P) && (0 <=? offset) && (2 * ratio <=? offset * (ratio - P)) && (0 <=? mp') &&
              (mp' <=? DEC_LIM) && (LIMIT <=? search_up_lower ratio mp' offset)) eqn:E; [|discriminate].
    apply (prefix_out_of_fuel_up g offset ratio mp mp' j Hs Ho LIMIT); [|unfold LIMIT; lia].
    intros f t Hf. apply search_up_at_least; lia.
Qed.

Theorem up_verdict_returns_sound g cap mp offset ratio n :
  up_verdict g cap mp offset ratio = Returns n ->
  exists fuel, Z.of_nat fuel <= Z.max n (Z.of_nat cap) /\ forall t, search_up_g g fuel mp offset ratio t <> Err E_FUEL.
Proof.
  unfold up_verdict. pose proof (run_up_spec g offset ratio cap 0 mp) as Hr.
  destruct (run_up g cap 0 mp offset ratio) as [k|[mp' st]].
  - intros H. injection H as <-. destruct Hr as (j & Hj & Hs). exists j. split; [lia|exact Hs].
  - destruct st; [discriminate|].
    destruct ((1 <=? ratio - P) && (0 <=? offset) && (ratio <=? 2 * (ratio - P) * offset) &&
              (search_up_bound ratio mp <? LIMIT)) eqn:E.
    + intros H. injection H as <-.
      destruct (Z_le_gt_dec 0 (search_up_bound ratio mp)) as [Hb|Hb].
      * exists (Z.to_nat (search_up_bound ratio mp)). split; [lia|]. intros t.
        apply search_up_terminates; lia.
      * exists 0%nat. split; [lia|]. intros t. apply search_up_terminates; lia.
    + destruct ((1 <=? ratio - P) && (0 <=? offset) && (2 * ratio <=? offset * (ratio - P)) && (0 <=? mp') &&
                (mp' <=? DEC_LIM) && (LIMIT <=? search_up_lower ratio mp' offset)); discriminate.
Qed.

Theorem down_verdict_hangs_sound g cap mp offset ratio :
  down_verdict g cap mp offset ratio = Hangs ->
  forall fuel t, Z.of_nat fuel <= LIMIT -> search_down_g g fuel mp offset ratio t = Err E_FUEL.
Proof.
  unfold down_verdict. pose proof (run_down_spec g offset ratio cap 0 mp) as Hr.
  destruct (run_down g cap 0 mp offset ratio) as [k|[mp' st]]; [discriminate|].
  destruct Hr as (j & Hj & Ho & Hs & Hst). intros H.
  destruct st.
  - destruct (Hst eq_refl) as (-> & Hq). clear H.
    apply (prefix_out_of_fuel_down false offset ratio mp mp' j Hs LIMIT); [|unfold LIMIT; lia].
    intros f t _. apply search_down_stall; assumption.
  - destruct (negb g && (0 <? ratio) && (ratio <=? P) && (0 <=? mp') && (mp' <=? DEC_LIM)) eqn:E.
    + destruct g; [discriminate E|].
      apply (prefix_out_of_fuel_down false offset ratio mp mp' j Hs LIMIT); [|unfold LIMIT; lia].
      intros f t _. apply price_ratio_le_one_diverges; lia.
    + destruct ((1 <=? ratio - P) && (P <? 2 * (ratio - P) * mp) && (0 <=? mp) &&
                (search_down_bound ratio offset <? LIMIT)); discriminate.
Qed.

Theorem down_verdict_returns_sound g cap mp offset ratio n :
  down_verdict g cap mp offset ratio = Returns n ->
  exists fuel, Z.of_nat fuel <= Z.max n (Z.of_nat cap) /\ forall t, search_down_g g fuel mp offset ratio t <> Err E_FUEL.
Proof.
  unfold down_verdict. pose proof (run_down_spec g offset ratio cap 0 mp) as Hr.
  destruct (run_down g cap 0 mp offset ratio) as [k|[mp' st]].
  - intros H. injection H as <-. destruct Hr as (j & Hj & Hs). exists j. split; [lia|exact Hs].
  - destruct st; [discriminate|].
    destruct (negb g && (0 <? ratio) && (ratio <=? P) && (0 <=? mp') && (mp' <=? DEC_LIM)); [discriminate|].
    destruct ((1 <=? ratio - P) && (P <? 2 * (ratio - P) * mp) && (0 <=? mp) &&
              (search_down_bound ratio offset <? LIMIT)) eqn:E; [|discriminate].
    intros H. injection H as <-.
    destruct (Z_le_gt_dec 0 (search_down_bound ratio offset)) as [Hb|Hb].
    + exists (Z.to_nat (search_down_bound ratio offset)). split; [lia|]. intros t.
      apply search_down_terminates; lia.
    + exists 0%nat. split; [lia|]. intros t. apply search_down_terminates; lia.
Qed.
