// Package c01: block processing never halts (full-application histories through the real
// FinalizeBlock, watchdog children for transactions that may not return).
package c01

import "fmt"

// Run generates n cases from seed, runs them on the real application and writes
// cases_*.v and stats.json into outDir.
func Run(seed int64, n int, outDir string) error {
	return fmt.Errorf("c01: harness not built yet")
}
