// Package c17: gauge voting, epochs and the per-block emission split of x/liquidityincentive,
// driven on the real application.
//
// Staking graphs are built with the real staking message server (delegate / undelegate /
// create-validator) and the staking keeper's Slash / Jail; gauge votes go through the real
// MsgVoteGauge handler; liquidity pools and positions through the real liquiditypool handlers.
// Case kinds:
//   CVote   one MsgVoteGauge (valid and malformed) with the vote store before and after
//   CTally  one call of Keeper.Tally on the current staking graph and votes
//   CBegin  one call of Keeper.BeginBlocker on a chosen fee-collector balance (cache context)
//   CBlock  one real FinalizeBlock+Commit: emission at its begin, epoch creation/pruning at its end
package c17

import (
	"fmt"
	"math/big"
	"sort"
	"strings"
	"time"

	sdkmath "cosmossdk.io/math"
	stakingkeeper "cosmossdk.io/x/staking/keeper"
	stakingtypes "cosmossdk.io/x/staking/types"
	"github.com/cosmos/cosmos-sdk/crypto/keys/ed25519"
	sdk "github.com/cosmos/cosmos-sdk/types"
	authtypes "github.com/cosmos/cosmos-sdk/x/auth/types"

	likeeper "github.com/sunriselayer/sunrise/x/liquidityincentive/keeper"
	litypes "github.com/sunriselayer/sunrise/x/liquidityincentive/types"
	lpkeeper "github.com/sunriselayer/sunrise/x/liquiditypool/keeper"
	lptypes "github.com/sunriselayer/sunrise/x/liquiditypool/types"

	"verifharness/apph"
	"verifharness/emit"
)

const bond = "uvrise"

type world struct {
	h      *apph.H
	ids    map[string]int64
	nextID int64
	stk    stakingtypes.MsgServer
	li     litypes.MsgServer
	lp     lptypes.MsgServer
	nvals  int
	npools uint64
	st     *emit.Stats
	log    []string
	feeCol sdk.AccAddress
	// ghost: every epoch the harness has seen appear in the store, in creation order, as it was
	// stored when it appeared (kept by the harness only; never read back from the application)
	created []litypes.Epoch
}

func newWorld(numVals, numAccts int, st *emit.Stats) *world {
	h := apph.New(apph.Options{NumAccounts: numAccts, NumValidators: numVals})
	w := &world{h: h, ids: map[string]int64{}, nextID: 1, st: st, nvals: numVals}
	w.stk = stakingkeeper.NewMsgServerImpl(h.App.StakingKeeper)
	w.li = likeeper.NewMsgServerImpl(h.App.LiquidityincentiveKeeper)
	w.lp = lpkeeper.NewMsgServerImpl(h.App.LiquiditypoolKeeper)
	w.feeCol = authtypes.NewModuleAddress(authtypes.FeeCollectorName)
	return w
}

func (w *world) id(addr []byte) int64 {
	k := string(addr)
	if v, ok := w.ids[k]; ok {
		return v
	}
	w.ids[k] = w.nextID
	w.nextID++
	return w.ids[k]
}
func (w *world) note(format string, a ...any) { w.log = append(w.log, fmt.Sprintf(format, a...)) }
func (w *world) takeLog() []string            { l := w.log; w.log = nil; return l }

func raw(d sdkmath.LegacyDec) *big.Int { return d.BigInt() }
func pair(a, b string) string         { return "(" + a + ", " + b + ")" }

// ---- pools ----

func (w *world) createPool(base, quote string) (uint64, error) {
	var id uint64
	err := apph.Tx(w.h.Ctx(), func(ctx sdk.Context) error {
		r, e := w.lp.CreatePool(ctx, &lptypes.MsgCreatePool{Authority: w.h.Accts[0].Addr.String(), DenomBase: base, DenomQuote: quote,
			FeeRate: "0.01", PriceRatio: "1.0001", BaseOffset: "0.5"})
		if e == nil {
			id = r.Id
		}
		return e
	})
	w.note("create-pool %s/%s id=%d err=%v", base, quote, id, err)
	if err == nil {
		w.npools++
	}
	return id, err
}

func (w *world) createPosition(owner sdk.AccAddress, pool uint64, lower, upper int64, base, quote string, amt int64) (uint64, error) {
	var id uint64
	err := apph.Tx(w.h.Ctx(), func(ctx sdk.Context) error {
		r, e := w.lp.CreatePosition(ctx, &lptypes.MsgCreatePosition{Sender: owner.String(), PoolId: pool, LowerTick: lower, UpperTick: upper,
			TokenBase: sdk.NewInt64Coin(base, amt), TokenQuote: sdk.NewInt64Coin(quote, amt), MinAmountBase: sdkmath.ZeroInt(), MinAmountQuote: sdkmath.ZeroInt()})
		if e == nil {
			id = r.Id
		}
		return e
	})
	w.note("create-position pool=%d [%d,%d) id=%d err=%v", pool, lower, upper, id, err)
	return id, err
}

// status of a pool as liquiditypool's AllocateIncentive will treat a positive allocation:
// PoolErr (missing / no position), PoolZeroLiq (positions but zero in-range liquidity), PoolOk
func (w *world) poolStatus(ctx sdk.Context, id uint64) string {
	p, found, err := w.h.App.LiquiditypoolKeeper.GetPool(ctx, id)
	if err != nil || !found || !p.HasPosition(ctx) {
		return "PoolErr"
	}
	liq, err := sdkmath.LegacyNewDecFromStr(p.CurrentTickLiquidity)
	if err != nil {
		return "PoolErr"
	}
	if liq.IsZero() {
		return "PoolZeroLiq"
	}
	return "PoolOk"
}

func (w *world) feesBal(ctx sdk.Context, pool uint64) sdkmath.Int {
	return w.h.Bal(ctx, lptypes.NewPoolFeesAddress(pool), bond)
}

// ---- staking graph operations ----

func (w *world) allVals() []stakingtypes.Validator {
	vs, err := w.h.App.StakingKeeper.GetAllValidators(w.h.Ctx())
	if err != nil {
		panic(err)
	}
	sort.Slice(vs, func(i, j int) bool { return vs[i].OperatorAddress < vs[j].OperatorAddress })
	return vs
}
func (w *world) valBytes(v stakingtypes.Validator) []byte {
	bz, err := w.h.App.StakingKeeper.ValidatorAddressCodec().StringToBytes(v.OperatorAddress)
	if err != nil {
		panic(err)
	}
	return bz
}
func (w *world) delegate(from sdk.AccAddress, val string, amt sdkmath.Int) error {
	err := apph.Tx(w.h.Ctx(), func(ctx sdk.Context) error {
		_, e := w.stk.Delegate(ctx, &stakingtypes.MsgDelegate{DelegatorAddress: from.String(), ValidatorAddress: val, Amount: sdk.NewCoin(bond, amt)})
		return e
	})
	w.note("delegate %s -> %s %s err=%v", from, val, amt, err)
	return err
}
func (w *world) undelegate(from sdk.AccAddress, val string, amt sdkmath.Int) error {
	err := apph.Tx(w.h.Ctx(), func(ctx sdk.Context) error {
		_, e := w.stk.Undelegate(ctx, &stakingtypes.MsgUndelegate{DelegatorAddress: from.String(), ValidatorAddress: val, Amount: sdk.NewCoin(bond, amt)})
		return e
	})
	w.note("undelegate %s -> %s %s err=%v", from, val, amt, err)
	return err
}
func (w *world) slash(v stakingtypes.Validator, frac sdkmath.LegacyDec) error {
	cons, err := v.GetConsAddr()
	if err != nil {
		return err
	}
	err = apph.Tx(w.h.Ctx(), func(ctx sdk.Context) error {
		power := v.GetConsensusPower(w.h.App.StakingKeeper.PowerReduction(ctx))
		_, e := w.h.App.StakingKeeper.Slash(ctx, cons, w.h.Height, power, frac)
		return e
	})
	w.note("slash %s by %s err=%v", v.OperatorAddress, frac, err)
	return err
}
func (w *world) jail(v stakingtypes.Validator, unjail bool) error {
	cons, err := v.GetConsAddr()
	if err != nil {
		return err
	}
	err = apph.Tx(w.h.Ctx(), func(ctx sdk.Context) error {
		if unjail {
			return w.h.App.StakingKeeper.Unjail(ctx, cons)
		}
		return w.h.App.StakingKeeper.Jail(ctx, cons)
	})
	w.note("jail(unjail=%v) %s err=%v", unjail, v.OperatorAddress, err)
	return err
}
func (w *world) createValidator(op sdk.AccAddress, amt sdkmath.Int) error {
	pk := ed25519.GenPrivKeyFromSecret([]byte(fmt.Sprintf("verif-c17-newval-%d", w.nvals))).PubKey()
	valStr, err := w.h.App.StakingKeeper.ValidatorAddressCodec().BytesToString(op)
	if err != nil {
		return err
	}
	msg, err := stakingtypes.NewMsgCreateValidator(valStr, pk, sdk.NewCoin(bond, amt),
		stakingtypes.Description{Moniker: fmt.Sprintf("v%d", w.nvals)},
		stakingtypes.NewCommissionRates(sdkmath.LegacyNewDecWithPrec(1, 1), sdkmath.LegacyNewDecWithPrec(2, 1), sdkmath.LegacyNewDecWithPrec(1, 2)),
		sdkmath.OneInt())
	if err != nil {
		return err
	}
	err = apph.Tx(w.h.Ctx(), func(ctx sdk.Context) error {
		_, e := w.stk.CreateValidator(ctx, msg)
		return e
	})
	w.note("create-validator %s %s err=%v", valStr, amt, err)
	if err == nil {
		w.nvals++
	}
	return err
}

func (w *world) amount(r *emit.Rand) sdkmath.Int {
	switch r.Intn(6) {
	case 0:
		return sdkmath.NewInt(int64(1 + r.Intn(9)))
	case 1:
		return sdkmath.NewInt(1_000_000 * int64(1+r.Intn(50)))
	default:
		return sdkmath.NewIntFromBigInt(r.LogUniform(13))
	}
}

func (w *world) mutate(r *emit.Rand) {
	vals := w.allVals()
	v := vals[r.Intn(len(vals))]
	a := w.h.Accts[r.Intn(len(w.h.Accts))].Addr
	kind := r.Intn(14)
	var err error
	var name string
	switch {
	case kind < 7:
		name = "delegate"
		err = w.delegate(a, v.OperatorAddress, w.amount(r))
	case kind < 9:
		name = "undelegate"
		ds, _ := w.h.App.StakingKeeper.GetDelegatorDelegations(w.h.Ctx(), a, 50)
		if len(ds) == 0 {
			return
		}
		d := ds[r.Intn(len(ds))]
		vb, _ := w.h.App.StakingKeeper.ValidatorAddressCodec().StringToBytes(d.ValidatorAddress)
		vv, e := w.h.App.StakingKeeper.GetValidator(w.h.Ctx(), vb)
		if e != nil {
			return
		}
		tok := vv.TokensFromShares(d.Shares).TruncateInt()
		if !tok.IsPositive() {
			return
		}
		amt := tok
		if r.Chance(2, 3) {
			amt = sdkmath.NewIntFromBigInt(r.Big(tok.BigInt())).AddRaw(1)
			if amt.GT(tok) {
				amt = tok
			}
		}
		err = w.undelegate(a, d.ValidatorAddress, amt)
	case kind < 11:
		name = "slash"
		if !v.IsBonded() {
			return
		}
		err = w.slash(v, sdkmath.LegacyMustNewDecFromStr(emit.Pick(r, "0.01", "0.05", "0.333333333333333333", "0.000001", "0.5", "0.123456789012345678")))
	case kind < 12:
		name = "jail"
		nb := 0
		for _, x := range vals {
			if x.IsBonded() && !x.Jailed {
				nb++
			}
		}
		if v.Jailed {
			err = w.jail(v, true)
		} else if nb > 2 {
			err = w.jail(v, false)
		} else {
			return
		}
	default:
		name = "create-validator"
		for _, acc := range w.h.Accts {
			if _, e := w.h.App.StakingKeeper.GetValidator(w.h.Ctx(), []byte(acc.Addr)); e != nil {
				err = w.createValidator(acc.Addr, w.amount(r).AddRaw(1_000_000))
				break
			}
		}
	}
	if err != nil {
		w.st.Count("graph:" + name + ":err")
	} else {
		w.st.Count("graph:" + name + ":ok")
	}
}

// ---- observations ----

// graph dumps what Keeper.Tally reads: bonded validators, the stored votes in store order with
// the voters' delegations, TotalBondedTokens.
type graphObs struct {
	vals, ballots      string
	valsH, ballotsH    []string
	bonded             sdkmath.Int
	valAndDelegator    bool // a validator and one of its delegators both voted
	overlap            bool // two voters named the same pool
	partial            bool // some vote with total weight < 1
	nvotes, ndelegVote int
	// ghosts, from x/staking alone: per vote record its weights and the voter's own stake at each
	// bonded validator; per bonded validator the operator's weights and bonded tokens minus the
	// stake of its delegators that have a vote record (empty or not)
	ghVoters, ghVals string
	ghH              []string
	emptyOverrides   bool // a delegator with an EMPTY vote record sits on a validator whose operator voted
}

func (w *world) graph(ctx sdk.Context) graphObs {
	sk := w.h.App.StakingKeeper
	var g graphObs
	bondedSet := map[string]bool{}
	var vt []string
	if err := sk.IterateBondedValidatorsByPower(ctx, func(_ int64, v sdk.ValidatorI) bool {
		bz, err := sk.ValidatorAddressCodec().StringToBytes(v.GetOperator())
		if err != nil {
			panic(err)
		}
		bondedSet[v.GetOperator()] = true
		vt = append(vt, fmt.Sprintf("{| v_id := %d; v_tok := %s; v_sh := %s |}", w.id(bz), emit.Z(v.GetBondedTokens().BigInt()), emit.Z(raw(v.GetDelegatorShares()))))
		g.valsH = append(g.valsH, fmt.Sprintf("%d:%s tokens=%s shares=%s", w.id(bz), v.GetOperator(), v.GetBondedTokens(), v.GetDelegatorShares()))
		return false
	}); err != nil {
		panic(err)
	}
	votes, err := w.h.App.LiquidityincentiveKeeper.GetAllVotes(ctx)
	if err != nil {
		panic(err)
	}
	votedVals := map[string]bool{}
	delegTargets := map[string]bool{}
	poolSeen := map[uint64]int{}
	var bt []string
	for _, vote := range votes {
		voter := sdk.MustAccAddressFromBech32(vote.Sender)
		var ws, wh []string
		tot := sdkmath.LegacyZeroDec()
		pools := map[uint64]bool{}
		for _, pw := range vote.PoolWeights {
			wd, err := sdkmath.LegacyNewDecFromStr(pw.Weight)
			if err != nil {
				panic(err)
			}
			tot = tot.Add(wd)
			ws = append(ws, pair(fmt.Sprint(pw.PoolId), emit.Z(raw(wd))))
			wh = append(wh, fmt.Sprintf("%d:%s", pw.PoolId, pw.Weight))
			pools[pw.PoolId] = true
		}
		for p := range pools {
			poolSeen[p]++
		}
		if tot.LT(sdkmath.LegacyOneDec()) && len(vote.PoolWeights) > 0 {
			g.partial = true
		}
		var dt, dh []string
		hasBonded := false
		if err := sk.IterateDelegations(ctx, voter, func(_ int64, d sdk.DelegationI) bool {
			bz, err := sk.ValidatorAddressCodec().StringToBytes(d.GetValidatorAddr())
			if err != nil {
				panic(err)
			}
			dt = append(dt, pair(emit.ZI(w.id(bz)), emit.Z(raw(d.GetShares()))))
			dh = append(dh, fmt.Sprintf("%d:%s", w.id(bz), d.GetShares()))
			if bondedSet[d.GetValidatorAddr()] {
				hasBonded = true
				valStr, _ := sk.ValidatorAddressCodec().BytesToString(voter)
				if valStr != d.GetValidatorAddr() {
					delegTargets[d.GetValidatorAddr()] = true
				}
			}
			return false
		}); err != nil {
			panic(err)
		}
		valStr, _ := sk.ValidatorAddressCodec().BytesToString(voter)
		if bondedSet[valStr] && len(vote.PoolWeights) > 0 {
			votedVals[valStr] = true
		}
		if hasBonded {
			g.ndelegVote++
		}
		g.nvotes++
		bt = append(bt, fmt.Sprintf("{| b_voter := %d; b_w := %s; b_dels := %s |}", w.id(voter), emit.List(ws), emit.List(dt)))
		g.ballotsH = append(g.ballotsH, fmt.Sprintf("voter %d:%s weights=[%s] dels=[%s]", w.id(voter), voter, strings.Join(wh, " "), strings.Join(dh, " ")))
	}
	for v := range votedVals {
		if delegTargets[v] {
			g.valAndDelegator = true
		}
	}
	// ---- ghosts ----
	overridden := map[string]sdkmath.LegacyDec{}
	emptyOn := map[string]bool{}
	opWeights := map[string]string{}
	var gv []string
	for _, vote := range votes {
		voter := sdk.MustAccAddressFromBech32(vote.Sender)
		var ws []string
		for _, pw := range vote.PoolWeights {
			wd, _ := sdkmath.LegacyNewDecFromStr(pw.Weight)
			ws = append(ws, pair(fmt.Sprint(pw.PoolId), emit.Z(raw(wd))))
		}
		valStr, _ := sk.ValidatorAddressCodec().BytesToString(voter)
		if bondedSet[valStr] {
			opWeights[valStr] = emit.List(ws)
		}
		var stakes []string
		ds, err := sk.GetDelegatorDelegations(ctx, voter, 1000)
		if err != nil {
			panic(err)
		}
		for _, d := range ds {
			if !bondedSet[d.ValidatorAddress] {
				continue
			}
			vb, _ := sk.ValidatorAddressCodec().StringToBytes(d.ValidatorAddress)
			val, err := sk.GetValidator(ctx, vb)
			if err != nil {
				panic(err)
			}
			own := val.TokensFromShares(d.Shares) // staking's own valuation of the delegation
			stakes = append(stakes, emit.Z(raw(own)))
			if cur, ok := overridden[d.ValidatorAddress]; ok {
				overridden[d.ValidatorAddress] = cur.Add(own)
			} else {
				overridden[d.ValidatorAddress] = own
			}
			if len(vote.PoolWeights) == 0 && valStr != d.ValidatorAddress {
				emptyOn[d.ValidatorAddress] = true
			}
			g.ghH = append(g.ghH, fmt.Sprintf("voter %d owns %s at %s", w.id(voter), own, d.ValidatorAddress))
		}
		gv = append(gv, pair(emit.List(ws), emit.List(stakes)))
	}
	var gvals []string
	if err := sk.IterateBondedValidatorsByPower(ctx, func(_ int64, v sdk.ValidatorI) bool {
		rem := sdkmath.LegacyNewDecFromInt(v.GetBondedTokens())
		if o, ok := overridden[v.GetOperator()]; ok {
			rem = rem.Sub(o)
		}
		wts, ok := opWeights[v.GetOperator()]
		if !ok {
			wts = "[]"
		}
		gvals = append(gvals, pair(wts, emit.Z(raw(rem))))
		g.ghH = append(g.ghH, fmt.Sprintf("validator %s votes with %s of %s", v.GetOperator(), rem, v.GetBondedTokens()))
		if emptyOn[v.GetOperator()] && votedVals[v.GetOperator()] {
			g.emptyOverrides = true
		}
		return false
	}); err != nil {
		panic(err)
	}
	g.ghVoters, g.ghVals = emit.List(gv), emit.List(gvals)
	for _, n := range poolSeen {
		if n > 1 {
			g.overlap = true
		}
	}
	g.vals, g.ballots = emit.List(vt), emit.List(bt)
	g.bonded, err = sk.TotalBondedTokens(ctx)
	if err != nil {
		panic(err)
	}
	return g
}

func gaugeTerm(g litypes.Gauge) string {
	return fmt.Sprintf("{| g_prev := %d; g_pool := %d; g_count := %s |}", g.PreviousEpochId, g.PoolId, emit.Z(g.Count.BigInt()))
}
func gaugesTerm(gs []litypes.Gauge) string {
	ts := make([]string, len(gs))
	for i, g := range gs {
		ts[i] = gaugeTerm(g)
	}
	return emit.List(ts)
}
func epochTerm(e litypes.Epoch) string {
	return fmt.Sprintf("{| e_id := %d; e_start := %d; e_end := %d; e_gauges := %s |}", e.Id, e.StartBlock, e.EndBlock, gaugesTerm(e.Gauges))
}

// istate dumps the Epochs and Gauges collections
func (w *world) istate(ctx sdk.Context) (string, []litypes.Epoch, string) {
	k := w.h.App.LiquidityincentiveKeeper
	es, err := k.GetAllEpoch(ctx)
	if err != nil {
		panic(err)
	}
	gs, err := k.GetAllGauges(ctx)
	if err != nil {
		panic(err)
	}
	ets := make([]string, len(es))
	hs := []string{}
	for i, e := range es {
		ets[i] = epochTerm(e)
		hs = append(hs, fmt.Sprintf("epoch %d [%d,%d) %d gauges", e.Id, e.StartBlock, e.EndBlock, len(e.Gauges)))
	}
	return fmt.Sprintf("{| s_epochs := %s; s_gauges := %s |}", emit.List(ets), gaugesTerm(gs)), es, strings.Join(hs, "; ") + fmt.Sprintf(" | %d stored gauges", len(gs))
}

func (w *world) statusFn(ctx sdk.Context, gs []litypes.Gauge) (string, []string) {
	// a Coq function pool id -> status, as nested ifs over the gauge pools
	s := "PoolErr"
	var hs []string
	seen := map[uint64]bool{}
	for _, g := range gs {
		if seen[g.PoolId] {
			continue
		}
		seen[g.PoolId] = true
		ps := w.poolStatus(ctx, g.PoolId)
		hs = append(hs, fmt.Sprintf("%d:%s", g.PoolId, ps))
		s = fmt.Sprintf("if p =? %d then %s else %s", g.PoolId, ps, s)
	}
	return "(fun p => " + s + ")", hs
}

// ---- cases ----

type caseOut struct {
	term    string
	info    map[string]any
	kind    string
	outcome string
	nontriv string
}

func (w *world) record(cf *emit.CasesFile, c caseOut) {
	cf.Add(c.term)
	w.st.Info(c.info)
	w.st.Evaluations++
	w.st.Count(c.kind + ":" + c.outcome)
	if c.nontriv != "" {
		w.st.Nontriv(c.nontriv)
		w.st.Count("nontrivial:" + c.kind)
		w.st.Sample(c.info)
	}
}

type weightSpec struct {
	pool   uint64
	weight string
}

// one MsgVoteGauge through the real handler
func (w *world) voteCase(sender string, senderAddr sdk.AccAddress, ws []weightSpec, tag string) caseOut {
	k := w.h.App.LiquidityincentiveKeeper
	ctx := w.h.Ctx()
	dump := func() (string, []string) {
		votes, err := k.GetAllVotes(ctx)
		if err != nil {
			panic(err)
		}
		type ent struct {
			id int64
			t  string
			h  string
		}
		var es []ent
		for _, v := range votes {
			a := sdk.MustAccAddressFromBech32(v.Sender)
			var ps, ph []string
			for _, pw := range v.PoolWeights {
				d, err := sdkmath.LegacyNewDecFromStr(pw.Weight)
				if err != nil {
					panic(err)
				}
				ps = append(ps, pair(fmt.Sprint(pw.PoolId), emit.Z(raw(d))))
				ph = append(ph, fmt.Sprintf("%d:%s", pw.PoolId, pw.Weight))
			}
			es = append(es, ent{w.id(a), pair(emit.ZI(w.id(a)), emit.List(ps)), fmt.Sprintf("%d=[%s]", w.id(a), strings.Join(ph, " "))})
		}
		sort.Slice(es, func(i, j int) bool { return es[i].id < es[j].id })
		var ts, hs []string
		for _, e := range es {
			ts = append(ts, e.t)
			hs = append(hs, e.h)
		}
		return emit.List(ts), hs
	}
	var pools []string
	for i := uint64(0); i < w.npools+3; i++ {
		if _, found, _ := w.h.App.LiquiditypoolKeeper.GetPool(ctx, i); found {
			pools = append(pools, fmt.Sprint(i))
		}
	}
	pre, preH := dump()
	msg := &litypes.MsgVoteGauge{Sender: sender}
	var wts, wh []string
	for _, x := range ws {
		msg.PoolWeights = append(msg.PoolWeights, litypes.PoolWeight{PoolId: x.pool, Weight: x.weight})
		d, err := sdkmath.LegacyNewDecFromStr(x.weight)
		if err != nil {
			wts = append(wts, pair(fmt.Sprint(x.pool), emit.None()))
		} else {
			wts = append(wts, pair(fmt.Sprint(x.pool), emit.Some(emit.Z(raw(d)))))
		}
		wh = append(wh, fmt.Sprintf("%d:%q", x.pool, x.weight))
	}
	err := apph.Tx(ctx, func(ctx sdk.Context) error {
		_, e := w.li.VoteGauge(ctx, msg)
		return e
	})
	post, postH := dump()
	obs, outcome := "(Ok tt)", "ok"
	info := map[string]any{"kind": "vote", "tag": tag, "sender": sender, "weights": wh, "votes_before": preH, "votes_after": postH, "pools": pools}
	if err != nil {
		info["err"] = err.Error()
		switch {
		case strings.HasPrefix(err.Error(), "panic:"):
			obs, outcome = "Panic", "panic"
		case strings.Contains(err.Error(), litypes.ErrInvalidWeight.Error()):
			obs, outcome = "(Err 3)", "err:invalid-weight"
		case strings.Contains(err.Error(), litypes.ErrTotalWeightGTOne.Error()):
			obs, outcome = "(Err 2)", "err:total>1"
		case strings.Contains(err.Error(), lptypes.ErrPoolNotFound.Error()):
			obs, outcome = "(Err 1101)", "err:pool-not-found"
		case strings.Contains(err.Error(), "invalid sender address"):
			obs, outcome = "(Err 1)", "err:sender"
		default:
			obs, outcome = "(Err 0)", "err:other"
		}
	}
	sid := int64(0)
	if senderAddr != nil {
		sid = w.id(senderAddr)
	}
	term := fmt.Sprintf("CVote {| vc_sender_ok := %s; vc_pools := %s; vc_pre := %s; vc_sender := %d; vc_weights := %s; vc_obs := %s; vc_post := %s |}",
		emit.Bool(senderAddr != nil), emit.List(pools), pre, sid, emit.List(wts), obs, post)
	c := caseOut{term: term, info: info, kind: "vote", outcome: outcome}
	return c
}

// one call of Keeper.Tally
func (w *world) tallyCase(tag string) caseOut {
	ctx, _ := w.h.Ctx().CacheContext()
	g := w.graph(ctx)
	info := map[string]any{"kind": "tally", "tag": tag, "graph_ops": w.takeLog(), "validators": g.valsH, "votes": g.ballotsH, "total_bonded": g.bonded.String()}
	obs, outcome := "", "ok"
	func() {
		defer func() {
			if r := recover(); r != nil {
				obs, outcome = "Panic", "panic"
				info["panic"] = fmt.Sprint(r)
			}
		}()
		res, err := w.h.App.LiquidityincentiveKeeper.Tally(ctx)
		if err != nil {
			obs, outcome = "(Err 1)", "err"
			info["err"] = err.Error()
			return
		}
		var ts, hs []string
		for _, r := range res {
			ts = append(ts, pair(fmt.Sprint(r.PoolId), emit.Z(r.Count.BigInt())))
			hs = append(hs, fmt.Sprintf("%d:%s", r.PoolId, r.Count))
		}
		obs = "(Ok " + emit.List(ts) + ")"
		info["result"] = hs
	}()
	c := caseOut{kind: "tally", outcome: outcome, info: info}
	c.term = fmt.Sprintf("CTally {| tc_vals := %s; tc_ballots := %s; tc_bonded := %s; tc_gh_voters := %s; tc_gh_vals := %s; tc_obs := %s |}",
		g.vals, g.ballots, emit.Z(g.bonded.BigInt()), g.ghVoters, g.ghVals, obs)
	info["ghost_stakes"] = g.ghH
	if g.emptyOverrides {
		w.st.Count("tally:empty-vote-overrides-voting-validator")
	}
	if g.valAndDelegator {
		w.st.Count("tally:validator-and-own-delegator-voted")
		c.nontriv = fmt.Sprintf("tally/%d/%d/%v/%v/%s", g.nvotes, g.ndelegVote, g.overlap, g.partial, g.bonded)
	}
	if g.overlap {
		w.st.Count("tally:overlapping-pools")
	}
	if g.partial {
		w.st.Count("tally:partial-weights")
	}
	return c
}

func (w *world) setFeeCollector(ctx sdk.Context, target sdkmath.Int) {
	cur := w.h.Bal(ctx, w.feeCol, bond)
	if target.GT(cur) {
		d := target.Sub(cur)
		if err := w.h.App.BankKeeper.SendCoinsFromAccountToModule(ctx, w.h.Accts[0].Addr, authtypes.FeeCollectorName, sdk.NewCoins(sdk.NewCoin(bond, d))); err != nil {
			panic(err)
		}
	} else if target.LT(cur) {
		d := cur.Sub(target)
		if err := w.h.App.BankKeeper.SendCoinsFromModuleToAccount(ctx, authtypes.FeeCollectorName, w.h.Accts[0].Addr, sdk.NewCoins(sdk.NewCoin(bond, d))); err != nil {
			panic(err)
		}
	}
}

func lastEpochTerm(es []litypes.Epoch) (string, *litypes.Epoch) {
	if len(es) == 0 {
		return emit.None(), nil
	}
	e := es[len(es)-1]
	return emit.Some(epochTerm(e)), &e
}

func indivisible(balance sdkmath.Int, e *litypes.Epoch) bool {
	if e == nil || !balance.IsPositive() {
		return false
	}
	tot := sdkmath.ZeroInt()
	for _, g := range e.Gauges {
		tot = tot.Add(g.Count)
	}
	if !tot.IsPositive() {
		return false
	}
	for _, g := range e.Gauges {
		if !balance.Mul(g.Count).Mod(tot).IsZero() {
			return true
		}
	}
	return false
}

// one call of Keeper.BeginBlocker with a chosen fee-collector balance, in a discarded context.
// lastOverride, when not nil, replaces the stored epochs (used for the rounded-weights witness).
func (w *world) beginCase(balance sdkmath.Int, lastOverride *litypes.Epoch, tag string) caseOut {
	ctx, _ := w.h.Ctx().CacheContext()
	k := w.h.App.LiquidityincentiveKeeper
	if lastOverride != nil {
		if err := k.SetEpoch(ctx, *lastOverride); err != nil {
			panic(err)
		}
	}
	w.setFeeCollector(ctx, balance)
	_, es, esH := w.istate(ctx)
	lastT, last := lastEpochTerm(es)
	var gs []litypes.Gauge
	if last != nil {
		gs = last.Gauges
	}
	statusT, statusH := w.statusFn(ctx, gs)
	pre := make([]sdkmath.Int, len(gs))
	for i, g := range gs {
		pre[i] = w.feesBal(ctx, g.PoolId)
	}
	info := map[string]any{"kind": "begin", "tag": tag, "fee_collector_uvrise": balance.String(), "epochs": esH, "pool_status": statusH}
	obs, outcome := "", "ok"
	func() {
		defer func() {
			if r := recover(); r != nil {
				obs, outcome = "Panic", "panic"
				info["panic"] = fmt.Sprint(r)
			}
		}()
		if err := k.BeginBlocker(ctx); err != nil {
			obs, outcome = "(Err 1)", "err"
			info["err"] = err.Error()
			return
		}
		var ts, hs []string
		for i, g := range gs {
			d := w.feesBal(ctx, g.PoolId).Sub(pre[i])
			ts = append(ts, emit.Z(d.BigInt()))
			hs = append(hs, fmt.Sprintf("pool %d (count %s): +%s", g.PoolId, g.Count, d))
		}
		rem := w.h.Bal(ctx, w.feeCol, bond)
		obs = fmt.Sprintf("(Ok (%s, %s))", emit.List(ts), emit.Z(rem.BigInt()))
		info["transfers"] = hs
		info["fee_collector_after"] = rem.String()
	}()
	c := caseOut{kind: "begin", outcome: outcome, info: info}
	c.term = fmt.Sprintf("CBegin {| bc_balance := %s; bc_last := %s; bc_status := %s; bc_obs := %s |}", emit.Z(balance.BigInt()), lastT, statusT, obs)
	if indivisible(balance, last) {
		w.st.Count("begin:emission-not-divisible")
		c.nontriv = fmt.Sprintf("begin/%s/%s", balance, lastT)
	}
	return c
}

// one real block
func (w *world) blockCase(dt time.Duration, tag string) caseOut {
	h := w.h
	k := h.App.LiquidityincentiveKeeper
	ctx := h.Ctx()
	preT, es, esH := w.istate(ctx)
	_, last := lastEpochTerm(es)
	var gs []litypes.Gauge
	if last != nil {
		gs = last.Gauges
	}
	statusT, statusH := w.statusFn(ctx, gs)
	balance := h.Bal(ctx, w.feeCol, bond)
	pre := make([]sdkmath.Int, len(gs))
	for i, g := range gs {
		pre[i] = w.feesBal(ctx, g.PoolId)
	}
	params, err := k.Params.Get(ctx)
	if err != nil {
		panic(err)
	}
	info := map[string]any{"kind": "block", "tag": tag, "graph_ops": w.takeLog(), "fee_collector_uvrise": balance.String(), "epochs_before": esH,
		"pool_status": statusH, "epoch_blocks": params.EpochBlocks}
	_, berr := h.NextBlock(dt)
	height := h.Height
	info["height"] = height
	obs, outcome := "", "ok"
	ctx = h.Ctx()
	g := w.graph(ctx)
	postT, es2, esH2 := w.istate(ctx)
	if berr != nil {
		info["block_error"] = berr.Error()
		if strings.HasPrefix(berr.Error(), "panic:") {
			obs, outcome = "Panic", "panic"
		} else {
			obs, outcome = "(Err 1)", "err"
		}
	} else {
		var ts, hs []string
		for i, gg := range gs {
			d := w.feesBal(ctx, gg.PoolId).Sub(pre[i])
			ts = append(ts, emit.Z(d.BigInt()))
			hs = append(hs, fmt.Sprintf("pool %d (count %s): +%s", gg.PoolId, gg.Count, d))
		}
		obs = fmt.Sprintf("(Ok (%s, %s))", emit.List(ts), postT)
		info["transfers"] = hs
		info["epochs_after"] = esH2
		info["validators"] = g.valsH
		info["votes"] = g.ballotsH
	}
	// ghost list of created epochs: anything stored with an id above the newest one seen so far
	maxSeen := uint64(0)
	if n := len(w.created); n > 0 {
		maxSeen = w.created[n-1].Id
	}
	for _, e := range es2 {
		if e.Id > maxSeen {
			w.created = append(w.created, e)
			maxSeen = e.Id
		}
	}
	var crT, crH []string
	from := len(w.created) - 4
	if from < 0 {
		from = 0
	}
	for _, e := range w.created[from:] {
		crT = append(crT, epochTerm(e))
		crH = append(crH, fmt.Sprint(e.Id))
	}
	info["created_epochs_so_far(last 4)"] = crH
	c := caseOut{kind: "block", outcome: outcome, info: info}
	c.term = fmt.Sprintf("CBlock {| kc_pre := %s; kc_balance := %s; kc_status := %s; kc_height := %d; kc_epoch_blocks := %d; kc_vals := %s; kc_ballots := %s; kc_bonded := %s; kc_gh_voters := %s; kc_gh_vals := %s; kc_created := %s; kc_obs := %s |}",
		preT, emit.Z(balance.BigInt()), statusT, height, params.EpochBlocks, g.vals, g.ballots, emit.Z(g.bonded.BigInt()), g.ghVoters, g.ghVals, emit.List(crT), obs)
	info["ghost_stakes"] = g.ghH
	if g.emptyOverrides {
		w.st.Count("block:empty-vote-overrides-voting-validator")
	}
	created := len(es2) > 0 && (len(es) == 0 || es2[len(es2)-1].Id != es[len(es)-1].Id)
	if !created && last != nil && last.EndBlock <= height {
		w.st.Count("block:boundary-with-empty-tally")
		if len(es) == 2 {
			w.st.Count("block:boundary-with-empty-tally-two-epochs-stored")
		}
	}
	if created {
		w.st.Count("block:epoch-created")
		if len(es) == 2 {
			w.st.Count("block:epoch-pruned")
		}
	}
	if indivisible(balance, last) && g.valAndDelegator {
		c.nontriv = fmt.Sprintf("block/%d/%s/%v", height, balance, created)
	}
	if indivisible(balance, last) {
		w.st.Count("block:emission-not-divisible")
	}
	return c
}

// ---- generators ----

func genWeights(r *emit.Rand, npools uint64, malformed bool) []weightSpec {
	k := emit.Pick(r, 0, 1, 1, 2, 2, 3, 4)
	one := new(big.Int).Exp(big.NewInt(10), big.NewInt(18), nil)
	var ws []weightSpec
	// total in (0,1], split over k entries; pools may repeat
	total := new(big.Int).Set(one)
	if r.Chance(1, 2) {
		total = r.Big(one)
		total.Add(total, big.NewInt(1))
	}
	left := new(big.Int).Set(total)
	for i := 0; i < k; i++ {
		var x *big.Int
		if i == k-1 {
			x = new(big.Int).Set(left)
		} else {
			x = r.Big(new(big.Int).Add(left, big.NewInt(1)))
			if r.Chance(1, 4) {
				x = new(big.Int).Div(left, big.NewInt(3))
			}
		}
		left.Sub(left, x)
		s := decStr(x)
		if r.Chance(1, 4) {
			s = strings.TrimRight(strings.TrimRight(s, "0"), ".")
			if s == "" {
				s = "0"
			}
		}
		ws = append(ws, weightSpec{uint64(r.Intn(int(npools))), s})
	}
	if malformed && len(ws) > 0 {
		i := r.Intn(len(ws))
		switch r.Intn(5) {
		case 0:
			ws[i].weight = "-" + emit.Pick(r, "0.1", "0.000000000000000001", "1")
		case 1:
			ws[i].weight = emit.Pick(r, "abc", "", "1e-3", "0.1234567890123456789", "NaN")
		case 2:
			ws[i].pool = npools + uint64(r.Intn(5))
		case 3: // total just above one
			ws = append(ws, weightSpec{uint64(r.Intn(int(npools))), "0.000000000000000001"})
			ws[0].weight = "1"
		default:
			ws[i].weight = "1.000000000000000001"
		}
	}
	return ws
}

func decStr(rawv *big.Int) string {
	s := rawv.String()
	for len(s) < 19 {
		s = "0" + s
	}
	return s[:len(s)-18] + "." + s[len(s)-18:]
}

func (w *world) voters() []sdk.AccAddress {
	var p []sdk.AccAddress
	for _, a := range w.h.Accts {
		p = append(p, a.Addr)
	}
	for _, v := range w.allVals() {
		p = append(p, sdk.AccAddress(w.valBytes(v)))
	}
	return p
}

func (w *world) genBalance(r *emit.Rand) sdkmath.Int {
	switch r.Intn(7) {
	case 0:
		return sdkmath.ZeroInt()
	case 1:
		return sdkmath.NewInt(int64(1 + r.Intn(20)))
	case 2: // around the supply cap of the chain
		return sdkmath.NewIntFromBigInt(r.LogUniform(15))
	case 3: // far beyond the supply cap: here one 10^-18 unit of a weight is worth whole tokens,
		// so the rounding mode of the weight quotient becomes observable
		return sdkmath.NewIntFromBigInt(r.LogUniform(27)).Add(sdkmath.NewIntFromBigInt(new(big.Int).Exp(big.NewInt(10), big.NewInt(19), nil)))
	default:
		return sdkmath.NewIntFromBigInt(r.LogUniform(12))
	}
}

// setup: four pools — 0 and 1 with in-range liquidity, 2 without any position, 3 created later
func (w *world) setupPools() error {
	a := w.h.Accts[0].Addr
	for _, pq := range [][2]string{{"urise", "uusdc"}, {"uatom", "uusdc"}, {"uosmo", "uusdc"}, {"uatom", "uosmo"}} {
		if _, err := w.createPool(pq[0], pq[1]); err != nil {
			return err
		}
	}
	if _, err := w.createPosition(a, 0, -10, 10, "urise", "uusdc", 1_000_000); err != nil {
		return err
	}
	if _, err := w.createPosition(a, 1, -100, 100, "uatom", "uusdc", 5_000_000); err != nil {
		return err
	}
	if _, err := w.createPosition(a, 3, -20, 20, "uatom", "uosmo", 777_777); err != nil {
		return err
	}
	return nil
}

// corpus
func corpus(cf *emit.CasesFile, st *emit.Stats) error {
	// (1) six equal gauges and a balance of 3*10^18: the rounded weights (0.166666666666666667 each)
	//     sum to 1 + 2e-18 and the six truncated allocations to balance + 6 (astronomic balances only)
	{
		w := newWorld(1, 2, st)
		defer w.h.Close()
		a := w.h.Accts[0].Addr
		var gs []litypes.Gauge
		for i := 0; i < 6; i++ {
			id, err := w.createPool("uatom", "uusdc")
			if err != nil {
				return err
			}
			if _, err := w.createPosition(a, id, -10, 10, "uatom", "uusdc", 1_000_000); err != nil {
				return err
			}
			gs = append(gs, litypes.Gauge{PreviousEpochId: 0, PoolId: id, Count: sdkmath.NewInt(1)})
		}
		ep := litypes.Epoch{Id: 1, StartBlock: 1, EndBlock: 1000, Gauges: gs}
		b, _ := sdkmath.NewIntFromString("3000000000000000000")
		w.record(cf, w.beginCase(b, &ep, "corpus:rounded-weights-sum-above-one"))
		// the same six gauges at the chain's supply cap: no overshoot
		w.record(cf, w.beginCase(sdkmath.NewInt(1_000_000_000_000_000), &ep, "corpus:six-equal-gauges-at-supply-cap"))
		// counts 1 : 2 at 3*10^18: 1/3 rounds half-even down to 0.333333333333333333
		ep2 := litypes.Epoch{Id: 1, StartBlock: 1, EndBlock: 1000, Gauges: []litypes.Gauge{
			{PreviousEpochId: 0, PoolId: gs[0].PoolId, Count: sdkmath.NewInt(1)}, {PreviousEpochId: 0, PoolId: gs[1].PoolId, Count: sdkmath.NewInt(2)}}}
		w.record(cf, w.beginCase(b, &ep2, "corpus:one-third-two-thirds-at-3e18"))
	}
	// (2) a gauge pool with positions but no in-range liquidity: the real block panics
	{
		w := newWorld(1, 3, st)
		defer w.h.Close()
		a := w.h.Accts[0].Addr
		id, err := w.createPool("uatom", "uusdc")
		if err != nil {
			return err
		}
		// the first position fixes the price at tick 0; its range [100,200) does not contain it
		if _, err := w.createPosition(a, id, 100, 200, "uatom", "uusdc", 1_000_000); err != nil {
			return err
		}
		v := w.allVals()[0]
		w.record(cf, w.voteCase(a.String(), a, []weightSpec{{id, "1"}}, "corpus:vote-for-out-of-range-pool"))
		_ = v
		// epoch 1 is created at the end of this block (account 0 holds the genesis delegations)
		w.record(cf, w.blockCase(time.Second, "corpus:epoch-created-for-out-of-range-pool"))
		ctx := w.h.Ctx()
		w.setFeeCollector(ctx, sdkmath.NewInt(1000))
		w.record(cf, w.beginCase(sdkmath.NewInt(1000), nil, "corpus:begin-blocker-zero-in-range-liquidity"))
		w.record(cf, w.blockCase(time.Second, "corpus:finalize-block-zero-in-range-liquidity"))
	}
	return nil
}

// boundaryHistory: a block history over many epoch boundaries in which the tally is non-empty,
// then empty for emptyLen consecutive boundaries, then non-empty again. mech selects how it
// becomes empty: 0 votes replaced by empty votes, 1 all voters' stake undelegated, 2 the voters'
// validators jailed (unbonded), 3 votes with weight 0 only (the tally is then NOT empty: gauges
// with count 0). Every block is a CBlock case.
func boundaryHistory(cf *emit.CasesFile, st *emit.Stats, mech, emptyLen int, eb int64, fund int64, tag string) error {
	w := newWorld(3, 4, st)
	defer w.h.Close()
	h := w.h
	k := h.App.LiquidityincentiveKeeper
	a := h.Accts[0].Addr
	for _, pq := range [][2]string{{"urise", "uusdc"}, {"uatom", "uusdc"}} {
		id, err := w.createPool(pq[0], pq[1])
		if err != nil {
			return err
		}
		if _, err := w.createPosition(a, id, -10, 10, pq[0], pq[1], 1_000_000); err != nil {
			return err
		}
	}
	p, err := k.Params.Get(h.Ctx())
	if err != nil {
		return err
	}
	p.EpochBlocks = eb
	if err := k.Params.Set(h.Ctx(), p); err != nil {
		return err
	}
	vals := w.allVals()
	v1, v2 := h.Accts[1].Addr, h.Accts[2].Addr
	stake := []sdkmath.Int{sdkmath.NewInt(3_000_000), sdkmath.NewInt(1_234_567)}
	if err := w.delegate(v1, vals[0].OperatorAddress, stake[0]); err != nil {
		return err
	}
	if err := w.delegate(v2, vals[1].OperatorAddress, stake[1]); err != nil {
		return err
	}
	vote := func(addr sdk.AccAddress, ws []weightSpec) error {
		c := w.voteCase(addr.String(), addr, ws, tag)
		w.record(cf, c)
		if c.outcome != "ok" {
			return fmt.Errorf("vote rejected: %v", c.info["err"])
		}
		return nil
	}
	full := func() error {
		if err := vote(v1, []weightSpec{{0, "0.7"}, {1, "0.3"}}); err != nil {
			return err
		}
		return vote(v2, []weightSpec{{1, "0.5"}})
	}
	blocks := func(n int) error {
		for i := 0; i < n; i++ {
			if fund > 0 {
				ctx := h.Ctx()
				w.setFeeCollector(ctx, h.Bal(ctx, w.feeCol, bond).Add(sdkmath.NewInt(fund+int64(i))))
			}
			c := w.blockCase(time.Second, tag)
			w.record(cf, c)
			if c.outcome != "ok" {
				return fmt.Errorf("block failed: %v", c.info["block_error"])
			}
		}
		return nil
	}
	if err := full(); err != nil {
		return err
	}
	// three boundaries with votes: two epochs stored, one already pruned
	if err := blocks(int(3*eb) + 1); err != nil {
		return err
	}
	// make the tally empty
	switch mech {
	case 0:
		if err := vote(v1, nil); err != nil {
			return err
		}
		if err := vote(v2, nil); err != nil {
			return err
		}
	case 1:
		if err := w.undelegate(v1, vals[0].OperatorAddress, stake[0]); err != nil {
			return err
		}
		if err := w.undelegate(v2, vals[1].OperatorAddress, stake[1]); err != nil {
			return err
		}
	case 2:
		for _, v := range w.allVals()[:2] {
			if err := w.jail(v, false); err != nil {
				return err
			}
		}
	case 3:
		if err := vote(v1, []weightSpec{{0, "0"}}); err != nil {
			return err
		}
		if err := vote(v2, []weightSpec{{1, "0.000000000000000000"}, {0, "0"}}); err != nil {
			return err
		}
	}
	if err := blocks(emptyLen*int(eb) + 1); err != nil {
		return err
	}
	// and non-empty again
	switch mech {
	case 0, 3:
		if err := full(); err != nil {
			return err
		}
	case 1:
		if err := w.delegate(v1, vals[0].OperatorAddress, stake[0].AddRaw(17)); err != nil {
			return err
		}
		if err := w.delegate(v2, vals[1].OperatorAddress, stake[1]); err != nil {
			return err
		}
	case 2:
		for _, v := range w.allVals()[:2] {
			if err := w.jail(v, true); err != nil {
				return err
			}
		}
	}
	if err := blocks(int(3*eb) + 1); err != nil {
		return err
	}
	// a second, single empty boundary followed by recovery (votes emptied whatever the mechanism was)
	if err := vote(v1, nil); err != nil {
		return err
	}
	if err := vote(v2, nil); err != nil {
		return err
	}
	if err := blocks(int(eb) + 1); err != nil {
		return err
	}
	if err := full(); err != nil {
		return err
	}
	return blocks(int(2*eb) + 1)
}

// Run generates n cases (plus the fixed corpus) and writes cases + stats into outDir.
func Run(seed int64, n int, outDir string) error {
	r := emit.NewRand(seed)
	st := emit.NewStats("C17", seed, "vote: one MsgVoteGauge; tally: one Keeper.Tally on a real staking graph; begin: one Keeper.BeginBlocker on a chosen balance; block: one real FinalizeBlock (emission at begin, epoch creation/pruning at end). Non-trivial: a tally (or block) in which a bonded validator and one of its own delegators both voted, a begin (or block) whose emission is not divisible by the gauge counts; distinct by (votes, delegator votes, overlap, partial, bonded) resp. (balance, gauges)")
	cf := &emit.CasesFile{Import: "Stake.C17Check", Runner: "run", Type: "c17_case"}
	if err := corpus(cf, st); err != nil {
		return fmt.Errorf("corpus: %w", err)
	}
	// corpus: one boundary history per way of emptying the tally
	for mech := 0; mech < 4; mech++ {
		if err := boundaryHistory(cf, st, mech, 1+mech%2, 1, 1000, fmt.Sprintf("corpus:boundary-history/mech%d", mech)); err != nil {
			return fmt.Errorf("boundary history %d: %w", mech, err)
		}
	}
	// generated: mechanism, number of consecutive empty boundaries, epoch length and emission drawn from the seed
	for i := 0; i < 1+n/200; i++ {
		mech, el, eb := r.Intn(4), 1+r.Intn(3), int64(emit.Pick(r, 1, 1, 2, 3))
		if err := boundaryHistory(cf, st, mech, el, eb, int64(r.Intn(5000)), fmt.Sprintf("gen:boundary-history/mech%d/empty%d/eb%d", mech, el, eb)); err != nil {
			return fmt.Errorf("generated boundary history: %w", err)
		}
	}
	w := newWorld(3, 7, st)
	defer w.h.Close()
	if err := w.setupPools(); err != nil {
		return err
	}
	k := w.h.App.LiquidityincentiveKeeper
	for i := 0; i < 8; i++ {
		w.mutate(r)
	}
	setEpochBlocks := func() {
		p, err := k.Params.Get(w.h.Ctx())
		if err != nil {
			panic(err)
		}
		p.EpochBlocks = int64(emit.Pick(r, 1, 2, 3, 5))
		if err := k.Params.Set(w.h.Ctx(), p); err != nil {
			panic(err)
		}
		w.note("epoch_blocks := %d", p.EpochBlocks)
	}
	setEpochBlocks()
	// pools that are safe to vote for in real blocks (a gauge for pool 3's sibling without
	// in-range liquidity would halt the chain: that is the corpus case)
	for i := 0; i < n; i++ {
		switch k := r.Intn(20); {
		case k < 6: // vote
			vs := w.voters()
			a := vs[r.Intn(len(vs))]
			malformed := r.Chance(1, 4)
			sender := a.String()
			var sa sdk.AccAddress = a
			if malformed && r.Chance(1, 6) {
				sender, sa = "not-an-address", nil
			}
			w.record(cf, w.voteCase(sender, sa, genWeights(r, w.npools, malformed), "gen"))
		case k < 9:
			w.mutate(r)
			if r.Chance(1, 2) {
				w.mutate(r)
			}
			w.record(cf, w.tallyCase("gen"))
		case k < 13:
			w.record(cf, w.beginCase(w.genBalance(r), nil, "gen"))
		default:
			if r.Chance(1, 10) {
				setEpochBlocks()
			}
			if r.Chance(1, 3) {
				w.mutate(r)
			}
			// fund the fee collector (on top of what the minute epoch minted)
			if r.Chance(2, 3) {
				ctx := w.h.Ctx()
				w.setFeeCollector(ctx, w.h.Bal(ctx, w.feeCol, bond).Add(w.genBalance(r)))
			}
			c := w.blockCase(time.Duration(1+r.Intn(90))*time.Second, "gen")
			w.record(cf, c)
			if c.outcome != "ok" {
				return fmt.Errorf("block failed: %v", c.info["block_error"])
			}
		}
	}
	if _, err := cf.Write(outDir, "cases", 100); err != nil {
		return err
	}
	return st.Write(outDir)
}
