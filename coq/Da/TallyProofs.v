(* Proofs about Da/Tally.v (C09). *)
From Coq Require Import ZArith List Bool Lia ZifyBool Permutation.
Import ListNotations.
From Sunrise Require Import Base.Outcome Base.Dec Base.DecLemmas Da.Tally.
Ltac Zify.zify_post_hook ::= Z.to_euclidean_division_equations.
Local Open Scope Z_scope.

(* ------------------------------------------------------------------ membership *)

Lemma memz_In x l : memz x l = true <-> In x l.
Proof.
  unfold memz. rewrite existsb_exists. split.
  - intros [y [Hy He]]. apply Z.eqb_eq in He. subst. exact Hy.
  - intros H. exists x. split; [exact H | apply Z.eqb_refl].
Qed.

Lemma memz_false x l : memz x l = false <-> ~ In x l.
Proof. rewrite <- memz_In. destruct (memz x l); intuition congruence. Qed.

Lemma mem2_In i s l : mem2 i s l = true <-> In (i, s) l.
Proof.
  unfold mem2. rewrite existsb_exists. split.
  - intros [[j t] [Hq He]]. simpl in He. apply andb_true_iff in He. destruct He as [H1 H2].
    apply Z.eqb_eq in H1. apply Z.eqb_eq in H2. subst. exact Hq.
  - intros H. exists (i, s). split; [exact H|]. simpl. rewrite !Z.eqb_refl. reflexivity.
Qed.

Lemma mem2_false i s l : mem2 i s l = false <-> ~ In (i, s) l.
Proof. rewrite <- mem2_In. destruct (mem2 i s l); intuition congruence. Qed.

(* ------------------------------------------------------------------ association lists *)

Definition getc (c : list (Z * Z)) (i : Z) : Z :=
  match find (fun e => fst e =? i) c with Some e => snd e | None => 0 end.

Definition cntp (sub : list (Z * Z)) (i : Z) : Z :=
  Z.of_nat (length (filter (fun q => fst q =? i) sub)).

Lemma incr_get c i j : getc (incr c i) j = getc c j + (if i =? j then 1 else 0).
Proof.
  unfold getc. induction c as [|[k v] tl IH]; simpl.
  - destruct (i =? j) eqn:E; simpl; lia.
  - destruct (i =? k) eqn:Eik; simpl.
    + apply Z.eqb_eq in Eik. subst k. destruct (i =? j) eqn:Eij; simpl; lia.
    + destruct (k =? j) eqn:Ekj; simpl.
      * destruct (i =? j) eqn:Eij; [lia | lia].
      * exact IH.
Qed.

Lemma incr_keys c i j : In j (map fst (incr c i)) <-> j = i \/ In j (map fst c).
Proof.
  induction c as [|[k v] tl IH]; simpl.
  - intuition.
  - destruct (i =? k) eqn:E; simpl.
    + apply Z.eqb_eq in E. subst. intuition.
    + rewrite IH. intuition.
Qed.

Lemma incr_nodup c i : NoDup (map fst c) -> NoDup (map fst (incr c i)).
Proof.
  induction c as [|[k v] tl IH]; simpl; intros H.
  - constructor; [intros []|constructor].
  - inversion H as [|? ? Hn Hd]; subst. destruct (i =? k) eqn:E; simpl.
    + constructor; assumption.
    + constructor.
      * rewrite incr_keys. intros [->|Hin]; [rewrite Z.eqb_refl in E; discriminate | exact (Hn Hin)].
      * apply IH. exact Hd.
Qed.

Lemma incr_pos c i : (forall e, In e c -> 1 <= snd e) -> forall e, In e (incr c i) -> 1 <= snd e.
Proof.
  induction c as [|[k v] tl IH]; simpl; intros H e He.
  - destruct He as [<-|[]]. simpl. lia.
  - destruct (i =? k) eqn:E; simpl in He.
    + destruct He as [<-|He]; simpl.
      * specialize (H (k, v) (or_introl eq_refl)). simpl in H. lia.
      * apply H. right. exact He.
    + destruct He as [<-|He].
      * apply H. left. reflexivity.
      * apply IH; [|exact He]. intros e' He'. apply H. right. exact He'.
Qed.

Lemma getc_in c i v : NoDup (map fst c) -> In (i, v) c -> getc c i = v.
Proof.
  unfold getc. induction c as [|[k w] tl IH]; simpl; intros Hd Hin; [contradiction|].
  inversion Hd as [|? ? Hn Hd']; subst.
  destruct Hin as [Heq|Hin].
  - inversion Heq; subst. rewrite Z.eqb_refl. reflexivity.
  - destruct (k =? i) eqn:E.
    + apply Z.eqb_eq in E. subst. exfalso. apply Hn. apply in_map_iff. exists (i, v). split; [reflexivity|exact Hin].
    + apply IH; assumption.
Qed.

Lemma getc_key c i : (forall e, In e c -> 1 <= snd e) -> 1 <= getc c i -> In (i, getc c i) c.
Proof.
  unfold getc. induction c as [|[k w] tl IH]; simpl; intros Hp H; [lia|].
  destruct (k =? i) eqn:E.
  - apply Z.eqb_eq in E. subst. left. reflexivity.
  - right. apply IH; [|exact H]. intros e He. apply Hp. right. exact He.
Qed.

(* ------------------------------------------------------------------ proof counting (repaired) *)

Definition cinv (st : list (Z * Z) * list (Z * Z)) : Prop :=
  NoDup (map fst (fst st)) /\ (forall e, In e (fst st) -> 1 <= snd e) /\ NoDup (snd st) /\
  (forall i, getc (fst st) i = cntp (snd st) i).

Lemma count_index_inv s st i : cinv st -> cinv (count_index true s st i).
Proof.
  destruct st as [cnt sub]. unfold cinv, count_index. simpl. intros (Hk & Hp & Hd & Hc).
  destruct (mem2 i s sub) eqn:E; simpl.
  - repeat split; assumption.
  - repeat split.
    + apply incr_nodup. exact Hk.
    + apply incr_pos. exact Hp.
    + constructor; [apply mem2_false; exact E | exact Hd].
    + intros j. rewrite incr_get, Hc. unfold cntp. simpl.
      destruct (i =? j) eqn:Eij; simpl; lia.
Qed.

Lemma count_index_sub s st i j t :
  In (j, t) (snd (count_index true s st i)) <-> (j = i /\ t = s) \/ In (j, t) (snd st).
Proof.
  destruct st as [cnt sub]. unfold count_index. simpl.
  destruct (mem2 i s sub) eqn:E; simpl.
  - split; [intros H; right; exact H|]. intros [[-> ->]|H]; [apply mem2_In; exact E | exact H].
  - split.
    + intros [Heq|H]; [inversion Heq; left; split; reflexivity | right; exact H].
    + intros [[-> ->]|H]; [left; reflexivity | right; exact H].
Qed.

Lemma count_proof_inv p : forall st, cinv st -> cinv (count_proof true st p).
Proof.
  unfold count_proof. induction (pf_indices p) as [|i tl IH]; simpl; intros st H; [exact H|].
  apply IH. apply count_index_inv. exact H.
Qed.

Lemma count_proof_sub p j t : forall st,
  In (j, t) (snd (count_proof true st p)) <-> (t = pf_sender p /\ In j (pf_indices p)) \/ In (j, t) (snd st).
Proof.
  unfold count_proof. induction (pf_indices p) as [|i tl IH]; simpl; intros st.
  - intuition.
  - rewrite IH, count_index_sub. intuition; subst; intuition.
Qed.

Lemma count_proofs_gen ps : forall st, cinv st ->
  cinv (fold_left (count_proof true) ps st) /\
  (forall j t, In (j, t) (snd (fold_left (count_proof true) ps st)) <->
     (exists p, In p ps /\ pf_sender p = t /\ In j (pf_indices p)) \/ In (j, t) (snd st)).
Proof.
  induction ps as [|p tl IH]; simpl; intros st H.
  - split; [exact H|]. intros j t. split; [intros Hin; right; exact Hin|]. intros [[p [[] _]]|Hin]; exact Hin.
  - destruct (IH (count_proof true st p) (count_proof_inv p st H)) as [Hi Hs]. split; [exact Hi|].
    intros j t. rewrite Hs, count_proof_sub. split.
    + intros [[q (Hq & Hs1 & Hj)]|[[Ht Hj]|Hin]].
      * left. exists q. split; [right; exact Hq|split; assumption].
      * left. exists p. split; [left; reflexivity|split; [symmetry; exact Ht|exact Hj]].
      * right. exact Hin.
    + intros [[q ([Hq|Hq] & Hs1 & Hj)]|Hin].
      * subst q. right. left. split; [symmetry; exact Hs1|exact Hj].
      * left. exists q. split; [exact Hq|split; assumption].
      * right. right. exact Hin.
Qed.

Lemma cinv_init : cinv ([], []).
Proof. unfold cinv. simpl. repeat split; try constructor; intros; try contradiction; reflexivity. Qed.

Lemma proves_In p i : proves p i = true <-> In i (pf_indices p).
Proof. apply memz_In. Qed.

Lemma nodup_map_snd (l : list (Z * Z)) i :
  NoDup l -> (forall q, In q l -> fst q = i) -> NoDup (map snd l).
Proof.
  induction l as [|[a b] tl IH]; simpl; intros Hd Hf; [constructor|].
  inversion Hd as [|? ? Hn Hd']; subst. constructor.
  - intros Hin. apply in_map_iff in Hin. destruct Hin as [[a' b'] [Hs Hin]]. simpl in Hs. subst b'.
    assert (a' = i) by (apply (Hf (a', b)); right; exact Hin).
    assert (a = i) by (apply (Hf (a, b)); left; reflexivity). subst. exact (Hn Hin).
  - apply IH; [exact Hd'|]. intros q Hq. apply Hf. right. exact Hq.
Qed.

(* the pairs recorded for index i are exactly the distinct provers of i *)
Lemma cntp_provers ps sub i :
  NoDup sub ->
  (forall j t, In (j, t) sub <-> exists p, In p ps /\ pf_sender p = t /\ In j (pf_indices p)) ->
  cntp sub i = Z.of_nat (length (provers ps i)).
Proof.
  intros Hd Hs. unfold cntp. f_equal.
  rewrite <- (map_length snd (filter (fun q => fst q =? i) sub)).
  apply Permutation_length. apply NoDup_Permutation.
  - apply (nodup_map_snd _ i).
    + apply NoDup_filter. exact Hd.
    + intros q Hq. apply filter_In in Hq. destruct Hq as [_ Hq]. apply Z.eqb_eq in Hq. exact Hq.
  - apply NoDup_nodup.
  - intros t. unfold provers. rewrite nodup_In. split.
    + intros Hin. apply in_map_iff in Hin. destruct Hin as [[j t'] [Ht Hin]]. simpl in Ht. subst t'.
      apply filter_In in Hin. destruct Hin as [Hin Hj]. simpl in Hj. apply Z.eqb_eq in Hj. subst j.
      apply Hs in Hin. destruct Hin as [p (Hp & Hsd & Hi)].
      apply in_map_iff. exists p. split; [exact Hsd|]. apply filter_In. split; [exact Hp|]. apply proves_In. exact Hi.
    + intros Hin. apply in_map_iff in Hin. destruct Hin as [p [Hsd Hp]].
      apply filter_In in Hp. destruct Hp as [Hp Hi]. apply proves_In in Hi.
      apply in_map_iff. exists (i, t). split; [reflexivity|]. apply filter_In. split.
      * apply Hs. exists p. split; [exact Hp|split; assumption].
      * simpl. apply Z.eqb_refl.
Qed.

(* what the repaired counting loop computes *)
Lemma count_spec ps cnt sub :
  count_proofs true ps = (cnt, sub) ->
  NoDup (map fst cnt) /\
  (forall i c, In (i, c) cnt -> c = Z.of_nat (length (provers ps i)) /\ 1 <= c) /\
  (forall i, 1 <= Z.of_nat (length (provers ps i)) -> In (i, Z.of_nat (length (provers ps i))) cnt) /\
  (forall i v, mem2 i v sub = existsb (fun p => (pf_sender p =? v) && proves p i) ps).
Proof.
  unfold count_proofs. intros H.
  destruct (count_proofs_gen ps ([], []) cinv_init) as [Hi Hs]. rewrite H in Hi, Hs.
  destruct Hi as (Hk & Hp & Hd & Hc). simpl in *.
  assert (Hs' : forall j t, In (j, t) sub <-> exists p, In p ps /\ pf_sender p = t /\ In j (pf_indices p)).
  { intros j t. rewrite Hs. split; [intros [Hx|[]]; exact Hx | intros Hx; left; exact Hx]. }
  assert (Hg : forall i, getc cnt i = Z.of_nat (length (provers ps i))).
  { intros i. rewrite Hc. apply cntp_provers; assumption. }
  split; [exact Hk|]. split; [|split].
  - intros i c Hin. split; [rewrite <- Hg; symmetry; apply getc_in; assumption | apply (Hp (i, c)); exact Hin].
  - intros i Hi. rewrite <- Hg in *. apply getc_key; assumption.
  - intros i v. destruct (mem2 i v sub) eqn:E.
    + apply mem2_In in E. apply Hs' in E. destruct E as [p (Hp' & Hsd & Hi)].
      symmetry. apply existsb_exists. exists p. split; [exact Hp'|].
      apply andb_true_iff. split; [apply Z.eqb_eq; exact Hsd | apply proves_In; exact Hi].
    + symmetry. apply not_true_is_false. intros Hex. apply existsb_exists in Hex.
      destruct Hex as [p [Hp' Hb]]. apply andb_true_iff in Hb. destruct Hb as [Hb1 Hb2].
      apply Z.eqb_eq in Hb1. apply proves_In in Hb2.
      apply mem2_false in E. apply E. apply Hs'. exists p. split; [exact Hp'|split; assumption].
Qed.

(* ------------------------------------------------------------------ the safe-shard loop *)

Lemma NoDup_snoc (l : list Z) x : NoDup l -> ~ In x l -> NoDup (l ++ [x]).
Proof.
  induction l as [|a tl IH]; simpl; intros Hd Hn.
  - constructor; [intros []|constructor].
  - inversion Hd as [|? ? Ha Hd']; subst. constructor.
    + rewrite in_app_iff. simpl. intros [H|[H|[]]]; [exact (Ha H)|]. subst. apply Hn. left. reflexivity.
    + apply IH; [exact Hd'|]. intros H. apply Hn. right. exact H.
Qed.

Lemma add_fault_In fs u v : In v (add_fault fs u) <-> In v fs \/ v = u.
Proof.
  unfold add_fault. destruct (memz u fs) eqn:E.
  - apply memz_In in E. split; [intros H; left; exact H|]. intros [H| ->]; assumption.
  - rewrite in_app_iff. simpl. intuition.
Qed.

Lemma add_fault_nodup fs u : NoDup fs -> NoDup (add_fault fs u).
Proof.
  unfold add_fault. intros H. destruct (memz u fs) eqn:E; [exact H|].
  apply memz_false in E. apply NoDup_snoc; assumption.
Qed.

Lemma fault_fold sub i l : forall fs,
  (forall v, In v (fold_left (fault_step sub i) l fs) <-> In v fs \/ (In v l /\ mem2 i v sub = false)) /\
  (NoDup fs -> NoDup (fold_left (fault_step sub i) l fs)).
Proof.
  induction l as [|u tl IH]; simpl; intros fs.
  - split; [intros v; intuition | auto].
  - destruct (IH (fault_step sub i fs u)) as [Hm Hn]. split.
    + intros v. rewrite Hm. unfold fault_step. destruct (mem2 i u sub) eqn:E.
      * intuition (subst; try congruence; auto).
      * rewrite add_fault_In. intuition (subst; try congruence; auto).
    + intros Hd. apply Hn. unfold fault_step. destruct (mem2 i u sub); [exact Hd|]. apply add_fault_nodup. exact Hd.
Qed.

Lemma indexed_In it active i v : In v (indexed it active i) <-> In v active /\ In i (asg_of it v).
Proof.
  unfold indexed. rewrite in_flat_map. split.
  - intros [u [Hu Hin]]. apply in_map_iff in Hin. destruct Hin as [j [Hj Hin]]. subst u.
    apply filter_In in Hin. destruct Hin as [Hin Hij]. apply Z.eqb_eq in Hij. subst j. split; assumption.
  - intros [Ha Hi]. exists v. split; [exact Ha|]. apply in_map_iff. exists i. split; [reflexivity|].
    apply filter_In. split; [exact Hi|apply Z.eqb_refl].
Qed.

(* the condition under which the loop adds v to the fault set at entry e *)
Definition fault_at (it : item) (active : list Z) (sub : list (Z * Z)) (t : Z) (e : Z * Z) (v : Z) : Prop :=
  (t <=? snd e * P) = true /\ In v active /\ In (fst e) (asg_of it v) /\ mem2 (fst e) v sub = false.

Lemma safe_fold rf it active sub t :
  (it_n it <? it_parity it) = false -> safe_thr rf (it_n it) (it_parity it) = Some t ->
  forall cnt safe0 fs0, exists fs,
    fold_left (safe_step rf it active sub) cnt (Some (safe0, fs0)) =
      Some (safe0 ++ map fst (filter (fun e => t <=? snd e * P) cnt), fs) /\
    (forall v, In v fs <-> In v fs0 \/ exists e, In e cnt /\ fault_at it active sub t e v) /\
    (NoDup fs0 -> NoDup fs).
Proof.
  intros Hskip Ht. induction cnt as [|e tl IH]; simpl; intros safe0 fs0.
  - exists fs0. rewrite app_nil_r. split; [reflexivity|]. split; [|auto].
    intros v. split; [auto|]. intros [H|[e [[] _]]]. exact H.
  - rewrite Hskip, Ht. simpl.
    destruct (t <=? snd e * P) eqn:E.
    + destruct (IH (safe0 ++ [fst e]) (fold_left (fault_step sub (fst e)) (indexed it active (fst e)) fs0)) as [fs (Hf & Hm & Hn)].
      exists fs. split; [|split].
      * rewrite Hf. simpl. rewrite <- app_assoc. reflexivity.
      * intros v. rewrite Hm. destruct (fault_fold sub (fst e) (indexed it active (fst e)) fs0) as [Hm0 _].
        rewrite Hm0, indexed_In. unfold fault_at. split.
        -- intros [[H|[[Ha Hi] Hs]]|[e' [He' Hfa]]].
           ++ left. exact H.
           ++ right. exists e. split; [left; reflexivity|]. repeat split; assumption.
           ++ right. exists e'. split; [right; exact He'|exact Hfa].
        -- intros [H|[e' [[He'|He'] Hfa]]].
           ++ left. left. exact H.
           ++ subst e'. destruct Hfa as (_ & Ha & Hi & Hs). left. right. repeat split; assumption.
           ++ right. exists e'. split; assumption.
      * intros Hd. apply Hn. apply (fault_fold sub (fst e) (indexed it active (fst e)) fs0). exact Hd.
    + destruct (IH safe0 fs0) as [fs (Hf & Hm & Hn)]. exists fs. split; [exact Hf|]. split; [|exact Hn].
      intros v. rewrite Hm. split.
      * intros [H|[e' [He' Hfa]]]; [left; exact H|]. right. exists e'. split; [right; exact He'|exact Hfa].
      * intros [H|[e' [[He'|He'] Hfa]]]; [left; exact H| |].
        -- subst e'. destruct Hfa as [Hc _]. congruence.
        -- right. exists e'. split; assumption.
Qed.

Lemma safe_fold_none rf it active sub :
  (it_n it <? it_parity it) = false -> safe_thr rf (it_n it) (it_parity it) = None ->
  forall cnt acc, cnt <> [] -> fold_left (safe_step rf it active sub) cnt acc = None.
Proof.
  intros Hskip Ht cnt acc Hne.
  assert (Hn : forall l, fold_left (safe_step rf it active sub) l None = None).
  { induction l as [|x l IHl]; simpl; [reflexivity|exact IHl]. }
  destruct cnt as [|e tl]; [congruence|]. simpl. destruct acc as [[safe fs]|]; simpl.
  - rewrite Hskip, Ht. simpl. apply Hn.
  - apply Hn.
Qed.

Lemma safe_fold_skip rf it active sub :
  (it_n it <? it_parity it) = true ->
  forall cnt acc, fold_left (safe_step rf it active sub) cnt (Some acc) = Some acc.
Proof.
  intros Hskip. induction cnt as [|e tl IH]; simpl; intros [safe fs]; [reflexivity|].
  rewrite Hskip. apply IH.
Qed.

(* ------------------------------------------------------------------ item result = reference *)

Lemma shards_In n i : In i (shards n) <-> 0 <= i < n.
Proof.
  unfold shards. rewrite in_map_iff. split.
  - intros [k [Hk Hin]]. apply in_seq in Hin. lia.
  - intros H. exists (Z.to_nat i). split; [lia|]. apply in_seq. lia.
Qed.

Lemma shards_NoDup n : NoDup (shards n).
Proof.
  unfold shards. generalize (seq_NoDup (Z.to_nat n) 0). generalize (seq 0 (Z.to_nat n)).
  induction l as [|a tl IH]; simpl; intros H; [constructor|].
  inversion H as [|? ? Hn Hd]; subst. constructor; [|apply IH; exact Hd].
  intros Hin. apply in_map_iff in Hin. destruct Hin as [b [Hb Hin]]. apply Nat2Z.inj in Hb. subst. exact (Hn Hin).
Qed.

Lemma NoDup_map_fst_filter (f : Z * Z -> bool) c : NoDup (map fst c) -> NoDup (map fst (filter f c)).
Proof.
  induction c as [|e tl IH]; simpl; intros H; [constructor|].
  inversion H as [|? ? Hn Hd]; subst. destruct (f e); simpl.
  - constructor; [|apply IH; exact Hd]. intros Hin. apply Hn.
    apply in_map_iff in Hin. destruct Hin as [x [Hx Hin]]. apply filter_In in Hin.
    apply in_map_iff. exists x. split; [exact Hx|apply Hin].
  - apply IH. exact Hd.
Qed.

Lemma item_wf_spec it : item_wf it = true ->
  (forall p i, In p (it_proofs it) -> In i (pf_indices p) -> 0 <= i < it_n it) /\
  0 <= it_parity it <= it_n it.
Proof.
  unfold item_wf. intros H. apply andb_true_iff in H. destruct H as [H H3].
  apply andb_true_iff in H. destruct H as [H1 H2]. split; [|lia].
  intros p i Hp Hi. rewrite forallb_forall in H1. specialize (H1 p Hp).
  rewrite forallb_forall in H1. specialize (H1 i Hi). lia.
Qed.

Lemma provers_nonempty ps i : 1 <= Z.of_nat (length (provers ps i)) ->
  exists p, In p ps /\ In i (pf_indices p).
Proof.
  unfold provers. intros H.
  destruct (nodup Z.eq_dec (map pf_sender (filter (fun p => proves p i) ps))) as [|t tl] eqn:E; [simpl in H; lia|].
  assert (Hin : In t (nodup Z.eq_dec (map pf_sender (filter (fun p => proves p i) ps)))) by (rewrite E; left; reflexivity).
  apply nodup_In in Hin. apply in_map_iff in Hin. destruct Hin as [p [_ Hp]]. apply filter_In in Hp.
  exists p. split; [apply Hp|]. apply proves_In. apply Hp.
Qed.

Section ItemChar.
  Variables (rf : Z) (active : list Z) (it : item) (cnt sub : list (Z * Z)).
  Hypothesis Hwf : item_wf it = true.
  Hypothesis Hcount : count_proofs true (it_proofs it) = (cnt, sub).

  Let n := it_n it.
  Let par := it_parity it.

  Lemma wf_noskip : (it_n it <? it_parity it) = false.
  Proof. destruct (item_wf_spec it Hwf) as [_ H]. lia. Qed.

  Lemma safe_len t : safe_thr rf (it_n it) (it_parity it) = Some t ->
    Z.of_nat (length (map fst (filter (fun e => t <=? snd e * P) cnt))) = safe_count_spec rf it.
  Proof.
    intros Ht. destruct (count_spec _ _ _ Hcount) as (Hk & Hc & Hpres & _).
    destruct (item_wf_spec it Hwf) as [Hrange _].
    unfold safe_count_spec. f_equal. apply Permutation_length. apply NoDup_Permutation.
    - apply NoDup_map_fst_filter. exact Hk.
    - apply NoDup_filter. apply shards_NoDup.
    - intros i. rewrite filter_In, shards_In. unfold safe_spec, enough. rewrite Ht. split.
      + intros Hin. apply in_map_iff in Hin. destruct Hin as [[j c] [Hj Hin]]. simpl in Hj. subst j.
        apply filter_In in Hin. destruct Hin as [Hin Hle]. simpl in Hle.
        destruct (Hc i c Hin) as [Hceq Hpos]. split.
        * rewrite Hceq in Hpos. destruct (provers_nonempty _ _ Hpos) as [p [Hp Hi]]. exact (Hrange p i Hp Hi).
        * rewrite <- Hceq. lia.
      + intros [_ Hs]. apply andb_true_iff in Hs. destruct Hs as [H1 H2].
        apply in_map_iff. exists (i, Z.of_nat (length (provers (it_proofs it) i))). split; [reflexivity|].
        apply filter_In. split; [apply Hpres; lia|exact H2].
  Qed.

  Lemma fault_equiv t v : safe_thr rf (it_n it) (it_parity it) = Some t ->
    (exists e, In e cnt /\ fault_at it active sub t e v) <-> faulted_spec rf active it v = true.
  Proof.
    intros Ht. destruct (count_spec _ _ _ Hcount) as (Hk & Hc & Hpres & Hsub).
    unfold faulted_spec, fault_at. rewrite andb_true_iff, memz_In, existsb_exists. split.
    - intros [[i c] (Hin & Hle & Ha & Hi & Hs)]. simpl in *. split; [exact Ha|]. exists i. split; [exact Hi|].
      destruct (Hc i c Hin) as [Hceq Hpos]. apply andb_true_iff. split.
      + unfold safe_spec, enough. rewrite Ht, <- Hceq. lia.
      + unfold proved_by. rewrite <- Hsub, Hs. reflexivity.
    - intros [Ha [i [Hi Hb]]]. apply andb_true_iff in Hb. destruct Hb as [Hs Hp].
      unfold safe_spec, enough in Hs. rewrite Ht in Hs. apply andb_true_iff in Hs. destruct Hs as [H1 H2].
      exists (i, Z.of_nat (length (provers (it_proofs it) i))). simpl. split; [apply Hpres; lia|].
      repeat split; try assumption. unfold proved_by in Hp. rewrite <- Hsub in Hp.
      destruct (mem2 i v sub); [discriminate|reflexivity].
  Qed.

  Lemma spec_none : safe_thr rf (it_n it) (it_parity it) = None ->
    safe_count_spec rf it = 0 /\ forall v, faulted_spec rf active it v = false.
  Proof.
    intros Ht. split.
    - unfold safe_count_spec. replace (filter (safe_spec rf it) (shards (it_n it))) with (@nil Z); [reflexivity|].
      symmetry. induction (shards (it_n it)) as [|a tl IH]; simpl; [reflexivity|].
      unfold safe_spec at 1, enough. rewrite Ht. exact IH.
    - intros v. unfold faulted_spec. destruct (memz v active); [simpl|reflexivity].
      induction (asg_of it v) as [|a tl IH]; simpl; [reflexivity|].
      unfold safe_spec at 1, enough. rewrite Ht. simpl. exact IH.
  Qed.
End ItemChar.

Theorem tally_item_char g rf active fs0 it r :
  item_wf it = true -> tally_item true g rf active fs0 it = Some r ->
  Z.of_nat (length (ir_safe r)) = safe_count_spec rf it /\
  ir_verdict r = verdict_spec rf it /\
  (forall v, In v (ir_faults r) <-> In v fs0 \/ faulted_spec rf active it v = true) /\
  (NoDup fs0 -> NoDup (ir_faults r)).
Proof.
  intros Hwf. unfold tally_item. destruct (count_proofs true (it_proofs it)) as [cnt sub] eqn:Hcount.
  destruct (zkp_threshold rf (it_n it) (Z.of_nat (length active))) as [thr|]; simpl; [|discriminate].
  pose proof (wf_noskip it Hwf) as Hskip.
  assert (Hmain : (exists safe fs,
            fold_left (safe_step rf it active sub) cnt (Some ([], fs0)) = Some (safe, fs) /\
            Z.of_nat (length safe) = safe_count_spec rf it /\
            (forall v, In v fs <-> In v fs0 \/ faulted_spec rf active it v = true) /\
            (NoDup fs0 -> NoDup fs)) \/
          fold_left (safe_step rf it active sub) cnt (Some ([], fs0)) = None).
  { destruct (safe_thr rf (it_n it) (it_parity it)) as [t|] eqn:Ht.
    - destruct (safe_fold rf it active sub t Hskip Ht cnt [] fs0) as [fs (Hf & Hm & Hn)].
      left. exists (map fst (filter (fun e => t <=? snd e * P) cnt)), fs. simpl in Hf.
      split; [exact Hf|]. split; [apply (safe_len rf it cnt sub Hwf Hcount t Ht)|]. split; [|exact Hn].
      intros v. rewrite Hm. rewrite (fault_equiv rf active it cnt sub Hcount t v Ht). reflexivity.
    - destruct cnt as [|e tl].
      + left. exists [], fs0. simpl. destruct (spec_none rf active it Ht) as [H0 Hf].
        split; [reflexivity|]. split; [rewrite H0; reflexivity|]. split; [|auto].
        intros v. rewrite Hf. intuition congruence.
      + right. apply safe_fold_none; [exact Hskip|exact Ht|discriminate]. }
  destruct Hmain as [(safe & fs & Hf & Hlen & Hm & Hn)|Hf]; rewrite Hf; simpl; [|discriminate].
  unfold verdict_spec. rewrite <- Hlen.
  destruct (Z.of_nat (length safe) + it_parity it <? it_n it).
  - destruct (negb g && (0 <? it_ncoins it) && (it_ninv it =? 0)); [discriminate|].
    intros Hr. inversion Hr; subst; simpl. repeat split; assumption || apply Hm.
  - intros Hr. inversion Hr; subst; simpl. repeat split; assumption || apply Hm.
Qed.

(* the repaired item tally and the property's reference computation agree *)
Corollary verdict_eq_spec rf active it r :
  item_wf it = true -> tally_item1 rf active it = Some r -> ir_verdict r = verdict_spec rf it.
Proof. intros Hwf H. apply (tally_item_char true rf active [] it r Hwf H). Qed.

Corollary faults_eq_spec rf active it r :
  item_wf it = true -> tally_item1 rf active it = Some r ->
  NoDup (ir_faults r) /\ forall v, In v (ir_faults r) <-> faulted_spec rf active it v = true.
Proof.
  intros Hwf H. destruct (tally_item_char true rf active [] it r Hwf H) as (_ & _ & Hm & Hn).
  split; [apply Hn; constructor|]. intros v. rewrite Hm. simpl. intuition.
Qed.

(* "repeating an index or proving twice does not count twice": the result depends on the
   stored proofs only through the SET of provers of every shard *)
Lemma safe_spec_ext rf it it' :
  it_n it = it_n it' -> it_parity it = it_parity it' ->
  (forall i, length (provers (it_proofs it) i) = length (provers (it_proofs it') i)) ->
  forall i, safe_spec rf it i = safe_spec rf it' i.
Proof. intros Hn Hp Hl i. unfold safe_spec. rewrite Hn, Hp, Hl. reflexivity. Qed.

Theorem verdict_depends_on_prover_sets rf active it it' r r' :
  item_wf it = true -> item_wf it' = true ->
  it_n it = it_n it' -> it_parity it = it_parity it' ->
  (forall i v, In v (provers (it_proofs it) i) <-> In v (provers (it_proofs it') i)) ->
  tally_item1 rf active it = Some r -> tally_item1 rf active it' = Some r' ->
  ir_verdict r = ir_verdict r'.
Proof.
  intros Hwf Hwf' Hn Hp Hset H H'.
  rewrite (verdict_eq_spec _ _ _ _ Hwf H), (verdict_eq_spec _ _ _ _ Hwf' H').
  unfold verdict_spec, safe_count_spec. rewrite <- Hn, <- Hp.
  replace (filter (safe_spec rf it') (shards (it_n it))) with (filter (safe_spec rf it) (shards (it_n it))); [reflexivity|].
  apply filter_ext. apply safe_spec_ext; [exact Hn|exact Hp|].
  intros i. apply Permutation_length. apply NoDup_Permutation; [apply NoDup_nodup|apply NoDup_nodup|apply Hset].
Qed.

(* ------------------------------------------------------------------ counters *)

Lemma bump_fold l : forall f x, fold_left bump l f x = f x + Z.of_nat (count_occ Z.eq_dec l x).
Proof.
  induction l as [|a tl IH]; simpl; intros f x; [lia|].
  rewrite IH. unfold bump. destruct (Z.eq_dec a x) as [->|Hne].
  - rewrite Z.eqb_refl. lia.
  - destruct (x =? a) eqn:E; [apply Z.eqb_eq in E; congruence|lia].
Qed.

Lemma bump_fold_nodup l f x : NoDup l ->
  fold_left bump l f x = f x + (if memz x l then 1 else 0).
Proof.
  intros Hd. rewrite bump_fold. destruct (memz x l) eqn:E.
  - apply memz_In in E. apply (NoDup_count_occ' Z.eq_dec) in E; [|exact Hd]. rewrite E. reflexivity.
  - apply memz_false in E. apply (count_occ_not_In Z.eq_dec) in E. rewrite E. reflexivity.
Qed.

(* contribution of one item to the counter of x *)
Definition flt (rf : Z) (active : list Z) (it : item) (x : Z) : Z :=
  match tally_item1 rf active it with
  | Some r => if memz x (ir_faults r) then 1 else 0
  | None => 0
  end.

Lemma flt_some rf active it r x : tally_item1 rf active it = Some r ->
  flt rf active it x = if memz x (ir_faults r) then 1 else 0.
Proof. intros H. unfold flt. rewrite H. reflexivity. Qed.

Fixpoint fsum (g : item -> Z) (its : list item) : Z :=
  match its with [] => 0 | it :: tl => g it + fsum g tl end.

Lemma fsum_perm g a b : Permutation a b -> fsum g a = fsum g b.
Proof. induction 1; simpl; lia. Qed.

Lemma fsum_app g a b : fsum g (a ++ b) = fsum g a + fsum g b.
Proof. induction a; simpl; lia. Qed.

Definition item_verdict (rf : Z) (active : list Z) (it : item) (v : option verdict) : Prop :=
  exists r, tally_item1 rf active it = Some r /\ v = Some (ir_verdict r).

Lemma tally_item1_nodup rf active it r : tally_item1 rf active it = Some r -> NoDup (ir_faults r).
Proof.
  unfold tally_item1, tally_item. destruct (count_proofs true (it_proofs it)) as [cnt sub].
  destruct (zkp_threshold rf (it_n it) (Z.of_nat (length active))); simpl; [|discriminate].
  assert (Hn : forall c acc, match acc with Some (_, fs) => NoDup fs | None => True end ->
               match fold_left (safe_step rf it active sub) c acc with Some (_, fs) => NoDup fs | None => True end).
  { induction c as [|e tl IH]; simpl; intros acc Hacc; [exact Hacc|]. apply IH.
    destruct acc as [[safe fs]|]; simpl; [|exact I].
    destruct (it_n it <? it_parity it); [exact Hacc|].
    destruct (safe_thr rf (it_n it) (it_parity it)); simpl; [|exact I].
    destruct (z0 <=? snd e * P); [|exact Hacc]. apply fault_fold. exact Hacc. }
  specialize (Hn cnt (Some ([], [])) (NoDup_nil Z)).
  destruct (fold_left (safe_step rf it active sub) cnt (Some ([], []))) as [[safe fs]|]; simpl; [|discriminate].
  destruct (Z.of_nat (length safe) + it_parity it <? it_n it); simpl; intros Hr; inversion Hr; subst; exact Hn.
Qed.

Lemma tally_items_cons rf active fs it tl st :
  active <> [] ->
  tally_items true true true rf active fs (it :: tl) st =
  match tally_item1 rf active it with
  | Some r =>
      match tally_items true true true rf active (ir_faults r) tl
              {| ts_fc := fold_left bump (ir_faults r) (ts_fc st); ts_cc := ts_cc st + 1 |} with
      | Some (st'', vs) => Some (st'', Some (ir_verdict r) :: vs)
      | None => None
      end
  | None => None
  end.
Proof. destruct active; [congruence|reflexivity]. Qed.

(* no bonded validator: GetZkpThreshold fails for every item, nothing is tallied *)
Lemma tally_items_noactive d l g rf : forall its fs st,
  tally_items d l g rf [] fs its st = Some (st, map (fun _ => None) its).
Proof.
  induction its as [|it tl IH]; intros fs st; [reflexivity|].
  simpl. rewrite IH. reflexivity.
Qed.

(* the block tally of the repaired code, item by item *)
Lemma tally_block_char rf active : active <> [] -> forall its fs st st' vs,
  tally_items true true true rf active fs its st = Some (st', vs) ->
  Forall2 (item_verdict rf active) its vs /\
  ts_cc st' = ts_cc st + Z.of_nat (length its) /\
  forall x, ts_fc st' x = ts_fc st x + fsum (fun it => flt rf active it x) its.
Proof.
  intros Hne. induction its as [|it tl IH]; intros fs st st' vs H.
  - simpl in H. inversion H; subst. split; [constructor|]. split; [simpl; lia|]. intros x. simpl. lia.
  - rewrite (tally_items_cons _ _ _ _ _ _ Hne) in H.
    destruct (tally_item1 rf active it) as [r|] eqn:Hr; [|discriminate].
    destruct (tally_items true true true rf active (ir_faults r) tl
                {| ts_fc := fold_left bump (ir_faults r) (ts_fc st); ts_cc := ts_cc st + 1 |}) as [[st2 vs2]|] eqn:Ht;
      [|discriminate].
    inversion H; subst. destruct (IH _ _ _ _ Ht) as (Hv & Hc & Hf). simpl in Hc, Hf.
    split; [constructor; [exists r; split; [exact Hr|reflexivity]|exact Hv]|].
    split; [rewrite Hc; simpl length; lia|].
    intros x. rewrite Hf. cbn [fsum]. rewrite (flt_some _ _ _ _ x Hr).
    rewrite (bump_fold_nodup _ _ _ (tally_item1_nodup _ _ _ _ Hr)). lia.
Qed.

Lemma tally_block_total rf active : active <> [] -> forall its fs st,
  Forall (fun it => tally_item1 rf active it <> None) its ->
  exists st' vs, tally_items true true true rf active fs its st = Some (st', vs).
Proof.
  intros Hne. induction its as [|it tl IH]; intros fs st Hall.
  - exists st, []. reflexivity.
  - inversion Hall as [|? ? Hit Htl]; subst. rewrite (tally_items_cons _ _ _ _ _ _ Hne).
    destruct (tally_item1 rf active it) as [r|]; [|congruence].
    destruct (IH (ir_faults r) {| ts_fc := fold_left bump (ir_faults r) (ts_fc st); ts_cc := ts_cc st + 1 |} Htl) as [st2 [vs2 H2]].
    rewrite H2. eexists. eexists. reflexivity.
Qed.

Lemma tally_block_ok_items rf active : active <> [] -> forall its fs st st' vs,
  tally_items true true true rf active fs its st = Some (st', vs) ->
  Forall (fun it => tally_item1 rf active it <> None) its.
Proof.
  intros Hne its fs st st' vs H. destruct (tally_block_char _ _ Hne _ _ _ _ _ H) as [Hv _].
  clear H. induction Hv as [|it v tl vs' Hiv _ IH]; [constructor|].
  destruct Hiv as [r [Hr _]]. constructor; [congruence|exact IH].
Qed.

(* order independence: permuting the items tallied in one block *)
Theorem tally_order_independent rf active its its' st st1 vs1 :
  active <> [] ->
  Permutation its its' ->
  tally_block rf active its st = Some (st1, vs1) ->
  exists st2 vs2,
    tally_block rf active its' st = Some (st2, vs2) /\
    (forall x, ts_fc st1 x = ts_fc st2 x) /\ ts_cc st1 = ts_cc st2 /\
    Forall2 (item_verdict rf active) its vs1 /\ Forall2 (item_verdict rf active) its' vs2.
Proof.
  unfold tally_block. intros Hne Hp H1.
  pose proof (tally_block_ok_items _ _ Hne _ _ _ _ _ H1) as Hall.
  assert (Hall' : Forall (fun it => tally_item1 rf active it <> None) its').
  { apply Forall_forall. intros it Hin. rewrite Forall_forall in Hall. apply Hall.
    apply (Permutation_in _ (Permutation_sym Hp) Hin). }
  destruct (tally_block_total rf active Hne its' [] st Hall') as [st2 [vs2 H2]].
  exists st2, vs2. split; [exact H2|].
  destruct (tally_block_char _ _ Hne _ _ _ _ _ H1) as (Hv1 & Hc1 & Hf1).
  destruct (tally_block_char _ _ Hne _ _ _ _ _ H2) as (Hv2 & Hc2 & Hf2).
  split; [|split; [|split; assumption]].
  - intros x. rewrite Hf1, Hf2. rewrite (fsum_perm _ _ _ Hp). reflexivity.
  - rewrite Hc1, Hc2. rewrite (Permutation_length Hp). reflexivity.
Qed.

(* the fault-set argument threaded through the repaired loop is never read *)
Lemma tally_items_fs_irrel rf active its st fs fs' :
  tally_items true true true rf active fs its st = tally_items true true true rf active fs' its st.
Proof. destruct active; [rewrite !tally_items_noactive; reflexivity|destruct its; reflexivity]. Qed.

(* grouping independence: tallying a ++ b in one block = tallying a, then b in a later block *)
Theorem tally_split_blocks rf active : forall a b st,
  tally_block rf active (a ++ b) st =
  match tally_block rf active a st with
  | Some (s, va) =>
      match tally_block rf active b s with
      | Some (s', vb) => Some (s', va ++ vb)
      | None => None
      end
  | None => None
  end.
Proof.
  unfold tally_block. destruct active as [|a0 act].
  { intros a b st. rewrite !tally_items_noactive, map_app. reflexivity. }
  assert (Hne : a0 :: act <> []) by discriminate. remember (a0 :: act) as active.
  intros a b. generalize (@nil Z) at 1 2 as fs.
  induction a as [|it tl IH]; intros fs st.
  - simpl. rewrite (tally_items_fs_irrel rf active b st fs []).
    destruct (tally_items true true true rf active [] b st) as [[s' vb]|]; reflexivity.
  - rewrite <- app_comm_cons, !(tally_items_cons _ _ _ _ _ _ Hne).
    destruct (tally_item1 rf active it) as [r|]; [|reflexivity].
    rewrite IH.
    destruct (tally_items true true true rf active (ir_faults r) tl
               {| ts_fc := fold_left bump (ir_faults r) (ts_fc st); ts_cc := ts_cc st + 1 |}) as [[s va]|]; [|reflexivity].
    destruct (tally_items true true true rf active [] b s) as [[s' vb]|]; reflexivity.
Qed.

(* per item, by the reference: the counter of x rises by exactly one for every tallied item on
   which x is at fault, whatever else is tallied with it *)
Theorem counter_rises_by_one_per_faulted_item rf active its st st' vs :
  active <> [] ->
  Forall (fun it => item_wf it = true) its ->
  tally_block rf active its st = Some (st', vs) ->
  (forall x, ts_fc st' x = ts_fc st x +
             Z.of_nat (length (filter (fun it => faulted_spec rf active it x) its))) /\
  ts_cc st' = ts_cc st + Z.of_nat (length its) /\
  vs = map (fun it => Some (verdict_spec rf it)) its.
Proof.
  unfold tally_block. intros Hne Hwf H.
  destruct (tally_block_char _ _ Hne _ _ _ _ _ H) as (Hv & Hc & Hf). split; [|split; [exact Hc|]].
  - intros x. rewrite Hf. f_equal. clear Hf Hc H.
    induction Hv as [|it v tl vs' [r [Hr _]] _ IH]; [reflexivity|].
    inversion Hwf as [|? ? Hw Hwtl]; subst. cbn [fsum filter]. rewrite (IH Hwtl). rewrite (flt_some _ _ _ _ x Hr).
    destruct (faults_eq_spec _ _ _ _ Hw Hr) as [_ Hm].
    destruct (faulted_spec rf active it x) eqn:E.
    + apply Hm in E. apply memz_In in E. rewrite E. simpl length. lia.
    + destruct (memz x (ir_faults r)) eqn:E2; [|lia]. apply memz_In in E2. apply Hm in E2. congruence.
  - clear Hf Hc H. induction Hv as [|it v tl vs' [r [Hr Hrv]] _ IH]; [reflexivity|].
    inversion Hwf as [|? ? Hw Hwtl]; subst. simpl. rewrite <- (IH Hwtl).
    rewrite <- (verdict_eq_spec _ _ _ _ Hw Hr). reflexivity.
Qed.

(* ------------------------------------------------------------------ epoch end *)

Definition slash_cond (thr : Z) (info : Z -> vinfo) (f : Z -> Z) (v : Z) : bool :=
  vi_exists (info v) && vi_bonded (info v) && negb (vi_jailed (info v)) && (thr <? f v).

Lemma slash_fold thr info : forall dom sl0 f0 sl f,
  NoDup dom ->
  fold_left (slash_one true thr info) dom (sl0, f0) = (sl, f) ->
  (forall v, In v sl <-> In v sl0 \/ (In v dom /\ slash_cond thr info f0 v = true)) /\
  (forall v, f v = if memz v dom then 0 else f0 v).
Proof.
  induction dom as [|u tl IH]; intros sl0 f0 sl f Hd H.
  - simpl in H. inversion H; subst. split; intros v; simpl; [intuition|reflexivity].
  - cbn [fold_left] in H. inversion Hd as [|? ? Hn Hd']; subst.
    assert (Hstep : exists sl1, slash_one true thr info (sl0, f0) u = (sl1, clear f0 u) /\
              forall v, In v sl1 <-> In v sl0 \/ (v = u /\ slash_cond thr info f0 u = true)).
    { unfold slash_one, slash_cond. destruct (vi_exists (info u)); simpl.
      - destruct (vi_jailed (info u)); simpl.
        + exists sl0. split; [reflexivity|]. intros v. rewrite andb_false_r. simpl. intuition congruence.
        + destruct (vi_bonded (info u)); simpl.
          * destruct (f0 u <=? thr) eqn:E.
            -- exists sl0. split; [reflexivity|]. intros v. assert (Hlt : (thr <? f0 u) = false) by lia. rewrite Hlt. intuition congruence.
            -- exists (sl0 ++ [u]). split; [reflexivity|]. intros v. rewrite in_app_iff. simpl.
               assert (Hlt : (thr <? f0 u) = true) by lia. rewrite Hlt. intuition.
          * exists sl0. split; [reflexivity|]. intros v. intuition congruence.
      - exists sl0. split; [reflexivity|]. intros v. intuition congruence. }
    destruct Hstep as [sl1 [Hs1 Hm1]]. rewrite Hs1 in H.
    destruct (IH _ _ _ _ Hd' H) as [Hm Hf]. split.
    + intros v. rewrite Hm, Hm1. unfold slash_cond, clear.
      split.
      * intros [[Hx|[-> Hc]]|[Hin Hc]].
        -- left. exact Hx.
        -- right. split; [left; reflexivity|exact Hc].
        -- right. split; [right; exact Hin|]. destruct (v =? u) eqn:E; [apply Z.eqb_eq in E; subst; contradiction|exact Hc].
      * intros [Hx|[[->|Hin] Hc]].
        -- left. left. exact Hx.
        -- left. right. split; [reflexivity|exact Hc].
        -- right. split; [exact Hin|]. destruct (v =? u) eqn:E; [apply Z.eqb_eq in E; subst; contradiction|exact Hc].
    + intros v. rewrite Hf. unfold clear, memz. cbn [existsb].
      destruct (v =? u); simpl; destruct (existsb (Z.eqb v) tl); reflexivity.
Qed.

Theorem slash_exactly sft info dom st sl st' :
  NoDup dom ->
  slash_epoch true sft info dom st = Some (sl, st') ->
  (forall v, In v sl <-> In v dom /\ slashed_spec sft info st v = true) /\
  (forall v, In v dom -> ts_fc st' v = 0) /\
  (forall v, ~ In v dom -> ts_fc st' v = ts_fc st v) /\
  ts_cc st' = 0.
Proof.
  unfold slash_epoch, slashed_spec. intros Hd H.
  destruct (slash_threshold sft (ts_cc st)) as [thr|]; simpl in H; [|discriminate].
  destruct (fold_left (slash_one true thr info) dom ([], ts_fc st)) as [sl1 f] eqn:E.
  inversion H; subst; simpl. destruct (slash_fold _ _ _ _ _ _ _ Hd E) as [Hm Hf].
  split; [|split; [|split; [|reflexivity]]].
  - intros v. rewrite Hm. unfold slash_cond. simpl. intuition.
  - intros v Hin. rewrite Hf. apply memz_In in Hin. rewrite Hin. reflexivity.
  - intros v Hin. rewrite Hf. apply memz_false in Hin. rewrite Hin. reflexivity.
Qed.

(* the integer threshold is the ceiling of slash_fault_threshold * challenges *)
Lemma slash_threshold_ceil sft cc thr :
  0 <= sft -> 0 <= cc -> slash_threshold sft cc = Some thr ->
  (thr - 1) * P < sft * cc <= thr * P.
Proof.
  unfold slash_threshold, dmul_int, dceil, dtrunc_int, chk, in_range. intros Hs Hc H.
  destruct (Z.abs (sft * cc) <=? DEC_LIM); simpl in H; [|discriminate].
  destruct (Z.abs ((if 0 <? Z.rem (sft * cc) P then Z.quot (sft * cc) P + 1 else Z.quot (sft * cc) P) * P) <=? DEC_LIM); simpl in H; [|discriminate].
  destruct ((0 <=? _) && (_ <=? UINT64_MAX)) in H; [|discriminate]. inversion H; subst. clear H.
  assert (0 <= sft * cc) by nia. unfold P in *.
  destruct (0 <? Z.rem (sft * cc) 1000000000000000000) eqn:E; lia.
Qed.

(* an operator without a counter (reads 0) is never slashed: the set of operators visited
   may be any superset of those with an entry *)
Lemma slash_needs_positive_counter sft info st v :
  slashed_spec sft info st v = true -> 0 < ts_fc st v.
Proof.
  unfold slashed_spec, slash_threshold. destruct (dmul_int sft (ts_cc st)); simpl; [|discriminate].
  destruct (dceil z); simpl; [|discriminate].
  destruct ((0 <=? dtrunc_int z0) && (dtrunc_int z0 <=? UINT64_MAX)) eqn:E; [|discriminate]. lia.
Qed.

(* ------------------------------------------------------------------ the decimal thresholds *)

(* the safe-shard threshold against the exact fraction 2/3 * rf * (n - parity) / n *)
Lemma safe_thr_bracket rf n parity t :
  0 <= rf -> 0 < n -> 0 <= parity <= n -> safe_thr rf n parity = Some t ->
  3 * n * t <= 2 * rf * (n - parity) < 3 * n * t + 5 * n.
Proof.
  unfold safe_thr, dmul_int, dquo_int, chk. intros Hrf Hn Hp H.
  destruct (in_range (rf * (n - parity))); simpl in H; [|discriminate].
  destruct (n =? 0) eqn:En; [lia|]. simpl in H.
  destruct (in_range (Z.quot (rf * (n - parity)) n * 2)); simpl in H; [|discriminate].
  inversion H; subst. clear H. assert (0 <= rf * (n - parity)) by nia.
  remember (rf * (n - parity)) as a. nia.
Qed.

(* the zkp threshold lies between 1 and n for a non-empty item *)
Lemma zkp_threshold_range rf n nact thr : 1 <= n -> zkp_threshold rf n nact = Some thr -> 1 <= thr <= n.
Proof.
  unfold zkp_threshold, dtrunc_int. intros Hn H.
  destruct (dmul_int rf n); simpl in H; [|discriminate].
  destruct (dquo_int z nact); simpl in H; [|discriminate].
  destruct (dceil z0) as [c|]; simpl in H; [|discriminate].
  destruct (c <? n * P) eqn:E.
  - match type of H with (if ?c then _ else _) = _ => destruct c end; [|discriminate].
    inversion H. unfold P in *. lia.
  - inversion H. lia.
Qed.

(* the formula of commit 9a90e6f and the one it replaced agree wherever the old one did not
   panic: the new code differs only on inputs on which the old end blocker died
   (ceil(rf*n/active) beyond int64, or no bonded validator) *)
Lemma zkp_threshold_same_as_old rf n nact t :
  1 <= n -> zkp_threshold_old rf n nact = Some t -> zkp_threshold rf n nact = Some t.
Proof.
  unfold zkp_threshold, zkp_threshold_old, dtrunc_int, dceil, chk. intros Hn H.
  destruct (dmul_int rf n); simpl in *; [|discriminate].
  destruct (dquo_int z nact) as [b|]; simpl in *; [|discriminate].
  destruct (in_range ((if 0 <? Z.rem b P then Z.quot b P + 1 else Z.quot b P) * P)); simpl in *; [|discriminate].
  set (q := if 0 <? Z.rem b P then Z.quot b P + 1 else Z.quot b P) in *.
  assert (Hq : Z.quot (q * P) P = q) by (apply Z.quot_mul; unfold P; lia).
  rewrite Hq in *.
  match type of H with (if ?c then _ else _) = _ => destruct c eqn:E end; [|discriminate].
  inversion H; subst. clear H Hq. clearbody q. destruct (q * P <? n * P) eqn:E2.
  - f_equal. unfold P in *. lia.
  - f_equal. unfold P in *. lia.
Qed.

(* ------------------------------------------------------------------ the code as it was found:
   witnesses (each reproduced on the implementation, harness/c09 corpus) *)

Definition rf5 : Z := 5 * P.
Definition rf3 : Z := 3 * P.
Definition pf (s : Z) (l : list Z) : proof := {| pf_sender := s; pf_indices := l |}.

(* two validators list shard 0 twice each: count 4 >= 3.33, yet only 2 distinct provers *)
Definition w_dup : item :=
  {| it_n := 1; it_parity := 0; it_proofs := [pf 1 [0; 0]; pf 2 [0; 0]];
     it_asg := [(1, [0]); (2, [0]); (3, [0]); (4, [0])]; it_ninv := 1; it_ncoins := 1 |}.

Lemma found_duplicate_index_counts_twice :
  item_wf w_dup = true /\ NoDup (map pf_sender (it_proofs w_dup)) /\
  option_map ir_verdict (tally_item false true rf5 [1; 2; 3; 4] [] w_dup) = Some Verified /\
  verdict_spec rf5 w_dup = Rejected /\
  option_map ir_verdict (tally_item1 rf5 [1; 2; 3; 4] w_dup) = Some Rejected.
Proof.
  split; [reflexivity|]. split; [repeat constructor; simpl; intuition congruence|].
  split; [vm_compute; reflexivity|]. split; vm_compute; reflexivity.
Qed.

(* item A leaves validator 4 at fault; item B is proven by everybody *)
Definition w_A : item :=
  {| it_n := 2; it_parity := 0; it_proofs := [pf 1 [0; 1]; pf 2 [0; 1]; pf 3 [0; 1]];
     it_asg := [(1, [0; 1]); (2, [1; 0]); (3, [0; 1]); (4, [1; 0])]; it_ninv := 1; it_ncoins := 1 |}.
Definition w_B : item :=
  {| it_n := 2; it_parity := 0; it_proofs := [pf 1 [0; 1]; pf 2 [0; 1]; pf 3 [0; 1]; pf 4 [0; 1]];
     it_asg := [(1, [0; 1]); (2, [1; 0]); (3, [0; 1]); (4, [1; 0])]; it_ninv := 1; it_ncoins := 1 |}.
Definition st0 : tstate := {| ts_fc := fun _ => 0; ts_cc := 0 |}.

Definition fc_after (r : option (tstate * list (option verdict))) (v : Z) : option Z :=
  option_map (fun x => ts_fc (fst x) v) r.

Lemma found_faults_leak_between_items :
  (* as found: validator 4 is charged for B as well, and the result depends on the order *)
  fc_after (tally_items true false true rf3 [1; 2; 3; 4] [] [w_A; w_B] st0) 4 = Some 2 /\
  fc_after (tally_items true false true rf3 [1; 2; 3; 4] [] [w_B; w_A] st0) 4 = Some 1 /\
  (* the reference, and the repaired code, charge it once *)
  faulted_spec rf3 [1; 2; 3; 4] w_A 4 = true /\ faulted_spec rf3 [1; 2; 3; 4] w_B 4 = false /\
  fc_after (tally_block rf3 [1; 2; 3; 4] [w_A; w_B] st0) 4 = Some 1 /\
  fc_after (tally_block rf3 [1; 2; 3; 4] [w_B; w_A] st0) 4 = Some 1.
Proof. repeat split; vm_compute; reflexivity. Qed.

(* a rejected item without any invalidity record (challenge threshold 0) *)
Definition w_zero : item :=
  {| it_n := 3; it_parity := 0; it_proofs := []; it_asg := [(1, [0; 1; 2])]; it_ninv := 0; it_ncoins := 1 |}.

Lemma found_zero_challengers_panics :
  item_wf w_zero = true /\
  tally_item true false rf5 [1] [] w_zero = None /\
  option_map ir_verdict (tally_item1 rf5 [1] w_zero) = Some Rejected.
Proof. repeat split; vm_compute; reflexivity. Qed.

(* operator 91 is not a validator any more: as found its counter survives the epoch end *)
Definition w_info (v : Z) : vinfo :=
  if v =? 91 then {| vi_exists := false; vi_jailed := false; vi_bonded := false |}
  else {| vi_exists := true; vi_jailed := false; vi_bonded := true |}.
Definition w_st : tstate := {| ts_fc := fun v => if v =? 91 then 3 else if v =? 1 then 2 else 0; ts_cc := 3 |}.

Lemma found_removed_validator_counter_survives :
  option_map (fun x => ts_fc (snd x) 91) (slash_epoch false (P / 2) w_info [1; 2; 91] w_st) = Some 3 /\
  option_map (fun x => ts_fc (snd x) 91) (slash_epoch true (P / 2) w_info [1; 2; 91] w_st) = Some 0.
Proof. split; vm_compute; reflexivity. Qed.

(* the range check of the message handler is what keeps the verdict right: a stored index
   outside 0..n-1 would be counted as a shard *)
Definition w_oor : item :=
  {| it_n := 2; it_parity := 0; it_proofs := [pf 1 [0; 5]; pf 2 [0; 5]];
     it_asg := [(1, [0; 1]); (2, [1; 0])]; it_ninv := 1; it_ncoins := 1 |}.
Lemma out_of_range_index_would_count :
  item_wf w_oor = false /\
  option_map ir_verdict (tally_item1 (3 * P / 2) [1; 2] w_oor) = Some Verified /\
  verdict_spec (3 * P / 2) w_oor = Rejected.
Proof. repeat split; vm_compute; reflexivity. Qed.

(* ------------------------------------------------------------------ the whole end blocker
   (tally, then the epoch end) against the reference: this is what monitors 1-3 of
   Da/C09Check.v evaluate on the implementation's observations *)

Lemma slashed_spec_ext sft info s1 s2 v :
  ts_fc s1 v = ts_fc s2 v -> ts_cc s1 = ts_cc s2 -> slashed_spec sft info s1 v = slashed_spec sft info s2 v.
Proof. unfold slashed_spec. intros -> ->. reflexivity. Qed.

Lemma faults_in_noactive rf its x : faults_in rf [] its x = 0.
Proof.
  unfold faults_in. replace (filter (fun it => faulted_spec rf [] it x) its) with (@nil item); [reflexivity|].
  symmetry. induction its as [|it tl IH]; simpl; [reflexivity|exact IH].
Qed.

(* the tally part of the end blocker against the reference, for any set of bonded validators *)
Lemma tally_block_mid rf active its st st1 vs :
  Forall (fun it => item_wf it = true) its ->
  tally_block rf active its st = Some (st1, vs) ->
  vs = expected_verdicts rf active its /\
  (forall x, ts_fc st1 x = ts_fc (mid_of rf active its st) x) /\
  ts_cc st1 = ts_cc (mid_of rf active its st).
Proof.
  intros Hwf Ht. destruct active as [|a0 act].
  - unfold tally_block in Ht. rewrite tally_items_noactive in Ht. inversion Ht; subst. simpl.
    split; [reflexivity|]. split; [|lia]. intros x. rewrite faults_in_noactive. lia.
  - assert (Hne : a0 :: act <> []) by discriminate.
    destruct (counter_rises_by_one_per_faulted_item _ _ _ _ _ _ Hne Hwf Ht) as (Hf & Hc & Hv).
    split; [exact Hv|]. split; [exact Hf|exact Hc].
Qed.

Theorem end_block_spec rf sft epoch active info dom its st st' vs sl :
  Forall (fun it => item_wf it = true) its -> NoDup dom ->
  end_block all_fixed rf sft epoch active info dom its st = Some (st', vs, sl) ->
  vs = expected_verdicts rf active its /\
  if epoch then
    (forall v, In v sl <-> In v dom /\ slashed_spec sft info (mid_of rf active its st) v = true) /\
    (forall v, In v dom -> ts_fc st' v = 0) /\ ts_cc st' = 0
  else
    sl = [] /\ (forall x, ts_fc st' x = ts_fc (mid_of rf active its st) x) /\
    ts_cc st' = ts_cc (mid_of rf active its st).
Proof.
  unfold end_block. simpl. intros Hwf Hd H.
  fold (tally_block rf active its st) in H.
  destruct (tally_block rf active its st) as [[st1 vs1]|] eqn:Ht; simpl in H; [|discriminate].
  destruct (tally_block_mid _ _ _ _ _ _ Hwf Ht) as (Hv & Hf & Hc).
  destruct epoch.
  - destruct (slash_epoch true sft info dom st1) as [[sl2 st2]|] eqn:Hs; simpl in H; [|discriminate].
    inversion H; subst. split; [reflexivity|].
    destruct (slash_exactly _ _ _ _ _ _ Hd Hs) as (Hm & Hz & _ & Hcc).
    split; [|split; assumption]. intros v. rewrite Hm.
    rewrite (slashed_spec_ext sft info st1 (mid_of rf active its st) v); [reflexivity|apply Hf|exact Hc].
  - inversion H; subst. split; [reflexivity|]. split; [reflexivity|]. split; [exact Hf|exact Hc].
Qed.
