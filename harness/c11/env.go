// Environment of the C11 harness: the real sunrise application with a loop-back IBC channel
// pair (channel-0 <-> channel-1 over 09-localhost, port transfer), a liquidity pool over the
// loop-back voucher denom, and a relayer that delivers RecvPacket / Acknowledgement / Timeout
// messages to the real IBC core keeper (which runs the swap middleware stack).
package c11

import (
	"encoding/hex"
	"encoding/json"
	"fmt"
	"sort"
	"strconv"
	"time"

	sdkmath "cosmossdk.io/math"
	sdk "github.com/cosmos/cosmos-sdk/types"
	authtypes "github.com/cosmos/cosmos-sdk/x/auth/types"
	transfertypes "github.com/cosmos/ibc-go/v9/modules/apps/transfer/types"
	clienttypes "github.com/cosmos/ibc-go/v9/modules/core/02-client/types"
	channeltypes "github.com/cosmos/ibc-go/v9/modules/core/04-channel/types"
	ibcexported "github.com/cosmos/ibc-go/v9/modules/core/exported"
	ibckeeper "github.com/cosmos/ibc-go/v9/modules/core/keeper"
	localhost "github.com/cosmos/ibc-go/v9/modules/light-clients/09-localhost"

	lpkeeper "github.com/sunriselayer/sunrise/x/liquiditypool/keeper"
	lptypes "github.com/sunriselayer/sunrise/x/liquiditypool/types"
	swaptypes "github.com/sunriselayer/sunrise/x/swap/types"

	"verifharness/apph"
)

const (
	port  = "transfer"
	chanA = "channel-0" // the "remote" end: incoming packets are sent from here
	chanB = "channel-1" // the "local" end: incoming packets arrive here
	chanC = "channel-2" // second loop-back pair, used by outgoing legs only
	chanD = "channel-3"
	chanE = "channel-4" // third pair, closed after the handshake: transfers over it fail late (after the escrow)
	chanF = "channel-5"
	base  = "uatom" // native denom sent over chanA; arrives on chanB as the voucher denomIn
	quote = "uusdc" // the swap output denom
	mid   = "uosmo" // intermediate denom of series routes
)

var proofHeight = clienttypes.NewHeight(0, 2)

type env struct {
	h                     *apph.H
	now                   time.Time
	denomIn               string         // ibc/HASH(transfer/channel-1/uatom)
	poolID                uint64         // first denomIn/uusdc pool
	pools                 [3]uint64      // three denomIn/uusdc pools (branches of parallel routes)
	poolInMid, poolMidOut uint64         // denomIn/uosmo and uosmo/uusdc (series hop)
	mod                   sdk.AccAddress // swap module account
	prov                  sdk.AccAddress // interface provider named in memos
	sender                sdk.AccAddress // remote sender of incoming packets
	lp                    sdk.AccAddress
	rcv                   []sdk.AccAddress // candidate receivers
	far                   sdk.AccAddress   // receiver of outgoing legs on the far end
	relayer               string
	nativeFn              func() *ibckeeper.Keeper // IbcKeeperFn as wired by the application itself
}

// step runs f as one transaction (all-or-nothing) at the harness clock and returns the events
// it emitted.
func (e *env) step(f func(ctx sdk.Context) error) (sdk.Events, error) {
	ctx := e.h.CtxAt(e.now).WithEventManager(sdk.NewEventManager())
	err := apph.Tx(ctx, f)
	if err != nil {
		return nil, err
	}
	return ctx.EventManager().Events(), nil
}

func (e *env) must(f func(ctx sdk.Context) error) sdk.Events {
	ev, err := e.step(f)
	if err != nil {
		panic(err)
	}
	return ev
}

func attr(ev sdk.Event, key string) (string, bool) {
	for _, a := range ev.Attributes {
		if a.Key == key {
			return a.Value, true
		}
	}
	return "", false
}

// packetsOf extracts the packets of all events of the given type.
func packetsOf(evs sdk.Events, typ string) []channeltypes.Packet {
	var out []channeltypes.Packet
	for _, ev := range evs {
		if ev.Type != typ {
			continue
		}
		var p channeltypes.Packet
		for _, a := range ev.Attributes {
			switch a.Key {
			case channeltypes.AttributeKeyDataHex:
				p.Data, _ = hex.DecodeString(a.Value)
			case channeltypes.AttributeKeySequence:
				p.Sequence, _ = strconv.ParseUint(a.Value, 10, 64)
			case channeltypes.AttributeKeySrcPort:
				p.SourcePort = a.Value
			case channeltypes.AttributeKeySrcChannel:
				p.SourceChannel = a.Value
			case channeltypes.AttributeKeyDstPort:
				p.DestinationPort = a.Value
			case channeltypes.AttributeKeyDstChannel:
				p.DestinationChannel = a.Value
			case channeltypes.AttributeKeyTimeoutHeight:
				p.TimeoutHeight, _ = clienttypes.ParseHeight(a.Value)
			case channeltypes.AttributeKeyTimeoutTimestamp:
				p.TimeoutTimestamp, _ = strconv.ParseUint(a.Value, 10, 64)
			}
		}
		out = append(out, p)
	}
	return out
}

type writtenAck struct {
	Packet channeltypes.Packet
	Ack    []byte
}

// acksOf extracts (packet, ack bytes) of all write_acknowledgement events.
func acksOf(evs sdk.Events) []writtenAck {
	var out []writtenAck
	ps := packetsOf(evs, channeltypes.EventTypeWriteAck)
	i := 0
	for _, ev := range evs {
		if ev.Type != channeltypes.EventTypeWriteAck {
			continue
		}
		v, _ := attr(ev, channeltypes.AttributeKeyAckHex)
		bz, _ := hex.DecodeString(v)
		out = append(out, writtenAck{Packet: ps[i], Ack: bz})
		i++
	}
	return out
}

func newEnv() *env {
	h := apph.New(apph.Options{NumAccounts: 8})
	e := &env{h: h, now: h.Time}
	a := h.App
	e.nativeFn = a.SwapKeeper.IbcKeeperFn
	e.mod = authtypes.NewModuleAddress(swaptypes.ModuleName)
	e.sender, e.lp, e.prov, e.far = h.Accts[0].Addr, h.Accts[1].Addr, h.Accts[2].Addr, h.Accts[3].Addr
	e.rcv = []sdk.AccAddress{h.Accts[4].Addr, h.Accts[5].Addr, h.Accts[6].Addr}
	e.relayer = h.Accts[7].Addr.String()

	// channel handshakes over the localhost connection: channel-0 <-> channel-1 and channel-2 <-> channel-3
	for _, pair := range [][2]string{{chanA, chanB}, {chanC, chanD}, {chanE, chanF}} {
		chanA, chanB := pair[0], pair[1]
		e.must(func(ctx sdk.Context) error {
			_, err := a.IBCKeeper.ChannelOpenInit(ctx, channeltypes.NewMsgChannelOpenInit(port, transfertypes.V1, channeltypes.UNORDERED,
				[]string{ibcexported.LocalhostConnectionID}, port, e.relayer))
			if err != nil {
				return err
			}
			_, err = a.IBCKeeper.ChannelOpenTry(ctx, channeltypes.NewMsgChannelOpenTry(port, transfertypes.V1, channeltypes.UNORDERED,
				[]string{ibcexported.LocalhostConnectionID}, port, chanA, transfertypes.V1, localhost.SentinelProof, proofHeight, e.relayer))
			if err != nil {
				return err
			}
			_, err = a.IBCKeeper.ChannelOpenAck(ctx, channeltypes.NewMsgChannelOpenAck(port, chanA, chanB, transfertypes.V1, localhost.SentinelProof, proofHeight, e.relayer))
			if err != nil {
				return err
			}
			_, err = a.IBCKeeper.ChannelOpenConfirm(ctx, channeltypes.NewMsgChannelOpenConfirm(port, chanB, localhost.SentinelProof, proofHeight, e.relayer))
			return err
		})
	}

	// close the third pair (the transfer application does not allow a user to close a channel, so the
	// channel ends are set to CLOSED directly, as a counterparty-initiated close would leave them)
	{
		ctx := h.Ctx()
		for _, ch := range []string{chanE, chanF} {
			c, ok := a.IBCKeeper.ChannelKeeper.GetChannel(ctx, port, ch)
			if !ok {
				panic("setup: channel " + ch + " missing")
			}
			c.State = channeltypes.CLOSED
			a.IBCKeeper.ChannelKeeper.SetChannel(ctx, port, ch, c)
		}
	}

	// bring a large amount of the voucher denom into existence (plain transfer to the LP)
	amt, _ := sdkmath.NewIntFromString("1000000000000000000000000")
	p := e.sendTransfer(chanA, e.sender, e.lp.String(), sdk.NewCoin(base, amt), "", time.Hour)
	evs, err := e.recv(p)
	if err != nil {
		panic(err)
	}
	acks := acksOf(evs)
	if len(acks) != 1 {
		panic("setup: no ack for the funding transfer")
	}
	if err := e.ack(p, acks[0].Ack); err != nil {
		panic(err)
	}
	e.denomIn = transfertypes.ExtractDenomFromPath(port + "/" + chanB + "/" + base).IBCDenom()
	if !h.Bal(h.Ctx(), e.lp, e.denomIn).Equal(amt) {
		panic("setup: voucher not received")
	}

	// the receivers hold some of the voucher denom of their own
	e.must(func(ctx sdk.Context) error {
		for _, r := range e.rcv {
			if err := a.BankKeeper.SendCoins(ctx, e.lp, r, sdk.NewCoins(sdk.NewCoin(e.denomIn, sdkmath.NewInt(1_000_000_000_000_000)))); err != nil {
				return err
			}
		}
		return nil
	})

	// pools: three denomIn/uusdc (branches of parallel routes), denomIn/uosmo and uosmo/uusdc (a series hop);
	// each with a wide position around price 1
	srv := lpkeeper.NewMsgServerImpl(a.LiquiditypoolKeeper)
	mk := func(b, q, fee string) uint64 {
		var id uint64
		e.must(func(ctx sdk.Context) error {
			res, err := srv.CreatePool(ctx, &lptypes.MsgCreatePool{Authority: e.lp.String(), DenomBase: b, DenomQuote: q,
				FeeRate: fee, PriceRatio: "1.0001", BaseOffset: "0.5"})
			if err != nil {
				return err
			}
			id = res.Id
			liq, _ := sdkmath.NewIntFromString("100000000000000000000")
			_, err = srv.CreatePosition(ctx, &lptypes.MsgCreatePosition{Sender: e.lp.String(), PoolId: res.Id, LowerTick: -5000, UpperTick: 5000,
				TokenBase: sdk.NewCoin(b, liq), TokenQuote: sdk.NewCoin(q, liq), MinAmountBase: sdkmath.ZeroInt(), MinAmountQuote: sdkmath.ZeroInt()})
			return err
		})
		return id
	}
	e.pools = [3]uint64{mk(e.denomIn, quote, "0.003"), mk(e.denomIn, quote, "0.001"), mk(e.denomIn, quote, "0.01")}
	e.poolID = e.pools[0]
	e.poolInMid = mk(e.denomIn, mid, "0.003")
	e.poolMidOut = mk(mid, quote, "0.003")
	return e
}

// sendTransfer sends an ICS-20 transfer and returns the packet it committed.
func (e *env) sendTransfer(ch string, from sdk.AccAddress, to string, coin sdk.Coin, memo string, timeout time.Duration) channeltypes.Packet {
	evs := e.must(func(ctx sdk.Context) error {
		_, err := e.h.App.TransferKeeper.Transfer(ctx, &transfertypes.MsgTransfer{SourcePort: port, SourceChannel: ch, Token: coin,
			Sender: from.String(), Receiver: to, TimeoutTimestamp: uint64(e.now.Add(timeout).UnixNano()), Memo: memo})
		return err
	})
	ps := packetsOf(evs, channeltypes.EventTypeSendPacket)
	if len(ps) != 1 {
		panic(fmt.Sprintf("sendTransfer: %d packets", len(ps)))
	}
	return ps[0]
}

// recv relays MsgRecvPacket for p to the real IBC core keeper.
func (e *env) recv(p channeltypes.Packet) (sdk.Events, error) {
	return e.step(func(ctx sdk.Context) error {
		_, err := e.h.App.IBCKeeper.RecvPacket(ctx, channeltypes.NewMsgRecvPacket(p, localhost.SentinelProof, proofHeight, e.relayer))
		return err
	})
}

func (e *env) ackEv(p channeltypes.Packet, ack []byte) (sdk.Events, error) {
	return e.step(func(ctx sdk.Context) error {
		_, err := e.h.App.IBCKeeper.Acknowledgement(ctx, channeltypes.NewMsgAcknowledgement(p, ack, localhost.SentinelProof, proofHeight, e.relayer))
		return err
	})
}

func (e *env) ack(p channeltypes.Packet, ack []byte) error {
	_, err := e.ackEv(p, ack)
	return err
}

func (e *env) timeout(p channeltypes.Packet) (sdk.Events, error) {
	return e.step(func(ctx sdk.Context) error {
		_, err := e.h.App.IBCKeeper.Timeout(ctx, channeltypes.NewMsgTimeout(p, 1, localhost.SentinelProof, proofHeight, e.relayer))
		return err
	})
}

// farRecv delivers an outgoing leg to its counterparty end; with fail=true the far transfer
// module is set to refuse receives for the duration of the call, so the far end writes an error
// acknowledgement. Returns the acknowledgement bytes written by the far end.
func (e *env) farRecv(p channeltypes.Packet, fail bool) ([]byte, error) {
	tk := e.h.App.TransferKeeper
	if fail {
		ctx := e.h.CtxAt(e.now)
		pr := tk.GetParams(ctx)
		pr.ReceiveEnabled = false
		tk.SetParams(ctx, pr)
		defer func() {
			pr.ReceiveEnabled = true
			tk.SetParams(e.h.CtxAt(e.now), pr)
		}()
	}
	evs, err := e.recv(p)
	if err != nil {
		return nil, err
	}
	for _, w := range acksOf(evs) {
		if w.Packet.Sequence == p.Sequence && w.Packet.DestinationChannel == p.DestinationChannel {
			return w.Ack, nil
		}
	}
	return nil, fmt.Errorf("far end wrote no acknowledgement")
}

func (e *env) bal(a sdk.AccAddress, d string) sdkmath.Int { return e.h.Bal(e.h.CtxAt(e.now), a, d) }

// locked(d) = coins of d held in the four escrow accounts minus the supply of d: it rises by x when
// x is escrowed or burned by an outgoing transfer and falls by x on a refund, an unescrow or a mint.
func (e *env) locked(d string) sdkmath.Int {
	ctx := e.h.CtxAt(e.now)
	return e.escrowed(d).Sub(e.h.Supply(ctx, d))
}

func (e *env) incoming() []swaptypes.IncomingInFlightPacket {
	l, err := e.h.App.SwapKeeper.GetIncomingInFlightPackets(e.h.CtxAt(e.now))
	if err != nil {
		panic(err)
	}
	sort.Slice(l, func(i, j int) bool {
		if l[i].Index.ChannelId != l[j].Index.ChannelId {
			return l[i].Index.ChannelId < l[j].Index.ChannelId
		}
		return l[i].Index.Sequence < l[j].Index.Sequence
	})
	return l
}

func (e *env) outgoing() []swaptypes.OutgoingInFlightPacket {
	l, err := e.h.App.SwapKeeper.GetOutgoingInFlightPackets(e.h.CtxAt(e.now))
	if err != nil {
		panic(err)
	}
	sort.Slice(l, func(i, j int) bool {
		if l[i].Index.ChannelId != l[j].Index.ChannelId {
			return l[i].Index.ChannelId < l[j].Index.ChannelId
		}
		return l[i].Index.Sequence < l[j].Index.Sequence
	})
	return l
}

func (e *env) hasCommitment(ch string, seq uint64) bool {
	return e.h.App.IBCKeeper.ChannelKeeper.HasPacketCommitment(e.h.CtxAt(e.now), port, ch, seq)
}

func (e *env) hasAck(ch string, seq uint64) bool {
	return e.h.App.IBCKeeper.ChannelKeeper.HasPacketAcknowledgement(e.h.CtxAt(e.now), port, ch, seq)
}

func (e *env) nextSeqSend(ch string) uint64 {
	s, _ := e.h.App.IBCKeeper.ChannelKeeper.GetNextSequenceSend(e.h.CtxAt(e.now), port, ch)
	return s
}

// setWired selects the wiring of the swap keeper's IbcKeeperFn: harness-provided (true) or
// whatever the application's own wiring supplied (false).
func (e *env) setWired(w bool) {
	if w {
		k := e.h.App.IBCKeeper
		e.h.App.SwapKeeper.IbcKeeperFn = func() *ibckeeper.Keeper { return k }
	} else {
		e.h.App.SwapKeeper.IbcKeeperFn = e.nativeFn
	}
}

func jsonStr(v any) string {
	b, _ := json.Marshal(v)
	return string(b)
}

// pad sends plain transfers over ch (from the LP, never relayed) until the channel's next send
// sequence is n: IBC sequences are per channel, so anyone can align two channels this way.
func (e *env) pad(ch string, n uint64) {
	for e.nextSeqSend(ch) < n {
		e.sendTransfer(ch, e.lp, e.far.String(), sdk.NewCoin(quote, sdkmath.NewInt(1)), "", 24*time.Hour)
	}
}

// modRest = what the swap module account holds in denoms other than denomIn, uusdc and uosmo (summed)
func (e *env) modRest() sdkmath.Int {
	t := sdkmath.ZeroInt()
	for _, c := range e.h.App.BankKeeper.GetAllBalances(e.h.CtxAt(e.now), e.mod) {
		if c.Denom != e.denomIn && c.Denom != quote && c.Denom != mid {
			t = t.Add(c.Amount)
		}
	}
	return t
}

// escrowed = balance of d over the escrow accounts of all six channel ends
func (e *env) escrowed(d string) sdkmath.Int {
	ctx := e.h.CtxAt(e.now)
	s := sdkmath.ZeroInt()
	for _, ch := range []string{chanA, chanB, chanC, chanD, chanE, chanF} {
		s = s.Add(e.h.Bal(ctx, transfertypes.GetEscrowAddress(port, ch), d))
	}
	return s
}

// bankTotals = [supply in; supply out; escrowed in; escrowed out]
func (e *env) bankTotals() []string {
	ctx := e.h.CtxAt(e.now)
	z := func(x sdkmath.Int) string { return x.BigInt().String() }
	return []string{z(e.h.Supply(ctx, e.denomIn)), z(e.h.Supply(ctx, quote)), z(e.escrowed(e.denomIn)), z(e.escrowed(quote))}
}
