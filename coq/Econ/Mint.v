(* app/mint/mint.go + app/mint/inflation.go, bit-exact.
   Times are Unix seconds (sec) for the minter and nanoseconds for years-since-genesis. *)
From Coq Require Import ZArith Bool.
From Sunrise Require Import Base.Outcome Base.Dec.
Local Open Scope Z_scope.
Local Open Scope res_scope.

Definition RATE_INITIAL : Z := 100000000000000000.    (* 0.1  *)
Definition RATE_MINIMUM : Z := 20000000000000000.     (* 0.02 *)
Definition DISINFLATION : Z := 80000000000000000.     (* 0.08 *)
Definition SUPPLY_CAP : Z := 1000000000000000.        (* 1e9 * 1e6 *)
Definition GENESIS_NS : Z := 1735689600 * 1000000000. (* 2025-01-01T00:00:00Z *)
Definition SECONDS_PER_YEAR : Z := 31536000.
Definition MS_PER_YEAR : Z := 31536000000.
Definition MAX_DURATION : Z := 2 ^ 63 - 1.

(* time.Time.Sub saturates at +-2^63 ns; Milliseconds() truncates *)
Definition years_since_genesis (genesis_ns now_ns : Z) : Z :=
  if now_ns <? genesis_ns then 0
  else let d := Z.min (now_ns - genesis_ns) MAX_DURATION in
       (d / 1000000) / MS_PER_YEAR.

Definition inflation_rate_cap (years : Z) : option Z :=
  let? one_minus := dsub P DISINFLATION in
  let? pw := dpower one_minus years in
  let? c := dmul RATE_INITIAL pw in
  Some (if c <? RATE_MINIMUM then RATE_MINIMUM else c).

(* CalculateAnnualProvision; None = panic *)
Definition annual_provision (cap genesis_ns now_ns total : Z) : option Z :=
  let years := years_since_genesis genesis_ns now_ns in
  let? rate := inflation_rate_cap years in
  let? onep := dadd P rate in
  let? m := dmul_int onep total in
  let next0 := dtrunc_int m in
  let next1 := if cap <? next0 then cap else next0 in
  let next2 := if next1 <? total then total else next1 in
  chk_int (next2 - total).

(* pro-rated provision, as first computed *)
Definition block_provision_raw (annual secs : Z) : option Z :=
  let? m := chk_int (annual * secs) in
  Some (Z.quot m SECONDS_PER_YEAR).
(* ... then clamped to the annual provision (fix: commit "never mint more than the annual
   provision in one mint"); [block_provision_raw] alone is the pre-fix behaviour *)
Definition block_provision (annual secs : Z) : option Z :=
  let? b := block_provision_raw annual secs in
  Some (if annual <? b then annual else b).

(* fee part = TruncateInt(ratio.MulInt(block)), bond part = block - fee *)
Definition split (ratio block : Z) : option (Z * Z) :=
  let? m := dmul_int ratio block in
  let fee := dtrunc_int m in
  let? bond := chk_int (block - fee) in
  Some (fee, bond).

Record mint_in := {
  mi_fee_supply : Z; mi_bond_supply : Z;
  mi_last : option Z;        (* minter.Data as seconds; None = first call *)
  mi_now_ns : Z;             (* block time, ns *)
  mi_ratio : Z               (* staking reward ratio, raw dec *)
}.
Record mint_out := { mo_fee_minted : Z; mo_bond_minted : Z; mo_last : Z }.

Definition unix (ns : Z) : Z := ns / 1000000000.   (* floor: Go's Unix() *)

(* the MintFn body for epochID = "minute"; None = panic *)
Definition mint_fn (i : mint_in) : option mint_out :=
  let? total := chk_int (mi_bond_supply i + mi_fee_supply i) in
  let? annual := annual_provision SUPPLY_CAP GENESIS_NS (mi_now_ns i) total in
  let now := unix (mi_now_ns i) in
  let last := match mi_last i with Some l => l | None => now - 60 end in
  let secs := now - last in
  let? block := block_provision annual secs in
  if 0 <? block then
    let? (fee, bond) := split (mi_ratio i) block in
    Some {| mo_fee_minted := (if 0 <? fee then fee else 0);
            mo_bond_minted := (if 0 <? bond then bond else 0);
            mo_last := now |}
  else Some {| mo_fee_minted := 0; mo_bond_minted := 0; mo_last := now |}.

(* The provision a mint invocation is due (the specification of "nothing lost"): the annual
   provision for the combined supply, pro-rated to the seconds since the previous invocation
   (60 on the first one) and clamped to the annual provision. *)
Definition provision_of (i : mint_in) : option Z :=
  let? annual := annual_provision SUPPLY_CAP GENESIS_NS (mi_now_ns i) (mi_fee_supply i + mi_bond_supply i) in
  block_provision annual (match mi_last i with Some l => unix (mi_now_ns i) - l | None => 60 end).
