// prefixes: static enumeration of every KV-store prefix of the custom sunrise modules
// (property C19).  Source: x/<module>/types/*.go and x/<module>/keeper/*.go (non-test files).
//
// Output: coq/Gen/Prefixes_gen.v defining
//   gen_prefixes : list gen_prefix   every `collections.NewPrefix(...)` call and every string
//                                    constant of types/keys.go that is not a module/store name,
//                                    with module, Go name, the prefix bytes, whether a collections
//                                    constructor of the module consumes it, and its syntactic kind
//   gen_raw_store_modules            modules that open the raw KV store (OpenKVStore) themselves
//   gen_unknown                      constructs the translator did not understand
//
// Fail closed: a NewPrefix call with a non-literal argument, a NewPrefix outside a top-level
// `var X = collections.NewPrefix(...)`, a collections constructor whose prefix argument is not a
// reference to such a variable, a keys.go constant with a non-literal value — each becomes an
// entry of gen_unknown, which the coverage theorem `prefixes_modelled` requires to be empty.
package main

import (
	"flag"
	"fmt"
	"go/ast"
	"go/parser"
	"go/token"
	"os"
	"path/filepath"
	"sort"
	"strconv"
	"strings"
)

var modules = []string{"da", "fee", "liquidityincentive", "liquiditypool", "selfdelegation", "shareclass", "swap", "tokenconverter"}

// constants of keys.go that name the module / its store, not a key prefix
var notPrefixes = map[string]bool{"ModuleName": true, "StoreKey": true, "GovModuleName": true, "RouterKey": true, "MemStoreKey": true, "QuerierRoute": true}

// collections constructors: index of the prefix argument
var constructors = map[string]int{
	"NewItem": 1, "NewMap": 1, "NewIndexedMap": 1, "NewSequence": 1, "NewKeySet": 1, "NewVec": 1,
	"NewMulti": 1, "NewUnique": 1, "NewReversePair": 1, "NewTriple": 1,
}

type entry struct {
	Module, Name, Kind string // Kind: "NewPrefix" | "Const"
	Bytes              []byte
	Used               bool
	Pos                string
}

var (
	entries []entry
	unknown []string
	rawMods = map[string]bool{}
	sites   []site
)

// site: a construct inside the call graph of ExportGenesis / InitGenesis that can make the
// exported or imported set depend on its size (paging, limits, slicing, bounded iteration).
// No line numbers: a site is identified by module, function, kind and detail.
type site struct{ Module, Func, Kind, Detail string }

const queryPkg = "github.com/cosmos/cosmos-sdk/types/query"

// keeperFuncs: every function/method declared in x/<m>/keeper (non-test), by name, with the
// name under which its file imports the sdk query package ("" when it does not).
type kfunc struct {
	decl       *ast.FuncDecl
	queryAlias string
}

func unk(fset *token.FileSet, n ast.Node, what string) {
	unknown = append(unknown, fmt.Sprintf("%s: %s", fset.Position(n.Pos()), what))
}

func isSel(e ast.Expr, pkg, name string) bool {
	s, ok := e.(*ast.SelectorExpr)
	if !ok {
		return false
	}
	id, ok := s.X.(*ast.Ident)
	return ok && id.Name == pkg && s.Sel.Name == name
}

// literalPrefix evaluates the argument of collections.NewPrefix: a string literal or an
// integer literal in [0,255] (the generic constraint of NewPrefix).
func literalPrefix(e ast.Expr) ([]byte, bool) {
	lit, ok := e.(*ast.BasicLit)
	if !ok {
		return nil, false
	}
	switch lit.Kind {
	case token.STRING:
		s, err := strconv.Unquote(lit.Value)
		if err != nil {
			return nil, false
		}
		return []byte(s), true
	case token.INT:
		v, err := strconv.ParseUint(lit.Value, 0, 8)
		if err != nil {
			return nil, false
		}
		return []byte{byte(v)}, true
	}
	return nil, false
}

func main() {
	repo := flag.String("repo", "/repo", "sunrise source tree")
	out := flag.String("out", "", "output .v file")
	flag.Parse()
	fset := token.NewFileSet()
	files := 0
	for _, m := range modules {
		used := map[string]bool{}
		first := len(entries)
		kfuncs := map[string][]kfunc{}
		for _, sub := range []string{"types", "keeper"} {
			dir := filepath.Join(*repo, "x", m, sub)
			names, err := filepath.Glob(filepath.Join(dir, "*.go"))
			if err != nil || len(names) == 0 {
				unknown = append(unknown, "no Go files in "+dir)
				continue
			}
			sort.Strings(names)
			for _, fn := range names {
				base := filepath.Base(fn)
				if strings.HasSuffix(base, "_test.go") || strings.HasSuffix(base, ".pb.go") || strings.HasSuffix(base, ".pb.gw.go") || strings.HasSuffix(base, ".pulsar.go") {
					continue
				}
				f, err := parser.ParseFile(fset, fn, nil, 0)
				if err != nil {
					unknown = append(unknown, "parse error: "+err.Error())
					continue
				}
				files++
				scanFile(fset, f, m, sub, base, used)
				if sub == "keeper" {
					alias := ""
					for _, im := range f.Imports {
						if p, _ := strconv.Unquote(im.Path.Value); p == queryPkg {
							alias = "query"
							if im.Name != nil {
								alias = im.Name.Name
							}
						}
					}
					if alias == "." || alias == "_" {
						unknown = append(unknown, fmt.Sprintf("x/%s/keeper/%s: dot/blank import of the query package", m, base))
					}
					for _, d := range f.Decls {
						if fd, ok := d.(*ast.FuncDecl); ok && fd.Body != nil {
							kfuncs[fd.Name.Name] = append(kfuncs[fd.Name.Name], kfunc{fd, alias})
						}
					}
				}
			}
		}
		genesisSites(fset, m, kfuncs)
		for i := first; i < len(entries); i++ {
			if used[entries[i].Name] {
				entries[i].Used = true
			}
		}
		for name := range used {
			found := false
			for i := first; i < len(entries); i++ {
				found = found || entries[i].Name == name
			}
			if !found {
				unknown = append(unknown, fmt.Sprintf("module %s: constructor uses prefix %s which is not a NewPrefix variable of the module", m, name))
			}
		}
	}
	sort.SliceStable(entries, func(i, j int) bool {
		if entries[i].Module != entries[j].Module {
			return entries[i].Module < entries[j].Module
		}
		return entries[i].Name < entries[j].Name
	})
	sort.Strings(unknown)
	var sb strings.Builder
	sb.WriteString("(* GENERATED by harness/trans/prefixes from the Go sources of sunrise — do not edit.\n")
	sb.WriteString("   Regenerate: harness/trans/prefixes/run.sh   (VERIF_REPO selects the tree, default /repo) *)\n")
	sb.WriteString("From Coq Require Import ZArith String List.\nImport ListNotations.\nFrom Sunrise Require Import Sys.Genesis.\n")
	sb.WriteString("Local Open Scope Z_scope.\nLocal Open Scope string_scope.\n\n")
	sb.WriteString(fmt.Sprintf("Definition gen_files_scanned : Z := %d.\n\n", files))
	sb.WriteString("Definition gen_prefixes : list gen_prefix := [\n")
	for i, e := range entries {
		bs := make([]string, len(e.Bytes))
		for j, b := range e.Bytes {
			bs[j] = strconv.Itoa(int(b))
		}
		kind := "GNewPrefix"
		if e.Kind == "Const" {
			kind = "GConst"
		}
		sep := ";"
		if i == len(entries)-1 {
			sep = ""
		}
		sb.WriteString(fmt.Sprintf("  {| gp_module := %q; gp_name := %q; gp_kind := %s; gp_used := %v; gp_bytes := [%s] |}%s (* %q %s *)\n",
			e.Module, e.Name, kind, e.Used, strings.Join(bs, "; "), sep, string(e.Bytes), e.Pos))
	}
	sb.WriteString("].\n\n")
	var rm []string
	for m := range rawMods {
		rm = append(rm, strconv.Quote(m))
	}
	sort.Strings(rm)
	sb.WriteString("Definition gen_raw_store_modules : list string := [" + strings.Join(rm, "; ") + "].\n\n")
	sort.Slice(sites, func(i, j int) bool {
		a, b := sites[i], sites[j]
		return a.Module+"|"+a.Func+"|"+a.Kind+"|"+a.Detail < b.Module+"|"+b.Func+"|"+b.Kind+"|"+b.Detail
	})
	sb.WriteString("(* size-sensitive constructs in the call graphs of ExportGenesis / InitGenesis *)\n")
	sb.WriteString("Definition gen_genesis_sites : list gen_site := [\n")
	for i, st := range sites {
		sep := ";"
		if i == len(sites)-1 {
			sep = ""
		}
		sb.WriteString(fmt.Sprintf("  {| gs_module := %q; gs_func := %q; gs_kind := %q; gs_detail := %q |}%s\n", st.Module, st.Func, st.Kind, st.Detail, sep))
	}
	sb.WriteString("].\n\n")
	sb.WriteString("Definition gen_unknown : list string := [\n")
	for i, u := range unknown {
		sep := ";"
		if i == len(unknown)-1 {
			sep = ""
		}
		sb.WriteString("  " + strconv.Quote(strings.ReplaceAll(u, *repo+"/", "")) + sep + "\n")
	}
	sb.WriteString("].\n")
	if *out == "" {
		fmt.Print(sb.String())
		return
	}
	old, _ := os.ReadFile(*out)
	if string(old) != sb.String() {
		if err := os.WriteFile(*out, []byte(sb.String()), 0o644); err != nil {
			fmt.Fprintln(os.Stderr, err)
			os.Exit(1)
		}
	}
	fmt.Printf("prefixes: %d entries, %d genesis sites, %d unknown, %d files\n", len(entries), len(sites), len(unknown), files)
}

func scanFile(fset *token.FileSet, f *ast.File, m, sub, base string, used map[string]bool) {
	handled := map[ast.Node]bool{} // NewPrefix calls that are the value of a top-level var
	rel := fmt.Sprintf("x/%s/%s/%s", m, sub, base)
	for _, d := range f.Decls {
		gd, ok := d.(*ast.GenDecl)
		if !ok {
			continue
		}
		for _, sp := range gd.Specs {
			vs, ok := sp.(*ast.ValueSpec)
			if !ok {
				continue
			}
			for i, name := range vs.Names {
				if i >= len(vs.Values) {
					// `const ( A = iota; B )` style or typed declarations without a value
					if gd.Tok == token.CONST && sub == "types" && base == "keys.go" {
						unk(fset, name, "constant "+name.Name+" without an explicit value")
					}
					continue
				}
				v := vs.Values[i]
				if call, ok := v.(*ast.CallExpr); ok && isSel(call.Fun, "collections", "NewPrefix") {
					handled[call] = true
					if gd.Tok != token.VAR || len(call.Args) != 1 {
						unk(fset, call, "NewPrefix in an unexpected declaration")
						continue
					}
					bs, ok := literalPrefix(call.Args[0])
					if !ok {
						unk(fset, call, "NewPrefix with a non-literal argument ("+name.Name+")")
						continue
					}
					entries = append(entries, entry{Module: m, Name: name.Name, Kind: "NewPrefix", Bytes: bs, Pos: fmt.Sprintf("%s:%d", rel, fset.Position(call.Pos()).Line)})
					continue
				}
				if gd.Tok == token.CONST && sub == "types" && base == "keys.go" && !notPrefixes[name.Name] {
					lit, ok := v.(*ast.BasicLit)
					if !ok || lit.Kind != token.STRING {
						unk(fset, v, "keys.go constant "+name.Name+" is not a string literal")
						continue
					}
					s, err := strconv.Unquote(lit.Value)
					if err != nil {
						unk(fset, v, "keys.go constant "+name.Name+" does not unquote")
						continue
					}
					entries = append(entries, entry{Module: m, Name: name.Name, Kind: "Const", Bytes: []byte(s), Pos: fmt.Sprintf("%s:%d", rel, fset.Position(v.Pos()).Line)})
				}
			}
		}
	}
	ast.Inspect(f, func(n ast.Node) bool {
		call, ok := n.(*ast.CallExpr)
		if !ok {
			return true
		}
		if isSel(call.Fun, "collections", "NewPrefix") && !handled[call] {
			unk(fset, call, "NewPrefix outside a top-level variable declaration")
		}
		if s, ok := call.Fun.(*ast.SelectorExpr); ok {
			if s.Sel.Name == "OpenKVStore" {
				rawMods[m] = true
			}
			if id, ok := s.X.(*ast.Ident); ok && (id.Name == "collections" || id.Name == "indexes") {
				if idx, ok := constructors[s.Sel.Name]; ok {
					if len(call.Args) <= idx {
						unk(fset, call, "collections constructor "+s.Sel.Name+" with too few arguments")
						return true
					}
					switch a := call.Args[idx].(type) {
					case *ast.SelectorExpr: // types.XPrefix
						if x, ok := a.X.(*ast.Ident); ok && x.Name == "types" {
							used[a.Sel.Name] = true
						} else {
							unk(fset, call, "collections constructor with a prefix from another package")
						}
					case *ast.Ident: // XPrefix inside package types
						used[a.Name] = true
					default:
						unk(fset, call, "collections constructor "+s.Sel.Name+" whose prefix argument is not a named prefix")
					}
				} else if strings.HasPrefix(s.Sel.Name, "New") && id.Name == "collections" {
					switch s.Sel.Name {
					case "NewPrefix", "NewSchemaBuilder", "NewSchemaBuilderFromAccessor":
					default:
						unk(fset, call, "unrecognised collections constructor "+s.Sel.Name)
					}
				} else if strings.HasPrefix(s.Sel.Name, "New") && id.Name == "indexes" {
					unk(fset, call, "unrecognised index constructor "+s.Sel.Name)
				}
			}
		}
		return true
	})
}

var pagingNames = map[string]bool{"Limit": true, "Take": true, "Offset": true, "PageRequest": true, "PageResponse": true,
	"MaxLimit": true, "DefaultLimit": true, "CountTotal": true, "NextKey": true}

// genesisSites walks the call graph of ExportGenesis and InitGenesis inside x/<m>/keeper (calls
// are resolved by name: any function or method of the package with that name) and records every
// construct that could make the result depend on the number of entries.
func genesisSites(fset *token.FileSet, m string, kfuncs map[string][]kfunc) {
	seen := map[string]bool{}
	var work []string
	for _, root := range []string{"ExportGenesis", "InitGenesis"} {
		if len(kfuncs[root]) == 0 {
			unknown = append(unknown, fmt.Sprintf("module %s: no %s in x/%s/keeper", m, root, m))
			continue
		}
		work = append(work, root)
		seen[root] = true
	}
	add := func(fn, kind, detail string) {
		for _, s := range sites {
			if s.Module == m && s.Func == fn && s.Kind == kind && s.Detail == detail {
				return
			}
		}
		sites = append(sites, site{m, fn, kind, detail})
	}
	for len(work) > 0 {
		name := work[0]
		work = work[1:]
		for _, kf := range kfuncs[name] {
			loopFilters(kf.decl.Body, func(kind, detail string) { add(name, kind, detail) })
			if name == "ExportGenesis" || name == "InitGenesis" {
				valueRewrites(kf.decl, func(kind, detail string) { add(name, kind, detail) })
			}
			ast.Inspect(kf.decl.Body, func(n ast.Node) bool {
				switch x := n.(type) {
				case *ast.SliceExpr:
					add(name, "slice", "slice expression")
				case *ast.SelectorExpr:
					if id, ok := x.X.(*ast.Ident); ok && kf.queryAlias != "" && id.Name == kf.queryAlias {
						add(name, "query-package", x.Sel.Name)
					}
					if pagingNames[x.Sel.Name] || strings.Contains(x.Sel.Name, "Paginat") {
						add(name, "paging-name", x.Sel.Name)
					}
				case *ast.Ident:
					if pagingNames[x.Name] || strings.Contains(x.Name, "Paginat") {
						add(name, "paging-name", x.Name)
					}
				case *ast.CallExpr:
					callee := ""
					switch f := x.Fun.(type) {
					case *ast.SelectorExpr:
						callee = f.Sel.Name
						if (callee == "Walk" || callee == "Iterate" || callee == "IterateRaw") && len(x.Args) >= 2 {
							if id, ok := x.Args[1].(*ast.Ident); !ok || id.Name != "nil" {
								add(name, "bounded-range", callee+" with a ranger")
							}
						}
					case *ast.Ident:
						callee = f.Name
					}
					if callee != "" && len(kfuncs[callee]) > 0 && !seen[callee] {
						seen[callee] = true
						work = append(work, callee)
					}
				}
				return true
			})
		}
	}
}

// isErrCheck: `if err != nil` (any identifier whose name starts with "err"/ends with "Err").
func isErrCheck(e ast.Expr) bool {
	b, ok := e.(*ast.BinaryExpr)
	if !ok || b.Op != token.NEQ {
		return false
	}
	x, ok1 := b.X.(*ast.Ident)
	y, ok2 := b.Y.(*ast.Ident)
	if !ok1 || !ok2 || y.Name != "nil" {
		return false
	}
	n := strings.ToLower(x.Name)
	return strings.HasPrefix(n, "err") || strings.HasSuffix(n, "err")
}

// loopFilters reports, for every loop (for / range) and every collection-walk callback (a
// function literal passed to Walk / Iterate / a *Walk* helper) in body, the statements that
// can skip or cut short the processing of entries: `continue`, a `break` that leaves the loop,
// a `return` that is not inside an `if err != nil` block, and a callback returning stop=true.
func loopFilters(body *ast.BlockStmt, report func(kind, detail string)) {
	var walk func(n ast.Node, inLoop bool, breakable bool, inErr bool, inCallback bool)
	walk = func(n ast.Node, inLoop, breakLeavesLoop, inErr, inCallback bool) {
		if n == nil {
			return
		}
		switch x := n.(type) {
		case *ast.ForStmt:
			walk(x.Body, true, true, false, false)
			return
		case *ast.RangeStmt:
			walk(x.Body, true, true, false, false)
			return
		case *ast.SwitchStmt, *ast.TypeSwitchStmt, *ast.SelectStmt:
			ast.Inspect(x, func(c ast.Node) bool {
				if c == n {
					return true
				}
				if cc, ok := c.(*ast.CaseClause); ok {
					for _, st := range cc.Body {
						walk(st, inLoop, false, inErr, inCallback)
					}
					return false
				}
				if cc, ok := c.(*ast.CommClause); ok {
					for _, st := range cc.Body {
						walk(st, inLoop, false, inErr, inCallback)
					}
					return false
				}
				return true
			})
			return
		case *ast.IfStmt:
			walk(x.Init, inLoop, breakLeavesLoop, inErr, inCallback)
			walk(x.Body, inLoop, breakLeavesLoop, inErr || isErrCheck(x.Cond), inCallback)
			walk(x.Else, inLoop, breakLeavesLoop, inErr, inCallback)
			return
		case *ast.BlockStmt:
			for _, st := range x.List {
				walk(st, inLoop, breakLeavesLoop, inErr, inCallback)
			}
			return
		case *ast.LabeledStmt:
			walk(x.Stmt, inLoop, breakLeavesLoop, inErr, inCallback)
			return
		case *ast.BranchStmt:
			if inLoop || inCallback {
				switch x.Tok {
				case token.CONTINUE:
					report("loop-filter", "continue in a loop")
				case token.BREAK:
					if breakLeavesLoop || x.Label != nil {
						report("loop-filter", "break out of a loop")
					}
				case token.GOTO:
					report("loop-filter", "goto in a loop")
				}
			}
			return
		case *ast.ReturnStmt:
			if inLoop && !inErr {
				report("loop-filter", "return inside a loop outside an error check")
			}
			if inCallback && !inErr && len(x.Results) >= 1 {
				if id, ok := x.Results[0].(*ast.Ident); !ok || id.Name != "false" {
					report("loop-filter", "walk callback may stop the iteration")
				}
			}
			// function literals inside the returned expressions
		}
		// generic descent: find nested function literals (walk callbacks) and statements
		ast.Inspect(n, func(c ast.Node) bool {
			if c == n {
				return true
			}
			switch y := c.(type) {
			case *ast.CallExpr:
				isWalk := false
				if sel, ok := y.Fun.(*ast.SelectorExpr); ok {
					isWalk = strings.Contains(sel.Sel.Name, "Walk") || strings.HasPrefix(sel.Sel.Name, "Iterate")
				}
				for _, a := range y.Args {
					if fl, ok := a.(*ast.FuncLit); ok {
						walk(fl.Body, false, false, false, isWalk)
					} else {
						walk(a, inLoop, breakLeavesLoop, inErr, inCallback)
					}
				}
				walk(y.Fun, inLoop, breakLeavesLoop, inErr, inCallback)
				return false
			case *ast.FuncLit:
				walk(y.Body, false, false, false, false)
				return false
			case ast.Stmt:
				walk(y, inLoop, breakLeavesLoop, inErr, inCallback)
				return false
			}
			return true
		})
	}
	walk(body, false, false, false, false)
}

func exprText(e ast.Expr) string {
	switch x := e.(type) {
	case *ast.Ident:
		return x.Name
	case *ast.SelectorExpr:
		return exprText(x.X) + "." + x.Sel.Name
	case *ast.IndexExpr:
		return exprText(x.X) + "[..]"
	case *ast.IndexListExpr:
		return exprText(x.X) + "[..]"
	case *ast.CallExpr:
		return exprText(x.Fun) + "(..)"
	case *ast.ParenExpr:
		return "(" + exprText(x.X) + ")"
	case *ast.StarExpr:
		return "*" + exprText(x.X)
	case *ast.FuncLit:
		return "func literal"
	case *ast.ArrayType:
		return "[]" + exprText(x.Elt)
	}
	return fmt.Sprintf("%T", e)
}

func rootIdent(e ast.Expr) string {
	for {
		switch x := e.(type) {
		case *ast.Ident:
			return x.Name
		case *ast.SelectorExpr:
			e = x.X
		case *ast.IndexExpr:
			e = x.X
		case *ast.ParenExpr:
			e = x.X
		case *ast.StarExpr:
			e = x.X
		case *ast.CallExpr:
			e = x.Fun
		default:
			return ""
		}
	}
}

var harmlessBuiltins = map[string]bool{"len": true, "cap": true, "append": true, "panic": true, "make": true, "new": true, "copy": true, "delete": true}

// valueRewrites: inside the body of ExportGenesis / InitGenesis itself a value should travel
// unchanged between the GenesisState and the keeper.  Reported for review:
//   * every call that is not a call on the keeper receiver (k.X(..), k.Coll.X(..)), not a builtin
//     and not the construction of the default genesis - i.e. any helper, conversion, parser,
//     sorter or sanitizer applied on the way (detail = the callee);
//   * every assignment to a field of the genesis-state parameter or of a loop variable
//     (the element is modified before it is stored).
func valueRewrites(fd *ast.FuncDecl, report func(kind, detail string)) {
	recv := ""
	if fd.Recv != nil && len(fd.Recv.List) == 1 && len(fd.Recv.List[0].Names) == 1 {
		recv = fd.Recv.List[0].Names[0].Name
	}
	params := map[string]bool{}
	for _, p := range fd.Type.Params.List {
		for _, n := range p.Names {
			params[n.Name] = true
		}
	}
	loopVars := map[string]bool{}
	ast.Inspect(fd.Body, func(n ast.Node) bool {
		if r, ok := n.(*ast.RangeStmt); ok {
			for _, e := range []ast.Expr{r.Key, r.Value} {
				if id, ok := e.(*ast.Ident); ok && id.Name != "_" {
					loopVars[id.Name] = true
				}
			}
		}
		return true
	})
	ast.Inspect(fd.Body, func(n ast.Node) bool {
		switch x := n.(type) {
		case *ast.CallExpr:
			root := rootIdent(x.Fun)
			text := exprText(x.Fun)
			switch {
			case recv != "" && root == recv:
			case harmlessBuiltins[text]:
			case strings.HasSuffix(text, ".DefaultGenesis") || strings.HasSuffix(text, ".NewGenesisState"):
			default:
				report("value-rewrite", "call of "+text)
			}
		case *ast.AssignStmt:
			for _, l := range x.Lhs {
				if _, isSel := l.(*ast.SelectorExpr); !isSel {
					if _, isIdx := l.(*ast.IndexExpr); !isIdx {
						continue
					}
				}
				root := rootIdent(l)
				if (params[root] && root != "ctx") || loopVars[root] {
					report("value-rewrite", "assignment to "+exprText(l))
				}
			}
		case *ast.IncDecStmt:
			root := rootIdent(x.X)
			if params[root] || loopVars[root] {
				report("value-rewrite", "assignment to "+exprText(x.X))
			}
		}
		return true
	})
}
