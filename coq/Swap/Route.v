(* x/swap: route trees, their validation, InspectRoute (exact-in walk and the reversed
   exact-out walk), the interface fee, Msg/SwapExactAmountIn|Out and Query/CalculationSwap*.

   Source: x/swap/types/route.go, x/swap/keeper/keeper_swap_exact_amount_{in,out}.go,
   msg_server_swap_exact_amount_{in,out}.go, query_calculations.go.

   The liquidity-pool keeper is an oracle: per pool state [PS] four functions give what
   CalculateResultExactAmountIn/Out return ([pq_in], [pq_out]) and what SwapExactAmountIn/Out
   compute and move ([px_in]: (consumed input, output), [px_out]: (input, produced output)).
   The bank part of a pool hop (sender -> pool custody, pool custody -> sender) is modelled here
   over Base/Bank.v; the pool account and the pool's fee account are one custody account
   [pacct pid] for the input side (the split between them is pool business, C02/C06).

   Two repaired defects are parameters of the walk ([fixes]): [fix_sum] = the parallel split
   accumulates the amounts already handed out (pre-fix: the last branch got the whole amount),
   [fix_order] = the exact-out walk stores series results in route order (pre-fix: in visiting
   order, i.e. last hop first, and they were executed in that order). [FIXED] is the code after
   notes/patches/C03-*.patch; [PREFIX] is kept for the regression lemmas.

   Not modelled (C15 territory, never produced by the C03 harness): weights that are not
   decimal strings, denoms that are not valid sdk denoms (sdk.NewCoin panics inside
   InspectRoute), nil Pool / nil Route pointers, malformed bech32 addresses. On a parallel node
   whose route and weight lists differ in length (rejected by Validate; reachable only through
   the queries, which do not validate) the Go code panics or returns a branch error depending
   on the branch; [inspect] returns Panic there and that domain is never compared. *)
From Coq Require Import ZArith List Bool.
Import ListNotations.
From Sunrise Require Import Base.Outcome Base.Dec Base.Bank.
Local Open Scope Z_scope.
Local Open Scope res_scope.

(* ---------- error classes (codespace swap: code; liquiditypool: 20000 + code; sdk: code) *)
Definition E_INVALID_ROUTE : Z := 1102.
Definition E_INVALID_AMOUNT : Z := 1103.
Definition E_LOWER_MIN : Z := 1104.
Definition E_HIGHER_MAX : Z := 1105.
Definition E_MISMATCH : Z := 1106.
Definition E_UNKNOWN_STRATEGY : Z := 1107.
Definition E_POOL_NOT_FOUND : Z := 21101.
Definition E_UNEXPECTED_CALC : Z := 21120.
Definition E_INSUFFICIENT_LIQ : Z := 21113.

(* ---------- routes and results *)
Inductive route :=
| RPool (din dout pid : Z)
| RSeries (din dout : Z) (rs : list route)
| RParallel (din dout : Z) (rs : list route) (ws : list Z)   (* weights: raw LegacyDec *)
| RNone (din dout : Z).                                       (* nil strategy *)

Definition r_in (r : route) : Z :=
  match r with RPool d _ _ | RSeries d _ _ | RParallel d _ _ _ | RNone d _ => d end.
Definition r_out (r : route) : Z :=
  match r with RPool _ d _ | RSeries _ d _ | RParallel _ d _ _ | RNone _ d => d end.

(* RouteResult: token in (denom, amount), token out (denom, amount), strategy *)
Inductive rres :=
| RRPool (din ain dout aout pid : Z)
| RRSeries (din ain dout aout : Z) (l : list rres)
| RRParallel (din ain dout aout : Z) (l : list rres).

Definition rr_din (t : rres) : Z :=
  match t with RRPool d _ _ _ _ | RRSeries d _ _ _ _ | RRParallel d _ _ _ _ => d end.
Definition rr_ain (t : rres) : Z :=
  match t with RRPool _ a _ _ _ | RRSeries _ a _ _ _ | RRParallel _ a _ _ _ => a end.
Definition rr_dout (t : rres) : Z :=
  match t with RRPool _ _ d _ _ | RRSeries _ _ d _ _ | RRParallel _ _ d _ _ => d end.
Definition rr_aout (t : rres) : Z :=
  match t with RRPool _ _ _ a _ | RRSeries _ _ _ a _ | RRParallel _ _ _ a _ => a end.

(* ---------- Validate *)
Section ValidateWalks.
  Variable vrec : route -> bool.
  (* series: every hop valid, denoms chained; returns the last denom *)
  Fixpoint vseries (l : list route) (cur : Z) : option Z :=
    match l with
    | [] => Some cur
    | r :: tl => if vrec r && (r_in r =? cur) then vseries tl (r_out r) else None
    end.
  Fixpoint vparallel (l : list route) (ws : list Z) (din dout : Z) : bool :=
    match l, ws with
    | [], [] => true
    | r :: tl, w :: wt =>
        vrec r && (r_in r =? din) && (r_out r =? dout) && (0 <? w) && vparallel tl wt din dout
    | _, _ => false
    end.
End ValidateWalks.

Definition is_nil {A} (l : list A) : bool := match l with [] => true | _ => false end.

(* validateRecursive = nil *)
Fixpoint validate_rec (r : route) : bool :=
  match r with
  | RPool _ _ _ => true
  | RSeries din dout rs =>
      negb (is_nil rs) &&
      match vseries validate_rec rs din with Some d => d =? dout | None => false end
  | RParallel din dout rs ws =>
      negb (is_nil rs) && (length rs =? length ws)%nat && vparallel validate_rec rs ws din dout
  | RNone _ _ => false
  end.

Fixpoint pools_of (r : route) : list Z :=
  match r with
  | RPool _ _ pid => [pid]
  | RSeries _ _ rs => flat_map pools_of rs
  | RParallel _ _ rs _ => flat_map pools_of rs
  | RNone _ _ => []
  end.

Fixpoint memz (x : Z) (l : list Z) : bool :=
  match l with [] => false | y :: tl => (x =? y) || memz x tl end.
Fixpoint nodupb (l : list Z) : bool :=
  match l with [] => true | x :: tl => negb (memz x tl) && nodupb tl end.

(* Code variants that repairs proposed for other properties switch on; the harness probes the
   running code once and passes what it found, the theorems hold for every variant.
   [v_reuse_err]: Route.Validate returns ErrInvalidRoute for a reused pool
   (notes/patches/C15-route-validate.patch) instead of panicking;
   [v_query_validates]: the two calculation queries reject amounts <= 0 and invalid routes
   before quoting (notes/patches/C15-swap-queries-validate.patch). *)
Record variant := { v_reuse_err : bool; v_query_validates : bool }.

(* Route.Validate: an invalid shape is an error; a reused pool makes mustNotReusePool panic
   with a string, and the deferred recover does r.(error) on it, which panics again. *)
Definition validate (v : variant) (r : route) : res unit :=
  if validate_rec r then
    (if nodupb (pools_of r) then Ok tt else if v_reuse_err v then Err E_INVALID_ROUTE else Panic)
  else Err E_INVALID_ROUTE.

Fixpoint sumz (l : list Z) : Z := match l with [] => 0 | x :: tl => x + sumz tl end.

(* ---------- the parallel split *)
Record fixes := { fix_sum : bool; fix_order : bool }.
Definition FIXED : fixes := {| fix_sum := true; fix_order := true |}.
Definition PREFIX : fixes := {| fix_sum := false; fix_order := false |}.

(* weightSum: LegacyZeroDec().AddMut(w) for every weight *)
Fixpoint sum_weights (ws : list Z) (acc : Z) : option Z :=
  match ws with [] => Some acc | w :: tl => let? acc' := dadd acc w in sum_weights tl acc' end.

(* weight.MulInt(amountExact).Quo(weightSum).TruncateInt() *)
Definition share (w a wsum : Z) : option Z :=
  let? m := dmul_int w a in
  let? q := dquo m wsum in
  chk_int (dtrunc_int q).

(* the shares of all branches but the last *)
Fixpoint shares (ws : list Z) (a wsum : Z) : option (list Z) :=
  match ws with
  | [] => Some []
  | [_] => Some []
  | w :: tl => let? x := share w a wsum in let? r := shares tl a wsum in Some (x :: r)
  end.

Fixpoint sum_ints (l : list Z) (acc : Z) : option Z :=
  match l with [] => Some acc | x :: tl => let? acc' := chk_int (acc + x) in sum_ints tl acc' end.

(* amountsExact; None = panic (empty weight list: slice bounds; overflow; zero weight sum) *)
Definition split (fx : fixes) (ws : list Z) (a : Z) : option (list Z) :=
  match ws with
  | [] => None
  | _ =>
    let? wsum := sum_weights ws 0 in
    let? sh := shares ws a wsum in
    let? handed := (if fix_sum fx then sum_ints sh 0 else Some 0) in
    let? last := chk_int (a - handed) in
    Some (sh ++ [last])
  end.

(* ---------- InspectRoute *)
Section Inspect.
  Variable S : Type.
  (* inspectRoutePool: pool id, denom in, denom out, exact amount, state *)
  Variable hop : Z -> Z -> Z -> Z -> S -> res (Z * S).
  Variable fx : fixes.
  Variable reverse : bool.

  (* generateResult: amounts of (token in, token out); sdk.NewCoin panics on a negative amount *)
  Definition gen (exact result : Z) : res (Z * Z) :=
    if (exact <? 0) || (result <? 0) then Panic
    else Ok (if reverse then (result, exact) else (exact, result)).

  Section Walks.
    Variable f : route -> Z -> S -> res (Z * rres * S).
    Fixpoint ser_fwd (l : list route) (a : Z) (s : S) : res (Z * list rres * S) :=
      match l with
      | [] => Ok (a, [], s)
      | r :: tl =>
          let! (x, rr, s1) := f r a s in
          let! (y, rrs, s2) := ser_fwd tl x s1 in
          Ok (y, rr :: rrs, s2)
      end.
    (* the last route is visited first; results are stored in visiting order before the
       repair ([rrs ++ [rr]]) and in route order after it *)
    Fixpoint ser_rev (l : list route) (a : Z) (s : S) : res (Z * list rres * S) :=
      match l with
      | [] => Ok (a, [], s)
      | r :: tl =>
          let! (x, rrs, s1) := ser_rev tl a s in
          let! (y, rr, s2) := f r x s1 in
          Ok (y, (if fix_order fx then rr :: rrs else rrs ++ [rr]), s2)
      end.
    Fixpoint par_walk (l : list route) (amts : list Z) (acc : Z) (s : S) : res (Z * list rres * S) :=
      match l with
      | [] => Ok (acc, [], s)
      | r :: tl =>
          match amts with
          | [] => Panic
          | a :: at' =>
              let! (x, rr, s1) := f r a s in
              let! acc' := of_opt (chk_int (acc + x)) in
              let! (tot, rrs, s2) := par_walk tl at' acc' s1 in
              Ok (tot, rr :: rrs, s2)
          end
      end.
  End Walks.

  Fixpoint inspect (r : route) (a : Z) (s : S) {struct r} : res (Z * rres * S) :=
    match r with
    | RPool din dout pid =>
        let! (x, s1) := hop pid din dout a s in
        let! (ti, to) := gen a x in
        Ok (x, RRPool din ti dout to pid, s1)
    | RSeries din dout rs =>
        let! (x, rrs, s1) := (if reverse then ser_rev inspect rs a s else ser_fwd inspect rs a s) in
        let! (ti, to) := gen a x in
        Ok (x, RRSeries din ti dout to rrs, s1)
    | RParallel din dout rs ws =>
        if negb (length rs =? length ws)%nat then Panic else
        let! amts := of_opt (split fx ws a) in
        let! (x, rrs, s1) := par_walk inspect rs amts 0 s in
        let! (ti, to) := gen a x in
        Ok (x, RRParallel din ti dout to rrs, s1)
    | RNone _ _ => Err E_UNKNOWN_STRATEGY
    end.
End Inspect.

(* every parallel node has fewer than 2*10^18 branches (any real message: a transaction is
   bounded in size); used by the statement that branch amounts are never negative *)
Fixpoint width_ok (r : route) : bool :=
  match r with
  | RPool _ _ _ => true
  | RSeries _ _ rs => forallb width_ok rs
  | RParallel _ _ rs ws => (Z.of_nat (length ws) <? 2 * P) && forallb width_ok rs
  | RNone _ _ => true
  end.

(* ---------- interface fee *)
(* calculateInterfaceFeeExactAmountIn: (net, fee) *)
Definition fee_in (has : bool) (rate gross : Z) : option (Z * Z) :=
  if has then
    let? om := dsub P rate in
    let? m := dmul (dec_of_int gross) om in
    let? net := chk_int (dtrunc_int m) in
    let? fee := chk_int (gross - net) in
    Some (net, fee)
  else Some (gross, 0).
(* calculateInterfaceFeeExactAmountOut: (gross, fee) *)
Definition fee_out (has : bool) (rate net : Z) : option (Z * Z) :=
  if has then
    let? om := dsub P rate in
    let? q := dquo (dec_of_int net) om in
    let? gross := chk_int (dtrunc_int q) in
    let? fee := chk_int (gross - net) in
    Some (gross, fee)
  else Some (net, 0).

(* ---------- pool hops over the bank *)
Section Pools.
  Variable PS : Type.
  Variable pq_in  : PS -> Z -> Z -> Z -> res Z.          (* din dout amount_in  -> amount_out *)
  Variable pq_out : PS -> Z -> Z -> Z -> res Z.          (* din dout amount_out -> amount_in  *)
  Variable px_in  : PS -> Z -> Z -> Z -> res (Z * Z).    (* -> (input consumed, output) *)
  Variable px_out : PS -> Z -> Z -> Z -> res (Z * Z).    (* -> (input, output produced) *)
  Variable pn_in  : PS -> Z -> Z -> Z -> PS.             (* pool state after the exact-in swap *)
  Variable pn_out : PS -> Z -> Z -> Z -> PS.
  Variable pacct : Z -> Z.                               (* custody account of a pool *)

  Record st := { bk : bank; pools : Z -> option PS }.

  Definition updp (f : Z -> option PS) (pid : Z) (v : PS) : Z -> option PS :=
    fun p => if p =? pid then Some v else f p.

  (* calculateResultRoutePoolExactAmountIn / Out *)
  Definition q_in (pid din dout a : Z) (s : st) : res (Z * st) :=
    match pools s pid with
    | None => Err E_POOL_NOT_FOUND
    | Some ps => if a <? 0 then Panic else let! o := pq_in ps din dout a in Ok (o, s)
    end.
  Definition q_out (pid din dout a : Z) (s : st) : res (Z * st) :=
    match pools s pid with
    | None => Err E_POOL_NOT_FOUND
    | Some ps => if a <? 0 then Panic else let! i := pq_out ps din dout a in Ok (i, s)
    end.

  (* swapRoutePoolExactAmountIn -> liquiditypool SwapExactAmountIn -> updatePoolForSwap *)
  Definition x_in (sender : Z) (pid din dout a : Z) (s : st) : res (Z * st) :=
    match pools s pid with
    | None => Err E_POOL_NOT_FOUND
    | Some ps =>
      if a <? 0 then Panic else
      let! (c, o) := px_in ps din dout a in
      if o <=? 0 then Err E_UNEXPECTED_CALC else
      let! b1 := bank_send (bk s) sender (pacct pid) din c in
      let! b2 := bank_send b1 (pacct pid) sender dout o in
      Ok (o, {| bk := b2; pools := updp (pools s) pid (pn_in ps din dout a) |})
    end.
  Definition x_out (sender : Z) (pid din dout a : Z) (s : st) : res (Z * st) :=
    match pools s pid with
    | None => Err E_POOL_NOT_FOUND
    | Some ps =>
      if a <? 0 then Panic else
      let! (i, g) := px_out ps din dout a in
      if i <=? 0 then Err E_UNEXPECTED_CALC else
      let! b1 := bank_send (bk s) sender (pacct pid) din i in
      let! b2 := bank_send b1 (pacct pid) sender dout g in
      Ok (i, {| bk := b2; pools := updp (pools s) pid (pn_out ps din dout a) |})
    end.

  (* swapRouteExactAmountOut: replay the quoted tree in stored order, cross-checking each hop *)
  Section ExecList.
    Variable f : rres -> st -> res st.
    Fixpoint exec_list (l : list rres) (s : st) : res st :=
      match l with [] => Ok s | t :: tl => let! s1 := f t s in exec_list tl s1 end.
  End ExecList.
  Fixpoint exec_tree (sender : Z) (t : rres) (s : st) {struct t} : res st :=
    match t with
    | RRPool din ain dout aout pid =>
        let! (i, s1) := x_out sender pid din dout aout s in
        if i =? ain then Ok s1 else Err E_MISMATCH
    | RRSeries _ _ _ _ l => exec_list (exec_tree sender) l s
    | RRParallel _ _ _ _ l => exec_list (exec_tree sender) l s
    end.

  Record swap_resp := { sr_tree : rres; sr_fee : Z; sr_amount : Z }.

  Definition is_some {A} (o : option A) : bool := match o with Some _ => true | None => false end.

  (* the fee transfer at the end of both keeper functions *)
  Definition pay_fee (sender : Z) (prov : option Z) (denom fee : Z) (b : bank) : res bank :=
    match prov with
    | None => Ok b
    | Some p => if fee <? 0 then Panic else if 0 <? fee then bank_send b sender p denom fee else Ok b
    end.

  Section Msgs.
    Variable fx : fixes.
    Variable rate : Z.            (* params.InterfaceFeeRate, raw dec *)
    Variable v : variant.

    (* the static checks the patched queries run first *)
    Definition query_guard (r : route) (a : Z) : res unit :=
      if v_query_validates v then (if a <=? 0 then Err E_INVALID_AMOUNT else validate v r) else Ok tt.

    (* Keeper.SwapExactAmountIn *)
    Definition keeper_swap_in (sender : Z) (prov : option Z) (r : route) (a minout : Z) (s : st)
      : res (st * swap_resp) :=
      let! (_, t, s1) := inspect st (x_in sender) fx false r a s in
      let gross := rr_aout t in
      let! (net, fee) := of_opt (fee_in (is_some prov) rate gross) in
      if net <? minout then Err E_LOWER_MIN else
      let! b := pay_fee sender prov (rr_dout t) fee (bk s1) in
      let! amt := of_opt (chk_int (gross - fee)) in
      Ok ({| bk := b; pools := pools s1 |}, {| sr_tree := t; sr_fee := fee; sr_amount := amt |}).

    (* Msg/SwapExactAmountIn handler body (addresses are valid by construction) *)
    Definition msg_swap_in (sender : Z) (prov : option Z) (r : route) (a minout : Z) (s : st)
      : res (st * swap_resp) :=
      let! _ := validate v r in
      if a <=? 0 then Err E_INVALID_AMOUNT else
      if minout <=? 0 then Err E_INVALID_AMOUNT else
      keeper_swap_in sender prov r a minout s.

    (* Keeper.CalculateResultExactAmountIn + Query/CalculationSwapExactAmountIn *)
    Definition query_in (has : bool) (r : route) (a : Z) (s : st) : res swap_resp :=
      let! _ := query_guard r a in
      let! (_, t, _) := inspect st q_in fx false r a s in
      let! (_, fee) := of_opt (fee_in has rate (rr_aout t)) in
      let! amt := of_opt (chk_int (rr_aout t - fee)) in
      Ok {| sr_tree := t; sr_fee := fee; sr_amount := amt |}.

    (* Keeper.CalculateResultExactAmountOut *)
    Definition calc_out (has : bool) (r : route) (aout : Z) (s : st) : res (rres * Z) :=
      let! (gross, fee) := of_opt (fee_out has rate aout) in
      let! (_, t, _) := inspect st q_out fx true r gross s in
      Ok (t, fee).

    (* Keeper.SwapExactAmountOut *)
    Definition keeper_swap_out (sender : Z) (prov : option Z) (r : route) (maxin aout : Z) (s : st)
      : res (st * swap_resp) :=
      let! (t, fee) := calc_out (is_some prov) r aout s in
      let! s1 := exec_tree sender t s in
      if maxin <? rr_ain t then Err E_HIGHER_MAX else
      let! b := pay_fee sender prov (rr_dout t) fee (bk s1) in
      let! amt := of_opt (chk_int (rr_aout t - fee)) in
      Ok ({| bk := b; pools := pools s1 |}, {| sr_tree := t; sr_fee := fee; sr_amount := amt |}).

    (* Keeper.SwapIncomingFund (x/swap/keeper/ibc.go), the settlement of a swap that arrives over
       IBC: the swap module account [swapper] holds the incoming amount [amt_in] of the route's
       input denom (nothing else is assumed of it), runs the keeper swap in its own name with
       max_amount_in = amount_in = [amt_in] and [x] = min_amount_out | amount_out, then hands
       the net output to [receiver]. The route was validated by the middleware. The response's
       third field is that net output. *)
    Definition swap_incoming_fund (swapper receiver : Z) (prov : option Z) (out : bool) (r : route)
      (amt_in x : Z) (s : st) : res (st * swap_resp) :=
      let! (s1, resp) := (if out then keeper_swap_out swapper prov r amt_in x s
                          else keeper_swap_in swapper prov r amt_in x s) in
      let t := sr_tree resp in
      let! net := of_opt (chk_int (rr_aout t - sr_fee resp)) in
      if net <? 0 then Panic else
      let! b := (if net =? 0 then Ok (bk s1) else bank_send (bk s1) swapper receiver (rr_dout t) net) in
      Ok ({| bk := b; pools := pools s1 |}, {| sr_tree := t; sr_fee := sr_fee resp; sr_amount := net |}).

    Definition msg_swap_out (sender : Z) (prov : option Z) (r : route) (maxin aout : Z) (s : st)
      : res (st * swap_resp) :=
      let! _ := validate v r in
      if maxin <=? 0 then Err E_INVALID_AMOUNT else
      if aout <=? 0 then Err E_INVALID_AMOUNT else
      keeper_swap_out sender prov r maxin aout s.

    (* Query/CalculationSwapExactAmountOut: the third field is AmountIn *)
    Definition query_out (has : bool) (r : route) (aout : Z) (s : st) : res swap_resp :=
      let! _ := query_guard r aout in
      let! (t, fee) := calc_out has r aout s in
      Ok {| sr_tree := t; sr_fee := fee; sr_amount := rr_ain t |}.
  End Msgs.
End Pools.

Arguments bk {PS} _.
Arguments pools {PS} _.
Arguments Build_st {PS} _ _.
