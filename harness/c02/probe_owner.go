package c02

import (
	"fmt"
	"os"
	"strings"

	sdkmath "cosmossdk.io/math"
	sdk "github.com/cosmos/cosmos-sdk/types"

	lptypes "github.com/sunriselayer/sunrise/x/liquiditypool/types"

	"verifharness/amm"
)

// probeOwner (C02_EXPLORE=owner): does an all-upper-case sender string create a position nobody can exit?
func probeOwner(w *amm.World) {
	p, err := w.CreatePool("urise", "uusdc", "0.003", "1.0001", "0")
	if err != nil {
		panic(err)
	}
	a := w.H.Accts[1]
	up := strings.ToUpper(a.Addr.String())
	code, log, err := deliver(w.H, a, &lptypes.MsgCreatePosition{Sender: up, PoolId: p.ID, LowerTick: -100, UpperTick: 100,
		TokenBase: sdk.NewInt64Coin("urise", 1000000), TokenQuote: sdk.NewInt64Coin("uusdc", 1000000),
		MinAmountBase: sdkmath.ZeroInt(), MinAmountQuote: sdkmath.ZeroInt()})
	fmt.Println("PROBE create (signed tx, upper-case sender): code", code, "log", log, "err", err)
	ctx := w.H.Ctx()
	for _, q := range w.C02Positions(ctx, p) {
		fmt.Println("PROBE stored position", q.Id, "owner string", q.Address, "liquidity", q.Liquidity)
		for _, s := range []string{up, a.Addr.String()} {
			code, log, err = deliver(w.H, a, &lptypes.MsgDecreaseLiquidity{Sender: s, Id: q.Id, Liquidity: q.Liquidity})
			fmt.Println("PROBE decrease with sender", s[:12], ": code", code, "log", log, "err", err)
			code, log, err = deliver(w.H, a, &lptypes.MsgClaimRewards{Sender: s, PositionIds: []uint64{q.Id}})
			fmt.Println("PROBE claim    with sender", s[:12], ": code", code, "log", log, "err", err)
			code, log, err = deliver(w.H, a, &lptypes.MsgIncreaseLiquidity{Sender: s, Id: q.Id, AmountBase: sdkmath.NewInt(10), AmountQuote: sdkmath.NewInt(10), MinAmountBase: sdkmath.ZeroInt(), MinAmountQuote: sdkmath.ZeroInt()})
			fmt.Println("PROBE increase with sender", s[:12], ": code", code, "log", log, "err", err)
		}
	}
	os.Exit(0)
}
