package c15

import (
	"bytes"
	"fmt"
	"reflect"
	"strings"
	"time"

	sdkmath "cosmossdk.io/math"
	stakingtypes "cosmossdk.io/x/staking/types"
	groth16bn254 "github.com/consensys/gnark/backend/groth16/bn254"
	codectypes "github.com/cosmos/cosmos-sdk/codec/types"
	"github.com/cosmos/cosmos-sdk/crypto/keys/ed25519"
	sdk "github.com/cosmos/cosmos-sdk/types"
	query "github.com/cosmos/cosmos-sdk/types/query"

	datypes "github.com/sunriselayer/sunrise/x/da/types"
	feetypes "github.com/sunriselayer/sunrise/x/fee/types"
	litypes "github.com/sunriselayer/sunrise/x/liquidityincentive/types"
	lptypes "github.com/sunriselayer/sunrise/x/liquiditypool/types"
	sdtypes "github.com/sunriselayer/sunrise/x/selfdelegation/types"
	sctypes "github.com/sunriselayer/sunrise/x/shareclass/types"
	swaptypes "github.com/sunriselayer/sunrise/x/swap/types"
	tctypes "github.com/sunriselayer/sunrise/x/tokenconverter/types"

	"verifharness/c15/shape"
	"verifharness/emit"
)

// emptyProof is a syntactically valid serialised Groth16 proof (all points at infinity).
func emptyProof() []byte {
	var buf bytes.Buffer
	if _, err := (&groth16bn254.Proof{}).WriteTo(&buf); err != nil {
		panic(err)
	}
	return buf.Bytes()
}

// base returns a valid (accepted or at least head-passing) request for the method, built
// from the state of the world; nil when the method has no hand-written base (then the
// reflective generator is used).
func (w *world) base(r *emit.Rand, key string) any {
	a := func() string { return w.p.accAddrs[r.Intn(len(w.p.accAddrs))] }
	a0 := w.p.accAddrs[0] // owner of the positions
	val := w.p.valAddrs[0]
	gov := w.p.authority
	ctx := w.h.Ctx()
	switch key {
	// ---- da
	case "da.Msg.PublishData":
		return &datypes.MsgPublishData{Sender: a(), MetadataUri: fmt.Sprintf("ipfs://new%d", r.Intn(1000)), ParityShardCount: 1,
			ShardDoubleHashes: [][]byte{{1}, {2}, {3}}, DataSourceInfo: "x"}
	case "da.Msg.RegisterProofDeputy":
		return &datypes.MsgRegisterProofDeputy{Sender: a(), DeputyAddress: a()}
	case "da.Msg.UnregisterProofDeputy":
		return &datypes.MsgUnregisterProofDeputy{Sender: a()}
	case "da.Msg.SubmitInvalidity":
		return &datypes.MsgSubmitInvalidity{Sender: a(), MetadataUri: "ipfs://item0", Indices: []int64{0, 1}}
	case "da.Msg.SubmitValidityProof":
		// the validator itself or its registered deputy proves one or two shards of the challenged item
		sender := sdk.AccAddress(w.valBytes).String()
		if r.Bool() {
			sender = w.deputy
		}
		i := r.Intn(3)
		req := &datypes.MsgSubmitValidityProof{Sender: sender, ValidatorAddress: val, MetadataUri: "ipfs://challenged",
			Indices: []int64{int64(i)}, Proofs: [][]byte{w.proofs[i]}}
		if r.Bool() {
			j := (i + 1) % 3
			req.Indices, req.Proofs = append(req.Indices, int64(j)), append(req.Proofs, w.proofs[j])
		}
		return req
	case "da.Msg.UpdateParams":
		p, err := w.h.App.DaKeeper.Params.Get(ctx)
		must(err)
		return &datypes.MsgUpdateParams{Authority: gov, Params: p}
	case "da.Query.ValidatorShardIndices":
		return &datypes.QueryValidatorShardIndicesRequest{ValidatorAddress: val, ShardCount: uint64(r.Intn(30))}
	case "da.Query.ZkpProofThreshold":
		return &datypes.QueryZkpProofThresholdRequest{ShardCount: uint64(r.Intn(30))}
	case "da.Query.Invalidity":
		return &datypes.QueryInvalidityRequest{MetadataUri: "ipfs://item0", SenderAddress: a()}
	case "da.Query.ValidityProof":
		return &datypes.QueryValidityProofRequest{MetadataUri: "ipfs://item0", ValidatorAddress: val}
	case "da.Query.ProofDeputy":
		return &datypes.QueryProofDeputyRequest{ValidatorAddress: val}
	// ---- fee
	case "fee.Msg.UpdateParams":
		p, err := w.h.App.FeeKeeper.Params.Get(ctx)
		must(err)
		return &feetypes.MsgUpdateParams{Authority: gov, Params: p}
	// ---- liquidityincentive
	case "liquidityincentive.Msg.UpdateParams":
		p, err := w.h.App.LiquidityincentiveKeeper.Params.Get(ctx)
		must(err)
		return &litypes.MsgUpdateParams{Authority: gov, Params: p}
	case "liquidityincentive.Msg.VoteGauge":
		return &litypes.MsgVoteGauge{Sender: a(), PoolWeights: []litypes.PoolWeight{{PoolId: 0, Weight: emit.Pick(r, "0.5", "0.3", "1", "0")}, {PoolId: 1, Weight: emit.Pick(r, "0.5", "0.1", "0")}}}
	case "liquidityincentive.Msg.CollectVoteRewards":
		return &litypes.MsgCollectVoteRewards{Sender: a()}
	case "liquidityincentive.Query.Vote":
		return &litypes.QueryVoteRequest{Address: a()}
	// ---- liquiditypool
	case "liquiditypool.Msg.UpdateParams":
		p, err := w.h.App.LiquiditypoolKeeper.Params.Get(ctx)
		must(err)
		return &lptypes.MsgUpdateParams{Authority: gov, Params: p}
	case "liquiditypool.Msg.CreatePool":
		return &lptypes.MsgCreatePool{Authority: a(), DenomBase: emit.Pick(r, "uatom", "uosmo"), DenomQuote: emit.Pick(r, "urise", "uusdc"),
			FeeRate: "0.01", PriceRatio: "1.0001", BaseOffset: emit.Pick(r, "0.5", "0", "0.9")}
	case "liquiditypool.Msg.CreatePosition":
		id := uint64(r.Intn(2))
		return &lptypes.MsgCreatePosition{Sender: a(), PoolId: id, LowerTick: -int64(1 + r.Intn(500)), UpperTick: int64(1 + r.Intn(500)),
			TokenBase: sdk.NewInt64Coin(poolDenoms[id][0], int64(1+r.Intn(1_000_000))), TokenQuote: sdk.NewInt64Coin(poolDenoms[id][1], int64(1+r.Intn(1_000_000))),
			MinAmountBase: sdkmath.ZeroInt(), MinAmountQuote: sdkmath.ZeroInt()}
	case "liquiditypool.Msg.IncreaseLiquidity":
		return &lptypes.MsgIncreaseLiquidity{Sender: a0, Id: uint64(r.Intn(2)), AmountBase: sdkmath.NewInt(int64(1 + r.Intn(100000))),
			AmountQuote: sdkmath.NewInt(int64(1 + r.Intn(100000))), MinAmountBase: sdkmath.ZeroInt(), MinAmountQuote: sdkmath.ZeroInt()}
	case "liquiditypool.Msg.DecreaseLiquidity":
		return &lptypes.MsgDecreaseLiquidity{Sender: a0, Id: uint64(r.Intn(2)), Liquidity: emit.Pick(r, "1000", "1", "0.5", "100000000")}
	case "liquiditypool.Msg.ClaimRewards":
		return &lptypes.MsgClaimRewards{Sender: a0, PositionIds: []uint64{uint64(r.Intn(2))}}
	case "liquiditypool.Query.AddressPositions":
		return &lptypes.QueryAddressPositionsRequest{Address: a0}
	case "liquiditypool.Query.CalculationCreatePosition":
		id := uint64(r.Intn(2))
		return &lptypes.QueryCalculationCreatePositionRequest{PoolId: id, LowerTick: fmt.Sprint(-int64(1 + r.Intn(500))), UpperTick: fmt.Sprint(1 + r.Intn(500)),
			Amount: fmt.Sprint(1 + r.Intn(100000)), Denom: poolDenoms[id][r.Intn(2)]}
	case "liquiditypool.Query.CalculationIncreaseLiquidity":
		id := uint64(r.Intn(2))
		return &lptypes.QueryCalculationIncreaseLiquidityRequest{Id: id, AmountIn: fmt.Sprint(1 + r.Intn(100000)), DenomIn: poolDenoms[id][r.Intn(2)]}
	case "liquiditypool.Query.Pools":
		return &lptypes.QueryPoolsRequest{Pagination: &query.PageRequest{Limit: uint64(r.Intn(5))}}
	// ---- selfdelegation
	case "selfdelegation.Msg.UpdateParams":
		p, err := w.h.App.SelfdelegationKeeper.Params.Get(ctx)
		must(err)
		return &sdtypes.MsgUpdateParams{Authority: gov, Params: p}
	case "selfdelegation.Msg.SelfDelegate":
		return &sdtypes.MsgSelfDelegate{Sender: a(), Amount: sdkmath.NewInt(int64(1 + r.Intn(1000000)))}
	case "selfdelegation.Msg.WithdrawSelfDelegationUnbonded":
		return &sdtypes.MsgWithdrawSelfDelegationUnbonded{Sender: a(), Amount: sdkmath.NewInt(int64(1 + r.Intn(1000000)))}
	case "selfdelegation.Msg.RegisterLockupAccount":
		return &sdtypes.MsgRegisterLockupAccount{Sender: a(), Owner: a()}
	case "selfdelegation.Query.LockupAccountsByOwner":
		return &sdtypes.QueryLockupAccountsByOwnerRequest{OwnerAddress: a()}
	case "selfdelegation.Query.SelfDelegationProxyAccountByOwner":
		return &sdtypes.QuerySelfDelegationProxyAccountByOwnerRequest{OwnerAddress: a()}
	// ---- shareclass
	case "shareclass.Msg.UpdateParams":
		p, err := w.h.App.ShareclassKeeper.Params.Get(ctx)
		must(err)
		return &sctypes.MsgUpdateParams{Authority: gov, Params: p}
	case "shareclass.Msg.NonVotingDelegate":
		return &sctypes.MsgNonVotingDelegate{Sender: a(), ValidatorAddress: val, Amount: sdk.NewInt64Coin("urise", int64(1+r.Intn(1000000)))}
	case "shareclass.Msg.NonVotingUndelegate":
		return &sctypes.MsgNonVotingUndelegate{Sender: a(), ValidatorAddress: val, Amount: sdk.NewInt64Coin("urise", int64(1+r.Intn(1000))), Recipient: emit.Pick(r, "", a())}
	case "shareclass.Msg.ClaimRewards":
		return &sctypes.MsgClaimRewards{Sender: a(), ValidatorAddress: val}
	case "shareclass.Msg.CreateValidator":
		p, err := w.h.App.ShareclassKeeper.Params.Get(ctx)
		must(err)
		pk, err := codectypes.NewAnyWithValue(ed25519.GenPrivKeyFromSecret([]byte(fmt.Sprint("newval", r.Intn(1000)))).PubKey())
		must(err)
		acc := w.h.Accts[1+r.Intn(len(w.h.Accts)-1)].Addr
		return &sctypes.MsgCreateValidator{
			Description:       stakingtypes.Description{Moniker: "m"},
			Commission:        stakingtypes.CommissionRates{Rate: sdkmath.LegacyNewDecWithPrec(1, 1), MaxRate: sdkmath.LegacyNewDecWithPrec(2, 1), MaxChangeRate: sdkmath.LegacyNewDecWithPrec(1, 2)},
			MinSelfDelegation: sdkmath.OneInt(), ValidatorAddress: sdk.ValAddress(acc).String(), Pubkey: pk,
			Amount: sdk.NewCoin("urise", w.h.App.StakingKeeper.PowerReduction(ctx)), Fee: p.CreateValidatorFee}
	case "shareclass.Query.AddressBonded":
		return &sctypes.QueryAddressBondedRequest{Address: a()}
	case "shareclass.Query.AddressUnbonding":
		return &sctypes.QueryAddressUnbondingRequest{Address: a()}
	case "shareclass.Query.CalculateBondingAmount":
		return &sctypes.QueryCalculateBondingAmountRequest{ValidatorAddress: val, Share: sdkmath.NewInt(int64(r.Intn(1000)))}
	case "shareclass.Query.CalculateShare":
		return &sctypes.QueryCalculateShareRequest{ValidatorAddress: val, Amount: sdkmath.NewInt(int64(r.Intn(1000)))}
	case "shareclass.Query.ClaimableRewards":
		return &sctypes.QueryClaimableRewardsRequest{Address: a(), ValidatorAddress: val}
	// ---- swap
	case "swap.Msg.UpdateParams":
		p, err := w.h.App.SwapKeeper.Params.Get(ctx)
		must(err)
		return &swaptypes.MsgUpdateParams{Authority: gov, Params: p}
	case "swap.Msg.SwapExactAmountIn":
		rt := w.genRoute(r, emit.Pick(r, "urise", "uusdc", "uatom"), 2)
		return &swaptypes.MsgSwapExactAmountIn{Sender: a(), InterfaceProvider: emit.Pick(r, "", a()), Route: *rt,
			AmountIn: sdkmath.NewInt(int64(1 + r.Intn(100000))), MinAmountOut: sdkmath.NewInt(1)}
	case "swap.Msg.SwapExactAmountOut":
		rt := w.genRoute(r, emit.Pick(r, "urise", "uusdc", "uatom"), 2)
		return &swaptypes.MsgSwapExactAmountOut{Sender: a(), InterfaceProvider: emit.Pick(r, "", a()), Route: *rt,
			MaxAmountIn: sdkmath.NewInt(int64(1_000_000 + r.Intn(100000))), AmountOut: sdkmath.NewInt(int64(1 + r.Intn(10000)))}
	case "swap.Query.CalculationSwapExactAmountIn":
		return &swaptypes.QueryCalculationSwapExactAmountInRequest{HasInterfaceFee: r.Bool(), Route: w.genRoute(r, emit.Pick(r, "urise", "uusdc", "uatom"), 2), AmountIn: fmt.Sprint(1 + r.Intn(100000))}
	case "swap.Query.CalculationSwapExactAmountOut":
		return &swaptypes.QueryCalculationSwapExactAmountOutRequest{HasInterfaceFee: r.Bool(), Route: w.genRoute(r, emit.Pick(r, "urise", "uusdc", "uatom"), 2), AmountOut: fmt.Sprint(1 + r.Intn(10000))}
	// ---- tokenconverter
	case "tokenconverter.Msg.Convert":
		return &tctypes.MsgConvert{Sender: a(), Amount: sdkmath.NewInt(int64(1 + r.Intn(1000000)))}
	case "tokenconverter.Msg.UpdateParams":
		return &tctypes.MsgUpdateParams{Authority: gov, Params: tctypes.Params{}}
	}
	return nil
}

// leaf is one mutable field of a request.
type leaf struct {
	parent, field reflect.Value
	name          string
}

func leaves(v reflect.Value, out *[]leaf, depth int) {
	t := v.Type()
	for i := 0; i < t.NumField(); i++ {
		sf := t.Field(i)
		if sf.PkgPath != "" || strings.HasPrefix(sf.Name, "XXX_") {
			continue
		}
		f := v.Field(i)
		*out = append(*out, leaf{v.Addr(), f, sf.Name})
		ft := f.Type()
		if depth > 0 && ft.Kind() == reflect.Struct && ft != tInt && ft != tDec && ft != tTime && ft != reflect.TypeOf(swaptypes.Route{}) {
			leaves(f, out, depth-1)
		}
	}
}

// mutate damages one field of the request (chosen uniformly among all fields, including the
// fields of embedded sub-messages) with a value from the edge pools; routes are damaged
// structurally.
func (w *world) mutate(r *emit.Rand, req any) string {
	v := reflect.ValueOf(req).Elem()
	var ls []leaf
	leaves(v, &ls, 2)
	if len(ls) == 0 {
		return "none"
	}
	l := ls[r.Intn(len(ls))]
	switch x := l.field.Addr().Interface().(type) {
	case *swaptypes.Route:
		return "route:" + mutateRoute(r, x, 0)
	case **swaptypes.Route:
		if *x == nil || r.Chance(1, 8) {
			*x = nil
			return "route:nil"
		}
		return "route:" + mutateRoute(r, *x, 0)
	}
	l.field.Set(reflect.Zero(l.field.Type()))
	w.p.set(r, l.parent, l.field, l.name, 3)
	return "field:" + l.name
}

// runHead calls the real handler and renders the case.
func (w *world) runHead(m method, req any, tag string) (term string, info map[string]any, cls string) {
	n, o := w.context(m.Key(), req) // read from the state before the call
	ratio := w.poolRatio(req)
	cls, det := w.callMethod(m, req)
	code := map[string]int{clsOk: 0, clsErr: 1, clsPanic: 2}[cls]
	rv := reflect.ValueOf(req)
	val := "(VMsg false [])"
	if !rv.IsNil() {
		val = w.orc.Val(rv)
	}
	rs := fmt.Sprintf("%+v", req)
	if len(rs) > 600 {
		rs = rs[:600] + "..."
	}
	info = map[string]any{"kind": "head", "method": m.Key(), "tag": tag, "request": rs, "class": cls}
	if det != "" {
		if len(det) > 300 {
			det = det[:300]
		}
		info["detail"] = det
	}
	term = fmt.Sprintf("CHead %q %s %d %s %s %d", m.Key(), val, n, o, ratio, code)
	return term, info, cls
}

var _ = time.Second
var _ = shape.Bytes

// context reads from the state what the model takes as oracle values for a request: the length
// of the stored slice the request indexes into, and (where the harness can decide them from the
// state alone) the outcomes of the handler's state-dependent branches, in source order.
func (w *world) context(key string, req any) (n int, oracles string) {
	oracles = "None"
	msg, ok := req.(*datypes.MsgSubmitValidityProof)
	if !ok || msg == nil {
		return 0, oracles
	}
	ctx := w.stateCtx()
	k := w.h.App.DaKeeper
	item, found, err := k.GetPublishedData(ctx, msg.MetadataUri)
	if err != nil {
		return 0, oracles
	}
	if found {
		n = len(item.ShardDoubleHashes)
	}
	// branch 1: the validator exists and is bonded, the sender is the validator or its deputy
	signer := false
	sender, err1 := w.h.App.AuthKeeper.AddressCodec().StringToBytes(msg.Sender)
	valb, err2 := w.h.App.StakingKeeper.ValidatorAddressCodec().StringToBytes(msg.ValidatorAddress)
	if err1 == nil && err2 == nil {
		if v, err := w.h.App.StakingKeeper.Validator(ctx, sdk.ValAddress(valb)); err == nil && v.IsBonded() {
			if bytes.Equal(sender, valb) {
				signer = true
			} else if dep, ok, err := k.GetProofDeputy(ctx, valb); err == nil && ok && bytes.Equal(dep, sender) {
				signer = true
			}
		}
	}
	// branch 2: the item exists, is being challenged, the proof period is not over
	itemOK := false
	if found && item.Status == datypes.Status_STATUS_CHALLENGING {
		if params, err := k.Params.Get(ctx); err == nil && !item.Timestamp.Add(params.ProofPeriod).Before(ctx.BlockTime()) {
			itemOK = true
		}
	}
	// branch 3: every proof parses
	parse := true
	for _, p := range msg.Proofs {
		if _, err := (&groth16bn254.Proof{}).ReadFrom(bytes.NewReader(p)); err != nil {
			parse = false
		}
	}
	return n, fmt.Sprintf("(Some [%s; %s; %s])", emit.Bool(signer), emit.Bool(itemOK), emit.Bool(parse))
}

// poolRatio: the raw price ratio of the liquidity pool a position request addresses ("0" when the
// request names no pool or the pool does not exist).
func (w *world) poolRatio(req any) string {
	var id uint64
	switch r := req.(type) {
	case *lptypes.MsgCreatePosition:
		if r == nil {
			return "0"
		}
		id = r.PoolId
	case *lptypes.QueryCalculationCreatePositionRequest:
		if r == nil {
			return "0"
		}
		id = r.PoolId
	default:
		return "0"
	}
	p, found, err := w.h.App.LiquiditypoolKeeper.GetPool(w.stateCtx(), id)
	if err != nil || !found {
		return "0"
	}
	d, err := sdkmath.LegacyNewDecFromStr(p.TickParams.PriceRatio)
	if err != nil {
		return "0"
	}
	return emit.Z(d.BigInt())
}
