#!/bin/sh
# Regenerate go.mod / go.sum of the harness from /repo's current go.mod so that the
# harness always resolves exactly the dependency versions the repository pins.
set -e
cd "$(dirname "$0")"
REPO=${VERIF_REPO:-/repo}
{
  echo "module verifharness"
  echo
  sed -e '/^module /d' "$REPO/go.mod"
  echo
  echo "require github.com/sunriselayer/sunrise v0.0.0"
  echo "replace github.com/sunriselayer/sunrise => $REPO"
} > go.mod.new
if ! cmp -s go.mod.new go.mod; then mv go.mod.new go.mod; else rm go.mod.new; fi
if ! cmp -s "$REPO/go.sum" go.sum; then cp "$REPO/go.sum" go.sum; fi
