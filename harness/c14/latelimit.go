package c14

// Messages whose limit is checked AFTER the work is done.
//
// For every message with such a limit — x/swap SwapExactAmountIn (min_amount_out) and
// SwapExactAmountOut (max_amount_in) over single-pool, series and parallel routes, the same two
// through the ICS-20 swap memo (OnRecvPacket of the swap middleware over a localhost channel),
// x/liquiditypool CreatePosition and IncreaseLiquidity (min_amount_base / min_amount_quote) — the
// generator first executes the message with a permissive limit in a dropped cache context to learn
// what the execution yields on the current state, then sets the limit just beyond it (yield + 1
// for a minimum, yield - 1 for a maximum) so that the whole route / position arithmetic runs and
// the LATE error path is taken. The failing message is executed repeatK times per process, once
// through the recorded path and once as a signed transaction; code, codespace, gas (monitor 6) and
// the log text (monitor 7) must be the same on every execution in every process. DecreaseLiquidity
// has no such limit in this code base.

import (
	"encoding/hex"
	"fmt"
	"strconv"
	"strings"
	"time"

	sdkmath "cosmossdk.io/math"
	storetypes "cosmossdk.io/store/types"
	sdk "github.com/cosmos/cosmos-sdk/types"
	gogoproto "github.com/cosmos/gogoproto/proto"
	transfertypes "github.com/cosmos/ibc-go/v9/modules/apps/transfer/types"
	clienttypes "github.com/cosmos/ibc-go/v9/modules/core/02-client/types"
	channeltypes "github.com/cosmos/ibc-go/v9/modules/core/04-channel/types"
	ibcexported "github.com/cosmos/ibc-go/v9/modules/core/exported"
	localhost "github.com/cosmos/ibc-go/v9/modules/light-clients/09-localhost"

	lptypes "github.com/sunriselayer/sunrise/x/liquiditypool/types"
	swaptypes "github.com/sunriselayer/sunrise/x/swap/types"
)

const (
	ibcPort  = "transfer"
	ibcChanA = "channel-0" // the "remote" end
	ibcChanB = "channel-1" // the local end: packets sent on channel-0 arrive here
)

var ibcProofHeight = clienttypes.NewHeight(0, 2)

// quote runs f on the current state without keeping anything.
func (w *world) quote(f func(ctx sdk.Context) error) (err error) {
	ctx := w.h.Ctx().WithEventManager(sdk.NewEventManager()).WithGasMeter(storetypes.NewInfiniteGasMeter())
	cctx, _ := ctx.CacheContext()
	defer func() {
		if r := recover(); r != nil {
			err = fmt.Errorf("panic: %v", r)
		}
	}()
	return f(cctx)
}

func poolHop(in, out string, pool uint64) swaptypes.Route {
	return swaptypes.Route{DenomIn: in, DenomOut: out, Strategy: &swaptypes.Route_Pool{Pool: &swaptypes.RoutePool{PoolId: pool}}}
}

// validRoute: pool 0 and pool 3 are uusdc/uatom, pool 1 uatom/uosmo, pool 2 uusdc/uosmo.
func (w *world) validRoute() (swaptypes.Route, string) {
	switch w.r.Intn(4) {
	case 0:
		return swaptypes.Route{DenomIn: "uusdc", DenomOut: "uosmo", Strategy: &swaptypes.Route_Series{Series: &swaptypes.RouteSeries{
			Routes: []swaptypes.Route{poolHop("uusdc", "uatom", w.pools[0]), poolHop("uatom", "uosmo", w.pools[1])}}}}, "series uusdc>uatom>uosmo"
	case 1:
		ws := [][]string{{"0.5", "0.5"}, {"0.3", "0.7"}, {"1", "2"}}[w.r.Intn(3)]
		return swaptypes.Route{DenomIn: "uusdc", DenomOut: "uatom", Strategy: &swaptypes.Route_Parallel{Parallel: &swaptypes.RouteParallel{
			Routes: []swaptypes.Route{poolHop("uusdc", "uatom", w.pools[0]), poolHop("uusdc", "uatom", w.poolPar)}, Weights: ws}}}, fmt.Sprintf("parallel uusdc>uatom %v", ws)
	case 2:
		return poolHop("uosmo", "uatom", w.pools[1]), "pool uosmo>uatom"
	default:
		return poolHop("uusdc", "uosmo", w.pools[2]), "pool uusdc>uosmo"
	}
}

func (w *world) lateSwap() {
	r := w.r
	a := 1 + r.Intn(len(w.h.Accts)-1)
	acct := w.h.Accts[a]
	route, desc := w.validRoute()
	amt := sdkmath.NewInt(int64(1000 + r.Intn(3_000_000)))
	if r.Bool() {
		var out sdkmath.Int
		err := w.quote(func(ctx sdk.Context) error {
			resp, e := w.sw.SwapExactAmountIn(ctx, &swaptypes.MsgSwapExactAmountIn{Sender: acct.Addr.String(), Route: route, AmountIn: amt, MinAmountOut: sdkmath.OneInt()})
			if e == nil {
				out = resp.AmountOut
			}
			return e
		})
		if err != nil {
			w.count("late:quote-failed")
			return
		}
		msg := &swaptypes.MsgSwapExactAmountIn{Sender: acct.Addr.String(), Route: route, AmountIn: amt, MinAmountOut: out.AddRaw(1)}
		arg := fmt.Sprintf("acct %d %s in %s yields %s, min_amount_out %s", a, desc, amt, out, msg.MinAmountOut)
		w.execRepeat("swap-exact-in-late-limit", arg, func(ctx sdk.Context) (gogoproto.Message, error) { return w.sw.SwapExactAmountIn(ctx, msg) })
		w.queueTx("swap-exact-in-late-limit", arg, acct, msg)
		return
	}
	var in sdkmath.Int
	huge := sdkmath.NewInt(1_000_000_000_000)
	err := w.quote(func(ctx sdk.Context) error {
		resp, e := w.sw.SwapExactAmountOut(ctx, &swaptypes.MsgSwapExactAmountOut{Sender: acct.Addr.String(), Route: route, MaxAmountIn: huge, AmountOut: amt})
		if e == nil {
			in = resp.Result.TokenIn.Amount
		}
		return e
	})
	if err != nil || !in.GT(sdkmath.OneInt()) {
		w.count("late:quote-failed")
		return
	}
	msg := &swaptypes.MsgSwapExactAmountOut{Sender: acct.Addr.String(), Route: route, MaxAmountIn: in.SubRaw(1), AmountOut: amt}
	arg := fmt.Sprintf("acct %d %s out %s costs %s, max_amount_in %s", a, desc, amt, in, msg.MaxAmountIn)
	w.execRepeat("swap-exact-out-late-limit", arg, func(ctx sdk.Context) (gogoproto.Message, error) { return w.sw.SwapExactAmountOut(ctx, msg) })
	w.queueTx("swap-exact-out-late-limit", arg, acct, msg)
}

func (w *world) latePosition() {
	r := w.r
	a := 1 + r.Intn(len(w.h.Accts)-1)
	acct := w.h.Accts[a]
	bump := func(base, quote sdkmath.Int) (sdkmath.Int, sdkmath.Int, string) {
		switch r.Intn(3) {
		case 0:
			return base.AddRaw(1), sdkmath.ZeroInt(), "min_amount_base = yield + 1"
		case 1:
			return sdkmath.ZeroInt(), quote.AddRaw(1), "min_amount_quote = yield + 1"
		default:
			return base.AddRaw(1), quote.AddRaw(1), "both minimums = yield + 1"
		}
	}
	if ids := w.positions[a]; len(ids) > 0 && r.Bool() {
		id := ids[r.Intn(len(ids))]
		ab, aq := sdkmath.NewInt(int64(10_000+r.Intn(1_000_000))), sdkmath.NewInt(int64(10_000+r.Intn(1_000_000)))
		var yb, yq sdkmath.Int
		err := w.quote(func(ctx sdk.Context) error {
			resp, e := w.lp.IncreaseLiquidity(ctx, &lptypes.MsgIncreaseLiquidity{Sender: acct.Addr.String(), Id: id, AmountBase: ab, AmountQuote: aq,
				MinAmountBase: sdkmath.ZeroInt(), MinAmountQuote: sdkmath.ZeroInt()})
			if e == nil {
				yb, yq = resp.AmountBase, resp.AmountQuote
			}
			return e
		})
		if err != nil {
			w.count("late:quote-failed")
			return
		}
		mb, mq, how := bump(yb, yq)
		msg := &lptypes.MsgIncreaseLiquidity{Sender: acct.Addr.String(), Id: id, AmountBase: ab, AmountQuote: aq, MinAmountBase: mb, MinAmountQuote: mq}
		arg := fmt.Sprintf("acct %d position %d %s/%s yields %s/%s, %s", a, id, ab, aq, yb, yq, how)
		w.execRepeat("increase-liquidity-late-limit", arg, func(ctx sdk.Context) (gogoproto.Message, error) { return w.lp.IncreaseLiquidity(ctx, msg) })
		w.queueTx("increase-liquidity-late-limit", arg, acct, msg)
		return
	}
	pool := w.pools[r.Intn(len(w.pools))]
	db, dq := w.poolDenoms(pool)
	lo, hi := int64(-1-r.Intn(300)), int64(1+r.Intn(300))
	tb, tq := sdk.NewInt64Coin(db, int64(100_000+r.Intn(10_000_000))), sdk.NewInt64Coin(dq, int64(100_000+r.Intn(10_000_000)))
	var yb, yq sdkmath.Int
	err := w.quote(func(ctx sdk.Context) error {
		resp, e := w.lp.CreatePosition(ctx, &lptypes.MsgCreatePosition{Sender: acct.Addr.String(), PoolId: pool, LowerTick: lo, UpperTick: hi,
			TokenBase: tb, TokenQuote: tq, MinAmountBase: sdkmath.ZeroInt(), MinAmountQuote: sdkmath.ZeroInt()})
		if e == nil {
			yb, yq = resp.AmountBase, resp.AmountQuote
		}
		return e
	})
	if err != nil {
		w.count("late:quote-failed")
		return
	}
	mb, mq, how := bump(yb, yq)
	msg := &lptypes.MsgCreatePosition{Sender: acct.Addr.String(), PoolId: pool, LowerTick: lo, UpperTick: hi, TokenBase: tb, TokenQuote: tq, MinAmountBase: mb, MinAmountQuote: mq}
	arg := fmt.Sprintf("acct %d pool %d [%d,%d] %s/%s yields %s/%s, %s", a, pool, lo, hi, tb, tq, yb, yq, how)
	w.execRepeat("create-position-late-limit", arg, func(ctx sdk.Context) (gogoproto.Message, error) { return w.lp.CreatePosition(ctx, msg) })
	w.queueTx("create-position-late-limit", arg, acct, msg)
}

// ---------------------------------------------------------------- ICS-20 swap memo over a localhost channel

func (w *world) setupIBC() {
	a := w.h.App
	relayer := w.h.Accts[0].Addr.String()
	err := w.exec("ibc-channel-handshake", ibcChanA+"<->"+ibcChanB, func(ctx sdk.Context) (gogoproto.Message, error) {
		if _, err := a.IBCKeeper.ChannelOpenInit(ctx, channeltypes.NewMsgChannelOpenInit(ibcPort, transfertypes.V1, channeltypes.UNORDERED,
			[]string{ibcexported.LocalhostConnectionID}, ibcPort, relayer)); err != nil {
			return nil, err
		}
		if _, err := a.IBCKeeper.ChannelOpenTry(ctx, channeltypes.NewMsgChannelOpenTry(ibcPort, transfertypes.V1, channeltypes.UNORDERED,
			[]string{ibcexported.LocalhostConnectionID}, ibcPort, ibcChanA, transfertypes.V1, localhost.SentinelProof, ibcProofHeight, relayer)); err != nil {
			return nil, err
		}
		if _, err := a.IBCKeeper.ChannelOpenAck(ctx, channeltypes.NewMsgChannelOpenAck(ibcPort, ibcChanA, ibcChanB, transfertypes.V1, localhost.SentinelProof, ibcProofHeight, relayer)); err != nil {
			return nil, err
		}
		_, err := a.IBCKeeper.ChannelOpenConfirm(ctx, channeltypes.NewMsgChannelOpenConfirm(ibcPort, ibcChanB, localhost.SentinelProof, ibcProofHeight, relayer))
		return nil, err
	})
	if err != nil {
		w.out.Notes = append(w.out.Notes, "IBC localhost channel not available: "+err.Error())
		return
	}
	// account 0 receives a large amount of the voucher of uosmo and makes a voucher/uusdc pool
	amt := sdkmath.NewInt(5_000_000_000_000)
	p, ok := w.ibcSend(0, w.h.Accts[0].Addr.String(), sdk.NewCoin("uosmo", amt), "")
	if !ok {
		return
	}
	ack, ok := w.ibcRecv(p)
	if !ok {
		return
	}
	w.ibcAck(p, ack)
	w.voucher = transfertypes.ExtractDenomFromPath(ibcPort + "/" + ibcChanB + "/uosmo").IBCDenom()
	if !w.h.Bal(w.h.Ctx(), w.h.Accts[0].Addr, w.voucher).Equal(amt) {
		w.out.Notes = append(w.out.Notes, "IBC setup: voucher not received")
		w.voucher = ""
		return
	}
	a0 := w.h.Accts[0].Addr.String()
	var id uint64
	err = w.exec("create-pool", "voucher/uusdc", func(ctx sdk.Context) (gogoproto.Message, error) {
		resp, e := w.lp.CreatePool(ctx, &lptypes.MsgCreatePool{Authority: a0, DenomBase: w.voucher, DenomQuote: "uusdc", FeeRate: "0.003", PriceRatio: "1.0001", BaseOffset: "0.5"})
		if e == nil {
			id = resp.Id
		}
		return resp, e
	})
	if err == nil {
		err = w.exec("create-position", "voucher pool wide", func(ctx sdk.Context) (gogoproto.Message, error) {
			return w.lp.CreatePosition(ctx, &lptypes.MsgCreatePosition{Sender: a0, PoolId: id, LowerTick: -4000, UpperTick: 4000,
				TokenBase: sdk.NewCoin(w.voucher, sdkmath.NewInt(1_000_000_000_000)), TokenQuote: sdk.NewInt64Coin("uusdc", 1_000_000_000_000),
				MinAmountBase: sdkmath.ZeroInt(), MinAmountQuote: sdkmath.ZeroInt()})
		})
	}
	if err != nil {
		w.out.Notes = append(w.out.Notes, "IBC setup: voucher pool: "+err.Error())
		w.voucher = ""
		return
	}
	w.poolVoucher = id
}

func packetOf(evs sdk.Events, typ string) (channeltypes.Packet, []byte, bool) {
	for _, ev := range evs {
		if ev.Type != typ {
			continue
		}
		var p channeltypes.Packet
		var ack []byte
		for _, at := range ev.Attributes {
			switch at.Key {
			case channeltypes.AttributeKeyDataHex:
				p.Data, _ = hex.DecodeString(at.Value)
			case channeltypes.AttributeKeySequence:
				p.Sequence, _ = strconv.ParseUint(at.Value, 10, 64)
			case channeltypes.AttributeKeySrcPort:
				p.SourcePort = at.Value
			case channeltypes.AttributeKeySrcChannel:
				p.SourceChannel = at.Value
			case channeltypes.AttributeKeyDstPort:
				p.DestinationPort = at.Value
			case channeltypes.AttributeKeyDstChannel:
				p.DestinationChannel = at.Value
			case channeltypes.AttributeKeyTimeoutHeight:
				p.TimeoutHeight, _ = clienttypes.ParseHeight(at.Value)
			case channeltypes.AttributeKeyTimeoutTimestamp:
				p.TimeoutTimestamp, _ = strconv.ParseUint(at.Value, 10, 64)
			case channeltypes.AttributeKeyAckHex:
				ack, _ = hex.DecodeString(at.Value)
			}
		}
		return p, ack, true
	}
	return channeltypes.Packet{}, nil, false
}

func (w *world) ibcSend(from int, to string, coin sdk.Coin, memo string) (channeltypes.Packet, bool) {
	var p channeltypes.Packet
	found := false
	w.exec("ibc-transfer", fmt.Sprintf("acct %d -> %s %s memo %s", from, to, coin, memo), func(ctx sdk.Context) (gogoproto.Message, error) {
		resp, err := w.h.App.TransferKeeper.Transfer(ctx, &transfertypes.MsgTransfer{SourcePort: ibcPort, SourceChannel: ibcChanA, Token: coin,
			Sender: w.h.Accts[from].Addr.String(), Receiver: to, TimeoutTimestamp: uint64(w.h.Time.Add(24 * time.Hour).UnixNano()), Memo: memo})
		if err == nil {
			p, _, found = packetOf(ctx.EventManager().Events(), channeltypes.EventTypeSendPacket)
		}
		return resp, err
	})
	return p, found
}

func (w *world) recvMsg(p channeltypes.Packet) *channeltypes.MsgRecvPacket {
	return channeltypes.NewMsgRecvPacket(p, localhost.SentinelProof, ibcProofHeight, w.h.Accts[0].Addr.String())
}

func (w *world) ibcRecv(p channeltypes.Packet) ([]byte, bool) {
	var ack []byte
	found := false
	w.exec("ibc-recv-packet", fmt.Sprintf("seq %d", p.Sequence), func(ctx sdk.Context) (gogoproto.Message, error) {
		resp, err := w.h.App.IBCKeeper.RecvPacket(ctx, w.recvMsg(p))
		if err == nil {
			_, ack, found = packetOf(ctx.EventManager().Events(), channeltypes.EventTypeWriteAck)
		}
		return resp, err
	})
	return ack, found
}

func (w *world) ibcAck(p channeltypes.Packet, ack []byte) {
	w.exec("ibc-acknowledgement", fmt.Sprintf("seq %d ack %s", p.Sequence, ack), func(ctx sdk.Context) (gogoproto.Message, error) {
		return w.h.App.IBCKeeper.Acknowledgement(ctx, channeltypes.NewMsgAcknowledgement(p, ack, localhost.SentinelProof, ibcProofHeight, w.h.Accts[0].Addr.String()))
	})
}

// lateIBCSwap: an incoming transfer whose swap memo sets the limit just beyond the yield.
func (w *world) lateIBCSwap() {
	if w.voucher == "" {
		return
	}
	r := w.r
	a := 1 + r.Intn(len(w.h.Accts)-1)
	b := 1 + r.Intn(len(w.h.Accts)-1)
	route := poolHop(w.voucher, "uusdc", w.poolVoucher)
	routeJSON := fmt.Sprintf(`{"denom_in":"%s","denom_out":"uusdc","pool":{"pool_id":"%d"}}`, w.voucher, w.poolVoucher)
	lp := w.h.Accts[0].Addr.String() // holds vouchers: used for quoting only
	var memo, how string
	var send sdkmath.Int
	if r.Bool() {
		amt := sdkmath.NewInt(int64(1000 + r.Intn(2_000_000)))
		var out sdkmath.Int
		if err := w.quote(func(ctx sdk.Context) error {
			resp, e := w.sw.SwapExactAmountIn(ctx, &swaptypes.MsgSwapExactAmountIn{Sender: lp, Route: route, AmountIn: amt, MinAmountOut: sdkmath.OneInt()})
			if e == nil {
				out = resp.AmountOut
			}
			return e
		}); err != nil {
			w.count("late:quote-failed")
			return
		}
		send = amt
		memo = fmt.Sprintf(`{"swap":{"route":%s,"exact_amount_in":{"min_amount_out":"%s"}}}`, routeJSON, out.AddRaw(1))
		how = fmt.Sprintf("exact in %s yields %s, min_amount_out %s", amt, out, out.AddRaw(1))
	} else {
		amt := sdkmath.NewInt(int64(1000 + r.Intn(2_000_000)))
		var in sdkmath.Int
		if err := w.quote(func(ctx sdk.Context) error {
			resp, e := w.sw.SwapExactAmountOut(ctx, &swaptypes.MsgSwapExactAmountOut{Sender: lp, Route: route, MaxAmountIn: sdkmath.NewInt(1_000_000_000_000), AmountOut: amt})
			if e == nil {
				in = resp.Result.TokenIn.Amount
			}
			return e
		}); err != nil || !in.GT(sdkmath.OneInt()) {
			w.count("late:quote-failed")
			return
		}
		send = in.SubRaw(1) // the amount received is the max_amount_in of the swap
		memo = fmt.Sprintf(`{"swap":{"route":%s,"exact_amount_out":{"amount_out":"%s"}}}`, routeJSON, amt)
		how = fmt.Sprintf("exact out %s costs %s, received %s", amt, in, send)
	}
	p, ok := w.ibcSend(a, w.h.Accts[b].Addr.String(), sdk.NewCoin("uosmo", send), memo)
	if !ok {
		return
	}
	arg := fmt.Sprintf("acct %d -> acct %d %s memo %s", a, b, how, memo)
	// the receive is executed repeatK times on the same state; what a node would publish is the
	// acknowledgement it writes (consensus relevant) and the events (log-like)
	ro := repeatObs{Kind: "ibc-recv-swap-late-limit", Arg: arg}
	for i := 0; i < repeatK; i++ {
		ctx := w.h.Ctx().WithEventManager(sdk.NewEventManager()).WithGasMeter(storetypes.NewInfiniteGasMeter())
		cctx, _ := ctx.CacheContext()
		var out string
		func() {
			defer func() {
				if rec := recover(); rec != nil {
					out = fmt.Sprintf("panic/0 gas=0%spanic: %v", logSep, rec)
				}
			}()
			_, err := w.h.App.IBCKeeper.RecvPacket(cctx, w.recvMsg(p))
			if err != nil {
				out = outcomeOf(err, uint64(ctx.GasMeter().GasConsumed()))
				return
			}
			_, ack, _ := packetOf(cctx.EventManager().Events(), channeltypes.EventTypeWriteAck)
			var evs []string
			for _, ev := range cctx.EventManager().Events() {
				var as []string
				for _, at := range ev.Attributes {
					as = append(as, at.Key+"="+at.Value)
				}
				evs = append(evs, ev.Type+"{"+strings.Join(as, ",")+"}")
			}
			out = fmt.Sprintf("ack=%s gas=%d%s%s", ack, ctx.GasMeter().GasConsumed(), logSep, strings.Join(evs, ";"))
		}()
		ro.Outcomes = append(ro.Outcomes, out)
	}
	w.out.Repeats = append(w.out.Repeats, ro)
	w.count("repeat:" + ro.Kind)
	if ack, ok := w.ibcRecv(p); ok {
		w.ibcAck(p, ack)
	}
}

func (w *world) opLateLimit() {
	switch w.r.Intn(5) {
	case 0, 1:
		w.lateSwap()
	case 2, 3:
		w.latePosition()
	default:
		w.lateIBCSwap()
	}
}
